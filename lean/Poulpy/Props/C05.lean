import Poulpy.Model.Core.Mul
import Poulpy.Lemmas.EpPhase
import Poulpy.Lemmas.NegHal
import Poulpy.Lemmas.MulTensor
import Poulpy.Lemmas.EpBridge
import Poulpy.Lemmas.MaskAnd
import Poulpy.Props.C03
import Poulpy.Lemmas.GadgetCore
import Poulpy.Lemmas.MulNorm
import Poulpy.Lemmas.CnvModel
import Poulpy.Lemmas.CnvAssign
import Poulpy.Lemmas.ValBridge
import Poulpy.Lemmas.AccAdd
import Poulpy.Lemmas.EpTotal
import Poulpy.Lemmas.HeadRoom
import Poulpy.Lemmas.TensorCols
import Poulpy.Lemmas.TensorValue
import Poulpy.Lemmas.MulCompose
import Poulpy.Lemmas.RelinCross
import Poulpy.Lemmas.MulNoise
import Poulpy.Props.C02
import Poulpy.Props.C07

/-!
# C05 — ciphertext multiplication (tensor, relinearise, plain, constant) scales right

Model: `Model/Core/Mul.lean` (`Core.cnvOffsetSplit`, `Core.msbMaskBottomLimb`, `Core.limbBound*`,
`Core.tensorApply`, `Core.tensorSquare`, `Core.mulPlain`, `Core.mulConst`, `Core.gglweProductDft`,
`Core.relinearize`), executed by `Driver/Mul.lean`, tied bit for bit to the four back ends by
`./check C05`.

Level A (arithmetic of the offsets, all inputs): the split `cnv_offset → (hi, lo)` loses nothing
(`(hi+1)·b + lo = cnv_offset`), `lo` stays within one limb, the bit offset that
`normalize_input_limb_bound_with_offset` derives from `lo` is `cnv_offset mod b`, and the limb bound
keeps every convolution limb whose *position* lies above the output precision.
Level B (exact polynomials): bilinear expansion of the product of two phases into the tensor
columns, the pairwise trick, and the wrapping column arithmetic that makes `square` and `apply`
agree; `tensor_phase` is the general-rank statement (ring laws of the negacyclic product by transfer from
`AdjoinRoot (X^n+1)`).  Model level: `tensorSquare_eq_tensorApply` and `tensorApply_acc_eq_add` (ranks 1, 2).
What is not proved is listed at the end.
-/

namespace C05
open Hal Core KsDec

/-- the split of `cnv_offset` is exact: skipping `hi` limbs of the convolution (which scales by
`2^{(hi+1)·b}` because limb `k` of a product has weight `2^{-(k+2)·b}`) and shifting by `lo` bits
places the product at `2^{cnv_offset}` -/
theorem cnvOffsetSplit_total (b off : Nat) (hb : 0 < b) :
    (((cnvOffsetSplit b off).1 + 1) * b : Int) + (cnvOffsetSplit b off).2 = off := by
  unfold cnvOffsetSplit
  by_cases h : off < b
  · rw [if_pos h]
    simp only [Nat.mod_eq_of_lt h]
    have : ((b - off : Nat) : Int) = (b : Int) - off := by omega
    rw [this]
    omega
  · rw [if_neg h]
    have hq : 1 ≤ off / b := (Nat.le_div_iff_mul_le hb).mpr (by omega)
    have e1 : off / b - 1 + 1 = off / b := by omega
    have e2 := Nat.div_add_mod off b
    simp only
    have : (((off / b - 1 : Nat) : Int) + 1) * (b : Int) = ((off / b * b : Nat) : Int) := by
      have : ((off / b - 1 : Nat) : Int) + 1 = ((off / b : Nat) : Int) := by omega
      rw [this]; simp
    rw [this]
    have e3 : off / b * b = b * (off / b) := Nat.mul_comm _ _
    omega

example : cnvOffsetSplit 12 7 = (0, -5) ∧ cnvOffsetSplit 12 31 = (1, 7) ∧ cnvOffsetSplit 12 24 = (1, 0) := by decide

/-- the bit part stays within one limb: `−b ≤ lo < b`, negative exactly when `cnv_offset < b` -/
theorem cnvOffsetSplit_lo_range (b off : Nat) (hb : 0 < b) :
    -(b : Int) ≤ (cnvOffsetSplit b off).2 ∧ (cnvOffsetSplit b off).2 < b ∧
      ((cnvOffsetSplit b off).2 < 0 ↔ off < b) := by
  unfold cnvOffsetSplit
  by_cases h : off < b
  · rw [if_pos h]
    simp only [Nat.mod_eq_of_lt h]
    omega
  · rw [if_neg h]
    have := Nat.mod_lt off hb
    simp only
    omega

example : -(12 : Int) ≤ (cnvOffsetSplit 12 0).2 ∧ (cnvOffsetSplit 12 0).2 < 12 := by decide

/-- `normalize_input_limb_bound` never exceeds the full product … -/
theorem limbBound_le_full (full rs rb ib ob : Nat) : limbBound full rs rb ib ob ≤ full := by
  unfold limbBound; omega

/-- … and keeps every limb whose position is above the output precision: either all limbs are
kept, or the kept limbs span at least `res_size·res_base2k + offset_bits` bits -/
theorem limbBound_covers (full rs rb ib ob : Nat) (hib : 0 < ib) :
    limbBound full rs rb ib ob = full ∨ rs * rb + ob ≤ limbBound full rs rb ib ob * ib := by
  unfold limbBound
  by_cases h : full ≤ (rs * rb + ob + ib - 1) / ib
  · left; omega
  · right
    have e : min full ((rs * rb + ob + ib - 1) / ib) = (rs * rb + ob + ib - 1) / ib := by omega
    rw [e]
    have h1 := Nat.div_add_mod (rs * rb + ob + ib - 1) ib
    have h2 := Nat.mod_lt (rs * rb + ob + ib - 1) hib
    have h3 : (rs * rb + ob + ib - 1) / ib * ib = ib * ((rs * rb + ob + ib - 1) / ib) := Nat.mul_comm _ _
    omega

example : limbBound 7 3 10 12 5 = 3 ∧ 3 * 10 + 5 ≤ limbBound 7 3 10 12 5 * 12 := by decide

/-- the value of the mask: for a partially used bottom limb (`k mod b = r ≠ 0`, `b ≤ 63`) it is
`−2^{b−r}`, the two's-complement pattern whose low `b − r` bits are clear and all others set; for
`r = 0` it is `−1` (all ones) -/
theorem msb_mask_value (b k : Nat) (hb : b ≤ 63) :
    msbMaskBottomLimb b k = if k % b = 0 then -1 else -(2 ^ (b - k % b) : Int) := by
  unfold msbMaskBottomLimb
  by_cases h : k % b = 0
  · simp [h]
  · simp only [h, if_false]
    have hs : b - k % b ≤ 63 := by omega
    have hpN : 2 ^ (b - k % b) ≤ 2 ^ 63 := Nat.pow_le_pow_right (by decide) hs
    have hp : (2 : Int) ^ (b - k % b) ≤ 2 ^ 63 := by exact_mod_cast hpN
    have hp0 : (0 : Int) < 2 ^ (b - k % b) := Int.pow_pos (by decide)
    unfold w64
    omega

example : msbMaskBottomLimb 12 31 = -32 ∧ Hal.maskCoeff (msbMaskBottomLimb 12 31) 2047 = 2016
    ∧ Hal.maskCoeff (msbMaskBottomLimb 12 31) (-2048) = -2048 ∧ Hal.maskCoeff (msbMaskBottomLimb 12 31) (-1) = -32 := by decide

/-- **`msb_mask_bottom_limb` applied to a limb keeps exactly its top `k mod b` bits**: for a partially used bottom limb
(`r = k mod b ≠ 0`, `b ≤ 63`) the masked load of `cnv_prepare_*` (`Hal.maskCoeff`, the `&` of `reim_from_znx_masked` and of
the NTT120 masked load) maps every `i64` coefficient `x` to `x − x mod 2^{b−r}` — the low `b − r` bits cleared, all others
(the top `r` bits of a `b`-bit digit, and the sign extension) unchanged; for `r = 0` the mask is all ones and nothing changes. -/
theorem mask_keeps_top_bits (b k : Nat) (hb : b ≤ 63) (x : Int) (hx1 : -(2 ^ 63) ≤ x) (hx2 : x < 2 ^ 63) :
    Hal.maskCoeff (msbMaskBottomLimb b k) x = if k % b = 0 then x else x - x % 2 ^ (b - k % b) := by
  rw [msb_mask_value b k hb]
  by_cases h : k % b = 0
  · simp only [h, if_true]
    exact C07.mask_all_ones x hx1 hx2
  · simp only [h, if_false]
    exact Hal.maskCoeff_neg_two_pow (b - k % b) (by omega) x hx1 hx2

example : Hal.maskCoeff (msbMaskBottomLimb 12 31) 2047 = 2047 - 2047 % 2 ^ 5 ∧ Hal.maskCoeff (msbMaskBottomLimb 12 31) (-1) = -1 - (-1) % 2 ^ 5 := by
  decide

/-- **tensor phase, bilinear expansion** (layer B): the product of two phases `a₀ + a₁'` and
`b₀ + b₁'` (`x' = s ⋆ x`) is the sum of the four column products — the content of the three tensor
columns `c(1) = a₀b₀`, `c(s) = a₀b₁ + a₁b₀`, `c(s²) = a₁b₁` of rank 1 (higher ranks: the same
expansion applied to each pair). -/
theorem tensor_bilinear (a0 a1 b0 b1 : Poly) (ha : a0.length = a1.length) (hb : b0.length = b1.length) :
    Hal.negMul (polyAdd a0 a1) (polyAdd b0 b1)
      = polyAdd (polyAdd (Hal.negMul a0 b0) (Hal.negMul a0 b1)) (polyAdd (Hal.negMul a1 b0) (Hal.negMul a1 b1)) := by
  rw [negMul_add_left _ _ _ ha, negMul_add_right _ _ _ hb, negMul_add_right _ _ _ hb]

example : Hal.negMul (polyAdd [1, 2] [0, 1]) (polyAdd [3, -1] [2, 2])
    = polyAdd (polyAdd (Hal.negMul [1, 2] [3, -1]) (Hal.negMul [1, 2] [2, 2]))
        (polyAdd (Hal.negMul [0, 1] [3, -1]) (Hal.negMul [0, 1] [2, 2])) := by decide

/-- the secret commutes through a column product on the right: `a ⋆ (s ⋆ b) = s ⋆ (a ⋆ b)` (so the
cross terms of `tensor_bilinear` are `s ⋆ (a₀b₁)` and the last one `s ⋆ (a₁' b₁)`) -/
theorem tensor_secret_right (s a b : Poly) : Hal.negMul a (Hal.negMul s b) = Hal.negMul s (Hal.negMul a b) :=
  negMul_negMul_comm a s b

example : Hal.negMul [1, 2] (Hal.negMul [0, 1] [3, 4]) = Hal.negMul [0, 1] (Hal.negMul [1, 2] [3, 4]) := by decide

/-- **tensor phase, general rank** (layer B).  With `phase(x) = Σ_{i<cols} σ_i ⋆ x_i` (`σ_0 = 1`, `σ_i = s_i`),
the product of the two phases is the double sum `Σ_i Σ_j σ_i ⋆ σ_j ⋆ (a_i ⋆ b_j)`: exactly what the tensor
decrypts to, since its column `(i, j)`, `i ≤ j`, holds `a_i b_j + a_j b_i` (`a_i b_i` on the diagonal) and is
multiplied by `σ_i σ_j = σ_j σ_i` (`tensor_pair_symm`).  Uses associativity / commutativity of the exact
negacyclic product (transferred from `AdjoinRoot (X^n+1)`, `Lemmas/NegRing.lean`, `Lemmas/NegHal.lean`). -/
theorem tensor_phase (n cols : Nat) (hn : 0 < n) (σ a b : Nat → Poly)
    (hσ : ∀ i, (σ i).length = n) (ha : ∀ i, (a i).length = n) (hb : ∀ i, (b i).length = n) :
    Hal.negMul (sumR n (fun i => Hal.negMul (σ i) (a i)) cols) (sumR n (fun j => Hal.negMul (σ j) (b j)) cols)
      = sumR n (fun i => sumR n (fun j => Hal.negMul (σ i) (Hal.negMul (σ j) (Hal.negMul (a i) (b j)))) cols) cols := by
  have hB : (sumR n (fun j => Hal.negMul (σ j) (b j)) cols).length = n :=
    sumR_length n _ cols (fun j _ => by rw [Hal.negMul_length, hb])
  rw [negMul_sumR_left n _ _ cols hB (fun i _ => by rw [Hal.negMul_length, ha])]
  apply sumR_congr
  intro i _
  rw [negMul_sumR n _ _ cols (fun j _ => by rw [Hal.negMul_length, hb])]
  apply sumR_congr
  intro j _
  rw [Hal.negMul_assoc n (σ i) (a i) _ (ha i) (by rw [Hal.negMul_length, hb]) hn, negMul_negMul_comm (a i) (σ j) (b j)]

example : Hal.negMul (sumR 2 (fun i => Hal.negMul ([[1, 0], [0, 1]].getD i [0, 0]) ([[3, 1], [2, -1]].getD i [0, 0])) 2)
      (sumR 2 (fun j => Hal.negMul ([[1, 0], [0, 1]].getD j [0, 0]) ([[1, 1], [0, 2]].getD j [0, 0])) 2)
    = sumR 2 (fun i => sumR 2 (fun j => Hal.negMul ([[1, 0], [0, 1]].getD i [0, 0])
        (Hal.negMul ([[1, 0], [0, 1]].getD j [0, 0]) (Hal.negMul ([[3, 1], [2, -1]].getD i [0, 0]) ([[1, 1], [0, 2]].getD j [0, 0])))) 2) 2 := by
  decide

/-- the `(i, j)` and `(j, i)` terms carry the same secret factor, so one tensor column serves both -/
theorem tensor_pair_symm (si sj x : Poly) : Hal.negMul si (Hal.negMul sj x) = Hal.negMul sj (Hal.negMul si x) :=
  negMul_negMul_comm si sj x

example : Hal.negMul [0, 1] (Hal.negMul [1, 1] [2, 3]) = Hal.negMul [1, 1] (Hal.negMul [0, 1] [2, 3]) := by decide

/-- **pairwise trick**: `cnv_pairwise_apply_dft` computes `(aᵢ+aⱼ)(bᵢ+bⱼ)`; subtracting the two
diagonal products leaves the cross terms `aᵢbⱼ + aⱼbᵢ` (C07's expansion, restated for the tensor) -/
theorem pairwise_trick (ai aj bi bj : Poly) (ha : ai.length = aj.length) (hb : bi.length = bj.length) :
    Hal.negMul (polyAdd ai aj) (polyAdd bi bj)
      = polyAdd (polyAdd (Hal.negMul ai bi) (Hal.negMul ai bj)) (polyAdd (Hal.negMul aj bi) (Hal.negMul aj bj)) :=
  tensor_bilinear ai aj bi bj ha hb

example : Hal.negMul (polyAdd [1, 0] [0, 1]) (polyAdd [2, 0] [0, 3]) = [-1, 5] := by decide

/-- **square = self-product, column arithmetic**: `glwe_tensor_apply` builds an off-diagonal column
as `(−dᵢ − dⱼ) + p`, `glwe_tensor_square_apply` as `(p − dᵢ) − dⱼ`, limb-wise in wrapping `i64`
arithmetic; the two agree for all values. -/
theorem square_column_arith (di dj p : Int) :
    w64 (w64 (w64 (-di) - dj) + p) = w64 (w64 (p - di) - dj) := by
  unfold w64
  omega

example : w64 (w64 (w64 (-(2 ^ 62)) - 2 ^ 62) + 5) = w64 (w64 (5 - 2 ^ 62) - 2 ^ 62) := by decide

/-- accumulate form, column arithmetic: `apply_add_assign` adds `dᵢ`-terms and the pairwise product
to the previous content one after the other; the total is the previous content plus the column of
`apply`, in wrapping arithmetic -/
theorem accumulate_column_arith (r di dj p : Int) :
    w64 (w64 (w64 (r - di) - dj) + p) = w64 (r + w64 (w64 (w64 (-di) - dj) + p)) := by
  unfold w64
  omega

example : w64 (w64 (w64 (7 - 3) - 4) + 9) = w64 (7 + w64 (w64 (w64 (-3) - 4) + 9)) := by decide

/-- **squaring = multiplying a ciphertext by itself** (model-level equality, ranks 1 and 2 — the ranks of the
property's quantifier): `glwe_tensor_square_apply(a)` and `glwe_tensor_apply(a, a)` return the same tensor, bit
for bit, for every operand, precision, offset, radix pair and accumulator type.  (Two different loop orders and
`(p − dᵢ) − dⱼ` vs `(−dᵢ − dⱼ) + p` in wrapping arithmetic.) -/
theorem tensorSquare_eq_tensorApply_ranks12 (big : Bool) (n rb rs off b : Nat) (a : List Col) (k : Nat) (res0 : List Col)
    (ha : a.length = 2 ∨ a.length = 3) (hr : res0.length = a.length * (a.length + 1) / 2) :
    tensorSquare big n rb rs off b a k res0 = tensorApply false big n rb rs off b a k a k res0 := by
  unfold tensorSquare tensorApply
  simp only [Nat.two_mul]
  rcases ha with h | h
  · rw [h] at hr ⊢
    match res0, hr with
    | [r0, r1, r2], _ =>
      exact square_eq_apply_cols2 n rs _ _ r0 r1 r2
        (fun i d hd => cnvNorm_shape _ _ _ _ _ _ _ _ _ _ _ hd) (fun i j p hp => cnvNorm_shape _ _ _ _ _ _ _ _ _ _ _ hp)
  · rw [h] at hr ⊢
    match res0, hr with
    | [r0, r1, r2, r3, r4, r5], _ =>
      exact square_eq_apply_cols3 n rs _ _ r0 r1 r2 r3 r4 r5
        (fun i d hd => cnvNorm_shape _ _ _ _ _ _ _ _ _ _ _ hd) (fun i j p hp => cnvNorm_shape _ _ _ _ _ _ _ _ _ _ _ hp)

example : tensorSquare false 2 4 2 4 4 [[[1, -2], [3, 0]], [[2, 1], [-1, 1]]] 8 (zeroCols 2 3 2)
    = tensorApply false false 2 4 2 4 4 [[[1, -2], [3, 0]], [[2, 1], [-1, 1]]] 8 [[[1, -2], [3, 0]], [[2, 1], [-1, 1]]] 8 (zeroCols 2 3 2)
    ∧ (tensorSquare false 2 4 2 4 4 [[[1, -2], [3, 0]], [[2, 1], [-1, 1]]] 8 (zeroCols 2 3 2)).isSome = true := by decide

/-- **the accumulate variant adds exactly the product** (ranks 1 and 2): `glwe_tensor_apply_add_assign` leaves in
every column the previous content plus (wrapping, limb-wise — `vec_znx_add_assign`) the column that
`glwe_tensor_apply` computes; `zs` is whatever the non-accumulating call finds in its output (it is overwritten). -/
theorem tensorApply_acc_eq_add_ranks12 (big : Bool) (n rb rs off b : Nat) (a : List Col) (ka : Nat) (x : List Col) (kx : Nat)
    (res0 zs : List Col) (ha : a.length = 2 ∨ a.length = 3)
    (hr : res0.length = a.length * (a.length + 1) / 2) (hz : zs.length = a.length * (a.length + 1) / 2)
    (hshape : ∀ r ∈ res0, ColShape n rs r) :
    tensorApply true big n rb rs off b a ka x kx res0
      = (tensorApply false big n rb rs off b a ka x kx zs).map (fun pr => List.zipWith (vecAddAssignW w64) res0 pr) := by
  unfold tensorApply
  rcases ha with h | h
  · rw [h] at hr hz ⊢
    match res0, hr, zs, hz, hshape with
    | [r0, r1, r2], _, [z0, z1, z2], _, hs =>
      exact acc_eq_add_cols2 n rs _ _ r0 r1 r2 z0 z1 z2 (hs r0 (by simp)) (hs r1 (by simp)) (hs r2 (by simp))
        (fun i d hd => cnvNorm_shape _ _ _ _ _ _ _ _ _ _ _ hd) (fun i j p hp => cnvNorm_shape _ _ _ _ _ _ _ _ _ _ _ hp)
  · rw [h] at hr hz ⊢
    match res0, hr, zs, hz, hshape with
    | [r0, r1, r2, r3, r4, r5], _, [z0, z1, z2, z3, z4, z5], _, hs =>
      exact acc_eq_add_cols3 n rs _ _ r0 r1 r2 r3 r4 r5 z0 z1 z2 z3 z4 z5 (hs r1 (by simp)) (hs r2 (by simp)) (hs r4 (by simp))
        (fun i d hd => cnvNorm_shape _ _ _ _ _ _ _ _ _ _ _ hd) (fun i j p hp => cnvNorm_shape _ _ _ _ _ _ _ _ _ _ _ hp)

example : tensorApply true false 2 4 2 4 4 [[[1, -2], [3, 0]], [[2, 1], [-1, 1]]] 8 [[[0, 1], [1, 1]], [[2, 2], [0, -3]]] 8
      [[[1, 1], [2, 2]], [[3, 3], [-1, -1]], [[0, 5], [5, 0]]]
    = (tensorApply false false 2 4 2 4 4 [[[1, -2], [3, 0]], [[2, 1], [-1, 1]]] 8 [[[0, 1], [1, 1]], [[2, 2], [0, -3]]] 8
        (zeroCols 2 3 2)).map (fun pr => List.zipWith (vecAddAssignW w64) [[[1, 1], [2, 2]], [[3, 3], [-1, -1]], [[0, 5], [5, 0]]] pr) := by
  decide

/-! ## Relinearisation: the gadget product it executes is C03's -/

/-- **Relinearisation phase, key `dsize = 1`.**  `glwe_tensor_relinearize` feeds the `pairs` columns of the tensor that
multiply `s_i·s_j` to `gglwe_product_dft` with the tensor key; the executed product (`Core.gglweProductDft` =
`Ks.gglweProductDft`) has, at limb `l`, the phase `Σ_j a_j ⋆ phase(key row j)_l` under the target secret — whatever
`res_dft` held before (`res0`).  With the key relation `phase(key row (r, p)) = s_i s_j·β^{S−(r+1)·dsize} + E`
(checked cell by cell by the oracle of `./check C05`) `C03.gadget_identity` turns this into
`Σ_p s_{i_p} s_{j_p} · val(a_p) + Σ digit·E − dropped`: the pair columns are re-encrypted under `s`, and adding the tensor's
first `rank+1` columns gives `phase_s(res) = tensor_phase(a) + Σ digit·E − dropped`. -/
theorem relin_product_phase_dsize1 (sk : List Poly) (a : List Col) (g : GGLWE) (res0 : List Col) (l : Nat)
    (h1 : g.dsize = 1) (h0 : shapeOk g.n g.colsOut g.size res0 = true) (hc : 0 < g.colsOut) (hl : l < g.size)
    (hM : ∀ j q, (g.toPMat.entry j q).length = g.n) :
    Ks.phaseRow sk ((Core.gglweProductDft a g g.size res0).map (fun col => limbOr0 g.n col l)) =
      sumPolys g.n ((List.range (min (g.colsIn * g.dnum) (mkBuf g.n g.colsIn (a.getD 0 []).length a).flat.length)).map (fun j =>
        Hal.negMul ((mkBuf g.n g.colsIn (a.getD 0 []).length a).flat.getD j (zeroP g.n)) (Ks.phaseRow sk (Ks.rowLimb g.toPMat j l)))) := by
  have s0 := (mkBuf_shape g.n g.colsOut g.size res0 h0).1
  have h := C03.keyswitch_phase_dsize1 sk (mkBuf g.n g.colsOut g.size res0) (mkBuf g.n g.colsIn (a.getD 0 []).length a) g.toKey l
    h1 s0.1 rfl hc hl hl hM
  have e : Ks.gglweProductDft (mkBuf g.n g.colsOut g.size res0) (mkBuf g.n g.colsIn (a.getD 0 []).length a) g.toKey
      = Hal.opVmp (mkBuf g.n g.colsOut g.size res0) (mkBuf g.n g.colsIn (a.getD 0 []).length a) g.toPMat 0 := by
    unfold Ks.gglweProductDft
    have h1' : g.toKey.dsize = 1 := h1
    simp only [h1', if_true]
    rfl
  have v := Ks.opVmp_spec (mkBuf g.n g.colsOut g.size res0) (mkBuf g.n g.colsIn (a.getD 0 []).length a) g.toPMat 0 s0.1
  have hb : Ks.bufRow (Ks.gglweProductDft (mkBuf g.n g.colsOut g.size res0) (mkBuf g.n g.colsIn (a.getD 0 []).length a) g.toKey) l
      = (Core.gglweProductDft a g g.size res0).map (fun col => limbOr0 g.n col l) := by
    unfold Core.gglweProductDft Ks.bufRow
    simp only [List.map_map]
    rw [e, v.2.1, v.2.2.2.1]
    rfl
  rw [← hb]
  exact h

example : Ks.phaseRow [] ((Core.gglweProductDft [[[2]]]
      { base2k := 4, n := 1, colsIn := 1, colsOut := 1, dsize := 1, dnum := 1, size := 1, cells := [[[[3]]]] } 1 [[[9]]]).map
        (fun col => limbOr0 1 col 0)) = [6] := by decide

/-- **Relinearisation phase, key `dsize ≥ 2`**: C03's accumulation theorem on the executed product — limb `l` of the phase is
pass 0's phase plus, for every later pass `k+1` whose truncated size covers `l`, that pass's phase; each pass phase is a
digit-weighted sum of key-row phases (`C03.passPhase`, `C03.limb_used_iff`: the limbs selected by
`(step, offset) = (dsize, dsize−1−di)` are the digits of the base-`2^{dsize·b}` decomposition). -/
theorem relin_product_phase_dsize_gt1 (sk : List Poly) (a : List Col) (g : GGLWE) (res0 : List Col) (l : Nat)
    (hD : 2 ≤ g.dsize) (h0 : shapeOk g.n g.colsOut g.size res0 = true) (hc : 0 < g.colsOut)
    (hM : ∀ j q, (g.toPMat.entry j q).length = g.n) :
    Ks.phaseRow sk ((Core.gglweProductDft a g g.size res0).map (fun col => limbOr0 g.n col l)) =
      (List.range (g.dsize - 1)).foldl
        (fun acc k => if l < Ks.passSize g.toKey (k + 1)
          then polyAdd acc (C03.passPhase sk (mkBuf g.n g.colsIn (a.getD 0 []).length a) g.toKey g.n (k + 1) l) else acc)
        (if l < Ks.passSize g.toKey 0 then C03.passPhase sk (mkBuf g.n g.colsIn (a.getD 0 []).length a) g.toKey g.n 0 l
         else zeroP g.n) := by
  have s0 := (mkBuf_shape g.n g.colsOut g.size res0 h0).1
  have h := C03.keyswitch_phase_dsize_gt1 sk (mkBuf g.n g.colsOut g.size res0) (mkBuf g.n g.colsIn (a.getD 0 []).length a) g.toKey
    hD s0.1 rfl rfl hc rfl hM l
  unfold Core.gglweProductDft
  simp only [List.map_map]
  exact h

example : Ks.phaseRow [] ((Core.gglweProductDft [[[2], [1]]]
      { base2k := 4, n := 1, colsIn := 1, colsOut := 1, dsize := 2, dnum := 1, size := 3, cells := [[[[3], [0], [0]]]] } 3
        [[[9], [9], [9]]]).map (fun col => limbOr0 1 col 0)) = [3] := by decide

/-! ## Value theorems per entry point: product value, accumulator, final normalisation -/

/-- **`relin_product_value`** — relinearisation, every key digit size: if tensor-key row `r`, pair column `p` has phase value
`σ_p·β^{S−(r+1)·dsize} + E_{p,r}` under the target secret (`σ_p = s_i·s_j` for the pair `p = (i, j)`: checked cell by cell by the oracle), the
executed gadget product has phase value `Σ_p σ_p·usedVal(a_p) + Σ_p (Σ_r digit·E − dropped − β^S·head)`: the pair columns of the tensor are
re-encrypted under `s` with the explicit gadget error, for any prior content of `res_dft`. -/
theorem relin_product_value (N : Nat) (sk : List Poly) (a : List Col) (g : GGLWE) (res0 : List Col)
    (β : Ks.R N) (σ : ℕ → Ks.R N) (E : ℕ → ℕ → Ks.R N)
    (hd : 1 ≤ g.dsize) (hN : 0 < N) (hn : g.n = N) (hc : 0 < g.colsOut)
    (h0 : shapeOk g.n g.colsOut g.size res0 = true) (hM : ∀ j q, (g.toPMat.entry j q).length = N)
    (hS : g.dnum * g.dsize ≤ g.size)
    (hkey : ∀ i, i < g.colsIn → ∀ r, r < g.dnum →
      Gadget.val β g.size (Ks.keyPhase N sk g.toPMat i r) = 1 * σ i * β ^ (g.size - (r + 1) * g.dsize) + E i r) :
    ∑ l ∈ Finset.range g.size,
        Ks.ι N (Ks.phaseRow sk ((Core.gglweProductDft a g g.size res0).map (fun col => limbOr0 N col l))) * β ^ (g.size - 1 - l)
      = 1 * ∑ i ∈ Finset.range g.colsIn,
            σ i * Gadget.usedVal β g.size g.dsize g.dnum (a.getD 0 []).length (Ks.inLimb N (mkBuf g.n g.colsIn (a.getD 0 []).length a) i)
        + ∑ i ∈ Finset.range g.colsIn,
            (∑ r ∈ Finset.range g.dnum,
                Gadget.digit β g.dsize g.dnum (a.getD 0 []).length (Ks.inLimb N (mkBuf g.n g.colsIn (a.getD 0 []).length a) i) r * E i r
              - Gadget.dropped β g.size g.dsize g.dnum (a.getD 0 []).length
                  (Ks.inLimb N (mkBuf g.n g.colsIn (a.getD 0 []).length a) i) (Ks.keyPhase N sk g.toPMat i)
              - β ^ g.size * Gadget.head β g.dsize g.dnum (a.getD 0 []).length
                  (Ks.inLimb N (mkBuf g.n g.colsIn (a.getD 0 []).length a) i) (Ks.keyPhase N sk g.toPMat i)) :=
  gglweProductDft_value N sk a g res0 β 1 σ E hd hN hn hc h0 hM hS hkey

/-- a one-pair tensor key with `dsize = 2` -/
def exTsk : GGLWE := { base2k := 4, n := 1, colsIn := 1, colsOut := 2, dsize := 2, dnum := 1, size := 3, cells := [[[[1], [0], [0]], [[0], [1], [0]]]] }

example (β : Ks.R 1) (σ : ℕ → Ks.R 1) :
    ∑ l ∈ Finset.range 3,
        Ks.ι 1 (Ks.phaseRow [[1]] ((Core.gglweProductDft [[[2], [1]]] exTsk 3 (zeroCols 1 2 3)).map (fun col => limbOr0 1 col l))) * β ^ (3 - 1 - l)
      = 1 * ∑ i ∈ Finset.range 1, σ i * Gadget.usedVal β 3 2 1 2 (Ks.inLimb 1 (mkBuf 1 1 2 [[[2], [1]]]) i)
        + ∑ i ∈ Finset.range 1,
            (∑ r ∈ Finset.range 1, Gadget.digit β 2 1 2 (Ks.inLimb 1 (mkBuf 1 1 2 [[[2], [1]]]) i) r *
                (Gadget.val β 3 (Ks.keyPhase 1 [[1]] exTsk.toPMat i r) - 1 * σ i * β ^ (3 - (r + 1) * 2))
              - Gadget.dropped β 3 2 1 2 (Ks.inLimb 1 (mkBuf 1 1 2 [[[2], [1]]]) i) (Ks.keyPhase 1 [[1]] exTsk.toPMat i)
              - β ^ 3 * Gadget.head β 2 1 2 (Ks.inLimb 1 (mkBuf 1 1 2 [[[2], [1]]]) i) (Ks.keyPhase 1 [[1]] exTsk.toPMat i)) :=
  relin_product_value 1 [[1]] [[[2], [1]]] exTsk (zeroCols 1 2 3) β σ
    (fun i r => Gadget.val β 3 (Ks.keyPhase 1 [[1]] exTsk.toPMat i r) - 1 * σ i * β ^ (3 - (r + 1) * 2))
    (by decide) (by decide) rfl (by decide) (by decide) (Ks.entry_length exTsk.toPMat 1 rfl (by decide +kernel)) (by decide)
    (by intro i _ r _; exact (add_sub_cancel _ _).symm)

/-- `glwe_tensor_relinearize` as "accumulator, then one normalisation per column": the accumulator is the executed gadget product with the
tensor's first `rank+1` columns (radix-converted if needed) added limb-wise. -/
theorem relinearize_accumulator (big128 : Bool) (n rb rs : Nat) (a : List Col) (ab : Nat) (g : GGLWE) (res0 res : List Col)
    (h : relinearize big128 n rb rs a ab g g.size res0 = some res) :
    ∃ aD acc : List Col,
      (List.range g.colsOut).mapM (fun i =>
        if ab = g.base2k then some (bigAddSmallAssign big128 ((Core.gglweProductDft aD g g.size res0).getD i []) (a.getD i []))
        else (normalizeCol? g.base2k (((a.getD 0 []).length * ab + g.base2k - 1) / g.base2k) 0 (a.getD i []) ab n).map
          (fun c => bigAddSmallAssign big128 ((Core.gglweProductDft aD g g.size res0).getD i []) c)) = some acc ∧
      acc.mapM (fun c => bigNormalizeOff big128 n rb rs 0 c g.base2k) = some res := by
  unfold relinearize at h
  simp only [Option.bind_eq_some_iff] at h
  obtain ⟨aD, _, acc, hacc, hres⟩ := h
  exact ⟨aD, acc, hacc, hres⟩

example : ∃ aD acc : List Col,
    (List.range 2).mapM (fun i => if 4 = 4 then some (bigAddSmallAssign false ((Core.gglweProductDft aD exTsk 3 (zeroCols 1 2 3)).getD i [])
        ([[[1], [0]], [[0], [1]], [[2], [1]]].getD i []))
      else (normalizeCol? 4 ((2 * 4 + 4 - 1) / 4) 0 ([[[1], [0]], [[0], [1]], [[2], [1]]].getD i []) 4 1).map
        (fun c => bigAddSmallAssign false ((Core.gglweProductDft aD exTsk 3 (zeroCols 1 2 3)).getD i []) c)) = some acc ∧
    acc.mapM (fun c => bigNormalizeOff false 1 4 3 0 c 4) = some [[[2], [0], [0]], [[2], [2], [0]]] := by
  have h : relinearize false 1 4 3 [[[1], [0]], [[0], [1]], [[2], [1]]] 4 exTsk 3 (zeroCols 1 2 3) = some [[[2], [0], [0]], [[2], [2], [0]]] := by
    decide +kernel
  exact relinearize_accumulator false 1 4 3 _ 4 exTsk _ _ h

/-- **`relin_result_phase_modulo_norm`** — the relinearised **ciphertext**: its phase relates to the exact phase of the accumulator
(`relin_product_value` + the tensor's first columns) as the C08 kernel relates the columns, `A·val(out) = B·val(acc) + E_i`, with the explicit
error `E₀ + Σ s_i ⋆ E_{i+1}`; same or different radices (`_modulo_norm`: conditional on the kernel's value relation). -/
theorem relin_result_phase_modulo_norm {N : Nat} (big128 : Bool) (rb rs : Nat) (g : GGLWE) (acc res : List Col)
    (hm : acc.mapM (fun c => bigNormalizeOff big128 N rb rs 0 c g.base2k) = some res)
    (hres : C02L.GWF N (Ks.mkCt rb N res)) (hacc : C02L.GWF N (Ks.mkCt g.base2k N acc))
    (A B : Int) (E : Nat → Poly) (hE : ∀ i, (E i).length = N)
    (hK : ∀ i, i < acc.length → ∀ C, bigNormalizeOff big128 N rb rs 0 (acc.getD i []) g.base2k = some C →
      polyScale A (C02L.valP rb N C) = polyAdd (polyScale B (C02L.valP g.base2k N (acc.getD i []))) (E i))
    (s : List Poly) :
    polyScale A (C02L.valP rb N (Core.Ops.phase s (Ks.mkCt rb N res)))
      = polyAdd (polyScale B (C02L.valP g.base2k N (Core.Ops.phase s (Ks.mkCt g.base2k N acc))))
          (C02L.errTo (min (acc.length - 1) s.length) s E) :=
  mapM_kernel_phase_modulo_norm _ rb g.base2k acc res hm hres hacc A B E hE hK s

example (s : List Poly) :
    polyScale 16 (C02L.valP 4 1 (Core.Ops.phase s (Ks.mkCt 4 1 [[[6], [0]], [[2], [0]]])))
      = polyAdd (polyScale 1 (C02L.valP exTsk.base2k 1 (Core.Ops.phase s (Ks.mkCt exTsk.base2k 1 [[[6], [0], [0]], [[2], [0], [0]]]))))
          (C02L.errTo (min (2 - 1) s.length) s (fun _ => [0])) :=
  relin_result_phase_modulo_norm (N := 1) false 4 2 exTsk [[[6], [0], [0]], [[2], [0], [0]]] [[[6], [0]], [[2], [0]]]
    (by decide) (by decide) (by decide) 16 1 (fun _ => [0]) (fun _ => rfl)
    (by
      intro i hi C hC
      have hi' : i = 0 ∨ i = 1 := by simp at hi; omega
      rcases hi' with rfl | rfl
      · have e : bigNormalizeOff false 1 4 2 0 [[6], [0], [0]] exTsk.base2k = some [[6], [0]] := by decide
        have hC' := e.symm.trans hC; injection hC' with hC'; subst hC'; decide
      · have e : bigNormalizeOff false 1 4 2 0 [[2], [0], [0]] exTsk.base2k = some [[2], [0]] := by decide
        have hC' := e.symm.trans hC; injection hC' with hC'; subst hC'; decide) s

/-- **`mul_const_result_phase_modulo_norm`** — `glwe_mul_const` / `glwe_mul_const_assign`: the result is the column-wise normalisation
(bit offset `lo` of the `cnv_offset` split, `cnvOffsetSplit_total`) of the exact constant convolutions `cnv_by_const_apply(hi, a_i, b)`; its phase
relates to the phase of those accumulators as the kernel relates the columns (`B` carries the factor `2^{lo}`). -/
theorem mul_const_result_phase_modulo_norm {N : Nat} (assign big128 : Bool) (rb rs off b : Nat) (a : List Col) (cst : List Int) (res : List Col)
    (h : mulConst assign big128 N rb rs off b a cst = some res)
    (hres : C02L.GWF N (Ks.mkCt rb N res))
    (hacc : C02L.GWF N (Ks.mkCt b N (a.map (fun x => cnvByConstCol N
      (if assign then rs else (a.getD 0 []).length + cst.length - (cnvOffsetSplit b off).1) (cnvOffsetSplit b off).1 x cst))))
    (A B : Int) (E : Nat → Poly) (hE : ∀ i, (E i).length = N)
    (hK : ∀ i, i < a.length → ∀ C,
      bigNormalizeOff big128 N rb rs (cnvOffsetSplit b off).2
        ((a.map (fun x => cnvByConstCol N (if assign then rs else (a.getD 0 []).length + cst.length - (cnvOffsetSplit b off).1)
          (cnvOffsetSplit b off).1 x cst)).getD i []) b = some C →
      polyScale A (C02L.valP rb N C) = polyAdd (polyScale B (C02L.valP b N
        ((a.map (fun x => cnvByConstCol N (if assign then rs else (a.getD 0 []).length + cst.length - (cnvOffsetSplit b off).1)
          (cnvOffsetSplit b off).1 x cst)).getD i []))) (E i))
    (s : List Poly) :
    polyScale A (C02L.valP rb N (Core.Ops.phase s (Ks.mkCt rb N res)))
      = polyAdd (polyScale B (C02L.valP b N (Core.Ops.phase s (Ks.mkCt b N (a.map (fun x => cnvByConstCol N
          (if assign then rs else (a.getD 0 []).length + cst.length - (cnvOffsetSplit b off).1) (cnvOffsetSplit b off).1 x cst))))))
          (C02L.errTo (min (a.length - 1) s.length) s E) := by
  have hm : (a.map (fun x => cnvByConstCol N (if assign then rs else (a.getD 0 []).length + cst.length - (cnvOffsetSplit b off).1)
      (cnvOffsetSplit b off).1 x cst)).mapM (fun c => bigNormalizeOff big128 N rb rs (cnvOffsetSplit b off).2 c b) = some res := by
    rw [← mapM_comp]
    exact h
  have := mapM_kernel_phase_modulo_norm _ rb b _ res hm hres hacc A B E hE (by simpa using hK) s
  simpa using this

example (s : List Poly) :
    polyScale 16 (C02L.valP 4 1 (Core.Ops.phase s (Ks.mkCt 4 1 [[[6], [0]], [[2], [0]]])))
      = polyAdd (polyScale 1 (C02L.valP 4 1 (Core.Ops.phase s (Ks.mkCt 4 1 ([[[3], [0]], [[1], [0]]].map (fun x => cnvByConstCol 1
          (if false then 2 else ([[[3], [0]], [[1], [0]]].getD 0 []).length + [2].length - (cnvOffsetSplit 4 4).1) (cnvOffsetSplit 4 4).1 x [2]))))))
          (C02L.errTo (min (2 - 1) s.length) s (fun _ => [0])) :=
  mul_const_result_phase_modulo_norm (N := 1) false false 4 2 4 4 [[[3], [0]], [[1], [0]]] [2] [[[6], [0]], [[2], [0]]]
    (by decide) (by decide) (by decide) 16 1 (fun _ => [0]) (fun _ => rfl)
    (by
      intro i hi C hC
      have hi' : i = 0 ∨ i = 1 := by simp at hi; omega
      rcases hi' with rfl | rfl
      · have e : bigNormalizeOff false 1 4 2 (cnvOffsetSplit 4 4).2 (([[[3], [0]], [[1], [0]]].map (fun x => cnvByConstCol 1
            (if false then 2 else ([[[3], [0]], [[1], [0]]].getD 0 []).length + [2].length - (cnvOffsetSplit 4 4).1) (cnvOffsetSplit 4 4).1 x [2])).getD 0 []) 4
            = some [[6], [0]] := by decide
        have hC' := e.symm.trans hC; injection hC' with hC'; subst hC'; decide
      · have e : bigNormalizeOff false 1 4 2 (cnvOffsetSplit 4 4).2 (([[[3], [0]], [[1], [0]]].map (fun x => cnvByConstCol 1
            (if false then 2 else ([[[3], [0]], [[1], [0]]].getD 0 []).length + [2].length - (cnvOffsetSplit 4 4).1) (cnvOffsetSplit 4 4).1 x [2])).getD 1 []) 4
            = some [[2], [0]] := by decide
        have hC' := e.symm.trans hC; injection hC' with hC'; subst hC'; decide) s

/-- **`mul_plain_result_phase_modulo_norm`** — `glwe_mul_plain` / `glwe_mul_plain_assign`: the result is the column-wise normalisation (bit
offset `lo`) of the exact convolutions `cnv_apply_dft(hi, a'_i, pt')` of the masked operands (`mask_keeps_top_bits`); its phase relates to the
phase of those accumulators as the kernel relates the columns. -/
theorem mul_plain_result_phase_modulo_norm {N : Nat} (big128 : Bool) (rb rs off b : Nat) (a : List Col) (aK : Nat) (pt : Col) (bK : Nat)
    (res : List Col) (h : mulPlain big128 N rb rs off b a aK pt bK = some res)
    (hres : C02L.GWF N (Ks.mkCt rb N res))
    (hacc : C02L.GWF N (Ks.mkCt b N ((prepAll N (msbMaskBottomLimb b aK) a).map (fun x => Hal.cnvApplyCol N ((a.getD 0 []).length + pt.length - (cnvOffsetSplit b off).1) (cnvOffsetSplit b off).1 x (Hal.cnvPrepareCol N pt.length (msbMaskBottomLimb b bK) pt)))))
    (A B : Int) (E : Nat → Poly) (hE : ∀ i, (E i).length = N)
    (hK : ∀ i, i < a.length → ∀ C,
      bigNormalizeOff big128 N rb rs (cnvOffsetSplit b off).2 (((prepAll N (msbMaskBottomLimb b aK) a).map (fun x => Hal.cnvApplyCol N ((a.getD 0 []).length + pt.length - (cnvOffsetSplit b off).1) (cnvOffsetSplit b off).1 x (Hal.cnvPrepareCol N pt.length (msbMaskBottomLimb b bK) pt))).getD i []) b = some C →
      polyScale A (C02L.valP rb N C) = polyAdd (polyScale B (C02L.valP b N (((prepAll N (msbMaskBottomLimb b aK) a).map (fun x => Hal.cnvApplyCol N ((a.getD 0 []).length + pt.length - (cnvOffsetSplit b off).1) (cnvOffsetSplit b off).1 x (Hal.cnvPrepareCol N pt.length (msbMaskBottomLimb b bK) pt))).getD i []))) (E i))
    (s : List Poly) :
    polyScale A (C02L.valP rb N (Core.Ops.phase s (Ks.mkCt rb N res)))
      = polyAdd (polyScale B (C02L.valP b N (Core.Ops.phase s (Ks.mkCt b N ((prepAll N (msbMaskBottomLimb b aK) a).map (fun x => Hal.cnvApplyCol N ((a.getD 0 []).length + pt.length - (cnvOffsetSplit b off).1) (cnvOffsetSplit b off).1 x (Hal.cnvPrepareCol N pt.length (msbMaskBottomLimb b bK) pt)))))))
          (C02L.errTo (min (a.length - 1) s.length) s E) := by
  have hm : ((prepAll N (msbMaskBottomLimb b aK) a).map (fun x => Hal.cnvApplyCol N ((a.getD 0 []).length + pt.length - (cnvOffsetSplit b off).1) (cnvOffsetSplit b off).1 x (Hal.cnvPrepareCol N pt.length (msbMaskBottomLimb b bK) pt))).mapM (fun c => bigNormalizeOff big128 N rb rs (cnvOffsetSplit b off).2 c b) = some res := by
    rw [← mapM_comp]
    exact h
  have := mapM_kernel_phase_modulo_norm _ rb b _ res hm hres hacc A B E hE (by simpa [prepAll] using hK) s
  simpa [prepAll] using this

example (s : List Poly) :
    polyScale 16 (C02L.valP 4 1 (Core.Ops.phase s (Ks.mkCt 4 1 [[[6], [0]], [[2], [0]]])))
      = polyAdd (polyScale 1 (C02L.valP 4 1 (Core.Ops.phase s (Ks.mkCt 4 1 [[[6], [0], [0]], [[2], [0], [0]]]))))
          (C02L.errTo (min (2 - 1) s.length) s (fun _ => [0])) :=
  mul_plain_result_phase_modulo_norm (N := 1) false 4 2 4 4 [[[3], [0]], [[1], [0]]] 8 [[2]] 4 [[[6], [0]], [[2], [0]]]
    (by decide) (by decide) (by decide) 16 1 (fun _ => [0]) (fun _ => rfl)
    (by
      intro i hi C hC
      have hi' : i = 0 ∨ i = 1 := by simp at hi; omega
      rcases hi' with rfl | rfl
      · have e : bigNormalizeOff false 1 4 2 0 [[6], [0], [0]] 4 = some [[6], [0]] := by decide
        have hC' := e.symm.trans hC; injection hC' with hC'; subst hC'; decide
      · have e : bigNormalizeOff false 1 4 2 0 [[2], [0], [0]] 4 = some [[2], [0]] := by decide
        have hC' := e.symm.trans hC; injection hC' with hC'; subst hC'; decide) s

/-- **`mul_const_phase_value`** — `glwe_mul_const` decrypts to the product at the documented scale, accumulator level (every rank, every
limb count, every constant length, every `cnv_offset_hi ≤ sa + sb − 1`): the `sa + sb − hi` limbs of the exact accumulators
`cnv_by_const_apply(hi, a_i, b)` have a phase whose value, plus `β^{sa+sb−hi}` times the `hi` skipped top limbs (a multiple of the torus
modulus), is `β · val(phase a) · val(b)` — on the torus `phase(a)·b·β^{hi+1}`; the normalisation (`mul_const_result_phase_modulo_norm`) applies the
remaining `2^{lo}`, and `(hi+1)·base2k + lo = cnv_offset` (`cnvOffsetSplit_total`): the result is `phase(a)·b·2^{cnv_offset}`.
(`Lemmas/CnvValue.lean`: Cauchy product with descending weights; `Lemmas/CnvModel.lean`: the executed loops `jMin..jMax` are that product.) -/
theorem mul_const_phase_value (N : Nat) (hN : 0 < N) (sk : List Poly) (a0 : Col) (as : List Col) (b : List Int) (hi sa : Nat) (β : Ks.R N)
    (h0 : a0.length = sa) (hall : ∀ x ∈ as, x.length = sa) (hx0 : ∀ l ∈ a0, l.length = N) (hxs : ∀ x ∈ as, ∀ l ∈ x, l.length = N)
    (hsa : 1 ≤ sa) (hsb : 1 ≤ b.length) (hhi : hi ≤ sa + b.length - 1) :
    ∑ k ∈ Finset.range (sa + b.length - hi),
        Ks.ι N (Ks.phaseRow sk (((a0 :: as).map (fun x => cnvByConstCol N (sa + b.length - hi) hi x b)).map (fun col => limbOr0 N col k)))
          * β ^ (sa + b.length - hi - 1 - k)
      + β ^ (sa + b.length - hi) * (constTop N β a0 b hi
          + ∑ i ∈ Finset.range (min sk.length as.length), Ks.ι N (sk.getD i []) * constTop N β (as.getD i []) b hi)
      = β * (colVal N β a0 + ∑ i ∈ Finset.range (min sk.length as.length), Ks.ι N (sk.getD i []) * colVal N β (as.getD i [])) * constVal N β b :=
  mulConst_phase_value N hN sk a0 as b hi sa β h0 hall hx0 hxs hsa hsb hhi

example (β : Ks.R 1) :
    ∑ k ∈ Finset.range (2 + 1 - 0),
        Ks.ι 1 (Ks.phaseRow [[1]] (((([[3], [0]] : Col) :: [[[1], [0]]]).map (fun x => cnvByConstCol 1 (2 + 1 - 0) 0 x [2])).map
          (fun col => limbOr0 1 col k))) * β ^ (2 + 1 - 0 - 1 - k)
      + β ^ (2 + 1 - 0) * (constTop 1 β [[3], [0]] [2] 0
          + ∑ i ∈ Finset.range (min 1 1), Ks.ι 1 (([[1]] : List Poly).getD i []) * constTop 1 β (([[[1], [0]]] : List Col).getD i []) [2] 0)
      = β * (colVal 1 β [[3], [0]] + ∑ i ∈ Finset.range (min 1 1), Ks.ι 1 (([[1]] : List Poly).getD i []) * colVal 1 β (([[[1], [0]]] : List Col).getD i []))
          * constVal 1 β [2] :=
  mul_const_phase_value 1 (by decide) [[1]] [[3], [0]] [[[1], [0]]] [2] 0 2 β rfl (by decide) (by decide) (by decide) (by decide) (by decide) (by decide)

/-- **`mul_const_assign_accumulator_truncates`** — `glwe_mul_const_assign`: the accumulator of `res.size = R` limbs is the first `R` limbs of the
full constant convolution (every `R ≤ F`; `cnv_by_const_apply` computes limb `k` independently of the result size). -/
theorem mul_const_assign_accumulator_truncates (n R F hi : Nat) (x : Col) (b : List Int) (h : R ≤ F) :
    cnvByConstCol n R hi x b = (cnvByConstCol n F hi x b).take R :=
  cnvByConstCol_take n R F hi x b h

example : cnvByConstCol 1 2 0 [[3], [5]] [2, 1] = (cnvByConstCol 1 4 0 [[3], [5]] [2, 1]).take 2 :=
  mul_const_assign_accumulator_truncates 1 2 4 0 _ _ (by decide)

/-- **`mul_const_assign_phase_value`** — `glwe_mul_const_assign` decrypts to the product at the documented scale, accumulator level: the
`R = res.size`-limb accumulator's phase, rescaled by `β^{F−R}` (`F = sa + sb − hi`), plus the explicit dropped bottom limbs `R ≤ k < F` of the full
convolution and `β^F` times the skipped top limbs, is `β · val(phase a) · val(b)`. -/
theorem mul_const_assign_phase_value (N : Nat) (hN : 0 < N) (sk : List Poly) (a0 : Col) (as : List Col) (b : List Int) (hi sa R : Nat)
    (β : Ks.R N)
    (h0 : a0.length = sa) (hall : ∀ x ∈ as, x.length = sa) (hx0 : ∀ l ∈ a0, l.length = N) (hxs : ∀ x ∈ as, ∀ l ∈ x, l.length = N)
    (hsa : 1 ≤ sa) (hsb : 1 ≤ b.length) (hhi : hi ≤ sa + b.length - 1) (hR : R ≤ sa + b.length - hi) :
    β ^ (sa + b.length - hi - R) * ∑ k ∈ Finset.range R,
        Ks.ι N (Ks.phaseRow sk (((a0 :: as).map (fun x => cnvByConstCol N R hi x b)).map (fun col => limbOr0 N col k))) * β ^ (R - 1 - k)
      + ∑ k ∈ Finset.Ico R (sa + b.length - hi),
        Ks.ι N (Ks.phaseRow sk (((a0 :: as).map (fun x => cnvByConstCol N (sa + b.length - hi) hi x b)).map (fun col => limbOr0 N col k)))
          * β ^ (sa + b.length - hi - 1 - k)
      + β ^ (sa + b.length - hi) * (constTop N β a0 b hi
          + ∑ i ∈ Finset.range (min sk.length as.length), Ks.ι N (sk.getD i []) * constTop N β (as.getD i []) b hi)
      = β * (colVal N β a0 + ∑ i ∈ Finset.range (min sk.length as.length), Ks.ι N (sk.getD i []) * colVal N β (as.getD i [])) * constVal N β b :=
  mulConstAssign_phase_value N hN sk a0 as b hi sa R β h0 hall hx0 hxs hsa hsb hhi hR

example (β : Ks.R 1) :
    β ^ (2 + 1 - 0 - 2) * ∑ k ∈ Finset.range 2,
        Ks.ι 1 (Ks.phaseRow [[1]] (((([[3], [0]] : Col) :: [[[1], [0]]]).map (fun x => cnvByConstCol 1 2 0 x [2])).map
          (fun col => limbOr0 1 col k))) * β ^ (2 - 1 - k)
      + ∑ k ∈ Finset.Ico 2 (2 + 1 - 0),
        Ks.ι 1 (Ks.phaseRow [[1]] (((([[3], [0]] : Col) :: [[[1], [0]]]).map (fun x => cnvByConstCol 1 (2 + 1 - 0) 0 x [2])).map
          (fun col => limbOr0 1 col k))) * β ^ (2 + 1 - 0 - 1 - k)
      + β ^ (2 + 1 - 0) * (constTop 1 β [[3], [0]] [2] 0
          + ∑ i ∈ Finset.range (min 1 1), Ks.ι 1 (([[1]] : List Poly).getD i []) * constTop 1 β (([[[1], [0]]] : List Col).getD i []) [2] 0)
      = β * (colVal 1 β [[3], [0]] + ∑ i ∈ Finset.range (min 1 1), Ks.ι 1 (([[1]] : List Poly).getD i []) * colVal 1 β (([[[1], [0]]] : List Col).getD i []))
          * constVal 1 β [2] :=
  mul_const_assign_phase_value 1 (by decide) [[1]] [[3], [0]] [[[1], [0]]] [2] 0 2 2 β rfl (by decide) (by decide) (by decide) (by decide) (by decide)
    (by decide) (by decide)

/-- **`mul_plain_phase_value`** — `glwe_mul_plain` decrypts to the product at the documented scale, accumulator level: for the masked operands
`a'` (`cnv_prepare_left`) and `pt'` (`cnv_prepare_right`), the phase of the `sa + sb − hi` limbs of `cnv_apply_dft(hi, a'_i, pt')`, plus
`β^{sa+sb−hi}` times the skipped top limbs, has the value `β · val(phase a') · val(pt')`: on the torus `phase(a')·pt'·β^{hi+1}`, and `·2^{lo}` by the
normalisation (`mul_plain_result_phase_modulo_norm`), i.e. `phase(a')·pt'·2^{cnv_offset}` (`cnvOffsetSplit_total`).  The same column identity
(`Core.cnvApply_column_value`) holds for every diagonal and pairwise product of the tensor forms. -/
theorem mul_plain_phase_value (N : Nat) (hN : 0 < N) (sk : List Poly) (a0 : Col) (as : List Col) (pt : Col) (hi sa : Nat) (β : Ks.R N)
    (h0 : a0.length = sa) (hall : ∀ x ∈ as, x.length = sa) (hx0 : ∀ l ∈ a0, l.length = N) (hxs : ∀ x ∈ as, ∀ l ∈ x, l.length = N)
    (hpt : ∀ l ∈ pt, l.length = N) (hsa : 1 ≤ sa) (hsb : 1 ≤ pt.length) (hhi : hi ≤ sa + pt.length - 1) :
    ∑ k ∈ Finset.range (sa + pt.length - hi),
        Ks.ι N (Ks.phaseRow sk (((a0 :: as).map (fun x => Hal.cnvApplyCol N (sa + pt.length - hi) hi x pt)).map (fun col => limbOr0 N col k)))
          * β ^ (sa + pt.length - hi - 1 - k)
      + β ^ (sa + pt.length - hi) * (plainTop N β a0 pt hi
          + ∑ i ∈ Finset.range (min sk.length as.length), Ks.ι N (sk.getD i []) * plainTop N β (as.getD i []) pt hi)
      = β * (colVal N β a0 + ∑ i ∈ Finset.range (min sk.length as.length), Ks.ι N (sk.getD i []) * colVal N β (as.getD i [])) * colVal N β pt :=
  mulPlain_phase_value N hN sk a0 as pt hi sa β h0 hall hx0 hxs hpt hsa hsb hhi

example (β : Ks.R 1) :
    ∑ k ∈ Finset.range (2 + 1 - 0),
        Ks.ι 1 (Ks.phaseRow [[1]] (((([[3], [0]] : Col) :: [[[1], [0]]]).map (fun x => Hal.cnvApplyCol 1 (2 + 1 - 0) 0 x [[2]])).map
          (fun col => limbOr0 1 col k))) * β ^ (2 + 1 - 0 - 1 - k)
      + β ^ (2 + 1 - 0) * (plainTop 1 β [[3], [0]] [[2]] 0
          + ∑ i ∈ Finset.range (min 1 1), Ks.ι 1 (([[1]] : List Poly).getD i []) * plainTop 1 β (([[[1], [0]]] : List Col).getD i []) [[2]] 0)
      = β * (colVal 1 β [[3], [0]] + ∑ i ∈ Finset.range (min 1 1), Ks.ι 1 (([[1]] : List Poly).getD i []) * colVal 1 β (([[[1], [0]]] : List Col).getD i []))
          * colVal 1 β [[2]] :=
  mul_plain_phase_value 1 (by decide) [[1]] [[3], [0]] [[[1], [0]]] [[2]] 0 2 β rfl (by decide) (by decide) (by decide) (by decide) (by decide)
    (by decide) (by decide)

/-! ## Composed statements: result phase = product at the documented scale (modulo the C08 kernel relation) -/

/-- **`mul_const_decrypts_modulo_norm`** — `glwe_mul_const`, one statement in one value domain (`R N = ℤ[X]/(X^N+1)`, `β = 2^{base2k}`): `A·phase(result)`
plus `B·β^F·`(skipped top limbs, a multiple of the torus modulus) equals `B·β·val(phase a)·val(b)` plus the explicit normalisation error
`E₀ + Σ s_i E_{i+1}`, where `(A, B, E)` is the value relation of the C08 kernel on each accumulator column (`hK`; for equal radices
`C08.normalize_inter_value` discharges it with `A = 2^{…}`, `B = 2^{lo}`-type factors).  Composition of `mul_const_phase_value` and
`mul_const_result_phase_modulo_norm` through `Lemmas/ValBridge.lean` (`ι ∘ valP ∘ phase` = weighted per-limb phases). -/
theorem mul_const_decrypts_modulo_norm {N : Nat} (hN : 0 < N) (big128 : Bool) (rb rs off b sa : Nat) (a0 : Col) (as : List Col) (cst : List Int)
    (res : List Col) (h : mulConst false big128 N rb rs off b (a0 :: as) cst = some res)
    (h0 : a0.length = sa) (hall : ∀ x ∈ as, x.length = sa) (hx0 : ∀ l ∈ a0, l.length = N) (hxs : ∀ x ∈ as, ∀ l ∈ x, l.length = N)
    (hsa : 1 ≤ sa) (hsb : 1 ≤ cst.length) (hhi : (cnvOffsetSplit b off).1 ≤ sa + cst.length - 1)
    (hres : C02L.GWF N (Ks.mkCt rb N res))
    (A B : Int) (E : Nat → Poly) (hE : ∀ i, (E i).length = N)
    (hK : ∀ i, i < as.length + 1 → ∀ C,
      bigNormalizeOff big128 N rb rs (cnvOffsetSplit b off).2
        (((a0 :: as).map (fun x => cnvByConstCol N (sa + cst.length - (cnvOffsetSplit b off).1) (cnvOffsetSplit b off).1 x cst)).getD i []) b = some C →
      polyScale A (C02L.valP rb N C) = polyAdd (polyScale B (C02L.valP b N
        (((a0 :: as).map (fun x => cnvByConstCol N (sa + cst.length - (cnvOffsetSplit b off).1) (cnvOffsetSplit b off).1 x cst)).getD i []))) (E i))
    (s : List Poly) :
    (A : Ks.R N) * Ks.ι N (C02L.valP rb N (Core.Ops.phase s (Ks.mkCt rb N res)))
      + (B : Ks.R N) * (((2 : Ks.R N) ^ b) ^ (sa + cst.length - (cnvOffsetSplit b off).1) * (constTop N ((2 : Ks.R N) ^ b) a0 cst (cnvOffsetSplit b off).1
          + ∑ i ∈ Finset.range (min s.length as.length), Ks.ι N (s.getD i []) * constTop N ((2 : Ks.R N) ^ b) (as.getD i []) cst (cnvOffsetSplit b off).1))
      = (B : Ks.R N) * ((2 : Ks.R N) ^ b * (colVal N ((2 : Ks.R N) ^ b) a0
          + ∑ i ∈ Finset.range (min s.length as.length), Ks.ι N (s.getD i []) * colVal N ((2 : Ks.R N) ^ b) (as.getD i [])) * constVal N ((2 : Ks.R N) ^ b) cst)
        + Ks.ι N (C02L.errTo (min as.length s.length) s E) := by
  subst h0
  have hm : ((a0 :: as).map (fun x => cnvByConstCol N (a0.length + cst.length - (cnvOffsetSplit b off).1) (cnvOffsetSplit b off).1 x cst)).mapM
      (fun c => bigNormalizeOff big128 N rb rs (cnvOffsetSplit b off).2 c b) = some res := by
    rw [← mapM_comp]
    exact h
  have hwf : ∀ c ∈ (a0 :: as).map (fun x => cnvByConstCol N (a0.length + cst.length - (cnvOffsetSplit b off).1) (cnvOffsetSplit b off).1 x cst),
      C02L.ColWF N (a0.length + cst.length - (cnvOffsetSplit b off).1) c := by
    intro c hc
    obtain ⟨x, hx, rfl⟩ := List.mem_map.mp hc
    apply cnvByConstCol_wf
    rcases List.mem_cons.mp hx with e | e
    · rw [e]; exact hx0
    · exact hxs x e
  have hne : (a0 :: as).map (fun x => cnvByConstCol N (a0.length + cst.length - (cnvOffsetSplit b off).1) (cnvOffsetSplit b off).1 x cst) ≠ [] := by simp
  have hacc : C02L.GWF N (Ks.mkCt b N ((a0 :: as).map (fun x => cnvByConstCol N (a0.length + cst.length - (cnvOffsetSplit b off).1) (cnvOffsetSplit b off).1 x cst))) := by
    refine ⟨rfl, hne, ?_⟩
    intro c hc
    have e : (Ks.mkCt b N ((a0 :: as).map (fun x => cnvByConstCol N (a0.length + cst.length - (cnvOffsetSplit b off).1) (cnvOffsetSplit b off).1 x cst))).size
        = a0.length + cst.length - (cnvOffsetSplit b off).1 := by
      simp [GLWE.size, Ks.mkCt, Core.cnvByConstCol]
    rw [e]
    exact hwf c hc
  have h1 := mapM_kernel_phase_modulo_norm _ rb b _ res hm hres hacc A B E hE (by
    intro i hi C hC
    exact hK i (by simpa using hi) C hC) s
  have e1 : ((a0 :: as).map (fun x => cnvByConstCol N (a0.length + cst.length - (cnvOffsetSplit b off).1) (cnvOffsetSplit b off).1 x cst)).length - 1 = as.length := by simp
  rw [e1] at h1
  have h2 := phase_norm_compose N hN rb b _ s res _ hne hwf A B _ (C02L.errTo_length _ s E hE) h1
  have h3 := mul_const_phase_value N hN s a0 as cst (cnvOffsetSplit b off).1 a0.length ((2 : Ks.R N) ^ b) rfl hall hx0 hxs hsa hsb hhi
  rw [h2, ← h3]
  ring

example (s : List Poly) :
    ((16 : Int) : Ks.R 1) * Ks.ι 1 (C02L.valP 4 1 (Core.Ops.phase s (Ks.mkCt 4 1 [[[6], [0]], [[2], [0]]])))
      + ((1 : Int) : Ks.R 1) * (((2 : Ks.R 1) ^ 4) ^ (2 + [(2 : Int)].length - (cnvOffsetSplit 4 4).1) * (constTop 1 ((2 : Ks.R 1) ^ 4) [[3], [0]] [2] (cnvOffsetSplit 4 4).1
          + ∑ i ∈ Finset.range (min s.length [([[1], [0]] : Col)].length), Ks.ι 1 (s.getD i []) * constTop 1 ((2 : Ks.R 1) ^ 4) (([[[1], [0]]] : List Col).getD i []) [2] (cnvOffsetSplit 4 4).1))
      = ((1 : Int) : Ks.R 1) * ((2 : Ks.R 1) ^ 4 * (colVal 1 ((2 : Ks.R 1) ^ 4) [[3], [0]]
          + ∑ i ∈ Finset.range (min s.length [([[1], [0]] : Col)].length), Ks.ι 1 (s.getD i []) * colVal 1 ((2 : Ks.R 1) ^ 4) (([[[1], [0]]] : List Col).getD i [])) * constVal 1 ((2 : Ks.R 1) ^ 4) [2])
        + Ks.ι 1 (C02L.errTo (min [([[1], [0]] : Col)].length s.length) s (fun _ => [0])) :=
  mul_const_decrypts_modulo_norm (N := 1) (by decide) false 4 2 4 4 2 [[3], [0]] [[[1], [0]]] [2] [[[6], [0]], [[2], [0]]]
    (by decide) rfl (by decide) (by decide) (by decide) (by decide) (by decide) (by decide) (by decide) 16 1 (fun _ => [0]) (fun _ => rfl)
    (by
      intro i hi C hC
      have hi' : i = 0 ∨ i = 1 := by simp at hi; omega
      rcases hi' with rfl | rfl
      · have e : bigNormalizeOff false 1 4 2 (cnvOffsetSplit 4 4).2 (((([[3], [0]] : Col) :: [[[1], [0]]]).map (fun x => Core.cnvByConstCol 1
            (2 + [(2 : Int)].length - (cnvOffsetSplit 4 4).1) (cnvOffsetSplit 4 4).1 x [2])).getD 0 []) 4 = some [[6], [0]] := by decide
        have hC' := e.symm.trans hC; injection hC' with hC'; subst hC'; decide
      · have e : bigNormalizeOff false 1 4 2 (cnvOffsetSplit 4 4).2 (((([[3], [0]] : Col) :: [[[1], [0]]]).map (fun x => Core.cnvByConstCol 1
            (2 + [(2 : Int)].length - (cnvOffsetSplit 4 4).1) (cnvOffsetSplit 4 4).1 x [2])).getD 1 []) 4 = some [[2], [0]] := by decide
        have hC' := e.symm.trans hC; injection hC' with hC'; subst hC'; decide) s
/-- **`mul_const_assign_decrypts_modulo_norm`** — `glwe_mul_const_assign` (accumulator of `res.size = rs` limbs), composed: the result phase, rescaled by
`β^{F−rs}`, plus `B·`(the explicit dropped limbs `rs ≤ k < F` of the full convolution + `β^F·`top limbs) is `B·β·val(phase a)·val(b)` plus the rescaled
normalisation error. -/
theorem mul_const_assign_decrypts_modulo_norm {N : Nat} (hN : 0 < N) (big128 : Bool) (rb rs off b sa : Nat) (a0 : Col) (as : List Col) (cst : List Int)
    (res : List Col) (h : mulConst true big128 N rb rs off b (a0 :: as) cst = some res)
    (h0 : a0.length = sa) (hall : ∀ x ∈ as, x.length = sa) (hx0 : ∀ l ∈ a0, l.length = N) (hxs : ∀ x ∈ as, ∀ l ∈ x, l.length = N)
    (hsa : 1 ≤ sa) (hsb : 1 ≤ cst.length) (hhi : (cnvOffsetSplit b off).1 ≤ sa + cst.length - 1)
    (hR : rs ≤ sa + cst.length - (cnvOffsetSplit b off).1)
    (hres : C02L.GWF N (Ks.mkCt rb N res))
    (A B : Int) (E : Nat → Poly) (hE : ∀ i, (E i).length = N)
    (hK : ∀ i, i < as.length + 1 → ∀ C,
      bigNormalizeOff big128 N rb rs (cnvOffsetSplit b off).2
        (((a0 :: as).map (fun x => cnvByConstCol N rs (cnvOffsetSplit b off).1 x cst)).getD i []) b = some C →
      polyScale A (C02L.valP rb N C) = polyAdd (polyScale B (C02L.valP b N
        (((a0 :: as).map (fun x => cnvByConstCol N rs (cnvOffsetSplit b off).1 x cst)).getD i []))) (E i))
    (s : List Poly) :
    ((2 : Ks.R N) ^ b) ^ (sa + cst.length - (cnvOffsetSplit b off).1 - rs) * ((A : Ks.R N) * Ks.ι N (C02L.valP rb N (Core.Ops.phase s (Ks.mkCt rb N res))))
      + (B : Ks.R N) * (∑ k ∈ Finset.Ico rs (sa + cst.length - (cnvOffsetSplit b off).1),
          Ks.ι N (Ks.phaseRow s (((a0 :: as).map (fun x => cnvByConstCol N (sa + cst.length - (cnvOffsetSplit b off).1) (cnvOffsetSplit b off).1 x cst)).map
            (fun col => limbOr0 N col k))) * ((2 : Ks.R N) ^ b) ^ (sa + cst.length - (cnvOffsetSplit b off).1 - 1 - k)
        + ((2 : Ks.R N) ^ b) ^ (sa + cst.length - (cnvOffsetSplit b off).1) * (constTop N ((2 : Ks.R N) ^ b) a0 cst (cnvOffsetSplit b off).1
          + ∑ i ∈ Finset.range (min s.length as.length), Ks.ι N (s.getD i []) * constTop N ((2 : Ks.R N) ^ b) (as.getD i []) cst (cnvOffsetSplit b off).1))
      = (B : Ks.R N) * ((2 : Ks.R N) ^ b * (colVal N ((2 : Ks.R N) ^ b) a0
          + ∑ i ∈ Finset.range (min s.length as.length), Ks.ι N (s.getD i []) * colVal N ((2 : Ks.R N) ^ b) (as.getD i [])) * constVal N ((2 : Ks.R N) ^ b) cst)
        + ((2 : Ks.R N) ^ b) ^ (sa + cst.length - (cnvOffsetSplit b off).1 - rs) * Ks.ι N (C02L.errTo (min as.length s.length) s E) := by
  have hm : ((a0 :: as).map (fun x => cnvByConstCol N rs (cnvOffsetSplit b off).1 x cst)).mapM
      (fun c => bigNormalizeOff big128 N rb rs (cnvOffsetSplit b off).2 c b) = some res := by
    rw [← mapM_comp]
    exact h
  have hwf : ∀ c ∈ (a0 :: as).map (fun x => cnvByConstCol N rs (cnvOffsetSplit b off).1 x cst), C02L.ColWF N rs c := by
    intro c hc
    obtain ⟨x, hx, rfl⟩ := List.mem_map.mp hc
    apply cnvByConstCol_wf
    rcases List.mem_cons.mp hx with e | e
    · rw [e]; exact hx0
    · exact hxs x e
  have hne : (a0 :: as).map (fun x => cnvByConstCol N rs (cnvOffsetSplit b off).1 x cst) ≠ [] := by simp
  have hacc : C02L.GWF N (Ks.mkCt b N ((a0 :: as).map (fun x => cnvByConstCol N rs (cnvOffsetSplit b off).1 x cst))) := by
    refine ⟨rfl, hne, ?_⟩
    intro c hc
    have e : (Ks.mkCt b N ((a0 :: as).map (fun x => cnvByConstCol N rs (cnvOffsetSplit b off).1 x cst))).size = rs := by
      simp [GLWE.size, Ks.mkCt, Core.cnvByConstCol]
    rw [e]
    exact hwf c hc
  have h1 := mapM_kernel_phase_modulo_norm _ rb b _ res hm hres hacc A B E hE (by
    intro i hi C hC
    exact hK i (by simpa using hi) C hC) s
  have e1 : ((a0 :: as).map (fun x => cnvByConstCol N rs (cnvOffsetSplit b off).1 x cst)).length - 1 = as.length := by simp
  rw [e1] at h1
  have h2 := phase_norm_compose N hN rb b _ s res _ hne hwf A B _ (C02L.errTo_length _ s E hE) h1
  have h3 := mul_const_assign_phase_value N hN s a0 as cst (cnvOffsetSplit b off).1 sa rs ((2 : Ks.R N) ^ b) h0 hall hx0 hxs hsa hsb hhi hR
  linear_combination (((2 : Ks.R N) ^ b) ^ (sa + cst.length - (cnvOffsetSplit b off).1 - rs)) * h2 + (B : Ks.R N) * h3

example (s : List Poly) :
    ((2 : Ks.R 1) ^ 4) ^ (2 + [(2 : Int)].length - (cnvOffsetSplit 4 4).1 - 2) * (((1 : Int) : Ks.R 1) * Ks.ι 1 (C02L.valP 4 1 (Core.Ops.phase s (Ks.mkCt 4 1 [[[6], [0]], [[2], [0]]]))))
      + ((1 : Int) : Ks.R 1) * (∑ k ∈ Finset.Ico 2 (2 + [(2 : Int)].length - (cnvOffsetSplit 4 4).1),
          Ks.ι 1 (Ks.phaseRow s (((([[3], [0]] : Col) :: [[[1], [0]]]).map (fun x => Core.cnvByConstCol 1 (2 + [(2 : Int)].length - (cnvOffsetSplit 4 4).1) (cnvOffsetSplit 4 4).1 x [2])).map
            (fun col => limbOr0 1 col k))) * ((2 : Ks.R 1) ^ 4) ^ (2 + [(2 : Int)].length - (cnvOffsetSplit 4 4).1 - 1 - k)
        + ((2 : Ks.R 1) ^ 4) ^ (2 + [(2 : Int)].length - (cnvOffsetSplit 4 4).1) * (constTop 1 ((2 : Ks.R 1) ^ 4) [[3], [0]] [2] (cnvOffsetSplit 4 4).1
          + ∑ i ∈ Finset.range (min s.length [([[1], [0]] : Col)].length), Ks.ι 1 (s.getD i []) * constTop 1 ((2 : Ks.R 1) ^ 4) (([[[1], [0]]] : List Col).getD i []) [2] (cnvOffsetSplit 4 4).1))
      = ((1 : Int) : Ks.R 1) * ((2 : Ks.R 1) ^ 4 * (colVal 1 ((2 : Ks.R 1) ^ 4) [[3], [0]]
          + ∑ i ∈ Finset.range (min s.length [([[1], [0]] : Col)].length), Ks.ι 1 (s.getD i []) * colVal 1 ((2 : Ks.R 1) ^ 4) (([[[1], [0]]] : List Col).getD i [])) * constVal 1 ((2 : Ks.R 1) ^ 4) [2])
        + ((2 : Ks.R 1) ^ 4) ^ (2 + [(2 : Int)].length - (cnvOffsetSplit 4 4).1 - 2) * Ks.ι 1 (C02L.errTo (min [([[1], [0]] : Col)].length s.length) s (fun _ => [0])) :=
  mul_const_assign_decrypts_modulo_norm (N := 1) (by decide) false 4 2 4 4 2 [[3], [0]] [[[1], [0]]] [2] [[[6], [0]], [[2], [0]]]
    (by decide) rfl (by decide) (by decide) (by decide) (by decide) (by decide) (by decide) (by decide) (by decide) 1 1 (fun _ => [0]) (fun _ => rfl)
    (by
      intro i hi C hC
      have hi' : i = 0 ∨ i = 1 := by simp at hi; omega
      rcases hi' with rfl | rfl
      · have e : bigNormalizeOff false 1 4 2 (cnvOffsetSplit 4 4).2 (((([[3], [0]] : Col) :: [[[1], [0]]]).map (fun x => Core.cnvByConstCol 1
            2 (cnvOffsetSplit 4 4).1 x [2])).getD 0 []) 4 = some [[6], [0]] := by decide
        have hC' := e.symm.trans hC; injection hC' with hC'; subst hC'; decide
      · have e : bigNormalizeOff false 1 4 2 (cnvOffsetSplit 4 4).2 (((([[3], [0]] : Col) :: [[[1], [0]]]).map (fun x => Core.cnvByConstCol 1
            2 (cnvOffsetSplit 4 4).1 x [2])).getD 1 []) 4 = some [[2], [0]] := by decide
        have hC' := e.symm.trans hC; injection hC' with hC'; subst hC'; decide) s
/-- **`mul_plain_decrypts_modulo_norm`** — `glwe_mul_plain`, same composed statement: the operands entering the value are the masked ones
(`cnv_prepare_left/right`, `mask_keeps_top_bits`). -/
theorem mul_plain_decrypts_modulo_norm {N : Nat} (hN : 0 < N) (big128 : Bool) (rb rs off b sa : Nat) (a0 : Col) (as : List Col) (aK : Nat) (pt : Col) (bK : Nat)
    (res : List Col) (h : mulPlain big128 N rb rs off b (a0 :: as) aK pt bK = some res)
    (h0 : a0.length = sa) (hall : ∀ x ∈ as, x.length = sa) (hx0 : ∀ l ∈ a0, l.length = N) (hxs : ∀ x ∈ as, ∀ l ∈ x, l.length = N)
    (hpt : ∀ l ∈ pt, l.length = N) (hsa : 1 ≤ sa) (hsb : 1 ≤ pt.length) (hhi : (cnvOffsetSplit b off).1 ≤ sa + pt.length - 1)
    (hres : C02L.GWF N (Ks.mkCt rb N res))
    (A B : Int) (E : Nat → Poly) (hE : ∀ i, (E i).length = N)
    (hK : ∀ i, i < as.length + 1 → ∀ C,
      bigNormalizeOff big128 N rb rs (cnvOffsetSplit b off).2
        (((prepAll N (msbMaskBottomLimb b aK) (a0 :: as)).map (fun x => Hal.cnvApplyCol N (sa + pt.length - (cnvOffsetSplit b off).1) (cnvOffsetSplit b off).1 x
          (Hal.cnvPrepareCol N pt.length (msbMaskBottomLimb b bK) pt))).getD i []) b = some C →
      polyScale A (C02L.valP rb N C) = polyAdd (polyScale B (C02L.valP b N
        (((prepAll N (msbMaskBottomLimb b aK) (a0 :: as)).map (fun x => Hal.cnvApplyCol N (sa + pt.length - (cnvOffsetSplit b off).1) (cnvOffsetSplit b off).1 x
          (Hal.cnvPrepareCol N pt.length (msbMaskBottomLimb b bK) pt))).getD i []))) (E i))
    (s : List Poly) :
    (A : Ks.R N) * Ks.ι N (C02L.valP rb N (Core.Ops.phase s (Ks.mkCt rb N res)))
      + (B : Ks.R N) * (((2 : Ks.R N) ^ b) ^ (sa + pt.length - (cnvOffsetSplit b off).1) *
          (plainTop N ((2 : Ks.R N) ^ b) (Hal.cnvPrepareCol N a0.length (msbMaskBottomLimb b aK) a0) (Hal.cnvPrepareCol N pt.length (msbMaskBottomLimb b bK) pt) (cnvOffsetSplit b off).1
          + ∑ i ∈ Finset.range (min s.length as.length), Ks.ι N (s.getD i []) *
              plainTop N ((2 : Ks.R N) ^ b) ((prepAll N (msbMaskBottomLimb b aK) as).getD i []) (Hal.cnvPrepareCol N pt.length (msbMaskBottomLimb b bK) pt) (cnvOffsetSplit b off).1))
      = (B : Ks.R N) * ((2 : Ks.R N) ^ b * (colVal N ((2 : Ks.R N) ^ b) (Hal.cnvPrepareCol N a0.length (msbMaskBottomLimb b aK) a0)
          + ∑ i ∈ Finset.range (min s.length as.length), Ks.ι N (s.getD i []) * colVal N ((2 : Ks.R N) ^ b) ((prepAll N (msbMaskBottomLimb b aK) as).getD i []))
            * colVal N ((2 : Ks.R N) ^ b) (Hal.cnvPrepareCol N pt.length (msbMaskBottomLimb b bK) pt))
        + Ks.ι N (C02L.errTo (min as.length s.length) s E) := by
  subst h0
  have hm : ((prepAll N (msbMaskBottomLimb b aK) (a0 :: as)).map (fun x => Hal.cnvApplyCol N (a0.length + pt.length - (cnvOffsetSplit b off).1) (cnvOffsetSplit b off).1 x
      (Hal.cnvPrepareCol N pt.length (msbMaskBottomLimb b bK) pt))).mapM (fun c => bigNormalizeOff big128 N rb rs (cnvOffsetSplit b off).2 c b) = some res := by
    rw [← mapM_comp]
    exact h
  have hptP := cnvPrepareCol_limbs N pt.length (msbMaskBottomLimb b bK) pt hpt
  have hwf : ∀ c ∈ (prepAll N (msbMaskBottomLimb b aK) (a0 :: as)).map (fun x => Hal.cnvApplyCol N (a0.length + pt.length - (cnvOffsetSplit b off).1) (cnvOffsetSplit b off).1 x
      (Hal.cnvPrepareCol N pt.length (msbMaskBottomLimb b bK) pt)), C02L.ColWF N (a0.length + pt.length - (cnvOffsetSplit b off).1) c := by
    intro c hc
    obtain ⟨x, _, rfl⟩ := List.mem_map.mp hc
    exact cnvApplyCol_wf N _ _ x _ hptP
  have hne : (prepAll N (msbMaskBottomLimb b aK) (a0 :: as)).map (fun x => Hal.cnvApplyCol N (a0.length + pt.length - (cnvOffsetSplit b off).1) (cnvOffsetSplit b off).1 x
      (Hal.cnvPrepareCol N pt.length (msbMaskBottomLimb b bK) pt)) ≠ [] := by simp [prepAll]
  have hacc : C02L.GWF N (Ks.mkCt b N ((prepAll N (msbMaskBottomLimb b aK) (a0 :: as)).map (fun x => Hal.cnvApplyCol N (a0.length + pt.length - (cnvOffsetSplit b off).1) (cnvOffsetSplit b off).1 x
      (Hal.cnvPrepareCol N pt.length (msbMaskBottomLimb b bK) pt)))) := by
    refine ⟨rfl, hne, ?_⟩
    intro c hc
    have e : (Ks.mkCt b N ((prepAll N (msbMaskBottomLimb b aK) (a0 :: as)).map (fun x => Hal.cnvApplyCol N (a0.length + pt.length - (cnvOffsetSplit b off).1) (cnvOffsetSplit b off).1 x
        (Hal.cnvPrepareCol N pt.length (msbMaskBottomLimb b bK) pt)))).size = a0.length + pt.length - (cnvOffsetSplit b off).1 := by
      simp [GLWE.size, Ks.mkCt, prepAll, Hal.cnvApplyCol]
    rw [e]
    exact hwf c hc
  have h1 := mapM_kernel_phase_modulo_norm _ rb b _ res hm hres hacc A B E hE (by
    intro i hi C hC
    exact hK i (by simpa [prepAll] using hi) C hC) s
  have e1 : ((prepAll N (msbMaskBottomLimb b aK) (a0 :: as)).map (fun x => Hal.cnvApplyCol N (a0.length + pt.length - (cnvOffsetSplit b off).1) (cnvOffsetSplit b off).1 x
      (Hal.cnvPrepareCol N pt.length (msbMaskBottomLimb b bK) pt))).length - 1 = as.length := by simp [prepAll]
  rw [e1] at h1
  have h2 := phase_norm_compose N hN rb b _ s res _ hne hwf A B _ (C02L.errTo_length _ s E hE) h1
  have h3 := mul_plain_phase_value N hN s (Hal.cnvPrepareCol N a0.length (msbMaskBottomLimb b aK) a0) (prepAll N (msbMaskBottomLimb b aK) as)
    (Hal.cnvPrepareCol N pt.length (msbMaskBottomLimb b bK) pt) (cnvOffsetSplit b off).1 a0.length ((2 : Ks.R N) ^ b)
    (Hal.cnvPrepareCol_length _ _ _ _)
    (by
      intro x hx
      obtain ⟨c, hc, rfl⟩ := List.mem_map.mp hx
      rw [Hal.cnvPrepareCol_length]; exact hall c hc)
    (cnvPrepareCol_limbs N _ _ a0 hx0)
    (by
      intro x hx
      obtain ⟨c, hc, rfl⟩ := List.mem_map.mp hx
      exact cnvPrepareCol_limbs N _ _ c (hxs c hc))
    hptP hsa (by rw [Hal.cnvPrepareCol_length]; exact hsb) (by rw [Hal.cnvPrepareCol_length]; exact hhi)
  rw [Hal.cnvPrepareCol_length] at h3
  have e2 : prepAll N (msbMaskBottomLimb b aK) (a0 :: as)
      = Hal.cnvPrepareCol N a0.length (msbMaskBottomLimb b aK) a0 :: prepAll N (msbMaskBottomLimb b aK) as := rfl
  rw [e2] at h2
  have e3 : (prepAll N (msbMaskBottomLimb b aK) as).length = as.length := by simp [prepAll]
  rw [e3] at h3
  rw [h2, ← h3]
  ring

example (s : List Poly) :
    ((16 : Int) : Ks.R 1) * Ks.ι 1 (C02L.valP 4 1 (Core.Ops.phase s (Ks.mkCt 4 1 [[[6], [0]], [[2], [0]]])))
      + ((1 : Int) : Ks.R 1) * (((2 : Ks.R 1) ^ 4) ^ (2 + ([[2]] : Col).length - (cnvOffsetSplit 4 4).1) *
          (plainTop 1 ((2 : Ks.R 1) ^ 4) (Hal.cnvPrepareCol 1 ([[3], [0]] : Col).length (msbMaskBottomLimb 4 8) [[3], [0]])
              (Hal.cnvPrepareCol 1 ([[2]] : Col).length (msbMaskBottomLimb 4 4) [[2]]) (cnvOffsetSplit 4 4).1
          + ∑ i ∈ Finset.range (min s.length [([[1], [0]] : Col)].length), Ks.ι 1 (s.getD i []) *
              plainTop 1 ((2 : Ks.R 1) ^ 4) ((prepAll 1 (msbMaskBottomLimb 4 8) [[[1], [0]]]).getD i [])
                (Hal.cnvPrepareCol 1 ([[2]] : Col).length (msbMaskBottomLimb 4 4) [[2]]) (cnvOffsetSplit 4 4).1))
      = ((1 : Int) : Ks.R 1) * ((2 : Ks.R 1) ^ 4 * (colVal 1 ((2 : Ks.R 1) ^ 4) (Hal.cnvPrepareCol 1 ([[3], [0]] : Col).length (msbMaskBottomLimb 4 8) [[3], [0]])
          + ∑ i ∈ Finset.range (min s.length [([[1], [0]] : Col)].length), Ks.ι 1 (s.getD i []) *
              colVal 1 ((2 : Ks.R 1) ^ 4) ((prepAll 1 (msbMaskBottomLimb 4 8) [[[1], [0]]]).getD i []))
            * colVal 1 ((2 : Ks.R 1) ^ 4) (Hal.cnvPrepareCol 1 ([[2]] : Col).length (msbMaskBottomLimb 4 4) [[2]]))
        + Ks.ι 1 (C02L.errTo (min [([[1], [0]] : Col)].length s.length) s (fun _ => [0])) :=
  mul_plain_decrypts_modulo_norm (N := 1) (by decide) false 4 2 4 4 2 [[3], [0]] [[[1], [0]]] 8 [[2]] 4 [[[6], [0]], [[2], [0]]]
    (by decide) rfl (by decide) (by decide) (by decide) (by decide) (by decide) (by decide) (by decide) (by decide) 16 1 (fun _ => [0]) (fun _ => rfl)
    (by
      intro i hi C hC
      have hi' : i = 0 ∨ i = 1 := by simp at hi; omega
      rcases hi' with rfl | rfl
      · have e : bigNormalizeOff false 1 4 2 (cnvOffsetSplit 4 4).2 (((prepAll 1 (msbMaskBottomLimb 4 8) (([[3], [0]] : Col) :: [[[1], [0]]])).map
            (fun x => Hal.cnvApplyCol 1 (2 + ([[2]] : Col).length - (cnvOffsetSplit 4 4).1) (cnvOffsetSplit 4 4).1 x
              (Hal.cnvPrepareCol 1 ([[2]] : Col).length (msbMaskBottomLimb 4 4) [[2]]))).getD 0 []) 4 = some [[6], [0]] := by decide
        have hC' := e.symm.trans hC; injection hC' with hC'; subst hC'; decide
      · have e : bigNormalizeOff false 1 4 2 (cnvOffsetSplit 4 4).2 (((prepAll 1 (msbMaskBottomLimb 4 8) (([[3], [0]] : Col) :: [[[1], [0]]])).map
            (fun x => Hal.cnvApplyCol 1 (2 + ([[2]] : Col).length - (cnvOffsetSplit 4 4).1) (cnvOffsetSplit 4 4).1 x
              (Hal.cnvPrepareCol 1 ([[2]] : Col).length (msbMaskBottomLimb 4 4) [[2]]))).getD 1 []) 4 = some [[2], [0]] := by decide
        have hC' := e.symm.trans hC; injection hC' with hC'; subst hC'; decide) s
instance (c : Col) : Decidable (C02L.ColSmall c) := by unfold C02L.ColSmall C02L.PolySmall; infer_instance
instance (N : Nat) (c : Col) : Decidable (C02L.LimbsN N c) := by unfold C02L.LimbsN; infer_instance

/-- **`relin_decrypts_modulo_norm`** — `glwe_tensor_relinearize` with the tensor in the key radix, i64 accumulator (FFT64), every key digit size: one
composed statement.  `A·phase(res) = B·(Σ_p σ_p·usedVal(a_p) + Σ_p(Σ_r digit·E − dropped − β^S·head) + phase(first columns of the tensor at S limbs))
+ (E₀ + Σ s_i E_{i+1})`: the pair columns are re-encrypted under `s` by the gadget product (`relin_product_value`), the first `rank+1` columns are
added exactly (`Core.bigAddSmallAssign_exact`, 2^62 head-room), and the final normalisation contributes the kernel relation `(A, B, En)`
(`Core.acc_norm_compose`, `Lemmas/AccAdd.lean`).  With `σ_p = s_i·s_j` this is `tensor_phase` evaluated under `s`. -/
theorem relin_decrypts_modulo_norm {N : Nat} (rb rs : Nat) (a : List Col) (g : GGLWE) (res0 res : List Col) (sk : List Poly)
    (hok : relinearize false N rb rs a g.base2k g g.size res0 = some res)
    (A B : Int) (En : Nat → Poly) (hEn : ∀ i, (En i).length = N)
    (hPwf : ∀ c ∈ Core.gglweProductDft (relinInput N a g) g g.size res0, C02L.ColWF N g.size c)
    (hPs : ∀ c ∈ Core.gglweProductDft (relinInput N a g) g g.size res0, C02L.ColSmall c)
    (hawf : ∀ j, j < g.colsOut → C02L.LimbsN N (a.getD j [])) (has : ∀ j, j < g.colsOut → C02L.ColSmall (a.getD j []))
    (hres : C02L.GWF N (Ks.mkCt rb N res))
    (hK : ∀ i, i < g.colsOut → ∀ C,
      bigNormalizeOff false N rb rs 0 (bigAddSmallAssign false ((Core.gglweProductDft (relinInput N a g) g g.size res0).getD i []) (a.getD i [])) g.base2k
        = some C →
      polyScale A (C02L.valP rb N C) = polyAdd (polyScale B (C02L.valP g.base2k N
        (bigAddSmallAssign false ((Core.gglweProductDft (relinInput N a g) g g.size res0).getD i []) (a.getD i [])))) (En i))
    (σ : ℕ → Ks.R N) (E : ℕ → ℕ → Ks.R N)
    (hd : 1 ≤ g.dsize) (hN : 0 < N) (hn : g.n = N) (hc : 0 < g.colsOut)
    (h0 : shapeOk g.n g.colsOut g.size res0 = true) (hM : ∀ j q, (g.toPMat.entry j q).length = N)
    (hS : g.dnum * g.dsize ≤ g.size)
    (hkey : ∀ i, i < g.colsIn → ∀ r, r < g.dnum →
      Gadget.val ((2 : Ks.R N) ^ g.base2k) g.size (Ks.keyPhase N sk g.toPMat i r)
        = 1 * σ i * ((2 : Ks.R N) ^ g.base2k) ^ (g.size - (r + 1) * g.dsize) + E i r) :
    (A : Ks.R N) * Ks.ι N (C02L.valP rb N (Core.Ops.phase sk (Ks.mkCt rb N res)))
      = (B : Ks.R N) * ((1 * ∑ i ∈ Finset.range g.colsIn,
            σ i * Gadget.usedVal ((2 : Ks.R N) ^ g.base2k) g.size g.dsize g.dnum ((relinInput N a g).getD 0 []).length
              (Ks.inLimb N (mkBuf g.n g.colsIn ((relinInput N a g).getD 0 []).length (relinInput N a g)) i)
        + ∑ i ∈ Finset.range g.colsIn,
            (∑ r ∈ Finset.range g.dnum,
                Gadget.digit ((2 : Ks.R N) ^ g.base2k) g.dsize g.dnum ((relinInput N a g).getD 0 []).length
                  (Ks.inLimb N (mkBuf g.n g.colsIn ((relinInput N a g).getD 0 []).length (relinInput N a g)) i) r * E i r
              - Gadget.dropped ((2 : Ks.R N) ^ g.base2k) g.size g.dsize g.dnum ((relinInput N a g).getD 0 []).length
                  (Ks.inLimb N (mkBuf g.n g.colsIn ((relinInput N a g).getD 0 []).length (relinInput N a g)) i) (Ks.keyPhase N sk g.toPMat i)
              - ((2 : Ks.R N) ^ g.base2k) ^ g.size * Gadget.head ((2 : Ks.R N) ^ g.base2k) g.dsize g.dnum ((relinInput N a g).getD 0 []).length
                  (Ks.inLimb N (mkBuf g.n g.colsIn ((relinInput N a g).getD 0 []).length (relinInput N a g)) i) (Ks.keyPhase N sk g.toPMat i)))
          + Ks.ι N (C02L.valP g.base2k N (Core.Ops.phase sk (Ks.mkCt g.base2k N
              ((List.range g.colsOut).map (fun j => C02L.fit N g.size (a.getD j [])))))))
        + Ks.ι N (C02L.errTo (min (g.colsOut - 1) sk.length) sk En) := by
  obtain ⟨n, hn1⟩ : ∃ n, g.colsOut = n + 1 := ⟨g.colsOut - 1, by omega⟩
  unfold relinearize at hok
  simp only [ne_eq, not_true_eq_false, if_false, if_true, mapM_some_map, Option.bind_some] at hok
  have hPlen : (Core.gglweProductDft (relinInput N a g) g g.size res0).length = n + 1 := by
    simp [Core.gglweProductDft, hn1]
  have hm : (List.range (n + 1)).mapM (fun j => (fun c => bigNormalizeOff false N rb rs 0 c g.base2k)
      (bigAddSmallAssign false ((Core.gglweProductDft (relinInput N a g) g g.size res0).getD j []) (a.getD j []))) = some res := by
    rw [mapM_comp (fun j => bigAddSmallAssign false ((Core.gglweProductDft (relinInput N a g) g g.size res0).getD j []) (a.getD j []))
      (fun c => bigNormalizeOff false N rb rs 0 c g.base2k), ← hn1]
    exact hok
  have h := acc_norm_compose N hN (fun c => bigNormalizeOff false N rb rs 0 c g.base2k) rb g.base2k g.size n
    (Core.gglweProductDft (relinInput N a g) g g.size res0) (fun j => a.getD j []) res sk hPlen hPwf hPs
    (fun j hj => hawf j (by omega)) (fun j hj => has j (by omega)) hm hres A B En hEn (fun i hi => hK i (by omega))
  have h3 := relin_product_value N sk (relinInput N a g) g res0 ((2 : Ks.R N) ^ g.base2k) σ E hd hN hn hc h0 hM hS hkey
  rw [h, h3, hn1]
  simp only [Nat.add_sub_cancel]

example (σ : ℕ → Ks.R 1) :
    ((1 : Int) : Ks.R 1) * Ks.ι 1 (C02L.valP 4 1 (Core.Ops.phase [[1]] (Ks.mkCt 4 1 [[[2], [0], [0]], [[2], [2], [0]]])))
      = ((1 : Int) : Ks.R 1) * ((1 * ∑ i ∈ Finset.range exTsk.colsIn,
            σ i * Gadget.usedVal ((2 : Ks.R 1) ^ exTsk.base2k) exTsk.size exTsk.dsize exTsk.dnum ((relinInput 1 ([[[1], [0]], [[0], [1]], [[2], [1]]] : List Col) exTsk).getD 0 []).length
              (Ks.inLimb 1 (mkBuf exTsk.n exTsk.colsIn ((relinInput 1 ([[[1], [0]], [[0], [1]], [[2], [1]]] : List Col) exTsk).getD 0 []).length (relinInput 1 ([[[1], [0]], [[0], [1]], [[2], [1]]] : List Col) exTsk)) i)
        + ∑ i ∈ Finset.range exTsk.colsIn,
            (∑ r ∈ Finset.range exTsk.dnum,
                Gadget.digit ((2 : Ks.R 1) ^ exTsk.base2k) exTsk.dsize exTsk.dnum ((relinInput 1 ([[[1], [0]], [[0], [1]], [[2], [1]]] : List Col) exTsk).getD 0 []).length
                  (Ks.inLimb 1 (mkBuf exTsk.n exTsk.colsIn ((relinInput 1 ([[[1], [0]], [[0], [1]], [[2], [1]]] : List Col) exTsk).getD 0 []).length (relinInput 1 ([[[1], [0]], [[0], [1]], [[2], [1]]] : List Col) exTsk)) i) r *
                  (Gadget.val ((2 : Ks.R 1) ^ exTsk.base2k) exTsk.size (Ks.keyPhase 1 [[1]] exTsk.toPMat i r)
                    - 1 * σ i * ((2 : Ks.R 1) ^ exTsk.base2k) ^ (exTsk.size - (r + 1) * exTsk.dsize))
              - Gadget.dropped ((2 : Ks.R 1) ^ exTsk.base2k) exTsk.size exTsk.dsize exTsk.dnum ((relinInput 1 ([[[1], [0]], [[0], [1]], [[2], [1]]] : List Col) exTsk).getD 0 []).length
                  (Ks.inLimb 1 (mkBuf exTsk.n exTsk.colsIn ((relinInput 1 ([[[1], [0]], [[0], [1]], [[2], [1]]] : List Col) exTsk).getD 0 []).length (relinInput 1 ([[[1], [0]], [[0], [1]], [[2], [1]]] : List Col) exTsk)) i) (Ks.keyPhase 1 [[1]] exTsk.toPMat i)
              - ((2 : Ks.R 1) ^ exTsk.base2k) ^ exTsk.size * Gadget.head ((2 : Ks.R 1) ^ exTsk.base2k) exTsk.dsize exTsk.dnum ((relinInput 1 ([[[1], [0]], [[0], [1]], [[2], [1]]] : List Col) exTsk).getD 0 []).length
                  (Ks.inLimb 1 (mkBuf exTsk.n exTsk.colsIn ((relinInput 1 ([[[1], [0]], [[0], [1]], [[2], [1]]] : List Col) exTsk).getD 0 []).length (relinInput 1 ([[[1], [0]], [[0], [1]], [[2], [1]]] : List Col) exTsk)) i) (Ks.keyPhase 1 [[1]] exTsk.toPMat i)))
          + Ks.ι 1 (C02L.valP exTsk.base2k 1 (Core.Ops.phase [[1]] (Ks.mkCt exTsk.base2k 1
              ((List.range exTsk.colsOut).map (fun j => C02L.fit 1 exTsk.size (([[[1], [0]], [[0], [1]], [[2], [1]]] : List Col).getD j [])))))))
        + Ks.ι 1 (C02L.errTo (min (exTsk.colsOut - 1) ([[1]] : List Poly).length) [[1]] (fun _ => [0])) :=
  relin_decrypts_modulo_norm (N := 1) 4 3 ([[[1], [0]], [[0], [1]], [[2], [1]]] : List Col) exTsk (zeroCols 1 2 3) [[[2], [0], [0]], [[2], [2], [0]]] [[1]]
    (by decide +kernel) 1 1 (fun _ => [0]) (fun _ => rfl)
    (by decide +kernel) (by decide +kernel) (by decide) (by decide) (by decide)
    (by
      intro i hi C hC
      have hi' : i = 0 ∨ i = 1 := by have : i < 2 := hi; omega
      rcases hi' with rfl | rfl
      · have e : bigNormalizeOff false 1 4 3 0 (bigAddSmallAssign false ((Core.gglweProductDft (relinInput 1 ([[[1], [0]], [[0], [1]], [[2], [1]]] : List Col) exTsk) exTsk exTsk.size (zeroCols 1 2 3)).getD 0 []) (([[[1], [0]], [[0], [1]], [[2], [1]]] : List Col).getD 0 [])) exTsk.base2k
            = some [[2], [0], [0]] := by decide +kernel
        have hC' := e.symm.trans hC; injection hC' with hC'; subst hC'; decide +kernel
      · have e : bigNormalizeOff false 1 4 3 0 (bigAddSmallAssign false ((Core.gglweProductDft (relinInput 1 ([[[1], [0]], [[0], [1]], [[2], [1]]] : List Col) exTsk) exTsk exTsk.size (zeroCols 1 2 3)).getD 1 []) (([[[1], [0]], [[0], [1]], [[2], [1]]] : List Col).getD 1 [])) exTsk.base2k
            = some [[2], [2], [0]] := by decide +kernel
        have hC' := e.symm.trans hC; injection hC' with hC'; subst hC'; decide +kernel)
    σ (fun i r => Gadget.val ((2 : Ks.R 1) ^ exTsk.base2k) exTsk.size (Ks.keyPhase 1 [[1]] exTsk.toPMat i r)
                    - 1 * σ i * ((2 : Ks.R 1) ^ exTsk.base2k) ^ (exTsk.size - (r + 1) * exTsk.dsize))
    (by decide) (by decide) rfl (by decide) (by decide) (Ks.entry_length exTsk.toPMat 1 rfl (by decide +kernel)) (by decide)
    (by intro i _ r _; exact (add_sub_cancel _ _).symm)
/-! ## Unconditional composed statements: every kernel hypothesis discharged by C08's total value theorems -/

/-- **`mul_const_decrypts`** — `glwe_mul_const`, END TO END, ANY radix pair `1..62`, every `cnv_offset` (bit offset `lo` of either sign), both
accumulator widths; the only analytic hypothesis is the accumulator head-room (`mul_const_headroom` derives it from digit bounds).  The call
returns a well-formed ciphertext with digits `≤ 2^rb − 1` and
`2^(b·F+(−lo)⁺)·phase(res) + 2^(rb·rs)·2^(lo⁺)·β^F·top = 2^(rb·rs)·2^(lo⁺)·β·val(phase a)·val(cst) + En + 2^(…)·Q`,
`‖En‖_∞ ≤ (1 + Σ‖s_i‖₁)·normTolOff` (one unit of the result's last limb per column, `0` when `b·F − lo ≤ rb·rs`); with
`cnvOffsetSplit_total` the scale is `2^cnv_offset`. -/
theorem mul_const_decrypts {N : Nat} (hN : 0 < N) (big128 : Bool) (rb rs off b sa : Nat) (a0 : Col) (as : List Col) (cst : List Int) (H : Int)
    (h0 : a0.length = sa) (hall : ∀ x ∈ as, x.length = sa) (hx0 : ∀ l ∈ a0, l.length = N) (hxs : ∀ x ∈ as, ∀ l ∈ x, l.length = N)
    (hsa : 1 ≤ sa) (hsb : 1 ≤ cst.length) (hhi : (cnvOffsetSplit b off).1 ≤ sa + cst.length - 1)
    (hrb1 : 1 ≤ rb) (hrb : rb ≤ 62) (hb1 : 1 ≤ b) (hb : b ≤ 62) (hH0 : 0 ≤ H) (hH : H + 8 ≤ 2 ^ (bitsOf big128 - 2))
    (hacc : ∀ x ∈ a0 :: as, ∀ l ∈ cnvByConstCol N (sa + cst.length - (cnvOffsetSplit b off).1) (cnvOffsetSplit b off).1 x cst, ∀ v ∈ l, |v| ≤ H)
    (s : List Poly) :
    ∃ res, mulConst false big128 N rb rs off b (a0 :: as) cst = some res ∧ C02L.GWF N (Ks.mkCt rb N res) ∧
      (∀ c ∈ res, ∀ l ∈ c, ∀ x ∈ l, |x| ≤ 2 ^ rb - 1) ∧
      ∃ En Q : Poly, En.length = N ∧ Q.length = N ∧
        normInf En ≤ (1 + C02L.snorm (min as.length s.length) s) *
          normTolOff (rb * rs) (b * (sa + cst.length - (cnvOffsetSplit b off).1)) (cnvOffsetSplit b off).2 ∧
        (2 : Ks.R N) ^ (b * (sa + cst.length - (cnvOffsetSplit b off).1) + (-(cnvOffsetSplit b off).2).toNat)
            * Ks.ι N (C02L.valP rb N (Core.Ops.phase s (Ks.mkCt rb N res)))
          + (2 : Ks.R N) ^ (rb * rs) * (2 : Ks.R N) ^ (cnvOffsetSplit b off).2.toNat *
              (((2 : Ks.R N) ^ b) ^ (sa + cst.length - (cnvOffsetSplit b off).1) * (constTop N ((2 : Ks.R N) ^ b) a0 cst (cnvOffsetSplit b off).1
                + ∑ i ∈ Finset.range (min s.length as.length), Ks.ι N (s.getD i []) * constTop N ((2 : Ks.R N) ^ b) (as.getD i []) cst (cnvOffsetSplit b off).1))
          = (2 : Ks.R N) ^ (rb * rs) * (2 : Ks.R N) ^ (cnvOffsetSplit b off).2.toNat *
              ((2 : Ks.R N) ^ b * (colVal N ((2 : Ks.R N) ^ b) a0
                + ∑ i ∈ Finset.range (min s.length as.length), Ks.ι N (s.getD i []) * colVal N ((2 : Ks.R N) ^ b) (as.getD i [])) * constVal N ((2 : Ks.R N) ^ b) cst)
            + Ks.ι N En
            + (2 : Ks.R N) ^ (rb * rs + (b * (sa + cst.length - (cnvOffsetSplit b off).1) + (-(cnvOffsetSplit b off).2).toNat)) * Ks.ι N Q := by
  subst h0
  have hwf : ∀ c ∈ (a0 :: as).map (fun x => cnvByConstCol N (a0.length + cst.length - (cnvOffsetSplit b off).1) (cnvOffsetSplit b off).1 x cst),
      C02L.ColWF N (a0.length + cst.length - (cnvOffsetSplit b off).1) c := by
    intro c hc
    obtain ⟨x, hx, rfl⟩ := List.mem_map.mp hc
    apply cnvByConstCol_wf
    rcases List.mem_cons.mp hx with e | e
    · rw [e]; exact hx0
    · exact hxs x e
  have hne : (a0 :: as).map (fun x => cnvByConstCol N (a0.length + cst.length - (cnvOffsetSplit b off).1) (cnvOffsetSplit b off).1 x cst) ≠ [] := by simp
  have hbd : ∀ c ∈ (a0 :: as).map (fun x => cnvByConstCol N (a0.length + cst.length - (cnvOffsetSplit b off).1) (cnvOffsetSplit b off).1 x cst),
      ∀ l ∈ c, ∀ v ∈ l, |v| ≤ H := by
    intro c hc
    obtain ⟨x, hx, rfl⟩ := List.mem_map.mp hc
    exact hacc x hx
  obtain ⟨cs, h1, h2, h3, h4, h5⟩ := norm_total_rows big128 N rb rs b (a0.length + cst.length - (cnvOffsetSplit b off).1) (cnvOffsetSplit b off).2 H _
    hN hrb1 hrb hb1 hb hH0 hH hne hwf hbd
  have hcsne : cs ≠ [] := by intro h; rw [h] at h2; simp at h2
  refine ⟨cs, ?_, (gwf_mk (N := N) rb rs cs hcsne h3).1, h4, ?_⟩
  · have : mulConst false big128 N rb rs off b (a0 :: as) cst = (a0 :: as).mapM (fun x =>
        bigNormalizeOff big128 N rb rs (cnvOffsetSplit b off).2 (cnvByConstCol N (a0.length + cst.length - (cnvOffsetSplit b off).1) (cnvOffsetSplit b off).1 x cst) b) := rfl
    rw [this, mapM_comp (fun x => cnvByConstCol N (a0.length + cst.length - (cnvOffsetSplit b off).1) (cnvOffsetSplit b off).1 x cst)
      (fun c => bigNormalizeOff big128 N rb rs (cnvOffsetSplit b off).2 c b)]
    exact h1
  · obtain ⟨En, Q, hE, hQ, hnm, he⟩ := h5 s
    have e1 : ((a0 :: as).map (fun x => cnvByConstCol N (a0.length + cst.length - (cnvOffsetSplit b off).1) (cnvOffsetSplit b off).1 x cst)).length - 1 = as.length := by simp
    rw [e1] at hnm
    refine ⟨En, Q, hE, hQ, hnm, ?_⟩
    have h3' := mul_const_phase_value N hN s a0 as cst (cnvOffsetSplit b off).1 a0.length ((2 : Ks.R N) ^ b) rfl hall hx0 hxs hsa hsb hhi
    rw [he, ← h3']
    ring

example (s : List Poly) : ∃ res, mulConst false false 1 4 2 4 4 ((([[3], [0]] : Col)) :: [[[1], [0]]]) [2] = some res ∧ C02L.GWF 1 (Ks.mkCt 4 1 res) := by
  obtain ⟨res, h1, h2, _⟩ := mul_const_decrypts (N := 1) (by decide) false 4 2 4 4 2 [[3], [0]] [[[1], [0]]] [2] (2 ^ 61)
    rfl (by decide) (by decide) (by decide) (by decide) (by decide) (by decide) (by decide) (by decide) (by decide) (by decide) (by decide) (by decide)
    (by decide) s
  exact ⟨res, h1, h2⟩

/-- **`mul_const_assign_decrypts`** — `glwe_mul_const_assign` (accumulator of `rs = res.size` limbs), END TO END, same generality: the result
phase rescaled by `β^{F−rs}`, plus the explicit dropped limbs and the skipped top limbs, is the product plus the rescaled rounding `En`. -/
theorem mul_const_assign_decrypts {N : Nat} (hN : 0 < N) (big128 : Bool) (rb rs off b sa : Nat) (a0 : Col) (as : List Col) (cst : List Int) (H : Int)
    (h0 : a0.length = sa) (hall : ∀ x ∈ as, x.length = sa) (hx0 : ∀ l ∈ a0, l.length = N) (hxs : ∀ x ∈ as, ∀ l ∈ x, l.length = N)
    (hsa : 1 ≤ sa) (hsb : 1 ≤ cst.length) (hhi : (cnvOffsetSplit b off).1 ≤ sa + cst.length - 1)
    (hR : rs ≤ sa + cst.length - (cnvOffsetSplit b off).1)
    (hrb1 : 1 ≤ rb) (hrb : rb ≤ 62) (hb1 : 1 ≤ b) (hb : b ≤ 62) (hH0 : 0 ≤ H) (hH : H + 8 ≤ 2 ^ (bitsOf big128 - 2))
    (hacc : ∀ x ∈ a0 :: as, ∀ l ∈ cnvByConstCol N rs (cnvOffsetSplit b off).1 x cst, ∀ v ∈ l, |v| ≤ H)
    (s : List Poly) :
    ∃ res, mulConst true big128 N rb rs off b (a0 :: as) cst = some res ∧ C02L.GWF N (Ks.mkCt rb N res) ∧
      (∀ c ∈ res, ∀ l ∈ c, ∀ x ∈ l, |x| ≤ 2 ^ rb - 1) ∧
      ∃ En Q : Poly, En.length = N ∧ Q.length = N ∧
        normInf En ≤ (1 + C02L.snorm (min as.length s.length) s) * normTolOff (rb * rs) (b * rs) (cnvOffsetSplit b off).2 ∧
        ((2 : Ks.R N) ^ b) ^ (sa + cst.length - (cnvOffsetSplit b off).1 - rs) *
            ((2 : Ks.R N) ^ (b * rs + (-(cnvOffsetSplit b off).2).toNat) * Ks.ι N (C02L.valP rb N (Core.Ops.phase s (Ks.mkCt rb N res))))
          + (2 : Ks.R N) ^ (rb * rs) * (2 : Ks.R N) ^ (cnvOffsetSplit b off).2.toNat *
              (∑ k ∈ Finset.Ico rs (sa + cst.length - (cnvOffsetSplit b off).1),
                  Ks.ι N (Ks.phaseRow s (((a0 :: as).map (fun x => cnvByConstCol N (sa + cst.length - (cnvOffsetSplit b off).1) (cnvOffsetSplit b off).1 x cst)).map
                    (fun col => limbOr0 N col k))) * ((2 : Ks.R N) ^ b) ^ (sa + cst.length - (cnvOffsetSplit b off).1 - 1 - k)
                + ((2 : Ks.R N) ^ b) ^ (sa + cst.length - (cnvOffsetSplit b off).1) * (constTop N ((2 : Ks.R N) ^ b) a0 cst (cnvOffsetSplit b off).1
                  + ∑ i ∈ Finset.range (min s.length as.length), Ks.ι N (s.getD i []) * constTop N ((2 : Ks.R N) ^ b) (as.getD i []) cst (cnvOffsetSplit b off).1))
          = (2 : Ks.R N) ^ (rb * rs) * (2 : Ks.R N) ^ (cnvOffsetSplit b off).2.toNat *
              ((2 : Ks.R N) ^ b * (colVal N ((2 : Ks.R N) ^ b) a0
                + ∑ i ∈ Finset.range (min s.length as.length), Ks.ι N (s.getD i []) * colVal N ((2 : Ks.R N) ^ b) (as.getD i [])) * constVal N ((2 : Ks.R N) ^ b) cst)
            + ((2 : Ks.R N) ^ b) ^ (sa + cst.length - (cnvOffsetSplit b off).1 - rs) *
                (Ks.ι N En + (2 : Ks.R N) ^ (rb * rs + (b * rs + (-(cnvOffsetSplit b off).2).toNat)) * Ks.ι N Q) := by
  have hwf : ∀ c ∈ (a0 :: as).map (fun x => cnvByConstCol N rs (cnvOffsetSplit b off).1 x cst), C02L.ColWF N rs c := by
    intro c hc
    obtain ⟨x, hx, rfl⟩ := List.mem_map.mp hc
    apply cnvByConstCol_wf
    rcases List.mem_cons.mp hx with e | e
    · rw [e]; exact hx0
    · exact hxs x e
  have hne : (a0 :: as).map (fun x => cnvByConstCol N rs (cnvOffsetSplit b off).1 x cst) ≠ [] := by simp
  have hbd : ∀ c ∈ (a0 :: as).map (fun x => cnvByConstCol N rs (cnvOffsetSplit b off).1 x cst), ∀ l ∈ c, ∀ v ∈ l, |v| ≤ H := by
    intro c hc
    obtain ⟨x, hx, rfl⟩ := List.mem_map.mp hc
    exact hacc x hx
  obtain ⟨cs, h1, h2, h3, h4, h5⟩ := norm_total_rows big128 N rb rs b rs (cnvOffsetSplit b off).2 H _
    hN hrb1 hrb hb1 hb hH0 hH hne hwf hbd
  have hcsne : cs ≠ [] := by intro h; rw [h] at h2; simp at h2
  refine ⟨cs, ?_, (gwf_mk (N := N) rb rs cs hcsne h3).1, h4, ?_⟩
  · have : mulConst true big128 N rb rs off b (a0 :: as) cst = (a0 :: as).mapM (fun x =>
        bigNormalizeOff big128 N rb rs (cnvOffsetSplit b off).2 (cnvByConstCol N rs (cnvOffsetSplit b off).1 x cst) b) := rfl
    rw [this, mapM_comp (fun x => cnvByConstCol N rs (cnvOffsetSplit b off).1 x cst)
      (fun c => bigNormalizeOff big128 N rb rs (cnvOffsetSplit b off).2 c b)]
    exact h1
  · obtain ⟨En, Q, hE, hQ, hnm, he⟩ := h5 s
    have e1 : ((a0 :: as).map (fun x => cnvByConstCol N rs (cnvOffsetSplit b off).1 x cst)).length - 1 = as.length := by simp
    rw [e1] at hnm
    refine ⟨En, Q, hE, hQ, hnm, ?_⟩
    have h3' := mul_const_assign_phase_value N hN s a0 as cst (cnvOffsetSplit b off).1 sa rs ((2 : Ks.R N) ^ b) h0 hall hx0 hxs hsa hsb hhi hR
    linear_combination (((2 : Ks.R N) ^ b) ^ (sa + cst.length - (cnvOffsetSplit b off).1 - rs)) * he
      + ((2 : Ks.R N) ^ (rb * rs) * (2 : Ks.R N) ^ (cnvOffsetSplit b off).2.toNat) * h3'

example (s : List Poly) : ∃ res, mulConst true true 1 4 2 4 4 ((([[3], [0]] : Col)) :: [[[1], [0]]]) [2] = some res ∧ C02L.GWF 1 (Ks.mkCt 4 1 res) := by
  obtain ⟨res, h1, h2, _⟩ := mul_const_assign_decrypts (N := 1) (by decide) true 4 2 4 4 2 [[3], [0]] [[[1], [0]]] [2] (2 ^ 100)
    rfl (by decide) (by decide) (by decide) (by decide) (by decide) (by decide) (by decide) (by decide) (by decide) (by decide) (by decide) (by decide)
    (by decide) (by decide) s
  exact ⟨res, h1, h2⟩

/-- **`mul_plain_decrypts`** — `glwe_mul_plain`, END TO END, same generality; the operands entering the value are the masked ones
(`cnv_prepare_left/right`). -/
theorem mul_plain_decrypts {N : Nat} (hN : 0 < N) (big128 : Bool) (rb rs off b sa : Nat) (a0 : Col) (as : List Col) (aK : Nat) (pt : Col) (bK : Nat)
    (H : Int)
    (h0 : a0.length = sa) (hall : ∀ x ∈ as, x.length = sa) (hx0 : ∀ l ∈ a0, l.length = N) (hxs : ∀ x ∈ as, ∀ l ∈ x, l.length = N)
    (hpt : ∀ l ∈ pt, l.length = N) (hsa : 1 ≤ sa) (hsb : 1 ≤ pt.length) (hhi : (cnvOffsetSplit b off).1 ≤ sa + pt.length - 1)
    (hrb1 : 1 ≤ rb) (hrb : rb ≤ 62) (hb1 : 1 ≤ b) (hb : b ≤ 62) (hH0 : 0 ≤ H) (hH : H + 8 ≤ 2 ^ (bitsOf big128 - 2))
    (hacc : ∀ x ∈ prepAll N (msbMaskBottomLimb b aK) (a0 :: as),
      ∀ l ∈ Hal.cnvApplyCol N (sa + pt.length - (cnvOffsetSplit b off).1) (cnvOffsetSplit b off).1 x
        (Hal.cnvPrepareCol N pt.length (msbMaskBottomLimb b bK) pt), ∀ v ∈ l, |v| ≤ H)
    (s : List Poly) :
    ∃ res, mulPlain big128 N rb rs off b (a0 :: as) aK pt bK = some res ∧ C02L.GWF N (Ks.mkCt rb N res) ∧
      (∀ c ∈ res, ∀ l ∈ c, ∀ x ∈ l, |x| ≤ 2 ^ rb - 1) ∧
      ∃ En Q : Poly, En.length = N ∧ Q.length = N ∧
        normInf En ≤ (1 + C02L.snorm (min as.length s.length) s) *
          normTolOff (rb * rs) (b * (sa + pt.length - (cnvOffsetSplit b off).1)) (cnvOffsetSplit b off).2 ∧
        (2 : Ks.R N) ^ (b * (sa + pt.length - (cnvOffsetSplit b off).1) + (-(cnvOffsetSplit b off).2).toNat)
            * Ks.ι N (C02L.valP rb N (Core.Ops.phase s (Ks.mkCt rb N res)))
          + (2 : Ks.R N) ^ (rb * rs) * (2 : Ks.R N) ^ (cnvOffsetSplit b off).2.toNat *
              (((2 : Ks.R N) ^ b) ^ (sa + pt.length - (cnvOffsetSplit b off).1) *
                (plainTop N ((2 : Ks.R N) ^ b) (Hal.cnvPrepareCol N a0.length (msbMaskBottomLimb b aK) a0) (Hal.cnvPrepareCol N pt.length (msbMaskBottomLimb b bK) pt) (cnvOffsetSplit b off).1
                + ∑ i ∈ Finset.range (min s.length as.length), Ks.ι N (s.getD i []) *
                    plainTop N ((2 : Ks.R N) ^ b) ((prepAll N (msbMaskBottomLimb b aK) as).getD i []) (Hal.cnvPrepareCol N pt.length (msbMaskBottomLimb b bK) pt) (cnvOffsetSplit b off).1))
          = (2 : Ks.R N) ^ (rb * rs) * (2 : Ks.R N) ^ (cnvOffsetSplit b off).2.toNat *
              ((2 : Ks.R N) ^ b * (colVal N ((2 : Ks.R N) ^ b) (Hal.cnvPrepareCol N a0.length (msbMaskBottomLimb b aK) a0)
                + ∑ i ∈ Finset.range (min s.length as.length), Ks.ι N (s.getD i []) * colVal N ((2 : Ks.R N) ^ b) ((prepAll N (msbMaskBottomLimb b aK) as).getD i []))
                  * colVal N ((2 : Ks.R N) ^ b) (Hal.cnvPrepareCol N pt.length (msbMaskBottomLimb b bK) pt))
            + Ks.ι N En
            + (2 : Ks.R N) ^ (rb * rs + (b * (sa + pt.length - (cnvOffsetSplit b off).1) + (-(cnvOffsetSplit b off).2).toNat)) * Ks.ι N Q := by
  subst h0
  have hptP := cnvPrepareCol_limbs N pt.length (msbMaskBottomLimb b bK) pt hpt
  have hwf : ∀ c ∈ (prepAll N (msbMaskBottomLimb b aK) (a0 :: as)).map (fun x => Hal.cnvApplyCol N (a0.length + pt.length - (cnvOffsetSplit b off).1) (cnvOffsetSplit b off).1 x
      (Hal.cnvPrepareCol N pt.length (msbMaskBottomLimb b bK) pt)), C02L.ColWF N (a0.length + pt.length - (cnvOffsetSplit b off).1) c := by
    intro c hc
    obtain ⟨x, _, rfl⟩ := List.mem_map.mp hc
    exact cnvApplyCol_wf N _ _ x _ hptP
  have hne : (prepAll N (msbMaskBottomLimb b aK) (a0 :: as)).map (fun x => Hal.cnvApplyCol N (a0.length + pt.length - (cnvOffsetSplit b off).1) (cnvOffsetSplit b off).1 x
      (Hal.cnvPrepareCol N pt.length (msbMaskBottomLimb b bK) pt)) ≠ [] := by simp [prepAll]
  have hbd : ∀ c ∈ (prepAll N (msbMaskBottomLimb b aK) (a0 :: as)).map (fun x => Hal.cnvApplyCol N (a0.length + pt.length - (cnvOffsetSplit b off).1) (cnvOffsetSplit b off).1 x
      (Hal.cnvPrepareCol N pt.length (msbMaskBottomLimb b bK) pt)), ∀ l ∈ c, ∀ v ∈ l, |v| ≤ H := by
    intro c hc
    obtain ⟨x, hx, rfl⟩ := List.mem_map.mp hc
    exact hacc x hx
  obtain ⟨cs, h1, h2, h3, h4, h5⟩ := norm_total_rows big128 N rb rs b (a0.length + pt.length - (cnvOffsetSplit b off).1) (cnvOffsetSplit b off).2 H _
    hN hrb1 hrb hb1 hb hH0 hH hne hwf hbd
  have hcsne : cs ≠ [] := by intro h; rw [h] at h2; simp [prepAll] at h2
  refine ⟨cs, ?_, (gwf_mk (N := N) rb rs cs hcsne h3).1, h4, ?_⟩
  · have : mulPlain big128 N rb rs off b (a0 :: as) aK pt bK = (prepAll N (msbMaskBottomLimb b aK) (a0 :: as)).mapM (fun x =>
        bigNormalizeOff big128 N rb rs (cnvOffsetSplit b off).2 (Hal.cnvApplyCol N (a0.length + pt.length - (cnvOffsetSplit b off).1) (cnvOffsetSplit b off).1 x
          (Hal.cnvPrepareCol N pt.length (msbMaskBottomLimb b bK) pt)) b) := rfl
    rw [this, mapM_comp (fun x => Hal.cnvApplyCol N (a0.length + pt.length - (cnvOffsetSplit b off).1) (cnvOffsetSplit b off).1 x
          (Hal.cnvPrepareCol N pt.length (msbMaskBottomLimb b bK) pt))
      (fun c => bigNormalizeOff big128 N rb rs (cnvOffsetSplit b off).2 c b)]
    exact h1
  · obtain ⟨En, Q, hE, hQ, hnm, he⟩ := h5 s
    have e1 : ((prepAll N (msbMaskBottomLimb b aK) (a0 :: as)).map (fun x => Hal.cnvApplyCol N (a0.length + pt.length - (cnvOffsetSplit b off).1) (cnvOffsetSplit b off).1 x
        (Hal.cnvPrepareCol N pt.length (msbMaskBottomLimb b bK) pt))).length - 1 = as.length := by simp [prepAll]
    rw [e1] at hnm
    refine ⟨En, Q, hE, hQ, hnm, ?_⟩
    have h3' := mul_plain_phase_value N hN s (Hal.cnvPrepareCol N a0.length (msbMaskBottomLimb b aK) a0) (prepAll N (msbMaskBottomLimb b aK) as)
      (Hal.cnvPrepareCol N pt.length (msbMaskBottomLimb b bK) pt) (cnvOffsetSplit b off).1 a0.length ((2 : Ks.R N) ^ b)
      (Hal.cnvPrepareCol_length _ _ _ _)
      (by
        intro x hx
        obtain ⟨c, hc, rfl⟩ := List.mem_map.mp hx
        rw [Hal.cnvPrepareCol_length]; exact hall c hc)
      (cnvPrepareCol_limbs N _ _ a0 hx0)
      (by
        intro x hx
        obtain ⟨c, hc, rfl⟩ := List.mem_map.mp hx
        exact cnvPrepareCol_limbs N _ _ c (hxs c hc))
      hptP hsa (by rw [Hal.cnvPrepareCol_length]; exact hsb) (by rw [Hal.cnvPrepareCol_length]; exact hhi)
    rw [Hal.cnvPrepareCol_length] at h3'
    have e2 : prepAll N (msbMaskBottomLimb b aK) (a0 :: as)
        = Hal.cnvPrepareCol N a0.length (msbMaskBottomLimb b aK) a0 :: prepAll N (msbMaskBottomLimb b aK) as := rfl
    rw [e2] at he
    have e3 : (prepAll N (msbMaskBottomLimb b aK) as).length = as.length := by simp [prepAll]
    rw [e3] at h3'
    rw [he, ← h3']
    ring

example (s : List Poly) : ∃ res, mulPlain false 1 4 2 4 4 ((([[3], [0]] : Col)) :: [[[1], [0]]]) 8 [[2]] 4 = some res ∧ C02L.GWF 1 (Ks.mkCt 4 1 res) := by
  obtain ⟨res, h1, h2, _⟩ := mul_plain_decrypts (N := 1) (by decide) false 4 2 4 4 2 [[3], [0]] [[[1], [0]]] 8 [[2]] 4 (2 ^ 61)
    rfl (by decide) (by decide) (by decide) (by decide) (by decide) (by decide) (by decide) (by decide) (by decide) (by decide) (by decide) (by decide)
    (by decide) (by decide) s
  exact ⟨res, h1, h2⟩

/-- **`relin_decrypts`** — `glwe_tensor_relinearize` with the tensor in the key radix, END TO END, result in ANY radix `1..62`, every key digit
size, both accumulator widths: the call returns and
`2^(bg·S)·phase(res) = 2^(rb·rs)·(Σ_p σ_p·usedVal(a_p) + Σ_p(Σ_r digit·E − dropped − β^S·head) + phase(tensor columns 0..rank)) + En + 2^(…)·Q`,
`‖En‖_∞ ≤ (1 + Σ‖s_i‖₁)·normTol`.  Hypotheses: head-room `|product| ≤ X`, `|tensor| ≤ Y`, `X + Y + 8 ≤ 2^62 / 2^126`, key relation. -/
theorem relin_decrypts {N : Nat} (big128 : Bool) (rb rs : Nat) (a : List Col) (g : GGLWE) (res0 : List Col) (sk : List Poly) (X Y : Int)
    (hrb1 : 1 ≤ rb) (hrb : rb ≤ 62) (hgb1 : 1 ≤ g.base2k) (hgb : g.base2k ≤ 62)
    (hX0 : 0 ≤ X) (hY0 : 0 ≤ Y) (hH : X + Y + 8 ≤ 2 ^ (bitsOf big128 - 2))
    (hPb : ∀ c ∈ Core.gglweProductDft (relinInput N a g) g g.size res0, ∀ l ∈ c, ∀ x ∈ l, |x| ≤ X)
    (hawf : ∀ j, j < g.colsOut → C02L.LimbsN N (a.getD j [])) (hab : ∀ c ∈ a, ∀ l ∈ c, ∀ x ∈ l, |x| ≤ Y)
    (σ : ℕ → Ks.R N) (E : ℕ → ℕ → Ks.R N)
    (hd : 1 ≤ g.dsize) (hN : 0 < N) (hn : g.n = N) (hc : 0 < g.colsOut)
    (h0 : shapeOk g.n g.colsOut g.size res0 = true) (hM : ∀ j q, (g.toPMat.entry j q).length = N)
    (hS : g.dnum * g.dsize ≤ g.size)
    (hkey : ∀ i, i < g.colsIn → ∀ r, r < g.dnum →
      Gadget.val ((2 : Ks.R N) ^ g.base2k) g.size (Ks.keyPhase N sk g.toPMat i r)
        = 1 * σ i * ((2 : Ks.R N) ^ g.base2k) ^ (g.size - (r + 1) * g.dsize) + E i r) :
    ∃ res, relinearize big128 N rb rs a g.base2k g g.size res0 = some res ∧ C02L.GWF N (Ks.mkCt rb N res) ∧
      (∀ c ∈ res, ∀ l ∈ c, ∀ x ∈ l, |x| ≤ 2 ^ rb - 1) ∧
      ∃ En Q : Poly, En.length = N ∧ Q.length = N ∧
        normInf En ≤ (1 + C02L.snorm (min (g.colsOut - 1) sk.length) sk) * C02.normTol (rb * rs) (g.base2k * g.size) ∧
        (2 : Ks.R N) ^ (g.base2k * g.size) * Ks.ι N (C02L.valP rb N (Core.Ops.phase sk (Ks.mkCt rb N res)))
          = (2 : Ks.R N) ^ (rb * rs) * ((1 * ∑ i ∈ Finset.range g.colsIn,
              σ i * Gadget.usedVal ((2 : Ks.R N) ^ g.base2k) g.size g.dsize g.dnum ((relinInput N a g).getD 0 []).length
                (Ks.inLimb N (mkBuf g.n g.colsIn ((relinInput N a g).getD 0 []).length (relinInput N a g)) i)
            + ∑ i ∈ Finset.range g.colsIn,
              (∑ r ∈ Finset.range g.dnum,
                  Gadget.digit ((2 : Ks.R N) ^ g.base2k) g.dsize g.dnum ((relinInput N a g).getD 0 []).length
                    (Ks.inLimb N (mkBuf g.n g.colsIn ((relinInput N a g).getD 0 []).length (relinInput N a g)) i) r * E i r
                - Gadget.dropped ((2 : Ks.R N) ^ g.base2k) g.size g.dsize g.dnum ((relinInput N a g).getD 0 []).length
                    (Ks.inLimb N (mkBuf g.n g.colsIn ((relinInput N a g).getD 0 []).length (relinInput N a g)) i) (Ks.keyPhase N sk g.toPMat i)
                - ((2 : Ks.R N) ^ g.base2k) ^ g.size * Gadget.head ((2 : Ks.R N) ^ g.base2k) g.dsize g.dnum ((relinInput N a g).getD 0 []).length
                    (Ks.inLimb N (mkBuf g.n g.colsIn ((relinInput N a g).getD 0 []).length (relinInput N a g)) i) (Ks.keyPhase N sk g.toPMat i)))
              + Ks.ι N (C02L.valP g.base2k N (Core.Ops.phase sk (Ks.mkCt g.base2k N
                  ((List.range g.colsOut).map (fun j => C02L.fit N g.size (a.getD j [])))))))
            + Ks.ι N En + (2 : Ks.R N) ^ (rb * rs + g.base2k * g.size) * Ks.ι N Q := by
  obtain ⟨n, hn1⟩ : ∃ n, g.colsOut = n + 1 := ⟨g.colsOut - 1, by omega⟩
  have hwf := gglweProductDft_wf N (relinInput N a g) g res0 hd hn h0 hM
  have hPlen : (Core.gglweProductDft (relinInput N a g) g g.size res0).length = n + 1 := by simp [Core.gglweProductDft, hn1]
  obtain ⟨cs, h1, h2, h3, h4, h5⟩ := acc_norm_total big128 N rb rs g.base2k g.size n 0 X Y _ (fun j => a.getD j []) hN
    hrb1 hrb hgb1 hgb hX0 hY0 hH hPlen hwf hPb (fun j hj => hawf j (by omega)) (fun j _ => getD_bound a Y hab j)
  have hcsne : cs ≠ [] := by intro h; rw [h] at h2; simp at h2
  refine ⟨cs, ?_, (gwf_mk (N := N) rb rs cs hcsne h3).1, h4, ?_⟩
  · have hrel : relinearize big128 N rb rs a g.base2k g g.size res0 = (List.range g.colsOut).mapM (fun j => bigNormalizeOff big128 N rb rs 0
        (bigAddSmallAssign big128 ((Core.gglweProductDft (relinInput N a g) g g.size res0).getD j []) (a.getD j [])) g.base2k) := by
      unfold relinearize relinInput
      simp only [ne_eq, not_true_eq_false, if_false, if_true, mapM_some_map, Option.bind_some]
      exact (mapM_comp _ _ _).symm
    rw [hrel, hn1]
    exact h1
  · obtain ⟨En, Q, hE, hQ, hnm, he⟩ := h5 sk
    rw [normTolOff_zero] at hnm
    have e : g.colsOut - 1 = n := by omega
    refine ⟨En, Q, hE, hQ, by rw [e]; exact hnm, ?_⟩
    have h3' := relin_product_value N sk (relinInput N a g) g res0 ((2 : Ks.R N) ^ g.base2k) σ E hd hN hn hc h0 hM hS hkey
    rw [h3'] at he
    rw [hn1]
    simpa using he

example (σ : ℕ → Ks.R 1) : ∃ res, relinearize true 1 4 3 ([[[1], [0]], [[0], [1]], [[2], [1]]] : List Col) exTsk.base2k exTsk exTsk.size (zeroCols 1 2 3) = some res ∧
    C02L.GWF 1 (Ks.mkCt 4 1 res) := by
  obtain ⟨res, h1, h2, _⟩ := relin_decrypts (N := 1) true 4 3 ([[[1], [0]], [[0], [1]], [[2], [1]]] : List Col) exTsk (zeroCols 1 2 3) [[1]] (2 ^ 100) (2 ^ 100)
    (by decide) (by decide) (by decide) (by decide) (by decide) (by decide) (by decide) (by decide +kernel) (by decide) (by decide)
    σ (fun i r => Gadget.val ((2 : Ks.R 1) ^ exTsk.base2k) exTsk.size (Ks.keyPhase 1 [[1]] exTsk.toPMat i r)
                    - 1 * σ i * ((2 : Ks.R 1) ^ exTsk.base2k) ^ (exTsk.size - (r + 1) * exTsk.dsize))
    (by decide) (by decide) rfl (by decide) (by decide) (Ks.entry_length exTsk.toPMat 1 rfl (by decide +kernel)) (by decide)
    (by intro i _ r _; exact (add_sub_cancel _ _).symm)
  exact ⟨res, h1, h2⟩
/-! ## Head-room derived from digit bounds; admissible shapes -/

/-- **`relin_headroom`** — head-room of the relinearisation product derived from digit bounds: `|pair columns| ≤ Da`, `|tensor key| ≤ Dm` ⇒
every coefficient of the executed `gglwe_product_dft` is bounded by `dsize·(pairs·dnum)·N·Da·Dm`. -/
theorem relin_headroom (N : Nat) (a : List Col) (g : GGLWE) (res0 : List Col) (Da Dm : Int) (hDa : 0 ≤ Da) (hDm : 0 ≤ Dm)
    (hd : 1 ≤ g.dsize) (hn : g.n = N)
    (ha : shapeOk g.n g.colsIn (a.getD 0 []).length a = true) (h0 : shapeOk g.n g.colsOut g.size res0 = true)
    (hab : ∀ c ∈ a, ∀ l ∈ c, ∀ x ∈ l, |x| ≤ Da)
    (hgb : ∀ row ∈ g.cells, ∀ c ∈ row, ∀ l ∈ c, ∀ x ∈ l, |x| ≤ Dm) :
    ∀ c ∈ Core.gglweProductDft a g g.size res0, ∀ l ∈ c, ∀ x ∈ l, |x| ≤ prodBound g.dsize g.colsIn g.dnum N Da Dm :=
  gglweProductDft_bound N a g res0 Da Dm hDa hDm hd hn ha h0 hab hgb

example : ∀ c ∈ Core.gglweProductDft [[[2], [1]]] exTsk exTsk.size (zeroCols 1 2 3), ∀ l ∈ c, ∀ x ∈ l, |x| ≤ prodBound 2 1 1 1 2 1 :=
  relin_headroom 1 [[[2], [1]]] exTsk _ 2 1 (by decide) (by decide) (by decide) rfl (by decide) (by decide) (by decide) (by decide +kernel)

/-- **`mul_const_headroom`** — `|a| ≤ Da`, `|cst| ≤ Db` ⇒ every coefficient of `cnv_by_const_apply` is bounded by `|cst|·Db·Da` -/
theorem mul_const_headroom (n S hi : Nat) (x : Col) (b : List Int) (Da Db : Int) (hDa : 0 ≤ Da) (hDb : 0 ≤ Db)
    (hx : ∀ l ∈ x, ∀ v ∈ l, |v| ≤ Da) (hb : ∀ c ∈ b, |c| ≤ Db) :
    ∀ l ∈ cnvByConstCol n S hi x b, ∀ v ∈ l, |v| ≤ (b.length : Int) * (Db * Da) :=
  cnvByConstCol_bound n S hi x b Da Db hDa hDb hx hb

example : ∀ l ∈ cnvByConstCol 1 3 0 [[3], [5]] [2, 1], ∀ v ∈ l, |v| ≤ ((([2, 1] : List Int).length : Nat) : Int) * (2 * 5) :=
  mul_const_headroom 1 3 0 [[3], [5]] [2, 1] 5 2 (by decide) (by decide) (by decide) (by decide)

/-- **`mul_plain_headroom`** — bivariate convolution (`glwe_mul_plain`, every diagonal / pairwise product of the tensor forms):
`|x| ≤ Da`, `|y| ≤ Db` ⇒ every coefficient of `cnv_apply_dft` is bounded by `|y|·N·Da·Db` -/
theorem mul_plain_headroom (n S hi : Nat) (x y : Col) (Da Db : Int) (hDa : 0 ≤ Da) (hDb : 0 ≤ Db)
    (hx : ∀ l ∈ x, l.length ≤ n ∧ ∀ v ∈ l, |v| ≤ Da) (hy : ∀ l ∈ y, ∀ v ∈ l, |v| ≤ Db) :
    ∀ l ∈ Hal.cnvApplyCol n S hi x y, ∀ v ∈ l, |v| ≤ (y.length : Int) * ((n : Int) * Da * Db) :=
  cnvApplyCol_bound n S hi x y Da Db hDa hDb hx hy

example : ∀ l ∈ Hal.cnvApplyCol 1 3 0 [[3], [5]] [[2]], ∀ v ∈ l, |v| ≤ (((([[2]] : Col)).length : Nat) : Int) * (((1 : Nat) : Int) * 5 * 2) :=
  mul_plain_headroom 1 3 0 [[3], [5]] [[2]] 5 2 (by decide) (by decide) (by decide) (by decide)

/-- the crate's parameter sets are admissible for the convolutions (balanced digits `2^(b−1)`): `b = 18`, `N = 4096`, 3 limbs and `b = 13`,
`N = 1024`, 4 limbs on i64; CKKS `b = 52`, `N = 4096`, 16 limbs on i128 only -/
example : cnvAdmissible 64 3 4096 (2 ^ 17) (2 ^ 17) ∧ cnvAdmissible 64 4 1024 (2 ^ 12) (2 ^ 12) ∧
    cnvAdmissible 128 16 4096 (2 ^ 51) (2 ^ 51) ∧ ¬ cnvAdmissible 64 16 4096 (2 ^ 51) (2 ^ 51) := by decide

/-- **`mul_const_decrypts_of_digits`** — `mul_const_decrypts` with the head-room derived from `|a| ≤ Da`, `|cst| ≤ Db` and the explicit
admissible-shape inequality `|cst|·Da·Db + 8 ≤ 2^62 / 2^126` (`Core.cnvAdmissible` with `N := 1`). -/
theorem mul_const_decrypts_of_digits {N : Nat} (hN : 0 < N) (big128 : Bool) (rb rs off b sa : Nat) (a0 : Col) (as : List Col) (cst : List Int)
    (Da Db : Int)
    (h0 : a0.length = sa) (hall : ∀ x ∈ as, x.length = sa) (hx0 : ∀ l ∈ a0, l.length = N) (hxs : ∀ x ∈ as, ∀ l ∈ x, l.length = N)
    (hsa : 1 ≤ sa) (hsb : 1 ≤ cst.length) (hhi : (cnvOffsetSplit b off).1 ≤ sa + cst.length - 1)
    (hrb1 : 1 ≤ rb) (hrb : rb ≤ 62) (hb1 : 1 ≤ b) (hb : b ≤ 62) (hDa : 0 ≤ Da) (hDb : 0 ≤ Db)
    (hadm : cnvAdmissible (bitsOf big128) cst.length 1 Da Db)
    (hab : ∀ x ∈ a0 :: as, ∀ l ∈ x, ∀ v ∈ l, |v| ≤ Da) (hcb : ∀ c ∈ cst, |c| ≤ Db)
    (s : List Poly) :
    ∃ res, mulConst false big128 N rb rs off b (a0 :: as) cst = some res ∧ C02L.GWF N (Ks.mkCt rb N res) ∧
      (∀ c ∈ res, ∀ l ∈ c, ∀ x ∈ l, |x| ≤ 2 ^ rb - 1) := by
  have hK : (0 : Int) ≤ (cst.length : Int) * (Db * Da) := by positivity
  unfold cnvAdmissible at hadm
  obtain ⟨res, h1, h2, h3, _⟩ := mul_const_decrypts hN big128 rb rs off b sa a0 as cst ((cst.length : Int) * (Db * Da))
    h0 hall hx0 hxs hsa hsb hhi hrb1 hrb hb1 hb hK (by push_cast at hadm ⊢; linarith)
    (fun x hx => mul_const_headroom N _ _ x cst Da Db hDa hDb (hab x hx) hcb) s
  exact ⟨res, h1, h2, h3⟩

example (s : List Poly) : ∃ res, mulConst false false 1 4 2 4 4 ((([[3], [0]] : Col)) :: [[[1], [0]]]) [2] = some res ∧ C02L.GWF 1 (Ks.mkCt 4 1 res) := by
  obtain ⟨res, h1, h2, _⟩ := mul_const_decrypts_of_digits (N := 1) (by decide) false 4 2 4 4 2 [[3], [0]] [[[1], [0]]] [2] 3 2
    rfl (by decide) (by decide) (by decide) (by decide) (by decide) (by decide) (by decide) (by decide) (by decide) (by decide) (by decide) (by decide)
    (by decide) (by decide) (by decide) s
  exact ⟨res, h1, h2⟩

/-! ## The two model-level laws for every rank -/

/-- the normalised convolutions always return (C08 termination), radices `≥ 1` -/
theorem cnvNorm_total (big128 : Bool) (n rb rs b dft hi : Nat) (lo : Int) (x y : Col) (hrb : 1 ≤ rb) (hb : 1 ≤ b) :
    ∃ c, cnvNorm big128 n rb rs b dft hi lo x y = some c := by
  unfold cnvNorm bigNormalizeOff
  cases big128 with
  | true => exact NormL.bigNormalizeCol128?_exists rb rs lo _ b n hb hrb
  | false => exact NormL.normalizeCol?_exists rb rs lo _ b n hb hrb

example : ∃ c, cnvNorm false 1 4 2 4 3 0 0 [[3], [5]] [[2], [1]] = some c := cnvNorm_total false 1 4 2 4 3 0 0 _ _ (by decide) (by decide)

/-- **squaring = multiplying a ciphertext by itself, EVERY rank** (radices `≥ 1`): `glwe_tensor_square_apply(a)` and `glwe_tensor_apply(a, a)`
return the same tensor bit for bit, for every number of columns, operand, precision, offset, radix pair, accumulator type and prior content.
Proof: both loops are folds of column updates (`Lemmas/TensorCols.lean`), the content of a column is the fold of the updates that hit it, the
column index is injective (`cix_inj`), and per column `(−dᵢ − dⱼ) + p = (p − dᵢ) − dⱼ` in wrapping arithmetic (`col_square`). -/
theorem tensorSquare_eq_tensorApply (big : Bool) (n rb rs off b : Nat) (a : List Col) (k : Nat) (res0 : List Col)
    (hrb : 1 ≤ rb) (hb : 1 ≤ b) :
    tensorSquare big n rb rs off b a k res0 = tensorApply false big n rb rs off b a k a k res0 := by
  unfold tensorSquare tensorApply
  simp only [Nat.two_mul]
  exact square_eq_apply_all n a.length rs _ _ res0
    (fun i _ => cnvNorm_total _ _ _ _ _ _ _ _ _ _ hrb hb) (fun i j _ _ => cnvNorm_total _ _ _ _ _ _ _ _ _ _ hrb hb)
    (fun i d hd => cnvNorm_shape _ _ _ _ _ _ _ _ _ _ _ hd) (fun i j p hp => cnvNorm_shape _ _ _ _ _ _ _ _ _ _ _ hp)

/-- rank 3 (four columns, ten tensor columns) -/
example : tensorSquare false 1 4 2 4 4 [[[1], [0]], [[2], [1]], [[0], [3]], [[1], [1]]] 8 (zeroCols 1 10 2)
    = tensorApply false false 1 4 2 4 4 [[[1], [0]], [[2], [1]], [[0], [3]], [[1], [1]]] 8 [[[1], [0]], [[2], [1]], [[0], [3]], [[1], [1]]] 8 (zeroCols 1 10 2) :=
  tensorSquare_eq_tensorApply false 1 4 2 4 4 _ 8 _ (by decide) (by decide)

/-- **the accumulate variant adds exactly the product, EVERY rank**: column index onto `[0, cols(cols+1)/2)` (`cix_surj`), per column
`((r − dᵢ) − dⱼ) + p = r + ((−dᵢ − dⱼ) + p)` (`col_acc`). -/
theorem tensorApply_acc_eq_add (big : Bool) (n rb rs off b : Nat) (a : List Col) (ka : Nat) (x : List Col) (kx : Nat)
    (res0 zs : List Col) (hrb : 1 ≤ rb) (hb : 1 ≤ b)
    (hr : res0.length = (a.length + 1) * a.length / 2) (hz : zs.length = (a.length + 1) * a.length / 2)
    (hshape : ∀ r ∈ res0, ColShape n rs r) :
    tensorApply true big n rb rs off b a ka x kx res0
      = (tensorApply false big n rb rs off b a ka x kx zs).map (fun pr => List.zipWith (vecAddAssignW w64) res0 pr) := by
  unfold tensorApply
  exact acc_eq_add_all n a.length rs _ _ res0 zs hr hz hshape
    (fun i _ => cnvNorm_total _ _ _ _ _ _ _ _ _ _ hrb hb) (fun i j _ _ => cnvNorm_total _ _ _ _ _ _ _ _ _ _ hrb hb)
    (fun i d hd => cnvNorm_shape _ _ _ _ _ _ _ _ _ _ _ hd) (fun i j p hp => cnvNorm_shape _ _ _ _ _ _ _ _ _ _ _ hp)

example : tensorApply true false 1 4 2 4 4 [[[1], [0]], [[2], [1]], [[0], [3]], [[1], [1]]] 8 [[[1], [0]], [[2], [1]], [[0], [3]], [[1], [1]]] 8 (zeroCols 1 10 2)
    = (tensorApply false false 1 4 2 4 4 [[[1], [0]], [[2], [1]], [[0], [3]], [[1], [1]]] 8 [[[1], [0]], [[2], [1]], [[0], [3]], [[1], [1]]] 8 (zeroCols 1 10 2)).map
        (fun pr => List.zipWith (vecAddAssignW w64) (zeroCols 1 10 2) pr) :=
  tensorApply_acc_eq_add false 1 4 2 4 4 _ 8 _ 8 _ _ (by decide) (by decide) (by decide) (by decide) (by unfold ColShape; decide)

/-! ## The three tensor entry points: decrypt (with the secret tensor) to the product at the documented scale -/

/-- **`tensor_apply_decrypts`** — `glwe_tensor_apply`, END TO END, EVERY rank, any radix pair (`rb ≤ 61`), every `cnv_offset`, both accumulator
widths: the call returns a tensor `T` that decrypts, with `glwe_tensor_decrypt`'s grouped secret `(s, s⊗s)` (`ι(skG[cix(i,j) − 1]) = σ_i σ_j`,
`σ_0 = 1`), to the product of the two (masked) phases at the documented scale (`Core.TensorSpec`):
`A·phase_{skG}(T) = K·β·(Σ_i σ_i val(a'_i))·(Σ_j σ_j val(b'_j)) + Σ_i (σ_i² rD_i + Σ_{j>i} σ_i σ_j (rP_ij − rD_i − rD_j))`, `A = β^{F−S}·2^{b·S+(−lo)⁺}`,
`K = 2^{rb·rs}·2^{lo⁺}`, every residual = rescaled rounding of ONE normalisation (`‖e‖_∞ ≤ normTolOff`, from C08) + multiple of the torus modulus −
the explicit dropped / skipped limbs of that convolution.  Only analytic hypothesis: accumulator head-room (`mul_plain_headroom`). -/
theorem tensor_apply_decrypts (big128 : Bool) (N rb rs off b : Nat) (a bb : List Col) (aK bK : Nat) (res0 : List Col) (skG : List Poly)
    (σ : ℕ → Ks.R N) (H : Int) (sa sb cols : Nat) (hN : 0 < N)
    (hcols : a.length = cols) (hcb : bb.length = cols) (hc1 : 1 ≤ cols)
    (ha : ∀ x ∈ a, x.length = sa ∧ ∀ l ∈ x, l.length = N) (hbb : ∀ x ∈ bb, x.length = sb ∧ ∀ l ∈ x, l.length = N)
    (hsa : 1 ≤ sa) (hsb : 1 ≤ sb) (hhi : (cnvOffsetSplit b off).1 ≤ sa + sb - 1)
    (hr0 : res0.length = (cols + 1) * cols / 2)
    (hrb1 : 1 ≤ rb) (hrb : rb ≤ 61) (hb1 : 1 ≤ b) (hb : b ≤ 62) (hH0 : 0 ≤ H) (hH : H + 8 ≤ 2 ^ (bitsOf big128 - 2))
    (haccD : ∀ i, i < cols → ∀ l ∈ Hal.cnvApplyCol N (limbBoundWithOffset (sa + sb - (cnvOffsetSplit b off).1) rs rb b (cnvOffsetSplit b off).2)
        (cnvOffsetSplit b off).1 ((prepAll N (msbMaskBottomLimb b aK) a).getD i []) ((prepAll N (msbMaskBottomLimb b bK) bb).getD i []),
        ∀ v ∈ l, |v| ≤ H)
    (haccP : ∀ i j, i < j → j < cols → ∀ l ∈ Hal.cnvApplyCol N (limbBoundWithOffset (sa + sb - (cnvOffsetSplit b off).1) rs rb b (cnvOffsetSplit b off).2)
        (cnvOffsetSplit b off).1
        (Hal.colAdd N ((prepAll N (msbMaskBottomLimb b aK) a).getD i []) ((prepAll N (msbMaskBottomLimb b aK) a).getD j []))
        (Hal.colAdd N ((prepAll N (msbMaskBottomLimb b bK) bb).getD i []) ((prepAll N (msbMaskBottomLimb b bK) bb).getD j [])),
        ∀ v ∈ l, |v| ≤ H)
    (hskl : skG.length = (cols + 1) * cols / 2 - 1) (hσ0 : σ 0 = 1)
    (hτ : ∀ i j, i ≤ j → j < cols → 0 < cix cols i j → Ks.ι N (skG.getD (cix cols i j - 1) []) = σ i * σ j) :
    ∃ T, tensorApply false big128 N rb rs off b a aK bb bK res0 = some T ∧ TensorSpec N rb rs off b a bb aK bK skG σ sa sb cols T :=
  tensorApply_spec big128 N rb rs off b a bb aK bK res0 skG σ H sa sb cols hN hcols hcb hc1 ha hbb hsa hsb hhi hr0 hrb1 hrb hb1 hb hH0 hH
    haccD haccP hskl hσ0 hτ

/-- rank 1: the grouped secret `[s, s⋆s]` -/
example : ∃ T, tensorApply false false 1 4 2 4 4 [[[3], [0]], [[1], [0]]] 8 [[[2], [0]], [[1], [0]]] 8 (zeroCols 1 3 2) = some T ∧ T.length = 3 := by
  obtain ⟨T, h1, h2, _⟩ := tensor_apply_decrypts false 1 4 2 4 4 [[[3], [0]], [[1], [0]]] [[[2], [0]], [[1], [0]]] 8 8 (zeroCols 1 3 2)
    [[2], Hal.negMul [2] [2]] (fun i => if i = 0 then 1 else Ks.ι 1 [2]) (2 ^ 61) 2 2 2 (by decide) rfl rfl (by decide)
    (by decide) (by decide) (by decide) (by decide) (by decide) (by decide) (by decide) (by decide) (by decide) (by decide) (by decide) (by decide)
    (by decide)
    (by
      intro i j hij hj
      have h01 : i = 0 ∧ j = 1 := by omega
      obtain ⟨rfl, rfl⟩ := h01
      decide)
    (by decide) rfl
    (by
      intro i j hij hj hpos
      have hcases : (i = 0 ∧ j = 1) ∨ (i = 1 ∧ j = 1) := by
        have hj2 : j < 2 := hj
        have : ¬ (i = 0 ∧ j = 0) := by
          rintro ⟨rfl, rfl⟩; simp [cix, colIdx] at hpos
        omega
      rcases hcases with ⟨rfl, rfl⟩ | ⟨rfl, rfl⟩
      · have e : cix 2 0 1 - 1 = 0 := by decide
        rw [e]; simp
      · have e : cix 2 1 1 - 1 = 1 := by decide
        rw [e]
        show Ks.ι 1 (Hal.negMul [2] [2]) = _
        rw [Ks.ι_negMul 1 _ _ rfl (by decide)]; simp)
  exact ⟨T, h1, h2⟩

/-- **`tensor_square_decrypts`** — `glwe_tensor_square_apply(a)`: the same statement with `b = a` (by `tensorSquare_eq_tensorApply`, every rank) -/
theorem tensor_square_decrypts (big128 : Bool) (N rb rs off b : Nat) (a : List Col) (aK : Nat) (res0 : List Col) (skG : List Poly)
    (σ : ℕ → Ks.R N) (H : Int) (sa cols : Nat) (hN : 0 < N)
    (hcols : a.length = cols) (hc1 : 1 ≤ cols)
    (ha : ∀ x ∈ a, x.length = sa ∧ ∀ l ∈ x, l.length = N)
    (hsa : 1 ≤ sa) (hhi : (cnvOffsetSplit b off).1 ≤ sa + sa - 1)
    (hr0 : res0.length = (cols + 1) * cols / 2)
    (hrb1 : 1 ≤ rb) (hrb : rb ≤ 61) (hb1 : 1 ≤ b) (hb : b ≤ 62) (hH0 : 0 ≤ H) (hH : H + 8 ≤ 2 ^ (bitsOf big128 - 2))
    (haccD : ∀ i, i < cols → ∀ l ∈ Hal.cnvApplyCol N (limbBoundWithOffset (sa + sa - (cnvOffsetSplit b off).1) rs rb b (cnvOffsetSplit b off).2)
        (cnvOffsetSplit b off).1 ((prepAll N (msbMaskBottomLimb b aK) a).getD i []) ((prepAll N (msbMaskBottomLimb b aK) a).getD i []),
        ∀ v ∈ l, |v| ≤ H)
    (haccP : ∀ i j, i < j → j < cols → ∀ l ∈ Hal.cnvApplyCol N (limbBoundWithOffset (sa + sa - (cnvOffsetSplit b off).1) rs rb b (cnvOffsetSplit b off).2)
        (cnvOffsetSplit b off).1
        (Hal.colAdd N ((prepAll N (msbMaskBottomLimb b aK) a).getD i []) ((prepAll N (msbMaskBottomLimb b aK) a).getD j []))
        (Hal.colAdd N ((prepAll N (msbMaskBottomLimb b aK) a).getD i []) ((prepAll N (msbMaskBottomLimb b aK) a).getD j [])),
        ∀ v ∈ l, |v| ≤ H)
    (hskl : skG.length = (cols + 1) * cols / 2 - 1) (hσ0 : σ 0 = 1)
    (hτ : ∀ i j, i ≤ j → j < cols → 0 < cix cols i j → Ks.ι N (skG.getD (cix cols i j - 1) []) = σ i * σ j) :
    ∃ T, tensorSquare big128 N rb rs off b a aK res0 = some T ∧ TensorSpec N rb rs off b a a aK aK skG σ sa sa cols T := by
  rw [tensorSquare_eq_tensorApply big128 N rb rs off b a aK res0 hrb1 hb1]
  exact tensor_apply_decrypts big128 N rb rs off b a a aK aK res0 skG σ H sa sa cols hN hcols hcols hc1 ha ha hsa hsa hhi hr0 hrb1 hrb hb1 hb
    hH0 hH haccD haccP hskl hσ0 hτ

example : ∃ T, tensorSquare false 1 4 2 4 4 [[[3], [0]], [[1], [0]]] 8 (zeroCols 1 3 2) = some T ∧ T.length = 3 := by
  obtain ⟨T, h1, h2, _⟩ := tensor_square_decrypts false 1 4 2 4 4 [[[3], [0]], [[1], [0]]] 8 (zeroCols 1 3 2)
    [[2], Hal.negMul [2] [2]] (fun i => if i = 0 then 1 else Ks.ι 1 [2]) (2 ^ 61) 2 2 (by decide) rfl (by decide)
    (by decide) (by decide) (by decide) (by decide) (by decide) (by decide) (by decide) (by decide) (by decide) (by decide)
    (by decide)
    (by
      intro i j hij hj
      have h01 : i = 0 ∧ j = 1 := by omega
      obtain ⟨rfl, rfl⟩ := h01
      decide)
    (by decide) rfl
    (by
      intro i j hij hj hpos
      have hcases : (i = 0 ∧ j = 1) ∨ (i = 1 ∧ j = 1) := by
        have hj2 : j < 2 := hj
        have : ¬ (i = 0 ∧ j = 0) := by
          rintro ⟨rfl, rfl⟩; simp [cix, colIdx] at hpos
        omega
      rcases hcases with ⟨rfl, rfl⟩ | ⟨rfl, rfl⟩
      · have e : cix 2 0 1 - 1 = 0 := by decide
        rw [e]; simp
      · have e : cix 2 1 1 - 1 = 1 := by decide
        rw [e]
        show Ks.ι 1 (Hal.negMul [2] [2]) = _
        rw [Ks.ι_negMul 1 _ _ rfl (by decide)]; simp)
  exact ⟨T, h1, h2⟩

/-- **`tensor_apply_add_assign_decrypts`** — `glwe_tensor_apply_add_assign`: the result is the previous tensor `res0` plus (column-wise
`vec_znx_add_assign`, exact under head-room: `C02L.vecAddAssign_nf`) a tensor `T` satisfying `Core.TensorSpec`, every rank. -/
theorem tensor_apply_add_assign_decrypts (big128 : Bool) (N rb rs off b : Nat) (a bb : List Col) (aK bK : Nat) (res0 : List Col) (skG : List Poly)
    (σ : ℕ → Ks.R N) (H : Int) (sa sb cols : Nat) (hN : 0 < N)
    (hcols : a.length = cols) (hcb : bb.length = cols) (hc1 : 1 ≤ cols)
    (ha : ∀ x ∈ a, x.length = sa ∧ ∀ l ∈ x, l.length = N) (hbb : ∀ x ∈ bb, x.length = sb ∧ ∀ l ∈ x, l.length = N)
    (hsa : 1 ≤ sa) (hsb : 1 ≤ sb) (hhi : (cnvOffsetSplit b off).1 ≤ sa + sb - 1)
    (hr0 : res0.length = (cols + 1) * cols / 2) (hshape : ∀ r ∈ res0, ColShape N rs r)
    (hrb1 : 1 ≤ rb) (hrb : rb ≤ 61) (hb1 : 1 ≤ b) (hb : b ≤ 62) (hH0 : 0 ≤ H) (hH : H + 8 ≤ 2 ^ (bitsOf big128 - 2))
    (haccD : ∀ i, i < cols → ∀ l ∈ Hal.cnvApplyCol N (limbBoundWithOffset (sa + sb - (cnvOffsetSplit b off).1) rs rb b (cnvOffsetSplit b off).2)
        (cnvOffsetSplit b off).1 ((prepAll N (msbMaskBottomLimb b aK) a).getD i []) ((prepAll N (msbMaskBottomLimb b bK) bb).getD i []),
        ∀ v ∈ l, |v| ≤ H)
    (haccP : ∀ i j, i < j → j < cols → ∀ l ∈ Hal.cnvApplyCol N (limbBoundWithOffset (sa + sb - (cnvOffsetSplit b off).1) rs rb b (cnvOffsetSplit b off).2)
        (cnvOffsetSplit b off).1
        (Hal.colAdd N ((prepAll N (msbMaskBottomLimb b aK) a).getD i []) ((prepAll N (msbMaskBottomLimb b aK) a).getD j []))
        (Hal.colAdd N ((prepAll N (msbMaskBottomLimb b bK) bb).getD i []) ((prepAll N (msbMaskBottomLimb b bK) bb).getD j [])),
        ∀ v ∈ l, |v| ≤ H)
    (hskl : skG.length = (cols + 1) * cols / 2 - 1) (hσ0 : σ 0 = 1)
    (hτ : ∀ i j, i ≤ j → j < cols → 0 < cix cols i j → Ks.ι N (skG.getD (cix cols i j - 1) []) = σ i * σ j) :
    ∃ T, tensorApply true big128 N rb rs off b a aK bb bK res0 = some (List.zipWith (vecAddAssignW w64) res0 T) ∧
      TensorSpec N rb rs off b a bb aK bK skG σ sa sb cols T := by
  obtain ⟨T, h1, h2⟩ := tensor_apply_decrypts big128 N rb rs off b a bb aK bK res0 skG σ H sa sb cols hN hcols hcb hc1 ha hbb hsa hsb hhi hr0
    hrb1 hrb hb1 hb hH0 hH haccD haccP hskl hσ0 hτ
  refine ⟨T, ?_, h2⟩
  rw [tensorApply_acc_eq_add big128 N rb rs off b a aK bb bK res0 res0 hrb1 hb1 (by rw [hcols]; exact hr0) (by rw [hcols]; exact hr0) hshape, h1]
  rfl

example : ∃ T, tensorApply true false 1 4 2 4 4 [[[3], [0]], [[1], [0]]] 8 [[[2], [0]], [[1], [0]]] 8 (zeroCols 1 3 2)
    = some (List.zipWith (vecAddAssignW w64) (zeroCols 1 3 2) T) ∧ T.length = 3 := by
  obtain ⟨T, h1, h2, _⟩ := tensor_apply_add_assign_decrypts false 1 4 2 4 4 [[[3], [0]], [[1], [0]]] [[[2], [0]], [[1], [0]]] 8 8 (zeroCols 1 3 2)
    [[2], Hal.negMul [2] [2]] (fun i => if i = 0 then 1 else Ks.ι 1 [2]) (2 ^ 61) 2 2 2 (by decide) rfl rfl (by decide)
    (by decide) (by decide) (by decide) (by decide) (by decide) (by decide) (by unfold ColShape; decide) (by decide) (by decide) (by decide) (by decide) (by decide) (by decide)
    (by decide)
    (by
      intro i j hij hj
      have h01 : i = 0 ∧ j = 1 := by omega
      obtain ⟨rfl, rfl⟩ := h01
      decide)
    (by decide) rfl
    (by
      intro i j hij hj hpos
      have hcases : (i = 0 ∧ j = 1) ∨ (i = 1 ∧ j = 1) := by
        have hj2 : j < 2 := hj
        have : ¬ (i = 0 ∧ j = 0) := by
          rintro ⟨rfl, rfl⟩; simp [cix, colIdx] at hpos
        omega
      rcases hcases with ⟨rfl, rfl⟩ | ⟨rfl, rfl⟩
      · have e : cix 2 0 1 - 1 = 0 := by decide
        rw [e]; simp
      · have e : cix 2 1 1 - 1 = 1 := by decide
        rw [e]
        show Ks.ι 1 (Hal.negMul [2] [2]) = _
        rw [Ks.ι_negMul 1 _ _ rfl (by decide)]; simp)
  exact ⟨T, h1, h2⟩

/-! ## relinearise ∘ tensor: the ciphertext × ciphertext product -/

/-- a well-formed column list passes the executable shape check -/
theorem shapeOk_of_wf (n cols size : Nat) (x : List Col) (hl : x.length = cols) (h : ∀ c ∈ x, C02L.ColWF n size c) :
    shapeOk n cols size x = true := by
  unfold shapeOk
  simp only [Bool.and_eq_true, beq_iff_eq, List.all_eq_true]
  exact ⟨hl, fun c hc => ⟨(h c hc).1, fun l hl' => (h c hc).2 l hl'⟩⟩

/-- the gadget terms of a relinearisation -/
noncomputable def relinErr (N : Nat) (sk : List Poly) (aD : List Col) (g : GGLWE) (β : Ks.R N) (E : ℕ → ℕ → Ks.R N) : Ks.R N :=
  ∑ i ∈ Finset.range g.colsIn,
    (∑ r ∈ Finset.range g.dnum,
        Gadget.digit β g.dsize g.dnum (aD.getD 0 []).length (Ks.inLimb N (mkBuf g.n g.colsIn (aD.getD 0 []).length aD) i) r * E i r
      - Gadget.dropped β g.size g.dsize g.dnum (aD.getD 0 []).length
          (Ks.inLimb N (mkBuf g.n g.colsIn (aD.getD 0 []).length aD) i) (Ks.keyPhase N sk g.toPMat i)
      - β ^ g.size * Gadget.head β g.dsize g.dnum (aD.getD 0 []).length
          (Ks.inLimb N (mkBuf g.n g.colsIn (aD.getD 0 []).length aD) i) (Ks.keyPhase N sk g.toPMat i))

example : shapeOk 1 2 2 [[[1], [0]], [[2], [3]]] = true := shapeOk_of_wf 1 2 2 _ rfl (by decide)

/-- **`glwe_mul_decrypts`** — the ciphertext × ciphertext product, END TO END: `glwe_tensor_apply` followed by `glwe_tensor_relinearize` with a
tensor key in the tensor's radix (`≤ 61`), covered regime (`rsT ≤ min(key.size, dnum·dsize)`), EVERY rank, both accumulator widths, result in
any radix.  Both calls return, the result is well formed, and
`2^(bt·S)·phase_s(res) = 2^(rb·rs)·(β^{S−rsT}·phase_{(s,s⊗s)}(T) + relinErr) + En + 2^(…)·Q` (`‖En‖_∞ ≤ (1+Σ‖s_i‖₁)·normTol`), where the tensor phase
satisfies `Core.TensorSpec`: `A·phase_{(s,s⊗s)}(T) = K·β·(Σσ_i val(a'_i))·(Σσ_j val(b'_j)) + residuals` — i.e. the relinearised product decrypts under
`s` to the product of the two phases at scale `2^cnv_offset`, up to the explicit gadget error (`relinErr`: `Σ digit·E − dropped − β^S·head`), the
rescaled roundings of the `cols(cols+1)/2 + cols` normalisations, and multiples of the torus moduli.  Head-room of the relinearisation DERIVED
(`relin_headroom` with tensor digits `≤ 3·(2^bt − 1)`): ONE decidable inequality `Core.prodAdmissible`.  This is the statement CKKS `mul` cites. -/
theorem glwe_mul_decrypts (big128 : Bool) (N rsT off b : Nat) (a bb : List Col) (aK bK : Nat) (res0T : List Col)
    (g : GGLWE) (rb rs : Nat) (res0 : List Col) (sk skG : List Poly) (σ : ℕ → Ks.R N) (E : ℕ → ℕ → Ks.R N)
    (H Dm : Int) (sa sb cols : Nat) (hN : 0 < N)
    -- the two operands and the tensor
    (hcols : a.length = cols) (hcb : bb.length = cols) (hc1 : 1 ≤ cols)
    (ha : ∀ x ∈ a, x.length = sa ∧ ∀ l ∈ x, l.length = N) (hbb : ∀ x ∈ bb, x.length = sb ∧ ∀ l ∈ x, l.length = N)
    (hsa : 1 ≤ sa) (hsb : 1 ≤ sb) (hhi : (cnvOffsetSplit b off).1 ≤ sa + sb - 1)
    (hr0 : res0T.length = (cols + 1) * cols / 2)
    (hbt1 : 1 ≤ g.base2k) (hbt : g.base2k ≤ 61) (hb1 : 1 ≤ b) (hb : b ≤ 62) (hH0 : 0 ≤ H) (hH : H + 8 ≤ 2 ^ (bitsOf big128 - 2))
    (haccD : ∀ i, i < cols → ∀ l ∈ Hal.cnvApplyCol N (limbBoundWithOffset (sa + sb - (cnvOffsetSplit b off).1) rsT g.base2k b (cnvOffsetSplit b off).2)
        (cnvOffsetSplit b off).1 ((prepAll N (msbMaskBottomLimb b aK) a).getD i []) ((prepAll N (msbMaskBottomLimb b bK) bb).getD i []),
        ∀ v ∈ l, |v| ≤ H)
    (haccP : ∀ i j, i < j → j < cols → ∀ l ∈ Hal.cnvApplyCol N (limbBoundWithOffset (sa + sb - (cnvOffsetSplit b off).1) rsT g.base2k b (cnvOffsetSplit b off).2)
        (cnvOffsetSplit b off).1
        (Hal.colAdd N ((prepAll N (msbMaskBottomLimb b aK) a).getD i []) ((prepAll N (msbMaskBottomLimb b aK) a).getD j []))
        (Hal.colAdd N ((prepAll N (msbMaskBottomLimb b bK) bb).getD i []) ((prepAll N (msbMaskBottomLimb b bK) bb).getD j [])),
        ∀ v ∈ l, |v| ≤ H)
    -- the grouped secret of `glwe_tensor_decrypt`: `sk` then the secret tensor
    (hskl : skG.length = (cols + 1) * cols / 2 - 1) (hσ0 : σ 0 = 1)
    (hτ : ∀ i j, i ≤ j → j < cols → 0 < cix cols i j → Ks.ι N (skG.getD (cix cols i j - 1) []) = σ i * σ j)
    (hsk : cols - 1 ≤ sk.length) (hskG1 : ∀ k, k < cols - 1 → skG.getD k [] = sk.getD k [])
    -- the tensor key
    (hco : g.colsOut = cols) (hci : g.colsOut + g.colsIn = (cols + 1) * cols / 2)
    (hrb1 : 1 ≤ rb) (hrb : rb ≤ 62) (hDm : 0 ≤ Dm)
    (hadm : prodAdmissible (bitsOf big128) g.dsize g.colsIn g.dnum N (3 * (2 ^ g.base2k - 1)) Dm (3 * (2 ^ g.base2k - 1)))
    (hgd : ∀ row ∈ g.cells, ∀ c ∈ row, ∀ l ∈ c, ∀ x ∈ l, |x| ≤ Dm)
    (hd : 1 ≤ g.dsize) (hn : g.n = N) (h0 : shapeOk g.n g.colsOut g.size res0 = true) (hM : ∀ j q, (g.toPMat.entry j q).length = N)
    (hS : g.dnum * g.dsize ≤ g.size) (hcov1 : rsT ≤ g.size) (hcov2 : rsT ≤ g.dnum * g.dsize)
    (hkey : ∀ i, i < g.colsIn → ∀ r, r < g.dnum →
      Gadget.val ((2 : Ks.R N) ^ g.base2k) g.size (Ks.keyPhase N sk g.toPMat i r)
        = 1 * Ks.ι N (skG.getD (cols - 1 + i) []) * ((2 : Ks.R N) ^ g.base2k) ^ (g.size - (r + 1) * g.dsize) + E i r) :
    ∃ T res, tensorApply false big128 N g.base2k rsT off b a aK bb bK res0T = some T ∧
      relinearize big128 N rb rs T g.base2k g g.size res0 = some res ∧ C02L.GWF N (Ks.mkCt rb N res) ∧
      (∀ c ∈ res, ∀ l ∈ c, ∀ x ∈ l, |x| ≤ 2 ^ rb - 1) ∧
      TensorSpec N g.base2k rsT off b a bb aK bK skG σ sa sb cols T ∧
      ∃ En Q : Poly, En.length = N ∧ Q.length = N ∧
        normInf En ≤ (1 + C02L.snorm (min (cols - 1) sk.length) sk) * C02.normTol (rb * rs) (g.base2k * g.size) ∧
        (2 : Ks.R N) ^ (g.base2k * g.size) * Ks.ι N (C02L.valP rb N (Core.Ops.phase sk (Ks.mkCt rb N res)))
          = (2 : Ks.R N) ^ (rb * rs) *
              (((2 : Ks.R N) ^ g.base2k) ^ (g.size - rsT) * Ks.ι N (C02L.valP g.base2k N (Core.Ops.phase skG (Ks.mkCt g.base2k N T)))
                + relinErr N sk (relinInput N T g) g ((2 : Ks.R N) ^ g.base2k) E)
            + Ks.ι N En + (2 : Ks.R N) ^ (rb * rs + g.base2k * g.size) * Ks.ι N Q := by
  obtain ⟨T, hT, hspec⟩ := tensor_apply_decrypts big128 N g.base2k rsT off b a bb aK bK res0T skG σ H sa sb cols hN hcols hcb hc1 ha hbb hsa hsb hhi
    hr0 hbt1 hbt hb1 hb hH0 hH haccD haccP hskl hσ0 hτ
  obtain ⟨hTlen, hTwf, hTdig, _⟩ := hspec
  have hTlen' : T.length = g.colsOut + g.colsIn := by rw [hTlen, hci]
  have hT0 : 0 < T.length := by rw [hTlen', hco]; omega
  have hri := relinInput_eq N T g rsT hbt1 hT0 hTlen' hTwf
  have hcolT : ∀ k, k < T.length → C02L.ColWF N rsT (T.getD k []) ∧ ∀ l ∈ T.getD k [], ∀ v ∈ l, |v| ≤ 3 * (2 ^ g.base2k - 1) := by
    intro k hk
    rw [List.getD_eq_getElem?_getD, List.getElem?_eq_getElem hk]
    exact ⟨hTwf _ (List.getElem_mem hk), hTdig _ (List.getElem_mem hk)⟩
  have hY0 : (0 : Int) ≤ 3 * (2 ^ g.base2k - 1) := by
    have : (1 : Int) ≤ 2 ^ g.base2k := one_le_pow₀ (by norm_num)
    linarith
  -- shape and digits of the pair columns
  have hriwf : ∀ c ∈ relinInput N T g, C02L.ColWF N rsT c := by
    rw [hri]; intro c hc
    obtain ⟨i, hi, rfl⟩ := List.mem_map.mp hc
    exact (hcolT _ (by have := List.mem_range.mp hi; omega)).1
  have hrib : ∀ c ∈ relinInput N T g, ∀ l ∈ c, ∀ x ∈ l, |x| ≤ 3 * (2 ^ g.base2k - 1) := by
    rw [hri]; intro c hc
    obtain ⟨i, hi, rfl⟩ := List.mem_map.mp hc
    exact (hcolT _ (by have := List.mem_range.mp hi; omega)).2
  have hrilen : (relinInput N T g).length = g.colsIn := by simp [relinInput]
  have hrish : shapeOk g.n g.colsIn ((relinInput N T g).getD 0 []).length (relinInput N T g) = true := by
    rw [hn]
    by_cases hci0 : g.colsIn = 0
    · have : relinInput N T g = [] := by unfold relinInput; rw [hci0]; rfl
      rw [this, hci0]; rfl
    · have h0' : 0 < (relinInput N T g).length := by rw [hrilen]; omega
      have e : ((relinInput N T g).getD 0 []).length = rsT := by
        rw [List.getD_eq_getElem?_getD, List.getElem?_eq_getElem h0']; exact (hriwf _ (List.getElem_mem h0')).1
      rw [e]
      exact shapeOk_of_wf N g.colsIn rsT _ hrilen hriwf
  have hPb := relin_headroom N (relinInput N T g) g res0 (3 * (2 ^ g.base2k - 1)) Dm hY0 hDm hd hn hrish h0 hrib hgd
  unfold prodAdmissible at hadm
  obtain ⟨res, hres, hgwf, hdig, En, Q, hE, hQ, hnm, heq⟩ := relin_decrypts big128 rb rs T g res0 sk
    (prodBound g.dsize g.colsIn g.dnum N (3 * (2 ^ g.base2k - 1)) Dm) (3 * (2 ^ g.base2k - 1))
    hrb1 hrb hbt1 (by omega) (prodBound_nonneg _ _ _ _ _ _ hY0 hDm) hY0 hadm hPb
    (fun j hj => (hcolT j (by omega)).1.2) hTdig (fun i => Ks.ι N (skG.getD (cols - 1 + i) [])) E hd hN hn (by omega) h0 hM hS hkey
  refine ⟨T, res, hT, hres, hgwf, hdig, ⟨hTlen, hTwf, hTdig, ‹_›⟩, En, Q, hE, hQ, by rw [← hco]; exact hnm, ?_⟩
  have hcv := relin_covered_value N hN T g sk skG (fun i => Ks.ι N (skG.getD (cols - 1 + i) [])) rsT hTlen' (by omega) hTwf hbt1 hd hcov1 hcov2
    (by rw [hco]; exact hsk) (by rw [hskl, hTlen]) (by rw [hco]; exact hskG1) (fun p _ => by rw [hco])
  unfold relinErr
  rw [← hcv]
  rw [heq]
  ring

/-- rank 1, one-pair tensor key `exTsk` (`dsize = 2`), grouped secret `[s, s⋆s]`, every hypothesis discharged -/
example : ∃ T res, tensorApply false false 1 exTsk.base2k 2 4 4 [[[3], [0]], [[1], [0]]] 8 [[[2], [0]], [[1], [0]]] 8 (zeroCols 1 3 2) = some T ∧
    relinearize false 1 4 3 T exTsk.base2k exTsk exTsk.size (zeroCols 1 2 3) = some res ∧ C02L.GWF 1 (Ks.mkCt 4 1 res) := by
  obtain ⟨T, res, h1, h2, h3, _⟩ := glwe_mul_decrypts false 1 2 4 4 [[[3], [0]], [[1], [0]]] [[[2], [0]], [[1], [0]]] 8 8 (zeroCols 1 3 2)
    exTsk 4 3 (zeroCols 1 2 3) [[2]] [[2], Hal.negMul [2] [2]] (fun i => if i = 0 then 1 else Ks.ι 1 [2])
    (fun i r => Gadget.val ((2 : Ks.R 1) ^ exTsk.base2k) exTsk.size (Ks.keyPhase 1 [[2]] exTsk.toPMat i r)
      - 1 * Ks.ι 1 (([[2], Hal.negMul [2] [2]] : List Poly).getD (2 - 1 + i) []) * ((2 : Ks.R 1) ^ exTsk.base2k) ^ (exTsk.size - (r + 1) * exTsk.dsize))
    (2 ^ 61) 1 2 2 2 (by decide) rfl rfl (by decide)
    (by decide) (by decide) (by decide) (by decide) (by decide) (by decide) (by decide) (by decide) (by decide) (by decide) (by decide) (by decide)
    (by decide)
    (by
      intro i j hij hj
      have h01 : i = 0 ∧ j = 1 := by omega
      obtain ⟨rfl, rfl⟩ := h01
      decide)
    (by decide) rfl
    (by
      intro i j hij hj hpos
      have hcases : (i = 0 ∧ j = 1) ∨ (i = 1 ∧ j = 1) := by
        have hj2 : j < 2 := hj
        have : ¬ (i = 0 ∧ j = 0) := by
          rintro ⟨rfl, rfl⟩; simp [cix, colIdx] at hpos
        omega
      rcases hcases with ⟨rfl, rfl⟩ | ⟨rfl, rfl⟩
      · have e : cix 2 0 1 - 1 = 0 := by decide
        rw [e]; simp
      · have e : cix 2 1 1 - 1 = 1 := by decide
        rw [e]
        show Ks.ι 1 (Hal.negMul [2] [2]) = _
        rw [Ks.ι_negMul 1 _ _ rfl (by decide)]; simp)
    (by decide)
    (by intro k hk; have : k = 0 := by omega
        subst this; rfl)
    rfl (by decide) (by decide) (by decide) (by decide) (by decide) (by decide +kernel) (by decide) rfl (by decide)
    (Ks.entry_length exTsk.toPMat 1 rfl (by decide +kernel)) (by decide) (by decide) (by decide)
    (by intro i _ r _; exact (add_sub_cancel _ _).symm)
  exact ⟨T, res, h1, h2, h3⟩

/-! ## Tensor accumulator head-room derived from balanced digits -/

/-- balanced digit range `[−2^(b−1), 2^(b−1))` -/
def Bal (b : Nat) (x : Int) : Prop := -(2 ^ (b - 1)) ≤ x ∧ x < 2 ^ (b - 1)

instance (b : Nat) (x : Int) : Decidable (Bal b x) := by unfold Bal; infer_instance

/-- **masking keeps a balanced digit balanced**: `cnv_prepare_*` clears low bits (rounds toward `−∞` to a multiple of `2^s`, `s < b`), and
`−2^(b−1)` is such a multiple -/
theorem mask_balanced (b k : Nat) (hb1 : 1 ≤ b) (hb : b ≤ 62) (x : Int) (hx : Bal b x) : Bal b (Hal.maskCoeff (msbMaskBottomLimb b k) x) := by
  unfold Bal at hx ⊢
  have hp : (2 : Int) ^ (b - 1) ≤ 2 ^ 61 := pow_le_pow_right₀ (by norm_num) (by omega)
  rw [mask_keeps_top_bits b k (by omega) x (by linarith) (by linarith)]
  by_cases h : k % b = 0
  · simp only [h, if_true]; exact hx
  · simp only [h, if_false]
    have hkb : k % b < b := Nat.mod_lt _ (by omega)
    set s := b - k % b with hs
    have hs1 : s ≤ b - 1 := by omega
    have hpow : (2 : Int) ^ (b - 1) = 2 ^ s * 2 ^ (b - 1 - s) := by rw [← pow_add]; congr 1; omega
    have hp0 : (0 : Int) < 2 ^ s := by positivity
    have hm0 : (0 : Int) ≤ 2 ^ (b - 1 - s) := by positivity
    have h1 := Int.emod_nonneg x (ne_of_gt hp0)
    have h2 := Int.emod_lt_of_pos x hp0
    have h3 := Int.mul_ediv_add_emod x (2 ^ s)
    constructor
    · -- x − x % 2^s = 2^s·(x / 2^s) ≥ −2^s·m
      have hq : -(2 ^ (b - 1 - s) : Int) ≤ x / 2 ^ s := by
        by_contra hc
        push_neg at hc
        have : x / 2 ^ s + 1 ≤ -(2 ^ (b - 1 - s) : Int) := by omega
        have h4 : (2 : Int) ^ s * (x / 2 ^ s + 1) ≤ 2 ^ s * (-(2 ^ (b - 1 - s) : Int)) := mul_le_mul_of_nonneg_left this (le_of_lt hp0)
        nlinarith
      have : x - x % 2 ^ s = 2 ^ s * (x / 2 ^ s) := by linarith
      rw [this, hpow]
      nlinarith
    · linarith

example : Bal 4 (Hal.maskCoeff (msbMaskBottomLimb 4 6) (-7)) := mask_balanced 4 6 (by decide) (by decide) (-7) (by decide)

theorem bal_abs (b : Nat) (x : Int) (h : Bal b x) : |x| ≤ 2 ^ (b - 1) := by
  unfold Bal at h; rw [abs_le]; constructor <;> linarith

theorem prepAll_balanced (N b k : Nat) (hb1 : 1 ≤ b) (hb : b ≤ 62) (a : List Col) (sa : Nat)
    (ha : ∀ x ∈ a, x.length = sa ∧ ∀ l ∈ x, l.length = N) (hbal : ∀ x ∈ a, ∀ l ∈ x, ∀ v ∈ l, Bal b v) (i : Nat) :
    ∀ l ∈ (prepAll N (msbMaskBottomLimb b k) a).getD i [], PB N (2 ^ (b - 1)) l := by
  have hp0 : (0 : Int) ≤ 2 ^ (b - 1) := by positivity
  by_cases hi : i < a.length
  · have e : (prepAll N (msbMaskBottomLimb b k) a).getD i [] = Hal.cnvPrepareCol N (a[i]).length (msbMaskBottomLimb b k) a[i] := by
      unfold prepAll
      simp [List.getD_eq_getElem?_getD, List.getElem?_map, List.getElem?_eq_getElem hi]
    have hm := List.getElem_mem hi
    have hx := ha _ hm
    have hbx := hbal _ hm
    rw [e]
    intro l hl
    unfold Hal.cnvPrepareCol at hl
    obtain ⟨j, _, rfl⟩ := List.mem_map.mp hl
    have hlimb : PB N (2 ^ (b - 1)) (limbOr0 N a[i] j) ∧ ∀ v ∈ limbOr0 N a[i] j, v = 0 ∨ Bal b v := by
      unfold limbOr0
      rw [List.getD_eq_getElem?_getD]
      cases hj : (a[i])[j]? with
      | none =>
        simp only [Option.getD_none]
        exact ⟨PB_zero N _ hp0, fun v hv => by simp only [zeroP, List.mem_replicate] at hv; exact Or.inl hv.2⟩
      | some p =>
        simp only [Option.getD_some]
        have hp := List.mem_of_getElem? hj
        exact ⟨⟨le_of_eq (hx.2 p hp), fun v hv => bal_abs b v (hbx p hp v hv)⟩, fun v hv => Or.inr (hbx p hp v hv)⟩
    show PB N (2 ^ (b - 1)) (if j + 1 = min (a[i]).length (a[i]).length then (limbOr0 N a[i] j).map (maskCoeff (msbMaskBottomLimb b k))
      else if j < min (a[i]).length (a[i]).length then limbOr0 N a[i] j else zeroP N)
    split
    · refine ⟨by rw [List.length_map]; exact hlimb.1.1, ?_⟩
      intro v hv
      obtain ⟨w, hw, rfl⟩ := List.mem_map.mp hv
      rcases hlimb.2 w hw with h0 | hbw
      · subst h0
        exact bal_abs b _ (mask_balanced b k hb1 hb 0 (by unfold Bal; constructor <;> [skip; positivity]; have : (0:Int) ≤ 2 ^ (b-1) := hp0; linarith))
      · exact bal_abs b _ (mask_balanced b k hb1 hb w hbw)
    · split
      · exact hlimb.1
      · exact PB_zero N _ hp0
  · have e : (prepAll N (msbMaskBottomLimb b k) a).getD i [] = [] := by
      unfold prepAll
      rw [List.getD_eq_getElem?_getD, List.getElem?_eq_none (by simp; omega)]; rfl
    rw [e]; intro l hl; simp at hl

theorem colAdd_PB (N : Nat) (D : Int) (hD : 0 ≤ D) (x y : Col) (hx : ∀ l ∈ x, PB N D l) (hy : ∀ l ∈ y, PB N D l) :
    ∀ l ∈ Hal.colAdd N x y, PB N (D + D) l := by
  intro l hl
  unfold Hal.colAdd at hl
  obtain ⟨m, _, rfl⟩ := List.mem_map.mp hl
  have h1 := limbOr0_PB x m hx hD
  have h2 := limbOr0_PB y m hy hD
  refine ⟨by rw [polyAdd_length]; exact le_trans (Nat.min_le_left _ _) h1.1, ?_⟩
  intro v hv
  unfold polyAdd at hv
  obtain ⟨t, ht, rfl⟩ := List.getElem_of_mem hv
  simp only [List.length_zipWith] at ht
  simp only [List.getElem_zipWith]
  have a1 := h1.2 _ (List.getElem_mem (by omega : t < (limbOr0 N x m).length))
  have a2 := h2.2 _ (List.getElem_mem (by omega : t < (limbOr0 N y m).length))
  exact (abs_add_le _ _).trans (add_le_add a1 a2)

theorem PB_mono {N : Nat} {D D' : Int} (h : D ≤ D') {l : Poly} (hl : PB N D l) : PB N D' l :=
  ⟨hl.1, fun v hv => (hl.2 v hv).trans h⟩

/-- **`tensor_apply_decrypts_balanced`** — `tensor_apply_decrypts` with the accumulator head-room DERIVED inside the theorem: operands with
balanced digits `[−2^(b−1), 2^(b−1))` (what every normalisation of the crate produces for equal radices) stay balanced under the masks
(`mask_balanced`), the pairwise sums are bounded by `2^b`, every coefficient of every `cnv_apply_dft` by `sb·N·2^b·2^b`
(`mul_plain_headroom`); the only remaining condition is the decidable `Core.cnvAdmissible bits sb N 2^b 2^b`. -/
theorem tensor_apply_decrypts_balanced (big128 : Bool) (N rb rs off b : Nat) (a bb : List Col) (aK bK : Nat) (res0 : List Col) (skG : List Poly)
    (σ : ℕ → Ks.R N) (sa sb cols : Nat) (hN : 0 < N)
    (hcols : a.length = cols) (hcb : bb.length = cols) (hc1 : 1 ≤ cols)
    (ha : ∀ x ∈ a, x.length = sa ∧ ∀ l ∈ x, l.length = N) (hbb : ∀ x ∈ bb, x.length = sb ∧ ∀ l ∈ x, l.length = N)
    (habal : ∀ x ∈ a, ∀ l ∈ x, ∀ v ∈ l, Bal b v) (hbbal : ∀ x ∈ bb, ∀ l ∈ x, ∀ v ∈ l, Bal b v)
    (hsa : 1 ≤ sa) (hsb : 1 ≤ sb) (hhi : (cnvOffsetSplit b off).1 ≤ sa + sb - 1)
    (hr0 : res0.length = (cols + 1) * cols / 2)
    (hrb1 : 1 ≤ rb) (hrb : rb ≤ 61) (hb1 : 1 ≤ b) (hb : b ≤ 62)
    (hadm : cnvAdmissible (bitsOf big128) sb N (2 ^ b) (2 ^ b))
    (hskl : skG.length = (cols + 1) * cols / 2 - 1) (hσ0 : σ 0 = 1)
    (hτ : ∀ i j, i ≤ j → j < cols → 0 < cix cols i j → Ks.ι N (skG.getD (cix cols i j - 1) []) = σ i * σ j) :
    ∃ T, tensorApply false big128 N rb rs off b a aK bb bK res0 = some T ∧ TensorSpec N rb rs off b a bb aK bK skG σ sa sb cols T := by
  have hp0 : (0 : Int) ≤ 2 ^ (b - 1) := by positivity
  have hpb0 : (0 : Int) ≤ 2 ^ b := by positivity
  have hhalf : (2 : Int) ^ (b - 1) + 2 ^ (b - 1) = 2 ^ b := by
    have : b = (b - 1) + 1 := by omega
    conv_rhs => rw [this, pow_succ]
    ring
  have hle : (2 : Int) ^ (b - 1) ≤ 2 ^ b := by linarith
  unfold cnvAdmissible at hadm
  have hH0 : (0 : Int) ≤ (sb : Int) * ((N : Int) * 2 ^ b * 2 ^ b) := by positivity
  have haP := fun i => prepAll_balanced N b aK hb1 hb a sa ha habal i
  have hbP := fun i => prepAll_balanced N b bK hb1 hb bb sb hbb hbbal i
  apply tensor_apply_decrypts big128 N rb rs off b a bb aK bK res0 skG σ ((sb : Int) * ((N : Int) * 2 ^ b * 2 ^ b)) sa sb cols hN hcols hcb hc1
    ha hbb hsa hsb hhi hr0 hrb1 hrb hb1 hb hH0 hadm
  · intro i hic
    have hlen : ((prepAll N (msbMaskBottomLimb b bK) bb).getD i []).length = sb :=
      (prepAll_getD N _ bb sb i (by rw [hcb]; exact hic) hbb).1
    have := cnvApplyCol_bound N (limbBoundWithOffset (sa + sb - (cnvOffsetSplit b off).1) rs rb b (cnvOffsetSplit b off).2) (cnvOffsetSplit b off).1
      ((prepAll N (msbMaskBottomLimb b aK) a).getD i []) ((prepAll N (msbMaskBottomLimb b bK) bb).getD i []) (2 ^ b) (2 ^ b) hpb0 hpb0
      (fun l hl => PB_mono hle (haP i l hl)) (fun l hl v hv => ((hbP i l hl).2 v hv).trans hle)
    rw [hlen] at this
    exact this
  · intro i j hij hjc
    have hic : i < cols := by omega
    obtain ⟨b1, b2⟩ := prepAll_getD N (msbMaskBottomLimb b bK) bb sb i (by rw [hcb]; exact hic) hbb
    obtain ⟨b3, b4⟩ := prepAll_getD N (msbMaskBottomLimb b bK) bb sb j (by rw [hcb]; exact hjc) hbb
    have hlen : (Hal.colAdd N ((prepAll N (msbMaskBottomLimb b bK) bb).getD i []) ((prepAll N (msbMaskBottomLimb b bK) bb).getD j [])).length = sb := by
      rw [(colAdd_shape N _ _ (by rw [b1, b3]) b2 b4).1, b1]
    have hx := colAdd_PB N (2 ^ (b - 1)) hp0 _ _ (haP i) (haP j)
    have hy := colAdd_PB N (2 ^ (b - 1)) hp0 _ _ (hbP i) (hbP j)
    rw [hhalf] at hx hy
    have := cnvApplyCol_bound N (limbBoundWithOffset (sa + sb - (cnvOffsetSplit b off).1) rs rb b (cnvOffsetSplit b off).2) (cnvOffsetSplit b off).1
      (Hal.colAdd N ((prepAll N (msbMaskBottomLimb b aK) a).getD i []) ((prepAll N (msbMaskBottomLimb b aK) a).getD j []))
      (Hal.colAdd N ((prepAll N (msbMaskBottomLimb b bK) bb).getD i []) ((prepAll N (msbMaskBottomLimb b bK) bb).getD j []))
      (2 ^ b) (2 ^ b) hpb0 hpb0 hx (fun l hl => (hy l hl).2)
    rw [hlen] at this
    exact this
  · exact hskl
  · exact hσ0
  · exact hτ

example : ∃ T, tensorApply false true 1 4 2 4 4 [[[3], [0]], [[1], [0]]] 8 [[[2], [0]], [[1], [0]]] 8 (zeroCols 1 3 2) = some T ∧ T.length = 3 := by
  obtain ⟨T, h1, h2, _⟩ := tensor_apply_decrypts_balanced true 1 4 2 4 4 [[[3], [0]], [[1], [0]]] [[[2], [0]], [[1], [0]]] 8 8 (zeroCols 1 3 2)
    [[2], Hal.negMul [2] [2]] (fun i => if i = 0 then 1 else Ks.ι 1 [2]) 2 2 2 (by decide) rfl rfl (by decide)
    (by decide) (by decide) (by decide) (by decide) (by decide) (by decide) (by decide) (by decide) (by decide) (by decide) (by decide) (by decide)
    (by decide) (by decide) rfl
    (by
      intro i j hij hj hpos
      have hcases : (i = 0 ∧ j = 1) ∨ (i = 1 ∧ j = 1) := by
        have hj2 : j < 2 := hj
        have : ¬ (i = 0 ∧ j = 0) := by
          rintro ⟨rfl, rfl⟩; simp [cix, colIdx] at hpos
        omega
      rcases hcases with ⟨rfl, rfl⟩ | ⟨rfl, rfl⟩
      · have e : cix 2 0 1 - 1 = 0 := by decide
        rw [e]; simp
      · have e : cix 2 1 1 - 1 = 1 := by decide
        rw [e]
        show Ks.ι 1 (Hal.negMul [2] [2]) = _
        rw [Ks.ι_negMul 1 _ _ rfl (by decide)]; simp)
  exact ⟨T, h1, h2⟩

example : PB 1 4 [3] → PB 1 9 [3] := PB_mono (by decide)
example : ∀ l ∈ Hal.colAdd 1 [[3], [1]] [[2], [-4]], PB 1 (4 + 4) l :=
  colAdd_PB 1 4 (by decide) _ _ (by intro l hl; simp at hl; rcases hl with rfl | rfl <;> exact ⟨by decide, by decide⟩)
    (by intro l hl; simp at hl; rcases hl with rfl | rfl <;> exact ⟨by decide, by decide⟩)
example : |(-8 : Int)| ≤ 2 ^ (4 - 1) := bal_abs 4 (-8) (by decide)
example : ∀ l ∈ (prepAll 1 (msbMaskBottomLimb 4 6) [[[3], [-7]]]).getD 0 [], PB 1 (2 ^ (4 - 1)) l :=
  prepAll_balanced 1 4 6 (by decide) (by decide) [[[3], [-7]]] 2 (by decide) (by decide) 0

/-! ## Any tensor radix: the conversion inside relinearisation discharged -/

/-- **`relin_decrypts_any_radix`** — `glwe_tensor_relinearize` END TO END with the tensor in ANY radix `1..62` (converted column by column into
the tensor-key radix: `Core.relinearize_cross`, `Core.glweNormalize_total` — exact on the torus under every secret), covered regime
(`⌈rsT·ab/bg⌉ ≤ min(size, dnum·dsize)`), grouped secret `skG = (s, s⊗s)`, every key digit size, both accumulator widths, head-room derived:
`2^(ab·rsT+bg·S)·phase_s(res) = 2^(rb·rs)·(2^(bg·S)·phase_{skG}(T) + 2^(ab·rsT)·relinErr) + 2^(ab·rsT)·En + 2^(…)·Q`. -/
theorem relin_decrypts_any_radix {N : Nat} (big128 : Bool) (rb rs ab rsT : Nat) (T : List Col) (g : GGLWE) (res0 : List Col)
    (sk skG : List Poly) (E : ℕ → ℕ → Ks.R N) (Hin Da Dm : Int) (hN : 0 < N)
    (hTlen : T.length = g.colsOut + g.colsIn) (hc1 : 1 ≤ g.colsOut) (hTwf : ∀ c ∈ T, C02L.ColWF N rsT c)
    (hTb : ∀ c ∈ T, ∀ l ∈ c, ∀ x ∈ l, |x| ≤ Hin) (hH0 : 0 ≤ Hin) (hH : Hin + 8 ≤ 2 ^ 62)
    (hrb1 : 1 ≤ rb) (hrb : rb ≤ 62) (hab1 : 1 ≤ ab) (hab : ab ≤ 62) (hbt1 : 1 ≤ g.base2k) (hbt : g.base2k ≤ 62)
    (hDa : if ab = g.base2k then Hin ≤ Da else 2 ^ g.base2k - 1 ≤ Da) (hDm : 0 ≤ Dm)
    (hadm : prodAdmissible (bitsOf big128) g.dsize g.colsIn g.dnum N Da Dm Da)
    (hgd : ∀ row ∈ g.cells, ∀ c ∈ row, ∀ l ∈ c, ∀ x ∈ l, |x| ≤ Dm)
    (hd : 1 ≤ g.dsize) (hn : g.n = N) (h0 : shapeOk g.n g.colsOut g.size res0 = true) (hM : ∀ j q, (g.toPMat.entry j q).length = N)
    (hS : g.dnum * g.dsize ≤ g.size)
    (hcov1 : epConvSize rsT ab g.base2k ≤ g.size) (hcov2 : epConvSize rsT ab g.base2k ≤ g.dnum * g.dsize)
    (hsk : g.colsOut - 1 ≤ sk.length) (hskGl : skG.length = T.length - 1)
    (hskG1 : ∀ k, k < g.colsOut - 1 → skG.getD k [] = sk.getD k [])
    (hkey : ∀ i, i < g.colsIn → ∀ r, r < g.dnum →
      Gadget.val ((2 : Ks.R N) ^ g.base2k) g.size (Ks.keyPhase N sk g.toPMat i r)
        = 1 * Ks.ι N (skG.getD (g.colsOut - 1 + i) []) * ((2 : Ks.R N) ^ g.base2k) ^ (g.size - (r + 1) * g.dsize) + E i r) :
    ∃ res T', relinearize big128 N rb rs T ab g g.size res0 = some res ∧
      relinearize big128 N rb rs T ab g g.size res0 = relinearize big128 N rb rs T' g.base2k g g.size res0 ∧
      C02L.GWF N (Ks.mkCt rb N res) ∧ (∀ c ∈ res, ∀ l ∈ c, ∀ x ∈ l, |x| ≤ 2 ^ rb - 1) ∧
      ∃ (En : Poly) (Qr : Ks.R N), En.length = N ∧
        normInf En ≤ (1 + C02L.snorm (min (g.colsOut - 1) sk.length) sk) * C02.normTol (rb * rs) (g.base2k * g.size) ∧
        (2 : Ks.R N) ^ (ab * rsT + g.base2k * g.size) * Ks.ι N (C02L.valP rb N (Core.Ops.phase sk (Ks.mkCt rb N res)))
          = (2 : Ks.R N) ^ (rb * rs) *
              ((2 : Ks.R N) ^ (g.base2k * g.size) * Ks.ι N (C02L.valP ab N (Core.Ops.phase skG (Ks.mkCt ab N T)))
                + (2 : Ks.R N) ^ (ab * rsT) * relinErr N sk (relinInput N T' g) g ((2 : Ks.R N) ^ g.base2k) E)
            + (2 : Ks.R N) ^ (ab * rsT) * Ks.ι N En
            + (2 : Ks.R N) ^ (ab * rsT + rb * rs + g.base2k * g.size) * Qr := by
  have hT0 : 0 < T.length := by omega
  have hTne : T ≠ [] := by intro h; rw [h] at hT0; simp at hT0
  have hsa0 : (T.getD 0 []).length = rsT := by
    rw [List.getD_eq_getElem?_getD, List.getElem?_eq_getElem hT0]; exact (hTwf _ (List.getElem_mem hT0)).1
  set cs := epConvSize rsT ab g.base2k with hcs
  have hDa0 : 0 ≤ Da := by
    split at hDa
    · linarith
    · have : (1 : Int) ≤ 2 ^ g.base2k := one_le_pow₀ (by norm_num)
      linarith
  -- the converted tensor
  have hconv : ∃ T', relinearize big128 N rb rs T ab g g.size res0 = relinearize big128 N rb rs T' g.base2k g g.size res0 ∧
      T'.length = T.length ∧ (∀ c ∈ T', C02L.ColWF N cs c) ∧ (∀ c ∈ T', ∀ l ∈ c, ∀ x ∈ l, |x| ≤ Da) ∧
      ∃ Q1 : Poly, Q1.length = N ∧
        (2 : Ks.R N) ^ (ab * rsT) * Ks.ι N (C02L.valP g.base2k N (Core.Ops.phase skG (Ks.mkCt g.base2k N T')))
          = (2 : Ks.R N) ^ (g.base2k * cs) * Ks.ι N (C02L.valP ab N (Core.Ops.phase skG (Ks.mkCt ab N T)))
            + (2 : Ks.R N) ^ (g.base2k * cs + ab * rsT) * Ks.ι N Q1 := by
    by_cases hr : ab = g.base2k
    · have hcs' : cs = rsT := by rw [hcs]; unfold epConvSize; simp [hr]
      refine ⟨T, by rw [hr], rfl, by rw [hcs']; exact hTwf, ?_, zeroP N, by simp [zeroP], ?_⟩
      · simp only [hr, if_true] at hDa
        intro c hc l hl x hx; exact (hTb c hc l hl x hx).trans hDa
      · rw [hcs', Ks.ι_zero, hr]; ring
    · have hcs' : cs = (rsT * ab + g.base2k - 1) / g.base2k := by rw [hcs]; unfold epConvSize; simp [hr]
      obtain ⟨T', h1, h2, h3, h4, h5⟩ := glweNormalize_total N hN T ab g.base2k rsT Hin hTne hTwf hab1 hab hbt1 hbt hH0 hH hTb
      have h0' : 0 < T'.length := by rw [h2]; exact hT0
      have hsa' : (T'.getD 0 []).length = (rsT * ab + g.base2k - 1) / g.base2k := by
        rw [List.getD_eq_getElem?_getD, List.getElem?_eq_getElem h0']; exact (h3 _ (List.getElem_mem h0')).1
      refine ⟨T', relinearize_cross big128 N rb rs T T' ab g res0 rsT hr hbt1 hsa0 hTlen h1 hsa', h2, by rw [hcs']; exact h3, ?_, ?_⟩
      · simp only [hr, if_false] at hDa
        intro c hc l hl x hx; exact (h4 c hc l hl x hx).trans hDa
      · obtain ⟨Q1, hQ1, he⟩ := h5 skG
        exact ⟨Q1, hQ1, by rw [hcs']; exact he⟩
  obtain ⟨T', hrel, hT'len, hT'wf, hT'b, Q1, hQ1, hconvEq⟩ := hconv
  have hT'len' : T'.length = g.colsOut + g.colsIn := by rw [hT'len, hTlen]
  have hT'0 : 0 < T'.length := by omega
  have hri := relinInput_eq N T' g cs hbt1 hT'0 hT'len' hT'wf
  have hcolT : ∀ k, k < T'.length → C02L.ColWF N cs (T'.getD k []) ∧ ∀ l ∈ T'.getD k [], ∀ v ∈ l, |v| ≤ Da := by
    intro k hk
    rw [List.getD_eq_getElem?_getD, List.getElem?_eq_getElem hk]
    exact ⟨hT'wf _ (List.getElem_mem hk), hT'b _ (List.getElem_mem hk)⟩
  have hriwf : ∀ c ∈ relinInput N T' g, C02L.ColWF N cs c := by
    rw [hri]; intro c hc
    obtain ⟨i, hi, rfl⟩ := List.mem_map.mp hc
    exact (hcolT _ (by have := List.mem_range.mp hi; omega)).1
  have hrib : ∀ c ∈ relinInput N T' g, ∀ l ∈ c, ∀ x ∈ l, |x| ≤ Da := by
    rw [hri]; intro c hc
    obtain ⟨i, hi, rfl⟩ := List.mem_map.mp hc
    exact (hcolT _ (by have := List.mem_range.mp hi; omega)).2
  have hrilen : (relinInput N T' g).length = g.colsIn := by simp [relinInput]
  have hrish : shapeOk g.n g.colsIn ((relinInput N T' g).getD 0 []).length (relinInput N T' g) = true := by
    rw [hn]
    by_cases hci0 : g.colsIn = 0
    · have : relinInput N T' g = [] := by unfold relinInput; rw [hci0]; rfl
      rw [this, hci0]; rfl
    · have h0' : 0 < (relinInput N T' g).length := by rw [hrilen]; omega
      have e : ((relinInput N T' g).getD 0 []).length = cs := by
        rw [List.getD_eq_getElem?_getD, List.getElem?_eq_getElem h0']; exact (hriwf _ (List.getElem_mem h0')).1
      rw [e]
      exact shapeOk_of_wf N g.colsIn cs _ hrilen hriwf
  have hPb := relin_headroom N (relinInput N T' g) g res0 Da Dm hDa0 hDm hd hn hrish h0 hrib hgd
  unfold prodAdmissible at hadm
  obtain ⟨res, hres, hgwf, hdig, En, Q, hE, hQ, hnm, heq⟩ := relin_decrypts big128 rb rs T' g res0 sk
    (prodBound g.dsize g.colsIn g.dnum N Da Dm) Da hrb1 hrb hbt1 hbt (prodBound_nonneg _ _ _ _ _ _ hDa0 hDm) hDa0 hadm hPb
    (fun j hj => (hcolT j (by omega)).1.2) hT'b (fun i => Ks.ι N (skG.getD (g.colsOut - 1 + i) [])) E hd hN hn (by omega) h0 hM hS hkey
  have hcv := relin_covered_value N hN T' g sk skG (fun i => Ks.ι N (skG.getD (g.colsOut - 1 + i) [])) cs hT'len' hc1 hT'wf hbt1 hd hcov1 hcov2
    hsk (by rw [hskGl, hT'len]) hskG1 (fun p _ => rfl)
  refine ⟨res, T', by rw [hrel]; exact hres, hrel, hgwf, hdig, En, Ks.ι N Q + Ks.ι N Q1, hE, hnm, ?_⟩
  unfold relinErr
  have hpow : ((2 : Ks.R N) ^ g.base2k) ^ (g.size - cs) * (2 : Ks.R N) ^ (g.base2k * cs) = (2 : Ks.R N) ^ (g.base2k * g.size) := by
    rw [← pow_mul, ← pow_add]
    congr 1
    rw [← Nat.mul_add]; congr 1; omega
  have e1 : (2 : Ks.R N) ^ (ab * rsT + g.base2k * g.size) = (2 : Ks.R N) ^ (ab * rsT) * (2 : Ks.R N) ^ (g.base2k * g.size) := pow_add _ _ _
  have e2 : (2 : Ks.R N) ^ (ab * rsT + rb * rs + g.base2k * g.size)
      = (2 : Ks.R N) ^ (ab * rsT) * (2 : Ks.R N) ^ (rb * rs) * (2 : Ks.R N) ^ (g.base2k * g.size) := by rw [pow_add, pow_add]
  have e3 : (2 : Ks.R N) ^ (rb * rs + g.base2k * g.size) = (2 : Ks.R N) ^ (rb * rs) * (2 : Ks.R N) ^ (g.base2k * g.size) := pow_add _ _ _
  have e4 : (2 : Ks.R N) ^ (g.base2k * cs + ab * rsT) = (2 : Ks.R N) ^ (g.base2k * cs) * (2 : Ks.R N) ^ (ab * rsT) := pow_add _ _ _
  rw [e3] at heq
  rw [e4] at hconvEq
  rw [e1, e2]
  linear_combination ((2 : Ks.R N) ^ (ab * rsT)) * heq
    + ((2 : Ks.R N) ^ (ab * rsT) * (2 : Ks.R N) ^ (rb * rs)) * hcv
    + ((2 : Ks.R N) ^ (rb * rs) * ((2 : Ks.R N) ^ g.base2k) ^ (g.size - cs)) * hconvEq
    + ((2 : Ks.R N) ^ (rb * rs) * Ks.ι N (C02L.valP ab N (Core.Ops.phase skG (Ks.mkCt ab N T)))
        + (2 : Ks.R N) ^ (ab * rsT) * (2 : Ks.R N) ^ (rb * rs) * Ks.ι N Q1) * hpow

/-- a tensor in radix `2^2` relinearised with the radix-`2^4` key `exTsk` (cross radix), NTT120 accumulator -/
example : ∃ res, relinearize true 1 4 3 ([[[1], [0], [1], [0]], [[0], [1], [0], [0]], [[1], [1], [0], [0]]] : List Col) 2 exTsk exTsk.size (zeroCols 1 2 3) = some res ∧ C02L.GWF 1 (Ks.mkCt 4 1 res) := by
  obtain ⟨res, T', h1, _, h3, _⟩ := relin_decrypts_any_radix (N := 1) true 4 3 2 4 ([[[1], [0], [1], [0]], [[0], [1], [0], [0]], [[1], [1], [0], [0]]] : List Col) exTsk (zeroCols 1 2 3) [[2]] [[2], Hal.negMul [2] [2]]
    (fun i r => Gadget.val ((2 : Ks.R 1) ^ exTsk.base2k) exTsk.size (Ks.keyPhase 1 [[2]] exTsk.toPMat i r)
      - 1 * Ks.ι 1 (([[2], Hal.negMul [2] [2]] : List Poly).getD (exTsk.colsOut - 1 + i) []) * ((2 : Ks.R 1) ^ exTsk.base2k) ^ (exTsk.size - (r + 1) * exTsk.dsize))
    1 15 1 (by decide) (by decide) (by decide) (by decide) (by decide) (by decide) (by decide) (by decide) (by decide) (by decide) (by decide)
    (by decide) (by decide) (by decide) (by decide) (by decide) (by decide +kernel) (by decide) rfl (by decide)
    (Ks.entry_length exTsk.toPMat 1 rfl (by decide +kernel)) (by decide) (by decide) (by decide) (by decide) (by decide)
    (by intro k hk; have h0 : k = 0 := by
          have : k < 1 := hk
          omega
        subst h0; rfl)
    (by intro i _ r _; exact (add_sub_cancel _ _).symm)
  exact ⟨res, h1, h3⟩

/-- **`glwe_mul_decrypts_any_radix`** — ct × ct END TO END with the tensor in ANY radix `rbT ≤ 60` (the tensor digits `≤ 3·(2^rbT − 1)` must fit the
conversion's head-room), not necessarily the tensor key's: `glwe_tensor_apply` then `glwe_tensor_relinearize` (which converts), every rank. -/
theorem glwe_mul_decrypts_any_radix (big128 : Bool) (N rbT rsT off b : Nat) (a bb : List Col) (aK bK : Nat) (res0T : List Col)
    (g : GGLWE) (rb rs : Nat) (res0 : List Col) (sk skG : List Poly) (σ : ℕ → Ks.R N) (E : ℕ → ℕ → Ks.R N)
    (H Da Dm : Int) (sa sb cols : Nat) (hN : 0 < N)
    (hcols : a.length = cols) (hcb : bb.length = cols) (hc1 : 1 ≤ cols)
    (ha : ∀ x ∈ a, x.length = sa ∧ ∀ l ∈ x, l.length = N) (hbb : ∀ x ∈ bb, x.length = sb ∧ ∀ l ∈ x, l.length = N)
    (hsa : 1 ≤ sa) (hsb : 1 ≤ sb) (hhi : (cnvOffsetSplit b off).1 ≤ sa + sb - 1)
    (hr0 : res0T.length = (cols + 1) * cols / 2)
    (hrbT1 : 1 ≤ rbT) (hrbT : rbT ≤ 60) (hb1 : 1 ≤ b) (hb : b ≤ 62) (hH0 : 0 ≤ H) (hH : H + 8 ≤ 2 ^ (bitsOf big128 - 2))
    (haccD : ∀ i, i < cols → ∀ l ∈ Hal.cnvApplyCol N (limbBoundWithOffset (sa + sb - (cnvOffsetSplit b off).1) rsT rbT b (cnvOffsetSplit b off).2)
        (cnvOffsetSplit b off).1 ((prepAll N (msbMaskBottomLimb b aK) a).getD i []) ((prepAll N (msbMaskBottomLimb b bK) bb).getD i []),
        ∀ v ∈ l, |v| ≤ H)
    (haccP : ∀ i j, i < j → j < cols → ∀ l ∈ Hal.cnvApplyCol N (limbBoundWithOffset (sa + sb - (cnvOffsetSplit b off).1) rsT rbT b (cnvOffsetSplit b off).2)
        (cnvOffsetSplit b off).1
        (Hal.colAdd N ((prepAll N (msbMaskBottomLimb b aK) a).getD i []) ((prepAll N (msbMaskBottomLimb b aK) a).getD j []))
        (Hal.colAdd N ((prepAll N (msbMaskBottomLimb b bK) bb).getD i []) ((prepAll N (msbMaskBottomLimb b bK) bb).getD j [])),
        ∀ v ∈ l, |v| ≤ H)
    (hskl : skG.length = (cols + 1) * cols / 2 - 1) (hσ0 : σ 0 = 1)
    (hτ : ∀ i j, i ≤ j → j < cols → 0 < cix cols i j → Ks.ι N (skG.getD (cix cols i j - 1) []) = σ i * σ j)
    (hsk : cols - 1 ≤ sk.length) (hskG1 : ∀ k, k < cols - 1 → skG.getD k [] = sk.getD k [])
    (hco : g.colsOut = cols) (hci : g.colsOut + g.colsIn = (cols + 1) * cols / 2)
    (hrb1 : 1 ≤ rb) (hrb : rb ≤ 62) (hbt1 : 1 ≤ g.base2k) (hbt : g.base2k ≤ 62)
    (hDa : if rbT = g.base2k then 3 * (2 ^ rbT - 1) ≤ Da else 2 ^ g.base2k - 1 ≤ Da) (hDm : 0 ≤ Dm)
    (hadm : prodAdmissible (bitsOf big128) g.dsize g.colsIn g.dnum N Da Dm Da)
    (hgd : ∀ row ∈ g.cells, ∀ c ∈ row, ∀ l ∈ c, ∀ x ∈ l, |x| ≤ Dm)
    (hd : 1 ≤ g.dsize) (hn : g.n = N) (h0 : shapeOk g.n g.colsOut g.size res0 = true) (hM : ∀ j q, (g.toPMat.entry j q).length = N)
    (hS : g.dnum * g.dsize ≤ g.size)
    (hcov1 : epConvSize rsT rbT g.base2k ≤ g.size) (hcov2 : epConvSize rsT rbT g.base2k ≤ g.dnum * g.dsize)
    (hkey : ∀ i, i < g.colsIn → ∀ r, r < g.dnum →
      Gadget.val ((2 : Ks.R N) ^ g.base2k) g.size (Ks.keyPhase N sk g.toPMat i r)
        = 1 * Ks.ι N (skG.getD (cols - 1 + i) []) * ((2 : Ks.R N) ^ g.base2k) ^ (g.size - (r + 1) * g.dsize) + E i r) :
    ∃ T res T', tensorApply false big128 N rbT rsT off b a aK bb bK res0T = some T ∧
      relinearize big128 N rb rs T rbT g g.size res0 = some res ∧ C02L.GWF N (Ks.mkCt rb N res) ∧
      (∀ c ∈ res, ∀ l ∈ c, ∀ x ∈ l, |x| ≤ 2 ^ rb - 1) ∧
      TensorSpec N rbT rsT off b a bb aK bK skG σ sa sb cols T ∧
      ∃ (En : Poly) (Qr : Ks.R N), En.length = N ∧
        normInf En ≤ (1 + C02L.snorm (min (cols - 1) sk.length) sk) * C02.normTol (rb * rs) (g.base2k * g.size) ∧
        (2 : Ks.R N) ^ (rbT * rsT + g.base2k * g.size) * Ks.ι N (C02L.valP rb N (Core.Ops.phase sk (Ks.mkCt rb N res)))
          = (2 : Ks.R N) ^ (rb * rs) *
              ((2 : Ks.R N) ^ (g.base2k * g.size) * Ks.ι N (C02L.valP rbT N (Core.Ops.phase skG (Ks.mkCt rbT N T)))
                + (2 : Ks.R N) ^ (rbT * rsT) * relinErr N sk (relinInput N T' g) g ((2 : Ks.R N) ^ g.base2k) E)
            + (2 : Ks.R N) ^ (rbT * rsT) * Ks.ι N En
            + (2 : Ks.R N) ^ (rbT * rsT + rb * rs + g.base2k * g.size) * Qr := by
  obtain ⟨T, hT, hspec⟩ := tensor_apply_decrypts big128 N rbT rsT off b a bb aK bK res0T skG σ H sa sb cols hN hcols hcb hc1 ha hbb hsa hsb hhi
    hr0 hrbT1 (by omega) hb1 hb hH0 hH haccD haccP hskl hσ0 hτ
  obtain ⟨hTlen, hTwf, hTdig, hrest⟩ := hspec
  have hTlen' : T.length = g.colsOut + g.colsIn := by rw [hTlen, hci]
  have hY0 : (0 : Int) ≤ 3 * (2 ^ rbT - 1) := by
    have : (1 : Int) ≤ 2 ^ rbT := one_le_pow₀ (by norm_num)
    linarith
  have hHin : 3 * ((2 : Int) ^ rbT - 1) + 8 ≤ 2 ^ 62 := by
    have h1 : (2 : Int) ^ rbT ≤ 2 ^ 60 := pow_le_pow_right₀ (by norm_num) hrbT
    have h2 : (2 : Int) ^ 62 = 4 * 2 ^ 60 := by norm_num
    have h3 : (8 : Int) ≤ 2 ^ 60 := by norm_num
    linarith
  obtain ⟨res, T', hres, _, hgwf, hdig, En, Qr, hE, hnm, heq⟩ := relin_decrypts_any_radix big128 rb rs rbT rsT T g res0 sk skG E
    (3 * (2 ^ rbT - 1)) Da Dm hN hTlen' (by omega) hTwf hTdig hY0 hHin hrb1 hrb hrbT1 (by omega) hbt1 hbt hDa hDm hadm hgd hd hn h0 hM hS
    hcov1 hcov2 (by rw [hco]; exact hsk) (by rw [hskl, hTlen]) (by rw [hco]; exact hskG1) (by rw [hco]; exact hkey)
  exact ⟨T, res, T', hT, hres, hgwf, hdig, ⟨hTlen, hTwf, hTdig, hrest⟩, En, Qr, hE, by rw [← hco]; exact hnm, heq⟩

/-- tensor in radix `2^2` (4 limbs), tensor key `exTsk` in radix `2^4`: ct × ct across radices, every hypothesis discharged -/
example : ∃ T res, tensorApply false false 1 2 4 4 4 [[[3], [0]], [[1], [0]]] 8 [[[2], [0]], [[1], [0]]] 8 (zeroCols 1 3 4) = some T ∧
    relinearize false 1 4 3 T 2 exTsk exTsk.size (zeroCols 1 2 3) = some res ∧ C02L.GWF 1 (Ks.mkCt 4 1 res) := by
  obtain ⟨T, res, T', h1, h2, h3, _⟩ := glwe_mul_decrypts_any_radix false 1 2 4 4 4 [[[3], [0]], [[1], [0]]] [[[2], [0]], [[1], [0]]] 8 8 (zeroCols 1 3 4)
    exTsk 4 3 (zeroCols 1 2 3) [[2]] [[2], Hal.negMul [2] [2]] (fun i => if i = 0 then 1 else Ks.ι 1 [2])
    (fun i r => Gadget.val ((2 : Ks.R 1) ^ exTsk.base2k) exTsk.size (Ks.keyPhase 1 [[2]] exTsk.toPMat i r)
      - 1 * Ks.ι 1 (([[2], Hal.negMul [2] [2]] : List Poly).getD (2 - 1 + i) []) * ((2 : Ks.R 1) ^ exTsk.base2k) ^ (exTsk.size - (r + 1) * exTsk.dsize))
    (2 ^ 61) 15 1 2 2 2 (by decide) rfl rfl (by decide)
    (by decide) (by decide) (by decide) (by decide) (by decide) (by decide) (by decide) (by decide) (by decide) (by decide) (by decide) (by decide)
    (by decide)
    (by
      intro i j hij hj
      have h01 : i = 0 ∧ j = 1 := by omega
      obtain ⟨rfl, rfl⟩ := h01
      decide)
    (by decide) rfl
    (by
      intro i j hij hj hpos
      have hcases : (i = 0 ∧ j = 1) ∨ (i = 1 ∧ j = 1) := by
        have hj2 : j < 2 := hj
        have : ¬ (i = 0 ∧ j = 0) := by
          rintro ⟨rfl, rfl⟩; simp [cix, colIdx] at hpos
        omega
      rcases hcases with ⟨rfl, rfl⟩ | ⟨rfl, rfl⟩
      · have e : cix 2 0 1 - 1 = 0 := by decide
        rw [e]; simp
      · have e : cix 2 1 1 - 1 = 1 := by decide
        rw [e]
        show Ks.ι 1 (Hal.negMul [2] [2]) = _
        rw [Ks.ι_negMul 1 _ _ rfl (by decide)]; simp)
    (by decide)
    (by intro k hk; have h0 : k = 0 := by omega
        subst h0; rfl)
    rfl (by decide) (by decide) (by decide) (by decide) (by decide) (by decide) (by decide) (by decide) (by decide +kernel)
    (by decide) rfl (by decide) (Ks.entry_length exTsk.toPMat 1 rfl (by decide +kernel)) (by decide) (by decide) (by decide)
    (by intro i _ r _; exact (add_sub_cancel _ _).symm)
  exact ⟨T, res, h1, h2, h3⟩

/-! ## Noise in closed form -/

/-- **`negMul_norm1_le`** — `‖p ⋆ q‖₁ ≤ ‖p‖₁·‖q‖₁` for the exact negacyclic product (the 1/1 companion of C01's `‖p ⋆ q‖_∞ ≤ ‖p‖₁·‖q‖_∞`):
the weight of a product of secrets `s_i ⋆ s_j` is at most the product of the weights. -/
theorem negMul_norm1_le (p q : Poly) : norm1 (Hal.negMul p q) ≤ norm1 p * norm1 q := norm1_negMul_le p q

example : norm1 (Hal.negMul [1, -1, 0, 1] [0, 1, 1, -1]) ≤ norm1 [1, -1, 0, 1] * norm1 [0, 1, 1, -1] := negMul_norm1_le _ _

/-- **`tensor_noise_bound`** — `glwe_tensor_apply` with the residual sum COLLAPSED into one noise polynomial with a closed-form `‖·‖_∞` bound.
With `σ_i = ι(sP i)` (`sP 0 = 1`, `sP (i+1) = s_i`), `w_i = ‖sP i‖₁`, `Hc` a bound of the full convolutions' coefficients
(`mul_plain_headroom`: `sb·N·Da·Db`):
`A·phase_{(s,s⊗s)}(T) = K·β·(Σσ_i val(a'_i))·(Σσ_j val(b'_j)) + ι(errT) + A'·M·Qa − K·β^F·Qb`,
`‖errT‖_∞ ≤ (Σ_i w_i² + 3·Σ_{i<j} w_i·w_j)·(2^{b(F−S)}·tol + 2^{rb·rs+lo⁺}·Hc·geo2(2^b, F−S))` (`Core.tensorNoiseBound`, `Core.cnvNoiseBound`):
per normalised product one rounding `tol = normTolOff` (≤ one unit of the result's last limb, `0` when nothing is cut) plus the dropped limbs of the
truncated convolution (`Σ_{m<F−S} β^m ≤ 2β^{F−S−1}` limbs' worth of `Hc`), weighted by the secret products (`negMul_norm1_le`). -/
theorem tensor_noise_bound (big128 : Bool) (N rb rs off b : Nat) (a bb : List Col) (aK bK : Nat) (res0 : List Col) (skG : List Poly)
    (sP : ℕ → Poly) (Hc : Int) (sa sb cols : Nat) (hN : 0 < N)
    (hcols : a.length = cols) (hcb : bb.length = cols) (hc1 : 1 ≤ cols)
    (ha : ∀ x ∈ a, x.length = sa ∧ ∀ l ∈ x, l.length = N) (hbb : ∀ x ∈ bb, x.length = sb ∧ ∀ l ∈ x, l.length = N)
    (hsa : 1 ≤ sa) (hsb : 1 ≤ sb) (hhi : (cnvOffsetSplit b off).1 ≤ sa + sb - 1)
    (hr0 : res0.length = (cols + 1) * cols / 2)
    (hrb1 : 1 ≤ rb) (hrb : rb ≤ 61) (hb1 : 1 ≤ b) (hb : b ≤ 62) (hH0 : 0 ≤ Hc) (hH : Hc + 8 ≤ 2 ^ (bitsOf big128 - 2))
    (hfullD : ∀ i, i < cols → ∀ l ∈ Hal.cnvApplyCol N (sa + sb - (cnvOffsetSplit b off).1) (cnvOffsetSplit b off).1
        ((prepAll N (msbMaskBottomLimb b aK) a).getD i []) ((prepAll N (msbMaskBottomLimb b bK) bb).getD i []), ∀ v ∈ l, |v| ≤ Hc)
    (hfullP : ∀ i j, i < j → j < cols → ∀ l ∈ Hal.cnvApplyCol N (sa + sb - (cnvOffsetSplit b off).1) (cnvOffsetSplit b off).1
        (Hal.colAdd N ((prepAll N (msbMaskBottomLimb b aK) a).getD i []) ((prepAll N (msbMaskBottomLimb b aK) a).getD j []))
        (Hal.colAdd N ((prepAll N (msbMaskBottomLimb b bK) bb).getD i []) ((prepAll N (msbMaskBottomLimb b bK) bb).getD j [])),
        ∀ v ∈ l, |v| ≤ Hc)
    (hskl : skG.length = (cols + 1) * cols / 2 - 1) (hsP : ∀ i, (sP i).length = N) (hσ0 : Ks.ι N (sP 0) = 1)
    (hτ : ∀ i j, i ≤ j → j < cols → 0 < cix cols i j → Ks.ι N (skG.getD (cix cols i j - 1) []) = Ks.ι N (sP i) * Ks.ι N (sP j)) :
    ∃ T, tensorApply false big128 N rb rs off b a aK bb bK res0 = some T ∧ T.length = (cols + 1) * cols / 2 ∧ (∀ c ∈ T, C02L.ColWF N rs c) ∧
      (∀ c ∈ T, ∀ l ∈ c, ∀ v ∈ l, |v| ≤ 3 * (2 ^ rb - 1)) ∧
      ∃ (errT : Poly) (Qa Qb : Ks.R N), errT.length = N ∧
        normInf errT ≤ tensorNoiseBound cols (fun i => norm1 (sP i))
          (cnvNoiseBound b rb rs (cnvOffsetSplit b off).2 (sa + sb - (cnvOffsetSplit b off).1)
            (limbBoundWithOffset (sa + sb - (cnvOffsetSplit b off).1) rs rb b (cnvOffsetSplit b off).2)
            (normTolOff (rb * rs) (b * limbBoundWithOffset (sa + sb - (cnvOffsetSplit b off).1) rs rb b (cnvOffsetSplit b off).2) (cnvOffsetSplit b off).2) Hc) ∧
        (((2 : Ks.R N) ^ b) ^ (sa + sb - (cnvOffsetSplit b off).1 - limbBoundWithOffset (sa + sb - (cnvOffsetSplit b off).1) rs rb b (cnvOffsetSplit b off).2)
            * (2 : Ks.R N) ^ (b * limbBoundWithOffset (sa + sb - (cnvOffsetSplit b off).1) rs rb b (cnvOffsetSplit b off).2 + (-(cnvOffsetSplit b off).2).toNat))
          * Ks.ι N (C02L.valP rb N (Core.Ops.phase skG (Ks.mkCt rb N T)))
          = ((2 : Ks.R N) ^ (rb * rs) * (2 : Ks.R N) ^ (cnvOffsetSplit b off).2.toNat) * ((2 : Ks.R N) ^ b)
              * ((∑ i ∈ Finset.range cols, Ks.ι N (sP i) * colVal N ((2 : Ks.R N) ^ b) ((prepAll N (msbMaskBottomLimb b aK) a).getD i []))
                * (∑ j ∈ Finset.range cols, Ks.ι N (sP j) * colVal N ((2 : Ks.R N) ^ b) ((prepAll N (msbMaskBottomLimb b bK) bb).getD j [])))
            + Ks.ι N errT
            + (((2 : Ks.R N) ^ b) ^ (sa + sb - (cnvOffsetSplit b off).1 - limbBoundWithOffset (sa + sb - (cnvOffsetSplit b off).1) rs rb b (cnvOffsetSplit b off).2)
                * (2 : Ks.R N) ^ (rb * rs + (b * limbBoundWithOffset (sa + sb - (cnvOffsetSplit b off).1) rs rb b (cnvOffsetSplit b off).2 + (-(cnvOffsetSplit b off).2).toNat))) * Qa
            - ((2 : Ks.R N) ^ (rb * rs) * (2 : Ks.R N) ^ (cnvOffsetSplit b off).2.toNat * ((2 : Ks.R N) ^ b) ^ (sa + sb - (cnvOffsetSplit b off).1)) * Qb :=
  tensorApply_noise big128 N rb rs off b a bb aK bK res0 skG sP Hc sa sb cols hN hcols hcb hc1 ha hbb hsa hsb hhi hr0 hrb1 hrb hb1 hb hH0 hH
    hfullD hfullP hskl hsP hσ0 hτ

/-- rank 1, grouped secret `[s, s⋆s]`, `sP = (1, s)` -/
example : ∃ T, tensorApply false false 1 4 2 4 4 [[[3], [0]], [[1], [0]]] 8 [[[2], [0]], [[1], [0]]] 8 (zeroCols 1 3 2) = some T ∧ T.length = 3 := by
  obtain ⟨T, h1, h2, _⟩ := tensor_noise_bound false 1 4 2 4 4 [[[3], [0]], [[1], [0]]] [[[2], [0]], [[1], [0]]] 8 8 (zeroCols 1 3 2)
    [[2], Hal.negMul [2] [2]] (fun i => if i = 0 then [1] else [2]) (2 ^ 61) 2 2 2 (by decide) rfl rfl (by decide)
    (by decide) (by decide) (by decide) (by decide) (by decide) (by decide) (by decide) (by decide) (by decide) (by decide) (by decide) (by decide)
    (by decide)
    (by
      intro i j hij hj
      have h01 : i = 0 ∧ j = 1 := by omega
      obtain ⟨rfl, rfl⟩ := h01
      decide)
    (by decide) (by intro i; by_cases h : i = 0 <;> simp [h])
    (by show Ks.ι 1 [1] = 1; unfold Ks.ι; simp [toPoly])
    (by
      intro i j hij hj hpos
      have hcases : (i = 0 ∧ j = 1) ∨ (i = 1 ∧ j = 1) := by
        have hj2 : j < 2 := hj
        have : ¬ (i = 0 ∧ j = 0) := by
          rintro ⟨rfl, rfl⟩; simp [cix, colIdx] at hpos
        omega
      rcases hcases with ⟨rfl, rfl⟩ | ⟨rfl, rfl⟩
      · have e : cix 2 0 1 - 1 = 0 := by decide
        rw [e]
        show Ks.ι 1 [2] = Ks.ι 1 [1] * Ks.ι 1 [2]
        have : Ks.ι 1 [1] = 1 := by unfold Ks.ι; simp [toPoly]
        rw [this, one_mul]
      · have e : cix 2 1 1 - 1 = 1 := by decide
        rw [e]
        show Ks.ι 1 (Hal.negMul [2] [2]) = Ks.ι 1 [2] * Ks.ι 1 [2]
        rw [Ks.ι_negMul 1 _ _ rfl (by decide)])
  exact ⟨T, h1, h2⟩

/-- the closed-form bounds instantiated on the crate's parameter sets (secret of weight `‖s‖₁ ≤ 64`, rank 1, three limbs per operand,
`cnv_offset = 2·base2k`), in units `A = 2^{b(F−S)}·2^{b·S}` of the tensor's last limb: bench core (`N = 4096`, `b = 18`) at most `2^45` units, CKKS
(`N = 4096`, `b = 52`) at most `2^79` units — the worst-case bound is dominated by the dropped limbs of the truncated convolution
(`Hc·2β^{F−S−1}` per product), as the correspondence oracle's bound is. -/
example : tensorNoiseBound 2 (fun i => if i = 0 then 1 else 64)
      (cnvNoiseBound 18 18 3 0 5 3 (normTolOff (18 * 3) (18 * 3) 0) (3 * (4096 * 2 ^ 18 * 2 ^ 18)))
      ≤ 2 ^ 45 * (2 ^ (18 * (5 - 3)) * 2 ^ (18 * 3)) ∧
    tensorNoiseBound 2 (fun i => if i = 0 then 1 else 64)
      (cnvNoiseBound 52 52 3 0 5 3 (normTolOff (52 * 3) (52 * 3) 0) (3 * (4096 * 2 ^ 52 * 2 ^ 52)))
      ≤ 2 ^ 79 * (2 ^ (52 * (5 - 3)) * 2 ^ (52 * 3)) := by decide

/-- closed-form noise bound of the ciphertext × ciphertext product (tensor key `dsize ≤ 2`): tensor noise, gadget error
`pairs·dnum·(Σ_{di<dsize} 2^{bt·di})·N·3(2^bt−1)·BE` (`BE` = bound of the tensor-key errors), final rounding -/
def glweMulNoiseBound (N cols : Nat) (w : ℕ → Int) (wsum : Int) (b bt rsT rb rs : Nat) (lo : Int) (F Sd : Nat) (Hc : Int)
    (pairs dnum dsize S : Nat) (BE : Int) : Int :=
  2 ^ (rb * rs) * 2 ^ (bt * (S - rsT)) *
      tensorNoiseBound cols w (cnvNoiseBound b bt rsT lo F Sd (normTolOff (bt * rsT) (b * Sd) lo) Hc)
    + 2 ^ (b * (F - Sd)) * 2 ^ (b * Sd + (-lo).toNat) * 2 ^ (rb * rs) *
        ((pairs : Int) * ((dnum : Int) * ((∑ di ∈ Finset.range dsize, (2 : Int) ^ (bt * di)) * ((N : Int) * (3 * (2 ^ bt - 1))) * BE)))
    + 2 ^ (b * (F - Sd)) * 2 ^ (b * Sd + (-lo).toNat) * ((1 + wsum) * C02.normTol (rb * rs) (bt * S))

/-- **`glwe_mul_noise_bound`** — the ciphertext × ciphertext product with ALL noise collapsed into one polynomial with a closed-form bound
(`glweMulNoiseBound`), tensor key `dsize ≤ 2` (nothing is dropped by the gadget: the crate's core / CKKS sets use `dsize = 1`), key errors given as
polynomials `EL` with `‖EL‖_∞ ≤ BE`:
`A·2^{bt·S}·phase_s(res) = 2^{rb·rs}·β^{S−rsT}·K·β·(Σσ_i val(a'_i))·(Σσ_j val(b'_j)) + ι(Noise) + C₁Q₁ − C₂Q₂ − C₃Q₃ + C₄Q₄` with explicit
multiples of the four moduli, and `‖Noise‖_∞ ≤ 2^{rb·rs}·2^{bt(S−rsT)}·tensorNoiseBound + A·2^{rb·rs}·pairs·dnum·(Σ_{di<dsize}2^{bt·di})·N·3(2^bt−1)·BE
+ A·(1+Σ‖s_i‖₁)·normTol`. -/
theorem glwe_mul_noise_bound (big128 : Bool) (N rsT off b : Nat) (a bb : List Col) (aK bK : Nat) (res0T : List Col)
    (g : GGLWE) (rb rs : Nat) (res0 : List Col) (sk skG : List Poly) (sP : ℕ → Poly) (EL : ℕ → ℕ → Poly)
    (Hc Dm BE : Int) (sa sb cols : Nat) (hN : 0 < N)
    (hcols : a.length = cols) (hcb : bb.length = cols) (hc1 : 1 ≤ cols)
    (ha : ∀ x ∈ a, x.length = sa ∧ ∀ l ∈ x, l.length = N) (hbb : ∀ x ∈ bb, x.length = sb ∧ ∀ l ∈ x, l.length = N)
    (hsa : 1 ≤ sa) (hsb : 1 ≤ sb) (hhi : (cnvOffsetSplit b off).1 ≤ sa + sb - 1)
    (hr0 : res0T.length = (cols + 1) * cols / 2)
    (hbt1 : 1 ≤ g.base2k) (hbt : g.base2k ≤ 61) (hb1 : 1 ≤ b) (hb : b ≤ 62) (hH0 : 0 ≤ Hc) (hH : Hc + 8 ≤ 2 ^ (bitsOf big128 - 2))
    (hfullD : ∀ i, i < cols → ∀ l ∈ Hal.cnvApplyCol N (sa + sb - (cnvOffsetSplit b off).1) (cnvOffsetSplit b off).1
        ((prepAll N (msbMaskBottomLimb b aK) a).getD i []) ((prepAll N (msbMaskBottomLimb b bK) bb).getD i []), ∀ v ∈ l, |v| ≤ Hc)
    (hfullP : ∀ i j, i < j → j < cols → ∀ l ∈ Hal.cnvApplyCol N (sa + sb - (cnvOffsetSplit b off).1) (cnvOffsetSplit b off).1
        (Hal.colAdd N ((prepAll N (msbMaskBottomLimb b aK) a).getD i []) ((prepAll N (msbMaskBottomLimb b aK) a).getD j []))
        (Hal.colAdd N ((prepAll N (msbMaskBottomLimb b bK) bb).getD i []) ((prepAll N (msbMaskBottomLimb b bK) bb).getD j [])),
        ∀ v ∈ l, |v| ≤ Hc)
    (hskl : skG.length = (cols + 1) * cols / 2 - 1) (hsP : ∀ i, (sP i).length = N) (hσ0 : Ks.ι N (sP 0) = 1)
    (hτ : ∀ i j, i ≤ j → j < cols → 0 < cix cols i j → Ks.ι N (skG.getD (cix cols i j - 1) []) = Ks.ι N (sP i) * Ks.ι N (sP j))
    (hsk : cols - 1 ≤ sk.length) (hskG1 : ∀ k, k < cols - 1 → skG.getD k [] = sk.getD k [])
    (hco : g.colsOut = cols) (hci : g.colsOut + g.colsIn = (cols + 1) * cols / 2) (hci0 : 1 ≤ g.colsIn)
    (hrb1 : 1 ≤ rb) (hrb : rb ≤ 62) (hDm : 0 ≤ Dm)
    (hadm : prodAdmissible (bitsOf big128) g.dsize g.colsIn g.dnum N (3 * (2 ^ g.base2k - 1)) Dm (3 * (2 ^ g.base2k - 1)))
    (hgd : ∀ row ∈ g.cells, ∀ c ∈ row, ∀ l ∈ c, ∀ x ∈ l, |x| ≤ Dm)
    (hd : 1 ≤ g.dsize) (hd2 : g.dsize ≤ 2) (hn : g.n = N) (h0 : shapeOk g.n g.colsOut g.size res0 = true)
    (hM : ∀ j q, (g.toPMat.entry j q).length = N)
    (hS : g.dnum * g.dsize ≤ g.size) (hcov1 : rsT ≤ g.size) (hcov2 : rsT ≤ g.dnum * g.dsize)
    (hEL : ∀ i r, (EL i r).length = N) (hBE : ∀ i r, normInf (EL i r) ≤ BE)
    (hkey : ∀ i, i < g.colsIn → ∀ r, r < g.dnum →
      Gadget.val ((2 : Ks.R N) ^ g.base2k) g.size (Ks.keyPhase N sk g.toPMat i r)
        = 1 * Ks.ι N (skG.getD (cols - 1 + i) []) * ((2 : Ks.R N) ^ g.base2k) ^ (g.size - (r + 1) * g.dsize) + Ks.ι N (EL i r)) :
    ∃ T res, tensorApply false big128 N g.base2k rsT off b a aK bb bK res0T = some T ∧
      relinearize big128 N rb rs T g.base2k g g.size res0 = some res ∧ C02L.GWF N (Ks.mkCt rb N res) ∧
      ∃ (Noise : Poly) (Q1 Q2 Q3 Q4 : Ks.R N), Noise.length = N ∧
        normInf Noise ≤ glweMulNoiseBound N cols (fun i => norm1 (sP i)) (C02L.snorm (min (cols - 1) sk.length) sk) b g.base2k rsT rb rs
          (cnvOffsetSplit b off).2 (sa + sb - (cnvOffsetSplit b off).1)
          (limbBoundWithOffset (sa + sb - (cnvOffsetSplit b off).1) rsT g.base2k b (cnvOffsetSplit b off).2) Hc
          g.colsIn g.dnum g.dsize g.size BE ∧
        (((2 : Ks.R N) ^ b) ^ (sa + sb - (cnvOffsetSplit b off).1 - limbBoundWithOffset (sa + sb - (cnvOffsetSplit b off).1) rsT g.base2k b (cnvOffsetSplit b off).2)
            * (2 : Ks.R N) ^ (b * limbBoundWithOffset (sa + sb - (cnvOffsetSplit b off).1) rsT g.base2k b (cnvOffsetSplit b off).2 + (-(cnvOffsetSplit b off).2).toNat))
          * ((2 : Ks.R N) ^ (g.base2k * g.size) * Ks.ι N (C02L.valP rb N (Core.Ops.phase sk (Ks.mkCt rb N res))))
          = (2 : Ks.R N) ^ (rb * rs) * ((2 : Ks.R N) ^ g.base2k) ^ (g.size - rsT)
              * (((2 : Ks.R N) ^ (g.base2k * rsT) * (2 : Ks.R N) ^ (cnvOffsetSplit b off).2.toNat) * ((2 : Ks.R N) ^ b)
                * ((∑ i ∈ Finset.range cols, Ks.ι N (sP i) * colVal N ((2 : Ks.R N) ^ b) ((prepAll N (msbMaskBottomLimb b aK) a).getD i []))
                  * (∑ j ∈ Finset.range cols, Ks.ι N (sP j) * colVal N ((2 : Ks.R N) ^ b) ((prepAll N (msbMaskBottomLimb b bK) bb).getD j []))))
            + Ks.ι N Noise
            + (2 : Ks.R N) ^ (rb * rs) * ((2 : Ks.R N) ^ g.base2k) ^ (g.size - rsT) *
                (((2 : Ks.R N) ^ b) ^ (sa + sb - (cnvOffsetSplit b off).1 - limbBoundWithOffset (sa + sb - (cnvOffsetSplit b off).1) rsT g.base2k b (cnvOffsetSplit b off).2)
                  * (2 : Ks.R N) ^ (g.base2k * rsT + (b * limbBoundWithOffset (sa + sb - (cnvOffsetSplit b off).1) rsT g.base2k b (cnvOffsetSplit b off).2 + (-(cnvOffsetSplit b off).2).toNat))) * Q1
            - (2 : Ks.R N) ^ (rb * rs) * ((2 : Ks.R N) ^ g.base2k) ^ (g.size - rsT) *
                ((2 : Ks.R N) ^ (g.base2k * rsT) * (2 : Ks.R N) ^ (cnvOffsetSplit b off).2.toNat * ((2 : Ks.R N) ^ b) ^ (sa + sb - (cnvOffsetSplit b off).1)) * Q2
            - (2 : Ks.R N) ^ (rb * rs) *
                (((2 : Ks.R N) ^ b) ^ (sa + sb - (cnvOffsetSplit b off).1 - limbBoundWithOffset (sa + sb - (cnvOffsetSplit b off).1) rsT g.base2k b (cnvOffsetSplit b off).2)
                  * (2 : Ks.R N) ^ (b * limbBoundWithOffset (sa + sb - (cnvOffsetSplit b off).1) rsT g.base2k b (cnvOffsetSplit b off).2 + (-(cnvOffsetSplit b off).2).toNat))
                * ((2 : Ks.R N) ^ g.base2k) ^ g.size * Q3
            + (((2 : Ks.R N) ^ b) ^ (sa + sb - (cnvOffsetSplit b off).1 - limbBoundWithOffset (sa + sb - (cnvOffsetSplit b off).1) rsT g.base2k b (cnvOffsetSplit b off).2)
                  * (2 : Ks.R N) ^ (b * limbBoundWithOffset (sa + sb - (cnvOffsetSplit b off).1) rsT g.base2k b (cnvOffsetSplit b off).2 + (-(cnvOffsetSplit b off).2).toNat))
                * (2 : Ks.R N) ^ (rb * rs + g.base2k * g.size) * Q4 := by
  set hi := (cnvOffsetSplit b off).1 with hhi_def
  set lo := (cnvOffsetSplit b off).2 with hlo_def
  set Sd := limbBoundWithOffset (sa + sb - hi) rsT g.base2k b lo with hSd
  obtain ⟨T, res, hT, hres, hgwf, _, _, En, Q, hE, hQ, hnm, heq⟩ := glwe_mul_decrypts big128 N rsT off b a bb aK bK res0T g rb rs res0 sk skG
    (fun i => Ks.ι N (sP i)) (fun i r => Ks.ι N (EL i r)) Hc Dm sa sb cols hN hcols hcb hc1 ha hbb hsa hsb hhi hr0 hbt1 hbt hb1 hb hH0 hH
    (fun i hic l hl => by
      have hSle : Sd ≤ sa + sb - hi := limbBoundWithOffset_le _ _ _ _ _
      rw [cnvApplyCol_take N Sd (sa + sb - hi) hi _ _ hSle] at hl
      exact hfullD i hic l (List.mem_of_mem_take hl))
    (fun i j hij hjc l hl => by
      have hSle : Sd ≤ sa + sb - hi := limbBoundWithOffset_le _ _ _ _ _
      rw [cnvApplyCol_take N Sd (sa + sb - hi) hi _ _ hSle] at hl
      exact hfullP i j hij hjc l (List.mem_of_mem_take hl))
    hskl hσ0 hτ hsk hskG1 hco hci hrb1 hrb hDm hadm hgd hd hn h0 hM hS hcov1 hcov2 hkey
  obtain ⟨T', hT', hTlen, hTwf, hTdig, errT, Qa, Qb, herrl, herrb, hten⟩ := tensor_noise_bound big128 N g.base2k rsT off b a bb aK bK res0T skG
    sP Hc sa sb cols hN hcols hcb hc1 ha hbb hsa hsb hhi hr0 hbt1 hbt hb1 hb hH0 hH hfullD hfullP hskl hsP hσ0 hτ
  have hTT : T' = T := by rw [hT] at hT'; exact (Option.some.inj hT').symm
  subst hTT
  -- the gadget terms as polynomials
  have hTlen' : T'.length = g.colsOut + g.colsIn := by rw [hTlen, hci]
  have hT0 : 0 < T'.length := by rw [hTlen', hco]; omega
  have hri := relinInput_eq N T' g rsT hbt1 hT0 hTlen' hTwf
  have hcolT : ∀ k, k < T'.length → C02L.ColWF N rsT (T'.getD k []) ∧ ∀ l ∈ T'.getD k [], ∀ v ∈ l, |v| ≤ 3 * (2 ^ g.base2k - 1) := by
    intro k hk
    rw [List.getD_eq_getElem?_getD, List.getElem?_eq_getElem hk]
    exact ⟨hTwf _ (List.getElem_mem hk), hTdig _ (List.getElem_mem hk)⟩
  have hriwf : ∀ c ∈ relinInput N T' g, C02L.ColWF N rsT c := by
    rw [hri]; intro c hc
    obtain ⟨i, hi', rfl⟩ := List.mem_map.mp hc
    exact (hcolT _ (by have := List.mem_range.mp hi'; omega)).1
  have hrib : ∀ c ∈ relinInput N T' g, ∀ l ∈ c, ∀ x ∈ l, |x| ≤ 3 * (2 ^ g.base2k - 1) := by
    rw [hri]; intro c hc
    obtain ⟨i, hi', rfl⟩ := List.mem_map.mp hc
    exact (hcolT _ (by have := List.mem_range.mp hi'; omega)).2
  have hY0 : (0 : Int) ≤ 3 * (2 ^ g.base2k - 1) := by
    have : (1 : Int) ≤ 2 ^ g.base2k := one_le_pow₀ (by norm_num)
    linarith
  have hrilen : (relinInput N T' g).length = g.colsIn := by simp [relinInput]
  have h0' : 0 < (relinInput N T' g).length := by rw [hrilen]; omega
  have hcs : ((relinInput N T' g).getD 0 []).length = rsT := by
    rw [List.getD_eq_getElem?_getD, List.getElem?_eq_getElem h0']; exact (hriwf _ (List.getElem_mem h0')).1
  have hpoly := relinErr_poly N hN sk (relinInput N T' g) g EL rsT hn (by omega) hM hriwf hcs hEL
  have hdrop0 := Ks.ι_dropL_eq_zero N g.base2k sk (mkBuf g.n g.colsIn ((relinInput N T' g).getD 0 []).length (relinInput N T' g)) g.toKey hN
    (by show 0 < g.colsOut; omega) hM hd2
  have hA : ∀ c l, (limbOr0 N ((mkBuf g.n g.colsIn ((relinInput N T' g).getD 0 []).length (relinInput N T' g)).act c) l).length = N := by
    intro c l; rw [hn, hcs]; exact mkBuf_act_limb N g.colsIn rsT _ hriwf c l
  have hgb := Ks.normInf_errL_le_of_bounds N g.base2k (mkBuf g.n g.colsIn ((relinInput N T' g).getD 0 []).length (relinInput N T' g)) g.toKey EL
    (3 * (2 ^ g.base2k - 1)) BE hA
    (fun i l => by rw [hn]; exact mkBuf_act_normInf N g.colsIn _ _ _ hY0 hrib i l) hBE
  have herrLlen := Ks.errL_length N g.base2k (mkBuf g.n g.colsIn ((relinInput N T' g).getD 0 []).length (relinInput N T' g)) g.toKey EL hEL
  -- the total noise polynomial
  refine ⟨T', res, hT, hres, hgwf,
    Hal.polyAdd (Hal.polyAdd (Hal.polyScale (2 ^ (rb * rs) * 2 ^ (g.base2k * (g.size - rsT))) errT)
      (Hal.polyScale (2 ^ (b * (sa + sb - hi - Sd)) * 2 ^ (b * Sd + (-lo).toNat) * 2 ^ (rb * rs))
        (Ks.errL N g.base2k (mkBuf g.n g.colsIn ((relinInput N T' g).getD 0 []).length (relinInput N T' g)) g.toKey EL)))
      (Hal.polyScale (2 ^ (b * (sa + sb - hi - Sd)) * 2 ^ (b * Sd + (-lo).toNat)) En),
    Qa, Qb,
    ∑ i ∈ Finset.range g.colsIn, Gadget.head ((2 : Ks.R N) ^ g.base2k) g.dsize g.dnum ((relinInput N T' g).getD 0 []).length
      (Ks.inLimb N (mkBuf g.n g.colsIn ((relinInput N T' g).getD 0 []).length (relinInput N T' g)) i) (Ks.keyPhase N sk g.toPMat i),
    Ks.ι N Q, ?_, ?_, ?_⟩
  · rw [Hal.polyAdd_length, Hal.polyAdd_length, Hal.polyScale_length, Hal.polyScale_length, Hal.polyScale_length, herrl, herrLlen, hE]; simp
  · unfold glweMulNoiseBound
    refine (normInf_polyAdd_le _ _).trans (add_le_add ((normInf_polyAdd_le _ _).trans (add_le_add ?_ ?_)) ?_)
    · rw [normInf_polyScale, abs_of_nonneg (by positivity)]
      exact mul_le_mul_of_nonneg_left herrb (by positivity)
    · rw [normInf_polyScale, abs_of_nonneg (by positivity)]
      exact mul_le_mul_of_nonneg_left hgb (by positivity)
    · rw [normInf_polyScale, abs_of_nonneg (by positivity)]
      exact mul_le_mul_of_nonneg_left hnm (by positivity)
  · unfold relinErr at heq
    rw [hpoly, hdrop0] at heq
    rw [Ks.ι_add N _ _ (by rw [Hal.polyAdd_length, Hal.polyScale_length, Hal.polyScale_length, Hal.polyScale_length, herrl, herrLlen, hE]; simp),
      Ks.ι_add N _ _ (by rw [Hal.polyScale_length, Hal.polyScale_length, herrl, herrLlen]), ι_polyScale, ι_polyScale, ι_polyScale]
    push_cast
    have e1 : (2 : Ks.R N) ^ (g.base2k * (g.size - rsT)) = ((2 : Ks.R N) ^ g.base2k) ^ (g.size - rsT) := pow_mul _ _ _
    have e2 : (2 : Ks.R N) ^ (b * (sa + sb - hi - Sd)) = ((2 : Ks.R N) ^ b) ^ (sa + sb - hi - Sd) := pow_mul _ _ _
    rw [e1, e2]
    linear_combination (((2 : Ks.R N) ^ b) ^ (sa + sb - hi - Sd) * (2 : Ks.R N) ^ (b * Sd + (-lo).toNat)) * heq
      + ((2 : Ks.R N) ^ (rb * rs) * ((2 : Ks.R N) ^ g.base2k) ^ (g.size - rsT)) * hten

/-- rank 1, one-pair tensor key `exTsk` (`dsize = 2`), key error := the one defined by the key equation (`Ks.keyErrL`), every hypothesis discharged -/
example : ∃ T res, tensorApply false false 1 exTsk.base2k 2 4 4 [[[3], [0]], [[1], [0]]] 8 [[[2], [0]], [[1], [0]]] 8 (zeroCols 1 3 2) = some T ∧
    relinearize false 1 4 3 T exTsk.base2k exTsk exTsk.size (zeroCols 1 2 3) = some res ∧ C02L.GWF 1 (Ks.mkCt 4 1 res) := by
  obtain ⟨T, res, h1, h2, h3, _⟩ := glwe_mul_noise_bound false 1 2 4 4 [[[3], [0]], [[1], [0]]] [[[2], [0]], [[1], [0]]] 8 8 (zeroCols 1 3 2)
    exTsk 4 3 (zeroCols 1 2 3) [[2]] [[2], Hal.negMul [2] [2]] (fun i => if i = 0 then [1] else [2])
    (fun i r => if i = 0 ∧ r = 0 then Ks.keyErrL 1 4 [[2]] exTsk.toKey (fun _ => Hal.negMul [2] [2]) 0 0 else zeroP 1)
    (2 ^ 61) 1 (2 ^ 40) 2 2 2 (by decide) rfl rfl (by decide)
    (by decide) (by decide) (by decide) (by decide) (by decide) (by decide) (by decide) (by decide) (by decide) (by decide) (by decide) (by decide)
    (by decide)
    (by
      intro i j hij hj
      have h01 : i = 0 ∧ j = 1 := by omega
      obtain ⟨rfl, rfl⟩ := h01
      decide)
    (by decide) (by intro i; by_cases h : i = 0 <;> simp [h])
    (by show Ks.ι 1 [1] = 1; unfold Ks.ι; simp [toPoly])
    (by
      intro i j hij hj hpos
      have hcases : (i = 0 ∧ j = 1) ∨ (i = 1 ∧ j = 1) := by
        have hj2 : j < 2 := hj
        have : ¬ (i = 0 ∧ j = 0) := by
          rintro ⟨rfl, rfl⟩; simp [cix, colIdx] at hpos
        omega
      rcases hcases with ⟨rfl, rfl⟩ | ⟨rfl, rfl⟩
      · have e : cix 2 0 1 - 1 = 0 := by decide
        rw [e]
        show Ks.ι 1 [2] = Ks.ι 1 [1] * Ks.ι 1 [2]
        have : Ks.ι 1 [1] = 1 := by unfold Ks.ι; simp [toPoly]
        rw [this, one_mul]
      · have e : cix 2 1 1 - 1 = 1 := by decide
        rw [e]
        show Ks.ι 1 (Hal.negMul [2] [2]) = Ks.ι 1 [2] * Ks.ι 1 [2]
        rw [Ks.ι_negMul 1 _ _ rfl (by decide)])
    (by decide)
    (by intro k hk; have h0 : k = 0 := by omega
        subst h0; rfl)
    rfl (by decide) (by decide) (by decide) (by decide) (by decide) (by decide) (by decide +kernel) (by decide) (by decide) rfl (by decide)
    (Ks.entry_length exTsk.toPMat 1 rfl (by decide +kernel)) (by decide) (by decide) (by decide)
    (by
      intro i r
      by_cases h : i = 0 ∧ r = 0
      · simp only [h, and_self, if_true]
        exact Ks.keyErrL_length 1 4 [[2]] exTsk.toKey _ 0 0 (by decide) (Ks.entry_length exTsk.toPMat 1 rfl (by decide +kernel)) (fun _ => by decide)
      · simp only [h, if_false]; rfl)
    (by
      intro i r
      by_cases h : i = 0 ∧ r = 0
      · simp only [h, and_self, if_true]; decide +kernel
      · simp only [h, if_false]; decide)
    (by
      intro i hi r hr
      have hi0 : i = 0 := by
        have : i < 1 := hi
        omega
      have hr0 : r = 0 := by
        have : r < 1 := hr
        omega
      subst hi0; subst hr0
      simp only [and_self, if_true]
      have := Ks.keyErrL_spec 1 4 [[2]] exTsk.toKey (fun _ => Hal.negMul [2] [2]) 0 0 (by decide)
        (Ks.entry_length exTsk.toPMat 1 rfl (by decide +kernel)) (fun _ => by decide)
      rw [Ks.radix_eq] at this
      rw [one_mul]
      exact this)
  exact ⟨T, res, h1, h2, h3⟩

/-- the closed-form ct × ct bound on the bench-core set (`N = 4096`, `b = 18`, rank 1, `‖s‖₁ ≤ 64`, three limbs, tensor key `dnum = 3`, `dsize = 1`, key
errors `‖EL‖_∞ ≤ 2^8`): at most `2^46` units of the result's last limb (unit `A·2^{bt·S}` of the left-hand side) -/
example : glweMulNoiseBound 4096 2 (fun i => if i = 0 then 1 else 64) 64 18 18 3 18 3 0 5 3 (3 * (4096 * 2 ^ 18 * 2 ^ 18)) 1 3 1 3 (2 ^ 8)
    ≤ 2 ^ 46 * (2 ^ (18 * (5 - 3)) * 2 ^ (18 * 3) * 2 ^ (18 * 3)) := by decide

end C05
