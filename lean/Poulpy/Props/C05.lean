import Poulpy.Model.Core.Mul
import Poulpy.Lemmas.EpPhase
import Poulpy.Props.C07

/-!
# C05 — ciphertext multiplication (tensor, relinearise, plain, constant) scales right

Model: `Model/Core/Mul.lean` (`Core.cnvOffsetSplit`, `Core.msbMaskBottomLimb`, `Core.limbBound*`,
`Core.tensorApply`, `Core.tensorSquare`, `Core.mulPlain`, `Core.mulConst`, `Core.gglweProductDft`,
`Core.relinearize`), executed by `Driver/Mul.lean`, tied bit for bit to the four back ends by
`./check C05`.

Level A (arithmetic of the offsets, all inputs): the split `cnv_offset → (hi, lo)` loses nothing
(`(hi+1)·b + lo = cnv_offset`), `lo` stays within one limb, the bit offset that
`normalize_input_limb_bound_with_offset` derives from `lo` is `cnv_offset mod b`, and the limb bound
keeps every convolution limb whose *position* lies above the output precision.
Level B (exact polynomials): bilinear expansion of the product of two phases into the tensor
columns, the pairwise trick, and the wrapping column arithmetic that makes `square` and `apply`
agree.  What is not proved is listed at the end.
-/

namespace C05
open Hal Core

/-- the split of `cnv_offset` is exact: skipping `hi` limbs of the convolution (which scales by
`2^{(hi+1)·b}` because limb `k` of a product has weight `2^{-(k+2)·b}`) and shifting by `lo` bits
places the product at `2^{cnv_offset}` -/
theorem cnvOffsetSplit_total (b off : Nat) (hb : 0 < b) :
    (((cnvOffsetSplit b off).1 + 1) * b : Int) + (cnvOffsetSplit b off).2 = off := by
  unfold cnvOffsetSplit
  by_cases h : off < b
  · rw [if_pos h]
    simp only [Nat.mod_eq_of_lt h]
    have : ((b - off : Nat) : Int) = (b : Int) - off := by omega
    rw [this]
    omega
  · rw [if_neg h]
    have hq : 1 ≤ off / b := (Nat.le_div_iff_mul_le hb).mpr (by omega)
    have e1 : off / b - 1 + 1 = off / b := by omega
    have e2 := Nat.div_add_mod off b
    simp only
    have : (((off / b - 1 : Nat) : Int) + 1) * (b : Int) = ((off / b * b : Nat) : Int) := by
      have : ((off / b - 1 : Nat) : Int) + 1 = ((off / b : Nat) : Int) := by omega
      rw [this]; simp
    rw [this]
    have e3 : off / b * b = b * (off / b) := Nat.mul_comm _ _
    omega

example : cnvOffsetSplit 12 7 = (0, -5) ∧ cnvOffsetSplit 12 31 = (1, 7) ∧ cnvOffsetSplit 12 24 = (1, 0) := by decide

/-- the bit part stays within one limb: `−b ≤ lo < b`, negative exactly when `cnv_offset < b` -/
theorem cnvOffsetSplit_lo_range (b off : Nat) (hb : 0 < b) :
    -(b : Int) ≤ (cnvOffsetSplit b off).2 ∧ (cnvOffsetSplit b off).2 < b ∧
      ((cnvOffsetSplit b off).2 < 0 ↔ off < b) := by
  unfold cnvOffsetSplit
  by_cases h : off < b
  · rw [if_pos h]
    simp only [Nat.mod_eq_of_lt h]
    omega
  · rw [if_neg h]
    have := Nat.mod_lt off hb
    simp only
    omega

example : -(12 : Int) ≤ (cnvOffsetSplit 12 0).2 ∧ (cnvOffsetSplit 12 0).2 < 12 := by decide

/-- `normalize_input_limb_bound` never exceeds the full product … -/
theorem limbBound_le_full (full rs rb ib ob : Nat) : limbBound full rs rb ib ob ≤ full := by
  unfold limbBound; omega

/-- … and keeps every limb whose position is above the output precision: either all limbs are
kept, or the kept limbs span at least `res_size·res_base2k + offset_bits` bits -/
theorem limbBound_covers (full rs rb ib ob : Nat) (hib : 0 < ib) :
    limbBound full rs rb ib ob = full ∨ rs * rb + ob ≤ limbBound full rs rb ib ob * ib := by
  unfold limbBound
  by_cases h : full ≤ (rs * rb + ob + ib - 1) / ib
  · left; omega
  · right
    have e : min full ((rs * rb + ob + ib - 1) / ib) = (rs * rb + ob + ib - 1) / ib := by omega
    rw [e]
    have h1 := Nat.div_add_mod (rs * rb + ob + ib - 1) ib
    have h2 := Nat.mod_lt (rs * rb + ob + ib - 1) hib
    have h3 : (rs * rb + ob + ib - 1) / ib * ib = ib * ((rs * rb + ob + ib - 1) / ib) := Nat.mul_comm _ _
    omega

example : limbBound 7 3 10 12 5 = 3 ∧ 3 * 10 + 5 ≤ limbBound 7 3 10 12 5 * 12 := by decide

/-- the value of the mask: for a partially used bottom limb (`k mod b = r ≠ 0`, `b ≤ 63`) it is
`−2^{b−r}`, the two's-complement pattern whose low `b − r` bits are clear and all others set; for
`r = 0` it is `−1` (all ones) -/
theorem msb_mask_value (b k : Nat) (hb : b ≤ 63) :
    msbMaskBottomLimb b k = if k % b = 0 then -1 else -(2 ^ (b - k % b) : Int) := by
  unfold msbMaskBottomLimb
  by_cases h : k % b = 0
  · simp [h]
  · simp only [h, if_false]
    have hs : b - k % b ≤ 63 := by omega
    have hpN : 2 ^ (b - k % b) ≤ 2 ^ 63 := Nat.pow_le_pow_right (by decide) hs
    have hp : (2 : Int) ^ (b - k % b) ≤ 2 ^ 63 := by exact_mod_cast hpN
    have hp0 : (0 : Int) < 2 ^ (b - k % b) := Int.pow_pos (by decide)
    unfold w64
    omega

example : msbMaskBottomLimb 12 31 = -32 ∧ Hal.maskCoeff (msbMaskBottomLimb 12 31) 2047 = 2016
    ∧ Hal.maskCoeff (msbMaskBottomLimb 12 31) (-2048) = -2048 ∧ Hal.maskCoeff (msbMaskBottomLimb 12 31) (-1) = -32 := by decide

/-- **tensor phase, bilinear expansion** (layer B): the product of two phases `a₀ + a₁'` and
`b₀ + b₁'` (`x' = s ⋆ x`) is the sum of the four column products — the content of the three tensor
columns `c(1) = a₀b₀`, `c(s) = a₀b₁ + a₁b₀`, `c(s²) = a₁b₁` of rank 1 (higher ranks: the same
expansion applied to each pair). -/
theorem tensor_bilinear (a0 a1 b0 b1 : Poly) (ha : a0.length = a1.length) (hb : b0.length = b1.length) :
    Hal.negMul (polyAdd a0 a1) (polyAdd b0 b1)
      = polyAdd (polyAdd (Hal.negMul a0 b0) (Hal.negMul a0 b1)) (polyAdd (Hal.negMul a1 b0) (Hal.negMul a1 b1)) := by
  rw [negMul_add_left _ _ _ ha, negMul_add_right _ _ _ hb, negMul_add_right _ _ _ hb]

example : Hal.negMul (polyAdd [1, 2] [0, 1]) (polyAdd [3, -1] [2, 2])
    = polyAdd (polyAdd (Hal.negMul [1, 2] [3, -1]) (Hal.negMul [1, 2] [2, 2]))
        (polyAdd (Hal.negMul [0, 1] [3, -1]) (Hal.negMul [0, 1] [2, 2])) := by decide

/-- the secret commutes through a column product on the right: `a ⋆ (s ⋆ b) = s ⋆ (a ⋆ b)` (so the
cross terms of `tensor_bilinear` are `s ⋆ (a₀b₁)` and the last one `s ⋆ (a₁' b₁)`) -/
theorem tensor_secret_right (s a b : Poly) : Hal.negMul a (Hal.negMul s b) = Hal.negMul s (Hal.negMul a b) :=
  negMul_negMul_comm a s b

example : Hal.negMul [1, 2] (Hal.negMul [0, 1] [3, 4]) = Hal.negMul [0, 1] (Hal.negMul [1, 2] [3, 4]) := by decide

/-- **pairwise trick**: `cnv_pairwise_apply_dft` computes `(aᵢ+aⱼ)(bᵢ+bⱼ)`; subtracting the two
diagonal products leaves the cross terms `aᵢbⱼ + aⱼbᵢ` (C07's expansion, restated for the tensor) -/
theorem pairwise_trick (ai aj bi bj : Poly) (ha : ai.length = aj.length) (hb : bi.length = bj.length) :
    Hal.negMul (polyAdd ai aj) (polyAdd bi bj)
      = polyAdd (polyAdd (Hal.negMul ai bi) (Hal.negMul ai bj)) (polyAdd (Hal.negMul aj bi) (Hal.negMul aj bj)) :=
  tensor_bilinear ai aj bi bj ha hb

example : Hal.negMul (polyAdd [1, 0] [0, 1]) (polyAdd [2, 0] [0, 3]) = [-1, 5] := by decide

/-- **square = self-product, column arithmetic**: `glwe_tensor_apply` builds an off-diagonal column
as `(−dᵢ − dⱼ) + p`, `glwe_tensor_square_apply` as `(p − dᵢ) − dⱼ`, limb-wise in wrapping `i64`
arithmetic; the two agree for all values. -/
theorem square_column_arith (di dj p : Int) :
    w64 (w64 (w64 (-di) - dj) + p) = w64 (w64 (p - di) - dj) := by
  unfold w64
  omega

example : w64 (w64 (w64 (-(2 ^ 62)) - 2 ^ 62) + 5) = w64 (w64 (5 - 2 ^ 62) - 2 ^ 62) := by decide

/-- accumulate form, column arithmetic: `apply_add_assign` adds `dᵢ`-terms and the pairwise product
to the previous content one after the other; the total is the previous content plus the column of
`apply`, in wrapping arithmetic -/
theorem accumulate_column_arith (r di dj p : Int) :
    w64 (w64 (w64 (r - di) - dj) + p) = w64 (r + w64 (w64 (w64 (-di) - dj) + p)) := by
  unfold w64
  omega

example : w64 (w64 (w64 (7 - 3) - 4) + 9) = w64 (7 + w64 (w64 (w64 (-3) - 4) + 9)) := by decide

/-
FULL STATEMENTS (not proved; checked by correspondence on every generated case, see docs/C05.md):
* `tensorSquare big n rb rs off b a k res0 = tensorApply false big n rb rs off b a k a k res0`
  (model-level equality; the proved part is `square_column_arith`, the unproved part is the
  book-keeping of the two different loop orders over the `List.set` state);
* `tensorApply true … res0` = column-wise `w64 (res0 + tensorApply false … 0)` (`accumulate_column_arith`
  is the arithmetic core);
* tensor phase for general rank with the secret folded in requires associativity
  `(s ⋆ a) ⋆ b = s ⋆ (a ⋆ b)` of `Hal.negMul` for lists of equal length (needs `mulX^n = −1`);
  `tensor_bilinear` + `tensor_secret_right` give the expansion up to that lemma;
* `maskCoeff (−2^s) x = x − x mod 2^s` for all `i64` x (the AND of `reim_from_znx_masked`); the
  mask's value is `msb_mask_value`, the AND is only exemplified;
* relinearisation: C03's gadget statement applied to `gglweProductDft` (same `Hal.vmpFlat`, so
  `C04.vmp_phase` applies to each pass verbatim).
-/

end C05
