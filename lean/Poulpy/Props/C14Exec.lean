import Poulpy.Lemmas.BlindMachine

/-!
# C14 — the blind rotation with noise, on the EXECUTED ciphertext-level loop

`Core.Blind` (`Model/Core/Blind.lean`) is the call-by-call model of `execute_standard` / `execute_block_binary` /
`execute_block_binary_extended` on `Core.GLWE` values, tied limb for limb with the Rust (`pvh lut blindct` vs `pdriver lut blindct`,
`vlib/c14.py` section G).  The theorems below are about that executed code: `Core.Blind.bbLoop` (the block loop of
`execute_block_binary`) and `Core.Blind.executeBlockBinary`; no contract is left — what is asked is

* of the parameters (`BlindMachine.BrOk`, decidable): same-radix accumulator covered by the gadget (`rs ≤ dnum ≤ S`, `dsize = 1` — the blind
  rotation key always has `dsize = 1`), radix `≤ 60`, head-room of the big accumulator for blocks of at most `L` bits;
* of the key elements (`CmuxMachine.Good`): shape, digit bound and the key relation of C01 (`KeyWellFormed`, produced by
  `C01.blind_rotation_key_encrypt_sk_wellformed` through `CmuxMachine.good_of_wellformed`) with errors bounded by `BE`;
* of the accumulator (`CmuxMachine.WfC`): shape and digits `≤ 2^b − 1` (what every block returns; the initial accumulator is the rotated table);
* of the key: every block one-hot (`fill_binary_block`).

Error measure: `RingNu.nu M N` — the largest centred residue modulo `M = 2^(b·rs+b·S)` of the coefficients of an element of
`ℤ[X]/(X^N+1)`; phases at the common scale `2^(b·S)` (`BlindMachine.phR`).
-/

namespace C14Exec
open Noise Hal Core Core.Blind Ks CmuxMachine BlindMachine TraceJump

/-- `Σ_j a_j·s_j` over all blocks -/
def keyRot {N : Nat} (blocks : List (List (Int × GBit N))) : Int :=
  (blocks.map (fun blk => (blk.map (fun x => if x.2.bit then x.1 else 0)).sum)).sum

/-- number of key bits -/
def nBits {N : Nat} (blocks : List (List (Int × GBit N))) : Nat := (blocks.map List.length).sum

theorem totalRot_eq (p : Par) (L : Nat) (hok : BrOk p L) (hN2 : 2 * p.N < 2 ^ 62) (blocks : List (List (Int × GBit p.N))) :
    (machine p L hok hN2).totalRot blocks = keyRot blocks := by
  unfold BlkMachine.totalRot keyRot
  congr 1
  apply List.map_congr_left
  intro blk _
  unfold BlkMachine.rotOf blkRot
  rw [List.map_map]
  rfl

/-- **`blind_rotation_noise_executed`** — the executed block loop of `execute_block_binary` (every block length `≤ L`, every number of blocks,
one-hot blocks, good key elements, well-formed initial accumulator) RETURNS, its result is again a well-formed accumulator, and
`phase(res) = X^{Σ a_i s_i}·phase(acc₀) + e` with `ν(e) ≤ 2·n_lwe·brB + (#blocks)·brU` — linear in `n_lwe`;
`brB = 2^(b·rs)·(rank+1)·dnum·N·(2^b − 1)·BE`, `brU = (1 + Σ‖s_i‖₁)·normTol` (`0` when nothing is dropped). -/
theorem blind_rotation_noise_executed (p : Par) (L : Nat) (hok : BrOk p L) (hN2 : 2 * p.N < 2 ^ 62)
    (acc0 : List Col) (hacc : WfC p acc0) (blocks : List (List (Int × GBit p.N)))
    (hlen : ∀ blk ∈ blocks, blk.length ≤ L) (hgood : ∀ blk ∈ blocks, ∀ x ∈ blk, Good p x.2 ∧ |x.1| < 2 ^ 62)
    (hkey : ∀ blk ∈ blocks, OneHot (blk.map fun x => x.2.bit)) :
    ∃ res, bbLoop p.big128 p.N p.b p.rs p.S (p.rank + 1) p.dnum acc0 (blocks.map blkKeys) = some res ∧ WfC p res ∧
      RingNu.nu p.modulus p.N (phR p res - rt p.N ^ RingNu.xexp p.N (keyRot blocks) * phR p acc0)
        ≤ 2 * (nBits blocks * brB p) + blocks.length * brU p := by
  have hrun := bbLoop_eq_exec p L hok hN2 blocks acc0 hacc hlen hgood
  obtain ⟨hinv, hν⟩ := (machine p L hok hN2).exec_spec blocks acc0 hacc hlen hgood hkey
  refine ⟨_, hrun, hinv, ?_⟩
  rw [totalRot_eq] at hν
  exact hν

end C14Exec
