import Poulpy.Lemmas.BlindMachine

/-!
# C14 — the blind rotation with noise, on the EXECUTED ciphertext-level loop

`Core.Blind` (`Model/Core/Blind.lean`) is the call-by-call model of `execute_standard` / `execute_block_binary` /
`execute_block_binary_extended` on `Core.GLWE` values, tied limb for limb with the Rust (`pvh lut blindct` vs `pdriver lut blindct`,
`vlib/c14.py` section G).  The theorems below are about that executed code: `Core.Blind.bbLoop` (the block loop of
`execute_block_binary`) and `Core.Blind.executeBlockBinary`; no contract is left — what is asked is

* of the parameters (`BlindMachine.BrOk`, decidable): accumulator and key in one radix `≤ 60`, `rs ≤ S` accumulator limbs, `dnum ≤ S` key rows
  (`rs > dnum` allowed — the crate's bootstrap has `rs = 5`, `dnum = 4`: the un-multiplied tail limbs are part of the error bound), `dsize = 1`
  (the blind rotation key always has `dsize = 1`), head-room of the big accumulator for blocks of at most `L` bits;
* of the key elements (`CmuxMachine.Good`): shape, digit bound and the key relation of C01 (`KeyWellFormed`, produced by
  `C01.blind_rotation_key_encrypt_sk_wellformed` through `CmuxMachine.good_of_wellformed`) with errors bounded by `BE`;
* of the accumulator (`CmuxMachine.WfC`): shape and digits `≤ 2^b − 1` (what every block returns; the initial accumulator is the rotated table);
* of the key: every block one-hot (`fill_binary_block`).

Error measure: `RingNu.nu M N` — the largest centred residue modulo `M = 2^(b·rs+b·S)` of the coefficients of an element of
`ℤ[X]/(X^N+1)`; phases at the common scale `2^(b·S)` (`BlindMachine.phR`).
-/

namespace C14Exec
open Noise Hal Core Core.Blind Ks CmuxMachine BlindMachine TraceJump

/-- `Σ_j a_j·s_j` over all blocks -/
def keyRot {N : Nat} (blocks : List (List (Int × GBit N))) : Int :=
  (blocks.map (fun blk => (blk.map (fun x => if x.2.bit then x.1 else 0)).sum)).sum

/-- number of key bits -/
def nBits {N : Nat} (blocks : List (List (Int × GBit N))) : Nat := (blocks.map List.length).sum

theorem totalRot_eq (p : Par) (L : Nat) (hok : BrOk p L) (hN2 : 2 * p.N < 2 ^ 62) (blocks : List (List (Int × GBit p.N))) :
    (machine p L hok hN2).totalRot blocks = keyRot blocks := by
  unfold BlkMachine.totalRot keyRot
  congr 1
  apply List.map_congr_left
  intro blk _
  unfold BlkMachine.rotOf blkRot
  rw [List.map_map]
  rfl

/-- **`blind_rotation_noise_executed`** — the executed block loop of `execute_block_binary` (every block length `≤ L`, every number of blocks,
one-hot blocks, good key elements, well-formed initial accumulator) RETURNS, its result is again a well-formed accumulator, and
`phase(res) = X^{Σ a_i s_i}·phase(acc₀) + e` with `ν(e) ≤ 2·n_lwe·brB + (#blocks)·brU` — linear in `n_lwe`;
`brB = 2^(b·rs)·(rank+1)·dnum·N·(2^b − 1)·BE + 2^(b·S)·truncBound` (the second term, the accumulator limbs beyond the key rows, is `0` when
`rs ≤ dnum`), `brU = (1 + Σ‖s_i‖₁)·normTol` (`0` when nothing is dropped). -/
theorem blind_rotation_noise_executed (p : Par) (L : Nat) (hok : BrOk p L) (hN2 : 2 * p.N < 2 ^ 62)
    (acc0 : List Col) (hacc : WfC p acc0) (blocks : List (List (Int × GBit p.N)))
    (hlen : ∀ blk ∈ blocks, blk.length ≤ L) (hgood : ∀ blk ∈ blocks, ∀ x ∈ blk, Good p x.2 ∧ |x.1| < 2 ^ 62)
    (hkey : ∀ blk ∈ blocks, OneHot (blk.map fun x => x.2.bit)) :
    ∃ res, bbLoop p.big128 p.N p.b p.rs p.S (p.rank + 1) p.dnum acc0 (blocks.map blkKeys) = some res ∧ WfC p res ∧
      RingNu.nu p.modulus p.N (phR p res - rt p.N ^ RingNu.xexp p.N (keyRot blocks) * phR p acc0)
        ≤ 2 * (nBits blocks * brB p) + blocks.length * brU p := by
  have hrun := bbLoop_eq_exec p L hok hN2 blocks acc0 hacc hlen hgood
  obtain ⟨hinv, hν⟩ := (machine p L hok hN2).exec_spec blocks acc0 hacc hlen hgood hkey
  refine ⟨_, hrun, hinv, ?_⟩
  rw [totalRot_eq] at hν
  exact hν

/-- the phase at one coefficient: `2^(b·S)·val_k(c)` -/
theorem coef_phR (p : Par) (hN : 0 < p.N) (c : List Col) (k : Nat) (hk : k < p.N) :
    (RingNu.coefL p.N (phR p c)).getD k 0 = 2 ^ (p.b * p.S) * Core.valCoeff p.b (Core.Ops.phase p.sk (Ks.mkCt p.b p.N c)) k := by
  unfold phR
  have h2 : (2 : Ks.R p.N) ^ (p.b * p.S) = (((2 : Int) ^ (p.b * p.S) : Int) : Ks.R p.N) := by push_cast; rfl
  rw [h2, RingNu.coefL_scale_ι hN _ _ (C02L.valP_length _ _ _)]
  simp [C02L.valP, List.getD_eq_getElem?_getD, List.getElem?_map, List.getElem?_range hk]

/-- **`blind_rotation_coeff_executed`** — the same read coefficient by coefficient: with `T = X^{Σ a_i s_i}·phase(acc₀)` (the rotated table,
C14's plaintext-level theorems), for every `k`: `2^(b·S)·val_k(res) = T_k + e + 2^(b·rs+b·S)·q`, `|e| ≤ 2·n_lwe·brB + (#blocks)·brU`. -/
theorem blind_rotation_coeff_executed (p : Par) (L : Nat) (hok : BrOk p L) (hN2 : 2 * p.N < 2 ^ 62)
    (acc0 : List Col) (hacc : WfC p acc0) (blocks : List (List (Int × GBit p.N)))
    (hlen : ∀ blk ∈ blocks, blk.length ≤ L) (hgood : ∀ blk ∈ blocks, ∀ x ∈ blk, Good p x.2 ∧ |x.1| < 2 ^ 62)
    (hkey : ∀ blk ∈ blocks, OneHot (blk.map fun x => x.2.bit)) :
    ∃ res, bbLoop p.big128 p.N p.b p.rs p.S (p.rank + 1) p.dnum acc0 (blocks.map blkKeys) = some res ∧ WfC p res ∧
      ∀ k, k < p.N → ∃ e q : Int,
        2 ^ (p.b * p.S) * Core.valCoeff p.b (Core.Ops.phase p.sk (Ks.mkCt p.b p.N res)) k
          = (RingNu.coefL p.N (rt p.N ^ RingNu.xexp p.N (keyRot blocks) * phR p acc0)).getD k 0 + e + (p.modulus : Int) * q ∧
        |e| ≤ 2 * (nBits blocks * brB p) + blocks.length * brU p := by
  obtain ⟨res, h1, h2, h3⟩ := blind_rotation_noise_executed p L hok hN2 acc0 hacc blocks hlen hgood hkey
  refine ⟨res, h1, h2, ?_⟩
  intro k hk
  obtain ⟨e, q, heq, he⟩ := RingNu.coef_of_nu _ _ h3 k
  rw [RingNu.coefL_sub hok.1, coef_phR p hok.1 res k hk] at heq
  exact ⟨e, q, by linarith, he⟩

/-- **`blind_rotation_correct_executed`** — exact decoding: when coefficient `k` of the rotated table is `v·Δ` (`Δ` the step of the table
encoding, at the scale `2^(b·S)`; C14's `blind_plain_eval`: `v = ±f[index]`) and the accumulated error is below half a step, rounding
coefficient `k` of the decrypted result to the grid gives `v` modulo `M/Δ` (`Δ ∣ M`): the blind rotation evaluates the table exactly. -/
theorem blind_rotation_correct_executed (p : Par) (L : Nat) (hok : BrOk p L) (hN2 : 2 * p.N < 2 ^ 62)
    (acc0 : List Col) (hacc : WfC p acc0) (blocks : List (List (Int × GBit p.N)))
    (hlen : ∀ blk ∈ blocks, blk.length ≤ L) (hgood : ∀ blk ∈ blocks, ∀ x ∈ blk, Good p x.2 ∧ |x.1| < 2 ^ 62)
    (hkey : ∀ blk ∈ blocks, OneHot (blk.map fun x => x.2.bit))
    (k : Nat) (hk : k < p.N) (v Δ Q : Int) (hΔ : 0 < Δ) (hQ : (p.modulus : Int) = Δ * Q)
    (hval : (RingNu.coefL p.N (rt p.N ^ RingNu.xexp p.N (keyRot blocks) * phR p acc0)).getD k 0 = v * Δ)
    (hnum : 2 * (2 * (nBits blocks * brB p) + blocks.length * brU p) < Δ) :
    ∃ res, bbLoop p.big128 p.N p.b p.rs p.S (p.rank + 1) p.dnum acc0 (blocks.map blkKeys) = some res ∧
      ∃ q : Int, (2 ^ (p.b * p.S) * Core.valCoeff p.b (Core.Ops.phase p.sk (Ks.mkCt p.b p.N res)) k + Δ / 2) / Δ = v + Q * q := by
  obtain ⟨res, h1, _, h3⟩ := blind_rotation_coeff_executed p L hok hN2 acc0 hacc blocks hlen hgood hkey
  refine ⟨res, h1, ?_⟩
  obtain ⟨e, q, heq, he⟩ := h3 k hk
  refine ⟨q, ?_⟩
  rw [heq, hval, hQ]
  have : v * Δ + e + Δ * Q * q + Δ / 2 = (v + Q * q) * Δ + e + Δ / 2 := by ring
  rw [this]
  exact Noise.round_exact _ _ _ hΔ (by linarith)

/-! ## The whole function: `execute_block_binary` / `blind_rotation_execute` -/

/-- the blocks of the run: `izip!(a.chunks_exact(block), brk.data.chunks_exact(block))` with the key elements carrying their bit and error -/
def blocksG {N : Nat} (block : Nat) (a : List Int) (gs : List (GBit N)) : List (List (Int × GBit N)) :=
  List.zipWith List.zip (Lut.chunksExact block a.length a) (Lut.chunksExact block gs.length gs)

theorem chunksExact_map {α β : Type} (f : α → β) (block : Nat) : ∀ (fuel : Nat) (l : List α),
    Lut.chunksExact block fuel (l.map f) = (Lut.chunksExact block fuel l).map (List.map f) := by
  intro fuel
  induction fuel with
  | zero => intro l; rfl
  | succ n ih =>
    intro l
    unfold Lut.chunksExact
    rw [List.length_map]
    split
    · rfl
    · rw [List.map_cons, ← List.map_take, ← List.map_drop, ih]

theorem zipWith_zip_map {α β γ : Type} (f : β → γ) : ∀ (A : List (List α)) (B : List (List β)),
    List.zipWith List.zip A (B.map (List.map f)) = (List.zipWith List.zip A B).map (List.map (fun x => (x.1, f x.2))) := by
  intro A
  induction A with
  | nil => intro B; simp
  | cons a t ih =>
    intro B
    cases B with
    | nil => simp
    | cons b u =>
      simp only [List.map_cons, List.zipWith_cons_cons, ih]
      congr 1
      rw [List.zip_map_right]
      apply List.map_congr_left
      intro x _; rfl

theorem blocksOf_map {N : Nat} (block : Nat) (a : List Int) (gs : List (GBit N)) :
    blocksOf block a (gs.map (·.g)) = (blocksG block a gs).map blkKeys := by
  unfold blocksOf blocksG
  rw [List.length_map, chunksExact_map, zipWith_zip_map]
  rfl

theorem chunksExact_mem {α : Type} (block : Nat) : ∀ (fuel : Nat) (l : List α), ∀ c ∈ Lut.chunksExact block fuel l,
    c.length = block ∧ ∀ y ∈ c, y ∈ l := by
  intro fuel
  induction fuel with
  | zero => intro l c hc; simp [Lut.chunksExact] at hc
  | succ n ih =>
    intro l c hc
    unfold Lut.chunksExact at hc
    split at hc
    · simp at hc
    · rename_i hcond
      rcases List.mem_cons.mp hc with rfl | h
      · refine ⟨by rw [List.length_take]; omega, fun y hy => List.mem_of_mem_take hy⟩
      · obtain ⟨h1, h2⟩ := ih _ c h
        exact ⟨h1, fun y hy => List.mem_of_mem_drop (h2 y hy)⟩

theorem blocksG_mem {N : Nat} (block : Nat) (a : List Int) (gs : List (GBit N)) (blk : List (Int × GBit N)) (h : blk ∈ blocksG block a gs) :
    blk.length ≤ block ∧ ∀ x ∈ blk, x.1 ∈ a ∧ x.2 ∈ gs := by
  unfold blocksG at h
  obtain ⟨i, hi, rfl⟩ := List.mem_iff_getElem.mp h
  rw [List.length_zipWith] at hi
  rw [List.getElem_zipWith]
  obtain ⟨c1, c2⟩ := chunksExact_mem block a.length a _ (List.getElem_mem (by omega : i < (Lut.chunksExact block a.length a).length))
  obtain ⟨d1, d2⟩ := chunksExact_mem block gs.length gs _ (List.getElem_mem (by omega : i < (Lut.chunksExact block gs.length gs).length))
  refine ⟨by rw [List.length_zip]; omega, ?_⟩
  intro x hx
  have := List.of_mem_zip (a := x.1) (b := x.2) hx
  exact ⟨c2 _ this.1, d2 _ this.2⟩

/-- **`execute_block_binary_noise_executed`** — the theorem about the whole executed function `Core.Blind.executeBlockBinary` (what
`blind_rotation_execute` runs for a `BinaryBlock(block)` key, `block > 1`, `extension_factor = 1`): given the mod-switched ciphertext
`b₀ :: a` (`Lut.modSwitch2n`, C14's `index_error` bounds its inner product with the key), a key of good elements with one-hot blocks and a
table whose rotated copy is a well-formed accumulator, the call RETURNS `res` with
`phase(res) = X^{Σ a_i s_i}·phase(X^{b₀}·LUT) + e`, `ν(e) ≤ 2·n_lwe'·brB + q·brU` (`q` blocks, `n_lwe' = q·block` coefficients used). -/
theorem execute_block_binary_noise_executed (p : Par) (L : Nat) (hok : BrOk p L) (hN2 : 2 * p.N < 2 ^ 62)
    (lwe : Blind.Lwe) (lut : LutIn) (block : Nat) (gs : List (GBit p.N)) (b0 : Int) (a : List Int)
    (hgs : gs ≠ []) (hblk : 0 < block) (hbL : block ≤ L)
    (hms : Lut.modSwitch2n (2 * lut.domain) lwe.base2k lwe.limbs lut.left = .ok (b0 :: a))
    (hg : ∀ x ∈ gs, Good p x) (ha : ∀ ai ∈ a, |ai| < 2 ^ 62)
    (hinit : WfC p (initAcc p.N p.b p.rs p.rank b0 (lut.data.getD 0 [])).cols)
    (hkey : ∀ blk ∈ blocksG block a gs, OneHot (blk.map fun x => x.2.bit)) :
    ∃ res, executeBlockBinary p.big128 p.N p.rs p.rank lwe lut { dist := .binaryBlock block, keys := gs.map (·.g) } = .ok res ∧ WfC p res ∧
      RingNu.nu p.modulus p.N (phR p res - rt p.N ^ RingNu.xexp p.N (keyRot (blocksG block a gs))
          * phR p (initAcc p.N p.b p.rs p.rank b0 (lut.data.getD 0 [])).cols)
        ≤ 2 * (nBits (blocksG block a gs) * brB p) + (blocksG block a gs).length * brU p := by
  obtain ⟨res, h1, h2, h3⟩ := blind_rotation_noise_executed p L hok hN2 _ hinit (blocksG block a gs)
    (fun blk hb => le_trans (blocksG_mem block a gs blk hb).1 hbL)
    (fun blk hb x hx => ⟨hg _ ((blocksG_mem block a gs blk hb).2 x hx).2, ha _ ((blocksG_mem block a gs blk hb).2 x hx).1⟩) hkey
  refine ⟨res, ?_, h2, h3⟩
  cases gs with
  | nil => exact absurd rfl hgs
  | cons g0 rest =>
    obtain ⟨hgn, _, hgb, hgr, hgdn, _, hgS, _⟩ := hg g0 (by simp)
    have hk0 : (Brk.k0 { dist := .binaryBlock block, keys := (g0 :: rest).map (·.g) }) = g0.g := rfl
    unfold executeBlockBinary
    rw [hk0]
    simp only [List.map_cons, List.isEmpty_cons, Bool.false_eq_true, if_false, hgn, hgr, beq_self_eq_true, Ops.check, if_true, hms, Ops.bind,
      Dist.blockSize, hgb, hgS, hgdn]
    rw [if_neg (by omega)]
    have := blocksOf_map block a (g0 :: rest)
    simp only [List.map_cons] at this
    rw [this, h1]
    rfl

/-! ## Circuit bootstrapping: the blind-rotation stage of `CbtContract`, executed -/

/-- **`cbt_gives_ggsw_noise_executed`** — `C15Noise.cbt_gives_ggsw_noise` with the blind rotation EXECUTED (no `BrMachine` contract): for the
executed block loop on good key elements, a trace `T` (additive, not increasing the measure: C03's trace operator; `hrow` is what
`C03.glwe_trace_loop_decrypts_d1` states for the row, `hcell` what `C04.expand_cell_decrypts` states for the cells) the rows and cells of the
bootstrapped GGSW are the traced rotated table up to `Ebr + Bt`, resp. `S1·(Ebr + Bt) + Bx`, `Ebr = 2·n_lwe·brB + q·brU`: a bound in the KEY errors only. -/
theorem cbt_gives_ggsw_noise_executed (p : Par) (L : Nat) (hok : BrOk p L) (hN2 : 2 * p.N < 2 ^ 62)
    (acc0 : List Col) (hacc : WfC p acc0) (blocks : List (List (Int × GBit p.N)))
    (hlen : ∀ blk ∈ blocks, blk.length ≤ L) (hgood : ∀ blk ∈ blocks, ∀ x ∈ blk, Good p x.2 ∧ |x.1| < 2 ^ 62)
    (hkey : ∀ blk ∈ blocks, OneHot (blk.map fun x => x.2.bit))
    (T : Ks.R p.N → Ks.R p.N) (hTadd : ∀ x y, T (x + y) = T x + T y) (hTle : ∀ x, RingNu.nu p.modulus p.N (T x) ≤ RingNu.nu p.modulus p.N x)
    (row cell s : Ks.R p.N) (Bt Bx S1 : Int) (hS1 : 0 ≤ S1) (hs : ∀ x, RingNu.nu p.modulus p.N (s * x) ≤ S1 * RingNu.nu p.modulus p.N x) :
    ∃ res, bbLoop p.big128 p.N p.b p.rs p.S (p.rank + 1) p.dnum acc0 (blocks.map blkKeys) = some res ∧
      (RingNu.nu p.modulus p.N (row - T (phR p res)) ≤ Bt → RingNu.nu p.modulus p.N (cell - s * row) ≤ Bx →
        RingNu.nu p.modulus p.N (row - T (rt p.N ^ RingNu.xexp p.N (keyRot blocks) * phR p acc0))
            ≤ (2 * (nBits blocks * brB p) + blocks.length * brU p) + Bt ∧
        RingNu.nu p.modulus p.N (cell - s * T (rt p.N ^ RingNu.xexp p.N (keyRot blocks) * phR p acc0))
            ≤ S1 * ((2 * (nBits blocks * brB p) + blocks.length * brU p) + Bt) + Bx) := by
  refine ⟨_, bbLoop_eq_exec p L hok hN2 blocks acc0 hacc hlen hgood, ?_⟩
  intro hrow hcell
  have h := (machine p L hok hN2).cbt_row_cell blocks acc0 hacc hlen hgood hkey T hTadd hTle row cell s Bt Bx S1 hS1 hs hrow hcell
  rw [totalRot_eq] at h
  exact h

/-! ## `execute_standard`: the per-step product on the UN-NORMALISED accumulator, in the ring -/

/-- **`std_product_executed`** — the product `glwe_external_product(acc_tmp, out, BRK_i)` of one step of `execute_standard` in ring form, for an
accumulator `out` that is NOT normalised (digits `≤ H`, any `H` with head-room — `execute_standard` sums `n_lwe` products before its single
`glwe_normalize_assign`): it returns a normalised `acc_tmp` (well-formed, digits `≤ 2^b − 1`) and, at the scale `2^(b·rs+b·S)` modulo `2^(2·b·rs+b·S)`,
`ν(phase(acc_tmp) − s_i·phase(out)) ≤ EpCoeff.epErrBound` — `EpCoeff.ep_coeff` read in `ℤ[X]/(X^N+1)` with the measure of the block machine.  (The
composition over the steps is not written: the invariant is indexed by the step, see docs/C14.md.) -/
theorem std_product_executed (p : Par) (H : Int) (hN : 0 < p.N) (hb1 : 1 ≤ p.b) (hb : p.b ≤ 62) (hd1 : 1 ≤ p.dsize) (hd2 : p.dsize ≤ 2)
    (hS : p.dnum * p.dsize ≤ p.S) (hc1 : epConvSize p.rs p.b p.b ≤ p.S) (hc2 : epConvSize p.rs p.b p.b ≤ p.dnum * p.dsize)
    (hsk : p.rank ≤ p.sk.length) (hDm : 0 ≤ p.Dm) (hH0 : 0 ≤ H) (hH : H + 8 ≤ 2 ^ 62)
    (hadm : Core.prodAdmissible (KsDec.bitsOf p.big128) p.dsize (p.rank + 1) p.dnum p.N H p.Dm 0)
    (out : List Col) (hsh : shapeOk p.N (p.rank + 1) p.rs out = true) (hdig : ∀ c ∈ out, ∀ l ∈ c, ∀ y ∈ l, |y| ≤ H)
    (x : GBit p.N) (hx : Good p x) :
    ∃ acc, glweExternalProduct p.big128 p.N p.b p.rs out p.b x.g = .ok acc ∧ C02L.GWF p.N (Ks.mkCt p.b p.N acc) ∧
      (∀ c ∈ acc, ∀ l ∈ c, ∀ y ∈ l, |y| ≤ p.Hin) ∧
      RingNu.nu (2 ^ (p.b * p.rs + p.b * p.rs + p.b * p.S)) p.N
          ((((2 : Int) ^ (p.b * p.rs + p.b * p.S) : Int) : Ks.R p.N) * Ks.ι p.N (C02L.valP p.b p.N (Core.Ops.phase p.sk (Ks.mkCt p.b p.N acc)))
            - (((2 : Int) ^ (p.b * p.rs + p.b * p.S) * (if x.bit then 1 else 0) : Int) : Ks.R p.N)
                * Ks.ι p.N (C02L.valP p.b p.N (Core.Ops.phase p.sk (Ks.mkCt p.b p.N out))))
        ≤ EpCoeff.epErrBound p.N p.b p.rs p.b p.rs x.g p.sk H p.BE := by
  obtain ⟨hgn, hgw, hgb, hgr, hgdn, hgds, hgS, hgd, hEL, hBEL, hM, hkey⟩ := hx
  have h0 : (out.getD 0 []).length = p.rs := BlindExec.wf_of_shapeOk' _ _ _ _ hsh 0 (Nat.succ_pos _)
  obtain ⟨res, hres, hgwf, hdg, hcoef⟩ := EpCoeff.ep_coeff (N := p.N) p.big128 p.b p.rs p.b out x.g p.sk x.bit H H p.Dm p.BE
    (by rw [hgn, hgw, hgr, h0, hsh]; simp) hb1 hb hb1 hb (by rw [hgb]; exact hb1) (by rw [hgb]; exact hb) hH0 hH hdig
    (by rw [hgb]; simp) hDm (by rw [hgds, hgr, hgdn]; exact hadm) hgd p.σ x.EL x.K hEL hBEL (by rw [hgds]; exact hd1) (by rw [hgds]; exact hd2)
    hN hgn hM (by rw [hgdn, hgds, hgS]; exact hS)
    (by intro i hi r hr
        have := hkey i (by rw [← hgr]; exact hi) r (by rw [← hgdn]; exact hr)
        rw [hgb, hgS, hgds, this]; cases x.bit <;> simp)
    (by rw [h0, hgb, hgS]; exact hc1) (by rw [h0, hgb, hgdn, hgds]; exact hc2) (by rw [hgr]; exact hsk)
    (by simp [Par.σ]) (by intro i _; simp [Par.σ])
  rw [h0, hgb, hgS] at hcoef
  refine ⟨res, hres, hgwf, fun c hc l hl y hy => by unfold Par.Hin; exact hdg c hc l hl y hy, ?_⟩
  have hB : 0 ≤ EpCoeff.epErrBound p.N p.b p.rs p.b p.rs x.g p.sk H p.BE := by
    obtain ⟨e, q, _, he⟩ := hcoef 0 hN
    exact le_trans (abs_nonneg e) he
  set VR := C02L.valP p.b p.N (Core.Ops.phase p.sk (Ks.mkCt p.b p.N res)) with hVR
  set VO := C02L.valP p.b p.N (Core.Ops.phase p.sk (Ks.mkCt p.b p.N out)) with hVO
  have hlR : VR.length = p.N := C02L.valP_length _ _ _
  have hlO : VO.length = p.N := C02L.valP_length _ _ _
  have hx : (((2 : Int) ^ (p.b * p.rs + p.b * p.S) : Int) : Ks.R p.N) * Ks.ι p.N VR
        - (((2 : Int) ^ (p.b * p.rs + p.b * p.S) * (if x.bit then 1 else 0) : Int) : Ks.R p.N) * Ks.ι p.N VO
      = Ks.ι p.N (Hal.polyAdd (Hal.polyScale (2 ^ (p.b * p.rs + p.b * p.S)) VR)
          (Hal.polyScale (-((2 : Int) ^ (p.b * p.rs + p.b * p.S) * (if x.bit then 1 else 0))) VO)) := by
    rw [Ks.ι_add p.N _ _ (by simp [Hal.polyScale, hlR, hlO]), Ks.ι_polyScale, Ks.ι_polyScale]
    push_cast; ring
  rw [hx]
  apply RingNu.nu_le_of_coef hN _ _ hB
  intro k hk
  rw [RingNu.coefL_ι hN _ (by simp [Hal.polyAdd, Hal.polyScale, hlR, hlO]),
    RingNu.getD_polyAdd' _ _ (by simp [Hal.polyScale, hlR, hlO]), RingNu.getD_polyScale', RingNu.getD_polyScale']
  obtain ⟨e, q, heq, he⟩ := hcoef k hk
  have hvR : VR.getD k 0 = Core.valCoeff p.b (Core.Ops.phase p.sk (Ks.mkCt p.b p.N res)) k := by
    simp [hVR, C02L.valP, List.getD_eq_getElem?_getD, List.getElem?_map, List.getElem?_range hk]
  have hvO : VO.getD k 0 = Core.valCoeff p.b (Core.Ops.phase p.sk (Ks.mkCt p.b p.N out)) k := by
    simp [hVO, C02L.valP, List.getD_eq_getElem?_getD, List.getElem?_map, List.getElem?_range hk]
  rw [hvR, hvO]
  have : 2 ^ (p.b * p.rs + p.b * p.S) * Core.valCoeff p.b (Core.Ops.phase p.sk (Ks.mkCt p.b p.N res)) k
      + -(2 ^ (p.b * p.rs + p.b * p.S) * (if x.bit then 1 else 0)) * Core.valCoeff p.b (Core.Ops.phase p.sk (Ks.mkCt p.b p.N out)) k
      = e + ((2 ^ (p.b * p.rs + p.b * p.rs + p.b * p.S) : ℕ) : Int) * q := by
    push_cast; linarith
  rw [this, Int.add_mul_bmod_self_left]
  exact le_trans (RingNu.abs_bmod_le _ _) he

/-! ## Non-vacuity -/

/-- the numeric side conditions hold at the parameters of the crate's blind-rotation test (`N = 2048`, radix `19`, rank `1`, two rows, three
key limbs, two accumulator limbs, balanced key digits) for blocks of up to `8` bits on the `i64` accumulator -/
example : BrOk { N := 2048, b := 19, rs := 2, rank := 1, dnum := 2, dsize := 1, S := 3, big128 := false, sk := [[]], Dm := 2 ^ 18, BE := 2 ^ 20 } 8 := by
  decide

/-- … and at the parameters of the blind rotation inside the crate's circuit bootstrapping (`TestContext`: `N = 256`, rank 2, key of 4 rows of radix
`2^12` on 52 bits = 5 limbs, accumulator in the key's layout = 5 limbs > 4 rows, blocks of 7 bits) -/
example : BrOk { N := 256, b := 12, rs := 5, rank := 2, dnum := 4, dsize := 1, S := 5, big128 := false, sk := [[], []], Dm := 2 ^ 11, BE := 2 ^ 20 } 7 := by
  decide

/-- the blind rotation of the crate's circuit bootstrapping with a secret of `‖s_i‖₁ = 256` and key errors `≤ 5120` units of `2^-60` (`20·2^-52`) -/
def testP : Par :=
  { N := 256, b := 12, rs := 5, rank := 2, dnum := 4, dsize := 1, S := 5, big128 := false,
    sk := [List.replicate 256 1, List.replicate 256 1], Dm := 2 ^ 11, BE := 5120 }

/-- **`blind_condition_test_params_executed`** — the explicit bound of `blind_rotation_noise_executed` on those parameters (`n_lwe = 77` in 11 blocks
of 7; units of `2^-120` of the torus): the side conditions hold, nothing is lost by the block normalisation (`brU = 0`), the un-multiplied fifth limb
contributes less than `2^-38`, and the accumulated worst-case error is below `2^-16` — a table encoded at `2^-13` decodes exactly
(`blind_rotation_correct_executed`), as measured (`./check C14`, evidence `blind_noise`: largest measured error `2^-27.6`). -/
theorem blind_condition_test_params_executed :
    BrOk testP 7 ∧ brU testP = 0 ∧
    2 ^ (testP.b * testP.S) * KsDec.truncBound testP.b (min testP.rs testP.dnum) (min testP.rs testP.dnum) testP.sk testP.rank testP.rs testP.Hin < 2 ^ 82 ∧
    2 * (2 * (77 * brB testP) + 11 * brU testP) < 2 ^ 105 := by
  decide +kernel

/-- a toy parameter set on which every hypothesis of the theorems can be exhibited: `N = 1`, rank `0`, one row, one limb, radix `4` -/
def toyP : Par := { N := 1, b := 2, rs := 1, rank := 0, dnum := 1, dsize := 1, S := 1, big128 := false, sk := [], Dm := 1, BE := 0 }

/-- the noiseless GGSW of a bit at the toy parameters -/
noncomputable def toyG (bit : Bool) : GBit toyP.N :=
  { g := { base2k := 2, n := 1, rank := 0, dsize := 1, dnum := 1, size := 1, cells := [[[[if bit then 1 else 0]]]] },
    bit := bit, EL := fun _ _ => [0], K := fun _ _ => 0 }

theorem toy_ι (c : Int) : Ks.ι 1 [c] = (c : Ks.R 1) := by
  simp [Ks.ι, toPoly]

theorem toy_key (bit : Bool) :
    Gadget.val ((2 : Ks.R 1) ^ 2) 1 (Ks.keyPhase 1 [] (toyG bit).g.toPMat 0 0)
      = (if bit then 1 else 0) * 1 * ((2 : Ks.R 1) ^ 2) ^ (1 - (0 + 1) * 1) + (Ks.ι 1 [0] + ((2 : Ks.R 1) ^ 2) ^ 1 * 0) := by
  unfold Gadget.val Ks.keyPhase
  rw [Finset.sum_range_one]
  cases bit
  · have : Ks.phaseRow [] (Ks.rowLimb (toyG false).g.toPMat (0 * (toyG false).g.toPMat.colsIn + 0) 0) = [0] := rfl
    rw [this, toy_ι]; simp
  · have : Ks.phaseRow [] (Ks.rowLimb (toyG true).g.toPMat (0 * (toyG true).g.toPMat.colsIn + 0) 0) = [1] := rfl
    rw [this, toy_ι, toy_ι]; simp

theorem toyG_good (bit : Bool) : Good toyP (toyG bit) := by
  refine ⟨rfl, by cases bit <;> decide, rfl, rfl, rfl, rfl, rfl, ?_, fun _ _ => rfl,
    fun _ _ => by show normInf [0] ≤ (0 : Int); simp [normInf], ?_, ?_⟩
  · intro row hrow c hc l hl y hy
    cases bit <;> simp [toyG] at hrow <;> subst hrow <;> simp at hc <;> subst hc <;> simp at hl <;> subst hl <;> simp at hy <;> subst hy <;>
      simp [toyP]
  · intro j q
    rcases j with _ | j <;> rcases q with _ | q <;> simp [PMat.entry, limbOr0, EpGGSW.toPMat, toyG, zeroP, Nat.mod_one, toyP]
  · intro i hi r hr
    have hi0 : i = 0 := by simp [toyP] at hi; omega
    have hr0 : r = 0 := by simp [toyP] at hr; omega
    subst hi0 hr0
    have hσ : toyP.σ 0 = 1 := by simp [Par.σ]
    rw [hσ]
    exact toy_key bit

theorem toyAcc_wf : WfC toyP [[[3]]] := by
  refine ⟨by decide, ?_⟩
  intro col hc l hl y hy
  simp at hc; subst hc; simp at hl; subst hl; simp at hy; subst hy
  simp [Par.Hin, toyP]

/-- the hypotheses of `blind_rotation_noise_executed` are jointly satisfiable with a non-empty run: two blocks of one bit each -/
example : ∃ res, bbLoop toyP.big128 toyP.N toyP.b toyP.rs toyP.S (toyP.rank + 1) toyP.dnum [[[3]]]
      ([[(1, toyG true)], [(0, toyG false)]].map blkKeys) = some res ∧ WfC toyP res ∧
    RingNu.nu toyP.modulus toyP.N
        (phR toyP res - rt toyP.N ^ RingNu.xexp toyP.N (keyRot [[(1, toyG true)], [(0, toyG false)]]) * phR toyP [[[3]]])
      ≤ 2 * (nBits [[((1 : Int), toyG true)], [(0, toyG false)]] * brB toyP) + ([[((1 : Int), toyG true)], [(0, toyG false)]].length : Int) * brU toyP :=
  blind_rotation_noise_executed toyP 1 (by decide) (by decide) [[[3]]] toyAcc_wf [[(1, toyG true)], [(0, toyG false)]]
    (by intro blk hb; simp at hb; rcases hb with rfl | rfl <;> simp)
    (by intro blk hb x hx; simp at hb; rcases hb with rfl | rfl <;> simp at hx <;> subst hx
        · exact ⟨toyG_good true, by norm_num⟩
        · exact ⟨toyG_good false, by norm_num⟩)
    (by intro blk hb; simp at hb; rcases hb with rfl | rfl
        · exact Or.inr ⟨[], [], by simp [toyG], by simp, by simp⟩
        · exact Or.inl (by simp [toyG]))

/-- `std_product_executed` is not vacuous: the product of the toy accumulator by the toy key element returns -/
example : ∃ acc, glweExternalProduct toyP.big128 toyP.N toyP.b toyP.rs [[[3]]] toyP.b (toyG true).g = .ok acc :=
  let ⟨a, h, _⟩ := std_product_executed toyP 3 (by decide) (by decide) (by decide) (by decide) (by decide) (by decide) (by decide) (by decide)
    (by decide) (by decide) (by decide) (by decide) (by decide) [[[3]]] (by decide)
    (fun c hc l hl y hy => by have := toyAcc_wf.2 c hc l hl y hy; simpa [Par.Hin, toyP] using this) (toyG true) (toyG_good true)
  ⟨a, h⟩

end C14Exec
