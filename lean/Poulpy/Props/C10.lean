import Poulpy.Lemmas.Avx
import Poulpy.Lemmas.AvxIndex
import Poulpy.Lemmas.AvxQ120
import Poulpy.Lemmas.AvxNttLoop
import Poulpy.Lemmas.NttFinal
import Poulpy.Lemmas.AvxCnv
/-
C10 — all back ends give bit-identical results: lane level.

Every AVX2 slice kernel of `poulpy-cpu-avx/src/znx_avx/{normalization,add,sub,neg,mul}.rs` is, for
all 64-bit lane inputs and all radices its callers can pass, the same function as the reference
kernel of `poulpy-cpu-ref/src/reference/znx/`; the main-loop / tail split covers every index once.
Admissible parameters: `1 ≤ base2k ≤ 63` (`normalize_consts_avx` asserts it; the reference shifts by
`64 − base2k`), `lsh < base2k` (asserted by both implementations under `debug_assertions`; callers
pass `res_offset mod base2k`), `lsh < 64` for `extract_digit_addmul` (callers pass
`res_base2k − res_acc_left < res_base2k ≤ 63`), `−63 ≤ k ≤ 63` for the power-of-two kernels.
The SAT-backed steps are the `bv_decide` lemmas of `Lemmas/Avx.lean` (axioms listed by ./check).
-/
namespace C10
open Avx

/-- radix side conditions shared by the step kernels -/
abbrev Radix (b lsh : W) : Prop := 1#64 ≤ b ∧ b ≤ 63#64 ∧ lsh < b

/-! ### digit / carry primitives -/

theorem get_digit_avx_eq (b x : W) (h1 : 1#64 ≤ b) (h2 : b ≤ 63#64) :
    Vec.getDigitAvx x (Vec.mkConsts b) = getDigit b x := digit_eq b x h1 h2
example : Vec.getDigitAvx (-5#64) (Vec.mkConsts 12#64) = -5#64 ∧ getDigit 12#64 4091#64 = -5#64 := by decide

theorem get_carry_avx_eq (b x d : W) (h1 : 1#64 ≤ b) (h2 : b ≤ 63#64) :
    Vec.getCarryAvx x d (Vec.mkConsts b) = getCarry b x d := carry_eq b x d h1 h2
example : Vec.getCarryAvx (-100000#64) 1376#64 (Vec.mkConsts 12#64) = -25#64 := by decide

/-! ### normalisation step kernels: AVX lane = reference element, as functions of `(x, a, carry)` -/

theorem first_step_carry_only_eq (b lsh : W) (h : Radix b lsh) :
    Vec.firstCarryOnly b lsh = Ref.firstCarryOnly b lsh := by
  obtain ⟨h1, h2, h3⟩ := h
  funext x a c
  simp only [Vec.firstCarryOnly, Ref.firstCarryOnly, digitK b lsh _ h1 h2 h3, carryK b lsh _ _ h1 h2 h3]
example : Radix 12#64 3#64 ∧ Vec.firstCarryOnly 12#64 3#64 100000#64 0 0 = (100000#64, 195#64) := by decide

theorem first_step_assign_eq (b lsh : W) (h : Radix b lsh) :
    Vec.firstAssign b lsh = Ref.firstAssign b lsh := by
  obtain ⟨h1, h2, h3⟩ := h
  funext x a c
  simp only [Vec.firstAssign, Ref.firstAssign, digitK b lsh _ h1 h2 h3, carryK b lsh _ _ h1 h2 h3,
    sllIf_eq lsh _ (lsh_lt64 b lsh h2 h3)]
example : Radix 12#64 3#64 ∧ Vec.firstAssign 12#64 3#64 100000#64 0 0 = (1280#64, 195#64) := by decide

theorem first_step_eq (ow : Bool) (b lsh : W) (h : Radix b lsh) :
    Vec.first ow b lsh = Ref.first ow b lsh := by
  obtain ⟨h1, h2, h3⟩ := h
  funext x a c
  simp only [Vec.first, Ref.first, digitK b lsh _ h1 h2 h3, carryK b lsh _ _ h1 h2 h3,
    sllIf_eq lsh _ (lsh_lt64 b lsh h2 h3), add_epi64]
example : Radix 12#64 3#64 ∧ Vec.first false 12#64 3#64 7#64 100000#64 0 = (1287#64, 195#64) := by decide

theorem middle_step_carry_only_eq (b lsh : W) (h : Radix b lsh) :
    Vec.middleCarryOnly b lsh = Ref.middleCarryOnly b lsh := by
  funext x a c
  simp only [Vec.middleCarryOnly, Ref.middleCarryOnly, middleCore_eq b lsh _ _ h.1 h.2.1 h.2.2]
example : Radix 12#64 3#64 ∧ Vec.middleCarryOnly 12#64 3#64 100000#64 0 2047#64 = (100000#64, 196#64) := by decide

theorem middle_step_assign_eq (b lsh : W) (h : Radix b lsh) :
    Vec.middleAssign b lsh = Ref.middleAssign b lsh := by
  funext x a c
  simp only [Vec.middleAssign, Ref.middleAssign, middleCore_eq b lsh _ _ h.1 h.2.1 h.2.2]
example : Radix 12#64 3#64 ∧ Vec.middleAssign 12#64 3#64 100000#64 0 2047#64 = (-769#64, 196#64) := by decide

theorem middle_step_eq (ow : Bool) (b lsh : W) (h : Radix b lsh) :
    Vec.middle ow b lsh = Ref.middle ow b lsh := by
  funext x a c
  simp only [Vec.middle, Ref.middle, middleCore_eq b lsh _ _ h.1 h.2.1 h.2.2, add_epi64]
example : Radix 63#64 62#64 ∧
    Vec.middle true 63#64 62#64 0 0x7FFFFFFFFFFFFFFF#64 0x8000000000000000#64
      = Ref.middle true 63#64 62#64 0 0x7FFFFFFFFFFFFFFF#64 0x8000000000000000#64 := by decide

theorem middle_step_sub_eq (b lsh : W) (h : Radix b lsh) :
    Vec.middleSub b lsh = Ref.middleSub b lsh := by
  funext x a c
  simp only [Vec.middleSub, Ref.middleSub, middleCore_eq b lsh _ _ h.1 h.2.1 h.2.2, sub_epi64]
example : Radix 12#64 0#64 ∧ Vec.middleSub 12#64 0#64 5#64 100000#64 2047#64 = (358#64, 25#64) := by decide

theorem final_step_assign_eq (b lsh : W) (h : Radix b lsh) :
    Vec.finalAssign b lsh = Ref.finalAssign b lsh := by
  funext x a c
  simp only [Vec.finalAssign, Ref.finalAssign, finalCore_eq b lsh _ _ h.1 h.2.1 h.2.2]
example : Radix 12#64 3#64 ∧ Vec.finalAssign 12#64 3#64 100000#64 0 2047#64 = (-769#64, 2047#64) := by decide

theorem final_step_eq (ow : Bool) (b lsh : W) (h : Radix b lsh) :
    Vec.final ow b lsh = Ref.final ow b lsh := by
  funext x a c
  simp only [Vec.final, Ref.final, finalCore_eq b lsh _ _ h.1 h.2.1 h.2.2, add_epi64]
example : Radix 1#64 0#64 ∧ Vec.final false 1#64 0#64 9#64 3#64 1#64 = (9#64, 1#64) := by decide

theorem final_step_sub_eq (b lsh : W) (h : Radix b lsh) :
    Vec.finalSub b lsh = Ref.finalSub b lsh := by
  funext x a c
  simp only [Vec.finalSub, Ref.finalSub, finalCore_eq b lsh _ _ h.1 h.2.1 h.2.2, sub_epi64]
example : Radix 12#64 3#64 ∧ Vec.finalSub 12#64 3#64 1#64 100000#64 2047#64 = (770#64, 2047#64) := by decide

/-- `znx_extract_digit_addmul`: the AVX kernel shifts with `sllv` (0 for counts ≥ 64), the reference
with Rust `<<`; they agree exactly when `lsh < 64`. -/
theorem extract_digit_addmul_eq (b lsh : W) (h1 : 1#64 ≤ b) (h2 : b ≤ 63#64) (hl : lsh < 64#64) :
    Vec.extractDigitAddmul b lsh = Ref.extractDigitAddmul b lsh := by
  funext r a s
  simp only [Vec.extractDigitAddmul, Ref.extractDigitAddmul, digit_eq b _ h1 h2, carry_eq b _ _ h1 h2,
    sllv_eq _ lsh hl, add_epi64]
example : Vec.extractDigitAddmul 5#64 7#64 1#64 0 1000#64 = (1025#64, 31#64) := by decide

/-- outside the callers' range the two differ (documented boundary, not reachable: `lsh < res_base2k`) -/
theorem extract_digit_addmul_lsh64_differs :
    Vec.extractDigitAddmul 5#64 64#64 0 0 1#64 ≠ Ref.extractDigitAddmul 5#64 64#64 0 0 1#64 := by decide

theorem normalize_digit_eq (b : W) (h1 : 1#64 ≤ b) (h2 : b ≤ 63#64) :
    Vec.normalizeDigit b = Ref.normalizeDigit b := by
  funext r a s
  simp only [Vec.normalizeDigit, Ref.normalizeDigit, digit_eq b _ h1 h2, carry_eq b _ _ h1 h2, add_epi64]
example : Vec.normalizeDigit 12#64 100000#64 0 7#64 = (1696#64, 31#64) := by decide

/-! ### wrapping kernels (`add.rs`, `sub.rs`, `neg.rs`): the intrinsic is the wrapping operator -/

theorem add_sub_neg_eq :
    Vec.add = Ref.add ∧ Vec.addAssign = Ref.addAssign ∧ Vec.sub = Ref.sub ∧ Vec.subAssign = Ref.subAssign ∧
    Vec.subNegateAssign = Ref.subNegateAssign ∧ Vec.negate = Ref.negate ∧ Vec.negateAssign = Ref.negateAssign := by
  refine ⟨?_, ?_, ?_, ?_, ?_, ?_, ?_⟩ <;> funext x a c <;>
    simp [Vec.add, Ref.add, Vec.addAssign, Ref.addAssign, Vec.sub, Ref.sub, Vec.subAssign, Ref.subAssign,
      Vec.subNegateAssign, Ref.subNegateAssign, Vec.negate, Ref.negate, Vec.negateAssign, Ref.negateAssign,
      add_epi64, sub_epi64, setzero_si256]
example : Vec.negate 0 0x8000000000000000#64 0 = (0x8000000000000000#64, 0#64) ∧
    Vec.add 0 0x7FFFFFFFFFFFFFFF#64 1#64 = (0x8000000000000000#64, 1#64) := by decide

/-! ### multiplication by `2^k` with rounding (`mul.rs`) -/

abbrev Pow2 (k : W) : Prop := BitVec.sle (-63#64) k = true ∧ BitVec.sle k 63#64 = true

theorem mul_power_of_two_eq (k : W) (h : Pow2 k) :
    Vec.mulPow2 k = Ref.mulPow2 k ∧ Vec.mulPow2Assign k = Ref.mulPow2Assign k ∧ Vec.mulAddPow2 k = Ref.mulAddPow2 k := by
  by_cases h0 : k = 0#64
  · subst h0
    refine ⟨?_, ?_, ?_⟩ <;> funext x a c <;>
      simp [Vec.mulPow2, Ref.mulPow2, Vec.mulPow2Assign, Ref.mulPow2Assign, Vec.mulAddPow2, Ref.mulAddPow2, add_epi64]
  · refine ⟨?_, ?_, ?_⟩ <;> funext x a c <;>
      simp only [Vec.mulPow2, Ref.mulPow2, Vec.mulPow2Assign, Ref.mulPow2Assign, Vec.mulAddPow2, Ref.mulAddPow2,
        mulPow2Val_eq k _ h.1 h.2 h0, add_epi64]
example : Pow2 (-3#64) ∧ Vec.mulPow2 (-3#64) 0 (-12#64) 0 = (-2#64, 0#64) ∧ Vec.mulPow2 (-3#64) 0 12#64 0 = (2#64, 0#64)
    ∧ Vec.mulPow2 63#64 0 3#64 0 = (0x8000000000000000#64, 0#64) := by decide

/-! ### loop structure -/

/-- the `span = n >> 2` four-lane vectors followed by the scalar tail visit every index of `[0, n)`
exactly once, in order — for every `n` (1, 2, 3, 5, 6, 7, … included) -/
theorem loop_partition (n : Nat) : mainIdx n ++ tailIdx n = List.range n := by
  rw [mainIdx_eq, tailIdx_eq, List.range_eq_range', List.range_eq_range']
  have h : 4 * (n / 4) ≤ n := by omega
  have := List.range'_append (s := 0) (m := 4 * (n / 4)) (n := n - 4 * (n / 4)) (step := 1)
  simp only [Nat.zero_add, Nat.one_mul] at this
  rw [this]; congr 1; omega
example : mainIdx 7 = [0, 1, 2, 3] ∧ tailIdx 7 = [4, 5, 6] ∧ mainIdx 3 = [] ∧ tailIdx 3 = [0, 1, 2]
    ∧ tailIdx 8 = [] ∧ mainIdx 1 = [] ∧ tailIdx 1 = [0] := by decide

/-- a slice kernel whose vector lane equals the reference element function is the reference slice
kernel, whatever the length (the tail is processed by the reference kernel itself) -/
theorem runAvx_eq_runRef (fv fr : Lane) (h : fv = fr) (l : List (W × W × W)) : runAvx fv fr l = runRef fr l := by
  subst h
  unfold runAvx runRef
  simp only []
  rw [← List.map_flatMap, Nat.shiftRight_eq_div_pow, Nat.shiftLeft_eq]
  have e : l.length / 2 ^ 2 * 2 ^ 2 = 4 * (l.length / 4) := by omega
  rw [e, chunks_eq l (l.length / 2 ^ 2) (by omega)]
  have e2 : 4 * (l.length / 2 ^ 2) = 4 * (l.length / 4) := by omega
  rw [e2]
  split
  · rw [← List.map_append, List.take_append_drop]
  · have : 4 * (l.length / 4) = l.length := by omega
    rw [this, List.take_length, List.append_nil]
example : runAvx (Vec.middleAssign 12#64 3#64) (Ref.middleAssign 12#64 3#64)
      [(1, 0, 0), (2, 0, 0), (3, 0, 0), (4, 0, 0), (100000, 0, 2047)]
    = [(8, 0), (16, 0), (24, 0), (32, 0), (-769, 196)] := by decide

/-! ### every slice kernel, every length -/

/-- what the callers guarantee, per kernel name -/
def Admissible (op : String) (p : Params) : Prop :=
  (isStep op = true → Radix p.b p.lsh) ∧
  ((op = "extract_digit_addmul") → 1#64 ≤ p.b ∧ p.b ≤ 63#64 ∧ p.lsh < 64#64) ∧
  ((op = "normalize_digit") → 1#64 ≤ p.b ∧ p.b ≤ 63#64) ∧
  (isMul op = true → Pow2 p.k)

theorem lanes_agree (op : String) (p : Params) (h : Admissible op p) (fv fr : Lane)
    (hv : vecLane op p = some fv) (hr : refLane op p = some fr) : fv = fr := by
  obtain ⟨hs, he, hn, hm⟩ := h
  unfold vecLane at hv
  unfold refLane at hr
  split at hv <;> simp only [Option.some.injEq, reduceCtorEq] at hv hr <;> subst hv <;> subst hr
  · exact first_step_carry_only_eq _ _ (hs (by decide))
  · exact first_step_assign_eq _ _ (hs (by decide))
  · exact first_step_eq _ _ _ (hs (by decide))
  · exact middle_step_carry_only_eq _ _ (hs (by decide))
  · exact middle_step_assign_eq _ _ (hs (by decide))
  · exact middle_step_eq _ _ _ (hs (by decide))
  · exact middle_step_sub_eq _ _ (hs (by decide))
  · exact final_step_assign_eq _ _ (hs (by decide))
  · exact final_step_eq _ _ _ (hs (by decide))
  · exact final_step_sub_eq _ _ (hs (by decide))
  · exact extract_digit_addmul_eq _ _ (he rfl).1 (he rfl).2.1 (he rfl).2.2
  · exact normalize_digit_eq _ (hn rfl).1 (hn rfl).2
  · exact add_sub_neg_eq.1
  · exact add_sub_neg_eq.2.1
  · exact add_sub_neg_eq.2.2.1
  · exact add_sub_neg_eq.2.2.2.1
  · exact add_sub_neg_eq.2.2.2.2.1
  · exact add_sub_neg_eq.2.2.2.2.2.1
  · exact add_sub_neg_eq.2.2.2.2.2.2
  · exact (mul_power_of_two_eq _ (hm (by decide))).1
  · exact (mul_power_of_two_eq _ (hm (by decide))).2.1
  · exact (mul_power_of_two_eq _ (hm (by decide))).2.2
example : Admissible "middle" { b := 12, lsh := 3, ow := true } := by
  refine ⟨fun _ => by decide, fun h => by simp at h, fun h => by simp at h, fun h => by simp [isMul] at h⟩

theorem lanes_defined_together (op : String) (p : Params) : (vecLane op p).isSome = (refLane op p).isSome := by
  unfold vecLane refLane
  split <;> rfl

theorem consts_ok (op : String) (p : Params) (h : Admissible op p) :
    (constsCalls op p).all Vec.constsOk = true := by
  obtain ⟨hs, he, hn, _⟩ := h
  have ok : ∀ b : W, 1#64 ≤ b → b ≤ 63#64 → Vec.constsOk b = true := by
    intro b h1 h2; simp [Vec.constsOk, h1, h2]
  unfold constsCalls
  by_cases hf : isFirst op = true
  · obtain ⟨h1, h2, h3⟩ := hs (by simp [isStep, hf])
    simp only [hf, if_true]
    by_cases h0 : p.lsh = 0#64
    · simp [h0, ok p.b h1 h2]
    · simp [h0, ok _ (klsh_ok p.b p.lsh h2 h3 h0).1 (klsh_ok p.b p.lsh h2 h3 h0).2]
  · simp only [hf]
    by_cases hm : isMidFin op = true
    · obtain ⟨h1, h2, h3⟩ := hs (by simp [isStep, hm])
      simp only [hm, if_true]
      by_cases h0 : p.lsh = 0#64
      · simp [h0, ok p.b h1 h2]
      · simp [h0, ok p.b h1 h2, ok _ (klsh_ok p.b p.lsh h2 h3 h0).1 (klsh_ok p.b p.lsh h2 h3 h0).2]
    · simp only [hm]
      by_cases h1 : op = "extract_digit_addmul"
      · simp [h1, ok p.b (he h1).1 (he h1).2.1]
      · by_cases h2 : op = "normalize_digit"
        · simp [h2, ok p.b (hn h2).1 (hn h2).2]
        · simp [h1, h2]

/-- MAIN (lane level): for every kernel name, all parameters the callers can pass, every slice
length and all lane contents, the AVX slice kernel returns exactly what the reference slice kernel
returns (including the entry assertions: neither panics). -/
theorem slices_agree (op : String) (p : Params) (h : Admissible op p) (l : List (W × W × W)) :
    sliceAvx op p l = sliceRef op p l := by
  have hd := lanes_defined_together op p
  unfold sliceAvx sliceRef
  cases hv : vecLane op p with
  | none =>
    cases hr : refLane op p with
    | none => rfl
    | some fr => simp [hv, hr] at hd
  | some fv =>
    cases hr : refLane op p with
    | none => simp [hv, hr] at hd
    | some fr =>
      have e := lanes_agree op p h fv fr hv hr
      have hc := consts_ok op p h
      have hstep : (isStep op && !decide (p.lsh < p.b)) = false := by
        by_cases hs : isStep op = true
        · simp [hs, (h.1 hs).2.2]
        · simp [hs]
      have hmul : (isMul op && !l.isEmpty && (p.k != 0#64) && !(Vec.pow2Ok p.k)) = false := by
        by_cases hm : isMul op = true
        · have : Vec.pow2Ok p.k = true := by
            unfold Vec.pow2Ok; rw [(h.2.2.2 hm).1, (h.2.2.2 hm).2]; rfl
          simp [this]
        · simp [hm]
      simp only [hc, hstep, hmul, Bool.not_true, Bool.and_false, Bool.false_eq_true, if_false]
      rw [runAvx_eq_runRef fv fr e]
example : isOkWith (sliceAvx "middle_assign" { b := 12, lsh := 3 } [(1, 0, 0), (2, 0, 0), (3, 0, 0), (4, 0, 0), (100000, 0, 2047)])
    [(8, 0), (16, 0), (24, 0), (32, 0), (-769, 196)] = true := by decide

/-! ### NTT120 family: `i128` slice arithmetic (`ntt120/vec_znx_big_avx.rs`, `impl I128BigOps for NTT120Avx`) -/

/-- every `vi128_*_avx2` kernel, on one element held as two 64-bit lanes `(lo, hi)`, is the wrapping
`i128` operation of the default (`NTT120Ref`) implementation — all 15 kernels, all inputs -/
theorem i128_big_ops_eq (op : String) : vecLaneBig op = refLaneBig op := by
  unfold vecLaneBig refLaneBig
  split <;> simp only [Option.some.injEq] <;> try rfl
  all_goals
    funext r a b
    simp only [extW, ext4_eq, ext4_fst, ext4_snd, add4_eq, sub4_eq, neg4_eq]
example : (vecLaneBig "i128_sub_small_a").map (fun f => f 0 5#128 (-1#128)) = some 6#128
    ∧ (vecLaneBig "i128_add").map (fun f => f 0 (0xFFFFFFFFFFFFFFFF#128) 1#128) = some (0x10000000000000000#128) := by decide

/-- slice level: `n / 4` chunks through the split-lane kernels + scalar tail = the scalar loop -/
theorem i128_big_slices_agree (op : String) (l : List (W128 × W128 × W128)) : sliceBigAvx op l = sliceBigRef op l := by
  unfold sliceBigAvx sliceBigRef
  rw [i128_big_ops_eq op]
  cases refLaneBig op with
  | none => rfl
  | some f => simp only [runBig, ← List.map_append, List.take_append_drop]
example : isOkWith (sliceBigAvx "i128_negate" [(0, 1, 0), (0, 0, 0), (0, -1, 0), (0, 5, 0), (0, 1 <<< 127, 0)])
    [-1, 0, 1, -5, 1 <<< 127] = true := by decide

/-- `sra_epi64` (the `srai_epi64` emulation: dword shuffle + `srai_epi32` sign mask + logical shift) is
the arithmetic shift for every count 0 … 64 -/
theorem sra_epi64_is_arithmetic_shift (v : W) (imm : BitVec 32) (h : imm ≤ 64#32) :
    Vec128.sra_epi64 v imm = (if imm = 64#32 then v.sshiftRight 63 else v.sshiftRight' (imm.zeroExtend 64)) :=
  sra_epi64_eq v imm h
example : Vec128.sra_epi64 (-8#64) 2#32 = -2#64 ∧ Vec128.sra_epi64 (-8#64) 64#32 = -1#64 ∧ Vec128.sra_epi64 8#64 0#32 = 8#64 := by
  decide

/-! ### FFT64 vs NTT120: the rounding shift of the cross-radix normalisation

Found by this check and repaired in /repo (eb1c1ea): `nfc_mul_pow2_assign` floored (`>>`) where
`znx_mul_power_of_two_assign_ref` rounds, so cross-radix `vec_znx_big_normalize` differed by one unit of
the last limb between the families.  For the repaired code: -/

theorem mul_pow2_fft64_ntt120_agree (k v : W) (h1 : BitVec.sle (-63#64) k = true) (h2 : BitVec.slt k 0#64 = true)
    (hv : BitVec.sle (-(1#64 <<< 62)) v = true ∧ BitVec.slt v (1#64 <<< 62) = true) :
    (Ref.mulPow2Val k v).signExtend 128 = Ref128.mulPow2Assign k (v.signExtend 128) := mulPow2_i64_i128 k v h1 h2 hv
-- the witness on which the unrepaired code differed (floor 0, round 1)
example : Ref128.mulPow2Assign (-1#64) 1#128 = 1#128 ∧ Ref.mulPow2Val (-1#64) 1#64 = 1#64 := by decide
/-- without head-room the `i64` kernel wraps and the families differ: the magnitude-domain clause of the
property is necessary -/
theorem mul_pow2_fft64_ntt120_headroom_needed :
    (Ref.mulPow2Val (-1#64) 0x7FFFFFFFFFFFFFFF#64).signExtend 128
      ≠ Ref128.mulPow2Assign (-1#64) ((0x7FFFFFFFFFFFFFFF#64).signExtend 128) := by decide

/-! ### NTT120 family: `i128 → i64` normalisation kernels (`nfc_*`, `impl I128NormalizeOps for NTT120Avx`) -/

/-- radices of the `i128` normalisation: the AVX2 path is taken for `base2k ≤ 64`; `lsh < base2k` is
asserted by the scalar kernels -/
abbrev Radix128 (b lsh : W) : Prop := 1#64 ≤ b ∧ b ≤ 64#64 ∧ lsh < b

/-- `nfc_middle_chunk` on the two 64-bit halves of an `i128` element and carry = the scalar middle step
(digit, carry, shifted digit + carry, output digit, second carry, carry sum — all in `i128`) -/
theorem nfc_middle_chunk_eq (b lsh : W) (v c : W128) (h : Radix128 b lsh) :
    Vec128.middleCore b lsh v c = Ref128.middleCore b lsh v c := middleChunk_eq b lsh v c h.1 h.2.1 h.2.2
example : Radix128 64#64 63#64 ∧ Vec128.middleCore 12#64 3#64 100000#128 5#128 = (1285#64, 195#128)
    ∧ Vec128.middleCore 64#64 0#64 (1#128 <<< 100) (-1#128) = (-1#64, 68719476736#128) := by decide

/-- `nfc_final_chunk` (low halves only) = the scalar final step -/
theorem nfc_final_chunk_eq (b lsh r : W) (c : W128) (h : Radix128 b lsh) :
    Vec128.finalChunk (Vec128.mkShifts b lsh) r (lo c) = Ref128.finalCore b lsh r c := finalChunk_eq b lsh r c h.1 h.2.1 h.2.2
example : Vec128.finalChunk (Vec128.mkShifts 12#64 3#64) 100000#64 (lo 2047#128) = -769#64 := by decide

/-- all seven `nfc_*` kernels: the AVX lane function is the scalar element function -/
theorem nfc_lanes_eq (op : String) (b lsh : W) (h : Radix128 b lsh) : vecLane128 op b lsh = refLane128 op b lsh := by
  unfold vecLane128 refLane128
  split <;> simp only [Option.some.injEq] <;> try rfl
  all_goals funext x a c
  all_goals try simp only [nfc_middle_chunk_eq b lsh _ _ h, nfc_final_chunk_eq b lsh _ _ h, add_epi64, sub_epi64]
  -- nfc_middle_assign: the operand is the sign-extended `i64` limb
  have := nfc_middle_chunk_eq b lsh (sext x) c h
  simp only [Vec128.middleCore, lo_sext, hi_sext] at this
  exact this
example : (vecLane128 "nfc_middle_sub" 12#64 3#64).map (fun f => f 7#64 100000#128 5#128) = some (-1278#64, 195#128) := by decide

/-- slice level, with the dispatch of `impl I128NormalizeOps for NTT120Avx` (`base2k <= 64 && len >= 4`) -/
theorem nfc_slices_agree (op : String) (b lsh : W) (h : Radix128 b lsh) (l : List (W × W128 × W128)) :
    slice128Avx op b lsh l = slice128Ref op b lsh l := by
  unfold slice128Avx slice128Ref
  rw [nfc_lanes_eq op b lsh h]
  cases refLane128 op b lsh with
  | none => rfl
  | some f =>
    simp only
    split
    · simp only [run128, ← List.map_append, List.take_append_drop]
    · rfl
example : isOkWith (slice128Avx "nfc_middle" 12#64 3#64 [(0, 100000, 5), (0, -5, 0), (0, 1, 1), (0, 2, 2), (0, 3, 3)])
    [(1285, 195), (-40, 0), (9, 0), (18, 0), (27, 0)] = true := by decide

/-! ### index kernels (`automorphism.rs`, `switch_ring.rs`) -/

/-- lane part of `znx_automorphism_avx`: `(v ^ mask) - mask` with `mask = cmpgt(t, n−1)` negates exactly the
lanes whose exponent `t` lies in `[n, 2n)` -/
theorem automorphism_cond_negate (v t m : W) :
    sub_epi64 (xor_si256 v (cmpgt_epi64 t m)) (cmpgt_epi64 t m) = if BitVec.slt m t then -v else v := condNegate_eq v t m
example : isOkWith (automorphismAvx (-5) [0, 0, 0, 0, 0, 0, 0, 0] [1, 2, 3, 4, 5, 6, 7, 8]) [1, 4, 7, -2, -5, -8, 3, 6] = true
    ∧ isOkWith (automorphismRef (-5) [0, 0, 0, 0, 0, 0, 0, 0] [1, 2, 3, 4, 5, 6, 7, 8]) [1, 4, 7, -2, -5, -8, 3, 6] = true
    ∧ isOkWith (switchRingAvx [9, 9, 9, 9] [1, 2, 3, 4, 5, 6, 7, 8]) [1, 3, 5, 7] = true
    ∧ isOkWith (switchRingAvx [9, 9, 9, 9, 9, 9, 9, 9] [1, 2, 3, 4]) [1, 0, 2, 0, 3, 0, 4, 0] = true := by decide

/-! ### `znx_switch_ring_avx`: general degrees -/

/-- for every pair of power-of-two degrees `n_in = 2^ki`, `n_out = 2^ko` (all pairs the entry assertions admit) and
all lane contents, the AVX kernel (copy / `< 4` fallback / `span` gathers `a[(4j+l)·gap]` / zero + strided stores
`res[(i+l)·gap] = a[i+l]`) and the reference kernel (`step_by` zip) both return the ring model's
`znxSwitchRing` (C09, `Model/Ring.lean`); in particular they are equal and neither reads or writes out of range -/
theorem switch_ring_avx_eq_ring_model (res a : List W) (ki ko : Nat) (hr : res.length = 2 ^ ko) (ha : a.length = 2 ^ ki) :
    switchRingAvx res a = .ok (ofI (znxSwitchRing res.length (toI a))) ∧ switchRingAvx res a = switchRingRef res a := by
  obtain ⟨h1, h2⟩ := switchRing_all res a ki ko hr ha
  exact ⟨h2, by rw [h1, h2]⟩
example : isOkWith (switchRingAvx [9, 9, 9, 9] [1, 2, 3, 4, 5, 6, 7, 8, 9, 10, 11, 12, 13, 14, 15, 16]) [1, 5, 9, 13] = true
    ∧ ofI (znxSwitchRing 4 (toI [1, 2, 3, 4, 5, 6, 7, 8, 9, 10, 11, 12, 13, 14, 15, 16])) = [1, 5, 9, 13] := by decide

/-! ### `znx_automorphism_avx`: general degrees -/

/-- for every degree `n = 2^k ≤ 2^61`, every odd `p : i64` (any sign, any size) and all lane contents, the AVX kernel —
`p mod 2n` by masks, `inv_mod_pow2` by Hensel lifting in wrapping `usize` arithmetic, lane offsets
`[0, inv, 2·inv, 3·inv] mod 2n`, `t_base += 4·inv mod 2n`, gather at `t & (n−1)`, sign mask `t > n−1`,
`(v ^ m) − m` — and the reference kernel (scatter with running index) both return the ring model's
`znxAutomorphism p` (C09); every gather index is in range; the previous content of `res` is irrelevant -/
theorem automorphism_avx_eq_ring_model (p : Int) (res a : List W) (k : Nat) (hk : k ≤ 61)
    (hr : res.length = 2 ^ k) (ha : a.length = 2 ^ k) (hp : p % 2 = 1) :
    automorphismAvx p res a = .ok (ofI (znxAutomorphism p (toI a))) ∧ automorphismAvx p res a = automorphismRef p res a := by
  obtain ⟨h1, h2⟩ := automorphism_all p res a k hk hr ha hp
  exact ⟨h2, by rw [h1, h2]⟩
example : ofI (znxAutomorphism (-5) (toI [1, 2, 3, 4, 5, 6, 7, 8])) = [1, 4, 7, -2, -5, -8, 3, 6] := by decide

/-- the modular inverse used by the gather: `inv_mod_pow2(p, bits) · p ≡ 1 (mod 2^bits)` for every odd `p`, `1 ≤ bits ≤ 63` -/
theorem inv_mod_pow2_correct (p : W) (bits : Nat) (h1 : 1 ≤ bits) (hb : bits ≤ 63) (hodd : p &&& 1#64 = 1#64) :
    ((invModPow2 p bits).toNat * p.toNat) % 2 ^ bits = 1 ∧ (invModPow2 p bits).toNat < 2 ^ bits := inv_spec p bits h1 hb hodd
example : invModPow2 11#64 4 = 3#64 ∧ invModPow2 0xFFFFFFFFFFFFFFFB#64 6 = 51#64 := by decide

/-! ### NTT120 AVX integer kernels with a scalar twin (`ntt120/arithmetic_avx.rs`, `mat_vec_avx.rs`, `vec_znx_dft_consume.rs`)

Lanes are `u64` values as `Nat` with explicit `% 2^64` after every `add/sub_epi64` (`Model/AvxQ120.lean`). -/
section Q120
open Avx.Q120

/-- the Primes30 moduli and the derived constants are in the range the reductions need -/
theorem primes30_ranges : ∀ q ∈ Q, 2 ^ 29 < q ∧ q < 2 ^ 30 := by decide

/-- `cond_sub` = one conditional subtraction (lanes below `2^63`, where the signed compare is the unsigned order) -/
theorem cond_sub_eq (x q : Nat) (hx : x < 2 ^ 63) (hq : q < 2 ^ 63) : condSub x q = if q ≤ x then x - q else x :=
  condSub_eq x q hx hq
example : condSub 7 5 = 2 ∧ condSub 3 5 = 3 := by decide

/-- `barrett_reduce(tmp, q, mu) = tmp % q` for every modulus of the Primes30 shape and every `tmp < 2^61` — the
reference code uses `%` -/
theorem barrett_reduce_eq_mod (tmp q mu : Nat) (hq1 : 2 ^ 29 < q) (hq2 : q < 2 ^ 30) (hmu : mu = 2 ^ 61 / q) (ht : tmp < 2 ^ 61) :
    barrett tmp q mu = tmp % q := barrett_eq tmp q mu hq1 hq2 hmu ht
example : barrett (2 ^ 61 - 1) 1073479681 (2 ^ 61 / 1073479681) = (2 ^ 61 - 1) % 1073479681 := by decide

/-- `reduce_b_to_canonical` + `c_from_b_avx2`, one prime lane = `c_from_b_ref` (`r = x % q`, `(r << 32) % q`) for every
q120b lane `x < q·2^33` -/
theorem c_from_b_avx_eq_ref (x q mu pow32 : Nat) (hq1 : 2 ^ 29 < q) (hq2 : q < 2 ^ 30) (hmu : mu = 2 ^ 61 / q)
    (hp : pow32 = 2 ^ 32 % q) (hx : x < q * 2 ^ 33) : cFromBLane x q mu pow32 = cFromBRef x q :=
  cFromB_eq x q mu pow32 hq1 hq2 hmu hp hx
example : cFromBLane (1073479681 * 2 ^ 33 - 1) 1073479681 (2 ^ 61 / 1073479681) (2 ^ 32 % 1073479681)
    = cFromBRef (1073479681 * 2 ^ 33 - 1) 1073479681 := by decide

/-- `b_from_znx64_avx2` lane = `b_from_znx64_ref` element for every `i64` bit pattern, and the lane is congruent to the
signed coefficient modulo `q` -/
theorem b_from_znx64_avx_eq_ref (x oq : Nat) (hx : x < 2 ^ 64) (ho : oq < 2 ^ 64) : bFromZnx64Lane x oq = bFromZnx64Ref x oq :=
  bFromZnx64_eq x oq hx ho
theorem b_from_znx64_represents (x q : Nat) (hx : x < 2 ^ 64) (hq0 : 0 < q) (hq : q < 2 ^ 63) :
    ((bFromZnx64Ref x (q - 2 ^ 63 % q) : Nat) : Int) % q = (sgn x) % q := bFromZnx64_congr x q hx hq0 hq
example : bFromZnx64Lane (2 ^ 64 - 1) (1073479681 - 2 ^ 63 % 1073479681) % 1073479681 = 1073479680 := by decide

/-- q120b × q120c dot product: no 64-bit overflow and AVX = reference = exact integer expression for every
`ell ≤ 10 000` (the documented limit), every split point `15 ≤ h ≤ 32` and reduction constants `< 2^30` -/
theorem mat_vec_bbc_no_overflow (h s2l s2h : Nat) (l : List (Nat × Nat)) (hl : Lanes l) (hlen : l.length ≤ 10000)
    (hh1 : 15 ≤ h) (hh2 : h ≤ 32) (hs1 : s2l < 2 ^ 30) (hs2 : s2h < 2 ^ 30) :
    bbcAvx h s2l s2h l = bbcExact h s2l s2h l ∧ bbcRef h s2l s2h l = bbcExact h s2l s2h l ∧ bbcExact h s2l s2h l < 2 ^ 64 :=
  bbc_no_overflow h s2l s2h l hl hlen hh1 hh2 hs1 hs2
example : bbcAvx 24 5 7 [(2 ^ 64 - 1, 2 ^ 64 - 1), (3, 4)] = bbcRef 24 5 7 [(2 ^ 64 - 1, 2 ^ 64 - 1), (3, 4)] := by decide

/-- `vec_znx_dft_consume`: the in-place `q120b → i128` compaction never overwrites an element it still has to read -/
theorem dft_consume_no_clobber (n k c k' c' : Nat) (hc : c < n) (hc' : c' < n) (later : k < k' ∨ (k = k' ∧ c < c')) :
    2 * n * k + 2 * c + 1 < 4 * n * k' + 4 * c' := consume_no_clobber n k c k' c' hc hc' later
example : 2 * 8 * 1 + 2 * 7 + 1 < 4 * 8 * 2 + 4 * 0 := by decide

end Q120

/-! ## The integer AVX2 kernels of the NTT120 back end (`poulpy-cpu-avx/src/ntt120/{ntt,prim,arithmetic_avx,mat_vec_avx}.rs`)

Every intrinsic sequence is modelled on one `BitVec 64` lane (`Model/AvxNtt.lean`; one `__m256i` = the four prime residues of one
coefficient, lane `k` = prime `k`, so there are no tails) and proved equal to the reference kernel modelled by C07
(`Model/Ntt120.lean`, over `Nat` with explicit `% 2^64`) for all operands in the documented range; where the AVX2 kernel is
only correct on a sub-range (`_mm256_mul_epu32` reads the low 32 bits of its operands, the lazy kernels subtract `Q_SHIFTED`
once) the range is an explicit hypothesis and a `…_differs_outside` theorem exhibits a lane outside it on which the two differ.
The floating-point FFT64 AVX kernels are NOT covered here: they stay differential-only (see docs/C10.md). -/
namespace NttAvx
open Avx.Ntt

/-! ### `ntt.rs`: `split_precompmul_si256`, `modq_red_si256`, the butterflies -/

theorem ntt120_avx_split_precompmul_eq_ref (inp po h mask : W) (h1 : inp.toNat &&& mask.toNat < 2 ^ 32)
    (h2 : inp.toNat >>> h.toNat < 2 ^ 32) :
    (splitPrecompmulSi256 inp po h mask).toNat = Ntt120.splitPrecompmul inp.toNat po.toNat h.toNat mask.toNat :=
  splitPrecompmul_eq inp po h mask h1 h2
example : (splitPrecompmulSi256 0xFFFFFFFFFFFFFFFF#64 0x3FFFFFFF3FFFFFFF#64 32#64 0xFFFFFFFF#64).toNat
    = Ntt120.splitPrecompmul (2 ^ 64 - 1) 0x3FFFFFFF3FFFFFFF 32 0xFFFFFFFF := by decide
theorem ntt120_avx_split_precompmul_differs_outside :
    (splitPrecompmulSi256 (1#64 <<< 32) 1#64 33#64 ((1#64 <<< 33) - 1#64)).toNat
      ≠ Ntt120.splitPrecompmul (2 ^ 32) 1 33 (2 ^ 33 - 1) := splitPrecompmul_differs_outside

theorem ntt120_avx_modq_red_eq_ref (x h mask cst : W) (h1 : x.toNat >>> h.toNat < 2 ^ 32) (h2 : cst.toNat < 2 ^ 32) :
    (modqRedSi256 x h mask cst).toNat = Ntt120.modqRed x.toNat h.toNat mask.toNat cst.toNat := modqRed_eq x h mask cst h1 h2
example : (modqRedSi256 0xFFFFFFFFFFFFFFFF#64 40#64 0xFFFFFFFFFF#64 123456789#64).toNat
    = Ntt120.modqRed (2 ^ 64 - 1) 40 0xFFFFFFFFFF 123456789 := by decide
theorem ntt120_avx_modq_red_differs_outside :
    (modqRedSi256 (1#64 <<< 40) 4#64 15#64 3#64).toNat ≠ Ntt120.modqRed (2 ^ 40) 4 15 3 := modqRed_differs_outside

/-- the four butterfly lanes (`ntt_iter[_red]`, `intt_iter[_red]`, `ntt_iter_first[_red]`) against C07's `bfly`, `fwdTail`,
`invTail` steps; `RedRange` / `SpmRange` are the operand ranges of the two `_mm256_mul_epu32` uses -/
theorem ntt120_avx_butterfly_lanes_eq_ref (r : RedC) (m : StepC) (bs : Nat) (a b po : W) (ha : RedRange r m a) (hb : RedRange r m b) :
    ((bfly0 r m a b).1.toNat, (bfly0 r m a b).2.toNat) = Ntt120.bfly (redOf r) (stepOf m bs) a.toNat b.toNat ∧
    (SpmRange m (Ntt120.bfly (redOf r) (stepOf m bs) a.toNat b.toNat).2 →
      ((fwdBflyI r m a b po).1.toNat, (fwdBflyI r m a b po).2.toNat) =
        ((Ntt120.bfly (redOf r) (stepOf m bs) a.toNat b.toNat).1,
         Ntt120.splitPrecompmul (Ntt120.bfly (redOf r) (stepOf m bs) a.toNat b.toNat).2 po.toNat m.halfBs.toNat m.mask.toNat)) ∧
    (SpmRange m (Ntt120.redIf (redOf r) (stepOf m bs) b.toNat) →
      ((invBflyI r m a b po).1.toNat, (invBflyI r m a b po).2.toNat) =
        (let a' := Ntt120.redIf (redOf r) (stepOf m bs) a.toNat
         let bo := Ntt120.splitPrecompmul (Ntt120.redIf (redOf r) (stepOf m bs) b.toNat) po.toNat m.halfBs.toNat m.mask.toNat
         (Ntt120.wu64 (a' + bo), Ntt120.subU64 (Ntt120.wu64 (a' + m.q2bs.toNat)) bo))) ∧
    (SpmRange m (Ntt120.redIf (redOf r) (stepOf m bs) a.toNat) →
      (iterFirst r m a po).toNat
        = Ntt120.splitPrecompmul (Ntt120.redIf (redOf r) (stepOf m bs) a.toNat) po.toNat m.halfBs.toNat m.mask.toNat) :=
  ⟨bfly0_eq r m bs a b ha hb, fun hd => fwdBflyI_eq r m bs a b po ha hb hd, fun hd => invBflyI_eq r m bs a b po ha hb hd,
   fun hd => iterFirst_eq r m bs a po ha hd⟩

/-- the ranges hold on the real tables: C07's `ReducOK` gives `RedRange` for every 64-bit word, `SpmOK` gives `SpmRange` -/
theorem ntt120_avx_butterfly_ranges (q : Nat) (r : RedC) (m : StepC) (bs D v : Nat) (x : W) :
    (Ntt120.ReducOK q (redOf r) → RedRange r m x) ∧ (Ntt120.SpmOK q (stepOf m bs) D → v ≤ D → SpmRange m v) :=
  ⟨fun ok => redRange_of_ok q r m x ok, fun ok hv => spmRange_of_ok q m bs D v ok hv⟩

/-! ### `prim.rs`: lazy q120b add / sub / negate (seven kernels, one lane function each) -/

/-- for EVERY 64-bit lane the intrinsic sequence (`xor msb`, signed `cmpgt`, `andnot`, `sub`) is C07's arithmetic twin … -/
theorem ntt120_avx_lazy_lanes_all_inputs (q : Nat) (qs a b : W) (hq : qs.toNat = Ntt120.qShifted q) :
    (nttAdd qs a b).toNat = Ntt120.addBbbAvxK q a.toNat b.toNat ∧ (nttSub qs a b).toNat = Ntt120.subBbbAvxK q a.toNat b.toNat ∧
    (nttNegate qs a).toNat = Ntt120.negBAvxK q a.toNat :=
  ⟨nttAdd_toNat q qs a b hq, nttSub_toNat q qs a b hq, nttNegate_toNat q qs a hq⟩
/-- … and on the documented operand range `x < 2·Q_SHIFTED` it is the reference kernel (`% Q_SHIFTED`) -/
theorem ntt120_avx_lazy_lanes_eq_ref (q : Nat) (qs a b : W) (hq : qs.toNat = Ntt120.qShifted q) (hq0 : 0 < q) (hq30 : q < 2 ^ 30)
    (ha : a.toNat < 2 * (q * 2 ^ 33)) (hb : b.toNat < 2 * (q * 2 ^ 33)) :
    (nttAdd qs a b).toNat = Ntt120.addBbbK q a.toNat b.toNat ∧ (nttSub qs a b).toNat = Ntt120.subBbbK q a.toNat b.toNat ∧
    (nttNegate qs a).toNat = Ntt120.negBK q a.toNat :=
  ⟨nttAdd_eq_ref q qs a b hq hq0 hq30 ha hb, nttSub_eq_ref q qs a b hq hq0 hq30 ha hb, nttNegate_eq_ref q qs a hq hq0 hq30 ha⟩
example : (nttAdd (BitVec.ofNat 64 (Ntt120.qShifted 1073479681)) (BitVec.ofNat 64 (2 ^ 64 - 7)) 5#64).toNat
    = Ntt120.addBbbAvxK 1073479681 (2 ^ 64 - 7) 5 := by decide
theorem ntt120_avx_lazy_lane_differs_outside :
    (nttAdd (BitVec.ofNat 64 (Ntt120.qShifted 1073479681)) (BitVec.ofNat 64 (2 ^ 64 - 1)) 0#64).toNat
      ≠ Ntt120.addBbbK 1073479681 (2 ^ 64 - 1) 0 := nttAdd_differs_outside

/-! ### `arithmetic_avx.rs`: Barrett lanes, `c_from_b`, `b_from_znx64`, pack kernels -/

/-- the BitVec lanes are, for EVERY input, the `u64`-as-`Nat` lanes of `Model/AvxQ120.lean` proved in the previous round -/
theorem ntt120_avx_barrett_lanes_bv (x q mu pow32 oq : W) :
    (condSub x q).toNat = Avx.Q120.condSub x.toNat q.toNat ∧ (barrett x q mu).toNat = Avx.Q120.barrett x.toNat q.toNat mu.toNat ∧
    (reduceBToCanonical x q mu pow32).toNat = Avx.Q120.reduceBToCanonical x.toNat q.toNat mu.toNat pow32.toNat ∧
    (bFromZnx64 x oq).toNat = Avx.Q120.bFromZnx64Lane x.toNat oq.toNat :=
  ⟨condSub_toNat x q, barrett_toNat x q mu, reduceB_toNat x q mu pow32, bFromZnx64_toNat x oq⟩

/-- the four Primes30 constant vectors satisfy `ModC` -/
theorem primes30_modC (k : Nat) (hk : k < 4) :
    ModC (BitVec.ofNat 64 (Avx.Q120.Q.getD k 0)) (BitVec.ofNat 64 (Avx.Q120.MU.getD k 0)) (BitVec.ofNat 64 (Avx.Q120.POW32.getD k 0)) := by
  have h : ∀ k, k < 4 → (2 ^ 29 < (BitVec.ofNat 64 (Avx.Q120.Q.getD k 0)).toNat ∧ (BitVec.ofNat 64 (Avx.Q120.Q.getD k 0)).toNat < 2 ^ 30 ∧
      (BitVec.ofNat 64 (Avx.Q120.MU.getD k 0)).toNat = 2 ^ 61 / (BitVec.ofNat 64 (Avx.Q120.Q.getD k 0)).toNat ∧
      (BitVec.ofNat 64 (Avx.Q120.POW32.getD k 0)).toNat = 2 ^ 32 % (BitVec.ofNat 64 (Avx.Q120.Q.getD k 0)).toNat) := by decide
  exact ⟨(h k hk).1, (h k hk).2.1, (h k hk).2.2.1, (h k hk).2.2.2⟩

theorem ntt120_avx_barrett_reduce_eq_mod (tmp q mu pow32 : W) (c : ModC q mu pow32) (ht : tmp.toNat < 2 ^ 61) :
    (barrett tmp q mu).toNat = tmp.toNat % q.toNat := barrett_eq_mod tmp q mu pow32 c ht
theorem ntt120_avx_reduce_b_to_canonical_eq_mod (x q mu pow32 : W) (c : ModC q mu pow32) (hx : x.toNat < q.toNat * 2 ^ 33) :
    (reduceBToCanonical x q mu pow32).toNat = x.toNat % q.toNat := reduceB_eq_mod x q mu pow32 c hx
/-- `c_from_b_avx2`: the stored word, read as the two `u32` of the q120c layout, is `c_from_b_ref`'s pair (`cFromBK`) -/
theorem ntt120_avx_c_from_b_eq_ref (x q mu pow32 : W) (c : ModC q mu pow32) (hx : x.toNat < q.toNat * 2 ^ 33) :
    [(cFromB x q mu pow32).toNat % 2 ^ 32, (cFromB x q mu pow32).toNat / 2 ^ 32] = Ntt120.cFromBK q.toNat x.toNat :=
  cFromB_eq_ref x q mu pow32 c hx
example : [(cFromB (BitVec.ofNat 64 (1073479681 * 2 ^ 33 - 1)) 1073479681#64 (BitVec.ofNat 64 (2 ^ 61 / 1073479681)) (BitVec.ofNat 64 (2 ^ 32 % 1073479681))).toNat % 2 ^ 32,
    (cFromB (BitVec.ofNat 64 (1073479681 * 2 ^ 33 - 1)) 1073479681#64 (BitVec.ofNat 64 (2 ^ 61 / 1073479681)) (BitVec.ofNat 64 (2 ^ 32 % 1073479681))).toNat / 2 ^ 32]
    = Ntt120.cFromBK 1073479681 (1073479681 * 2 ^ 33 - 1) := by decide
/-- `b_from_znx64[_masked]_avx2` = `b_from_znx64_ref` for EVERY `i64` bit pattern -/
theorem ntt120_avx_b_from_znx64_eq_ref (xv oqv : W) (q : Nat) (ho : oqv.toNat = Ntt120.oq q) :
    (bFromZnx64 xv oqv).toNat = Ntt120.bFromU64K q xv.toNat := bFromZnx64_eq_ref xv oqv q ho
example : (bFromZnx64 0x8000000000000000#64 (BitVec.ofNat 64 (Ntt120.oq 1073479681))).toNat = Ntt120.bFromU64K 1073479681 (2 ^ 63) := by decide

theorem ntt120_avx_pack_left_eq_ref (x q mu pow32 : W) (c : ModC q mu pow32) (hx : x.toNat < q.toNat * 2 ^ 33) :
    [(reduceBToCanonical x q mu pow32).toNat % 2 ^ 32, (reduceBToCanonical x q mu pow32).toNat / 2 ^ 32] = [x.toNat % q.toNat, 0] :=
  packLeft_eq_ref x q mu pow32 c hx
theorem ntt120_avx_pairwise_pack_left_eq_ref (a b q mu pow32 : W) (c : ModC q mu pow32)
    (ha : a.toNat < q.toNat * 2 ^ 33) (hb : b.toNat < q.toNat * 2 ^ 33) :
    (pairwisePackLeft a b q mu pow32).toNat
      = if q.toNat ≤ a.toNat % q.toNat + b.toNat % q.toNat then a.toNat % q.toNat + b.toNat % q.toNat - q.toNat
        else a.toNat % q.toNat + b.toNat % q.toNat := pairwisePackLeft_eq_ref a b q mu pow32 c ha hb
/-- `pairwise_pack_right_1blk_x2_avx2` (`_mm256_add_epi32`, 32-bit lanes) = the reference's `u32` addition; `pack_right_1blk_x2_avx2`
is a copy (`loadu`/`storeu`, nothing to prove beyond the index map, which is the reference's) -/
theorem ntt120_avx_pairwise_pack_right_eq_ref (a b : BitVec 32) :
    (add_epi32 a b).toNat = (a.toNat + b.toNat) % 2 ^ 32 ∧
    (a.toNat < 2 ^ 31 → b.toNat < 2 ^ 31 → (add_epi32 a b).toNat = a.toNat + b.toNat) :=
  ⟨add_epi32_toNat a b, add_epi32_exact a b⟩

/-! ### `mat_vec_avx.rs`: the BBC kernels (1 column, x2, 2 columns) and `vec_mat1col_product_bbb_avx2` -/

theorem ntt120_avx_bbc_step_eq_ref (s : W × W) (xv yv : W) :
    ((bbcStep s xv yv).1.toNat, (bbcStep s xv yv).2.toNat)
      = Ntt120.accumMulBcK (s.1.toNat, s.2.toNat) (xv.toNat &&& Ntt120.m32) (xv.toNat >>> 32) (yv.toNat &&& Ntt120.m32) (yv.toNat >>> 32) :=
  bbcStep_eq s xv yv
theorem ntt120_avx_reduce_bbc_eq_ref (sLo sHi maskH h2 s2l s2h : W) (hh : h2.toNat ≤ 32) (hm : maskH.toNat = Ntt120.maskOf h2.toNat)
    (hs : sHi.toNat < 2 ^ (32 + h2.toNat)) (h1 : s2l.toNat < 2 ^ 32) (h2' : s2h.toNat < 2 ^ 32) :
    (reduceBbc sLo sHi maskH h2 s2l s2h).toNat = Ntt120.accumToQ120bK h2.toNat s2l.toNat s2h.toNat (sLo.toNat, sHi.toNat) :=
  reduceBbc_eq sLo sHi maskH h2 s2l s2h hh hm hs h1 h2'
theorem ntt120_avx_reduce_bbc_differs_outside :
    (reduceBbc 0#64 (1#64 <<< 32) ((1#64 <<< 33) - 1#64) 33#64 1#64 1#64).toNat ≠ Ntt120.accumToQ120bK 33 1 1 (0, 2 ^ 32) :=
  reduceBbc_differs_outside
/-- whole kernel, one prime lane, `ell` rows of ARBITRARY 64-bit words -/
theorem ntt120_avx_bbc_kernel_eq_ref (maskH h2 s2l s2h : W) (rows : List (W × W)) (hh : h2.toNat ≤ 32)
    (hm : maskH.toNat = Ntt120.maskOf h2.toNat) (hell : rows.length * 2 ^ 33 < 2 ^ (32 + h2.toNat))
    (h1 : s2l.toNat < 2 ^ 32) (h2' : s2h.toNat < 2 ^ 32) :
    (bbcLane maskH h2 s2l s2h rows).toNat = Ntt120.bbcK h2.toNat s2l.toNat s2h.toNat (rows.map termOf) :=
  bbcLane_eq_ref maskH h2 s2l s2h rows hh hm hell h1 h2'
example : (bbcLane (BitVec.ofNat 64 (2 ^ 25 - 1)) 25#64 5#64 7#64 [(0xFFFFFFFFFFFFFFFF#64, 0xFFFFFFFFFFFFFFFF#64), (3#64, 4#64)]).toNat
    = Ntt120.bbcK 25 5 7 ([(0xFFFFFFFFFFFFFFFF#64, 0xFFFFFFFFFFFFFFFF#64), (3#64, 4#64)].map termOf) := by decide

theorem ntt120_avx_bbb_step_eq_ref (s : W × W × W × W) (xv yv : W) :
    ((bbbStep s xv yv).1.toNat, (bbbStep s xv yv).2.1.toNat, (bbbStep s xv yv).2.2.1.toNat, (bbbStep s xv yv).2.2.2.toNat)
      = Ntt120.bbbAccK (s.1.toNat, s.2.1.toNat, s.2.2.1.toNat, s.2.2.2.toNat) xv.toNat yv.toNat := bbbStep_eq s xv yv
theorem ntt120_avx_bbb_kernel_eq_ref (maskH h2 c1 c2 c3 c4 c5 c6 c7 : W) (rows : List (W × W)) (hh : h2.toNat ≤ 32)
    (hm : maskH.toNat = Ntt120.maskOf h2.toNat) (hell : rows.length * (3 * 2 ^ 32) < 2 ^ (32 + h2.toNat))
    (hc : ∀ x ∈ [c1, c2, c3, c4, c5, c6, c7], x.toNat < 2 ^ 32) :
    (bbbLane maskH h2 c1 c2 c3 c4 c5 c6 c7 rows).toNat
      = Ntt120.bbbK h2.toNat c1.toNat c2.toNat c3.toNat c4.toNat c5.toNat c6.toNat c7.toNat (rows.map (fun p => (p.1.toNat, p.2.toNat))) :=
  bbbLane_eq_ref maskH h2 c1 c2 c3 c4 c5 c6 c7 rows hh hm hell hc
example : (bbbLane (BitVec.ofNat 64 (2 ^ 24 - 1)) 24#64 1#64 2#64 3#64 4#64 5#64 6#64 7#64 [(0xFFFFFFFFFFFFFFFF#64, 0xFFFFFFFFFFFFFFFE#64)]).toNat
    = Ntt120.bbbK 24 1 2 3 4 5 6 7 [(2 ^ 64 - 1, 2 ^ 64 - 2)] := by decide

/-! ### `b_to_znx128_avx2`: the fused reduce-and-CRT lane and the limb accumulation -/

/-- the scalar Barrett of the reference's consume path (`barrett_u61`) is `% q` below `2^61` (not proved in C07) -/
theorem barrett_u61_eq_mod (x q mu : Nat) (hq1 : 2 ^ 29 < q) (hq2 : q < 2 ^ 30) (hmu : mu = 2 ^ 61 / q) (hx : x < 2 ^ 61) :
    Ntt120.barrettU61 x q mu = x % q := barrettU61_eq x q mu hq1 hq2 hmu hx
theorem ntt120_avx_crt_lane_eq_ref (x q mu p32 p16 crt : W) (c : CrtC q mu p32 p16 crt) (hx : x.toNat < q.toNat * 2 ^ 33) :
    (reduceBAndApplyCrt x q mu p32 p16 crt).toNat
      = Ntt120.reduceQ120bCrt x.toNat q.toNat mu.toNat p32.toNat p16.toNat crt.toNat := reduceBAndApplyCrt_eq x q mu p32 p16 crt c hx
/-- the value is the CRT digit `(x mod q)·crt mod q` that `b_to_znx128_ref` computes with `%` -/
theorem ntt120_avx_crt_lane_value (x q mu p32 p16 crt : W) (c : CrtC q mu p32 p16 crt) (hx : x.toNat < q.toNat * 2 ^ 33)
    (e32 : p32.toNat ≡ 2 ^ 32 * crt.toNat [MOD q.toNat]) (e16 : p16.toNat ≡ 2 ^ 16 * crt.toNat [MOD q.toNat]) :
    (reduceBAndApplyCrt x q mu p32 p16 crt).toNat = (x.toNat % q.toNat * crt.toNat) % q.toNat :=
  reduceBAndApplyCrt_value x q mu p32 p16 crt c hx e32 e16
/-- the Primes30 constants (`Q_VEC`, `BARRETT_MU`, `POW32_CRT`, `POW16_CRT`, `CRT_VEC` — as C07's `compactCst` computes them) are in
range and congruent to what their names say -/
theorem ntt120_avx_primes30_crt_constants (k : Nat) (hk : k < 4) :
    CrtC (BitVec.ofNat 64 (Q30 k)) (BitVec.ofNat 64 (Ntt120.compactCst (Q30 k) (CRT30 k)).1) (BitVec.ofNat 64 (Ntt120.compactCst (Q30 k) (CRT30 k)).2.1)
      (BitVec.ofNat 64 (Ntt120.compactCst (Q30 k) (CRT30 k)).2.2) (BitVec.ofNat 64 (CRT30 k)) ∧
    (BitVec.ofNat 64 (Ntt120.compactCst (Q30 k) (CRT30 k)).2.1).toNat ≡ 2 ^ 32 * (BitVec.ofNat 64 (CRT30 k)).toNat [MOD (BitVec.ofNat 64 (Q30 k)).toNat] ∧
    (BitVec.ofNat 64 (Ntt120.compactCst (Q30 k) (CRT30 k)).2.2).toNat ≡ 2 ^ 16 * (BitVec.ofNat 64 (CRT30 k)).toNat [MOD (BitVec.ofNat 64 (Q30 k)).toNat] :=
  ⟨(primes30_crtC k hk).1, (primes30_crtC k hk).2.1, (primes30_crtC k hk).2.2.1⟩
/-- `crt_accumulate_avx2` is the exact `Σ_k t_k·(Q/q_k)` from the three 32-bit limbs: no lane sum, no `u128` addition wraps -/
theorem ntt120_avx_crt_accumulate_exact (t hi mid lo : V4) (r : AccRange t hi mid lo) :
    (crtAccumulate t hi mid lo).toNat
      = t.l0.toNat * (hi.l0.toNat * 2 ^ 64 + mid.l0.toNat * 2 ^ 32 + lo.l0.toNat)
      + t.l1.toNat * (hi.l1.toNat * 2 ^ 64 + mid.l1.toNat * 2 ^ 32 + lo.l1.toNat)
      + t.l2.toNat * (hi.l2.toNat * 2 ^ 64 + mid.l2.toNat * 2 ^ 32 + lo.l2.toNat)
      + t.l3.toNat * (hi.l3.toNat * 2 ^ 64 + mid.l3.toNat * 2 ^ 32 + lo.l3.toNat) := crtAccumulate_eq t hi mid lo r

/-- the table reduction of the scalar tail is exact and never indexes past `TOTAL_Q_MULT[3]` -/
theorem ntt120_avx_crt_tail_exact (Q S : Nat) (hQ1 : 4 * (2 ^ 120 - Q) ≤ Q) (hQ2 : Q < 2 ^ 120) (hS : S < 4 * Q) (v : BitVec 128)
    (hv : v.toNat = S) : crtTail Q v = centre Q (S % Q) ∧ (v >>> 120).toNat ≤ 3 := crtTail_eq Q S hQ1 hQ2 hS v hv
/-- **whole `b_to_znx128_avx2` coefficient = `b_to_znx128_ref`** (Primes30, the set the AVX2 back end is fixed to), for every q120b
word in the documented range -/
theorem ntt120_avx_b_to_znx128_eq_ref (x : V4) (h0 : x.l0.toNat < Q30 0 * 2 ^ 33) (h1 : x.l1.toNat < Q30 1 * 2 ^ 33)
    (h2 : x.l2.toNat < Q30 2 * 2 ^ 33) (h3 : x.l3.toNat < Q30 3 * 2 ^ 33) :
    bToZnx128AvxCoef x qV muV p32V p16V crtV hiV midV loV (Ntt120.bigQ Ntt120.primes30)
      = Ntt120.bToZnx128Core Ntt120.primes30 x.l0.toNat x.l1.toNat x.l2.toNat x.l3.toNat := bToZnx128Avx_eq_ref x h0 h1 h2 h3
example : bToZnx128AvxCoef ⟨BitVec.ofNat 64 (Q30 0 * 2 ^ 33 - 1), 5#64, BitVec.ofNat 64 (Q30 2 * 2 ^ 33 - 1), 0#64⟩ qV muV p32V p16V crtV hiV midV loV
      (Ntt120.bigQ Ntt120.primes30)
    = Ntt120.bToZnx128Core Ntt120.primes30 (Q30 0 * 2 ^ 33 - 1) 5 (Q30 2 * 2 ^ 33 - 1) 0 := by decide +kernel

/-! ### loops: four prime lanes per word, whole arrays, whole transforms -/

/-- the partition lemma: the `__m256i` loop over a q120 array of `4·n` words applies lane function `k = i mod 4` to word `i`;
with a lane theorem `φ (f k x) = g k x` on the operands allowed at lane `k` the whole array equals the reference's element-wise loop -/
theorem ntt120_avx_loop4_partition {α β γ : Type} (f : Nat → α → β) (g : Nat → α → γ) (φ : β → γ) (P : Nat → α → Prop)
    (h : ∀ k x, k < 4 → P k x → φ (f k x) = g k x) (n : Nat) (l : List α) (hl : l.length = 4 * n)
    (hP : ∀ i (hi : i < l.length), P (i % 4) l[i]) :
    loop4 f l = l.mapIdx (fun i x => f (i % 4) x) ∧ (loop4 f l).map φ = l.mapIdx (fun i x => g (i % 4) x) :=
  ⟨loop4_eq_mapIdx f n l hl, loop4_lift f g φ P h n l hl hP⟩

/-- instance: the whole `c_from_b_avx2` array (Primes30), every q120b word in range -/
theorem ntt120_avx_c_from_b_array (n : Nat) (l : List W) (hl : l.length = 4 * n)
    (hP : ∀ i (hi : i < l.length), l[i].toNat < Avx.Q120.Q.getD (i % 4) 0 * 2 ^ 33) :
    (loop4 (fun k x => cFromB x (BitVec.ofNat 64 (Avx.Q120.Q.getD k 0)) (BitVec.ofNat 64 (Avx.Q120.MU.getD k 0)) (BitVec.ofNat 64 (Avx.Q120.POW32.getD k 0))) l).map
        (fun w => [w.toNat % 2 ^ 32, w.toNat / 2 ^ 32])
      = l.mapIdx (fun i x => Ntt120.cFromBK (Avx.Q120.Q.getD (i % 4) 0) x.toNat) := by
  refine loop4_lift
    (fun k x => cFromB x (BitVec.ofNat 64 (Avx.Q120.Q.getD k 0)) (BitVec.ofNat 64 (Avx.Q120.MU.getD k 0)) (BitVec.ofNat 64 (Avx.Q120.POW32.getD k 0)))
    (fun k x => Ntt120.cFromBK (Avx.Q120.Q.getD k 0) x.toNat) (fun w => [w.toNat % 2 ^ 32, w.toNat / 2 ^ 32])
    (fun k x => x.toNat < Avx.Q120.Q.getD k 0 * 2 ^ 33) ?_ n l hl hP
  intro k x hk hx
  have c := primes30_modC k hk
  have hq : (BitVec.ofNat 64 (Avx.Q120.Q.getD k 0)).toNat = Avx.Q120.Q.getD k 0 := by
    have : ∀ k, k < 4 → (BitVec.ofNat 64 (Avx.Q120.Q.getD k 0)).toNat = Avx.Q120.Q.getD k 0 := by decide
    exact this k hk
  have := cFromB_eq_ref x _ _ _ c (by rw [hq]; exact hx)
  rw [hq] at this
  exact this

/-- `ntt_avx2`: the by-level / by-block order computes the reference's depth-first network (pure schedule statement) -/
theorem ntt120_avx_ntt_schedule (r : RedC) (l0 : LevelC) (rest : List LevelC) (k : Nat) (v : List W) :
    nttAvx r (l0 :: rest) k v = nttLevelsBV r rest (List.zipWith (fun x po => splitPrecompmulSi256 x po l0.m.halfBs l0.m.mask) v l0.tw) :=
  nttAvx_schedule r l0 rest k v
theorem ntt120_avx_intt_schedule (r : RedC) (last : LevelC) (revL : List LevelC) (j : Nat) (cs : List (List W)) (hj : j ≤ revL.length)
    (hc : ∀ c ∈ cs, c.length = 2 ^ j) (hlen : cs.flatten.length = 2 ^ revL.length) :
    inttAvx r (revL.reverse ++ [last]) j cs
      = List.zipWith (fun x po => iterFirst r last.m x po) (inttLevelsBV r revL cs.flatten) last.tw :=
  inttAvx_schedule r last revL j cs hj hc hlen

/-- **whole forward transform**: one prime lane of `ntt_avx2` = the lane of `ntt_ref`, bit for bit, for every table satisfying
C07's `FwdTableOK`, every split and EVERY vector of 64-bit words -/
theorem ntt120_avx_ntt_eq_ref {q : Nat} (r : RedC) (lcs : List LevelC) (k : Nat) (t : Ntt120.TableK) (ω : ZMod q)
    (ok : Ntt120.FwdTableOK q t ω) (ht : t.levels = lcs.map LevelC.toLevel) (hrd : t.reduc = redOf r) (v : List W)
    (hv : v.length = 2 ^ (lcs.length - 1)) : tn (nttAvx r lcs k v) = Ntt120.nttK t (tn v) :=
  nttAvx_eq_nttK r lcs k t ω ok ht hrd v hv
/-- **whole inverse transform** -/
theorem ntt120_avx_intt_eq_ref {q : Nat} (r : RedC) (last : LevelC) (revL : List LevelC) (j : Nat) (t : Ntt120.TableK) (ω' ninv : ZMod q)
    (ok : Ntt120.InvTableOK q t ω' ninv) (ht : t.levels = (revL.reverse ++ [last]).map LevelC.toLevel) (hrd : t.reduc = redOf r)
    (cs : List (List W)) (hj : j ≤ revL.length) (hc : ∀ c ∈ cs, c.length = 2 ^ j) (hlen : cs.flatten.length = 2 ^ revL.length) :
    tn (inttAvx r (revL.reverse ++ [last]) j cs) = Ntt120.inttK t (tn cs.flatten) :=
  inttAvx_eq_inttK r last revL j t ω' ninv ok ht hrd cs hj hc hlen

/-- on the real Primes30 tables (`NttTable::<Primes30>::new(2^j)`, `NttTableInv::…`, `1 ≤ j ≤ 16`, the four lanes): the only
remaining hypothesis is that the table entries are `u64` (`fitsTable`, checked on every table the tie uses) -/
theorem ntt120_avx_ntt_primes30 (k j : Nat) (hk : k < 4) (hj1 : 1 ≤ j) (hj : j ≤ 16) (t : Ntt120.TableK)
    (ht : Ntt120.nttTableK Ntt120.primes30 k (2 ^ j) = .ok t) (hf : fitsTable t = true) (split : Nat) (v : List W) (hv : v.length = 2 ^ j) :
    tn (nttAvx (redCOf t.reduc) (t.levels.map levelCOf) split v) = Ntt120.nttK t (tn v) :=
  nttAvx_real _ k j (Ntt120.primes30_nttGood k hk).1 hj1 hj t ht hf split v hv
theorem ntt120_avx_intt_primes30 (k j : Nat) (hk : k < 4) (hj1 : 1 ≤ j) (hj : j ≤ 16) (t : Ntt120.TableK)
    (ht : Ntt120.inttTableK Ntt120.primes30 k (2 ^ j) = .ok t) (hf : fitsTable t = true) (jj : Nat) (hjj : jj ≤ j) (cs : List (List W))
    (hc : ∀ c ∈ cs, c.length = 2 ^ jj) (hlen : cs.flatten.length = 2 ^ j) :
    tn (inttAvx (redCOf t.reduc) (t.levels.map levelCOf) jj cs) = Ntt120.inttK t (tn cs.flatten) :=
  inttAvx_real _ k j (Ntt120.primes30_nttGood k hk).1 (Ntt120.primes30_nttGood k hk).2 hj1 hj t ht hf jj hjj cs hc hlen
/-- non-vacuity: the real table of size 8 exists, fits, and the two sides agree on a worst-case vector -/
example : (match Ntt120.nttTableK Ntt120.primes30 0 8 with
    | .ok t => fitsTable t && decide (tn (nttAvx (redCOf t.reduc) (t.levels.map levelCOf) 1 (List.replicate 8 0xFFFFFFFFFFFFFFFF#64))
        = Ntt120.nttK t (List.replicate 8 (2 ^ 64 - 1)))
    | _ => false) = true := by decide +kernel
example : (match Ntt120.inttTableK Ntt120.primes30 3 8 with
    | .ok t => fitsTable t && decide (tn (inttAvx (redCOf t.reduc) (t.levels.map levelCOf) 2 (List.replicate 2 (List.replicate 4 0xFFFFFFFFFFFFFFFF#64)))
        = Ntt120.inttK t (List.replicate 8 (2 ^ 64 - 1)))
    | _ => false) = true := by decide +kernel

end NttAvx

/-! ## FFT64Avx: the `i64` by-constant convolution (`poulpy-cpu-avx/src/fft64/convolution.rs`, after repair 34)

The kernels `i64_convolution_by_const_1coeff_avx` / `i64_convolution_by_real_const_2coeffs_avx` multiplied with `_mm256_mul_epi32`
(sign-extended LOW 32 bits of each operand); the HAL entry point `cnv_by_const_apply` states no such restriction and FFT64Ref is
exact in wrapping `i64`.  Repair 34 replaces the product by `mul_i64_wrapping_avx2`; the old product is kept as `mulEpi32Old`. -/
namespace CnvAvx
open Avx.Cnv

/-- **`mul_i64_wrapping_avx2` is `i64::wrapping_mul`** on every pair of 64-bit lanes:
`a_lo·b_lo + ((a_lo·b_hi + a_hi·b_lo) << 32)` from three `_mm256_mul_epu32` -/
theorem mul64_lanes_eq_wrapping_mul (a b : W) : mulI64WrappingAvx2 a b = a * b := mul64_eq a b
example : mulI64WrappingAvx2 3000000000#64 3#64 = 9000000000#64 ∧ mulI64WrappingAvx2 (-3000000000#64) (-0x7FFFFFFFFFFFFFFF#64) = -3000000000#64 * -0x7FFFFFFFFFFFFFFF#64 := by decide

/-- the two-coefficient kernel (zero / `k0`-only / three-region schedule, one broadcast of `b[j]` feeding two accumulators)
computes what two calls of the one-coefficient kernel compute -/
theorem fft64avx_cnv_by_const_2coeffs_schedule (mul : W → W → W) (k : Nat) (a : List W) (aSize : Nat) (b : List W) (ha : 1 ≤ aSize) :
    coeff2Avx mul k a aSize b = coeff1 mul k a aSize b ++ coeff1 mul (k + 1) a aSize b := coeff2Avx_eq mul k a aSize b ha

/-- **whole kernel, all inputs**: `I64Ops::i64_convolution_by_const` of FFT64Avx = FFT64Ref for every row count, offset, block
of `a_size ≥ 1` rows (asserted by the caller), constant vector and every `i64` value — no `i32` restriction left -/
theorem fft64avx_cnv_by_const_eq_ref_all_inputs (dstSize offset : Nat) (a : List W) (aSize : Nat) (b : List W) (ha : 1 ≤ aSize) :
    byConstAvx dstSize offset a aSize b = byConstRef dstSize offset a aSize b := byConstAvx_eq_ref dstSize offset a aSize b ha
example : byConstAvx 3 1 ((List.range 16).map (fun i => BitVec.ofNat 64 (3000000000 + i))) 2 [3#64, -5#64, 0x7FFFFFFFFFFFFFFF#64]
    = byConstRef 3 1 ((List.range 16).map (fun i => BitVec.ofNat 64 (3000000000 + i))) 2 [3#64, -5#64, 0x7FFFFFFFFFFFFFFF#64] := by decide

/-- what the repair bought: the kernels before it agree with the reference lane only on sign extensions of 32-bit values, and
differ on the witness `3000000000 · 3` -/
theorem fft64avx_cnv_by_const_old_lane (a b : W) (ha : (a.truncate 32).signExtend 64 = a) (hb : (b.truncate 32).signExtend 64 = b) :
    mulEpi32Old a b = a * b := mulEpi32Old_eq a b ha hb
theorem fft64avx_cnv_by_const_old_counterexample :
    byConstAvxOld 1 0 [3000000000#64, 1#64, -3000000000#64, 5#64, 6#64, 7#64, 8#64, 9#64] 1 [3#64]
      ≠ byConstRef 1 0 [3000000000#64, 1#64, -3000000000#64, 5#64, 6#64, 7#64, 8#64, 9#64] 1 [3#64] := byConstAvxOld_differs

end CnvAvx

end C10
