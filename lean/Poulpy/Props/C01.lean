/-
C01 — encrypt-then-decrypt returns the message up to the configured bounded error.

All theorems are about the definitions the driver executes (`Model/Core/Enc.lean`,
`Model/Sampling.lean`, `Model/VecNorm.lean`, `Model/HalSpec.lean`).  `bits` = width of the back
end's big accumulator (64: FFT64, 128: NTT120).  Values: `Core.valCoeff b c t` is the integer value
of coefficient `t` of the limb column `c` at radix `2^b` (last limb weight 1), so two columns of
`size` limbs represent the same torus element iff their values agree modulo `2^(b·size)`;
`NormL.TorusNear X px Y py` means `|X/2^px − Y/2^py| ≤ 2^-px` on R/Z (one unit of the last limb of
`X`), `NormL.TorusEq` equality on R/Z.  Head-room: `NormL.HeadRoom bits b 0 H` (C08).

/- FULL STATEMENT (not proved as one theorem):
   (1) message position for a plaintext whose radix differs from the ciphertext's: the routines add the
       plaintext limbs as they are; since the repair they assert equal radices (as `glwe_encrypt_pk`
       always did), so such a call is a panic (`encrypt_sk_radix_mismatch_panics`) and
       `glwe_encrypt_sk_phase` carries the hypothesis `ptB = b`.  Decryption converts radices.
   (2) public-key encryption: proved for a public key with the ciphertext's number of limbs
       (`glwe_encrypt_pk_phase`, `glwe_encrypt_pk_error`); for `size_pk ≠ size` the columns are only within
       one unit (tied and oracle-checked, not proved).
   (3) decryption into a plaintext of a different radix: now unconditional, `glwe_decrypt_value_any_radix`
       (C08's cross-radix value theorem discharges `NormSpec`: `normSpec_of_headroom`); the older
       conditional form `glwe_decrypt_value_modulo_norm` is kept. -/
-/
import Poulpy.Lemmas.CoreEncLwe
import Poulpy.Lemmas.NormDispatch
import Poulpy.Lemmas.CoreEncHead
import Poulpy.Lemmas.CoreEncPk4
import Poulpy.Lemmas.KeyBridge

namespace C01
open NormL CoreEnc

/-! ### secret-key GLWE encryption: exact phase -/

/-- **`glwe_encrypt_sk` / `glwe_encrypt_zero_sk` phase identity.**  For every ring degree, rank
(= number of mask columns), radix `1 ≤ b ≤ 61`, ciphertext size, noise precision `kxe` whose target
limb exists, message limbs `m` of any size (or none), mask limbs, error integers and secret within
head-room: the encryption succeeds, leaves the masks as given, produces a normalised body, and the
exact phase of the result equals, coefficient by coefficient and modulo `2^(b·size)` (i.e. exactly
on the torus), the message truncated / zero-extended to the ciphertext size plus the error placed
on limb `⌈kxe/b⌉−1` (`errLimb`): `e·2^(b·(size−1−limb))`, i.e. `e·2^-((limb+1)·b)` on the torus. -/
theorem glwe_encrypt_sk_phase {bits b n size kxe k : Nat} {H E M : Int}
    (hbits : bits = 64 ∨ bits = 128) (hr : HeadRoom bits b 0 H) (hb1 : 1 ≤ b) (hb : b ≤ 61)
    (hk : 1 ≤ kxe) (hlimb : errLimb kxe b < size)
    (masks : List Col) (sk : List Poly) (m : Option Col) (e : Poly)
    (hlen : masks.length = sk.length) (hmasks : ∀ a ∈ masks, a.length = size ∧ WF n a)
    (hprod : ProdBounded H masks sk) (ptB : Nat) (hradix : m.isSome → ptB = b)
    (hm : ∀ p, m = some p → WF n p ∧ CoefBounded n M p) (hM0 : 0 ≤ M)
    (he : e.length = n) (hE0 : 0 ≤ E) (heB : ∀ x ∈ e, |x| ≤ E)
    (hsum : (masks.length : Int) * 2 ^ (b - 1) + E + M ≤ 2 ^ 62) :
    ∃ body, Core.glweEncryptSk bits b k n size kxe masks m ptB sk e = some { base2k := b, k := k, n := n, cols := body :: masks } ∧
      body.length = size ∧ WF n body ∧ Bounded (2 ^ (b - 1)) body ∧
      ∀ t, t < n → ∃ K : Int, Core.valCoeff b (Core.phaseBig sk { base2k := b, k := k, n := n, cols := body :: masks }) t =
        msgCoeff b n size m t + e.getD t 0 * 2 ^ (b * (size - 1 - errLimb kxe b)) + K * 2 ^ (b * size) :=
  encryptSk_phase hbits hr hb1 hb hk hlimb masks sk m e hlen hmasks hprod ptB hradix hm hM0 he hE0 heB hsum

/-- non-vacuity: N = 2, rank 1, radix 2^3, two limbs, a one-limb message, noise precision 5
(target limb 1, scale 2), NTT120 accumulator -/
example : ∃ ct, Core.glweEncryptSk 128 3 6 2 2 5 [[[1, -2], [3, 0]]] (some [[1, 2]]) 3 [[1, -1]] [1, -1] = some ct ∧
    ∀ t, t < 2 → ∃ K : Int, Core.valCoeff 3 (Core.phaseBig [[1, -1]] ct) t =
      msgCoeff 3 2 2 (some [[1, 2]]) t + ([1, -1] : Poly).getD t 0 * 2 ^ (3 * (2 - 1 - errLimb 5 3)) + K * 2 ^ (3 * 2) := by
  have hr : HeadRoom 128 3 0 (2 ^ 62) := ⟨by norm_num, by norm_num, by norm_num, by norm_num, by norm_num⟩
  obtain ⟨body, h1, _, _, _, h2⟩ := glwe_encrypt_sk_phase (bits := 128) (b := 3) (n := 2) (size := 2) (kxe := 5) (k := 6)
    (H := 2 ^ 62) (E := 1) (M := 2) (Or.inr rfl) hr (by norm_num) (by norm_num) (by norm_num) (by decide)
    [[[1, -2], [3, 0]]] [[1, -1]] (some [[1, 2]]) [1, -1] rfl
    (by intro a ha; simp at ha; subst ha; exact ⟨rfl, by intro l hl; simp at hl; rcases hl with rfl | rfl <;> rfl⟩)
    (by
      refine ⟨?_, trivial⟩
      intro l hl x hx
      have : Core.colMulPoly [1, -1] [[1, -2], [3, 0]] = [[-1, -3], [3, -3]] := by decide
      rw [this] at hl
      simp at hl
      rcases hl with rfl | rfl <;> simp at hx <;> rcases hx with rfl | rfl <;> norm_num)
    3 (fun _ => rfl)
    (by
      intro p hp; simp at hp; subst hp
      refine ⟨by intro l hl; simp at hl; subst hl; rfl, ?_⟩
      intro t _ v hv
      simp [coefAt] at hv
      subst hv
      rcases t with _ | _ | t <;> simp)
    (by norm_num) rfl (by norm_num)
    (by intro x hx; simp at hx; rcases hx with rfl | rfl <;> norm_num) (by norm_num)
  exact ⟨_, h1, h2⟩

/-- **noise bound** (corollary): if the error integers satisfy the rejection loop's post-condition
`|e_i| ≤ B·2^scale`, `scale = (limb+1)·b − kxe` (what `target_limb_and_scale` returns), the error term
of `glwe_encrypt_sk_phase`, read at the ciphertext's precision, is at most `B·2^-kxe`:
`|e·2^(b(size−1−limb))| · 2^kxe ≤ B · 2^(b·size)`. -/
theorem glwe_encrypt_sk_noise_bound {b size kxe : Nat} {e B : Int} (hlimb : errLimb kxe b < size)
    (hk : kxe ≤ (errLimb kxe b + 1) * b) (he : |e| ≤ B * 2 ^ ((errLimb kxe b + 1) * b - kxe)) :
    |e * 2 ^ (b * (size - 1 - errLimb kxe b))| * 2 ^ kxe ≤ B * 2 ^ (b * size) :=
  noise_scale hlimb hk he

example : |(-77 : Int) * 2 ^ (7 * (3 - 1 - errLimb 18 7))| * 2 ^ 18 ≤ 20 * 2 ^ (7 * 3) :=
  glwe_encrypt_sk_noise_bound (b := 7) (size := 3) (kxe := 18) (by decide) (by decide) (by decide)

/-- the limb and scale of `Sampling.targetLimbAndScale` (the model of `NoiseInfos::target_limb_and_scale`)
are `errLimb` and `(limb+1)·b − k`, and `k ≤ (limb+1)·b` -/
theorem target_limb_and_scale_spec (k b : Nat) (hb : 1 ≤ b) (hk : 1 ≤ k) :
    Sampling.targetLimbAndScale k b = some (errLimb k b, (errLimb k b + 1) * b - k) ∧ k ≤ (errLimb k b + 1) * b ∧
    errLimb k b * b < k := by
  refine ⟨?_, ?_, ?_⟩
  · unfold Sampling.targetLimbAndScale errLimb; rw [if_neg (by omega)]
  · unfold errLimb
    have h1 : 1 ≤ (k + b - 1) / b := by
      rw [Nat.le_div_iff_mul_le (by omega)]; omega
    have h2 : (k + b - 1) / b - 1 + 1 = (k + b - 1) / b := by omega
    rw [h2]
    have := Nat.lt_div_mul_add (a := k + b - 1) (by omega : 0 < b)
    generalize (k + b - 1) / b * b = P at this ⊢
    omega
  · unfold errLimb
    have h1 : 1 ≤ (k + b - 1) / b := by
      rw [Nat.le_div_iff_mul_le (by omega)]; omega
    have h3 := Nat.div_mul_le_self (k + b - 1) b
    have : ((k + b - 1) / b - 1) * b = (k + b - 1) / b * b - b := by
      rw [Nat.sub_mul]; simp
    omega

example : Sampling.targetLimbAndScale 18 7 = some (2, 3) := (target_limb_and_scale_spec 18 7 (by norm_num) (by norm_num)).1

/-! ### decryption = normalisation of the exact phase -/

/-- **`glwe_decrypt`, plaintext in the ciphertext's radix**: for every ciphertext whose exact phase
is within head-room, every rank and every plaintext size, the decryption succeeds, has `ptSize`
normalised limbs, and represents the exact phase within one unit of the plaintext's last limb —
exactly when the plaintext has at least as many limbs as the ciphertext. -/
theorem glwe_decrypt_value {bits b : Nat} {H : Int} (hbits : bits = 64 ∨ bits = 128) (hr : HeadRoom bits b 0 H) (hb : b ≤ 63)
    (ct : Core.GLWE) (sk : List Poly) (ptSize : Nat) (hb2k : ct.base2k = b) (hrank : ct.rank = sk.length)
    (hB : Bounded H (Core.phaseBig sk ct)) :
    ∃ pt, Core.glweDecrypt bits ct sk b ptSize = some pt ∧ pt.length = ptSize ∧ WF ct.n pt ∧ Bounded (2 ^ (b - 1)) pt ∧
      ∀ t, t < ct.n →
        TorusNear (Core.valCoeff b pt t) (b * ptSize) (Core.valCoeff b (Core.phaseBig sk ct) t) (b * (Core.phaseBig sk ct).length) ∧
        ((Core.phaseBig sk ct).length ≤ ptSize →
          TorusEq (Core.valCoeff b pt t) (b * ptSize) (Core.valCoeff b (Core.phaseBig sk ct) t) (b * (Core.phaseBig sk ct).length)) := by
  unfold Core.glweDecrypt
  rw [if_neg (by simp [hrank]), hb2k, bigNormalize_eq bits b ptSize ct.n hbits]
  obtain ⟨o1, o2, o3, o4⟩ := normCol_spec hbits hr hb ptSize ct.n (Core.phaseBig sk ct) hB
  refine ⟨_, rfl, o1, o2, o3, ?_⟩
  intro t ht
  rw [valCoeff_eq, valCoeff_eq]
  exact o4 t ht

example : ∃ pt, Core.glweDecrypt 64 { base2k := 3, k := 6, n := 2, cols := [[[1, -2], [3, 0]], [[2, 2], [-1, 3]]] } [[0, 1]] 3 1 = some pt ∧
    pt.length = 1 := by
  have hr : HeadRoom 64 3 0 (2 ^ 62) := ⟨by norm_num, by norm_num, by norm_num, by norm_num, by norm_num⟩
  obtain ⟨pt, h1, h2, _⟩ := glwe_decrypt_value (bits := 64) (b := 3) (Or.inl rfl) hr (by norm_num)
    { base2k := 3, k := 6, n := 2, cols := [[[1, -2], [3, 0]], [[2, 2], [-1, 3]]] } [[0, 1]] 1 rfl rfl
    (by
      have : Core.phaseBig [[0, 1]] { base2k := 3, k := 6, n := 2, cols := [[[1, -2], [3, 0]], [[2, 2], [-1, 3]]] } = [[-1, 0], [0, -1]] := by
        decide
      rw [this]
      intro l hl x hx
      simp at hl
      rcases hl with rfl | rfl <;> simp at hx <;> rcases hx with rfl | rfl <;> norm_num)
  exact ⟨pt, h1, h2⟩

/-- per-coefficient cross-radix normalisation executed by `Core.bigNormalize` -/
def bigNormCoef (bits rb rs ab : Nat) (l : List Int) : Option (List Int) :=
  if bits = 64 then normalizeCoef rb rs 0 ab l else bigNormalizeCoef128 rb rs 0 ab l

/-- the value property of `vec_znx_big_normalize` that decryption into another radix relies on
(C08's `normalize_cross_value`; proved there only for the same radix) -/
def NormSpec (bits rb rs ab : Nat) (l : List Int) : Prop :=
  ∀ out, bigNormCoef bits rb rs ab l = some out →
    out.length = rs ∧ TorusNear (valI rb out) (rb * rs) (valI ab l) (ab * l.length)

/-- **`glwe_decrypt`, any plaintext radix, modulo the normalisation's value property**: whenever the
decryption returns a plaintext, it represents the exact phase within one unit of its last limb,
provided `vec_znx_big_normalize` has the value property `NormSpec` on the phase's coefficients.
The hypothesis is explicit: for `pb = ct.base2k` it is a theorem (`glwe_decrypt_value`); for
`pb ≠ ct.base2k` it is C08's open `normalize_cross_value`. -/
theorem glwe_decrypt_value_modulo_norm {bits : Nat} (hbits : bits = 64 ∨ bits = 128) (ct : Core.GLWE) (sk : List Poly) (pb ps : Nat)
    (pt : Col) (hdec : Core.glweDecrypt bits ct sk pb ps = some pt)
    (hnorm : ∀ t, t < ct.n → NormSpec bits pb ps ct.base2k (coefAt (Core.phaseBig sk ct) t)) :
    pt.length = ps ∧ ∀ t, t < ct.n →
      TorusNear (Core.valCoeff pb pt t) (pb * ps) (Core.valCoeff ct.base2k (Core.phaseBig sk ct) t)
        (ct.base2k * (Core.phaseBig sk ct).length) := by
  unfold Core.glweDecrypt at hdec
  split at hdec
  · simp at hdec
  · have hinv : mapCoefs? ct.n ps (fun i => bigNormCoef bits pb ps ct.base2k (coefAt (Core.phaseBig sk ct) i)) = some pt := by
      unfold Core.bigNormalize at hdec
      rcases hbits with rfl | rfl
      · simpa [bigNormalizeCol64?, normalizeCol?, bigNormCoef] using hdec
      · simpa [bigNormalizeCol128?, bigNormCoef] using hdec
    obtain ⟨i1, _, i3⟩ := mapCoefs?_inv ct.n ps _ pt hinv
    refine ⟨i1, ?_⟩
    intro t ht
    obtain ⟨o, ho, hco⟩ := i3 t ht
    obtain ⟨hl, hv⟩ := hnorm t ht o ho
    rw [valCoeff_eq, valCoeff_eq, hco hl]
    rw [coefAt_length] at hv
    exact hv

/-- non-vacuity: a cross-radix decryption (radix 2^3 → 2^2) on which `NormSpec` holds by computation -/
example : Core.glweDecrypt 64 { base2k := 3, k := 6, n := 1, cols := [[[1], [3]]] } [] 2 3 = some [[1], [-1], [-1]] ∧
    NormSpec 64 2 3 3 (coefAt (Core.phaseBig [] { base2k := 3, k := 6, n := 1, cols := [[[1], [3]]] }) 0) := by
  refine ⟨by decide, ?_⟩
  intro out hout
  have : bigNormCoef 64 2 3 3 (coefAt (Core.phaseBig [] { base2k := 3, k := 6, n := 1, cols := [[[1], [3]]] }) 0) = some [1, -1, -1] := by
    decide
  rw [this] at hout
  cases hout
  exact ⟨rfl, 0, 0, by decide, by decide⟩

/-- **`NormSpec` is a theorem within head-room** (C08 `normalize_value` / `big_normalize128_value`, i.e. the
cross-radix value theorem at offset 0 together with the same-radix one): radices `1..62`, limbs of the phase
bounded by `H` with `H + 8 ≤ 2^(bits-2)`. -/
theorem normSpec_of_headroom {bits rb rs ab : Nat} {H : Int} {l : List Int} (c : CrossCtx bits ab rb rs 0 H l) :
    NormSpec bits rb rs ab l := by
  intro out hout
  unfold bigNormCoef at hout
  have key : out.length = rs ∧ (∀ d ∈ out, |d| ≤ 2 ^ rb - 1) ∧
      TorusNear (valI rb out) (rb * rs) (valI ab l * 2 ^ (0 : Int).toNat) (ab * l.length + (-(0 : Int)).toNat) := by
    rcases c.hbits with rfl | rfl
    · rw [if_pos rfl] at hout
      obtain ⟨a1, a2, a3, _⟩ := normalizeCoef_value c 0 hout
      exact ⟨a1, a2, a3⟩
    · rw [if_neg (by decide)] at hout
      obtain ⟨a1, a2, a3, _⟩ := bigNormalizeCoef128_value c 0 hout
      exact ⟨a1, a2, a3⟩
  obtain ⟨h1, _, h3⟩ := key
  simp only [Int.toNat_zero, pow_zero, mul_one, neg_zero, Nat.add_zero] at h3
  exact ⟨h1, h3⟩

/-- **`glwe_decrypt`, any plaintext radix (equal to the ciphertext's or not), unconditional**: for radices
`1..62` and an exact phase within head-room (`|limb| ≤ H`, `H + 8 ≤ 2^(bits-2)`; `bits = 64` FFT64/VecZnx,
`bits = 128` NTT120), whenever the decryption returns a plaintext it has `ps` limbs with `|d| ≤ 2^pb − 1`
and represents the exact phase within one unit of its last limb — exactly when the plaintext has at least
as many bits as the ciphertext (`ct.base2k·size ≤ pb·ps`). -/
theorem glwe_decrypt_value_any_radix {bits : Nat} {H : Int} (hbits : bits = 64 ∨ bits = 128)
    (ct : Core.GLWE) (sk : List Poly) (pb ps : Nat) (pt : Col)
    (hdec : Core.glweDecrypt bits ct sk pb ps = some pt)
    (hpb1 : 1 ≤ pb) (hpb : pb ≤ 62) (hb1 : 1 ≤ ct.base2k) (hb : ct.base2k ≤ 62)
    (hH0 : 0 ≤ H) (hH : H + 8 ≤ 2 ^ (bits - 2)) (hB : Bounded H (Core.phaseBig sk ct)) :
    pt.length = ps ∧ ∀ t, t < ct.n →
      (∀ d ∈ coefAt pt t, |d| ≤ 2 ^ pb - 1) ∧
      TorusNear (Core.valCoeff pb pt t) (pb * ps) (Core.valCoeff ct.base2k (Core.phaseBig sk ct) t)
        (ct.base2k * (Core.phaseBig sk ct).length) ∧
      (ct.base2k * (Core.phaseBig sk ct).length ≤ pb * ps →
        TorusEq (Core.valCoeff pb pt t) (pb * ps) (Core.valCoeff ct.base2k (Core.phaseBig sk ct) t)
          (ct.base2k * (Core.phaseBig sk ct).length)) := by
  unfold Core.glweDecrypt at hdec
  split at hdec
  · simp at hdec
  · have hinv : mapCoefs? ct.n ps (fun i => bigNormCoef bits pb ps ct.base2k (coefAt (Core.phaseBig sk ct) i)) = some pt := by
      unfold Core.bigNormalize at hdec
      rcases hbits with rfl | rfl
      · simpa [bigNormalizeCol64?, normalizeCol?, bigNormCoef] using hdec
      · simpa [bigNormalizeCol128?, bigNormCoef] using hdec
    obtain ⟨i1, _, i3⟩ := mapCoefs?_inv ct.n ps _ pt hinv
    refine ⟨i1, ?_⟩
    intro t ht
    obtain ⟨o, ho, hco⟩ := i3 t ht
    have c : CrossCtx bits ct.base2k pb ps 0 H (coefAt (Core.phaseBig sk ct) t) :=
      ⟨hbits, hpb1, hpb, hb1, hb, hH0, hH, coefAt_bounded hH0 hB t⟩
    have key : o.length = ps ∧ (∀ d ∈ o, |d| ≤ 2 ^ pb - 1) ∧
        TorusNear (valI pb o) (pb * ps) (valI ct.base2k (coefAt (Core.phaseBig sk ct) t) * 2 ^ (0 : Int).toNat)
          (ct.base2k * (coefAt (Core.phaseBig sk ct) t).length + (-(0 : Int)).toNat) ∧
        (((ct.base2k * (coefAt (Core.phaseBig sk ct) t).length : Nat) : Int) - 0 ≤ ((pb * ps : Nat) : Int) →
          TorusEq (valI pb o) (pb * ps) (valI ct.base2k (coefAt (Core.phaseBig sk ct) t) * 2 ^ (0 : Int).toNat)
            (ct.base2k * (coefAt (Core.phaseBig sk ct) t).length + (-(0 : Int)).toNat)) := by
      unfold bigNormCoef at ho
      rcases hbits with rfl | rfl
      · rw [if_pos rfl] at ho
        exact normalizeCoef_value c 0 ho
      · rw [if_neg (by decide)] at ho
        exact bigNormalizeCoef128_value c 0 ho
    obtain ⟨k1, k2, k3, k4⟩ := key
    simp only [Int.toNat_zero, pow_zero, mul_one, neg_zero, Nat.add_zero, coefAt_length, sub_zero] at k3 k4
    rw [valCoeff_eq, valCoeff_eq, hco k1]
    exact ⟨k2, k3, fun hle => k4 (by exact_mod_cast hle)⟩

/-- **`glwe_decrypt` into any plaintext radix always returns** (matching rank, radices ≥ 1): C08's termination
theorem of the cross-radix loop.  Together with `glwe_decrypt_value_any_radix` this is total correctness. -/
theorem glwe_decrypt_any_radix_returns {bits : Nat} (hbits : bits = 64 ∨ bits = 128)
    (ct : Core.GLWE) (sk : List Poly) (pb ps : Nat) (hrank : ct.rank = sk.length) (hpb1 : 1 ≤ pb) (hb1 : 1 ≤ ct.base2k) :
    ∃ pt, Core.glweDecrypt bits ct sk pb ps = some pt := by
  unfold Core.glweDecrypt Core.bigNormalize
  rw [if_neg (by simp [hrank])]
  rcases hbits with rfl | rfl
  · rw [if_pos rfl]
    exact normalizeCol?_exists pb ps 0 _ ct.base2k ct.n hb1 hpb1
  · rw [if_neg (by decide)]
    exact bigNormalizeCol128?_exists pb ps 0 _ ct.base2k ct.n hb1 hpb1

example : ∃ pt, Core.glweDecrypt 128 { base2k := 3, k := 6, n := 1, cols := [[[1], [3]]] } [] 2 3 = some pt :=
  glwe_decrypt_any_radix_returns (Or.inr rfl) _ [] 2 3 rfl (by norm_num) (by norm_num)

/-- non-vacuity: the cross-radix decryption of the example above (radix 2^3 → 2^2), now through the theorem -/
example : TorusNear (Core.valCoeff 2 [[1], [-1], [-1]] 0) (2 * 3)
    (Core.valCoeff 3 (Core.phaseBig [] { base2k := 3, k := 6, n := 1, cols := [[[1], [3]]] }) 0)
    (3 * (Core.phaseBig [] { base2k := 3, k := 6, n := 1, cols := [[[1], [3]]] }).length) := by
  have hd : Core.glweDecrypt 64 { base2k := 3, k := 6, n := 1, cols := [[[1], [3]]] } [] 2 3 = some [[1], [-1], [-1]] := by
    decide
  have hB : Bounded (2 ^ 61) (Core.phaseBig [] { base2k := 3, k := 6, n := 1, cols := [[[1], [3]]] }) := by
    have : Core.phaseBig [] { base2k := 3, k := 6, n := 1, cols := [[[1], [3]]] } = [[1], [3]] := by decide
    rw [this]
    intro l hl x hx
    simp at hl
    rcases hl with rfl | rfl <;> simp at hx <;> subst hx <;> norm_num
  exact ((glwe_decrypt_value_any_radix (bits := 64) (H := 2 ^ 61) (Or.inl rfl) _ [] 2 3 _ hd
    (by norm_num) (by norm_num) (by norm_num) (by norm_num) (by norm_num) (by norm_num) hB).2 0 (by decide)).2.1

/-! ### encrypt, then decrypt -/

/-- **encrypt-then-decrypt, secret key, same radix**: the decryption of a fresh ciphertext
represents `message + e·2^-((limb+1)b)` within one unit of the plaintext's last limb (exactly when
the plaintext has at least as many limbs as the ciphertext). -/
theorem glwe_encrypt_decrypt_sk_of_headroom {bits b n size kxe k : Nat} {H E M : Int}
    (hbits : bits = 64 ∨ bits = 128) (hr : HeadRoom bits b 0 H) (hb1 : 1 ≤ b) (hb : b ≤ 61)
    (hk : 1 ≤ kxe) (hlimb : errLimb kxe b < size)
    (masks : List Col) (sk : List Poly) (m : Option Col) (e : Poly)
    (hlen : masks.length = sk.length) (hmasks : ∀ a ∈ masks, a.length = size ∧ WF n a)
    (hprod : ProdBounded H masks sk) (ptB : Nat) (hradix : m.isSome → ptB = b)
    (hm : ∀ p, m = some p → WF n p ∧ CoefBounded n M p) (hM0 : 0 ≤ M)
    (he : e.length = n) (hE0 : 0 ≤ E) (heB : ∀ x ∈ e, |x| ≤ E)
    (hsum : (masks.length : Int) * 2 ^ (b - 1) + E + M ≤ 2 ^ 62)
    (ptSize : Nat)
    (hphase : ∀ ct, Core.glweEncryptSk bits b k n size kxe masks m ptB sk e = some ct → Bounded H (Core.phaseBig sk ct)) :
    ∃ ct pt, Core.glweEncryptSk bits b k n size kxe masks m ptB sk e = some ct ∧ Core.glweDecrypt bits ct sk b ptSize = some pt ∧
      pt.length = ptSize ∧ Bounded (2 ^ (b - 1)) pt ∧
      ∀ t, t < n → TorusNear (Core.valCoeff b pt t) (b * ptSize)
        (msgCoeff b n size m t + e.getD t 0 * 2 ^ (b * (size - 1 - errLimb kxe b))) (b * size) := by
  obtain ⟨body, h1, h2, h3, _, h5⟩ := glwe_encrypt_sk_phase (k := k) hbits hr hb1 hb hk hlimb masks sk m e hlen hmasks hprod ptB hradix hm hM0 he hE0 heB hsum
  obtain ⟨pt, d1, d2, _, d4, d5⟩ := glwe_decrypt_value hbits hr (by omega) { base2k := b, k := k, n := n, cols := body :: masks } sk ptSize rfl
    (by simp [Core.GLWE.rank, hlen]) (hphase _ h1)
  refine ⟨_, pt, h1, d1, d2, d4, ?_⟩
  intro t ht
  obtain ⟨K, hK⟩ := h5 t ht
  have hlenp : (Core.phaseBig sk { base2k := b, k := k, n := n, cols := body :: masks }).length = size := by
    rw [phaseBig_eq_fold sk b k n body masks hlen]
    exact (phaseFold_val b n size sk masks body hlen h2 h3 hmasks).1
  have := (d5 t ht).1
  rw [hlenp] at this
  exact torusNear_of_eq this K hK

/-- non-vacuity of `glwe_encrypt_decrypt_sk_of_headroom`: the instance of the first example, decrypted into one limb -/
example : ∃ ct pt, Core.glweEncryptSk 128 3 6 2 2 5 [[[1, -2], [3, 0]]] (some [[1, 2]]) 3 [[1, -1]] [1, -1] = some ct ∧
    Core.glweDecrypt 128 ct [[1, -1]] 3 1 = some pt ∧
    ∀ t, t < 2 → TorusNear (Core.valCoeff 3 pt t) (3 * 1)
      (msgCoeff 3 2 2 (some [[1, 2]]) t + ([1, -1] : Poly).getD t 0 * 2 ^ (3 * (2 - 1 - errLimb 5 3))) (3 * 2) := by
  have hr : HeadRoom 128 3 0 (2 ^ 62) := ⟨by norm_num, by norm_num, by norm_num, by norm_num, by norm_num⟩
  have henc : Core.glweEncryptSk 128 3 6 2 2 5 [[[1, -2], [3, 0]]] (some [[1, 2]]) 3 [[1, -1]] [1, -1]
      = some { base2k := 3, k := 6, n := 2, cols := [[[2, -3], [-2, 2]], [[1, -2], [3, 0]]] } := by rfl
  obtain ⟨ct, pt, h1, h2, _, _, h5⟩ := glwe_encrypt_decrypt_sk_of_headroom (bits := 128) (b := 3) (n := 2) (size := 2) (kxe := 5) (k := 6)
    (H := 2 ^ 62) (E := 1) (M := 2) (Or.inr rfl) hr (by norm_num) (by norm_num) (by norm_num) (by decide)
    [[[1, -2], [3, 0]]] [[1, -1]] (some [[1, 2]]) [1, -1] rfl
    (by intro a ha; simp at ha; subst ha; exact ⟨rfl, by intro l hl; simp at hl; rcases hl with rfl | rfl <;> rfl⟩)
    (by
      refine ⟨?_, trivial⟩
      intro l hl x hx
      have : Core.colMulPoly [1, -1] [[1, -2], [3, 0]] = [[-1, -3], [3, -3]] := by decide
      rw [this] at hl
      simp at hl
      rcases hl with rfl | rfl <;> simp at hx <;> rcases hx with rfl | rfl <;> norm_num)
    3 (fun _ => rfl)
    (by
      intro p hp; simp at hp; subst hp
      refine ⟨by intro l hl; simp at hl; subst hl; rfl, ?_⟩
      intro t _ v hv
      simp [coefAt] at hv
      subst hv
      rcases t with _ | _ | t <;> simp)
    (by norm_num) rfl (by norm_num)
    (by intro x hx; simp at hx; rcases hx with rfl | rfl <;> norm_num) (by norm_num) 1
    (by
      intro ct hct
      rw [henc] at hct
      cases hct
      have : Core.phaseBig [[1, -1]] { base2k := 3, k := 6, n := 2, cols := [[[2, -3], [-2, 2]], [[1, -2], [3, 0]]] } = [[1, -6], [1, -1]] := by
        decide
      rw [this]
      intro l hl x hx
      simp at hl
      rcases hl with rfl | rfl <;> simp at hx <;> rcases hx with rfl | rfl <;> norm_num)
  exact ⟨ct, pt, h1, h2, h5⟩

/-- **encrypt-then-decrypt, secret key, same radix — input-shape hypotheses only.**  For masks with
`‖aᵢ‖∞ ≤ A` (fresh masks: `A = 2^(b−1)`), secrets with `2^(b−1) + (Σ‖sᵢ‖₁)·A ≤ H` (the head-room of the
normalisation, `H = 2^62` for `b ≤ 61`), messages and errors within `rank·2^(b−1) + E + M ≤ 2^62`: the
decryption of the fresh ciphertext into `ptSize` limbs represents `message + e·2^-((limb+1)b)` within one
unit of the plaintext's last limb.  No hypothesis about intermediate values is left: the head-room of
the products and of the exact phase is derived from the norm inequality. -/
theorem glwe_encrypt_decrypt_sk {bits b n size kxe k : Nat} {H E M A : Int}
    (hbits : bits = 64 ∨ bits = 128) (hr : HeadRoom bits b 0 H) (hb1 : 1 ≤ b) (hb : b ≤ 61)
    (hk : 1 ≤ kxe) (hlimb : errLimb kxe b < size)
    (masks : List Col) (sk : List Poly) (m : Option Col) (e : Poly)
    (hlen : masks.length = sk.length) (hmasks : ∀ a ∈ masks, a.length = size ∧ WF n a)
    (hA0 : 0 ≤ A) (hA : ∀ a ∈ masks, Bounded A a) (hnorm : 2 ^ (b - 1) + sumNorm1 sk * A ≤ H)
    (ptB : Nat) (hradix : m.isSome → ptB = b)
    (hm : ∀ p, m = some p → WF n p ∧ CoefBounded n M p) (hM0 : 0 ≤ M)
    (he : e.length = n) (hE0 : 0 ≤ E) (heB : ∀ x ∈ e, |x| ≤ E)
    (hsum : (masks.length : Int) * 2 ^ (b - 1) + E + M ≤ 2 ^ 62)
    (ptSize : Nat) :
    ∃ ct pt, Core.glweEncryptSk bits b k n size kxe masks m ptB sk e = some ct ∧ Core.glweDecrypt bits ct sk b ptSize = some pt ∧
      pt.length = ptSize ∧ Bounded (2 ^ (b - 1)) pt ∧
      ∀ t, t < n → TorusNear (Core.valCoeff b pt t) (b * ptSize)
        (msgCoeff b n size m t + e.getD t 0 * 2 ^ (b * (size - 1 - errLimb kxe b))) (b * size) := by
  have hP : (0 : Int) < 2 ^ (b - 1) := two_pow_pos _
  have hs1 : ∀ s ∈ sk, norm1 s * A ≤ H := by
    intro s hs
    have hle : norm1 s ≤ sumNorm1 sk := by
      unfold sumNorm1
      have hnn : ∀ x ∈ sk.map norm1, 0 ≤ x := by
        intro x hx; simp only [List.mem_map] at hx; obtain ⟨q, _, rfl⟩ := hx; exact norm1_nonneg q
      exact List.single_le_sum hnn _ (List.mem_map_of_mem hs)
    nlinarith
  have hprod := prodBounded_of_norm masks sk hA hs1
  refine glwe_encrypt_decrypt_sk_of_headroom (k := k) hbits hr hb1 hb hk hlimb masks sk m e hlen hmasks hprod ptB hradix hm hM0 he hE0 heB hsum ptSize ?_
  intro ct hct
  obtain ⟨body, h1, _, _, hbB, _⟩ := glwe_encrypt_sk_phase (k := k) hbits hr hb1 hb hk hlimb masks sk m e hlen hmasks hprod ptB hradix hm hM0 he hE0 heB hsum
  rw [h1] at hct
  cases hct
  rw [phaseBig_eq_fold sk b k n body masks hlen]
  intro l hl x hx
  exact le_trans (phaseFold_bounded hA0 sk masks body _ hbB hA l hl x hx) hnorm

example : ∃ ct pt, Core.glweEncryptSk 128 3 6 2 2 5 [[[1, -2], [3, 0]]] (some [[1, 2]]) 3 [[1, -1]] [1, -1] = some ct ∧
    Core.glweDecrypt 128 ct [[1, -1]] 3 1 = some pt ∧ pt.length = 1 := by
  have hr : HeadRoom 128 3 0 (2 ^ 62) := ⟨by norm_num, by norm_num, by norm_num, by norm_num, by norm_num⟩
  obtain ⟨ct, pt, h1, h2, h3, _⟩ := glwe_encrypt_decrypt_sk (bits := 128) (b := 3) (n := 2) (size := 2) (kxe := 5) (k := 6)
    (H := 2 ^ 62) (E := 1) (M := 2) (A := 3) (Or.inr rfl) hr (by norm_num) (by norm_num) (by norm_num) (by decide)
    [[[1, -2], [3, 0]]] [[1, -1]] (some [[1, 2]]) [1, -1] rfl
    (by intro a ha; simp at ha; subst ha; exact ⟨rfl, by intro l hl; simp at hl; rcases hl with rfl | rfl <;> rfl⟩)
    (by norm_num)
    (by intro a ha l hl x hx; simp at ha; subst ha; simp at hl; rcases hl with rfl | rfl <;> simp at hx <;> rcases hx with rfl | rfl <;> norm_num)
    (by simp [sumNorm1, norm1])
    3 (fun _ => rfl)
    (by
      intro p hp; simp at hp; subst hp
      refine ⟨by intro l hl; simp at hl; subst hl; rfl, ?_⟩
      intro t _ v hv
      simp [coefAt] at hv
      subst hv
      rcases t with _ | _ | t <;> simp)
    (by norm_num) rfl (by norm_num)
    (by intro x hx; simp at hx; rcases hx with rfl | rfl <;> norm_num) (by norm_num) 1
  exact ⟨ct, pt, h1, h2, h3⟩

/-! ### public-key GLWE encryption -/

/-- **`glwe_encrypt_pk` phase identity (any public key).**  For every ring degree, rank, radix `1 ≤ b ≤ 63`,
size, noise precision with an existing target limb, public key `pk0 :: pks` with the ciphertext's
number of limbs, ephemeral secret `u`, errors `e0 :: es`, message of any size, all within head-room
(`Hp` bounds the products `u⋆pk[i]`, `Hp + E + M ≤ H`, `< 2^63`): the encryption succeeds, every
column is normalised, and as value polynomials modulo `2^(b·size)`
`phase_s(ct) = u ⋆ phase_s(pk) + (e_0 + Σ sᵢ⋆eᵢ)·2^(b(size−1−limb)) + m`. -/
theorem glwe_encrypt_pk_phase {bits b n size kxe k : Nat} {H Hp E M : Int}
    (hbits : bits = 64 ∨ bits = 128) (hr : HeadRoom bits b 0 H) (hb1 : 1 ≤ b) (hb : b ≤ 63) (hk : 1 ≤ kxe)
    (hlimb : errLimb kxe b < size)
    (pk0 : Col) (pks : List Col) (sk : List Poly) (u : Poly) (m : Option Col) (e0 : Poly) (es : List Poly)
    (hlen : pks.length = sk.length) (hes : pks.length = es.length)
    (hpk : ∀ pk ∈ pk0 :: pks, pk.length = size ∧ WF n pk ∧ Bounded Hp (Core.colMulPoly u pk))
    (he : ∀ e ∈ e0 :: es, e.length = n ∧ ∀ x ∈ e, |x| ≤ E)
    (hm : ∀ p, m = some p → WF n p ∧ CoefBounded n M p)
    (hHp0 : 0 ≤ Hp) (hE0 : 0 ≤ E) (hM0 : 0 ≤ M) (hsum : Hp + E + M ≤ H) (h63 : Hp + E + M < 2 ^ 63) :
    ∃ (c0 : Col) (cts : List Col) (Kf : Poly),
      Core.glweEncryptPk bits b k n size kxe (pk0 :: pks) u m (e0 :: es) = some { base2k := b, k := k, n := n, cols := c0 :: cts } ∧
      cts.length = pks.length ∧ (∀ c ∈ c0 :: cts, c.length = size ∧ WF n c ∧ Bounded (2 ^ (b - 1)) c) ∧ Kf.length = n ∧
      valPoly b n (Core.phaseBig sk { base2k := b, k := k, n := n, cols := c0 :: cts }) =
        Hal.polyAdd (Hal.polyAdd (Hal.polyAdd
          (Hal.negMul u (valPoly b n (Core.phaseBig sk { base2k := b, k := k, n := n, cols := pk0 :: pks })))
          (Hal.polyScale (2 ^ (b * (size - 1 - errLimb kxe b))) (linComb sk es e0)))
          (msgPoly b n size m))
          (Hal.polyScale (2 ^ (b * size)) Kf) :=
  encryptPk_phase hbits hr hb1 hb hk hlimb pk0 pks sk u m e0 es hlen hes hpk he hm hHp0 hE0 hM0 hsum h63

/-- non-vacuity: N = 2, rank 1, radix 2^3, two limbs -/
example : ∃ (c0 : Col) (cts : List Col), Core.glweEncryptPk 64 3 6 2 2 5 [[[2, -3], [-2, 2]], [[1, -2], [3, 0]]] [1, 1] (some [[1, 2]]) [[1, 0], [0, -1]]
    = some { base2k := 3, k := 6, n := 2, cols := c0 :: cts } := by
  have hr : HeadRoom 64 3 0 (2 ^ 62) := ⟨by norm_num, by norm_num, by norm_num, by norm_num, by norm_num⟩
  obtain ⟨c0, cts, _, h1, _⟩ := glwe_encrypt_pk_phase (bits := 64) (b := 3) (n := 2) (size := 2) (kxe := 5) (k := 6)
    (H := 2 ^ 62) (Hp := 8) (E := 1) (M := 2) (Or.inl rfl) hr (by norm_num) (by norm_num) (by norm_num) (by decide)
    [[2, -3], [-2, 2]] [[[1, -2], [3, 0]]] [[1, -1]] [1, 1] (some [[1, 2]]) [1, 0] [[0, -1]] rfl rfl
    (by
      intro pk hpk
      simp at hpk
      rcases hpk with rfl | rfl
      · refine ⟨rfl, by intro l hl; simp at hl; rcases hl with rfl | rfl <;> rfl, ?_⟩
        have : Core.colMulPoly [1, 1] [[2, -3], [-2, 2]] = [[5, -1], [-4, 0]] := by decide
        rw [this]; intro l hl x hx; simp at hl; rcases hl with rfl | rfl <;> simp at hx <;> rcases hx with rfl | rfl <;> norm_num
      · refine ⟨rfl, by intro l hl; simp at hl; rcases hl with rfl | rfl <;> rfl, ?_⟩
        have : Core.colMulPoly [1, 1] [[1, -2], [3, 0]] = [[3, -1], [3, 3]] := by decide
        rw [this]; intro l hl x hx; simp at hl; rcases hl with rfl | rfl <;> simp at hx <;> rcases hx with rfl | rfl <;> norm_num)
    (by intro e he; simp at he; rcases he with rfl | rfl <;> exact ⟨rfl, by intro x hx; simp at hx; rcases hx with rfl | rfl <;> norm_num⟩)
    (by
      intro p hp; simp at hp; subst hp
      refine ⟨by intro l hl; simp at hl; subst hl; rfl, ?_⟩
      intro t _ v hv
      simp [coefAt] at hv
      subst hv
      rcases t with _ | _ | t <;> simp)
    (by norm_num) (by norm_num) (by norm_num) (by norm_num) (by norm_num)
  exact ⟨c0, cts, h1⟩

/-- **public-key encryption under a fresh key: error expression `u⋆e_pk + e_0 + Σ eᵢ⋆sᵢ` and its bound.**
If the public key is a zero-encryption under `sk` with error `epk` on the limb of precision `kpk`
(the conclusion of `glwe_encrypt_sk_phase` with no message: `hfresh`), then for every coefficient
`phase_s(ct)_t = m_t + (u⋆e_pk)_t·U_pk + (e_0 + Σ sᵢ⋆eᵢ)_t·U + K·2^(b·size)`, and the error term is at most
`‖u‖₁·E_pk·U_pk + (1 + Σ‖sᵢ‖₁)·E·U` — for `U_pk = U`, `E_pk = E` this is `E·U·(1 + ‖u‖₁ + Σ‖sᵢ‖₁)`, i.e.
`bound·2^-k·(1 + ‖u‖₁ + Σ‖sᵢ‖₁)` on the torus by `glwe_encrypt_sk_noise_bound`. -/
theorem glwe_encrypt_pk_error {bits b n size kxe kpk k : Nat} {H Hp E Epk M : Int}
    (hbits : bits = 64 ∨ bits = 128) (hr : HeadRoom bits b 0 H) (hb1 : 1 ≤ b) (hb : b ≤ 63) (hk : 1 ≤ kxe)
    (hlimb : errLimb kxe b < size)
    (pk0 : Col) (pks : List Col) (sk : List Poly) (u : Poly) (m : Option Col) (e0 : Poly) (es : List Poly) (epk : Poly)
    (hlen : pks.length = sk.length) (hes : pks.length = es.length)
    (hpk : ∀ pk ∈ pk0 :: pks, pk.length = size ∧ WF n pk ∧ Bounded Hp (Core.colMulPoly u pk))
    (he : ∀ e ∈ e0 :: es, e.length = n ∧ ∀ x ∈ e, |x| ≤ E)
    (hepk : epk.length = n ∧ ∀ x ∈ epk, |x| ≤ Epk)
    (hm : ∀ p, m = some p → WF n p ∧ CoefBounded n M p)
    (hHp0 : 0 ≤ Hp) (hE0 : 0 ≤ E) (hEpk0 : 0 ≤ Epk) (hM0 : 0 ≤ M) (hsum : Hp + E + M ≤ H) (h63 : Hp + E + M < 2 ^ 63)
    (hfresh : ∀ t, t < n → ∃ K : Int, Core.valCoeff b (Core.phaseBig sk { base2k := b, k := k, n := n, cols := pk0 :: pks }) t =
      epk.getD t 0 * 2 ^ (b * (size - 1 - errLimb kpk b)) + K * 2 ^ (b * size)) :
    ∃ ct, Core.glweEncryptPk bits b k n size kxe (pk0 :: pks) u m (e0 :: es) = some ct ∧
      ∀ t, t < n → ∃ K : Int,
        Core.valCoeff b (Core.phaseBig sk ct) t = msgValO b size t m
          + ((Hal.negMul u epk).getD t 0 * 2 ^ (b * (size - 1 - errLimb kpk b))
             + (linComb sk es e0).getD t 0 * 2 ^ (b * (size - 1 - errLimb kxe b)))
          + K * 2 ^ (b * size) ∧
        |(Hal.negMul u epk).getD t 0 * 2 ^ (b * (size - 1 - errLimb kpk b))
            + (linComb sk es e0).getD t 0 * 2 ^ (b * (size - 1 - errLimb kxe b))|
          ≤ norm1 u * Epk * 2 ^ (b * (size - 1 - errLimb kpk b)) + (1 + sumNorm1 sk) * E * 2 ^ (b * (size - 1 - errLimb kxe b)) := by
  obtain ⟨c0, cts, Kf, h1, _, _, hKf, h5⟩ := glwe_encrypt_pk_phase (k := k) hbits hr hb1 hb hk hlimb pk0 pks sk u m e0 es hlen hes hpk he hm hHp0 hE0 hM0 hsum h63
  refine ⟨_, h1, ?_⟩
  -- the fresh key as a polynomial identity
  have hfp : ∀ t, t < n → ∃ K : Int, (valPoly b n (Core.phaseBig sk { base2k := b, k := k, n := n, cols := pk0 :: pks })).getD t 0 =
      (Hal.polyScale (2 ^ (b * (size - 1 - errLimb kpk b))) epk).getD t 0 + K * 2 ^ (b * size) := by
    intro t ht
    obtain ⟨K, hK⟩ := hfresh t ht
    refine ⟨K, ?_⟩
    rw [valPoly_getD _ _ _ t ht, ← valCoeff_eq, hK, polyScale_getD]; ring
  obtain ⟨Kp, hKpl, hKp⟩ := cong_poly (n := n) (M := 2 ^ (b * size)) (ne_of_gt (two_pow_pos _)) _ _ (by simp) (by simp [hepk.1]) hfp
  have hel : ∀ v ∈ es, v.length = n := fun v hv => (he v (by simp [hv])).1
  have hll : (linComb sk es e0).length = n := linComb_length n sk es e0 (he e0 (by simp)).1 hel
  intro t ht
  have hval := congrArg (fun p => p.getD t 0) h5
  replace hval : (valPoly b n (Core.phaseBig sk { base2k := b, k := k, n := n, cols := c0 :: cts })).getD t 0 = _ := hval
  rw [valPoly_getD _ _ _ t ht, ← valCoeff_eq, hKp, Hal.negMul_add_right _ _ _ (by simp [hepk.1, hKpl]),
    Hal.ep_negMul_scale_right, Hal.ep_negMul_scale_right] at hval
  rw [polyAdd_getD _ _ n t (by simp [Hal.negMul_length, hepk.1, hKpl, hll, msgPoly]) (by simp [hKf]),
    polyAdd_getD _ _ n t (by simp [Hal.negMul_length, hepk.1, hKpl, hll]) (by simp [msgPoly]),
    polyAdd_getD _ _ n t (by simp [Hal.negMul_length, hepk.1, hKpl]) (by simp [hll]),
    polyAdd_getD _ _ n t (by simp [Hal.negMul_length, hepk.1]) (by simp [Hal.negMul_length, hKpl]),
    polyScale_getD, polyScale_getD, polyScale_getD, polyScale_getD] at hval
  refine ⟨(Hal.negMul u Kp).getD t 0 + Kf.getD t 0, ?_, ?_⟩
  · rw [hval]
    simp [msgPoly, List.getD_eq_getElem?_getD, ht]
    ring
  · have h1' := getD_bound (mul_nonneg (norm1_nonneg u) hEpk0) _ (negMul_bound u epk hepk.2) t
    have h2' := getD_bound (by have := sumNorm1_nonneg sk; nlinarith) _
      (linComb_bounded hE0 sk es e0 E (he e0 (by simp)).2 (fun v hv => (he v (by simp [hv])).2)) t
    have hU1 : (0 : Int) < 2 ^ (b * (size - 1 - errLimb kpk b)) := two_pow_pos _
    have hU2 : (0 : Int) < 2 ^ (b * (size - 1 - errLimb kxe b)) := two_pow_pos _
    have a1 := abs_add_le ((Hal.negMul u epk).getD t 0 * 2 ^ (b * (size - 1 - errLimb kpk b))) ((linComb sk es e0).getD t 0 * 2 ^ (b * (size - 1 - errLimb kxe b)))
    rw [abs_mul, abs_mul, abs_of_pos hU1, abs_of_pos hU2] at a1
    have b1 := mul_le_mul_of_nonneg_right h1' (le_of_lt hU1)
    have b2 := mul_le_mul_of_nonneg_right h2' (le_of_lt hU2)
    have : (E + sumNorm1 sk * E) = (1 + sumNorm1 sk) * E := by ring
    rw [this] at b2
    linarith

/-- non-vacuity of `glwe_encrypt_pk_error`: the instance above; the key's phase is `[9, −49]` at the last limb -/
example : ∃ ct, Core.glweEncryptPk 64 3 6 2 2 5 [[[2, -3], [-2, 2]], [[1, -2], [3, 0]]] [1, 1] (some [[1, 2]]) [[1, 0], [0, -1]] = some ct := by
  have hr : HeadRoom 64 3 0 (2 ^ 62) := ⟨by norm_num, by norm_num, by norm_num, by norm_num, by norm_num⟩
  obtain ⟨ct, h1, _⟩ := glwe_encrypt_pk_error (bits := 64) (b := 3) (n := 2) (size := 2) (kxe := 5) (kpk := 5) (k := 6)
    (H := 2 ^ 62) (Hp := 8) (E := 1) (Epk := 49) (M := 2) (Or.inl rfl) hr (by norm_num) (by norm_num) (by norm_num) (by decide)
    [[2, -3], [-2, 2]] [[[1, -2], [3, 0]]] [[1, -1]] [1, 1] (some [[1, 2]]) [1, 0] [[0, -1]] [9, -49] rfl rfl
    (by
      intro pk hpk
      simp at hpk
      rcases hpk with rfl | rfl
      · refine ⟨rfl, by intro l hl; simp at hl; rcases hl with rfl | rfl <;> rfl, ?_⟩
        have : Core.colMulPoly [1, 1] [[2, -3], [-2, 2]] = [[5, -1], [-4, 0]] := by decide
        rw [this]; intro l hl x hx; simp at hl; rcases hl with rfl | rfl <;> simp at hx <;> rcases hx with rfl | rfl <;> norm_num
      · refine ⟨rfl, by intro l hl; simp at hl; rcases hl with rfl | rfl <;> rfl, ?_⟩
        have : Core.colMulPoly [1, 1] [[1, -2], [3, 0]] = [[3, -1], [3, 3]] := by decide
        rw [this]; intro l hl x hx; simp at hl; rcases hl with rfl | rfl <;> simp at hx <;> rcases hx with rfl | rfl <;> norm_num)
    (by intro e he; simp at he; rcases he with rfl | rfl <;> exact ⟨rfl, by intro x hx; simp at hx; rcases hx with rfl | rfl <;> norm_num⟩)
    ⟨rfl, by intro x hx; simp at hx; rcases hx with rfl | rfl <;> norm_num⟩
    (by
      intro p hp; simp at hp; subst hp
      refine ⟨by intro l hl; simp at hl; subst hl; rfl, ?_⟩
      intro t _ v hv
      simp [coefAt] at hv
      subst hv
      rcases t with _ | _ | t <;> simp)
    (by norm_num) (by norm_num) (by norm_num) (by norm_num) (by norm_num) (by norm_num)
    (by
      have hph : Core.phaseBig [[1, -1]] { base2k := 3, k := 6, n := 2, cols := [[[2, -3], [-2, 2]], [[1, -2], [3, 0]]] } = [[1, -6], [1, -1]] := by
        decide
      intro t ht
      refine ⟨0, ?_⟩
      rw [hph]
      rcases t with _ | _ | t
      · decide
      · decide
      · omega)
  exact ⟨ct, h1⟩

/-- **public-key noise bound in the explicit form of the secret-key one**: key and ciphertext at the same noise
precision `kxe`, all error integers within the rejection loop's post-condition `|e| ≤ E ≤ B·2^scale`
(`scale = (limb+1)·b − kxe`): the error term `x` of `glwe_encrypt_pk_error` (`|x| ≤ (1+‖u‖₁+Σ‖sᵢ‖₁)·E·U`)
satisfies `|x|·2^kxe ≤ B·(1 + ‖u‖₁ + Σ‖sᵢ‖₁)·2^(b·size)`, i.e. it is at most
`bound·(1 + ‖u‖₁ + Σ‖sᵢ‖₁)·2^-kxe` on the torus. -/
theorem glwe_encrypt_pk_noise_bound {b size kxe : Nat} {x E B : Int} (u : Poly) (sk : List Poly)
    (hlimb : errLimb kxe b < size) (hk : kxe ≤ (errLimb kxe b + 1) * b) (hE0 : 0 ≤ E)
    (hE : E ≤ B * 2 ^ ((errLimb kxe b + 1) * b - kxe))
    (hx : |x| ≤ norm1 u * E * 2 ^ (b * (size - 1 - errLimb kxe b)) + (1 + sumNorm1 sk) * E * 2 ^ (b * (size - 1 - errLimb kxe b))) :
    |x| * 2 ^ kxe ≤ B * (1 + norm1 u + sumNorm1 sk) * 2 ^ (b * size) := by
  have hN : 0 ≤ 1 + norm1 u + sumNorm1 sk := by have := norm1_nonneg u; have := sumNorm1_nonneg sk; linarith
  have hs := noise_scale (e := E) (B := B) hlimb hk (by rw [abs_of_nonneg hE0]; exact hE)
  have hU : (0 : Int) < 2 ^ (b * (size - 1 - errLimb kxe b)) := two_pow_pos _
  have hK : (0 : Int) < 2 ^ kxe := two_pow_pos _
  rw [abs_mul, abs_of_nonneg hE0, abs_of_pos hU] at hs
  have hx' : |x| ≤ (1 + norm1 u + sumNorm1 sk) * (E * 2 ^ (b * (size - 1 - errLimb kxe b))) := by
    have : norm1 u * E * 2 ^ (b * (size - 1 - errLimb kxe b)) + (1 + sumNorm1 sk) * E * 2 ^ (b * (size - 1 - errLimb kxe b))
        = (1 + norm1 u + sumNorm1 sk) * (E * 2 ^ (b * (size - 1 - errLimb kxe b))) := by ring
    rw [← this]; exact hx
  calc |x| * 2 ^ kxe ≤ (1 + norm1 u + sumNorm1 sk) * (E * 2 ^ (b * (size - 1 - errLimb kxe b))) * 2 ^ kxe :=
        mul_le_mul_of_nonneg_right hx' (le_of_lt hK)
    _ = (1 + norm1 u + sumNorm1 sk) * (E * 2 ^ (b * (size - 1 - errLimb kxe b)) * 2 ^ kxe) := by ring
    _ ≤ (1 + norm1 u + sumNorm1 sk) * (B * 2 ^ (b * size)) := mul_le_mul_of_nonneg_left hs hN
    _ = B * (1 + norm1 u + sumNorm1 sk) * 2 ^ (b * size) := by ring

/-- non-vacuity: radix 2^7, three limbs, precision 18 (scale 3), bound 20, ‖u‖₁ = 3, one secret of 1-norm 2 -/
example : |(-900 : Int)| * 2 ^ 18 ≤ 20 * (1 + norm1 [1, -1, 1, 0] + sumNorm1 [[1, 0, -1, 0]]) * 2 ^ (7 * 3) :=
  glwe_encrypt_pk_noise_bound (b := 7) (size := 3) (kxe := 18) (x := -900) (E := 150) (B := 20) [1, -1, 1, 0] [[1, 0, -1, 0]]
    (by decide) (by decide) (by norm_num) (by decide) (by decide)

/-! ### zero and rank-0 forms

`glwe_encrypt_zero_sk` is `Core.glweEncryptSk … none` and `glwe_encrypt_zero_pk` is `Core.glweEncryptPk … none`: the
theorems above hold for `m = none` (message value 0).  A rank-0 ciphertext has no mask (`masks = []`, `sk = []`):
its exact phase is its body.  `glwe_public_key_generate` is `glwe_encrypt_zero_sk` (its phase identity is the
hypothesis `hfresh` of `glwe_encrypt_pk_error`).  poulpy has no `lwe_encrypt_zero`. -/

/-- **`glwe_encrypt_zero_sk`** (and `glwe_public_key_generate`): the phase is the placed error, exactly on the torus -/
theorem glwe_encrypt_zero_sk_phase {bits b n size kxe k : Nat} {H E : Int}
    (hbits : bits = 64 ∨ bits = 128) (hr : HeadRoom bits b 0 H) (hb1 : 1 ≤ b) (hb : b ≤ 61)
    (hk : 1 ≤ kxe) (hlimb : errLimb kxe b < size)
    (masks : List Col) (sk : List Poly) (e : Poly)
    (hlen : masks.length = sk.length) (hmasks : ∀ a ∈ masks, a.length = size ∧ WF n a)
    (hprod : ProdBounded H masks sk) (he : e.length = n) (hE0 : 0 ≤ E) (heB : ∀ x ∈ e, |x| ≤ E)
    (hsum : (masks.length : Int) * 2 ^ (b - 1) + E ≤ 2 ^ 62) :
    ∃ body, Core.glweEncryptSk bits b k n size kxe masks none 0 sk e = some { base2k := b, k := k, n := n, cols := body :: masks } ∧
      ∀ t, t < n → ∃ K : Int, Core.valCoeff b (Core.phaseBig sk { base2k := b, k := k, n := n, cols := body :: masks }) t =
        e.getD t 0 * 2 ^ (b * (size - 1 - errLimb kxe b)) + K * 2 ^ (b * size) := by
  obtain ⟨body, h1, _, _, _, h5⟩ := glwe_encrypt_sk_phase (k := k) (M := 0) hbits hr hb1 hb hk hlimb masks sk none e hlen hmasks hprod 0
    (by intro h; cases h) (by intro p hp; cases hp) (le_refl 0) he hE0 heB (by linarith)
  refine ⟨body, h1, ?_⟩
  intro t ht
  obtain ⟨K, hK⟩ := h5 t ht
  exact ⟨K, by rw [hK]; simp [msgCoeff]⟩

example : ∃ body, Core.glweEncryptSk 64 3 6 2 2 5 [[[1, -2], [3, 0]]] none 0 [[1, -1]] [1, -1] = some { base2k := 3, k := 6, n := 2, cols := body :: [[[1, -2], [3, 0]]] } := by
  have hr : HeadRoom 64 3 0 (2 ^ 62) := ⟨by norm_num, by norm_num, by norm_num, by norm_num, by norm_num⟩
  obtain ⟨body, h1, _⟩ := glwe_encrypt_zero_sk_phase (bits := 64) (b := 3) (n := 2) (size := 2) (kxe := 5) (k := 6) (H := 2 ^ 62) (E := 1)
    (Or.inl rfl) hr (by norm_num) (by norm_num) (by norm_num) (by decide) [[[1, -2], [3, 0]]] [[1, -1]] [1, -1] rfl
    (by intro a ha; simp at ha; subst ha; exact ⟨rfl, by intro l hl; simp at hl; rcases hl with rfl | rfl <;> rfl⟩)
    (by
      refine ⟨?_, trivial⟩
      intro l hl x hx
      have : Core.colMulPoly [1, -1] [[1, -2], [3, 0]] = [[-1, -3], [3, -3]] := by decide
      rw [this] at hl
      simp at hl
      rcases hl with rfl | rfl <;> simp at hx <;> rcases hx with rfl | rfl <;> norm_num)
    rfl (by norm_num) (by intro x hx; simp at hx; rcases hx with rfl | rfl <;> norm_num) (by norm_num)
  exact ⟨body, h1⟩

/-- **rank 0 (plaintext-only GLWE)**: no mask, no secret — the body alone carries `message + error`, and the
exact phase under the empty secret is the body -/
theorem glwe_encrypt_sk_rank0 {bits b n size kxe k : Nat} {H E M : Int}
    (hbits : bits = 64 ∨ bits = 128) (hr : HeadRoom bits b 0 H) (hb1 : 1 ≤ b) (hb : b ≤ 61)
    (hk : 1 ≤ kxe) (hlimb : errLimb kxe b < size) (m : Option Col) (ptB : Nat) (hradix : m.isSome → ptB = b) (e : Poly)
    (hm : ∀ p, m = some p → WF n p ∧ CoefBounded n M p) (hM0 : 0 ≤ M)
    (he : e.length = n) (hE0 : 0 ≤ E) (heB : ∀ x ∈ e, |x| ≤ E) (hsum : E + M ≤ 2 ^ 62) :
    ∃ body, Core.glweEncryptSk bits b k n size kxe [] m ptB [] e = some { base2k := b, k := k, n := n, cols := [body] } ∧
      Core.phaseBig [] { base2k := b, k := k, n := n, cols := [body] } = body ∧
      ∀ t, t < n → ∃ K : Int, Core.valCoeff b body t =
        msgCoeff b n size m t + e.getD t 0 * 2 ^ (b * (size - 1 - errLimb kxe b)) + K * 2 ^ (b * size) := by
  obtain ⟨body, h1, _, _, _, h5⟩ := glwe_encrypt_sk_phase (k := k) hbits hr hb1 hb hk hlimb [] [] m e rfl (by intro a ha; cases ha) trivial ptB hradix
    hm hM0 he hE0 heB (by simpa using hsum)
  have hph : Core.phaseBig [] { base2k := b, k := k, n := n, cols := [body] } = body := by simp [Core.phaseBig]
  exact ⟨body, h1, hph, fun t ht => by rw [← hph]; exact h5 t ht⟩

example : ∃ body, Core.glweEncryptSk 64 3 6 2 2 5 [] (some [[1, 2]]) 3 [] [1, -1] = some { base2k := 3, k := 6, n := 2, cols := [body] } := by
  have hr : HeadRoom 64 3 0 (2 ^ 62) := ⟨by norm_num, by norm_num, by norm_num, by norm_num, by norm_num⟩
  obtain ⟨body, h1, _⟩ := glwe_encrypt_sk_rank0 (bits := 64) (b := 3) (n := 2) (size := 2) (kxe := 5) (k := 6) (H := 2 ^ 62) (E := 1) (M := 2)
    (Or.inl rfl) hr (by norm_num) (by norm_num) (by norm_num) (by decide) (some [[1, 2]]) 3 (fun _ => rfl) [1, -1]
    (by
      intro p hp; simp at hp; subst hp
      refine ⟨by intro l hl; simp at hl; subst hl; rfl, ?_⟩
      intro t _ v hv
      simp [coefAt] at hv
      subst hv
      rcases t with _ | _ | t <;> simp)
    (by norm_num) rfl (by norm_num) (by intro x hx; simp at hx; rcases hx with rfl | rfl <;> norm_num) (by norm_num)
  exact ⟨body, h1⟩

/-! ### LWE -/

/-- **`lwe_encrypt_sk` phase identity**: for every LWE dimension, radix `1 ≤ b ≤ 61`, size, noise precision with
an existing target limb, plaintext limbs of any number (in the ciphertext's radix), filled buffer, secret and
error within head-room (`P + D + E ≤ 2^62`: plaintext limbs, inner products, error): the encryption succeeds,
keeps the mask coefficients of the filled buffer, and the exact limb-wise phase `body + ⟨mask, s⟩` equals the
message truncated / zero-extended to the ciphertext size plus `e·2^(b(size−1−limb))`, modulo `2^(b·size)`. -/
theorem lwe_encrypt_sk_phase {b size kxe : Nat} {P D E : Int} (hb1 : 1 ≤ b) (hb : b ≤ 61) (hk : 1 ≤ kxe) (hlimb : errLimb kxe b < size)
    (filled : Col) (hf : filled.length = size) (pt : List Int) (sk : Poly) (e : Int)
    (hP : ∀ i, |pt.getD i 0| ≤ P) (hD : ∀ l ∈ filled, |dotZ (l.drop 1) sk| ≤ D) (hE : |e| ≤ E)
    (hP0 : 0 ≤ P) (hD0 : 0 ≤ D) (hE0 : 0 ≤ E) (hsum : P + D + E ≤ 2 ^ 62) :
    ∃ ct, Core.lweEncryptSk b size kxe filled pt b sk e = some ct ∧ ct.length = size ∧
      (∀ i (h : i < ct.length) (h' : i < filled.length), (ct[i]).drop 1 = (filled[i]).drop 1) ∧
      ∃ K : Int, valI b (lwePhaseBig ct sk) = valI b (lweMsg size pt) + e * 2 ^ (b * (size - 1 - errLimb kxe b)) + K * 2 ^ (b * size) :=
  lweEncryptSk_phase hb1 hb hk hlimb filled hf pt sk e hP hD hE hP0 hD0 hE0 hsum

/-- non-vacuity: LWE dimension 2, radix 2^3, two limbs, one plaintext limb, noise precision 5 -/
example : ∃ ct, Core.lweEncryptSk 3 2 5 [[0, 1, -2], [9, 3, 0]] [2] 3 [1, -1] (-1) = some ct ∧
    ∃ K : Int, valI 3 (lwePhaseBig ct [1, -1]) = valI 3 (lweMsg 2 [2]) + (-1) * 2 ^ (3 * (2 - 1 - errLimb 5 3)) + K * 2 ^ (3 * 2) := by
  obtain ⟨ct, h1, _, _, h2⟩ := lwe_encrypt_sk_phase (b := 3) (size := 2) (kxe := 5) (P := 2) (D := 3) (E := 1) (by norm_num) (by norm_num)
    (by norm_num) (by decide) [[0, 1, -2], [9, 3, 0]] rfl [2] [1, -1] (-1)
    (by intro i; rcases i with _ | i <;> simp)
    (by intro l hl; simp at hl; rcases hl with rfl | rfl <;> simp [dotZ])
    (by norm_num) (by norm_num) (by norm_num) (by norm_num) (by norm_num)
  exact ⟨ct, h1, h2⟩

/-- **`lwe_decrypt` = normalisation of the exact phase** when the accumulation does not wrap -/
theorem lwe_decrypt_is_normalized_phase (b : Nat) (ct : Col) (sk : Poly) (pb ps : Nat)
    (hD : ∀ l ∈ ct, |dotZ (l.drop 1) sk| < 2 ^ 63) (hP : ∀ l ∈ ct, |l.getD 0 0 + dotZ (l.drop 1) sk| < 2 ^ 63) :
    Core.lweDecrypt b ct sk pb ps = normalizeCol? pb ps 0 ((lwePhaseBig ct sk).map (fun x => [x])) b 1 := by
  unfold Core.lweDecrypt lwePhaseBig
  rw [List.map_map]
  have hmap : List.map (fun l => [w64 (List.getD l 0 0 + Core.dotW (List.drop 1 l) sk)]) ct
      = List.map ((fun x => [x]) ∘ fun l => List.getD l 0 0 + dotZ (List.drop 1 l) sk) ct := by
    apply List.map_congr_left
    intro l hl
    simp only [Function.comp, dotW_eq, w64_id (hD l hl), w64_id (hP l hl)]
  simp only [hmap]

example : Core.lweDecrypt 3 [[1, 1, -2], [3, 3, 0]] [1, -1] 3 1
    = normalizeCol? 3 1 0 ((lwePhaseBig [[1, 1, -2], [3, 3, 0]] [1, -1]).map (fun x => [x])) 3 1 :=
  lwe_decrypt_is_normalized_phase 3 _ _ 3 1
    (by intro l hl; simp at hl; rcases hl with rfl | rfl <;> simp [dotZ])
    (by intro l hl; simp at hl; rcases hl with rfl | rfl <;> simp [dotZ])

/-! ### a plaintext of another radix is refused -/

/-- **a plaintext whose radix differs from the ciphertext's is refused** (the assertion added to
`glwe_encrypt_sk_internal` / `lwe_encrypt_sk` by the repair of finding
`glwe_encrypt_sk/lwe_encrypt_sk:plaintext-base2k-ignored`): the routines add the plaintext limbs as they
are, so the message-position clause can only hold for limbs given in the ciphertext's radix; every other
call is a panic, never a silently misplaced message.  Holds for `glwe_encrypt_sk`, its stream form, the
compressed form and `lwe_encrypt_sk`. -/
theorem encrypt_sk_radix_mismatch_panics (bits b k n size kxe rank : Nat) (masks : List Col) (p : Col) (ptB : Nat) (hne : ptB ≠ b)
    (sk : List Poly) (xa : List Nat) (e : Poly) (filled : Col) (ptl : List Int) (skl : Poly) (el : Int) :
    Core.glweEncryptSk bits b k n size kxe masks (some p) ptB sk e = none ∧
    Core.glweEncryptSkS bits b k n size kxe rank (some p) ptB sk xa e = none ∧
    Core.glweEncryptCompressed bits b k n size kxe rank (some p) ptB sk xa e = none ∧
    Core.lweEncryptSk b size kxe filled ptl ptB skl el = none := by
  have hok : Core.ptRadixOk (some p) ptB b = false := by simp [Core.ptRadixOk, hne]
  refine ⟨?_, ?_, ?_, ?_⟩
  · unfold Core.glweEncryptSk; split <;> simp [hok]
  · unfold Core.glweEncryptSkS; split <;> simp [hok]
  · unfold Core.glweEncryptCompressed; split <;> simp [hok]
  · unfold Core.lweEncryptSk; simp [hne]

/-- the instance that used to be the counterexample: a radix-2^1 plaintext handed to a radix-2^2 ciphertext -/
example : Core.glweEncryptSk 64 2 2 1 1 2 [] (some [[1]]) 1 [] [0] = none :=
  (encrypt_sk_radix_mismatch_panics 64 2 2 1 1 2 0 [] [[1]] 1 (by decide) [] [] [0] [] [] [] 0).1

/-! ### the norm inequality used by the public-key bound -/

/-- **‖p ⋆ q‖∞ ≤ ‖p‖₁ · ‖q‖∞** for the exact negacyclic product `Hal.negMul` (any lengths) -/
theorem negMul_norm_inequality {B : Int} (p q : Poly) (hq : ∀ y ∈ q, |y| ≤ B) :
    ∀ x ∈ Hal.negMul p q, |x| ≤ norm1 p * B :=
  negMul_bound p q hq

example : ∀ x ∈ Hal.negMul [1, -1, 0, 1] [5, -7, 2, 7], |x| ≤ norm1 [1, -1, 0, 1] * 7 :=
  negMul_norm_inequality _ _ (by intro y hy; simp at hy; rcases hy with rfl | rfl | rfl | rfl <;> norm_num)

/-- head-room of the products `sᵢ ⋆ aᵢ` from `‖sᵢ‖₁` and normalised masks: the hypothesis
`ProdBounded` of `glwe_encrypt_sk_phase` holds whenever `‖sᵢ‖₁ · B ≤ H` and `‖aᵢ‖∞ ≤ B` -/
theorem prod_bounded_of_norms {H B : Int} (masks : List Col) (sk : List Poly)
    (ha : ∀ a ∈ masks, Bounded B a) (hs : ∀ s ∈ sk, norm1 s * B ≤ H) : ProdBounded H masks sk :=
  prodBounded_of_norm masks sk ha hs

example : ProdBounded 8 [[[1, -2], [3, 0]]] [[1, -1]] :=
  prod_bounded_of_norms (B := 3) _ _
    (by intro a ha l hl x hx; simp at ha; subst ha; simp at hl; rcases hl with rfl | rfl <;> simp at hx <;> rcases hx with rfl | rfl <;> norm_num)
    (by intro s hs; simp at hs; subst hs; decide)

/-! ## Key generation is encryption: the generated keys satisfy the key hypotheses of the consumers

`KeyWellFormed n b dsize size kxe dnum colsIn mat sOut msg err` (`Lemmas/KeyEntry.lean`): `mat` has the dimensions the routine was called
with (`rows = dnum`, `colsIn`, `colsOut = |sOut| + 1`, `size`), every row `r < dnum` has its gadget position inside the ciphertext
(`(r+1)·dsize ≤ size` — message limb `ptLimb = (dsize−1) + r·dsize`) and entries of `n` coefficients, and there is `KL` (polynomials of `n`
coefficients) with `KeyOk`: for every input column `i` and row `r`

  `Gadget.val (2^b) size (Ks.keyPhase n sOut mat i r) = msg i · (2^b)^(size − (r+1)·dsize) + ι (2^(b·(size−1−errLimb))·err i r) + (2^b)^size · ι (KL i r)`

i.e. exactly `hkey` of `C03.glwe_keyswitch_decrypts` / `glwe_automorphism_decrypts` / `KsSide` (`EL` explicit), and with
`E i r := ι(…) + β^S ι(KL i r)` `hkey` of `C04.ep_decrypts`, `C05.relin_decrypts` / `glwe_mul_decrypts`, `C03.ggsw_cells_value`
(`key_hypothesis_ks`, `key_hypothesis_ep`, `ks_side_of_generated_key`).  `KeyCtx bits b n size kxe rank H E`: back end, `1 ≤ b ≤ 61`,
noise precision with an existing target limb, `0 < n`, head-room `H` of the normalisations, sampler contract `|e| ≤ E` with
`rank·2^(b−1) + E + 2^(b−1) ≤ 2^62`.  `ErrOk n E es cnt`: the first `cnt` error polynomials have `n` coefficients bounded by `E`.
`tmp0` is the content of the routine's scratch temporary on entry (any well-shaped column). -/

open Ks in
/-- **`gglwe_encrypt_sk`** (every shape): well formed with `s_in_i = pts_i`, error of cell `(r, i)` = the `(i·dnum + r)`-th draw of `source_xe` -/
theorem gglwe_encrypt_sk_wellformed {bits b n size kxe rankOut rankIn dnum dsize : Nat} {H E : Int}
    (c : KeyCtx bits b n size kxe rankOut H E) (hd : 1 ≤ dsize) (tmp0 : Col) (htl : tmp0.length = size) (htw : WF n tmp0)
    (sk : List Poly) (hsk : ∀ s ∈ sk, norm1 s * 2 ^ (b - 1) ≤ H)
    (pts : List Poly) (hpts : ∀ i, i < rankIn → ScalarOk n (pts.getD i []))
    (xa : List Nat) (es : List Poly) (hes : ErrOk n E es (rankIn * dnum))
    (cells : List (Nat × List Col)) (xa' : List Nat) (es' : List Poly)
    (h : Core.gglweEncryptSkT tmp0 bits b n size kxe rankOut rankIn dnum dsize pts sk xa es = some (cells, xa', es')) :
    es' = es.drop (rankIn * dnum) ∧
    KeyWellFormed n b dsize size kxe dnum rankIn (Core.keyMat n dnum rankIn (rankOut + 1) size cells) sk
      (fun i => ι n (pts.getD i [])) (fun i r => es.getD (i * dnum + r) []) :=
  gglweEncryptSk_wellformed c hd tmp0 htl htw sk hsk pts hpts xa es hes cells xa' es' h

/-- non-vacuity: rank 1→1, two rows, radix 2^3, N = 2, FFT64 accumulator: the routine returns, the context and all hypotheses hold -/
example : ∃ cells xa' es', Core.gglweEncryptSkT [[0, 0], [0, 0]] 64 3 2 2 5 1 1 2 1 [[1, 0]] [[1, -1]] [1, 2, 3, 4, 5, 6, 7, 8] [[0, 1], [1, 0]]
      = some (cells, xa', es') ∧ es' = [] ∧
    ∃ KL : Nat → Nat → Poly, KeyOk 2 3 1 (Core.keyMat 2 2 1 2 2 cells) [[1, -1]] (fun i => Ks.ι 2 (([[1, 0]] : List Poly).getD i []))
      (fun i r => Hal.polyScale (2 ^ (3 * (2 - 1 - errLimb 5 3))) (([[0, 1], [1, 0]] : List Poly).getD (i * 2 + r) [])) KL := by
  have hc : KeyCtx 64 3 2 2 5 1 (2 ^ 62) 1 :=
    ⟨Or.inl rfl, headRoom64 (by norm_num) (by norm_num), by norm_num, by norm_num, by norm_num, by decide, by norm_num, by norm_num, by norm_num⟩
  have hs : (Core.gglweEncryptSkT [[0, 0], [0, 0]] 64 3 2 2 5 1 1 2 1 [[1, 0]] [[1, -1]] [1, 2, 3, 4, 5, 6, 7, 8] [[0, 1], [1, 0]]).isSome := by
    decide
  obtain ⟨⟨cells, xa', es'⟩, hrun⟩ := Option.isSome_iff_exists.mp hs
  obtain ⟨h1, _, _, _, _, _, _, KL, _, h3⟩ := gglwe_encrypt_sk_wellformed hc (le_refl 1) [[0, 0], [0, 0]] rfl
    (by intro l hl; simp at hl; subst hl; rfl) [[1, -1]] (by intro s hs; simp at hs; subst hs; norm_num [norm1])
    [[1, 0]] (by intro i hi; have : i = 0 := by omega
                 subst this; exact ⟨rfl, by intro x hx; simp at hx; rcases hx with rfl | rfl <;> norm_num⟩)
    [1, 2, 3, 4, 5, 6, 7, 8] [[0, 1], [1, 0]]
    (by intro k hk
        have : k = 0 ∨ k = 1 := by omega
        rcases this with rfl | rfl <;> exact ⟨rfl, by intro x hx; simp at hx; rcases hx with rfl | rfl <;> norm_num⟩)
    _ _ _ hrun
  exact ⟨cells, xa', es', hrun, by rw [h1]; rfl, KL, h3⟩

open Ks in
/-- **`ggsw_encrypt_sk`** (every shape): cell `(r, 0)` has phase `pt·gadget_r + e`, cell `(r, c+1)` has phase `pt·s_c·gadget_r + e` -/
theorem ggsw_encrypt_sk_wellformed {bits b n size kxe rank dnum dsize : Nat} {H E : Int}
    (c : KeyCtx bits b n size kxe rank H E) (hd : 1 ≤ dsize) (tmp0 : Col) (htl : tmp0.length = size) (htw : WF n tmp0)
    (sk : List Poly) (hsk : ∀ s ∈ sk, norm1 s * 2 ^ (b - 1) ≤ H) (pt : Poly) (hpt : ScalarOk n pt)
    (xa : List Nat) (es : List Poly) (hes : ErrOk n E es (dnum * (rank + 1)))
    (cells : List (Nat × List Col)) (xa' : List Nat) (es' : List Poly)
    (h : Core.ggswEncryptSkT tmp0 bits b n size kxe rank dnum dsize pt sk xa es = some (cells, xa', es')) :
    es' = es.drop (dnum * (rank + 1)) ∧
    KeyWellFormed n b dsize size kxe dnum (rank + 1) (Core.keyMat n dnum (rank + 1) (rank + 1) size cells) sk
      (fun i => (if i = 0 then 1 else ι n (sk.getD (i - 1) [])) * ι n pt) (fun i r => es.getD (r * (rank + 1) + i) []) :=
  ggswEncryptSk_wellformed c hd tmp0 htl htw sk hsk pt hpt xa es hes cells xa' es' h

example : (Core.ggswEncryptSkT [[0, 0], [0, 0]] 64 3 2 2 5 1 1 1 [1, 0] [[1, -1]] [1, 2, 3, 4, 5, 6, 7, 8] [[0, 1], [1, 0]]).map (·.1)
    = some [(0, [[[-2, -1], [1, 0]], [[-3, -2], [-1, 0]]]), (1, [[[-2, -1], [2, -1]], [[1, 2], [3, -4]]])] := by decide

open Ks in
/-- **compressed forms**: the decompressed cells of `gglwe_compressed_encrypt_sk` / `ggsw_compressed_encrypt_sk` (and of every compressed key
wrapper, which calls them on the same scalars and secret — switching, automorphism, tensor keys; each GGSW of the compressed blind-rotation
key, C19 `brk_subkeys_eq`; each sub-key of the compressed GGLWE→GGSW key, `g2g_subkeys_eq`) satisfy the same statement -/
theorem compressed_keys_wellformed {bits b n size kxe rankOut rankIn rank dnum dsize : Nat} {H E : Int} (hd : 1 ≤ dsize)
    (tmp0 : Col) (htl : tmp0.length = size) (htw : WF n tmp0) (expand : List Nat → List Nat) (seedXa : List Nat) (es : List Poly) :
    (∀ (_c : KeyCtx bits b n size kxe rankOut H E) (sk : List Poly) (_ : sk.length = rankOut) (_ : ∀ s ∈ sk, norm1 s * 2 ^ (b - 1) ≤ H)
      (pts : List Poly) (_ : ∀ i, i < rankIn → ScalarOk n (pts.getD i [])) (_ : ErrOk n E es (rankIn * dnum))
      (cc : List (Nat × Core.CellC)) (cells : List (Nat × List Col)),
      Core.gglweEncryptCompressedT tmp0 bits b n size kxe rankOut rankIn dnum dsize pts sk expand seedXa es = some cc →
      Core.decompressCells b n rankOut expand cc = some cells →
      KeyWellFormed n b dsize size kxe dnum rankIn (Core.keyMat n dnum rankIn (rankOut + 1) size cells) sk
        (fun i => ι n (pts.getD i [])) (fun i r => es.getD (i * dnum + r) [])) ∧
    (∀ (_c : KeyCtx bits b n size kxe rank H E) (sk : List Poly) (_ : sk.length = rank) (_ : ∀ s ∈ sk, norm1 s * 2 ^ (b - 1) ≤ H)
      (pt : Poly) (_ : ScalarOk n pt) (_ : ErrOk n E es (dnum * (rank + 1)))
      (cc : List (Nat × Core.CellC)) (cells : List (Nat × List Col)),
      Core.ggswEncryptCompressedT tmp0 bits b n size kxe rank dnum dsize pt sk expand seedXa es = some cc →
      Core.decompressCells b n rank expand cc = some cells →
      KeyWellFormed n b dsize size kxe dnum (rank + 1) (Core.keyMat n dnum (rank + 1) (rank + 1) size cells) sk
        (fun i => (if i = 0 then 1 else ι n (sk.getD (i - 1) [])) * ι n pt) (fun i r => es.getD (r * (rank + 1) + i) [])) :=
  ⟨fun c sk hskl hsk pts hpts hes cc cells h hdec =>
      gglweCompressed_wellformed c hd tmp0 htl htw sk hskl hsk pts hpts expand seedXa es hes cc cells h hdec,
   fun c sk hskl hsk pt hpt hes cc cells h hdec =>
      ggswCompressed_wellformed c hd tmp0 htl htw sk hskl hsk pt hpt expand seedXa es hes cc cells h hdec⟩

example : ((Core.gglweEncryptCompressedT [[7, 7], [9, 9]] 64 3 2 2 5 1 1 2 1 [[1, 0]] [[1, -1]] (fun s => s ++ [1, 2, 3, 4, 5, 6, 7, 8, 9, 10])
    [1, 2, 3, 4, 5, 6, 7, 8] [[0, 1], [1, 0]]).bind (Core.decompressCells 3 2 1 (fun s => s ++ [1, 2, 3, 4, 5, 6, 7, 8, 9, 10]))).isSome := by decide

open Ks in
/-- **`glwe_switching_key_encrypt_sk`**: `s_in = sk_in` under `sk_out` -/
theorem glwe_switching_key_encrypt_sk_wellformed {bits b n size kxe rankOut rankIn dnum dsize : Nat} {H E : Int}
    (c : KeyCtx bits b n size kxe rankOut H E) (hd : 1 ≤ dsize) (tmp0 : Col) (htl : tmp0.length = size) (htw : WF n tmp0)
    (skIn skOut : List Poly) (hin : ∀ s ∈ skIn, ScalarOk n s) (hout : ∀ s ∈ skOut, s.length = n ∧ norm1 s * 2 ^ (b - 1) ≤ H)
    (xa : List Nat) (es : List Poly) (hes : ErrOk n E es (rankIn * dnum))
    (cells : List (Nat × List Col)) (xa' : List Nat) (es' : List Poly)
    (h : Core.glweSwitchingKeyEncryptSk tmp0 bits b n size kxe rankOut rankIn dnum dsize skIn skOut xa es = some (cells, xa', es')) :
    es' = es.drop (rankIn * dnum) ∧ skIn.length = rankIn ∧
    KeyWellFormed n b dsize size kxe dnum rankIn (Core.keyMat n dnum rankIn (rankOut + 1) size cells) skOut
      (fun i => ι n (skIn.getD i [])) (fun i r => es.getD (i * dnum + r) []) :=
  glweSwitchingKey_wellformed c hd tmp0 htl htw skIn skOut hin hout xa es hes cells xa' es' h

example : (Core.glweSwitchingKeyEncryptSk [[0, 0], [0, 0]] 64 3 2 2 5 1 1 1 1 [[1, 0]] [[1, -1]] [1, 2, 3, 4] [[0, 1]]).map (·.1)
    = some [(0, [[[-2, -1], [1, 0]], [[-3, -2], [-1, 0]]])] := by decide

open Ks in
/-- **`glwe_switching_key_encrypt_sk`, secrets of ANY ring degree dividing `n`** (the API asserts only `sk.n() ≤ module.n()`): every column of
both secrets is embedded by `vec_znx_switch_ring` (`X ↦ X^(n/deg)`, column `i` from column `i`); the key is well formed with
`s_in = ` the EMBEDDED input secret under the EMBEDDED output secret -/
theorem glwe_switching_key_encrypt_sk_wellformed_any_degree {bits b n size kxe rankOut rankIn dnum dsize : Nat} {H E : Int}
    (c : KeyCtx bits b n size kxe rankOut H E) (hd : 1 ≤ dsize) (tmp0 : Col) (htl : tmp0.length = size) (htw : WF n tmp0)
    (skIn skOut : List Poly) (hin : ∀ s ∈ skIn, 0 < s.length ∧ s.length ∣ n ∧ ∀ x ∈ s, |x| ≤ 2 ^ 62)
    (hout : ∀ s ∈ skOut, 0 < s.length ∧ s.length ∣ n ∧ norm1 s * 2 ^ (b - 1) ≤ H)
    (xa : List Nat) (es : List Poly) (hes : ErrOk n E es (rankIn * dnum))
    (cells : List (Nat × List Col)) (xa' : List Nat) (es' : List Poly)
    (h : Core.glweSwitchingKeyEncryptSk tmp0 bits b n size kxe rankOut rankIn dnum dsize skIn skOut xa es = some (cells, xa', es')) :
    es' = es.drop (rankIn * dnum) ∧ skIn.length = rankIn ∧ skOut.length = rankOut ∧
    KeyWellFormed n b dsize size kxe dnum rankIn (Core.keyMat n dnum rankIn (rankOut + 1) size cells) (skOut.map (znxSwitchRing n))
      (fun i => ι n ((skIn.map (znxSwitchRing n)).getD i [])) (fun i r => es.getD (i * dnum + r) []) :=
  glweSwitchingKey_wellformed_deg c hd tmp0 htl htw skIn skOut hin hout xa es hes cells xa' es' h

/-- non-vacuity: `n = 4`, input secret of degree 2, output secret of rank 2 and degree 2 — the two output columns are embedded separately -/
example : (Core.glweSwitchingKeyEncryptSk [[0, 0, 0, 0], [0, 0, 0, 0]] 64 3 4 2 5 2 1 1 1 [[1, -1]] [[1, 0], [0, 1]]
      [1, 2, 3, 4, 5, 6, 7, 8, 9, 10, 11, 12, 13, 14, 15, 16] [[0, 1, 0, 0]]).isSome ∧
    ([[1, 0], [0, 1]] : List Poly).map (znxSwitchRing 4) = [[1, 0, 0, 0], [0, 0, 1, 0]] ∧ ([[1, -1]] : List Poly).map (znxSwitchRing 4) = [[1, 0, -1, 0]] := by
  decide

open Ks in
/-- **`glwe_automorphism_key_encrypt_sk`**: `s_in = sk` under `σ_{p⁻¹}(sk)`, `p⁻¹ = galois_element_inv(p)` modulo `2n` -/
theorem glwe_automorphism_key_encrypt_sk_wellformed {bits b n size kxe rank dnum dsize : Nat} {H E : Int}
    (c : KeyCtx bits b n size kxe rank H E) (hd : 1 ≤ dsize) (tmp0 : Col) (htl : tmp0.length = size) (htw : WF n tmp0) (p : Int)
    (sk : List Poly) (hsk : ∀ s ∈ sk, ScalarOk n s) (hskn : ∀ g, ∀ s ∈ sk, norm1 (AutoMul.σ g s) * 2 ^ (b - 1) ≤ H)
    (xa : List Nat) (es : List Poly) (hes : ErrOk n E es (rank * dnum))
    (cells : List (Nat × List Col)) (xa' : List Nat) (es' : List Poly)
    (h : Core.glweAutomorphismKeyEncryptSk tmp0 bits b n size kxe rank dnum dsize p sk xa es = some (cells, xa', es')) :
    ∃ gInv, galoisElementInv p (2 * (n : Int)) = Outcome.ok gInv ∧ es' = es.drop (rank * dnum) ∧ sk.length = rank ∧
      KeyWellFormed n b dsize size kxe dnum rank (Core.keyMat n dnum rank (rank + 1) size cells) (sk.map (AutoMul.σ gInv))
        (fun i => ι n (sk.getD i [])) (fun i r => es.getD (i * dnum + r) []) :=
  glweAutomorphismKey_wellformed c hd tmp0 htl htw p sk hsk hskn xa es hes cells xa' es' h

example : (Core.glweAutomorphismKeyEncryptSk [[0, 0], [0, 0]] 64 3 2 2 5 1 1 1 3 [[1, -1]] [1, 2, 3, 4] [[0, 1]]).map (·.1)
    = some [(0, [[[2, -4], [1, 2]], [[-3, -2], [-1, 0]]])] := by decide +kernel

open Ks in
/-- **`glwe_tensor_key_encrypt_sk`**: `s_in` = the entries of the tensor secret; entry `(a, c)`, `a ≤ c`, sits at input column
`a·rank + c − a(a+1)/2` and is `s_a ⋆ s_c` whenever no coefficient of the product reaches `2^16` (the tensor secret keeps ONE limb of radix
`2^17`; beyond that the routine encrypts the product reduced modulo `2^17`) -/
theorem glwe_tensor_key_encrypt_sk_wellformed {bits b n size kxe rank dnum dsize : Nat} {H E Hp : Int}
    (c : KeyCtx bits b n size kxe rank H E) (hd : 1 ≤ dsize) (hr17 : HeadRoom bits 17 0 Hp)
    (tmp0 : Col) (htl : tmp0.length = size) (htw : WF n tmp0)
    (sk : List Poly) (hsk : ∀ s ∈ sk, s.length = n ∧ norm1 s * 2 ^ (b - 1) ≤ H)
    (hprod : ∀ i j, ∀ x ∈ Hal.negMul (sk.getD j []) (sk.getD i []), |x| ≤ Hp)
    (xa : List Nat) (es : List Poly) (hes : ErrOk n E es ((tensorPairs sk.length).length * dnum))
    (cells : List (Nat × List Col)) (xa' : List Nat) (es' : List Poly)
    (h : Core.glweTensorKeyEncryptSk tmp0 bits b n size kxe rank dnum dsize sk xa es = some (cells, xa', es')) :
    ∃ pts, Core.tensorSecret bits n sk = some pts ∧ pts.length = (tensorPairs sk.length).length ∧ es' = es.drop (pts.length * dnum) ∧
      KeyWellFormed n b dsize size kxe dnum pts.length (Core.keyMat n dnum pts.length (rank + 1) size cells) sk
        (fun i => ι n (pts.getD i [])) (fun i r => es.getD (i * dnum + r) []) ∧
      ∀ a c', a ≤ c' → c' < sk.length → (∀ x ∈ Hal.negMul (sk.getD c' []) (sk.getD a []), |x| < 2 ^ 16) →
        ι n (pts.getD (a * sk.length + c' - a * (a + 1) / 2) []) = ι n (sk.getD a []) * ι n (sk.getD c' []) :=
  glweTensorKey_wellformed c hd hr17 tmp0 htl htw sk hsk hprod xa es hes cells xa' es' h

example : (Core.glweTensorKeyEncryptSk [[0, 0], [0, 0]] 64 3 2 2 5 1 1 1 [[1, -1]] [1, 2, 3, 4] [[0, 1]]).map (·.1)
    = some [(0, [[[-3, -3], [1, 0]], [[-3, -2], [-1, 0]]])] ∧ tensorPairs 2 = [(0, 0), (0, 1), (1, 1)] := by decide

open Ks in
/-- **`gglwe_to_ggsw_key_encrypt_sk`**: sub-key `i` has `s_in_j = at(i, j)` (`= s_i ⋆ s_j` when exact, `tensorAt_spec`), errors
`i·rank·dnum + (j·dnum + r)` of the running error source -/
theorem gglwe_to_ggsw_key_encrypt_sk_wellformed {bits b n size kxe rank dnum dsize : Nat} {H E Hp : Int}
    (c : KeyCtx bits b n size kxe rank H E) (hd : 1 ≤ dsize) (hr17 : HeadRoom bits 17 0 Hp)
    (tmp0 : Col) (htl : tmp0.length = size) (htw : WF n tmp0)
    (sk : List Poly) (hskr : sk.length = rank) (hsk : ∀ s ∈ sk, s.length = n ∧ norm1 s * 2 ^ (b - 1) ≤ H)
    (hprod : ∀ i j, ∀ x ∈ Hal.negMul (sk.getD j []) (sk.getD i []), |x| ≤ Hp)
    (xa : List Nat) (es : List Poly) (hes : ErrOk n E es (rank * (rank * dnum)))
    (out : List (List (Nat × List Col))) (xa' : List Nat) (es' : List Poly)
    (h : Core.gglweToGgswKeyEncryptSk tmp0 bits b n size kxe rank dnum dsize sk xa es = some (out, xa', es')) :
    ∃ pts, Core.tensorSecret bits n sk = some pts ∧ out.length = rank ∧ es' = es.drop (rank * (rank * dnum)) ∧
      (∀ i, i < rank → ∃ cells, out[i]? = some cells ∧
        KeyWellFormed n b dsize size kxe dnum rank (Core.keyMat n dnum rank (rank + 1) size cells) sk
          (fun j => ι n (Core.tensorAt rank pts i j)) (fun j r => es.getD (i * (rank * dnum) + (j * dnum + r)) [])) ∧
      ∀ i j, i < rank → j < rank → (∀ x ∈ Hal.negMul (sk.getD (max i j) []) (sk.getD (min i j) []), |x| < 2 ^ 16) →
        ι n (Core.tensorAt rank pts i j) = ι n (sk.getD i []) * ι n (sk.getD j []) := by
  unfold Core.gglweToGgswKeyEncryptSk at h
  cases ht : Core.tensorSecret bits n sk with
  | none => simp [ht] at h
  | some pts =>
    simp only [ht] at h
    obtain ⟨h1, h2, h3⟩ := g2gStdLoop_wellformed c hd hr17 tmp0 htl htw sk hskr hsk hprod pts ht (List.range rank)
      (by intro i hi; simpa using hi) xa es (by simpa using hes) out xa' es' h
    refine ⟨pts, rfl, by simpa using h1, by simpa using h2, ?_, ?_⟩
    · intro i hi
      exact h3 i i (by simp [hi])
    · intro i j hi hj hsmall
      have := (tensorAt_spec c.hbits hr17 c.hn sk (fun s hs => (hsk s hs).1) hprod pts ht i j (by omega) (by omega)).2 hsmall
      rwa [hskr] at this

example : (Core.gglweToGgswKeyEncryptSk [[0, 0], [0, 0]] 64 3 2 2 5 1 1 1 [[1, -1]] [1, 2, 3, 4] [[0, 1]]).map (fun r => r.1.map (fun c => c.map (·.1)))
    = some [[0]] := by decide

open Ks in
/-- **the LWE-related keys**: `lwe_switching_key_encrypt_sk` (`s_in = embSk n sk_in` under `embSk n sk_out`, each secret zero-padded from
ITS OWN dimension), `glwe_to_lwe_key_encrypt_sk` (`s_in = sk_glwe` under `embSk n sk_lwe`), `lwe_to_glwe_key_encrypt_sk`
(`s_in = embSk n sk_lwe` under `sk_glwe`); `embSk n s = [σ_{−1}(s padded to n)]` is the embedding of `C03.lwe_keyswitch_decrypts` /
`glwe_to_lwe_decrypts` -/
theorem lwe_keys_encrypt_sk_wellformed {bits b n size kxe rankOut rankIn dnum : Nat} {H E : Int}
    (tmp0 : Col) (htl : tmp0.length = size) (htw : WF n tmp0) (xa : List Nat) (es : List Poly)
    (cells : List (Nat × List Col)) (xa' : List Nat) (es' : List Poly) :
    (∀ (_c : KeyCtx bits b n size kxe 1 H E) (skIn skOut : Poly) (_ : ∀ x ∈ skIn, |x| ≤ 2 ^ 62) (_ : ∀ x ∈ skOut, |x| ≤ 2 ^ 62)
      (_ : ∀ s ∈ KsDec.embSk n skOut, norm1 s * 2 ^ (b - 1) ≤ H) (_ : ErrOk n E es (1 * dnum)),
      Core.lweSwitchingKeyEncryptSk tmp0 bits b n size kxe dnum skIn skOut xa es = some (cells, xa', es') →
      skIn.length ≤ n ∧ skOut.length ≤ n ∧ es' = es.drop (1 * dnum) ∧
      KeyWellFormed n b 1 size kxe dnum 1 (Core.keyMat n dnum 1 2 size cells) (KsDec.embSk n skOut)
        (fun i => ι n ((KsDec.embSk n skIn).getD i [])) (fun i r => es.getD (i * dnum + r) [])) ∧
    (∀ (_c : KeyCtx bits b n size kxe 1 H E) (skLwe : Poly) (_ : ∀ x ∈ skLwe, |x| ≤ 2 ^ 62)
      (_ : ∀ s ∈ KsDec.embSk n skLwe, norm1 s * 2 ^ (b - 1) ≤ H) (skGlwe : List Poly) (_ : ∀ s ∈ skGlwe, ScalarOk n s)
      (_ : ErrOk n E es (rankIn * dnum)),
      Core.glweToLweKeyEncryptSk tmp0 bits b n size kxe rankIn dnum skLwe skGlwe xa es = some (cells, xa', es') →
      skLwe.length ≤ n ∧ es' = es.drop (rankIn * dnum) ∧ skGlwe.length = rankIn ∧
      KeyWellFormed n b 1 size kxe dnum rankIn (Core.keyMat n dnum rankIn 2 size cells) (KsDec.embSk n skLwe)
        (fun i => ι n (skGlwe.getD i [])) (fun i r => es.getD (i * dnum + r) [])) ∧
    (∀ (_c : KeyCtx bits b n size kxe rankOut H E) (skLwe : Poly) (_ : ∀ x ∈ skLwe, |x| ≤ 2 ^ 62)
      (skGlwe : List Poly) (_ : ∀ s ∈ skGlwe, norm1 s * 2 ^ (b - 1) ≤ H) (_ : ErrOk n E es (1 * dnum)),
      Core.lweToGlweKeyEncryptSk tmp0 bits b n size kxe rankOut dnum skLwe skGlwe xa es = some (cells, xa', es') →
      skLwe.length ≤ n ∧ es' = es.drop (1 * dnum) ∧
      KeyWellFormed n b 1 size kxe dnum 1 (Core.keyMat n dnum 1 (rankOut + 1) size cells) skGlwe
        (fun i => ι n ((KsDec.embSk n skLwe).getD i [])) (fun i r => es.getD (i * dnum + r) [])) :=
  ⟨fun c skIn skOut hin hout houtn hes h => lweSwitchingKey_wellformed c tmp0 htl htw skIn skOut hin hout houtn xa es hes cells xa' es' h,
   fun c skLwe hlwe hlwen skGlwe hin hes h => glweToLweKey_wellformed c tmp0 htl htw skLwe hlwe hlwen skGlwe hin xa es hes cells xa' es' h,
   fun c skLwe hlwe skGlwe hout hes h => lweToGlweKey_wellformed c tmp0 htl htw skLwe hlwe skGlwe hout xa es hes cells xa' es' h⟩

/-- non-vacuity, and the input class of a seeded change the well-formedness theorem excludes: input secret of dimension 1, output secret of
dimension 2 — the embedded input secret is padded from ITS dimension -/
example : (Core.lweSwitchingKeyEncryptSk [[0, 0], [0, 0]] 64 3 2 2 5 1 [1] [1, 1] [1, 2, 3, 4] [[0, 1]]).map (·.1)
      = some [(0, [[[-2, -1], [1, 0]], [[-3, -2], [-1, 0]]])] ∧
    Core.embedLweSecret 2 [1] = some [1, 0] ∧ Core.embedLweSecret 2 [1, 1] = some [1, -1] := by decide

open Ks in
/-- **`blind_rotation_key_encrypt_sk`** (CGGI, standard and block-binary): element `i` is a well-formed GGSW of the constant polynomial
`sk_lwe[i]` under `sk_glwe` — `hkey` of `C04.ep_decrypts` for the `i`-th CMUX of the blind rotation (C14/C15), with the errors
`i·dnum·(rank+1) + (r·(rank+1) + j)` of the running error source -/
theorem blind_rotation_key_encrypt_sk_wellformed {bits b n size kxe rank dnum : Nat} {H E : Int}
    (c : KeyCtx bits b n size kxe rank H E) (tmp0 : Col) (htl : tmp0.length = size) (htw : WF n tmp0)
    (sk : List Poly) (hsk : ∀ s ∈ sk, norm1 s * 2 ^ (b - 1) ≤ H)
    (skLwe : List Int) (hlwe : ∀ x ∈ skLwe, |x| ≤ 2 ^ 62) (xa : List Nat) (es : List Poly)
    (hes : ErrOk n E es (skLwe.length * (dnum * (rank + 1))))
    (out : List (List (Nat × List Col))) (xa' : List Nat) (es' : List Poly)
    (h : Core.blindRotationKeyEncryptSk tmp0 bits b n size kxe rank dnum skLwe sk xa es = some (out, xa', es')) :
    out.length = skLwe.length ∧ es' = es.drop (skLwe.length * (dnum * (rank + 1))) ∧
    ∀ (i : Nat) (si : Int), skLwe[i]? = some si → ∃ cells, out[i]? = some cells ∧
      KeyWellFormed n b 1 size kxe dnum (rank + 1) (Core.keyMat n dnum (rank + 1) (rank + 1) size cells) sk
        (fun j => (if j = 0 then 1 else ι n (sk.getD (j - 1) [])) * ι n (si :: List.replicate (n - 1) 0))
        (fun j r => es.getD (i * (dnum * (rank + 1)) + (r * (rank + 1) + j)) []) :=
  blindRotationKey_wellformed c tmp0 htl htw sk hsk skLwe hlwe xa es hes out xa' es' h

example : (Core.blindRotationKeyEncryptSk [[0, 0], [0, 0]] 64 3 2 2 5 1 1 [1, 0] [[1, -1]] [1, 2, 3, 4, 5, 6, 7, 8, 9, 10, 11, 12, 13, 14, 15, 16]
    [[0, 1], [1, 0], [0, 0], [1, 1]]).map (fun r => r.1.map (fun c => c.map (·.1))) = some [[0, 1], [0, 1]] := by decide

/-! ### the statement in the consumers' own words -/

open Ks in
/-- **`KeyWellFormed` = the key hypotheses of `C03.glwe_keyswitch_decrypts` / `glwe_automorphism_decrypts` / `KsSide`** for
`key = ⟨b, dsize, p, mat⟩`: `hc0`, `hS`, `hM` on the rows, and `hEL hKL hkey` with the explicit
`EL i r = 2^(b·(size−1−errLimb))·err i r` -/
theorem key_hypothesis_ks {n b dsize size kxe dnum colsIn : Nat} {mat : Hal.PMat} {sIn sOut : List Poly} {err : Nat → Nat → Poly}
    (hdn : 1 ≤ dnum) (hci : 0 < colsIn)
    (h : KeyWellFormed n b dsize size kxe dnum colsIn mat sOut (fun i => ι n (sIn.getD i [])) err)
    (herr : ∀ i, i < colsIn → ∀ r, r < dnum → (err i r).length = n) (p : Int) :
    let key : Ks.Key := { base2k := b, dsize := dsize, p := p, mat := mat }
    0 < key.mat.colsOut ∧ key.mat.rows * key.dsize ≤ key.mat.size ∧
    (∀ i, i < key.mat.colsIn → ∀ r, r < key.mat.rows → ∀ q, (key.mat.entry (r * key.mat.colsIn + i) q).length = n) ∧
    ∃ EL KL : Nat → Nat → Poly, (∀ i r, (EL i r).length = n) ∧ (∀ i r, (KL i r).length = n) ∧
      (∀ i, i < colsIn → ∀ r, r < dnum → EL i r = Hal.polyScale (2 ^ (b * (size - 1 - errLimb kxe b))) (err i r)) ∧
      ∀ i, i < key.mat.colsIn → ∀ r, r < key.mat.rows →
        Gadget.val (Ks.radix n key.base2k) key.mat.size (Ks.keyPhase n sOut key.mat i r) =
          Ks.ι n (sIn.getD i []) * Ks.radix n key.base2k ^ (key.mat.size - (r + 1) * key.dsize) + Ks.ι n (EL i r)
            + Ks.radix n key.base2k ^ key.mat.size * Ks.ι n (KL i r) :=
  KeyWellFormed.ks hdn hci h herr p

open Ks in
/-- **`KeyWellFormed` = `hkey` of `C04.ep_decrypts` (`msg i = m2·σ_i`), `C05.relin_decrypts` / `glwe_mul_decrypts` (`msg i = 1·σ_i`),
`C03.ggsw_cells_value` (`msg i = ι s_c · σ_i`)**, with `E i r := ι (2^(b(size−1−limb))·err i r) + (2^b)^size · ι (KL i r)` -/
theorem key_hypothesis_ep {n b dsize size kxe dnum colsIn : Nat} {mat : Hal.PMat} {sOut : List Poly} {msg : Nat → Ks.R n} {err : Nat → Nat → Poly}
    (h : KeyWellFormed n b dsize size kxe dnum colsIn mat sOut msg err) :
    ∃ (KL : Nat → Nat → Poly) (E : Nat → Nat → Ks.R n), (∀ i r, (KL i r).length = n) ∧
      (∀ i r, E i r = ι n (Hal.polyScale (2 ^ (b * (size - 1 - errLimb kxe b))) (err i r)) + ((2 : Ks.R n) ^ b) ^ size * ι n (KL i r)) ∧
      ∀ i, i < colsIn → ∀ r, r < dnum →
        Gadget.val ((2 : Ks.R n) ^ b) size (Ks.keyPhase n sOut mat i r) = msg i * ((2 : Ks.R n) ^ b) ^ (size - (r + 1) * dsize) + E i r :=
  KeyWellFormed.ep h

/-- the containers of the consumers built from generated cells read the generated matrix: `EpGGSW.toPMat`, `GGLWE.toPMat`,
`(ToGGSWKey.at c).toPMat` are `Core.keyMat` of the cells -/
theorem generated_containers (b n rank colsIn colsOut dsize dnum size : Nat) (cells : List (Nat × List Col))
    (subs : List (List (Nat × List Col))) (c : Nat) (hc : subs[c]? = some cells) :
    (ggswOf b n rank dsize dnum size cells).toPMat = Core.keyMat n dnum (rank + 1) (rank + 1) size cells ∧
    (gglweOf b n colsIn colsOut dsize dnum size cells).toPMat = Core.keyMat n dnum colsIn colsOut size cells ∧
    ((toGgswKeyOf b n rank dsize dnum size subs).at c).toPMat = Core.keyMat n dnum rank (rank + 1) size cells ∧
    (ksKeyOf b dsize 0 n dnum colsIn colsOut size cells).mat = Core.keyMat n dnum colsIn colsOut size cells :=
  ⟨rfl, rfl, toGgswKeyOf_at b n rank dsize dnum size subs c cells hc, rfl⟩

example : (ggswOf 3 2 1 1 1 2 [(0, [[[1, 2], [3, 4]], [[5, 6], [7, 8]]]), (1, [[[0, 0], [0, 0]], [[1, 1], [1, 1]]])]).cells
    = [[[[1, 2], [3, 4]], [[5, 6], [7, 8]]], [[[0, 0], [0, 0]], [[1, 1], [1, 1]]]] := by decide

/-- **key switching with a generated key — the key side of `KsSide` is discharged**: for a key produced by any of the GGLWE-type routines
above (`hwf`), the structure `KsDec.KsSide` that `C03.glwe_keyswitch_decrypts_coeff`, `lwe_keyswitch_decrypts`, `glwe_to_lwe_decrypts`,
`lwe_to_glwe_decrypts` take holds as soon as its operand / head-room fields do; `EL` is the scaled sampler error -/
theorem ks_side_of_generated_key {n b dsize size kxe dnum colsIn : Nat} (big128 : Bool) (bout sout rout : Nat) (a : Ks.Ct) (p : Int)
    (colsOut : Nat) (cells : List (Nat × List Col)) (sIn skOut : List Poly) (err : Nat → Nat → Poly) (Hin Hp : Int)
    (hdn : 1 ≤ dnum) (hci : 0 < colsIn) (hd : 1 ≤ dsize)
    (hwf : KeyWellFormed n b dsize size kxe dnum colsIn (Core.keyMat n dnum colsIn colsOut size cells) skOut (fun i => Ks.ι n (sIn.getD i [])) err)
    (herr : ∀ i, i < colsIn → ∀ r, r < dnum → (err i r).length = n) (hsl : colsIn ≤ sIn.length)
    (hN : 0 < n) (hrank : a.rank = colsIn) (hrout : rout = colsOut - 1)
    (hbi1 : 1 ≤ a.base2k) (hbi : a.base2k ≤ 62) (hbk1 : 1 ≤ b) (hbk : b ≤ 62) (hbo1 : 1 ≤ bout) (hbo : bout ≤ 62)
    (hIn0 : 0 ≤ Hin) (hIn : Hin + 8 ≤ 2 ^ 62) (hHp0 : 0 ≤ Hp) (hAcc : Hp + (Hin + 2 ^ b) + 8 ≤ 2 ^ (KsDec.bitsOf big128 - 2))
    (hprod : ∀ aConv, Ks.convIn a (ksKeyOf b dsize p n dnum colsIn colsOut size cells) = .ok aConv → ∀ i, i < rout + 1 →
      ∀ l ∈ (KsDec.prodOf rout aConv (ksKeyOf b dsize p n dnum colsIn colsOut size cells)).act i, ∀ x ∈ l, |x| ≤ Hp)
    (hcov1 : KsDec.convSize a (ksKeyOf b dsize p n dnum colsIn colsOut size cells) ≤ size)
    (hcov2 : KsDec.convSize a (ksKeyOf b dsize p n dnum colsIn colsOut size cells) ≤ dnum * dsize) :
    ∃ EL KL : Nat → Nat → Poly,
      (∀ i, i < colsIn → ∀ r, r < dnum → EL i r = Hal.polyScale (2 ^ (b * (size - 1 - errLimb kxe b))) (err i r)) ∧
      KsDec.KsSide big128 n bout sout rout a (ksKeyOf b dsize p n dnum colsIn colsOut size cells) sIn skOut EL KL Hin Hp :=
  ksSide_of_generated big128 n bout sout rout a p colsOut cells sIn skOut err Hin Hp hdn hci hd hwf herr hsl hN hrank hrout
    hbi1 hbi hbk1 hbk hbo1 hbo hIn0 hIn hHp0 hAcc hprod hcov1 hcov2

end C01
