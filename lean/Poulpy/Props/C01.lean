import Poulpy.Model.Core.Enc

namespace C01
end C01
