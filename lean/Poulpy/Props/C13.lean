import Poulpy.Generated.U32.AddAll
import Poulpy.Generated.U32.SubAll
import Poulpy.Generated.U32.SllAll
import Poulpy.Generated.U32.SrlAll
import Poulpy.Generated.U32.SraAll
import Poulpy.Generated.U32.SltAll
import Poulpy.Generated.U32.SltuAll
import Poulpy.Generated.U32.AndAll
import Poulpy.Generated.U32.OrAll
import Poulpy.Generated.U32.XorAll
import Poulpy.Generated.U32.IdentityAll

/-!
# C13 — compiled BDD circuits compute their 32-bit word functions for all inputs

Hand-written statements.  `U32.<Op>.flat i`, `U32.<Op>.width i`, `U32.<Op>.nIn`, `U32.<Op>.nOut`
are table literals regenerated from `poulpy-bin-fhe/src/bdd_arithmetic/circuits/u32/*_codegen.rs`
on every run (tools/gen_circuits.py); the proofs are the generated per-bit theorems
(`obtain` one Boolean per Cmux node, one `stepLevel` equation per level, `bv_decide` for the
remaining Boolean identity) assembled by `U32.<Op>.all`.  `evalFlat` returns `none` on any
out-of-range index, on a read of a slot the previous level left undefined, on a node count that
is not a multiple of the declared width and on a malformed last level, so `= some _` carries the
structural half of the property as well.

Word semantics (RISC-V RV32I): shifts use the low five bits of `b`; `slt`/`sltu` produce 0/1.
-/

namespace C13
open U32

theorem add_correct (i : Nat) (hi : i < 32) (a b : BitVec 32) :
    evalFlat 64 (Add.width i) (Add.flat i) (inp2 a b) = some ((a + b).getLsbD i) := Add.all i hi a b

theorem sub_correct (i : Nat) (hi : i < 32) (a b : BitVec 32) :
    evalFlat 64 (Sub.width i) (Sub.flat i) (inp2 a b) = some ((a - b).getLsbD i) := Sub.all i hi a b

theorem sll_correct (i : Nat) (hi : i < 32) (a b : BitVec 32) :
    evalFlat 37 (Sll.width i) (Sll.flat i) (inp2 a b) = some ((a <<< (b &&& 31#32)).getLsbD i) :=
  Sll.all i hi a b

theorem srl_correct (i : Nat) (hi : i < 32) (a b : BitVec 32) :
    evalFlat 37 (Srl.width i) (Srl.flat i) (inp2 a b) = some ((a >>> (b &&& 31#32)).getLsbD i) :=
  Srl.all i hi a b

theorem sra_correct (i : Nat) (hi : i < 32) (a b : BitVec 32) :
    evalFlat 37 (Sra.width i) (Sra.flat i) (inp2 a b)
      = some ((BitVec.sshiftRight' a (b &&& 31#32)).getLsbD i) := Sra.all i hi a b

theorem and_correct (i : Nat) (hi : i < 32) (a b : BitVec 32) :
    evalFlat 64 (And.width i) (And.flat i) (inp2 a b) = some ((a &&& b).getLsbD i) := And.all i hi a b

theorem or_correct (i : Nat) (hi : i < 32) (a b : BitVec 32) :
    evalFlat 64 (Or.width i) (Or.flat i) (inp2 a b) = some ((a ||| b).getLsbD i) := Or.all i hi a b

theorem xor_correct (i : Nat) (hi : i < 32) (a b : BitVec 32) :
    evalFlat 64 (Xor.width i) (Xor.flat i) (inp2 a b) = some ((a ^^^ b).getLsbD i) := Xor.all i hi a b

theorem identity_correct (i : Nat) (hi : i < 32) (a : BitVec 32) :
    evalFlat 32 (Identity.width i) (Identity.flat i) (inp1 a) = some (a.getLsbD i) :=
  Identity.all i hi a

/-- `slt`/`sltu` ship a single output circuit; the evaluator zero-fills output bits 1..31
(`execute_bdd_circuit_multi_thread`, loop after `thread::scope`), which is the RISC-V 0/1 word. -/
theorem slt_correct (a b : BitVec 32) :
    evalFlat 64 (Slt.width 0) (Slt.flat 0) (inp2 a b) = some (BitVec.slt a b) := Slt.all 0 (by decide) a b

theorem sltu_correct (a b : BitVec 32) :
    evalFlat 64 (Sltu.width 0) (Sltu.flat 0) (inp2 a b) = some (BitVec.ult a b) := Sltu.all 0 (by decide) a b

/-- Declared input / output counts as found in the source. -/
theorem io_counts :
    (Add.nIn, Add.nOut) = (64, 32) ∧ (Sub.nIn, Sub.nOut) = (64, 32) ∧ (Sll.nIn, Sll.nOut) = (37, 32) ∧
    (Srl.nIn, Srl.nOut) = (37, 32) ∧ (Sra.nIn, Sra.nOut) = (37, 32) ∧ (Slt.nIn, Slt.nOut) = (64, 1) ∧
    (Sltu.nIn, Sltu.nOut) = (64, 1) ∧ (And.nIn, And.nOut) = (64, 32) ∧ (Or.nIn, Or.nOut) = (64, 32) ∧
    (Xor.nIn, Xor.nOut) = (64, 32) ∧ (Identity.nIn, Identity.nOut) = (32, 32) := by decide

/-- Model-level facts used above, stated once: a well-formed table has a positive width dividing
the node count and all indices in range (this is what `evalFlat … = some _` forces). -/
theorem evalFlat_some_wellFormed (nIn w : Nat) (nodes : List Node) (inp : Nat → Bool) (v : Bool)
    (hw : w ≠ 0) (h : evalFlat nIn w nodes inp = some v) : wellFormed nIn w nodes = true := by
  unfold evalFlat at h
  rw [if_neg hw] at h
  by_cases hwf : wellFormed nIn w nodes = true
  · exact hwf
  · rw [if_neg hwf] at h; cases h

/-- Non-vacuity: the add circuit really has non-zero width at every bit. -/
example : ∀ i < 32, Add.width i ≠ 0 := by decide

end C13
