import Poulpy.Lemmas.BytesHist
/-!
# C18 — serialisation round-trips, and rejects damaged input without corruption

All statements are about the definitions of `Poulpy/Model/Bytes.lean` that `pdriver ser` executes.
A reader is `Rd σ α = σ → Bytes → Res σ α`; `Res` carries the receiver as the call leaves it.
Quantification over **all** byte strings `bs` covers every truncation point and every corruption.

Part 1: the three HAL layouts (full strength, no hypothesis on the receiver).
Part 2: `Distribution`.
Part 3: the 26 wrapper readers, through the dispatch table `readerOf` itself.
-/
namespace C18
open Ser

/-! ## Part 1 — VecZnx, ScalarZnx, MatZnx -/

/-- totality: on every byte string and every receiver the reader returns `ok` or `err` -/
theorem vec_read_total (r : VecZnx) (bs : Bytes) : (VecZnx.readFrom r bs).isPanic = false := by
  have g := vec_read_good r bs
  cases h : VecZnx.readFrom r bs <;> simp_all [Good, Res.isPanic]
example : (VecZnx.readFrom ⟨4, 1, 1, 1, List.replicate 32 0⟩ (leBytes 8 (2 ^ 61) ++ leBytes 8 8 ++ leBytes 8 1 ++ leBytes 8 1 ++ leBytes 8 0)).isPanic = false :=
  vec_read_total _ _

/-- an error leaves the whole receiver (dimensions and buffer) as it was -/
theorem vec_read_err_unchanged (r r' : VecZnx) (bs : Bytes) (k : String) (h : VecZnx.readFrom r bs = .err k r') : r' = r := by
  have g := vec_read_good r bs
  rw [h] at g; exact g
example : VecZnx.readFrom ⟨4, 1, 1, 1, List.replicate 32 7⟩ [1, 2, 3] = .err "eof" ⟨4, 1, 1, 1, List.replicate 32 7⟩ := by decide

/-- success establishes the invariant — whatever the receiver looked like before — and never resizes the buffer -/
theorem vec_read_ok_inv (r r' : VecZnx) (bs rest : Bytes) (h : VecZnx.readFrom r bs = .ok () r' rest) :
    r'.Inv ∧ r'.data.length = r.data.length := by
  have g := vec_read_good r bs
  rw [h] at g; exact vecOk_inv g
example : (VecZnx.readFrom ⟨0, 0, 0, 0, List.replicate 16 9⟩
    (leBytes 8 1 ++ leBytes 8 1 ++ leBytes 8 1 ++ leBytes 8 2 ++ leBytes 8 8 ++ List.replicate 8 5)).isOk = true := by decide

/-- what the repair of 0c7f5af excludes: a stream announcing `max_size = 1000` over a 1-limb buffer is refused -/
theorem vec_read_rejects_oversized_capacity :
    VecZnx.readFrom ⟨1, 1, 1, 1, List.replicate 8 0⟩
      (leBytes 8 1 ++ leBytes 8 1 ++ leBytes 8 1 ++ leBytes 8 1000 ++ leBytes 8 8 ++ List.replicate 8 1) =
      .err "invalid" ⟨1, 1, 1, 1, List.replicate 8 0⟩ := by decide

/-- round trip: every well-formed object satisfying the invariant is written without error (in both
build profiles) and read back — dimensions and the `n·cols·size·8` active bytes — by any receiver whose
buffer holds `n·cols·max_size·8` bytes; the unread tail of the stream is left for the next reader. -/
theorem vec_read_write (x r : VecZnx) (p : Profile) (tail : Bytes) (hw : VecWF x) (hi : x.Inv)
    (hcap : x.n * x.cols * x.maxSize * 8 ≤ r.data.length) :
    ∃ bs, x.writeTo p = .ok bs ∧
      VecZnx.readFrom r (bs ++ tail) =
        .ok () ⟨x.n, x.cols, x.size, x.maxSize, x.data.take (x.n * x.cols * x.size * 8) ++ r.data.drop (x.n * x.cols * x.size * 8)⟩ tail :=
  vec_rt x r p tail hw hi hcap
example : VecWF ⟨2, 1, 1, 2, List.replicate 32 3⟩ ∧ VecZnx.Inv ⟨2, 1, 1, 2, List.replicate 32 3⟩ := by
  unfold VecWF VecZnx.Inv; decide

theorem scalar_read_total (r : ScalarZnx) (bs : Bytes) : (ScalarZnx.readFrom r bs).isPanic = false := by
  have g := scalar_read_good r bs
  cases h : ScalarZnx.readFrom r bs <;> simp_all [Good, Res.isPanic]
example : (ScalarZnx.readFrom ⟨4, 1, List.replicate 32 0⟩ (leBytes 8 (2 ^ 61) ++ leBytes 8 8 ++ leBytes 8 0)).isPanic = false :=
  scalar_read_total _ _

theorem scalar_read_err_unchanged (r r' : ScalarZnx) (bs : Bytes) (k : String) (h : ScalarZnx.readFrom r bs = .err k r') : r' = r := by
  have g := scalar_read_good r bs
  rw [h] at g; exact g
example : ScalarZnx.readFrom ⟨4, 1, List.replicate 32 7⟩ (leBytes 8 (2 ^ 32) ++ leBytes 8 (2 ^ 32) ++ leBytes 8 0) =
    .err "invalid" ⟨4, 1, List.replicate 32 7⟩ := by decide

theorem scalar_read_ok_inv (r r' : ScalarZnx) (bs rest : Bytes) (h : ScalarZnx.readFrom r bs = .ok () r' rest) :
    r'.Inv ∧ r'.data.length = r.data.length := by
  have g := scalar_read_good r bs
  rw [h] at g; exact scalarOk_inv g
example : (ScalarZnx.readFrom ⟨0, 0, List.replicate 16 9⟩ (leBytes 8 1 ++ leBytes 8 2 ++ leBytes 8 16 ++ List.replicate 16 5)).isOk = true := by
  decide

theorem mat_read_total (r : MatZnx) (bs : Bytes) : (MatZnx.readFrom r bs).isPanic = false := by
  have g := mat_read_good r bs
  cases h : MatZnx.readFrom r bs <;> simp_all [Good, Res.isPanic]
example : (MatZnx.readFrom ⟨1, 1, 1, 1, 1, List.replicate 8 0⟩
    (leBytes 8 (2 ^ 61) ++ leBytes 8 1 ++ leBytes 8 1 ++ leBytes 8 1 ++ leBytes 8 1 ++ leBytes 8 0)).isPanic = false :=
  mat_read_total _ _

theorem mat_read_err_unchanged (r r' : MatZnx) (bs : Bytes) (k : String) (h : MatZnx.readFrom r bs = .err k r') : r' = r := by
  have g := mat_read_good r bs
  rw [h] at g; exact g
example : MatZnx.readFrom ⟨1, 1, 1, 1, 1, List.replicate 8 7⟩ [0, 0, 0, 0, 0, 0, 0, 0, 1] = .err "eof" ⟨1, 1, 1, 1, 1, List.replicate 8 7⟩ := by
  decide

theorem mat_read_ok_inv (r r' : MatZnx) (bs rest : Bytes) (h : MatZnx.readFrom r bs = .ok () r' rest) :
    r'.Inv ∧ r'.data.length = r.data.length := by
  have g := mat_read_good r bs
  rw [h] at g; exact matOk_inv g
example : (MatZnx.readFrom ⟨0, 0, 0, 0, 0, List.replicate 16 9⟩
    (leBytes 8 1 ++ leBytes 8 1 ++ leBytes 8 2 ++ leBytes 8 1 ++ leBytes 8 1 ++ leBytes 8 16 ++ List.replicate 16 5)).isOk = true := by decide

/-- the explicit post-state of a successful HAL read: header fields as announced, the first `len` bytes of the
buffer replaced by the payload, the rest of the buffer untouched (used by the round-trip statements) -/
theorem scalar_read_ok_explicit (r r' : ScalarZnx) (bs rest : Bytes) (h : ScalarZnx.readFrom r bs = .ok () r' rest) :
    ScalarOk r bs r' rest := by
  have g := scalar_read_good r bs
  rw [h] at g; exact g
example : ScalarZnx.readFrom ⟨0, 0, List.replicate 8 9⟩ (leBytes 8 1 ++ leBytes 8 1 ++ leBytes 8 8 ++ List.replicate 8 5) =
    .ok () ⟨1, 1, List.replicate 8 5⟩ [] := by decide

theorem mat_read_ok_explicit (r r' : MatZnx) (bs rest : Bytes) (h : MatZnx.readFrom r bs = .ok () r' rest) :
    MatOk r bs r' rest := by
  have g := mat_read_good r bs
  rw [h] at g; exact g
example : MatZnx.readFrom ⟨0, 0, 0, 0, 0, List.replicate 8 9⟩
    (leBytes 8 1 ++ leBytes 8 1 ++ leBytes 8 1 ++ leBytes 8 1 ++ leBytes 8 1 ++ leBytes 8 8 ++ List.replicate 8 5) =
    .ok () ⟨1, 1, 1, 1, 1, List.replicate 8 5⟩ [] := by decide

/-- round trip for `ScalarZnx`: `read (write x) = ok x` (dimensions, the `n·cols·8` active bytes; receiver bytes beyond
stay, stream tail unread) for any receiver whose buffer holds `n·cols·8` bytes, in both build profiles -/
theorem scalar_read_write (x r : ScalarZnx) (p : Profile) (tail : Bytes) (hw : ScalarWF x) (hi : x.Inv)
    (hcap : x.n * x.cols * 8 ≤ r.data.length) :
    ∃ bs, x.writeTo p = .ok bs ∧
      ScalarZnx.readFrom r (bs ++ tail) = .ok () ⟨x.n, x.cols, x.data.take (x.n * x.cols * 8) ++ r.data.drop (x.n * x.cols * 8)⟩ tail :=
  scalar_rt x r p tail hw hi hcap
example : ScalarWF ⟨4, 2, List.replicate 64 3⟩ ∧ ScalarZnx.Inv ⟨4, 2, List.replicate 64 3⟩ := by
  unfold ScalarWF ScalarZnx.Inv; decide

/-- round trip for `MatZnx` -/
theorem mat_read_write (x r : MatZnx) (p : Profile) (tail : Bytes) (hw : MatWF x) (hi : x.Inv)
    (hcap : x.rows * x.colsIn * x.n * x.colsOut * x.size * 8 ≤ r.data.length) :
    ∃ bs, x.writeTo p = .ok bs ∧
      MatZnx.readFrom r (bs ++ tail) =
        .ok () ⟨x.n, x.size, x.rows, x.colsIn, x.colsOut,
          x.data.take (x.rows * x.colsIn * x.n * x.colsOut * x.size * 8) ++ r.data.drop (x.rows * x.colsIn * x.n * x.colsOut * x.size * 8)⟩ tail :=
  mat_rt x r p tail hw hi hcap
example : MatWF ⟨2, 1, 2, 1, 1, List.replicate 32 3⟩ ∧ MatZnx.Inv ⟨2, 1, 2, 1, 1, List.replicate 32 3⟩ := by
  unfold MatWF MatZnx.Inv; decide

/-! ## Part 2 — `Distribution` -/



/-- the 64-bit word written for `(tag, payload)` and read back gives the same `(tag, payload)` when the
`usize` of a fixed variant is below 2^56 and the `f64` of a probabilistic variant has its low mantissa
byte clear (`dist.rs` documents the loss of those 8 bits).
FULL STATEMENT (false of the code, see `dist_round_trip_counterexample`): the same without `hfix`/`hprob`. -/
theorem dist_round_trip_partial (tag pl : Nat) (ht : tag ≤ 6)
    (hfix : (tag = 0 ∨ tag = 2 ∨ tag = 4) → pl < 2 ^ 56)
    (hprob : (tag = 1 ∨ tag = 3) → pl < 2 ^ 64 ∧ pl % 256 = 0)
    (hnone : (tag = 5 ∨ tag = 6) → pl = 0) (tail : Bytes) :
    readDistAt 0 ⟨[9, 9], [], [], 0⟩ (leBytes 8 (distWord tag pl) ++ tail) = .ok () ⟨[tag, pl], [], [], 0⟩ tail := by
  have htag : tag = 0 ∨ tag = 2 ∨ tag = 4 ∨ tag = 1 ∨ tag = 3 ∨ tag = 5 ∨ tag = 6 := by omega
  by_cases h0 : tag = 0 ∨ tag = 2 ∨ tag = 4
  · have hp := hfix h0
    have e : distWord tag pl = tag * 2 ^ 56 + pl := by
      unfold distWord; rw [if_pos h0, or_add _ _ hp]; omega
    have h1 : (tag * 2 ^ 56 + pl) / 2 ^ 56 = tag := by omega
    have h2 : (tag * 2 ^ 56 + pl) % 2 ^ 56 = pl := by omega
    rw [e, readDist_eval _ (by omega), h1, h2, if_pos h0]
  · by_cases h1 : tag = 1 ∨ tag = 3
    · obtain ⟨hp, hm⟩ := hprob h1
      have hq : pl / 256 < 2 ^ 56 := by omega
      have e : distWord tag pl = tag * 2 ^ 56 + pl / 256 := by
        unfold distWord; rw [if_neg h0, if_pos h1, or_add _ _ hq]
      have g1 : (tag * 2 ^ 56 + pl / 256) / 2 ^ 56 = tag := by omega
      have g2 : (tag * 2 ^ 56 + pl / 256) % 2 ^ 56 = pl / 256 := by omega
      have g3 : pl / 256 * 256 % 2 ^ 64 = pl := by
        rw [Nat.div_mul_cancel (Nat.dvd_of_mod_eq_zero hm)]; exact Nat.mod_eq_of_lt hp
      rw [e, readDist_eval _ (by omega), g1, g2, if_neg h0, if_pos h1, g3]
    · have h5 : tag = 5 ∨ tag = 6 := by omega
      have hz := hnone h5
      have e : distWord tag pl = tag * 2 ^ 56 := by
        unfold distWord; rw [if_neg h0, if_neg h1]
      have g1 : (tag * 2 ^ 56) / 2 ^ 56 = tag := by omega
      rw [e, readDist_eval _ (by omega), g1, if_neg h0, if_neg h1, if_pos h5, hz]
example : (0 = 1 ∨ 0 = 3 → (4599075939470750464 : Nat) < 2 ^ 64 ∧ 4599075939470750464 % 256 = 0) := by decide

/-- `TernaryProb(0.3)` (bits 0x3FD3333333333333) is written as the word 0x013FD33333333333 and read back as
bits 0x3FD3333333333300: the object read is not equal to the object written (replayed on the real code by
`pvh ser dist tag=1 bits=4599075939470750515`). -/
theorem dist_round_trip_counterexample :
    ¬ (∀ tag pl : Nat, tag ≤ 6 → pl < 2 ^ 64 → ∀ tail,
        readDistAt 0 ⟨[9, 9], [], [], 0⟩ (leBytes 8 (distWord tag pl) ++ tail) = .ok () ⟨[tag, pl], [], [], 0⟩ tail) := by
  intro h
  have := h 1 4599075939470750515 (by decide) (by decide) []
  revert this
  decide +kernel

/-! ## Part 3 — the wrapper readers

`Keep L M s`: every HAL leaf of the flat state satisfies its invariant, the leaf buffer lengths are `L`,
the allocation limit is `M`.  `St.meta` = wrapper fields, seeds and leaf dimensions. -/

section
variable {L : List Nat} {M : Nat}



attribute [local irreducible] readVecAt readScalarAt readMatAt rGLWE rGGLWE rGLWESwitchingKey rGLWEAutomorphismKey
  rGLWEPublicKey rGGLWEToGGSWKey rGLWECompressed rGGLWECompressed rGLWESwitchingKeyCompressed
  rGLWEAutomorphismKeyCompressed rGGLWEToGGSWKeyCompressed rBlindRotationKey rBlindRotationKeyCompressed
  rCircuitBootstrappingKey rBDDKey in
/-- **post-state invariant, every modelled type, every byte string, either outcome**: if the receiver's
leaves were consistent with their buffers before `read_from`, they are afterwards (ok, err alike), no
buffer changes length. -/
theorem reader_post_inv (ty : String) (r : Rd St Unit) (h : readerOf ty = some r) : Pres (Keep L M) r := by
  unfold readerOf at h
  split at h <;> cases h <;> (first
    | exact pres_readVecAt _ | exact pres_readScalarAt _ | exact pres_readMatAt _
    | exact pres_rGLWE _ | exact pres_rGGLWE _ | exact pres_rGLWESwitchingKey _ | exact pres_rGLWEAutomorphismKey _
    | exact pres_rGLWEPublicKey _ | exact pres_rGGLWEToGGSWKey _ | exact pres_rGLWECompressed _
    | exact pres_rGGLWECompressed _ | exact pres_rGLWESwitchingKeyCompressed _ | exact pres_rGLWEAutomorphismKeyCompressed _
    | exact pres_rGGLWEToGGSWKeyCompressed _ | exact pres_rBlindRotationKey _ | exact pres_rBlindRotationKeyCompressed _
    | exact pres_rCircuitBootstrappingKey _ | exact pres_rBDDKey _)
example : Keep [64] (2 ^ 40) ⟨[12], [], [.vec ⟨4, 2, 1, 1, List.replicate 64 0⟩], 2 ^ 40⟩ ∧ (readerOf "glwe").isSome = true := by
  refine ⟨⟨by decide, by decide, rfl⟩, by decide⟩



attribute [local irreducible] readVecAt readScalarAt readMatAt rGLWE rGGLWE rGLWESwitchingKey rGLWEAutomorphismKey
  rGLWEPublicKey rGGLWEToGGSWKey rGLWECompressed rGGLWECompressed rGLWESwitchingKeyCompressed
  rGLWEAutomorphismKeyCompressed rGGLWEToGGSWKeyCompressed rBlindRotationKey rBlindRotationKeyCompressed
  rCircuitBootstrappingKey rBDDKey in
/-- **totality, every modelled type**: from a consistent receiver, on every byte string, `read_from`
returns `ok` or `err` — provided one allocation of 2^37 bytes (2^32 seeds of 32 bytes) is granted.
FULL STATEMENT (false of the code, `reader_total_counterexample`): the same without `hM`. -/
theorem reader_total_partial (hM : 2 ^ 37 ≤ M) (ty : String) (r : Rd St Unit) (h : readerOf ty = some r) :
    NoPanicOn (Keep L M) r := by
  unfold readerOf at h
  split at h <;> cases h <;> (first
    | exact np_readVecAt _ | exact np_readScalarAt _ | exact np_readMatAt _
    | exact np_rGLWE _ | exact np_rGGLWE _ | exact np_rGLWESwitchingKey _ | exact np_rGLWEAutomorphismKey _
    | exact np_rGLWEPublicKey _ | exact np_rGGLWEToGGSWKey _ | exact np_rGLWECompressed _
    | exact np_rGGLWECompressed hM _ | exact np_rGLWESwitchingKeyCompressed hM _ | exact np_rGLWEAutomorphismKeyCompressed hM _
    | exact np_rGGLWEToGGSWKeyCompressed hM _ | exact np_rBlindRotationKey _ | exact np_rBlindRotationKeyCompressed hM _
    | exact np_rCircuitBootstrappingKey _ | exact np_rBDDKey _)
example : (2 : Nat) ^ 37 ≤ 2 ^ 40 ∧ (readerOf "gglwe_compressed").isSome = true := by decide
end

/-- a 20-byte stream whose `seed_len` field is 2^32−1 makes `GGLWECompressed::read_from` request 2^37−32
bytes before anything is validated; with 8 GiB grantable the request fails (the real process aborts:
replayed by `./check C18`, key `…seed_len-unvalidated-allocation`). -/
theorem reader_total_counterexample :
    ¬ (∀ (s : St) (bs : Bytes), s.Inv → (rGGLWECompressed origin s bs).isPanic = false) := by
  intro h
  have := h ⟨[0, 0, 0, 0], [⟨1, List.replicate 32 0⟩], [.mat ⟨1, 1, 1, 1, 1, List.replicate 8 0⟩], 2 ^ 33⟩
    (leBytes 4 16 ++ leBytes 4 8 ++ leBytes 4 1 ++ leBytes 4 1 ++ leBytes 4 (2 ^ 32 - 1)) (by decide)
  revert this
  decide +kernel

/-! ### error ⇒ metadata unchanged -/

/- FULL STATEMENT (false of the code): for every modelled reader `r`,
   `r s bs = .err k s' → s'.meta = s.meta`. -/

/-- `GLWE::read_from` assigns `self.base2k` before the inner read can fail: a 4-byte stream changes
`base2k` from 12 to 17 and returns an error. -/
theorem wrapper_err_unchanged_counterexample :
    ¬ (∀ (s s' : St) (bs : Bytes) (k : String), rGLWE origin s bs = .err k s' → s'.meta = s.meta) := by
  intro h
  have := h ⟨[12], [], [.vec ⟨1, 1, 1, 1, List.replicate 8 0⟩], 0⟩ ⟨[17], [], [.vec ⟨1, 1, 1, 1, List.replicate 8 0⟩], 0⟩
    (leBytes 4 17) "eof" (by decide +kernel)
  revert this
  decide +kernel



/-- the type names whose object contains exactly one HAL layout -/
def singleLeaf : List String :=
  ["vec", "scalar", "mat", "glwe", "lwe", "gglwe", "ggsw", "glwe_tensor_key", "glwe_switching_key", "lwe_switching_key",
   "lwe_to_glwe_key", "glwe_to_lwe_key", "glwe_automorphism_key", "glwe_public_key", "glwe_compressed", "lwe_compressed",
   "gglwe_compressed", "ggsw_compressed", "glwe_tensor_key_compressed", "glwe_switching_key_compressed",
   "lwe_switching_key_compressed", "lwe_to_glwe_key_compressed", "glwe_to_lwe_key_compressed",
   "glwe_automorphism_key_compressed"]

attribute [local irreducible] readVecAt readScalarAt readMatAt rGLWE rGGLWE rGLWESwitchingKey rGLWEAutomorphismKey
  rGLWEPublicKey rGGLWEToGGSWKey rGLWECompressed rGGLWECompressed rGLWESwitchingKeyCompressed
  rGLWEAutomorphismKeyCompressed rGGLWEToGGSWKeyCompressed rBlindRotationKey rBlindRotationKeyCompressed
  rCircuitBootstrappingKey rBDDKey in
/-- what does hold on error for the 24 single-layout types: the HAL layout — its dimension fields **and**
its buffer — is exactly as before (only wrapper fields and seeds may have been overwritten). -/
theorem wrapper_err_unchanged_partial (ty : String) (hty : ty ∈ singleLeaf) (r : Rd St Unit) (h : readerOf ty = some r) :
    ErrKeepL r := by
  unfold readerOf at h
  split at h <;> cases h <;> (first
    | exact ek_readVecAt _ | exact ek_readScalarAt _ | exact ek_readMatAt _
    | exact ek_rGLWE _ | exact ek_rGGLWE _ | exact ek_rGLWESwitchingKey _ | exact ek_rGLWEAutomorphismKey _
    | exact ek_rGLWEPublicKey _ | exact ek_rGLWECompressed _
    | exact ek_rGGLWECompressed _ | exact ek_rGLWESwitchingKeyCompressed _ | exact ek_rGLWEAutomorphismKeyCompressed _
    | (exfalso; revert hty; decide))
example : "glwe_switching_key_compressed" ∈ singleLeaf ∧ (readerOf "glwe_switching_key_compressed").isSome = true := by decide

/-- for the `Vec<…>` containers even the HAL dimensions change on error: `GGLWEToGGSWKey::read_from` commits
element 0 (here `n` 2 → 1) and then fails on element 1. -/
theorem container_err_unchanged_counterexample :
    ¬ (∀ (s s' : St) (bs : Bytes) (k : String), rGGLWEToGGSWKey origin s bs = .err k s' → s'.leaves.map Leaf.meta = s.leaves.map Leaf.meta) := by
  intro h
  have := h ⟨[2, 8, 1, 8, 1], [], [.mat ⟨2, 1, 1, 1, 1, List.replicate 16 0⟩, .mat ⟨2, 1, 1, 1, 1, List.replicate 16 0⟩], 0⟩
    ⟨[2, 9, 1, 8, 1], [], [.mat ⟨1, 1, 1, 1, 1, List.replicate 8 5 ++ List.replicate 8 0⟩, .mat ⟨2, 1, 1, 1, 1, List.replicate 16 0⟩], 0⟩
    (leBytes 8 2 ++ leBytes 4 9 ++ leBytes 4 1 ++ leBytes 8 1 ++ leBytes 8 1 ++ leBytes 8 1 ++ leBytes 8 1 ++ leBytes 8 1 ++ leBytes 8 8 ++ List.replicate 8 5)
    "eof" (by decide +kernel)
  revert this
  decide +kernel

/-! ### the same three facts with the predicates unfolded (what they say about one call) -/

/-- either outcome: consistent before ⇒ consistent after, and no buffer was resized -/
theorem reader_ok_err_inv (ty : String) (r : Rd St Unit) (h : readerOf ty = some r) (s : St) (bs : Bytes) (hs : s.Inv) :
    (r s bs).state.Inv ∧ (r s bs).state.leaves.map Leaf.bufLen = s.leaves.map Leaf.bufLen := by
  have t := reader_post_inv (L := s.leaves.map Leaf.bufLen) (M := s.mem) ty r h
  unfold Pres at t
  have k := t s bs ⟨hs, rfl, rfl⟩
  exact ⟨k.1, k.2.1⟩
example : St.Inv ⟨[12], [], [.vec ⟨4, 2, 1, 1, List.replicate 64 0⟩], 0⟩ := by decide

theorem reader_never_panics_partial (ty : String) (r : Rd St Unit) (h : readerOf ty = some r) (s : St) (bs : Bytes) (hs : s.Inv)
    (hm : 2 ^ 37 ≤ s.mem) : (r s bs).isPanic = false := by
  have t := reader_total_partial (L := s.leaves.map Leaf.bufLen) (M := s.mem) hm ty r h
  unfold NoPanicOn at t
  exact t s bs ⟨hs, rfl, rfl⟩
example : St.Inv ⟨[1, 2, 3, 4], [⟨1, []⟩], [.mat ⟨1, 1, 1, 1, 1, List.replicate 8 0⟩], 2 ^ 37⟩ ∧ (2 : Nat) ^ 37 ≤ 2 ^ 37 := by decide

theorem wrapper_err_layout_unchanged_partial (ty : String) (hty : ty ∈ singleLeaf) (r : Rd St Unit) (h : readerOf ty = some r)
    (s s' : St) (bs : Bytes) (k : String) (he : r s bs = .err k s') : s'.leaves = s.leaves := by
  have t := wrapper_err_unchanged_partial ty hty r h
  unfold ErrKeepL at t
  exact t s bs k s' he
example : rGLWE origin ⟨[12], [], [.vec ⟨1, 1, 1, 1, List.replicate 8 0⟩], 0⟩ (leBytes 4 17) = .err "eof" ⟨[17], [], [.vec ⟨1, 1, 1, 1, List.replicate 8 0⟩], 0⟩ := by
  decide +kernel

/-! ### round trip of the 24 single-layout types, one statement over the reader / writer tables

`RoundTrips ws sk lk pub r w` (Lemmas/BytesRT): for every profile, every source `x` whose wrapper fields fit their wire
widths `ws` (a canonical `Distribution` for `pub`), whose seeds have the shape `sk` and whose HAL layout is well formed
and consistent, and every receiver `s` of the same shape whose buffer has the capacity: `w p x = ok bs` and
`r s (bs ++ tail) = ok () ⟨x.fields, x's seeds, x's dimensions and active bytes over s's buffer, s.mem⟩ tail`. -/
theorem wrapper_read_write (ty : String) (hty : ty ∈ singleLeaf) :
    ∃ (r : Rd St Unit) (w : Profile → St → Outcome Bytes), readerOf ty = some r ∧ (∀ p, writerOf p ty = some (w p)) ∧
      RoundTrips (hdrWidths ty) (seedKind ty) (leafKind ty) (isPub ty) r w := by
  simp only [singleLeaf, List.mem_cons, List.mem_nil_iff, or_false] at hty
  rcases hty with rfl | rfl | rfl | rfl | rfl | rfl | rfl | rfl | rfl | rfl | rfl | rfl | rfl | rfl | rfl | rfl | rfl | rfl | rfl | rfl |
    rfl | rfl | rfl | rfl
  all_goals first
    | exact ⟨_, _, rfl, fun _ => rfl, rt_vec⟩ | exact ⟨_, _, rfl, fun _ => rfl, rt_scalar⟩ | exact ⟨_, _, rfl, fun _ => rfl, rt_mat⟩
    | exact ⟨_, _, rfl, fun _ => rfl, rt_glwe⟩ | exact ⟨_, _, rfl, fun _ => rfl, rt_gglwe⟩
    | exact ⟨_, _, rfl, fun _ => rfl, rt_switching⟩ | exact ⟨_, _, rfl, fun _ => rfl, rt_autokey⟩
    | exact ⟨_, _, rfl, fun _ => rfl, rt_pubkey⟩ | exact ⟨_, _, rfl, fun _ => rfl, rt_glwe_c⟩
    | exact ⟨_, _, rfl, fun _ => rfl, rt_gglwe_c⟩ | exact ⟨_, _, rfl, fun _ => rfl, rt_switching_c⟩
    | exact ⟨_, _, rfl, fun _ => rfl, rt_autokey_c⟩
/-- non-vacuity: a GLWE automorphism key with `p = −5` (as u64), fields in range, 1×1×1×1×1 matrix of 8 bytes -/
example : FieldsFit (hdrWidths "glwe_automorphism_key") [2 ^ 64 - 5, 12, 1] ∧
    LeafOK (leafKind "glwe_automorphism_key") ⟨[2 ^ 64 - 5, 12, 1], [], [.mat ⟨1, 1, 1, 1, 1, List.replicate 8 7⟩], 0⟩
      ⟨[0, 0, 0], [], [.mat ⟨1, 1, 1, 1, 1, List.replicate 8 0⟩], 0⟩ := by
  refine ⟨⟨rfl, ?_⟩, ⟨_, _, rfl, rfl, ?_⟩⟩
  · intro i hi _
    have : i = 0 ∨ i = 1 ∨ i = 2 := by simp [hdrWidths] at hi; omega
    rcases this with rfl | rfl | rfl <;> decide
  · unfold MatRT MatWF MatZnx.Inv; decide

/-! ## Part 4 — capacity, receiver reuse, write → read → write

Capacity of a receiver = length of its byte buffer (`VecZnx.capacity` …), never its current logical shape.
`vecAccept cap bs` / `scalarAccept` / `matAccept` (Model/Bytes) decide acceptance from the stream and the capacity alone. -/

/-- **acceptance is a function of (stream, capacity)**: after *any* sequence `hist` of earlier reads into the same
receiver — successful or not, of any shapes — the next read is accepted iff `…Accept r.capacity bs`, where `r.capacity`
is the buffer length the receiver was created with.  Earlier successful reads never shrink (or grow) what is accepted. -/
theorem read_acceptance_history_independent :
    (∀ (r : VecZnx) (hist : List Bytes) (bs : Bytes), (VecZnx.readFrom (VecZnx.readSeq r hist) bs).isOk = vecAccept r.capacity bs) ∧
    (∀ (r : ScalarZnx) (hist : List Bytes) (bs : Bytes), (ScalarZnx.readFrom (ScalarZnx.readSeq r hist) bs).isOk = scalarAccept r.capacity bs) ∧
    (∀ (r : MatZnx) (hist : List Bytes) (bs : Bytes), (MatZnx.readFrom (MatZnx.readSeq r hist) bs).isOk = matAccept r.capacity bs) :=
  ⟨fun r hist bs => by rw [vec_isOk_eq, vec_readSeq_capacity],
   fun r hist bs => by rw [scalar_isOk_eq, scalar_readSeq_capacity],
   fun r hist bs => by rw [mat_isOk_eq, mat_readSeq_capacity]⟩
/-- non-vacuity: a 16-byte matrix receiver that first received an 8-byte object still accepts a 16-byte one -/
example :
    let small := leBytes 8 1 ++ leBytes 8 1 ++ leBytes 8 1 ++ leBytes 8 1 ++ leBytes 8 1 ++ leBytes 8 8 ++ List.replicate 8 5
    let large := leBytes 8 1 ++ leBytes 8 1 ++ leBytes 8 2 ++ leBytes 8 1 ++ leBytes 8 1 ++ leBytes 8 16 ++ List.replicate 16 6
    (MatZnx.readSeq ⟨1, 1, 2, 1, 1, List.replicate 16 0⟩ [small]).rows = 1 ∧
    (MatZnx.readFrom (MatZnx.readSeq ⟨1, 1, 2, 1, 1, List.replicate 16 0⟩ [small]) large).isOk = true := by decide

/-- the three acceptance predicates are what the readers decide (single read) -/
theorem read_accepts_iff_capacity (rv : VecZnx) (rs : ScalarZnx) (rm : MatZnx) (bs : Bytes) :
    (VecZnx.readFrom rv bs).isOk = vecAccept rv.capacity bs ∧ (ScalarZnx.readFrom rs bs).isOk = scalarAccept rs.capacity bs ∧
    (MatZnx.readFrom rm bs).isOk = matAccept rm.capacity bs :=
  ⟨vec_isOk_eq rv bs, scalar_isOk_eq rs bs, mat_isOk_eq rm bs⟩
example : vecAccept 8 (leBytes 8 1 ++ leBytes 8 1 ++ leBytes 8 1 ++ leBytes 8 1000 ++ leBytes 8 8 ++ List.replicate 8 1) = false ∧
    vecAccept 8 (leBytes 8 1 ++ leBytes 8 1 ++ leBytes 8 1 ++ leBytes 8 1 ++ leBytes 8 8 ++ List.replicate 8 1) = true := by decide

/-- **round trip after any history**: whatever was read into the receiver before, an object that fits its capacity is
written and read back (dimensions, active bytes, stream tail untouched) -/
theorem round_trip_after_history :
    (∀ (x r : VecZnx) (hist : List Bytes) (p : Profile) (tail : Bytes), VecWF x → x.Inv → x.n * x.cols * x.maxSize * 8 ≤ r.capacity →
      ∃ bs, x.writeTo p = .ok bs ∧ VecZnx.readFrom (VecZnx.readSeq r hist) (bs ++ tail) = .ok () (vecMerge x (VecZnx.readSeq r hist)) tail) ∧
    (∀ (x r : ScalarZnx) (hist : List Bytes) (p : Profile) (tail : Bytes), ScalarWF x → x.Inv → x.n * x.cols * 8 ≤ r.capacity →
      ∃ bs, x.writeTo p = .ok bs ∧ ScalarZnx.readFrom (ScalarZnx.readSeq r hist) (bs ++ tail) = .ok () (scalarMerge x (ScalarZnx.readSeq r hist)) tail) ∧
    (∀ (x r : MatZnx) (hist : List Bytes) (p : Profile) (tail : Bytes), MatWF x → x.Inv →
      x.rows * x.colsIn * x.n * x.colsOut * x.size * 8 ≤ r.capacity →
      ∃ bs, x.writeTo p = .ok bs ∧ MatZnx.readFrom (MatZnx.readSeq r hist) (bs ++ tail) = .ok () (matMerge x (MatZnx.readSeq r hist)) tail) := by
  refine ⟨fun x r hist p tail hw hi hc => ?_, fun x r hist p tail hw hi hc => ?_, fun x r hist p tail hw hi hc => ?_⟩
  · have hc' : x.n * x.cols * x.maxSize * 8 ≤ (VecZnx.readSeq r hist).data.length := by
      have := vec_readSeq_capacity r hist; unfold VecZnx.capacity at this hc; omega
    exact vec_rt x _ p tail hw hi hc'
  · have hc' : x.n * x.cols * 8 ≤ (ScalarZnx.readSeq r hist).data.length := by
      have := scalar_readSeq_capacity r hist; unfold ScalarZnx.capacity at this hc; omega
    exact scalar_rt x _ p tail hw hi hc'
  · have hc' : x.rows * x.colsIn * x.n * x.colsOut * x.size * 8 ≤ (MatZnx.readSeq r hist).data.length := by
      have := mat_readSeq_capacity r hist; unfold MatZnx.capacity at this hc; omega
    exact mat_rt x _ p tail hw hi hc'
example : VecWF ⟨2, 1, 1, 1, List.replicate 16 3⟩ ∧ VecZnx.Inv ⟨2, 1, 1, 1, List.replicate 16 3⟩ ∧
    2 * 1 * 1 * 8 ≤ VecZnx.capacity ⟨4, 2, 1, 1, List.replicate 64 0⟩ := by
  unfold VecWF VecZnx.Inv VecZnx.capacity; decide

/-- wrappers: any sequence of reads by any modelled reader keeps every leaf consistent and **never changes a buffer
length** — so the capacity hypothesis of `wrapper_read_write` can be checked once, on the freshly allocated receiver -/
theorem wrapper_history_preserves_capacity (ty : String) (rd : Rd St Unit) (h : readerOf ty = some rd) (s : St) (hist : List Bytes)
    (hs : s.Inv) : (readSeqSt rd s hist).Inv ∧ (readSeqSt rd s hist).leaves.map Leaf.bufLen = s.leaves.map Leaf.bufLen := by
  induction hist generalizing s with
  | nil => exact ⟨hs, rfl⟩
  | cons bs rest ih =>
    have k := reader_ok_err_inv ty rd h s bs hs
    have k2 := ih (rd s bs).state k.1
    exact ⟨k2.1, by show List.map Leaf.bufLen (readSeqSt rd (rd s bs).state rest).leaves = _; rw [k2.2, k.2]⟩
example : St.Inv ⟨[12, 1], [], [.mat ⟨1, 1, 2, 1, 1, List.replicate 16 0⟩], 0⟩ ∧ (readerOf "gglwe").isSome = true := by decide

/-- **write → read → write**: re-serialising the receiver after a successful round trip gives the bytes that were written
(for any receiver with capacity, whatever its buffer contained) -/
theorem write_read_write :
    (∀ (x r : VecZnx) (p : Profile), VecRT x r → (vecMerge x r).writeTo p = x.writeTo p) ∧
    (∀ (x r : ScalarZnx) (p : Profile), ScalarRT x r → (scalarMerge x r).writeTo p = x.writeTo p) ∧
    (∀ (x r : MatZnx) (p : Profile), MatRT x r → (matMerge x r).writeTo p = x.writeTo p) := by
  refine ⟨fun x r p h => ?_, fun x r p h => ?_, fun x r p h => ?_⟩
  · obtain ⟨⟨hn, hc, hs, hm, hnc, hd⟩, ⟨hsz, hbuf⟩, hcap⟩ := h
    have h1 : x.n * x.cols * x.size * 8 ≤ x.n * x.cols * x.maxSize * 8 := Nat.mul_le_mul_right 8 (Nat.mul_le_mul_left _ hsz)
    have h2 : x.n * x.cols * x.size * 8 < 2 ^ 64 := by omega
    have h3 : x.n * x.cols * x.size < 2 ^ 64 := by omega
    unfold VecZnx.writeTo vecMerge
    simp only [bind, Outcome.bind, mulU_of_lt p hnc, mulU_of_lt p h3, mulU_of_lt p h2]
    have hl : (List.take (x.n * x.cols * x.size * 8) x.data).length = x.n * x.cols * x.size * 8 := by simp; omega
    have a1 : ¬ x.data.length < x.n * x.cols * x.size * 8 := by omega
    have a2 : ¬ (List.take (x.n * x.cols * x.size * 8) x.data ++ List.drop (x.n * x.cols * x.size * 8) r.data).length < x.n * x.cols * x.size * 8 := by
      simp; omega
    simp only [a1, a2, ↓reduceIte, List.take_left' hl]
  · obtain ⟨⟨hn, hc, hd⟩, hi, hcap⟩ := h
    unfold ScalarZnx.Inv at hi
    have h2 : x.n * x.cols * 8 < 2 ^ 64 := by omega
    have h1 : x.n * x.cols < 2 ^ 64 := by omega
    unfold ScalarZnx.writeTo scalarMerge
    simp only [bind, Outcome.bind, mulU_of_lt p h1, mulU_of_lt p h2]
    have hl : (List.take (x.n * x.cols * 8) x.data).length = x.n * x.cols * 8 := by simp; omega
    have a1 : ¬ x.data.length < x.n * x.cols * 8 := by omega
    have a2 : ¬ (List.take (x.n * x.cols * 8) x.data ++ List.drop (x.n * x.cols * 8) r.data).length < x.n * x.cols * 8 := by simp; omega
    simp only [a1, a2, ↓reduceIte, List.take_left' hl]
  · obtain ⟨⟨hn, hs, hr, hci, hco, hd, p1, p2, p3, q1, q2, q3, q4⟩, hi, hcap⟩ := h
    unfold MatZnx.Inv at hi
    have hL : x.rows * x.colsIn * x.n * x.colsOut * x.size * 8 < 2 ^ 64 := by omega
    have hw5 : x.rows * x.colsIn * (x.n * x.colsOut * x.size * 8) < 2 ^ 64 := by rw [mat_len_assoc]; exact hL
    unfold MatZnx.writeTo MatZnx.bytesOf matMerge
    simp only [bind, Outcome.bind, mulU_of_lt p p1, mulU_of_lt p p2, mulU_of_lt p p3, mulU_of_lt p q1, mulU_of_lt p hw5, mat_len_assoc]
    have hl : (List.take (x.rows * x.colsIn * x.n * x.colsOut * x.size * 8) x.data).length = x.rows * x.colsIn * x.n * x.colsOut * x.size * 8 := by
      simp; omega
    have a1 : ¬ x.data.length < x.rows * x.colsIn * x.n * x.colsOut * x.size * 8 := by omega
    have a2 : ¬ (List.take (x.rows * x.colsIn * x.n * x.colsOut * x.size * 8) x.data ++
        List.drop (x.rows * x.colsIn * x.n * x.colsOut * x.size * 8) r.data).length < x.rows * x.colsIn * x.n * x.colsOut * x.size * 8 := by
      simp; omega
    simp only [a1, a2, ↓reduceIte, List.take_left' hl]
example : VecRT ⟨2, 1, 1, 1, List.replicate 16 3⟩ ⟨4, 2, 1, 1, List.replicate 64 0⟩ := by
  unfold VecRT VecWF VecZnx.Inv; decide

end C18
