import Poulpy.Model.Bytes
namespace C18
theorem placeholder : True := trivial
end C18
