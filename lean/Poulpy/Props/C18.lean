import Poulpy.Lemmas.BytesWrap
/-!
# C18 — serialisation round-trips, and rejects damaged input without corruption

All statements are about the definitions of `Poulpy/Model/Bytes.lean` that `pdriver ser` executes.
A reader is `Rd σ α = σ → Bytes → Res σ α`; `Res` carries the receiver as the call leaves it.
Quantification over **all** byte strings `bs` covers every truncation point and every corruption.

Part 1: the three HAL layouts (full strength, no hypothesis on the receiver).
Part 2: `Distribution`.
Part 3: the 26 wrapper readers, through the dispatch table `readerOf` itself.
-/
namespace C18
open Ser

/-! ## Part 1 — VecZnx, ScalarZnx, MatZnx -/

/-- totality: on every byte string and every receiver the reader returns `ok` or `err` -/
theorem vec_read_total (r : VecZnx) (bs : Bytes) : (VecZnx.readFrom r bs).isPanic = false := by
  have g := vec_read_good r bs
  cases h : VecZnx.readFrom r bs <;> simp_all [Good, Res.isPanic]
example : (VecZnx.readFrom ⟨4, 1, 1, 1, List.replicate 32 0⟩ (leBytes 8 (2 ^ 61) ++ leBytes 8 8 ++ leBytes 8 1 ++ leBytes 8 1 ++ leBytes 8 0)).isPanic = false :=
  vec_read_total _ _

/-- an error leaves the whole receiver (dimensions and buffer) as it was -/
theorem vec_read_err_unchanged (r r' : VecZnx) (bs : Bytes) (k : String) (h : VecZnx.readFrom r bs = .err k r') : r' = r := by
  have g := vec_read_good r bs
  rw [h] at g; exact g
example : VecZnx.readFrom ⟨4, 1, 1, 1, List.replicate 32 7⟩ [1, 2, 3] = .err "eof" ⟨4, 1, 1, 1, List.replicate 32 7⟩ := by decide

/-- success establishes the invariant — whatever the receiver looked like before — and never resizes the buffer -/
theorem vec_read_ok_inv (r r' : VecZnx) (bs rest : Bytes) (h : VecZnx.readFrom r bs = .ok () r' rest) :
    r'.Inv ∧ r'.data.length = r.data.length := by
  have g := vec_read_good r bs
  rw [h] at g; exact vecOk_inv g
example : (VecZnx.readFrom ⟨0, 0, 0, 0, List.replicate 16 9⟩
    (leBytes 8 1 ++ leBytes 8 1 ++ leBytes 8 1 ++ leBytes 8 2 ++ leBytes 8 8 ++ List.replicate 8 5)).isOk = true := by decide

/-- what the repair of 0c7f5af excludes: a stream announcing `max_size = 1000` over a 1-limb buffer is refused -/
theorem vec_read_rejects_oversized_capacity :
    VecZnx.readFrom ⟨1, 1, 1, 1, List.replicate 8 0⟩
      (leBytes 8 1 ++ leBytes 8 1 ++ leBytes 8 1 ++ leBytes 8 1000 ++ leBytes 8 8 ++ List.replicate 8 1) =
      .err "invalid" ⟨1, 1, 1, 1, List.replicate 8 0⟩ := by decide

def VecWF (x : VecZnx) : Prop :=
  x.n < 2 ^ 64 ∧ x.cols < 2 ^ 64 ∧ x.size < 2 ^ 64 ∧ x.maxSize < 2 ^ 64 ∧ x.n * x.cols < 2 ^ 64 ∧ x.data.length < 2 ^ 64

theorem readU64_le {σ β : Type} (v : Nat) (h : v < 2 ^ 64) (f : Nat → Rd σ β) (s : σ) (rest : Bytes) :
    (readU64 >>= f) s (leBytes 8 v ++ rest) = f v s rest := by
  have hl : ¬ (leBytes 8 v ++ rest).length < 8 := by simp [leBytes_length]
  rw [readU64_bind, take8_le v rest h, drop8_le, if_neg hl]

theorem readU32_le {σ β : Type} (v : Nat) (h : v < 2 ^ 32) (f : Nat → Rd σ β) (s : σ) (rest : Bytes) :
    (readU32 >>= f) s (leBytes 4 v ++ rest) = f v s rest := by
  have hl : ¬ (leBytes 4 v ++ rest).length < 4 := by simp [leBytes_length]
  rw [readU32_bind, take4_le v rest h, drop4_le, if_neg hl]

/-- round trip: every well-formed object satisfying the invariant is written without error (in both
build profiles) and read back — dimensions and the `n·cols·size·8` active bytes — by any receiver whose
buffer holds `n·cols·max_size·8` bytes; the unread tail of the stream is left for the next reader. -/
theorem vec_read_write (x r : VecZnx) (p : Profile) (tail : Bytes) (hw : VecWF x) (hi : x.Inv)
    (hcap : x.n * x.cols * x.maxSize * 8 ≤ r.data.length) :
    ∃ bs, x.writeTo p = .ok bs ∧
      VecZnx.readFrom r (bs ++ tail) =
        .ok () ⟨x.n, x.cols, x.size, x.maxSize, x.data.take (x.n * x.cols * x.size * 8) ++ r.data.drop (x.n * x.cols * x.size * 8)⟩ tail := by
  obtain ⟨hn, hc, hs, hm, hnc, hd⟩ := hw
  obtain ⟨hsz, hbuf⟩ := hi
  have h1 : x.n * x.cols * x.size * 8 ≤ x.n * x.cols * x.maxSize * 8 :=
    Nat.mul_le_mul_right 8 (Nat.mul_le_mul_left _ hsz)
  have h2 : x.n * x.cols * x.size * 8 < 2 ^ 64 := by omega
  have h3 : x.n * x.cols * x.size < 2 ^ 64 := by omega
  have h4 : x.n * x.cols * x.maxSize * 8 < 2 ^ 64 := by omega
  refine ⟨leBytes 8 x.n ++ leBytes 8 x.cols ++ leBytes 8 x.size ++ leBytes 8 x.maxSize ++ leBytes 8 (x.n * x.cols * x.size * 8) ++
      x.data.take (x.n * x.cols * x.size * 8), ?_, ?_⟩
  · unfold VecZnx.writeTo
    simp only [bind, Outcome.bind, mulU_of_lt p hnc, mulU_of_lt p h3, mulU_of_lt p h2]
    have : ¬ x.data.length < x.n * x.cols * x.size * 8 := by omega
    simp only [this, ↓reduceIte]
  · unfold VecZnx.readFrom
    simp only [List.append_assoc]
    rw [readU64_le _ hn, readU64_le _ hc, readU64_le _ hs, readU64_le _ hm, readU64_le _ h2]
    rw [cm3x8_of_lt h2 (Or.inr hnc)]
    simp only [ne_eq, not_true_eq_false, ↓reduceIte, getS_bind]
    have hb : ¬ r.data.length < x.n * x.cols * x.size * 8 := by omega
    simp only [hb, ↓reduceIte, cm3x8_of_lt h4 (Or.inr hnc), Option.any_some, decide_eq_true_eq]
    have hc2 : ¬ ((decide (x.size > x.maxSize) || !decide (x.n * x.cols * x.maxSize * 8 ≤ r.data.length)) = true) := by
      simp; omega
    rw [if_neg hc2, readExactInto_bind]
    simp only [modifyS_apply]
    have hl : (List.take (x.n * x.cols * x.size * 8) x.data).length = x.n * x.cols * x.size * 8 := by
      simp; omega
    have hg : ¬ (x.n * x.cols * x.size * 8 > r.data.length) := by omega
    have hlt : ¬ ((List.take (x.n * x.cols * x.size * 8) x.data ++ tail).length < x.n * x.cols * x.size * 8) := by
      simp; omega
    simp only [hg, hlt, ↓reduceIte, List.take_left' hl, List.drop_left' hl]
example : VecWF ⟨2, 1, 1, 2, List.replicate 32 3⟩ ∧ VecZnx.Inv ⟨2, 1, 1, 2, List.replicate 32 3⟩ := by
  unfold VecWF VecZnx.Inv; decide

theorem scalar_read_total (r : ScalarZnx) (bs : Bytes) : (ScalarZnx.readFrom r bs).isPanic = false := by
  have g := scalar_read_good r bs
  cases h : ScalarZnx.readFrom r bs <;> simp_all [Good, Res.isPanic]
example : (ScalarZnx.readFrom ⟨4, 1, List.replicate 32 0⟩ (leBytes 8 (2 ^ 61) ++ leBytes 8 8 ++ leBytes 8 0)).isPanic = false :=
  scalar_read_total _ _

theorem scalar_read_err_unchanged (r r' : ScalarZnx) (bs : Bytes) (k : String) (h : ScalarZnx.readFrom r bs = .err k r') : r' = r := by
  have g := scalar_read_good r bs
  rw [h] at g; exact g
example : ScalarZnx.readFrom ⟨4, 1, List.replicate 32 7⟩ (leBytes 8 (2 ^ 32) ++ leBytes 8 (2 ^ 32) ++ leBytes 8 0) =
    .err "invalid" ⟨4, 1, List.replicate 32 7⟩ := by decide

theorem scalar_read_ok_inv (r r' : ScalarZnx) (bs rest : Bytes) (h : ScalarZnx.readFrom r bs = .ok () r' rest) :
    r'.Inv ∧ r'.data.length = r.data.length := by
  have g := scalar_read_good r bs
  rw [h] at g; exact scalarOk_inv g
example : (ScalarZnx.readFrom ⟨0, 0, List.replicate 16 9⟩ (leBytes 8 1 ++ leBytes 8 2 ++ leBytes 8 16 ++ List.replicate 16 5)).isOk = true := by
  decide

theorem mat_read_total (r : MatZnx) (bs : Bytes) : (MatZnx.readFrom r bs).isPanic = false := by
  have g := mat_read_good r bs
  cases h : MatZnx.readFrom r bs <;> simp_all [Good, Res.isPanic]
example : (MatZnx.readFrom ⟨1, 1, 1, 1, 1, List.replicate 8 0⟩
    (leBytes 8 (2 ^ 61) ++ leBytes 8 1 ++ leBytes 8 1 ++ leBytes 8 1 ++ leBytes 8 1 ++ leBytes 8 0)).isPanic = false :=
  mat_read_total _ _

theorem mat_read_err_unchanged (r r' : MatZnx) (bs : Bytes) (k : String) (h : MatZnx.readFrom r bs = .err k r') : r' = r := by
  have g := mat_read_good r bs
  rw [h] at g; exact g
example : MatZnx.readFrom ⟨1, 1, 1, 1, 1, List.replicate 8 7⟩ [0, 0, 0, 0, 0, 0, 0, 0, 1] = .err "eof" ⟨1, 1, 1, 1, 1, List.replicate 8 7⟩ := by
  decide

theorem mat_read_ok_inv (r r' : MatZnx) (bs rest : Bytes) (h : MatZnx.readFrom r bs = .ok () r' rest) :
    r'.Inv ∧ r'.data.length = r.data.length := by
  have g := mat_read_good r bs
  rw [h] at g; exact matOk_inv g
example : (MatZnx.readFrom ⟨0, 0, 0, 0, 0, List.replicate 16 9⟩
    (leBytes 8 1 ++ leBytes 8 1 ++ leBytes 8 2 ++ leBytes 8 1 ++ leBytes 8 1 ++ leBytes 8 16 ++ List.replicate 16 5)).isOk = true := by decide

/-- the explicit post-state of a successful HAL read: header fields as announced, the first `len` bytes of the
buffer replaced by the payload, the rest of the buffer untouched (used by the round-trip statements) -/
theorem scalar_read_ok_explicit (r r' : ScalarZnx) (bs rest : Bytes) (h : ScalarZnx.readFrom r bs = .ok () r' rest) :
    ScalarOk r bs r' rest := by
  have g := scalar_read_good r bs
  rw [h] at g; exact g
example : ScalarZnx.readFrom ⟨0, 0, List.replicate 8 9⟩ (leBytes 8 1 ++ leBytes 8 1 ++ leBytes 8 8 ++ List.replicate 8 5) =
    .ok () ⟨1, 1, List.replicate 8 5⟩ [] := by decide

theorem mat_read_ok_explicit (r r' : MatZnx) (bs rest : Bytes) (h : MatZnx.readFrom r bs = .ok () r' rest) :
    MatOk r bs r' rest := by
  have g := mat_read_good r bs
  rw [h] at g; exact g
example : MatZnx.readFrom ⟨0, 0, 0, 0, 0, List.replicate 8 9⟩
    (leBytes 8 1 ++ leBytes 8 1 ++ leBytes 8 1 ++ leBytes 8 1 ++ leBytes 8 1 ++ leBytes 8 8 ++ List.replicate 8 5) =
    .ok () ⟨1, 1, 1, 1, 1, List.replicate 8 5⟩ [] := by decide

/-! ## Part 2 — `Distribution` -/

theorem or_add (t pl : Nat) (h : pl < 2 ^ 56) : t * 2 ^ 56 ||| pl = t * 2 ^ 56 + pl := by
  rw [Nat.mul_comm]; exact (Nat.two_pow_add_eq_or_of_lt h t).symm

/-- `Distribution::read_from` on a stream starting with the word `w` -/
theorem readDist_eval (w : Nat) (hw : w < 2 ^ 64) (tail : Bytes) :
    readDistAt 0 ⟨[9, 9], [], [], 0⟩ (leBytes 8 w ++ tail) =
      (if w / 2 ^ 56 = 0 ∨ w / 2 ^ 56 = 2 ∨ w / 2 ^ 56 = 4 then (.ok () ⟨[w / 2 ^ 56, w % 2 ^ 56], [], [], 0⟩ tail : Res St Unit)
       else if w / 2 ^ 56 = 1 ∨ w / 2 ^ 56 = 3 then .ok () ⟨[w / 2 ^ 56, w % 2 ^ 56 * 256 % 2 ^ 64], [], [], 0⟩ tail
       else if w / 2 ^ 56 = 5 ∨ w / 2 ^ 56 = 6 then .ok () ⟨[w / 2 ^ 56, 0], [], [], 0⟩ tail
       else .err "invalid" ⟨[9, 9], [], [], 0⟩) := by
  unfold readDistAt
  rw [readU64_le w hw]
  by_cases h0 : w / 2 ^ 56 = 0 ∨ w / 2 ^ 56 = 2 ∨ w / 2 ^ 56 = 4
  · simp only [h0, if_true]; rfl
  · by_cases h1 : w / 2 ^ 56 = 1 ∨ w / 2 ^ 56 = 3
    · simp only [h0, h1, if_true, if_false]; rfl
    · by_cases h5 : w / 2 ^ 56 = 5 ∨ w / 2 ^ 56 = 6
      · simp only [h0, h1, h5, if_true, if_false]; rfl
      · simp only [h0, h1, h5, if_false]; rfl

/-- the 64-bit word written for `(tag, payload)` and read back gives the same `(tag, payload)` when the
`usize` of a fixed variant is below 2^56 and the `f64` of a probabilistic variant has its low mantissa
byte clear (`dist.rs` documents the loss of those 8 bits).
FULL STATEMENT (false of the code, see `dist_round_trip_counterexample`): the same without `hfix`/`hprob`. -/
theorem dist_round_trip_partial (tag pl : Nat) (ht : tag ≤ 6)
    (hfix : (tag = 0 ∨ tag = 2 ∨ tag = 4) → pl < 2 ^ 56)
    (hprob : (tag = 1 ∨ tag = 3) → pl < 2 ^ 64 ∧ pl % 256 = 0)
    (hnone : (tag = 5 ∨ tag = 6) → pl = 0) (tail : Bytes) :
    readDistAt 0 ⟨[9, 9], [], [], 0⟩ (leBytes 8 (distWord tag pl) ++ tail) = .ok () ⟨[tag, pl], [], [], 0⟩ tail := by
  have htag : tag = 0 ∨ tag = 2 ∨ tag = 4 ∨ tag = 1 ∨ tag = 3 ∨ tag = 5 ∨ tag = 6 := by omega
  by_cases h0 : tag = 0 ∨ tag = 2 ∨ tag = 4
  · have hp := hfix h0
    have e : distWord tag pl = tag * 2 ^ 56 + pl := by
      unfold distWord; rw [if_pos h0, or_add _ _ hp]; omega
    have h1 : (tag * 2 ^ 56 + pl) / 2 ^ 56 = tag := by omega
    have h2 : (tag * 2 ^ 56 + pl) % 2 ^ 56 = pl := by omega
    rw [e, readDist_eval _ (by omega), h1, h2, if_pos h0]
  · by_cases h1 : tag = 1 ∨ tag = 3
    · obtain ⟨hp, hm⟩ := hprob h1
      have hq : pl / 256 < 2 ^ 56 := by omega
      have e : distWord tag pl = tag * 2 ^ 56 + pl / 256 := by
        unfold distWord; rw [if_neg h0, if_pos h1, or_add _ _ hq]
      have g1 : (tag * 2 ^ 56 + pl / 256) / 2 ^ 56 = tag := by omega
      have g2 : (tag * 2 ^ 56 + pl / 256) % 2 ^ 56 = pl / 256 := by omega
      have g3 : pl / 256 * 256 % 2 ^ 64 = pl := by
        rw [Nat.div_mul_cancel (Nat.dvd_of_mod_eq_zero hm)]; exact Nat.mod_eq_of_lt hp
      rw [e, readDist_eval _ (by omega), g1, g2, if_neg h0, if_pos h1, g3]
    · have h5 : tag = 5 ∨ tag = 6 := by omega
      have hz := hnone h5
      have e : distWord tag pl = tag * 2 ^ 56 := by
        unfold distWord; rw [if_neg h0, if_neg h1]
      have g1 : (tag * 2 ^ 56) / 2 ^ 56 = tag := by omega
      rw [e, readDist_eval _ (by omega), g1, if_neg h0, if_neg h1, if_pos h5, hz]
example : (0 = 1 ∨ 0 = 3 → (4599075939470750464 : Nat) < 2 ^ 64 ∧ 4599075939470750464 % 256 = 0) := by decide

/-- `TernaryProb(0.3)` (bits 0x3FD3333333333333) is written as the word 0x013FD33333333333 and read back as
bits 0x3FD3333333333300: the object read is not equal to the object written (replayed on the real code by
`pvh ser dist tag=1 bits=4599075939470750515`). -/
theorem dist_round_trip_counterexample :
    ¬ (∀ tag pl : Nat, tag ≤ 6 → pl < 2 ^ 64 → ∀ tail,
        readDistAt 0 ⟨[9, 9], [], [], 0⟩ (leBytes 8 (distWord tag pl) ++ tail) = .ok () ⟨[tag, pl], [], [], 0⟩ tail) := by
  intro h
  have := h 1 4599075939470750515 (by decide) (by decide) []
  revert this
  decide +kernel

end C18
