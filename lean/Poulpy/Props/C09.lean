import Poulpy.Model.Ring
import Poulpy.Model.Galois

/-! # C09 — coefficient-domain ring operations (placeholder, theorems follow) -/

namespace C09

theorem placeholder : znxRotate 1 [1, 2, 3, 4] = [-4, 1, 2, 3] := by decide

end C09
