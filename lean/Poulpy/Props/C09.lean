import Poulpy.Model.Ring
import Poulpy.Model.Galois
import Poulpy.Lemmas.RingWrap
import Poulpy.Lemmas.RingRotate
import Poulpy.Lemmas.RingAuto
import Poulpy.Lemmas.RingSwitch
import Poulpy.Lemmas.RingVec
import Poulpy.Lemmas.Galois
import Poulpy.Lemmas.NegRing
import Poulpy.Lemmas.RingMask

/-!
# C09 — coefficient-domain ring operations match `Z[X]/(X^N+1)` exactly

All statements are about the definitions of `Model/Ring.lean` / `Model/Galois.lean` that the
driver executes (`znxRotate = znxRotateW w64`, …).  Vocabulary from the lemma files:

* `coeffZ w a k` — coefficient `k ∈ ℤ` of the negacyclic (`X^n = -1`) extension of the list `a`:
  `a[k mod 2n]` if `k mod 2n < n`, else the wrapped negation of `a[k mod 2n - n]`;
* `I64 x` / `I128 x` — `x` is an `i64` / `i128` value; `AllP I64 a` — every coefficient of `a` is;
* `NegOn w P` — on the scalars satisfying `P` the wrapped negation `x ↦ w (-x)` is an involution that
  stays in `P` (`negOn64`, `negOn128`, `negOnZ` for `w64`, `w128`, `id`): the generic theorems in
  `Lemmas/` hold for the three scalar domains at once; here they are instantiated for `i64` limbs
  (the `i128` big accumulator and the exact ring are the same proofs with `negOn128` / `negOnZ`);
* `GalOk g n` — `g` odd and `g mod 2n` coprime to `n` (`galOk_pow2`: every odd `g` when `n = 2^k`).

Wrapping: the digit range is the whole `i64` range; `-i64::MIN = i64::MIN` is part of the model, so
the group laws hold on *every* `i64` buffer, not just under a head-room hypothesis.
-/

namespace C09

/-! ## rotation: multiplication by `X^p` -/

theorem rotate_length (p : Int) (a : Poly) : (znxRotate p a).length = a.length := _root_.rotate_length w64 p a

/-- `rotate_spec`: for all `p ∈ ℤ`, all `n ≥ 1`, coefficient `j` of `X^p·a` is `±a[(j-p) mod n]`, the
sign being `-` exactly when `(j - p) mod 2n ≥ n`. -/
theorem rotate_spec (p : Int) (a : Poly) (j : Nat) (hj : j < a.length) :
    (znxRotate p a).getD j 0 =
      (if ((j : Int) - p) % (2 * (a.length : Int)) < a.length
        then a.getD (((j : Int) - p) % (2 * (a.length : Int))).toNat 0
        else w64 (-(a.getD ((((j : Int) - p) % (2 * (a.length : Int))).toNat - a.length) 0))) := by
  rw [show znxRotate p a = znxRotateW w64 p a from rfl, rotate_getD w64 p a j hj]
  unfold coeffZ
  dsimp only
  have h0 : 0 ≤ ((j : Int) - p) % (2 * (a.length : Int)) := Int.emod_nonneg _ (by omega)
  by_cases h : ((j : Int) - p) % (2 * (a.length : Int)) < a.length
  · have : (((j : Int) - p) % (2 * (a.length : Int))).toNat < a.length := by omega
    simp [h, this]
  · have : ¬ (((j : Int) - p) % (2 * (a.length : Int))).toNat < a.length := by omega
    simp [h, this]

example : znxRotate (-3) [1, 2, 3, 4] = [4, -1, -2, -3] := by decide
example : (znxRotate 5 [1, 2, 3, -2 ^ 63]).getD 0 0 = -2 ^ 63 := by decide

/-- `rotate_spec` on the whole extension: coefficient `k` of `X^p·a` is coefficient `k - p` of `a`, all `k, p ∈ ℤ`. -/
theorem rotate_spec_ext (p : Int) (a : Poly) (ha : AllP I64 a) (hn : 0 < a.length) (k : Int) :
    coeffZ w64 (znxRotate p a) k = coeffZ w64 a (k - p) := rotate_coeffZ negOn64 p a ha hn k

/-- `rotate_add`: `X^p · (X^q · a) = X^{p+q} · a` on every `i64` buffer -/
theorem rotate_add (p q : Int) (a : Poly) (ha : AllP I64 a) :
    znxRotate p (znxRotate q a) = znxRotate (p + q) a := _root_.rotate_add negOn64 p q a ha

example : AllP I64 [1, -2 ^ 63, 3, 2 ^ 63 - 1] := by
  intro x hx; simp at hx; rcases hx with rfl | rfl | rfl | rfl <;> (unfold I64; omega)

/-- the same law in the exact ring (no wrapping, no range hypothesis) -/
theorem rotate_add_exact (p q : Int) (a : Poly) :
    znxRotateW id p (znxRotateW id q a) = znxRotateW id (p + q) a :=
  _root_.rotate_add negOnZ p q a (fun _ _ => trivial)

/-- `rotate_2N`: `X^{2N·m} = 1` -/
theorem rotate_2N (m : Int) (a : Poly) : znxRotate (2 * (a.length : Int) * m) a = a := _root_.rotate_2N w64 m a

example : znxRotate 8 [1, 2, 3, 4] = [1, 2, 3, 4] := by decide

/-- `rotate_neg_inv`: `X^{-p}` undoes `X^p` -/
theorem rotate_neg_inv (p : Int) (a : Poly) (ha : AllP I64 a) : znxRotate (-p) (znxRotate p a) = a :=
  _root_.rotate_neg_inv negOn64 p a ha

/-- `X^N = -1` (wrapped negation) -/
theorem rotate_N (a : Poly) (ha : AllP I64 a) : znxRotate (a.length : Int) a = znxNegate a :=
  _root_.rotate_N negOn64 a ha

/-- `rotate` only depends on `p mod 2N` (what the masks `p & (2n-1)` compute) -/
theorem rotate_mod (p q : Int) (a : Poly) (h : p % (2 * (a.length : Int)) = q % (2 * (a.length : Int))) :
    znxRotate p a = znxRotate q a := rotate_congr w64 p q a h

/-- buffers of `i64` stay buffers of `i64` -/
theorem rotate_range (p : Int) (a : Poly) (ha : AllP I64 a) : AllP I64 (znxRotate p a) := rotate_allP negOn64 p ha

/-! ## multiplication by `X^p - 1` -/

/-- `mul_xp_minus_one = rotate − id`, with the size rule (limbs absent from `a` are zero) -/
theorem mul_xp_minus_one_spec (p : Int) (n resSize : Nat) (a : Col) (j : Nat) (hj : j < resSize) :
    (vecMulXpMinusOne p n resSize a)[j]?
      = some (match a[j]? with | some x => znxSub (znxRotate p x) x | none => znxZero n) :=
  (vecMulXpMinusOneW_rule w64 p n resSize a j hj).trans (by cases a[j]? <;> rfl)

theorem mul_xp_minus_one_assign_spec (p : Int) (res : Col) :
    vecMulXpMinusOneAssignW w64 p res = res.map (fun r => znxSub (znxRotate p r) r) := rfl

example : vecMulXpMinusOne 1 2 2 [[5, 7]] = [[-12, -2], [0, 0]] := by decide

/-! ## Galois automorphisms `X ↦ X^g` -/

/-- `automorphism_spec` (extension form): for `N = 2^k`, odd `g`, any `i64` buffer: coefficient
`i·g` of `σ_g a` is coefficient `i` of `a`, for all `i ∈ ℤ`. -/
theorem automorphism_spec (k : Nat) (g : Int) (hg : g % 2 = 1) (a : Poly) (hl : a.length = 2 ^ k) (ha : AllP I64 a)
    (i : Int) : coeffZ w64 (znxAutomorphism g a) (i * g) = coeffZ w64 a i :=
  auto_coeffZ negOn64 g a (by rw [hl]; positivity) ha (by rw [hl]; exact galOk_pow2 k hg) i

/-- `automorphism_spec` (index form): `res[(i·g) mod n] = ± a[i]`, sign negative exactly when
`(i·g) mod 2n ≥ n`; whatever the result buffer contained before. -/
theorem automorphism_spec_index (k : Nat) (g : Int) (hg : g % 2 = 1) (res0 a : Poly) (hl : a.length = 2 ^ k)
    (hr : res0.length = a.length) (i : Nat) (hi : i < a.length) :
    (znxAutomorphismIntoW w64 g res0 a)[(i * (g % (2 * (a.length : Int))).toNat) % (2 * a.length) % a.length]?
      = some (if (i * (g % (2 * (a.length : Int))).toNat) % (2 * a.length) < a.length then a.getD i 0
              else w64 (-(a.getD i 0))) :=
  autoInto_get w64 g res0 a (by rw [hl]; positivity) hr (by rw [hl]; exact (galOk_pow2 k hg).2) i hi

example : znxAutomorphism 3 [1, 2, 3, 4] = [1, 4, -3, 2] := by decide
example : znxAutomorphism (-1) [1, 2, 3, 4] = [1, -4, -3, -2] := by decide

theorem automorphism_length (g : Int) (a : Poly) : (znxAutomorphism g a).length = a.length := auto_length w64 g a

/-- `automorphism_comp`: `σ_g ∘ σ_h = σ_{g·h}` (hence `σ_{gh mod 2N}`, by `automorphism_mod`) -/
theorem automorphism_comp (k : Nat) (g h : Int) (hg : g % 2 = 1) (hh : h % 2 = 1) (a : Poly) (hl : a.length = 2 ^ k)
    (ha : AllP I64 a) : znxAutomorphism g (znxAutomorphism h a) = znxAutomorphism (g * h) a :=
  auto_comp negOn64 g h a (by rw [hl]; positivity) ha (by rw [hl]; exact galOk_pow2 k hg) (by rw [hl]; exact galOk_pow2 k hh)

theorem automorphism_mod (g h : Int) (a : Poly) (e : g % (2 * (a.length : Int)) = h % (2 * (a.length : Int))) :
    znxAutomorphism g a = znxAutomorphism h a := auto_congr w64 g h a e

theorem automorphism_one (a : Poly) (ha : AllP I64 a) : znxAutomorphism 1 a = a := auto_one negOn64 a ha

/-- `automorphism_inv`: the element returned by `galois_element_inv` undoes `σ_g` (`2N = 2^{k+1} ≤ 2^64`) -/
theorem automorphism_inv (k : Nat) (hk : k + 1 ≤ 64) (g g' : Int) (hg : g % 2 = 1) (a : Poly) (hl : a.length = 2 ^ k)
    (ha : AllP I64 a) (hinv : galoisElementInv g (cyclotomicOrder a.length) = .ok g') :
    znxAutomorphism g' (znxAutomorphism g a) = a := by
  have hord : cyclotomicOrder a.length = 2 ^ (k + 1) := by unfold cyclotomicOrder; rw [hl]; push_cast; ring
  rw [hord] at hinv
  have hmul := galoisElementInv_mul g hg (k + 1) hk g' hinv
  have hpos : 0 < a.length := by rw [hl]; positivity
  have hg' : g' % 2 = 1 := by
    have h2 : (g' * g) % 2 = 1 := by
      have h3 : (g' * g) % 2 ^ (k + 1) % 2 = 1 % 2 ^ (k + 1) % 2 := by rw [hmul]
      rw [Int.emod_emod_of_dvd _ (dvd_pow_self 2 (by omega)), Int.emod_emod_of_dvd _ (dvd_pow_self 2 (by omega))] at h3
      simpa using h3
    rcases Int.emod_two_eq g' with h0 | h1
    · rw [Int.mul_emod, h0] at h2; simp at h2
    · exact h1
  refine auto_inv negOn64 g g' a hpos ha (by rw [hl]; exact galOk_pow2 k hg) (by rw [hl]; exact galOk_pow2 k hg') ?_
  have : (2 * (a.length : Int)) = 2 ^ (k + 1) := by rw [hl]; push_cast; ring
  rw [this]; exact hmul

example : galoisElementInv 3 (cyclotomicOrder 4) = .ok 3 := by
  rw [show cyclotomicOrder 4 = 2 ^ 3 from rfl, galoisElementInv_spec 3 _ (by decide) (pow_dvd_pow 2 (by norm_num))]; rfl
example : znxAutomorphism 3 (znxAutomorphism 3 [1, 2, 3, 4]) = [1, 2, 3, 4] := by decide

/-- `σ_g (X^p · a) = X^{p·g} · σ_g a` -/
theorem automorphism_rotate (k : Nat) (g p : Int) (hg : g % 2 = 1) (a : Poly) (hl : a.length = 2 ^ k) (ha : AllP I64 a) :
    znxAutomorphism g (znxRotate p a) = znxRotate (p * g) (znxAutomorphism g a) :=
  auto_rotate negOn64 g p a (by rw [hl]; positivity) ha (by rw [hl]; exact galOk_pow2 k hg)

/-- for odd `g` the previous content of the result buffer does not matter … -/
theorem automorphism_overwrites (k : Nat) (g : Int) (hg : g % 2 = 1) (res0 a : Poly) (hl : a.length = 2 ^ k)
    (hr : res0.length = a.length) (h0 : AllP I64 res0) (ha : AllP I64 a) :
    znxAutomorphismIntoW w64 g res0 a = znxAutomorphism g a :=
  autoInto_eq_auto negOn64 g res0 a (by rw [hl]; positivity) hr h0 ha (by rw [hl]; exact galOk_pow2 k hg)

/-- … whereas an even `g` is inadmissible: the kernel is not a permutation, coefficients that are not
hit keep the previous content of the buffer (here positions 1 and 3), and the guard `GalOk` fails. -/
theorem automorphism_even_inadmissible :
    znxAutomorphismIntoW w64 2 [9, 9, 9, 9] [1, 2, 3, 4] = [-3, 9, -4, 9] ∧ ¬ GalOk 2 4 := by
  refine ⟨by decide, ?_⟩
  intro h; have := h.1; omega

/-- **in-place form, odd `g`**: `vec_znx_automorphism_assign` goes through a scratch polynomial that is never
initialised; for an odd `g` its content (`tmp0`, any `i64` values) is irrelevant and every limb becomes `σ_g` of itself -/
theorem automorphism_assign_scratch_irrelevant (k : Nat) (g : Int) (hg : g % 2 = 1) (tmp0 : Poly) (res : Col)
    (ht : tmp0.length = 2 ^ k) (hT : AllP I64 tmp0) (hl : ∀ l ∈ res, l.length = 2 ^ k) (hp : ∀ l ∈ res, AllP I64 l) :
    (vecAutomorphismAssignScr w64 g tmp0 res).1 = vecAutomorphismAssignW w64 g res := by
  have := autoAssignScr_eq negOn64 g (2 ^ k) (by positivity) (galOk_pow2 k hg) res hl hp [] tmp0 ht hT
  simpa [vecAutomorphismAssignScr, vecAutomorphismAssignW] using this

/-- **in-place form, even `g`** (inadmissible; the guard is `g % 2 = 1`): what the code does is
`vecAutomorphismAssignScr` — the coefficients the scatter loop does not hit are read from the scratch arena for limb 0
and from the previous limb's result afterwards.  Witness: `g = 2`, two limbs, two different scratch contents. -/
theorem automorphism_assign_even_reads_scratch :
    (vecAutomorphismAssignScr w64 2 [7, 7, 7, 7] [[1, 2, 3, 4], [10, 20, 30, 40]]).1 = [[-3, 7, -4, 7], [-30, 7, -40, 7]] ∧
    (vecAutomorphismAssignScr w64 2 [0, 0, 0, 0] [[1, 2, 3, 4], [10, 20, 30, 40]]).1 = [[-3, 0, -4, 0], [-30, 0, -40, 0]] := by
  constructor <;> decide

/-! ## the index masks of the Rust are the model's `%` -/

/-- `(p & (2n-1)) as usize` on the two's-complement `i64` `p` is `p mod 2n` (non-negative remainder of the signed
value) for `2n = 2^k`: `mp_2n` of `znx_rotate`, `p_2n` of `znx_automorphism_ref` -/
theorem mask_i64_is_mod (p : BitVec 64) (k : Nat) (hk : k ≤ 63) :
    ((p &&& (BitVec.ofNat 64 (2 ^ k) - 1#64)).toNat : Int) = p.toInt % (2 ^ k : Int) := mask_i64 p k hk

/-- in the shape the model uses it, degree `n = 2^j` -/
theorem mask_i64_is_model_index (p : BitVec 64) (j : Nat) (hj : j ≤ 62) :
    (p &&& (BitVec.ofNat 64 (2 * 2 ^ j) - 1#64)).toNat = (p.toInt % (2 * ((2 ^ j : Nat) : Int))).toNat :=
  mask_i64_model p j hj

/-- `usize` / `u64` masks (`mp_2n & (n-1)`, `k & mask`, `g_exp & (cyclotomic_order-1)`) -/
theorem mask_unsigned_is_mod (x k : Nat) : x &&& (2 ^ k - 1) = x % 2 ^ k := mask_nat x k

example : ((BitVec.ofInt 64 (-3)) &&& (BitVec.ofNat 64 (2 ^ 3) - 1#64)).toNat = 5 := by decide

/-! ## Galois elements (`layouts/module.rs`) -/

/-- `galois_element(t) = sign(t)·(5^{|t|} mod 2N)`, `1` for `t = 0` -/
theorem galois_element_spec (t : Int) (K : Nat) (hK : K ≤ 64) :
    galoisElement t (2 ^ K) = .ok (if t = 0 then 1 else 5 ^ t.natAbs % 2 ^ K * t.sign) := by
  apply galoisElement_spec t _ _ (pow_dvd_pow 2 hK)
  unfold isPow2Int
  have hp : (0 : Int) < 2 ^ K := by positivity
  have e : ((2 : Int) ^ K).toNat = 2 ^ K := by
    have : ((2 : Int) ^ K) = ((2 ^ K : Nat) : Int) := by push_cast; rfl
    rw [this]; rfl
  simp only [hp, decide_true, Bool.true_and, e, beq_iff_eq]
  exact Nat.and_two_pow_sub_one_eq_mod (2 ^ K) K ▸ (by simp)

/-- the library's signed generator convention: `galois_element(-t) = -(5^t mod 2N)` for `t > 0` -/
theorem galois_element_neg (t : Nat) (ht : 0 < t) (K : Nat) (hK : K ≤ 64) :
    galoisElement (-(t : Int)) (2 ^ K) = .ok (-(5 ^ t % 2 ^ K)) := by
  rw [galois_element_spec _ K hK]
  have h1 : (-(t : Int)) ≠ 0 := by omega
  have h2 : (-(t : Int)).sign = -1 := Int.sign_eq_neg_one_of_neg (by omega)
  simp [h1, h2]

example : galoisElement (-3) (2 ^ 4) = .ok (-13) := by
  have := galois_element_neg 3 (by norm_num) 4 (by norm_num)
  simpa using this

/-- `galois_element_inv(g)·g ≡ 1 (mod 2N)` for odd `g` -/
theorem galois_element_inv_mul (g : Int) (hg : g % 2 = 1) (K : Nat) (hK : K ≤ 64) (h : Int)
    (hh : galoisElementInv g (2 ^ K) = .ok h) : (h * g) % 2 ^ K = 1 % 2 ^ K := galoisElementInv_mul g hg K hK h hh

theorem galois_element_inv_zero (m : Int) : galoisElementInv 0 m = .panic "other" := rfl

/-- `mod_exp_u64(x, e) ≡ x^e (mod 2^64)` -/
theorem mod_exp_u64_spec (x : Int) (e : Nat) : modExpU64 x e % 2 ^ 64 = x ^ e % 2 ^ 64 := modExpU64_modEq x e

/-! ## ring-degree switching -/

/-- `switch_ring` up by `gap` is `X ↦ X^gap`: coefficient `k·gap + r` is `a[k]` for `r = 0`, else `0` -/
theorem switch_ring_up (gap : Nat) (hg : 2 ≤ gap) (a : Poly) (hn : 0 < a.length) (k r : Nat) (hk : k < a.length)
    (hr : r < gap) :
    (znxSwitchRing (a.length * gap) a)[k * gap + r]? = some (if r = 0 then a.getD k 0 else 0) := by
  rw [switch_up_eq gap hg a hn]; exact upsample_getElem? gap (by omega) a k r hk hr

theorem switch_ring_up_length (gap : Nat) (hg : 2 ≤ gap) (a : Poly) (hn : 0 < a.length) :
    (znxSwitchRing (a.length * gap) a).length = a.length * gap := by
  rw [switch_up_eq gap hg a hn]; exact upsample_length gap (by omega) a

/-- `switch_ring` down by `gap` is sub-sampling: `res[m] = a[m·gap]` -/
theorem switch_ring_down (nOut gap : Nat) (hO : 0 < nOut) (hg : 2 ≤ gap) (a : Poly) (ha : a.length = nOut * gap)
    (m : Nat) (hm : m < nOut) : (znxSwitchRing nOut a)[m]? = a[m * gap]? :=
  switch_down_getElem? nOut gap hO hg a ha m hm

theorem switch_ring_same (a : Poly) : znxSwitchRing a.length a = a := by simp [znxSwitchRing]

/-- down after up is the identity -/
theorem switch_ring_down_up (gap : Nat) (hg : 2 ≤ gap) (a : Poly) (hn : 0 < a.length) :
    znxSwitchRing a.length (znxSwitchRing (a.length * gap) a) = a := switch_down_up gap hg a hn

example : znxSwitchRing 8 [1, 2, 3, 4] = [1, 0, 2, 0, 3, 0, 4, 0] := by decide
example : znxSwitchRing 2 [1, 2, 3, 4, 5, 6, 7, 8] = [1, 5] := by decide

/-- the entry assertions of the kernel: `n_in` a power of two and the degrees dividing one another -/
theorem switch_ring_guard (nOut : Nat) (a : Poly) (h : isPow2 a.length = true)
    (hd : max a.length nOut % min a.length nOut = 0) : znxSwitchRingO nOut a = .ok (znxSwitchRing nOut a) := by
  unfold znxSwitchRingO; simp [h, hd]

/-! ## splitting and merging -/

/-- part `i` of a split holds the coefficients `≡ i (mod gap)`: no sign, no wrap -/
theorem split_ring_coeff (nOut gap : Nat) (hO : 0 < nOut) (hg : 2 ≤ gap) (a : Col) (ha : ∀ l ∈ a, l.length = nOut * gap)
    (sizes : List Nat) (i : Nat) (hi : i < gap) (his : i < sizes.length) (j : Nat) (hj : j < min (sizes.getD i 0) a.length)
    (m : Nat) (hm : m < nOut) :
    ((((vecSplitRing nOut sizes a)[i]?).getD [])[j]?.getD [])[m]? = ((a[j]?).getD [])[m * gap + i]? := by
  have hja : j < a.length := by omega
  rw [vecSplitRing_getElem?, List.getElem?_eq_getElem his]
  simp only [Option.map_some, Option.getD_some]
  have e : sizes.getD i 0 = sizes[i] := by rw [List.getD_eq_getElem?_getD, List.getElem?_eq_getElem his]; rfl
  rw [e] at hj
  rw [splitPart_getElem?_lt _ _ _ _ _ hj, List.getElem?_eq_getElem hja]
  simp only [Option.map_some, Option.getD_some]
  exact split_coeff nOut gap hO hg _ (ha _ (List.getElem_mem hja)) i hi m hm

/-- **`split_merge_id`, first half: `merge (split a) = a`** (each part at least as long as `a`) -/
theorem merge_split_id (nOut gap : Nat) (hO : 0 < nOut) (hg : 2 ≤ gap) (a : Col) (ha : ∀ l ∈ a, l.length = nOut * gap)
    (sizes : List Nat) (hs : sizes.length = gap) (hsz : ∀ s ∈ sizes, a.length ≤ s) :
    vecMergeRings nOut a.length (vecSplitRing nOut sizes a) = a :=
  _root_.merge_split_id nOut gap hO hg a ha sizes hs hsz

/-- general sizes: limbs a part does not have read as zero (size rule of split followed by merge) -/
theorem merge_split_sizes (nOut gap : Nat) (hO : 0 < nOut) (hg : 2 ≤ gap) (a : Col) (ha : ∀ l ∈ a, l.length = nOut * gap)
    (sizes : List Nat) (hs : sizes.length = gap) (resSize j : Nat) (hj : j < resSize) (i k : Nat) (hi : i < gap)
    (hk : k < nOut) :
    ((vecMergeRings nOut resSize (vecSplitRing nOut sizes a))[j]?.getD [])[k * gap + i]?
      = some (if j < min (sizes.getD i 0) a.length then ((a[j]?).getD []).getD (k * gap + i) 0 else 0) :=
  merge_split_coeff nOut gap hO hg a ha sizes hs resSize j hj i k hi hk

/-- **second half: `split (merge parts) = parts`** -/
theorem split_merge_id (nOut : Nat) (hO : 0 < nOut) (parts : List Col) (hg : 2 ≤ parts.length) (s : Nat)
    (hsz : ∀ p ∈ parts, p.length = s) (hl : ∀ p ∈ parts, ∀ l ∈ p, l.length = nOut) :
    vecSplitRing nOut (List.replicate parts.length s) (vecMergeRings nOut s parts) = parts :=
  _root_.split_merge_id nOut hO parts hg s hsz hl

example : vecSplitRing 2 [1, 1] [[1, 2, 3, 4]] = [[[1, 3]], [[2, 4]]] := by decide
example : vecMergeRings 2 1 [[[1, 3]], [[2, 4]]] = [[1, 2, 3, 4]] := by decide
example : vecMergeRings 2 2 (vecSplitRing 2 [2, 3] [[1, 2, 3, 4], [5, 6, 7, 8]]) = [[1, 2, 3, 4], [5, 6, 7, 8]] := by decide

/-! ## size rule of the vec-level operations

`resSize` limbs are produced; limb `j` depends only on limb `j` of the operands; limbs an operand
does not have count as absent (for add/sub/copy/negate this is the same as a zero limb, extra
operand limbs beyond `resSize` are ignored). -/

theorem add_size_rule (n resSize : Nat) (a b : Col) (j : Nat) (hj : j < resSize) :
    (vecAdd n resSize a b).length = resSize ∧
    (vecAdd n resSize a b)[j]? = some (match a[j]?, b[j]? with
      | some x, some y => znxAdd x y
      | some x, none => x
      | none, some y => y
      | none, none => znxZero n) := by
  rw [show vecAdd n resSize a b = vecAddW w64 n resSize a b from rfl, vecAddW_eq]
  exact ⟨binCol_length _ _ _ _ _ _ _, (binCol_rule _ _ _ _ _ _ _ j hj).trans (by cases a[j]? <;> cases b[j]? <;> rfl)⟩

theorem sub_size_rule (n resSize : Nat) (a b : Col) (j : Nat) (hj : j < resSize) :
    (vecSub n resSize a b).length = resSize ∧
    (vecSub n resSize a b)[j]? = some (match a[j]?, b[j]? with
      | some x, some y => znxSub x y
      | some x, none => x
      | none, some y => znxNegate y
      | none, none => znxZero n) := by
  rw [show vecSub n resSize a b = vecSubW w64 n resSize a b from rfl, vecSubW_eq]
  exact ⟨binCol_length _ _ _ _ _ _ _, (binCol_rule _ _ _ _ _ _ _ j hj).trans (by cases a[j]? <;> cases b[j]? <;> rfl)⟩

example : vecAdd 1 3 [[1]] [[10], [20]] = [[11], [20], [0]] := by decide
example : vecSub 1 3 [[1]] [[10], [20]] = [[-9], [-20], [0]] := by decide
example : vecSub 1 1 [[1], [2]] [[10]] = [[-9]] := by decide

/-- `_assign` forms: `res` keeps its size; only the limbs `a` has are touched -/
theorem add_assign_size_rule (res a : Col) (j : Nat) :
    (vecAddAssignW w64 res a).length = res.length ∧
    (vecAddAssignW w64 res a)[j]? = (res[j]?).map (fun r => match a[j]? with | some x => znxAdd r x | none => r) := by
  rw [vecAddAssignW_eq]
  exact ⟨assignCol_length _ _ _ _, (assignCol_rule _ _ _ _ j).trans (by cases res[j]? <;> cases a[j]? <;> rfl)⟩

theorem sub_assign_size_rule (res a : Col) (j : Nat) :
    (vecSubAssignW w64 res a).length = res.length ∧
    (vecSubAssignW w64 res a)[j]? = (res[j]?).map (fun r => match a[j]? with | some x => znxSub r x | none => r) := by
  rw [vecSubAssignW_eq]
  exact ⟨assignCol_length _ _ _ _, (assignCol_rule _ _ _ _ j).trans (by cases res[j]? <;> cases a[j]? <;> rfl)⟩

/-- `sub_negate_assign`: `res = a - res`; limbs of `res` beyond `a` are negated -/
theorem sub_negate_assign_size_rule (res a : Col) (j : Nat) :
    (vecSubNegateAssignW w64 res a).length = res.length ∧
    (vecSubNegateAssignW w64 res a)[j]?
      = (res[j]?).map (fun r => match a[j]? with | some x => znxSub x r | none => znxNegate r) := by
  rw [vecSubNegateAssignW_eq]
  exact ⟨assignCol_length _ _ _ _, (assignCol_rule _ _ _ _ j).trans (by cases res[j]? <;> cases a[j]? <;> rfl)⟩

example : vecSubNegateAssignW w64 [[1], [2]] [[10]] = [[9], [-2]] := by decide

/-- unary operations: `f` on the limbs `a` has, zero limbs after -/
theorem unary_size_rules (n resSize : Nat) (a : Col) (p : Int) (j : Nat) (hj : j < resSize) :
    (vecCopy n resSize a)[j]? = some (match a[j]? with | some x => x | none => znxZero n) ∧
    (vecNegate n resSize a)[j]? = some (match a[j]? with | some x => znxNegate x | none => znxZero n) ∧
    (vecRotate p n resSize a)[j]? = some (match a[j]? with | some x => znxRotate p x | none => znxZero n) ∧
    (vecAutomorphism p n resSize a)[j]? = some (match a[j]? with | some x => znxAutomorphism p x | none => znxZero n) ∧
    (vecSwitchRing n resSize a)[j]? = some (match a[j]? with | some x => znxSwitchRing n x | none => znxZero n) ∧
    (vecZero n resSize)[j]? = some (znxZero n) := by
  refine ⟨?_, ?_, ?_, ?_, ?_, ?_⟩
  · have := unary_rule (fun x : Poly => x) (znxZero n) resSize a j hj
    rw [List.map_id'] at this
    exact this.trans (by cases a[j]? <;> rfl)
  · exact (unary_rule (znxNegateW w64) (znxZero n) resSize a j hj).trans (by cases a[j]? <;> rfl)
  · exact (unary_rule (znxRotateW w64 p) (znxZero n) resSize a j hj).trans (by cases a[j]? <;> rfl)
  · exact (unary_rule (znxAutomorphismW w64 p) (znxZero n) resSize a j hj).trans (by cases a[j]? <;> rfl)
  · have := unary_rule (znxSwitchRing n) (znxZero n) resSize a j hj
    rw [Nat.min_comm] at this
    exact this.trans (by cases a[j]? <;> rfl)
  · simp [vecZero, hj]

theorem unary_lengths (n resSize : Nat) (a : Col) (p : Int) :
    (vecCopy n resSize a).length = resSize ∧ (vecNegate n resSize a).length = resSize ∧
    (vecRotate p n resSize a).length = resSize ∧ (vecAutomorphism p n resSize a).length = resSize ∧
    (vecSwitchRing n resSize a).length = resSize ∧ (vecZero n resSize).length = resSize := by
  refine ⟨?_, ?_, ?_, ?_, ?_, ?_⟩ <;> simp [vecCopy, vecNegateW, vecRotateW, vecAutomorphismW, vecSwitchRing, vecZero]

example : vecRotate 1 2 3 [[1, 2], [3, 4]] = [[-2, 1], [-4, 3], [0, 0]] := by decide
example : vecCopy 2 1 [[1, 2], [3, 4]] = [[1, 2]] := by decide

/-- scalar add / sub on a chosen limb: inside the guard the result is `b` (copy rule) with `a` combined on limb
`bLimb`; outside the guard the call panics (`assert!(b_limb < min_size)`) -/
theorem add_scalar_size_rule (n resSize : Nat) (a : Poly) (b : Col) (bLimb : Nat) (h : bLimb < min b.length resSize) :
    ∃ r, vecAddScalarO w64 n resSize a b bLimb = .ok r ∧ r.length = resSize ∧
      ∀ j, j < resSize → r[j]? = some (match b[j]? with
        | some bj => if j = bLimb then znxAdd a bj else bj
        | none => znxZero n) := by
  obtain ⟨r, h1, h2, h3⟩ := vecAddScalar_rule w64 n resSize a b bLimb h
  exact ⟨r, h1, h2, fun j hj => (h3 j hj).trans (by cases b[j]? <;> rfl)⟩

theorem sub_scalar_size_rule (n resSize : Nat) (a : Poly) (b : Col) (bLimb : Nat) (h : bLimb < min b.length resSize) :
    ∃ r, vecSubScalarO w64 n resSize a b bLimb = .ok r ∧ r.length = resSize ∧
      ∀ j, j < resSize → r[j]? = some (match b[j]? with
        | some bj => if j = bLimb then znxSub bj a else bj
        | none => znxZero n) := by
  obtain ⟨r, h1, h2, h3⟩ := vecSubScalar_rule w64 n resSize a b bLimb h
  exact ⟨r, h1, h2, fun j hj => (h3 j hj).trans (by cases b[j]? <;> rfl)⟩

theorem scalar_guard (n resSize : Nat) (a : Poly) (b : Col) (bLimb : Nat) (h : ¬ bLimb < min b.length resSize) :
    vecAddScalarO w64 n resSize a b bLimb = .panic "assert" ∧ vecSubScalarO w64 n resSize a b bLimb = .panic "assert" := by
  unfold vecAddScalarO vecSubScalarO; simp [h]

/-- the in-place scalar forms touch exactly one limb -/
theorem scalar_assign_rule (res : Col) (resLimb : Nat) (a : Poly) (h : resLimb < res.length) (j : Nat) :
    vecAddScalarAssignO w64 res resLimb a = .ok (scalarLimbs (fun r => znxAdd r a) resLimb res) ∧
    (scalarLimbs (fun r => znxAdd r a) resLimb res)[j]? = (res[j]?).map (fun r => if j = resLimb then znxAdd r a else r) := by
  refine ⟨by unfold vecAddScalarAssignO; simp [h], scalarLimbs_getElem? _ _ _ _⟩

/-! ## the NTT120 big accumulator (`i128`) follows the same rules

its functions are separate code (`reference/ntt120/vec_znx_big.rs`); the model mirrors their control
flow separately and these theorems identify them with the generic operations at `w128`. -/

theorem ntt120_big_twins (n resSize : Nat) (a b res : Col) :
    ntt120BigAdd n resSize a b = vecAddW w128 n resSize a b ∧
    ntt120BigAddSmall n resSize a b = vecAddW w128 n resSize a b ∧
    ntt120BigSub n resSize a b = vecSubW w128 n resSize a b ∧
    ntt120BigSubSmallA n resSize a b = vecSubW w128 n resSize a b ∧
    ntt120BigSubSmallB n resSize a b = vecSubW w128 n resSize a b ∧
    ntt120BigSubNegateAssign res a = vecSubNegateAssignW w128 res a :=
  ⟨ntt120BigAdd_eq _ _ _ _, ntt120BigAddSmall_eq _ _ _ _, ntt120BigSub_eq _ _ _ _, ntt120BigSubSmallA_eq _ _ _ _,
    ntt120BigSubSmallB_eq _ _ _ _, ntt120BigSubNegateAssign_eq _ _⟩

/-- for odd `g` the in-place NTT120 automorphism (which scatters into the buffer it copied from) is `σ_g` -/
theorem ntt120_big_automorphism_assign (k : Nat) (g : Int) (hg : g % 2 = 1) (res : Col)
    (hl : ∀ l ∈ res, l.length = 2 ^ k) (hr : ∀ l ∈ res, AllP I128 l) :
    ntt120BigAutomorphismAssign g res = vecAutomorphismAssignW w128 g res := by
  unfold ntt120BigAutomorphismAssign vecAutomorphismAssignW
  apply List.map_congr_left
  intro l hlm
  exact autoInto_eq_auto negOn128 g l l (by rw [hl l hlm]; positivity) rfl (hr l hlm) (hr l hlm)
    (by rw [hl l hlm]; exact galOk_pow2 k hg)

example : ntt120BigSubSmallA 1 3 [[1]] [[10], [20]] = [[-9], [-20], [0]] := by decide

/-! ## wrapping: the limb-wise operations are exact modulo `2^64` over the whole `i64` range -/

theorem add_exact_mod (a b : Poly) (i : Nat) (hi : i < a.length) (hb : i < b.length) :
    ∃ r, (znxAdd a b)[i]? = some r ∧ I64 r ∧ r % 2 ^ 64 = (a[i] + b[i]) % 2 ^ 64 ∧ (I64 (a[i] + b[i]) → r = a[i] + b[i]) := by
  refine ⟨w64 (a[i] + b[i]), ?_, w64_I64 _, w64_congr _, fun h => w64_of_I64 h⟩
  simp [znxAddW, List.getElem?_zipWith, List.getElem?_eq_getElem hi, List.getElem?_eq_getElem hb]

theorem sub_exact_mod (a b : Poly) (i : Nat) (hi : i < a.length) (hb : i < b.length) :
    ∃ r, (znxSub a b)[i]? = some r ∧ I64 r ∧ r % 2 ^ 64 = (a[i] - b[i]) % 2 ^ 64 ∧ (I64 (a[i] - b[i]) → r = a[i] - b[i]) := by
  refine ⟨w64 (a[i] - b[i]), ?_, w64_I64 _, w64_congr _, fun h => w64_of_I64 h⟩
  simp [znxSubW, List.getElem?_zipWith, List.getElem?_eq_getElem hi, List.getElem?_eq_getElem hb]

theorem negate_exact_mod (a : Poly) (i : Nat) (hi : i < a.length) :
    ∃ r, (znxNegate a)[i]? = some r ∧ I64 r ∧ r % 2 ^ 64 = (-a[i]) % 2 ^ 64 ∧ (I64 (-a[i]) → r = -a[i]) := by
  refine ⟨w64 (-a[i]), ?_, w64_I64 _, w64_congr _, fun h => w64_of_I64 h⟩
  simp [znxNegateW, List.getElem?_eq_getElem hi]

example : znxAdd [2 ^ 63 - 1] [1] = [-2 ^ 63] := by decide
example : znxNegate [-2 ^ 63] = [-2 ^ 63] := by decide

/-! ## the exact negacyclic product `negMul` is the product of `ℤ[X]/(X^N+1)` (transfer through Mathlib's `AdjoinRoot`) -/

open Polynomial in
/-- `negMul` computes the product of the quotient ring: the class of `negMul a b` is the product of the classes -/
theorem negMul_is_quotient_product (N : Nat) (hN : 0 < N) (a b : Poly) (hb : b.length = N) :
    AdjoinRoot.mk (X ^ N + 1 : ℤ[X]) (toPoly (negMul a b))
      = AdjoinRoot.mk _ (toPoly a) * AdjoinRoot.mk _ (toPoly b) := mk_negMul N a b hb hN

theorem negMul_length (a b : Poly) : (negMul a b).length = b.length := _root_.negMul_length a b

theorem negMul_comm (N : Nat) (hN : 0 < N) (a b : Poly) (ha : a.length = N) (hb : b.length = N) :
    negMul a b = negMul b a := _root_.negMul_comm N a b ha hb hN

theorem negMul_assoc (N : Nat) (hN : 0 < N) (a b c : Poly) (hb : b.length = N) (hc : c.length = N) :
    negMul (negMul a b) c = negMul a (negMul b c) := _root_.negMul_assoc N a b c hb hc hN

theorem negMul_add (N : Nat) (hN : 0 < N) (a b c : Poly) (hb : b.length = N) (hc : c.length = N) :
    negMul a (addL b c) = addL (negMul a b) (negMul a c) := _root_.negMul_add N a b c hb hc hN

/-- the `X` used by `negMul` is the model's rotation by one (exact ring) -/
theorem mulX_is_rotate (l : Poly) : mulX l = znxRotateW id 1 l := mulX_eq_rotate l

example : negMul [1, 1, 0, 0] [0, 0, 0, 1] = [-1, 0, 0, 1] := by decide
example : negMul [0, 0, 0, 1] [1, 1, 0, 0] = [-1, 0, 0, 1] := by decide

end C09
