import Poulpy.Model.Ring
import Poulpy.Model.Galois

/-! # C09 — coefficient-domain ring operations (placeholder, theorems follow) -/

namespace C09

theorem rotate_length (p : Int) (a : Poly) : (znxRotate p a).length = a.length := by
  unfold znxRotate znxRotateW znxNegateW
  split <;> simp <;> omega

example : znxRotate 1 [1, 2, 3, 4] = [-4, 1, 2, 3] := by decide

end C09
