import Poulpy.Lemmas.CkksValue
import Poulpy.Lemmas.CkksProg
import Poulpy.Lemmas.CkksContract
import Poulpy.Lemmas.CkksPt
import Poulpy.Lemmas.CkksMulComp
import Poulpy.Model.CkksMulData
import Poulpy.Lemmas.CkksAut
import Poulpy.Lemmas.CkksMulSem
import Poulpy.Lemmas.CkksAutBal
import Poulpy.Lemmas.CkksDot
import Poulpy.Lemmas.CkksXProg
import Poulpy.Lemmas.CkksRelin
import Poulpy.Lemmas.CkksAutNumeric
import Poulpy.Lemmas.CkksConvSem
import Poulpy.Lemmas.CkksCorrect
/-!
# C16 — the CKKS evaluator tracks precision metadata through any straight-line program

All theorems are about `Ckks.stepR` / `Ckks.run` and the per-operation functions of
`Model/Ckks.lean`, i.e. the definitions `pdriver ckks` executes and `./check C16` compares step by
step with the real `poulpy_ckks` API.  A program is a list of API calls on a pool of ciphertexts;
`run` stops at the first call that does not return `Ok` (the caller propagates errors).

The model follows the tree with the repairs docs/fixes/01–08 applied.  What remains partial is stated
where it occurs (`never_panics_partial`: operands of a multiplication must hold a value).
-/

namespace C16
open Ckks

/-- NTT120 parameters of the reproduction: radix 52, keys for rotations 1 and 2, f64 plaintexts -/
def env52 : Env := ⟨52, [1, 2], 53⟩

/-! ## 1. invariant `log_delta + log_budget ≤ max_k` -/

/-- every `Ok` call keeps `log_delta + log_budget ≤ max_k` on all ciphertexts of the pool
(unconditional since `ckks_rescale_into` pays the destination offset, docs/fixes/04) -/
theorem invariant_step (env : Env) (hw : WF env) (pool pool' : Pool) (op : Op)
    (hI : Inv env pool) (h : stepR env pool op = .ok pool') : Inv env pool' :=
  stepR_ok_inv env hw pool pool' op hI h

example : Inv env52 [⟨⟨30, 130⟩, 4⟩, ⟨⟨0, 0⟩, 4⟩] ∧
    stepR env52 [⟨⟨30, 130⟩, 4⟩, ⟨⟨0, 0⟩, 4⟩] (.mul 1 0 0) = .ok [⟨⟨30, 130⟩, 4⟩, ⟨⟨30, 100⟩, 4⟩] := by
  constructor
  · intro c hc; simp at hc; rcases hc with rfl | rfl <;> simp [Ct.inv, Meta.effK, env52]
  · decide

/-- the former counterexample (`corpus/C16/04-rescale-into-smaller.case`): the rescale into 2 limbs
now pays 46 more bits instead of announcing 150 bits on a 104-bit ciphertext -/
example : stepR env52 [⟨⟨30, 130⟩, 4⟩, ⟨⟨0, 0⟩, 2⟩] (.rescale 1 10 0) =
    .ok [⟨⟨30, 130⟩, 4⟩, ⟨⟨30, 74⟩, 2⟩] := by decide

/-- the invariant along whole programs (induction on the op list) -/
theorem invariant_run (env : Env) (hw : WF env) (prog : List Op) (s s' : Pool)
    (hI : Inv env s) (h : run env s prog = .ok s') : Inv env s' :=
  run_ok_inv env hw prog s s' hI h

example : run env52 [⟨⟨0, 0⟩, 4⟩, ⟨⟨0, 0⟩, 4⟩]
    [.enc 0 160 ⟨⟨30, 100⟩, 52⟩, .rescaleAssign 0 55, .square 1 0] =
    .ok [⟨⟨30, 75⟩, 4⟩, ⟨⟨30, 45⟩, 4⟩] := by decide

/-! ## 2. `Err` exactly when the documented condition holds — one theorem per operation family -/

/-- add / sub of two ciphertexts: `InsufficientHomomorphicCapacity` iff the alignment offset exceeds
the smaller budget -/
theorem add_err_iff (env : Env) (dst a b : Ct) :
    (addCtInto env dst a b).isErr = true ↔ min a.md.logBudget b.md.logBudget < offsetBinary env dst a b := by
  have := addShifts_isSome a.md b.md (offsetBinary env dst a b)
  simp only [addCtInto]
  grind [Res.isErr]

example : addCtInto env52 ⟨⟨0, 0⟩, 2⟩ ⟨⟨30, 90⟩, 4⟩ ⟨⟨110, 8⟩, 4⟩ = .err (.insufficient 8 14) ⟨⟨0, 0⟩, 2⟩ := by decide

/-- in-place add / sub never fails -/
theorem add_assign_ok (env : Env) (dst a : Ct) : (addCtAssign env dst a).isOk = true := by
  have := assignShift_isSome dst.md.logBudget a.md.logBudget
  simp only [addCtAssign]
  grind [Res.isOk]

example : (addCtAssign env52 ⟨⟨30, 90⟩, 4⟩ ⟨⟨20, 8⟩, 4⟩) = .ok ⟨⟨20, 8⟩, 4⟩ := by decide

/-- unary `_into` operations (neg, mul_pow2, conjugate, and the head of add/sub with a plaintext):
budget short iff `log_budget < offset (+ bits)` -/
theorem unary_into_err_iff (env : Env) (dst a : Ct) (extra : Nat) :
    (shiftInto env dst a extra).isErr = true ↔ a.md.logBudget < offsetUnary env dst a + extra := by
  simp only [shiftInto]
  split <;> simp [Res.isErr] <;> omega

example : (shiftInto env52 ⟨⟨0, 0⟩, 2⟩ ⟨⟨30, 40⟩, 4⟩ 0) = .ok ⟨⟨30, 40⟩, 2⟩ ∧
    (shiftInto env52 ⟨⟨0, 0⟩, 1⟩ ⟨⟨60, 10⟩, 4⟩ 0).isErr = true := by decide

/-- rotation: `MissingAutomorphismKey` iff no key for the index, else as a unary `_into` -/
theorem rotate_err_iff (env : Env) (dst a : Ct) (k : Int) :
    (rotateInto env dst a k).isErr = true ↔
      (env.rotKeys.contains k = false ∨ a.md.logBudget < offsetUnary env dst a) := by
  simp only [rotateInto, shiftInto]
  grind [Res.isErr]

example : rotateInto env52 ⟨⟨0, 0⟩, 4⟩ ⟨⟨30, 40⟩, 4⟩ 5 = .err (.missingKey 5) ⟨⟨0, 0⟩, 4⟩ := by decide

/-- plaintext alignment (add/sub of a ZNX plaintext, encryption): radix mismatch or
`ct.log_budget + pt.log_delta < pt.max_k` -/
theorem pt_align_err_iff (env : Env) (dst : Ct) (pt : Pt) :
    (ptAlign env dst pt).isErr = true ↔
      (env.base2k ≠ pt.base2k ∨ dst.md.logBudget + pt.md.logDelta < pt.maxK) := by
  simp only [ptAlign, usub]
  grind [Res.isErr]

example : ptAlign env52 ⟨⟨30, 100⟩, 4⟩ ⟨⟨30, 10⟩, 19⟩ = .err (.base2kMismatch 52 19) ⟨⟨30, 100⟩, 4⟩ := by decide

/-- rescale, both forms; out of place additionally the bits that do not fit the destination -/
theorem rescale_err_iff (env : Env) (dst src : Ct) (k : Nat) :
    ((rescaleInto env dst k src).isErr = true ↔
      (src.md.logBudget < k ∨
       src.md.logBudget - k < (src.md.logDelta + (src.md.logBudget - k)) - dst.maxK env)) ∧
    ((rescaleAssign env src k).isErr = true ↔ src.md.logBudget < k) := by
  simp only [rescaleInto, rescaleAssign]
  grind [Res.isErr]

example : rescaleAssign env52 ⟨⟨30, 40⟩, 4⟩ 41 = .err (.insufficient 40 41) ⟨⟨30, 40⟩, 4⟩ ∧
    rescaleInto env52 ⟨⟨0, 0⟩, 1⟩ 10 ⟨⟨60, 12⟩, 4⟩ = .err (.insufficient 2 10) ⟨⟨0, 0⟩, 1⟩ := by decide

/-- division by a power of two, both forms -/
theorem div_pow2_err_iff (env : Env) (dst a : Ct) (bits : Nat) :
    ((divPow2Into env dst a bits).isErr = true ↔ a.md.logBudget < offsetUnary env dst a + bits) ∧
    ((divPow2Assign env a bits).isErr = true ↔ a.md.logBudget < bits) := by
  simp only [divPow2Into, divPow2Assign, shiftInto, Res.bind]
  grind [Res.isErr]

example : (divPow2Assign env52 ⟨⟨30, 40⟩, 4⟩ 41).isErr = true := by decide

/-- ciphertext × ciphertext (mul, mul_assign, square): `MultiplicationPrecisionUnderflow` iff
`min(budgets) < max(deltas)`, `InsufficientHomomorphicCapacity` iff the remaining budget is smaller
than what the destination forces to drop -/
theorem mul_err_iff (env : Env) (dst a b : Ct) :
    (mulInto env dst a b).isErr = true ↔
      (min a.md.logBudget b.md.logBudget < max a.md.logDelta b.md.logDelta ∨
       min a.md.logBudget b.md.logBudget - max a.md.logDelta b.md.logDelta <
         (min a.md.logBudget b.md.logBudget - max a.md.logDelta b.md.logDelta + min a.md.logDelta b.md.logDelta)
           - dst.maxK env) := by
  simp only [mulInto, mulCtParams, finishMul]
  grind [Res.isErr]

example : mulInto env52 ⟨⟨0, 0⟩, 4⟩ ⟨⟨30, 20⟩, 1⟩ ⟨⟨30, 20⟩, 1⟩ =
    .err (.mulUnderflow 20 20 30 30) ⟨⟨0, 0⟩, 4⟩ := by decide

/-- ciphertext × plaintext vector: radix mismatch (docs/fixes/02), precision underflow, capacity -/
theorem mul_pt_err_iff (env : Env) (dst a : Ct) (pt : Pt) :
    (mulPtZnxInto env dst a pt).isErr = true ↔
      (env.base2k ≠ pt.base2k ∨ a.md.logBudget < pt.md.logDelta ∨
       a.md.logBudget - pt.md.logDelta < (a.md.logBudget - pt.md.logDelta + a.md.logDelta) - dst.maxK env) := by
  simp only [mulPtZnxInto, mulPtParams, finishMul]
  grind [Res.isErr]

example : (mulPtZnxInto env52 ⟨⟨0, 0⟩, 4⟩ ⟨⟨30, 20⟩, 1⟩ ⟨⟨30, 4⟩, 52⟩).isErr = true ∧
    mulPtZnxInto env52 ⟨⟨0, 0⟩, 4⟩ ⟨⟨30, 178⟩, 4⟩ ⟨⟨30, 10⟩, 19⟩ =
      .err (.base2kMismatch 52 19) ⟨⟨0, 0⟩, 4⟩ := by decide

/-- encryption (docs/fixes/06): `k = 0`, budget short (`k < pt.log_delta`), noise position outside
the buffer (`max_k < k`), or the plaintext does not have the radix / does not fit under `k` -/
theorem encrypt_err_iff (env : Env) (ct : Ct) (k : Nat) (pt : Pt) :
    (encrypt env ct k pt).isErr = true ↔
      (k = 0 ∨ k < pt.md.logDelta ∨ ct.maxK env < k ∨ env.base2k ≠ pt.base2k ∨ k < pt.maxK) := by
  simp only [encrypt, setMeta, Res.bind, ptAlign, usub, Meta.effK]
  grind [Res.isErr]

example : encrypt env52 ⟨⟨0, 0⟩, 4⟩ 160 ⟨⟨30, 100⟩, 52⟩ = .ok ⟨⟨30, 130⟩, 4⟩ ∧
    encrypt env52 ⟨⟨0, 0⟩, 4⟩ 100 ⟨⟨30, 100⟩, 52⟩ = .err (.alignment 70 30 156) ⟨⟨30, 70⟩, 4⟩ ∧
    encrypt env52 ⟨⟨0, 0⟩, 4⟩ 209 ⟨⟨30, 10⟩, 52⟩ = .err (.realloc 208 30 52 4) ⟨⟨0, 0⟩, 4⟩ := by decide

/-- limb reallocation / compaction / manual metadata -/
theorem maintain_err_iff (env : Env) (ct : Ct) (size : Nat) (m : Meta) :
    ((realloc env ct size).isErr = true ↔ size < divCeil ct.md.effK env.base2k) ∧
    ((compact env ct).isErr = false) ∧
    ((setMeta env ct m).isErr = true ↔ ct.maxK env < m.effK) := by
  simp only [realloc, compact, setMeta]
  grind [Res.isErr]

example : (realloc env52 ⟨⟨30, 100⟩, 4⟩ 2).isErr = true ∧ compact env52 ⟨⟨30, 100⟩, 4⟩ = .ok ⟨⟨30, 100⟩, 3⟩ := by
  decide

/-! ## 3. metadata follow the bit algebra -/

/-- add/sub: `log_delta = min`, `log_budget = min − offset`, limbs of the destination unchanged -/
theorem add_meta (env : Env) (dst a b d' : Ct) (h : addCtInto env dst a b = .ok d') :
    d'.md = ⟨min a.md.logDelta b.md.logDelta, min a.md.logBudget b.md.logBudget - offsetBinary env dst a b⟩
    ∧ d'.size = dst.size := by
  simp only [addCtInto] at h
  grind

example : addCtInto env52 ⟨⟨0, 0⟩, 2⟩ ⟨⟨30, 90⟩, 4⟩ ⟨⟨25, 100⟩, 4⟩ = .ok ⟨⟨25, 74⟩, 2⟩ := by decide

/-- mul: `log_delta = min(deltas)`, `log_budget = min(budgets) − max(deltas) − res_offset` with
`res_offset = (that + log_delta) ∸ dst.max_k` -/
theorem mul_meta (env : Env) (dst a b d' : Ct) (h : mulInto env dst a b = .ok d') :
    d'.md.logDelta = min a.md.logDelta b.md.logDelta ∧
    d'.md.logBudget = (min a.md.logBudget b.md.logBudget - max a.md.logDelta b.md.logDelta) -
      ((min a.md.logBudget b.md.logBudget - max a.md.logDelta b.md.logDelta + min a.md.logDelta b.md.logDelta)
        - dst.maxK env) ∧
    d'.size = dst.size := by
  simp only [mulInto, mulCtParams, finishMul] at h
  grind

example : mulInto env52 ⟨⟨0, 0⟩, 2⟩ ⟨⟨30, 126⟩, 3⟩ ⟨⟨30, 126⟩, 3⟩ = .ok ⟨⟨30, 74⟩, 2⟩ := by decide

/-- ciphertext × plaintext: `log_delta` of the ciphertext, `log_budget − pt.log_delta − res_offset` -/
theorem mul_pt_meta (env : Env) (dst a d' : Ct) (pt : Pt) (h : mulPtZnxInto env dst a pt = .ok d') :
    d'.md.logDelta = a.md.logDelta ∧
    d'.md.logBudget = (a.md.logBudget - pt.md.logDelta) -
      ((a.md.logBudget - pt.md.logDelta + a.md.logDelta) - dst.maxK env) ∧ d'.size = dst.size := by
  simp only [mulPtZnxInto, mulPtParams, finishMul] at h
  grind

example : mulPtZnxInto env52 ⟨⟨0, 0⟩, 4⟩ ⟨⟨30, 126⟩, 3⟩ ⟨⟨20, 4⟩, 52⟩ = .ok ⟨⟨30, 106⟩, 4⟩ := by decide

/-- rescale: only `log_budget` moves — by `k` in place, by `k` plus the destination offset out of place -/
theorem rescale_meta (env : Env) (dst src d' : Ct) (k : Nat) :
    (rescaleInto env dst k src = .ok d' →
      d'.md = ⟨src.md.logDelta,
        src.md.logBudget - k - ((src.md.logDelta + (src.md.logBudget - k)) - dst.maxK env)⟩ ∧ d'.size = dst.size) ∧
    (rescaleAssign env src k = .ok d' → d'.md = ⟨src.md.logDelta, src.md.logBudget - k⟩ ∧ d'.size = src.size) := by
  simp only [rescaleInto, rescaleAssign]
  grind

example : rescaleAssign env52 ⟨⟨30, 130⟩, 4⟩ 55 = .ok ⟨⟨30, 75⟩, 4⟩ ∧
    rescaleInto env52 ⟨⟨0, 0⟩, 2⟩ 10 ⟨⟨30, 130⟩, 4⟩ = .ok ⟨⟨30, 74⟩, 2⟩ := by decide

/-- multiplication by a power of two, both forms: the metadata do not depend on `bits`
(the out-of-place form only pays the alignment offset) -/
theorem mul_pow2_meta (env : Env) (dst a d' : Ct) (bits : Nat) (h : mulPow2Into env dst a bits = .ok d') :
    d'.md = ⟨a.md.logDelta, a.md.logBudget - offsetUnary env dst a⟩ ∧ d'.size = dst.size := by
  simp only [mulPow2Into, shiftInto] at h
  grind

example : mulPow2Into env52 ⟨⟨0, 0⟩, 4⟩ ⟨⟨30, 100⟩, 3⟩ 7 = .ok ⟨⟨30, 100⟩, 4⟩ := by decide

/-- division by a power of two: the two forms have different algebra.  Out of place the scale is
re-interpreted (`log_delta += bits`, `log_budget −= bits + offset`, effective_k kept); in place only
`log_budget −= bits` (effective_k shrinks by `bits`, which breaks compactness when a limb boundary
is crossed). -/
theorem div_pow2_meta (env : Env) (dst a d' : Ct) (bits : Nat) :
    (divPow2Into env dst a bits = .ok d' →
      d'.md = ⟨a.md.logDelta + bits, a.md.logBudget - (offsetUnary env dst a + bits)⟩ ∧ d'.size = dst.size) ∧
    (divPow2Assign env a bits = .ok d' → d'.md = ⟨a.md.logDelta, a.md.logBudget - bits⟩ ∧ d'.size = a.size) := by
  simp only [divPow2Into, divPow2Assign, shiftInto, Res.bind]
  grind

example : divPow2Into env52 ⟨⟨0, 0⟩, 4⟩ ⟨⟨30, 100⟩, 3⟩ 7 = .ok ⟨⟨37, 93⟩, 4⟩ ∧
    divPow2Assign env52 ⟨⟨30, 100⟩, 3⟩ 7 = .ok ⟨⟨30, 93⟩, 3⟩ := by decide

/-- negate / rotate / conjugate into a destination that is large enough preserve the metadata -/
theorem unary_preserves_meta (env : Env) (dst a d' : Ct) (k : Int) (hfit : a.md.effK ≤ dst.maxK env) :
    (negInto env dst a = .ok d' → d'.md = a.md) ∧
    (rotateInto env dst a k = .ok d' → d'.md = a.md) ∧
    (mulPow2Into env dst a 0 = .ok d' → d'.md = a.md) := by
  have h0 : offsetUnary env dst a = 0 := by simp only [offsetUnary]; omega
  have hz : shiftInto env dst a 0 = .ok { dst with md := a.md } := by
    simp [shiftInto, h0]
  refine ⟨?_, ?_, ?_⟩
  · intro h
    simp only [negInto, h0] at h
    simp at h
    rw [← h]
  · intro h
    simp only [rotateInto, hz] at h
    split at h
    · injection h with h; rw [← h]
    · cases h
  · intro h
    simp only [mulPow2Into, hz] at h
    injection h with h; rw [← h]

example : negInto env52 ⟨⟨0, 0⟩, 4⟩ ⟨⟨30, 100⟩, 3⟩ = .ok ⟨⟨30, 100⟩, 4⟩ := by decide

/-- compaction establishes `size = ⌈effective_k / base2k⌉` and keeps the metadata -/
theorem compact_establishes (env : Env) (ct : Ct) :
    ∃ d', compact env ct = .ok d' ∧ d'.compact env ∧ d'.md = ct.md := by
  refine ⟨{ ct with size := divCeil ct.md.effK env.base2k }, ?_, rfl, rfl⟩
  simp [compact, realloc]

example : compact env52 ⟨⟨30, 75⟩, 4⟩ = .ok ⟨⟨30, 75⟩, 3⟩ := by decide

/-! ## 4. no wrapped metadata: every unchecked `usize` subtraction is guarded -/

/-- the CKKS-level unchecked subtractions (`b.log_budget() - a.log_budget() + offset`,
`available - pt_max_k`, `dst_k - available`, `ckks_align_assign`) and the core-level
`a_size + b_size - cnv_offset_hi` of the tensor product can never underflow, in any state -/
theorem no_usize_underflow (env : Env) (hw : WF env) (dst a b : Ct) (pt : Pt) (pool : Pool) (i j : Nat) :
    addCtInto env dst a b ≠ .panic .usizeSub ∧ addCtAssign env dst a ≠ .panic .usizeSub ∧
    ptAlign env dst pt ≠ .panic .usizeSub ∧ decrypt env dst pt ≠ .panic .usizeSub ∧
    alignStep env pool i j ≠ .panic .usizeSub ∧ mulInto env dst a b ≠ .panic .usizeSub := by
  have h1 := addCtInto_no_panic env dst a b
  have h2 := addCtAssign_no_panic env dst a
  have h3 := ptAlign_no_panic env dst pt
  have h4 := decrypt_no_panic env dst pt
  have h5 := alignStep_no_panic env pool i j
  refine ⟨?_, ?_, ?_, ?_, ?_, ?_⟩
  · intro h; rw [h] at h1; simp [Res.isPanic] at h1
  · intro h; rw [h] at h2; simp [Res.isPanic] at h2
  · intro h; rw [h] at h3; simp [Res.isPanic] at h3
  · intro h; rw [h] at h4; simp [Res.isPanic] at h4
  · intro h; rw [h] at h5; simp [Res.isPanic] at h5
  · intro h
    simp only [mulInto] at h
    split at h
    · cases h
    · next q hq =>
      have hc := mulCtParams_cnv _ _ _ _ _ hq
      have la := le_divCeil_mul a.md.effK env.base2k hw
      have lb := le_divCeil_mul b.md.effK env.base2k hw
      have hhi : cnvHi env.base2k q.cnv ≤ effLimbs env a + effLimbs env b := by
        apply cnvHi_le _ _ _ hw
        simp only [effLimbs]
        rw [Nat.add_mul]; omega
      simp only [finishMul, tensorCheck] at h
      grind

example : addShifts ⟨30, 90⟩ ⟨30, 8⟩ 3 = some (3, 85) := by decide

/-! ## 5. never panics -/

/- FULL STATEMENT (not proved): ∀ env pool prog, WF env → Inv env pool → (run env pool prog).isPanic = false.
   With the repairs 01–07 the only remaining panic is a multiplication whose ciphertext operand was
   never given a value (`effective_k = 0`, a merely allocated buffer): it narrows to zero limbs, which the
   FFT64 convolution rejects (`size - 1` / `assert!(a_size > 0)`) while NTT120 accepts it.  The model takes
   the conservative reading; kept as finding `ckks_mul*:operand-with-effective_k=0` (back-end design decision). -/

/-- one call: no panic from a state that fits its storage when multiplication operands hold a value -/
theorem never_panics_step_partial (env : Env) (hw : WF env) (pool : Pool) (op : Op)
    (hI : Inv env pool) (hs : Initialised env pool op) : (stepR env pool op).isPanic = false :=
  stepR_no_panic env hw pool op hI hs

/-- whole programs: the run never panics if every multiplication is issued on operands that hold a
value — no compaction, radix, precision or destination-size side condition any more -/
theorem never_panics_partial (env : Env) (hw : WF env) (prog : List Op) (s : Pool)
    (hI : Inv env s) (hA : Along Initialised env s prog) : (run env s prog).isPanic = false :=
  run_no_panic env hw prog s hI hA

/-- DESIGN §7 finding 8 is repaired: rescale by `base2k + 3` bits, then square without compaction -/
example : Initialised env52 [⟨⟨30, 75⟩, 4⟩, ⟨⟨0, 0⟩, 4⟩] (.square 1 0) ∧
    ¬ (⟨⟨30, 75⟩, 4⟩ : Ct).compact env52 ∧
    stepR env52 [⟨⟨30, 75⟩, 4⟩, ⟨⟨0, 0⟩, 4⟩] (.square 1 0) = .ok [⟨⟨30, 75⟩, 4⟩, ⟨⟨30, 45⟩, 4⟩] := by
  refine ⟨?_, by decide, by decide⟩
  intro c hc; simp at hc; subst hc; decide

/-- the remaining witness: squaring a buffer that was only allocated -/
theorem never_panics_counterexample :
    ¬ (∀ env pool prog, WF env → Inv env pool → (run env pool prog).isPanic = false) := by
  intro h
  have hI : Inv ⟨17, [], 53⟩ [⟨⟨0, 0⟩, 4⟩] := by
    intro c hc; simp at hc; subst hc; simp [Ct.inv, Meta.effK]
  have := h ⟨17, [], 53⟩ [⟨⟨0, 0⟩, 4⟩] [.squareAssign 0] (by decide) hI
  revert this
  decide

/-- which multiplications can still panic: exactly those whose parameters are accepted and one of
whose operands (both fitting their storage) has `effective_k = 0` -/
theorem mul_panics_iff (env : Env) (hw : WF env) (dst a b : Ct) (ia : a.inv env) (ib : b.inv env) :
    (mulInto env dst a b).isPanic = true ↔
      ((∃ q, mulCtParams env dst a b = .ok q) ∧ (a.md.effK = 0 ∨ b.md.effK = 0)) :=
  mulInto_panic_iff env hw dst a b ia ib

example : (mulInto env52 ⟨⟨0, 0⟩, 4⟩ ⟨⟨30, 75⟩, 4⟩ ⟨⟨30, 75⟩, 4⟩).isOk = true ∧
    (mulInto env52 ⟨⟨0, 0⟩, 4⟩ ⟨⟨0, 0⟩, 4⟩ ⟨⟨0, 0⟩, 4⟩).isPanic = true := by decide

/-- constants more precise than the ciphertext are accepted (docs/fixes/03): the aligned constant of the
former witness has 10 limbs, the ciphertext 8 -/
example : addCstRnxAssign ⟨17, [], 53⟩ ⟨⟨30, 106⟩, 8⟩ ⟨50, 0⟩ true true = .ok ⟨⟨30, 106⟩, 8⟩ := by decide

/-- the composite operations (`ckks_add_many`, `ckks_mul_many`, `ckks_dot_product_*`) are ordinary `Op`s: the
invariant and no-panic theorems above cover them; `Initialised` asks a positive `log_delta` of the inputs of
`mul_many` / `dot_product_ct` and a value of the inputs of `dot_product_pt_vec_*` -/
example : stepR env52 [⟨⟨30, 230⟩, 5⟩, ⟨⟨30, 220⟩, 5⟩, ⟨⟨30, 210⟩, 5⟩, ⟨⟨0, 0⟩, 3⟩] (.mulMany 3 [0, 1, 2]) =
      .ok [⟨⟨30, 230⟩, 5⟩, ⟨⟨30, 220⟩, 5⟩, ⟨⟨30, 210⟩, 5⟩, ⟨⟨30, 126⟩, 3⟩] ∧
    stepR env52 [⟨⟨30, 230⟩, 5⟩, ⟨⟨30, 220⟩, 5⟩, ⟨⟨30, 210⟩, 5⟩, ⟨⟨0, 0⟩, 5⟩] (.dotCt 3 [0, 1] [1, 2]) =
      .ok [⟨⟨30, 230⟩, 5⟩, ⟨⟨30, 220⟩, 5⟩, ⟨⟨30, 210⟩, 5⟩, ⟨⟨30, 180⟩, 5⟩] ∧
    stepR env52 [⟨⟨30, 230⟩, 5⟩, ⟨⟨30, 220⟩, 5⟩, ⟨⟨30, 210⟩, 5⟩, ⟨⟨0, 0⟩, 3⟩] (.addMany 3 [0, 1, 2]) =
      .ok [⟨⟨30, 230⟩, 5⟩, ⟨⟨30, 220⟩, 5⟩, ⟨⟨30, 210⟩, 5⟩, ⟨⟨30, 126⟩, 3⟩] := by decide

/-! ## 6. observations recorded as theorems -/

/-- an `Err` leaves the destination's metadata as they were (docs/fixes/08: the unary `_into` operations
used to overwrite them with the source's before checking the budget) -/
theorem err_leaves_destination (env : Env) (dst a : Ct) (extra : Nat) (e : Err) (s : Ct)
    (h : shiftInto env dst a extra = .err e s) : s = dst :=
  shiftInto_err env dst a s extra e h

example : shiftInto env52 ⟨⟨0, 0⟩, 1⟩ ⟨⟨60, 10⟩, 4⟩ 0 = .err (.insufficient 10 18) ⟨⟨0, 0⟩, 1⟩ := by decide

/-- every call that does not panic — `Ok` **or** `Err` — leaves all ciphertexts within their storage -/
theorem invariant_step_err (env : Env) (hw : WF env) (pool pool' : Pool) (op : Op) (e : Err)
    (hI : Inv env pool) (h : stepR env pool op = .err e pool') : Inv env pool' :=
  stepR_err_inv env hw pool pool' op e hI h

/-- the former witness: `div_pow2` into a destination that is too small fails and leaves it untouched -/
example : stepR env52 [⟨⟨23, 237⟩, 5⟩, ⟨⟨0, 0⟩, 3⟩] (.divPow2 1 0 156) =
    .err (.insufficient 237 260) [⟨⟨23, 237⟩, 5⟩, ⟨⟨0, 0⟩, 3⟩] := by decide

/-- the invariant along the run of a caller that handles errors and goes on -/
theorem invariant_run_through_errors (env : Env) (hw : WF env) (prog : List Op) (s s' : Pool)
    (hI : Inv env s) (h : runC env s prog = .ok s') : Inv env s' :=
  runC_inv env hw prog s s' hI h

/-- … and such a run never panics either (same single hypothesis as `never_panics_partial`) -/
theorem never_panics_through_errors_partial (env : Env) (hw : WF env) (prog : List Op) (s : Pool)
    (hI : Inv env s) (hA : AlongC Initialised env s prog) : (runC env s prog).isPanic = false :=
  runC_no_panic env hw prog s hI hA

example : runC env52 [⟨⟨23, 237⟩, 5⟩, ⟨⟨0, 0⟩, 3⟩, ⟨⟨0, 0⟩, 3⟩]
    [.divPow2 1 0 156, .compactCopy 2 1, .neg 1 0] =
    .ok [⟨⟨23, 237⟩, 5⟩, ⟨⟨23, 133⟩, 3⟩, ⟨⟨0, 0⟩, 0⟩] := by decide

/-- value-level bit algebra of ct × ct (docs/fixes/01): the convolution offset chosen by
`get_mul_ct_params` plus the announced result budget equals the sum of the operand budgets — the
condition under which `decode(product) = decode(a) · decode(b)` — for **every** accepted multiplication -/
theorem mul_scale_consistent (env : Env) (dst a b : Ct) (q : MulP) (h : mulCtParams env dst a b = .ok q) :
    q.cnv + q.budget = a.md.logBudget + b.md.logBudget := by
  simp only [mulCtParams] at h
  grind

/-- the former counterexample (log_delta 32 / log_budget 124 against 40 / 116) -/
example : mulCtParams env52 ⟨⟨0, 0⟩, 5⟩ ⟨⟨32, 124⟩, 3⟩ ⟨⟨40, 116⟩, 3⟩ = .ok ⟨76, 32, 164⟩ ∧
    164 + 76 = 124 + 116 := ⟨by rfl, by decide⟩

/-! ## 7. plaintext-value semantics of the linear operations, modulo the core phase theorems (C02)

A ciphertext with phase `t` (a torus element) and metadata `(δ, β)` decodes to `t · 2^β`.  C02 on main
(`add_phase`, `sub_phase`, `negate_phase`, `rotate_phase`, `lsh_assign_phase_modulo_norm`, `rsh_phase`)
gives the action of the core operations on phases: sum, negation, multiplication by `2^{±k}`, within explicit
rounding terms.  The theorems below are about the CKKS layer: with the shift amounts it hands to the core
and the metadata it announces, the value comes out right.  `t, u : R` range over an arbitrary commutative
ring (exact torus representatives; the C02 error terms pass through these identities linearly). -/

section Value
variable {R : Type} [CommRing R]

/-- add out of place: `dst` holds `ta·2^sa + tb·2^sb` (C02: `glwe_lsh`, `glwe_lsh_add`) and decodes to the sum of the values.
For `sub` replace `+` by `-` (`glwe_lsh_sub`): same exponents. -/
theorem add_value (env : Env) (dst a b d' : Ct) (h : addCtInto env dst a b = .ok d') (ta tb : R) :
    (ta * 2 ^ (addShiftAB env dst a b).1 + tb * 2 ^ (addShiftAB env dst a b).2) * 2 ^ d'.md.logBudget
      = ta * 2 ^ a.md.logBudget + tb * 2 ^ b.md.logBudget ∧
    (ta * 2 ^ (addShiftAB env dst a b).1 - tb * 2 ^ (addShiftAB env dst a b).2) * 2 ^ d'.md.logBudget
      = ta * 2 ^ a.md.logBudget - tb * 2 ^ b.md.logBudget := by
  obtain ⟨h1, h2⟩ := addShiftAB_spec env dst a b d' h
  rw [← h1, ← h2, pow_add, pow_add]
  constructor <;> ring

/-- the narrow-destination case of `corpus/C16/08`: budgets 280 > 229, destination of 5 limbs (260 bits) -/
example : addCtInto env52 ⟨⟨0, 0⟩, 5⟩ ⟨⟨40, 280⟩, 7⟩ ⟨⟨40, 229⟩, 7⟩ = .ok ⟨⟨40, 220⟩, 5⟩ ∧
    addShiftAB env52 ⟨⟨0, 0⟩, 5⟩ ⟨⟨40, 280⟩, 7⟩ ⟨⟨40, 229⟩, 7⟩ = (60, 9) := by decide

/-- add / sub in place -/
theorem add_assign_value (env : Env) (dst a d' : Ct) (h : addCtAssign env dst a = .ok d') (td ta : R) :
    (td * 2 ^ (assignShiftDA dst a).1 + ta * 2 ^ (assignShiftDA dst a).2) * 2 ^ d'.md.logBudget
      = td * 2 ^ dst.md.logBudget + ta * 2 ^ a.md.logBudget := by
  obtain ⟨h1, h2⟩ := assignShiftDA_spec env dst a d' h
  rw [← h1, ← h2, pow_add, pow_add]
  ring

example : addCtAssign env52 ⟨⟨30, 90⟩, 4⟩ ⟨⟨20, 8⟩, 4⟩ = .ok ⟨⟨20, 8⟩, 4⟩ ∧
    assignShiftDA ⟨⟨30, 90⟩, 4⟩ ⟨⟨20, 8⟩, 4⟩ = (82, 0) := by decide

/-- negate / rotate / conjugate (`bits = 0`) and multiplication by `2^bits` out of place: the phase is
shifted by `bits + offset`, the value is multiplied by `2^bits` -/
theorem unary_value (env : Env) (dst a d' : Ct) (h : shiftInto env dst a 0 = .ok d') (bits : Nat) (t : R) :
    t * 2 ^ unaryShift env dst a bits * 2 ^ d'.md.logBudget = t * 2 ^ a.md.logBudget * 2 ^ bits := by
  have := unaryShift_spec env dst a d' h bits
  rw [pow_split t _ _ _ this, pow_add]; ring

example : shiftInto env52 ⟨⟨0, 0⟩, 2⟩ ⟨⟨30, 100⟩, 3⟩ 0 = .ok ⟨⟨30, 74⟩, 2⟩ ∧
    unaryShift env52 ⟨⟨0, 0⟩, 2⟩ ⟨⟨30, 100⟩, 3⟩ 5 = 31 := by decide

/-- division by `2^bits`, both forms: (value of the result) · `2^bits` = value of the source -/
theorem div_pow2_value (env : Env) (dst a d' : Ct) (bits : Nat) (t : R) :
    (divPow2Into env dst a bits = .ok d' →
      t * 2 ^ unaryShift env dst a 0 * 2 ^ d'.md.logBudget * 2 ^ bits = t * 2 ^ a.md.logBudget) ∧
    (divPow2Assign env a bits = .ok d' → t * 2 ^ d'.md.logBudget * 2 ^ bits = t * 2 ^ a.md.logBudget) := by
  constructor
  · intro h
    have := divPow2_spec env dst a d' bits h
    rw [← this, pow_add, pow_add]; ring
  · intro h
    have : d'.md.logBudget + bits = a.md.logBudget := by
      simp only [divPow2Assign] at h; grind
    exact pow_split t _ _ _ this

example : divPow2Into env52 ⟨⟨0, 0⟩, 4⟩ ⟨⟨30, 100⟩, 3⟩ 7 = .ok ⟨⟨37, 93⟩, 4⟩ := by decide

/-- rescale, both forms: the value is unchanged (only head-room is given up) -/
theorem rescale_value (env : Env) (dst src d' : Ct) (k : Nat) (t : R) :
    (rescaleInto env dst k src = .ok d' →
      t * 2 ^ rescaleIntoShift env dst k src * 2 ^ d'.md.logBudget = t * 2 ^ src.md.logBudget) ∧
    (rescaleAssign env src k = .ok d' → t * 2 ^ k * 2 ^ d'.md.logBudget = t * 2 ^ src.md.logBudget) := by
  constructor
  · intro h; exact pow_split t _ _ _ (rescaleInto_spec env dst src d' k h)
  · intro h
    have : k + d'.md.logBudget = src.md.logBudget := by
      simp only [rescaleAssign] at h; grind
    exact pow_split t _ _ _ this

example : rescaleInto env52 ⟨⟨0, 0⟩, 2⟩ 10 ⟨⟨30, 130⟩, 4⟩ = .ok ⟨⟨30, 74⟩, 2⟩ ∧
    rescaleIntoShift env52 ⟨⟨0, 0⟩, 2⟩ 10 ⟨⟨30, 130⟩, 4⟩ = 56 := by decide

/-- add / sub of a ZNX plaintext: the plaintext holds the integer `m·2^{log_delta}` at `max_k` bits
(`u · 2^{max_k} = m · 2^{log_delta}`); after `vec_znx_rsh_add_into(offset)` its contribution `p`
(`p · 2^{offset} = u`, C02 `rsh_phase`) decodes to `m`, up to the common factor `2^{log_delta}` -/
theorem add_pt_value (env : Env) (dst d' : Ct) (pt : Pt) (h : ptAlign env dst pt = .ok d') (p u m : R)
    (hshift : p * 2 ^ ptShift dst pt = u) (hpt : u * 2 ^ pt.maxK = m * 2 ^ pt.md.logDelta) :
    p * 2 ^ d'.md.logBudget * 2 ^ pt.md.logDelta = m * 2 ^ pt.md.logDelta := by
  have hs := ptShift_spec env dst d' pt h
  rw [← hpt, ← hshift]
  have : p * 2 ^ d'.md.logBudget * 2 ^ pt.md.logDelta = p * 2 ^ (d'.md.logBudget + pt.md.logDelta) := by
    rw [pow_add]; ring
  rw [this, ← hs, pow_add]; ring

example : ptAlign env52 ⟨⟨30, 130⟩, 4⟩ ⟨⟨30, 10⟩, 52⟩ = .ok ⟨⟨30, 130⟩, 4⟩ ∧
    ptShift ⟨⟨30, 130⟩, 4⟩ ⟨⟨30, 10⟩, 52⟩ = 108 := by decide

/-- ct × ct: the tensor product (C05: phase of the product scaled by `2^{cnv_offset}`) decodes to the
product of the values -/
theorem mul_value (env : Env) (dst a b : Ct) (q : MulP) (h : mulCtParams env dst a b = .ok q) (ta tb : R) :
    ta * tb * 2 ^ q.cnv * 2 ^ q.budget = (ta * 2 ^ a.md.logBudget) * (tb * 2 ^ b.md.logBudget) := by
  have := mul_scale_consistent env dst a b q h
  rw [pow_split (ta * tb) _ _ _ this, pow_add]; ring

example : mulCtParams env52 ⟨⟨0, 0⟩, 5⟩ ⟨⟨32, 124⟩, 3⟩ ⟨⟨40, 116⟩, 3⟩ = .ok ⟨76, 32, 164⟩ := by rfl

end Value

/-! ## 8. exact value semantics on the data-path model

§7 states the scale identities in an arbitrary ring, *modulo* the core phase theorems.  Here they are
composed with them.  `Model/CkksData.lean` gives every linear ciphertext operation its data path — the
sequence of `Core.Ops` calls the Rust makes, with the shift amounts of `Model/Ckks.lean` — next to the
metadata transition of `Model/Ckks.lean`; `pdriver ckks` executes both and `./check C16` compares the limbs
after every call with the real library (`--dump-ct`).

* `decC s c t` — the **value** of coefficient `t` of `c` under the secret `s`: the exact phase
  `body + Σ sᵢ ⋆ maskᵢ` (integers, no wrap: `Core.Ops.phase`, `Core.valCoeff`) read on `base2k·size` bits,
  times `2^log_budget`.  The message `decode` returns is `decC` reduced modulo `wrap c = 2^log_budget`,
  rounded to `log_delta` fractional bits.
* `Near x y m ε` — `x = y + e + q·m` with `q ∈ ℤ`, `|e| ≤ ε`.
* `ulp c = 2^log_budget / 2^(base2k·size)` — one unit of the last limb of `c` at the scale of the value;
  `sn r s = 1 + Σ_{i<r} ‖sᵢ‖₁` — every rounding of a limb column reaches the phase through the secret.
* `DOK env N r c` — degree `N`, the evaluator's radix, rank `r`, all limbs balanced (`|x| ≤ 2^(base2k-1)`):
  what `encrypt` and every operation below return.  `EnvOK env`: `1 ≤ base2k ≤ 61`.

Every theorem: **whenever the metadata model returns `Ok m`** (the `_err_iff` theorems of §2 say exactly
when), the data path returns `Ok c'` with `c'.ct = m`, `c'` is again `DOK`, and the value of `c'` is the
real-number operation on the values of the operands, modulo `wrap c'`, within an explicit number of `ulp c'`.
No hypothesis on intermediate ciphertexts: their head-room is derived (`Lemmas/CkksBound.lean`).
Float slot encoding / decoding (`encode_reim`, `decode_reim`: an FFT in `f64`/`f128`) stays
correspondence-only: the theorems are about coefficient polynomials. -/

section Exact
open Core Core.Ops Ckks.Sem Ckks.CoreSem

/-- radix `2^4`, degree 2, rank 1: the parameters of the examples -/
def env4 : Env := ⟨4, [1], 53⟩
def env4_ok : EnvOK env4 := ⟨by decide, by decide⟩

/-- three limbs, `log_delta = 4`, `log_budget = 8` -/
def xA : DCt := ⟨{ base2k := 4, k := 12, n := 2, cols := [[[1, 2], [3, -4], [5, 6]], [[7, -8], [1, 0], [2, 2]]] }, ⟨4, 8⟩⟩
/-- two limbs, `log_delta = 4`, `log_budget = 4` -/
def xB : DCt := ⟨{ base2k := 4, k := 8, n := 2, cols := [[[-3, 5], [2, -1]], [[2, -1], [0, 3]]] }, ⟨4, 4⟩⟩
/-- a destination of two limbs -/
def xD : DCt := ⟨{ base2k := 4, k := 8, n := 2, cols := [[[0, 0], [0, 0]], [[7, 7], [7, 7]]] }, ⟨0, 0⟩⟩

def xA_ok : DOK env4 2 1 xA := ⟨by decide, rfl, rfl, by decide⟩
def xB_ok : DOK env4 2 1 xB := ⟨by decide, rfl, rfl, by decide⟩
def xD_ok : DOK env4 2 1 xD := ⟨by decide, rfl, rfl, by decide⟩

/-- **add / sub, out of place**: `val(c') = val(a) ± val(b)` within `2·(1+Σ‖sᵢ‖₁)` units of the last limb of
`c'` (one for the aligned copy of one operand, one for the fused shift-accumulate of the other; the equal-budget
branch loses at most one unit per operand longer than the destination) -/
theorem add_into_sem {env : Env} (he : EnvOK env) {N r : Nat} {dst a b : DCt} (hd : DOK env N r dst)
    (ha : DOK env N r a) (hb : DOK env N r b) (sub : Bool) {m : Ct} (hm : addCtInto env dst.ct a.ct b.ct = .ok m) :
    ∃ c', dAddInto env N sub dst a b = .ok c' ∧ c'.ct = m ∧ DOK env N r c' ∧
      ∀ s t, t < N → Near (decC s c' t) (decC s a t + sg sub * decC s b t) (wrap c') (2 * sn r s * ulp c') :=
  dAddInto_sem he hd ha hb sub hm

/-- the shifted branch (budgets 8 and 4, three limbs into two) and the subtraction -/
example : ∃ c', dAddInto env4 2 false xD xA xB = .ok c' ∧ c'.md = ⟨4, 4⟩ ∧
    ∀ s t, t < 2 → Near (decC s c' t) (decC s xA t + decC s xB t) (2 ^ 4) (2 * sn 1 s * ulp c') := by
  obtain ⟨c', h, hc, _, hv⟩ := add_into_sem env4_ok xD_ok xA_ok xB_ok false (m := ⟨⟨4, 4⟩, 2⟩) (by decide)
  have hmd : c'.md = ⟨4, 4⟩ := by have := congrArg Ct.md hc; simpa [DCt.ct] using this
  refine ⟨c', h, hmd, fun s t ht => ?_⟩
  have := hv s t ht
  simpa [sg, wrap, hmd] using this

/-- **add / sub, in place** -/
theorem add_assign_sem {env : Env} (he : EnvOK env) {N r : Nat} {dst a : DCt} (hd : DOK env N r dst)
    (ha : DOK env N r a) (sub : Bool) {m : Ct} (hm : addCtAssign env dst.ct a.ct = .ok m) :
    ∃ c', dAddAssign env N sub dst a = .ok c' ∧ c'.ct = m ∧ DOK env N r c' ∧
      ∀ s t, t < N → Near (decC s c' t) (decC s dst t + sg sub * decC s a t) (wrap c') (sn r s * ulp c') :=
  dAddAssign_sem he hd ha sub hm

example : ∃ c', dAddAssign env4 2 true xB xA = .ok c' ∧ c'.ct = ⟨⟨4, 4⟩, 2⟩ :=
  let ⟨c', h, hc, _⟩ := add_assign_sem env4_ok xB_ok xA_ok true (m := ⟨⟨4, 4⟩, 2⟩) (by decide)
  ⟨c', h, hc⟩

/-- **negation, out of place** (`trl … = 0` when the operand fits the destination: exact) -/
theorem neg_into_sem {env : Env} (he : EnvOK env) {N r : Nat} {dst a : DCt} (hd : DOK env N r dst)
    (ha : DOK env N r a) {m : Ct} (hm : negInto env dst.ct a.ct = .ok m) :
    ∃ c', dNegInto env N dst a = .ok c' ∧ c'.ct = m ∧ DOK env N r c' ∧
      ∀ s t, t < N → Near (decC s c' t) (- decC s a t) (wrap c')
        (sn r s * trl env.base2k dst.g.size a.g.size (unaryShift env dst.ct a.ct 0) * ulp c') :=
  dNegInto_sem he hd ha hm

example : ∃ c', dNegInto env4 2 xD xA = .ok c' ∧ c'.ct = ⟨⟨4, 4⟩, 2⟩ :=
  let ⟨c', h, hc, _⟩ := neg_into_sem env4_ok xD_ok xA_ok (m := ⟨⟨4, 4⟩, 2⟩) (by decide)
  ⟨c', h, hc⟩

/-- **negation, in place**: exact -/
theorem neg_assign_sem {env : Env} (he : EnvOK env) {N r : Nat} {c : DCt} (hc : DOK env N r c) :
    ∃ c', dNegAssign env N c = .ok c' ∧ c'.ct = c.ct ∧ DOK env N r c' ∧
      ∀ s t, t < N → Near (decC s c' t) (- decC s c t) (wrap c') 0 :=
  dNegAssign_sem he hc

example : ∃ c', dNegAssign env4 2 xA = .ok c' ∧ ∀ s t, t < 2 → Near (decC s c' t) (- decC s xA t) (wrap c') 0 :=
  let ⟨c', h, _, _, hv⟩ := neg_assign_sem env4_ok xA_ok
  ⟨c', h, hv⟩

/-- **multiplication by `2^bits`, out of place** -/
theorem mul_pow2_into_sem {env : Env} (he : EnvOK env) {N r : Nat} {dst a : DCt} (hd : DOK env N r dst)
    (ha : DOK env N r a) (bits : Nat) {m : Ct} (hm : mulPow2Into env dst.ct a.ct bits = .ok m) :
    ∃ c', dMulPow2Into env N dst a bits = .ok c' ∧ c'.ct = m ∧ DOK env N r c' ∧
      ∀ s t, t < N → Near (decC s c' t) (decC s a t * 2 ^ bits) (wrap c')
        (sn r s * trl env.base2k dst.g.size a.g.size (unaryShift env dst.ct a.ct bits) * ulp c') :=
  dMulPow2Into_sem he hd ha bits hm

example : ∃ c', dMulPow2Into env4 2 xD xA 3 = .ok c' ∧ c'.ct = ⟨⟨4, 4⟩, 2⟩ :=
  let ⟨c', h, hc, _⟩ := mul_pow2_into_sem env4_ok xD_ok xA_ok 3 (m := ⟨⟨4, 4⟩, 2⟩) (by decide)
  ⟨c', h, hc⟩

/-- **multiplication by `2^bits`, in place**: exact (modulo `wrap`: the bits shifted out at the top are whole
multiples of it) -/
theorem mul_pow2_assign_sem {env : Env} (he : EnvOK env) {N r : Nat} {c : DCt} (hc : DOK env N r c) (bits : Nat) :
    ∃ c', dMulPow2Assign env N c bits = .ok c' ∧ c'.ct = c.ct ∧ DOK env N r c' ∧
      ∀ s t, t < N → Near (decC s c' t) (decC s c t * 2 ^ bits) (wrap c') 0 :=
  dMulPow2Assign_sem he hc bits

example : ∃ c', dMulPow2Assign env4 2 xA 5 = .ok c' ∧ ∀ s t, t < 2 → Near (decC s c' t) (decC s xA t * 2 ^ 5) (wrap c') 0 :=
  let ⟨c', h, _, _, hv⟩ := mul_pow2_assign_sem env4_ok xA_ok 5
  ⟨c', h, hv⟩

/-- **division by `2^bits`, out of place** -/
theorem div_pow2_into_sem {env : Env} (he : EnvOK env) {N r : Nat} {dst a : DCt} (hd : DOK env N r dst)
    (ha : DOK env N r a) (bits : Nat) {m : Ct} (hm : divPow2Into env dst.ct a.ct bits = .ok m) :
    ∃ c', dDivPow2Into env N dst a bits = .ok c' ∧ c'.ct = m ∧ DOK env N r c' ∧
      ∀ s t, t < N → Near (decC s c' t) (decC s a t / 2 ^ bits) (wrap c')
        (sn r s * trl env.base2k dst.g.size a.g.size (unaryShift env dst.ct a.ct 0) * ulp c') :=
  dDivPow2Into_sem he hd ha bits hm

example : ∃ c', dDivPow2Into env4 2 xD xA 2 = .ok c' ∧ c'.ct = ⟨⟨6, 2⟩, 2⟩ :=
  let ⟨c', h, hc, _⟩ := div_pow2_into_sem env4_ok xD_ok xA_ok 2 (m := ⟨⟨6, 2⟩, 2⟩) (by decide)
  ⟨c', h, hc⟩

/-- **division by `2^bits`, in place**: no data is touched, the value is divided exactly (an equality of
rationals, not only modulo `wrap`) -/
theorem div_pow2_assign_sem {env : Env} {N r : Nat} {c : DCt} (hc : DOK env N r c) (bits : Nat)
    {m : Ct} (hm : divPow2Assign env c.ct bits = .ok m) :
    ∃ c', dDivPow2Assign env N c bits = .ok c' ∧ c'.ct = m ∧ DOK env N r c' ∧
      ∀ s t, decC s c' t = decC s c t / 2 ^ bits :=
  dDivPow2Assign_sem hc bits hm

example : ∃ c', dDivPow2Assign env4 2 xA 3 = .ok c' ∧ ∀ s t, decC s c' t = decC s xA t / 2 ^ 3 :=
  let ⟨c', h, _, _, hv⟩ := div_pow2_assign_sem (env := env4) xA_ok 3 (m := ⟨⟨4, 5⟩, 3⟩) (by decide)
  ⟨c', h, hv⟩

/-- **rescale, out of place** -/
theorem rescale_into_sem {env : Env} (he : EnvOK env) {N r : Nat} {dst src : DCt} (hd : DOK env N r dst)
    (hs : DOK env N r src) (k : Nat) {m : Ct} (hm : rescaleInto env dst.ct k src.ct = .ok m) :
    ∃ c', dRescaleInto env N dst k src = .ok c' ∧ c'.ct = m ∧ DOK env N r c' ∧
      ∀ s t, t < N → Near (decC s c' t) (decC s src t) (wrap c')
        (sn r s * trl env.base2k dst.g.size src.g.size (rescaleIntoShift env dst.ct k src.ct) * ulp c') :=
  dRescaleInto_sem he hd hs k hm

example : ∃ c', dRescaleInto env4 2 xD 2 xA = .ok c' ∧ c'.ct = ⟨⟨4, 4⟩, 2⟩ :=
  let ⟨c', h, hc, _⟩ := rescale_into_sem env4_ok xD_ok xA_ok 2 (m := ⟨⟨4, 4⟩, 2⟩) (by decide)
  ⟨c', h, hc⟩

/-- **rescale, in place**: the value is unchanged, exactly; only the modulus `wrap` shrinks -/
theorem rescale_assign_sem {env : Env} (he : EnvOK env) {N r : Nat} {c : DCt} (hc : DOK env N r c) (k : Nat)
    {m : Ct} (hm : rescaleAssign env c.ct k = .ok m) :
    ∃ c', dRescaleAssign env N c k = .ok c' ∧ c'.ct = m ∧ DOK env N r c' ∧
      ∀ s t, t < N → Near (decC s c' t) (decC s c t) (wrap c') 0 :=
  dRescaleAssign_sem he hc k hm

example : ∃ c', dRescaleAssign env4 2 xA 3 = .ok c' ∧ ∀ s t, t < 2 → Near (decC s c' t) (decC s xA t) (wrap c') 0 :=
  let ⟨c', h, _, _, hv⟩ := rescale_assign_sem env4_ok xA_ok 3 (m := ⟨⟨4, 5⟩, 3⟩) (by decide)
  ⟨c', h, hv⟩

/-- **one call on a pool**: metadata tie, well-formedness and value tracking (`Tracks`: every slot `j` decodes
to the plaintext `M j` within `E j`; `specM` is the call on plaintext coefficient vectors, `specE` adds the
call's own roundings — `2·σ·u` for an out-of-place addition, `σ·u` for the other rounding calls, `0` for the
exact ones — to the operands' budgets carried through the call's linear map) -/
theorem step_sem {env : Env} (he : EnvOK env) {N r : Nat} {pool : DPool} (hp : AllOK env N r pool) (op : LOp)
    (hpt : op.PtsOK env N) {mp : Ckks.Pool} (hm : stepR env (DPool.cts pool) op.toOp = .ok mp) :
    ∃ pool', dstep env N pool op = .ok pool' ∧ DPool.cts pool' = mp ∧ AllOK env N r pool' ∧
      ∀ s M E, Tracks s N pool M E →
        Tracks s N pool' (specM M op) (specE (sn r s) (ulpAt env mp op.dst) E op) :=
  dstep_sem he hp op hpt hm

/-- **programs**: by induction over the call list.  The decoded result is the program on the plaintext
polynomials up to `specRun … .2`: the sum over the calls of their own roundings (in units of the last limb of
*their* result, times `1 + Σ‖sᵢ‖₁`) multiplied by the gain of the calls that follow (`2^bits` for
`mul_pow2`, `2^-bits` for `div_pow2`, `1` otherwise) -/
theorem program_sem {env : Env} (he : EnvOK env) {N r : Nat} (ops : List LOp) (hops : ∀ op ∈ ops, op.PtsOK env N)
    {pool : DPool} (hp : AllOK env N r pool) {mp : Ckks.Pool} (hm : run env (DPool.cts pool) (ops.map LOp.toOp) = .ok mp) :
    ∃ pool', drun env N pool ops = .ok pool' ∧ DPool.cts pool' = mp ∧ AllOK env N r pool' ∧
      ∀ s M E, Tracks s N pool M E →
        Tracks s N pool' (specRun env (sn r s) (DPool.cts pool) M E ops).1 (specRun env (sn r s) (DPool.cts pool) M E ops).2 :=
  drun_sem he ops hops hp hm

def pool4_ok : AllOK env4 2 1 [xA, xB, xD] := by
  intro c hc
  simp only [List.mem_cons, List.mem_nil_iff, or_false] at hc
  rcases hc with rfl | rfl | rfl
  · exact xA_ok
  · exact xB_ok
  · exact xD_ok

/-- `d ← a + b; d ← −d; d ← d·2^1; b ← rescale(b, 1); d ← d − b` on three slots: the data path runs, with the
metadata of the metadata model, and slot 2 decodes to `−2(a+b) − b` within
`σ·(2·2·u₁ + u₅) + 2·E_a + 3·E_b` (`u₁ = 2^4/2^8`, `u₅ = 2^3/2^8`: the addition's two roundings are doubled by
the later `·2`, the final subtraction adds one; the operands' budgets pass with gains 2 and 3) -/
example : ∃ pool', drun env4 2 [xA, xB, xD] [.add false 2 0 1, .negAssign 2, .mulPow2Assign 2 1, .rescaleAssign 1 1,
      .addAssign true 2 1] = .ok pool' ∧
    DPool.cts pool' = [⟨⟨4, 8⟩, 3⟩, ⟨⟨4, 3⟩, 2⟩, ⟨⟨4, 3⟩, 2⟩] ∧
    ∀ s M E, Tracks s 2 [xA, xB, xD] M E → ∀ c, pool'[2]? = some c → ∀ t, t < 2 →
      Near (decC s c t) (1 * (2 ^ 1 * (-1 * (1 * M 0 t + 1 * M 1 t))) + -1 * (1 * M 1 t)) (wrap c)
        (sn 1 s * (2 * (2 * (2 ^ 4 / 2 ^ 8)) + 2 ^ 3 / 2 ^ 8) + 2 * E 0 + 3 * E 1) := by
  obtain ⟨pool', h, hc, _, hv⟩ := program_sem env4_ok [.add false 2 0 1, .negAssign 2, .mulPow2Assign 2 1,
    .rescaleAssign 1 1, .addAssign true 2 1] (by intro op hop; simp at hop; rcases hop with rfl | rfl | rfl | rfl | rfl <;> trivial) pool4_ok (mp := ([⟨⟨4, 8⟩, 3⟩, ⟨⟨4, 3⟩, 2⟩, ⟨⟨4, 3⟩, 2⟩] : Ckks.Pool)) (by decide)
  refine ⟨pool', h, hc, fun s M E ht c hc t htN => ?_⟩
  have := hv s M E ht 2 c hc t htN
  have h1 : stepR env4 (DPool.cts [xA, xB, xD]) (LOp.add false 2 0 1).toOp = .ok [⟨⟨4, 8⟩, 3⟩, ⟨⟨4, 4⟩, 2⟩, ⟨⟨4, 4⟩, 2⟩] := by decide
  have h2 : stepR env4 [⟨⟨4, 8⟩, 3⟩, ⟨⟨4, 4⟩, 2⟩, ⟨⟨4, 4⟩, 2⟩] (LOp.negAssign 2).toOp = .ok [⟨⟨4, 8⟩, 3⟩, ⟨⟨4, 4⟩, 2⟩, ⟨⟨4, 4⟩, 2⟩] := by decide
  have h3 : stepR env4 [⟨⟨4, 8⟩, 3⟩, ⟨⟨4, 4⟩, 2⟩, ⟨⟨4, 4⟩, 2⟩] (LOp.mulPow2Assign 2 1).toOp = .ok [⟨⟨4, 8⟩, 3⟩, ⟨⟨4, 4⟩, 2⟩, ⟨⟨4, 4⟩, 2⟩] := by decide
  have h4 : stepR env4 [⟨⟨4, 8⟩, 3⟩, ⟨⟨4, 4⟩, 2⟩, ⟨⟨4, 4⟩, 2⟩] (LOp.rescaleAssign 1 1).toOp = .ok [⟨⟨4, 8⟩, 3⟩, ⟨⟨4, 3⟩, 2⟩, ⟨⟨4, 4⟩, 2⟩] := by decide
  have h5 : stepR env4 [⟨⟨4, 8⟩, 3⟩, ⟨⟨4, 3⟩, 2⟩, ⟨⟨4, 4⟩, 2⟩] (LOp.addAssign true 2 1).toOp = .ok [⟨⟨4, 8⟩, 3⟩, ⟨⟨4, 3⟩, 2⟩, ⟨⟨4, 3⟩, 2⟩] := by decide
  have eM : (specRun env4 (sn 1 s) (DPool.cts [xA, xB, xD]) M E [.add false 2 0 1, .negAssign 2, .mulPow2Assign 2 1,
      .rescaleAssign 1 1, .addAssign true 2 1]).1 2 t
      = 1 * (2 ^ 1 * (-1 * (1 * M 0 t + 1 * M 1 t))) + -1 * (1 * M 1 t) := by
    simp only [specRun, h1, h2, h3, h4, h5, specM, upd, sg]
    simp
  have eE : (specRun env4 (sn 1 s) (DPool.cts [xA, xB, xD]) M E [.add false 2 0 1, .negAssign 2, .mulPow2Assign 2 1,
      .rescaleAssign 1 1, .addAssign true 2 1]).2 2
      = sn 1 s * (2 * (2 * (2 ^ 4 / 2 ^ 8)) + 2 ^ 3 / 2 ^ 8) + 2 * E 0 + 3 * E 1 := by
    simp only [specRun, h1, h2, h3, h4, h5, specE, upd, LOp.dst, ulpAt, ulpM]
    simp [env4]
    ring
  rw [eM, eE] at this
  exact this

/-! ### operations whose data path belongs to other slices: contracts

The data paths of rotation / conjugation (C03: automorphism + key switch), of the multiplications (C05: tensor
product, relinearisation, plaintext and constant products) and of the plaintext addends (`vec_znx_rsh_add_into`,
the kernel behind `C02.rsh_phase`) are not re-modelled here.  Their value theorems take the integer phase
relation of the executed core call as a **hypothesis structure** (`AutContract`, `ProdContract`, `PtAddContract`:
the shapes in which C02 states its `lsh` family, with the signed permutation resp. the exact negacyclic product
`Hal.negMul` of C05's `tensor_phase` inside) and conclude, with the metadata of the metadata model, what the
result decodes to.  `U` — the number of units of the result's last limb the core call may be off by (its
truncations times `1 + Σ‖sᵢ‖₁`, plus the key-switching noise `C03.keyswitch_value` bounds) — is a parameter. -/

/-- **ct × ct, relinearised**: `decP c' = decP a ⋆ decP b` (negacyclic product of the decoded polynomials),
modulo `wrap c'`, within `U·ulp c'`; the scale bookkeeping is `mul_scale_consistent` -/
theorem mul_ct_sem {env : Env} {N : Nat} {dst a b c' : DCt} {m : Ct} (hm : mulInto env dst.ct a.ct b.ct = .ok m)
    (hmd : c'.md = m.md) {s : List Poly} {U : ℚ}
    (hc : ∀ q, mulCtParams env dst.ct a.ct b.ct = .ok q →
      ProdContract s N c'.g a.g (phaseP s N b.g) (b.g.base2k * b.g.size) q.cnv U) :
    ∀ t, t < N → Near (decC s c' t) ((qNegMul (decP s N a) (decP s N b)).getD t 0) (wrap c') (U * ulp c') :=
  Ckks.mul_ct_sem hm hmd hc

/-- one limb, `log_delta = 0`, `log_budget = 4`, body `2`, no mask: under the empty secret its phase is `2` -/
def xTwo : DCt := ⟨{ base2k := 4, k := 4, n := 2, cols := [[[2, 0]], [[0, 0]]] }, ⟨0, 4⟩⟩
/-- the product of `xA` and `xTwo` at `cnv_offset = 12` on one limb: phase `2·phase(xA)` under the empty secret -/
def xProd : DCt := ⟨{ base2k := 4, k := 4, n := 2, cols := [[[618, 908]], [[0, 0]]] }, ⟨0, 0⟩⟩

example : ∀ t, t < 2 → Near (decC [] xProd t) ((qNegMul (decP [] 2 xA) (decP [] 2 xTwo)).getD t 0) (wrap xProd) (0 * ulp xProd) :=
  mul_ct_sem (env := env4) (dst := xProd) (a := xA) (b := xTwo) (m := ⟨⟨0, 0⟩, 1⟩) (by decide) rfl
    (fun q hq => by
      have : q = ⟨0, 0, 12⟩ := by
        have h : mulCtParams env4 xProd.ct xA.ct xTwo.ct = .ok ⟨0, 0, 12⟩ := by decide
        rw [h] at hq; injection hq with hq; exact hq.symm
      subst this
      exact ⟨fun t ht => by
        have : t = 0 ∨ t = 1 := by omega
        rcases this with rfl | rfl <;> exact ⟨0, 0, by decide, by simp⟩⟩)

/-- **ct × ZNX plaintext** (the RNX plaintext and the constants reach the same core call through `to_znx`):
`Y` = integer coefficients of the plaintext on `pt.max_k` bits, message `Y / 2^log_delta` -/
theorem mul_pt_sem {env : Env} {N : Nat} {dst a c' : DCt} {pt : Pt} {q : MulP}
    (hq : mulPtParams env dst.ct a.ct pt.md pt.maxK = .ok q) (hmd : c'.md = ⟨q.delta, q.budget⟩)
    (hfit : pt.md.logDelta ≤ pt.maxK) {s : List Poly} {U : ℚ} {Y : Poly}
    (hc : ProdContract s N c'.g a.g Y pt.maxK q.cnv U) :
    ∀ t, t < N → Near (decC s c' t)
      ((qNegMul (decP s N a) (qScale (1 / 2 ^ pt.md.logDelta) (castP Y))).getD t 0) (wrap c') (U * ulp c') :=
  Ckks.mul_pt_sem hq hmd hfit hc

/-- `xA` times the constant plaintext `2` (one limb, `log_delta = 0`): limbs doubled -/
def xDbl : DCt := ⟨{ base2k := 4, k := 12, n := 2, cols := [[[2, 4], [6, -8], [10, 12]], [[14, -16], [2, 0], [4, 4]]] }, ⟨4, 8⟩⟩

example : ∀ t, t < 2 → Near (decC [] xDbl t)
    ((qNegMul (decP [] 2 xA) (qScale (1 / 2 ^ 0) (castP [2, 0]))).getD t 0) (wrap xDbl) (0 * ulp xDbl) :=
  mul_pt_sem (env := env4) (dst := xDbl) (a := xA) (pt := ⟨⟨0, 4⟩, 4⟩) (q := ⟨8, 4, 4⟩) (by decide) rfl (by decide)
    ⟨fun t ht => by
      have : t = 0 ∨ t = 1 := by omega
      rcases this with rfl | rfl <;> exact ⟨0, 0, by decide, by simp⟩⟩

/-- **rotation / conjugation, out of place**: coefficient `t` of the value is `σ t` times coefficient `π t` of the
operand's (`X ↦ X^g`, `g = galois_element(k)` resp. `-1`) -/
theorem rotate_into_sem {env : Env} {N : Nat} {dst a c' : DCt} {m : Ct} {kk : Int}
    (hm : rotateInto env dst.ct a.ct kk = .ok m) (hmd : c'.md = m.md) {s : List Poly} {π : Nat → Nat} {σ : Nat → Int} {U : ℚ}
    (hc : AutContract s N c'.g a.g π σ (unaryShift env dst.ct a.ct 0) U) :
    ∀ t, t < N → Near (decC s c' t) (σ t * decC s a (π t)) (wrap c') (U * ulp c') :=
  Ckks.rotate_into_sem hm hmd hc

/-- **rotation / conjugation, in place** -/
theorem rotate_assign_sem {N : Nat} {c c' : DCt} (hmd : c'.md = c.md) {s : List Poly} {π : Nat → Nat} {σ : Nat → Int} {U : ℚ}
    (hc : AutContract s N c'.g c.g π σ 0 U) :
    ∀ t, t < N → Near (decC s c' t) (σ t * decC s c (π t)) (wrap c') (U * ulp c') :=
  Ckks.rotate_assign_sem hmd hc

/-- the identity automorphism satisfies the contract for every ciphertext and every secret -/
theorem aut_contract_id (s : List Poly) (N : Nat) (g : GLWE) : AutContract s N g g id (fun _ => 1) 0 0 :=
  ⟨fun _ h => h, fun t _ => ⟨0, 0, by simp [pow_add], by simp⟩⟩

example : ∀ s t, t < 2 → Near (decC s xA t) (1 * decC s xA t) (wrap xA) (0 * ulp xA) :=
  fun s => rotate_assign_sem (c := xA) (c' := xA) rfl (σ := fun _ => 1) (aut_contract_id s 2 xA.g)

example : ∀ s t, t < 2 → Near (decC s xA t) (1 * decC s xA t) (wrap xA) (0 * ulp xA) :=
  fun s => rotate_into_sem (env := env4) (dst := xA) (a := xA) (c' := xA) (m := ⟨⟨4, 8⟩, 3⟩) (kk := 1) (by decide) rfl
    (σ := fun _ => 1) (by
      have h : unaryShift env4 xA.ct xA.ct 0 = 0 := by decide
      rw [h]; exact aut_contract_id s 2 xA.g)

/-- **plaintext / constant addend, in place** (`σ = ±1`: add / sub); the out-of-place form is
`mul_pow2_into_sem` with `bits = 0` (the alignment copy) followed by this one -/
theorem add_pt_assign_sem {env : Env} {N : Nat} {c c' : DCt} {pt : Pt} {m : Ct} (hm : ptAlign env c.ct pt = .ok m)
    (hmd : c'.md = c.md) {s : List Poly} {Y : Poly} {σ : Int} {U : ℚ}
    (hc : PtAddContract s N c'.g c.g Y σ pt.maxK (ptShift c.ct pt) U) :
    ∀ t, t < N → Near (decC s c' t) (decC s c t + σ * ((Y.getD t 0 : Int) / 2 ^ pt.md.logDelta)) (wrap c') (U * ulp c') :=
  Ckks.add_pt_assign_sem hm hmd hc

/-- `xB` plus the plaintext `1` (`log_delta = 4`, two limbs: coefficients `[16, 0]`) -/
def xBp : DCt := ⟨{ base2k := 4, k := 8, n := 2, cols := [[[-2, 5], [2, -1]], [[2, -1], [0, 3]]] }, ⟨4, 4⟩⟩

example : ∀ t, t < 2 → Near (decC [] xBp t) (decC [] xB t + 1 * ((([16, 0] : Poly).getD t 0 : Int) / 2 ^ 4)) (wrap xBp) (0 * ulp xBp) :=
  add_pt_assign_sem (env := env4) (c := xB) (c' := xBp) (pt := ⟨⟨4, 4⟩, 4⟩) (m := xB.ct) (by decide) rfl
    ⟨⟨rfl, rfl⟩, fun t ht => by
      have : t = 0 ∨ t = 1 := by omega
      rcases this with rfl | rfl <;> exact ⟨0, 0, by decide, by simp⟩⟩

/-- **ZNX plaintext addend, in place — no contract** (`PtAddContract` discharged on the data path: the fused right shift
of the body column, `C08.rsh_add_value` / `rsh_sub_value` for its value, `Bound.rshCoef_fused_bound` for its limbs,
`C02L.torus_phase3` for the phase): the value moves by the plaintext message `Y_t / 2^log_delta`, `Y_t` the integer the
plaintext limbs hold at coefficient `t` -/
theorem add_pt_assign_data_sem {env : Env} (he : EnvOK env) {N r : Nat} {c : DCt} (hc : DOK env N r c) (sub : Bool)
    {pt : Pt} {pg : Col} (hp : PtOK env N pt pg) {m : Ct}
    (hm : withPt env pt c.ct (addPtZnxAssign env c.ct pt) = .ok m) :
    ∃ c', dAddPtAssign env N sub c pt pg = .ok c' ∧ c'.ct = m ∧ DOK env N r c' ∧
      ∀ s t, t < N → Near (decC s c' t)
        (decC s c t + sg sub * ((valCoeff env.base2k pg t : ℚ) / 2 ^ pt.md.logDelta)) (wrap c') (sn r s * ulp c') :=
  dAddPtAssign_sem he hc sub hp hm

/-- the plaintext `1` at `log_delta = 4` on two limbs -/
def pgOne : Col := [[1, 0], [0, 0]]
def pgOne_ok : PtOK env4 2 ⟨⟨4, 4⟩, 4⟩ pgOne := ⟨by decide, by decide⟩

example : ∃ c', dAddPtAssign env4 2 false xB ⟨⟨4, 4⟩, 4⟩ pgOne = .ok c' ∧
    ∀ s t, t < 2 → Near (decC s c' t) (decC s xB t + 1 * ((valCoeff 4 pgOne t : ℚ) / 2 ^ 4)) (wrap c') (sn 1 s * ulp c') :=
  let ⟨c', h, _, _, hv⟩ := add_pt_assign_data_sem env4_ok xB_ok false pgOne_ok (m := xB.ct) (by decide)
  ⟨c', h, hv⟩

/-- **ZNX plaintext addend, out of place — no contract** -/
theorem add_pt_into_data_sem {env : Env} (he : EnvOK env) {N r : Nat} {dst a : DCt} (hd : DOK env N r dst) (ha : DOK env N r a)
    (sub : Bool) {pt : Pt} {pg : Col} (hp : PtOK env N pt pg) {m : Ct}
    (hm : withPt env pt dst.ct (addPtZnxInto env dst.ct a.ct pt) = .ok m) :
    ∃ c', dAddPtInto env N sub dst a pt pg = .ok c' ∧ c'.ct = m ∧ DOK env N r c' ∧
      ∀ s t, t < N → Near (decC s c' t)
        (decC s a t + sg sub * ((valCoeff env.base2k pg t : ℚ) / 2 ^ pt.md.logDelta)) (wrap c') (2 * sn r s * ulp c') :=
  dAddPtInto_sem he hd ha sub hp hm

example : ∃ c', dAddPtInto env4 2 true xD xA ⟨⟨4, 4⟩, 4⟩ pgOne = .ok c' ∧ c'.ct = ⟨⟨4, 4⟩, 2⟩ :=
  let ⟨c', h, hc, _⟩ := add_pt_into_data_sem env4_ok xD_ok xA_ok true pgOne_ok (m := ⟨⟨4, 4⟩, 2⟩) (by decide)
  ⟨c', h, hc⟩

/-! ### composition through multiplications

`mul_ct_sem` is about the *decoded operands*, which a tracked ciphertext determines only modulo its own `2^β`.
That the product nevertheless tracks the product of the plaintexts is the budget invariant read at the level of values:
the core multiplies operands masked to `effective_k` bits (their value is on the grid `2^-log_delta·ℤ`), and the result
budget of an accepted multiplication satisfies `β' + δ_b ≤ β_a`, `β' + δ_a ≤ β_b` (`mulCt_grid`), so every wrap term
`2^β_a·q ⋆ dec(b)` is a whole multiple of `2^β'`.  No hypothesis "the value stays inside the budget" is needed for the
tracking modulo `2^β'` — only to read the tracked value without the modulus. -/

/-- **composition lemma** on coefficient lists: operands on the grids `2^-δa·ℤ`, `2^-δb·ℤ` that track `Ma`, `Mb`
modulo `2^βa`, `2^βb` have a negacyclic product that tracks `Ma ⋆ Mb` modulo `2^β'`, within `N·(Ba·Eb + Ea·(Bb+Eb))` -/
theorem mul_comp {N : Nat} {A B Ma Mb : List ℚ} {βa βb δa δb β' : Nat} {Ea Eb Ba Bb : ℚ}
    (hA : A.length = N) (hB : B.length = N) (hMa : Ma.length = N) (hMb : Mb.length = N)
    (nA : ∀ t, t < N → Near (A.getD t 0) (Ma.getD t 0) (2 ^ βa) Ea)
    (nB : ∀ t, t < N → Near (B.getD t 0) (Mb.getD t 0) (2 ^ βb) Eb)
    (gA : ∀ t, t < N → ∃ n : ℤ, A.getD t 0 * 2 ^ δa = n) (gB : ∀ t, t < N → ∃ n : ℤ, B.getD t 0 * 2 ^ δb = n)
    (sA : SupLe Ma Ba) (sB : SupLe Mb Bb) (hBa : 0 ≤ Ba) (hBb : 0 ≤ Bb) (hEa : 0 ≤ Ea) (hEb : 0 ≤ Eb)
    (h1 : β' + δb ≤ βa) (h2 : β' + δa ≤ βb) (t : Nat) (ht : t < N) :
    Near ((qNegMul A B).getD t 0) ((qNegMul Ma Mb).getD t 0) (2 ^ β') (N * (Ba * Eb + Ea * (Bb + Eb))) :=
  Ckks.mul_comp hA hB hMa hMb nA nB gA gB sA sB hBa hBb hEa hEb h1 h2 t ht

/-- `(3 + 16·q) ⋆ 2` tracks `3 ⋆ 2 = 6` modulo `2^2` although the left operand is only known modulo `2^4` -/
example : Near ((qNegMul [3 + 16 * 5] [2]).getD 0 0) ((qNegMul [3] [2]).getD 0 0) (2 ^ 2) (1 * (3 * 0 + 0 * (2 + 0))) :=
  mul_comp (N := 1) (βa := 4) (βb := 3) (δa := 0) (δb := 0) (β' := 2) rfl rfl rfl rfl
    (fun t ht => by
      have : t = 0 := by omega
      subst this; exact ⟨5, 0, by norm_num, by norm_num⟩)
    (fun t ht => by
      have : t = 0 := by omega
      subst this; exact ⟨0, 0, by norm_num, by norm_num⟩)
    (fun t ht => by
      have : t = 0 := by omega
      subst this; exact ⟨83, by norm_num⟩)
    (fun t ht => by
      have : t = 0 := by omega
      subst this; exact ⟨2, by norm_num⟩)
    (by intro x hx; simp at hx; subst hx; norm_num) (by intro x hx; simp at hx; subst hx; norm_num)
    (by norm_num) (by norm_num) (by norm_num) (by norm_num) (by norm_num) (by norm_num) 0 (by norm_num)

/-- **ct × ct on tracked ciphertexts** (`am`, `bm`: the operands as the product reads them, `MaskedOf`; the product's own
contract on them): the result tracks `Ma ⋆ Mb` modulo its budget -/
theorem mul_ct_tracks {env : Env} {N : Nat} {dst a b c' : DCt} {m : Ct} (hm : mulInto env dst.ct a.ct b.ct = .ok m)
    (hmd : c'.md = m.md) {s : List Poly} {U εa εb : ℚ} {am bm : GLWE}
    (ha : MaskedOf s N a am εa) (hb : MaskedOf s N b bm εb)
    (hc : ∀ q, mulCtParams env dst.ct a.ct b.ct = .ok q →
      ProdContract s N c'.g am (phaseP s N bm) (bm.base2k * bm.size) q.cnv U)
    {Ma Mb : List ℚ} {Ea Eb Ba Bb : ℚ} (hMa : Ma.length = N) (hMb : Mb.length = N)
    (ta : ∀ t, t < N → Near (decC s a t) (Ma.getD t 0) (wrap a) Ea)
    (tb : ∀ t, t < N → Near (decC s b t) (Mb.getD t 0) (wrap b) Eb)
    (sA : SupLe Ma Ba) (sB : SupLe Mb Bb) (hBa : 0 ≤ Ba) (hBb : 0 ≤ Bb) (hEa : 0 ≤ Ea) (hEb : 0 ≤ Eb)
    (hεa : 0 ≤ εa) (hεb : 0 ≤ εb) :
    ∀ t, t < N → Near (decC s c' t) ((qNegMul Ma Mb).getD t 0) (wrap c')
      (U * ulp c' + N * (Ba * (Eb + εb) + (Ea + εa) * (Bb + (Eb + εb)))) :=
  Ckks.mul_ct_tracks hm hmd ha hb hc hMa hMb ta tb sA sB hBa hBb hEa hEb hεa hεb

def xA_val0 : valCoeff 4 (phase [] xA.g) 0 = 309 := by decide
def xA_val1 : valCoeff 4 (phase [] xA.g) 1 = 454 := by decide
def xTwo_val0 : valCoeff 4 (phase [] xTwo.g) 0 = 2 := by decide
def xTwo_val1 : valCoeff 4 (phase [] xTwo.g) 1 = 0 := by decide
def xA_dec0 : decG [] xA.g 8 0 = 309 / 16 := by
  have h : decG [] xA.g 8 0 = dec (valCoeff 4 (phase [] xA.g) 0) (4 * 3) 8 := rfl
  rw [h, xA_val0]; norm_num [dec, tor]
def xA_dec1 : decG [] xA.g 8 1 = 454 / 16 := by
  have h : decG [] xA.g 8 1 = dec (valCoeff 4 (phase [] xA.g) 1) (4 * 3) 8 := rfl
  rw [h, xA_val1]; norm_num [dec, tor]
def xTwo_dec0 : decG [] xTwo.g 4 0 = 2 := by
  have h : decG [] xTwo.g 4 0 = dec (valCoeff 4 (phase [] xTwo.g) 0) (4 * 1) 4 := rfl
  rw [h, xTwo_val0]; norm_num [dec, tor]
def xTwo_dec1 : decG [] xTwo.g 4 1 = 0 := by
  have h : decG [] xTwo.g 4 1 = dec (valCoeff 4 (phase [] xTwo.g) 1) (4 * 1) 4 := rfl
  rw [h, xTwo_val1]; norm_num [dec, tor]

/-- `xA` (12 bits, `δ + β = 12`) and `xTwo` (4 bits) are their own masked forms: values on the grid, no masking error -/
def xA_masked : MaskedOf [] 2 xA xA.g 0 :=
  ⟨fun t ht => by
      have : t = 0 ∨ t = 1 := by omega
      rcases this with rfl | rfl
      · exact ⟨309, by show decG [] xA.g 8 0 * 2 ^ 4 = _; rw [xA_dec0]; norm_num⟩
      · exact ⟨454, by show decG [] xA.g 8 1 * 2 ^ 4 = _; rw [xA_dec1]; norm_num⟩,
   fun t _ => by simp [decC]⟩
def xTwo_masked : MaskedOf [] 2 xTwo xTwo.g 0 :=
  ⟨fun t ht => by
      have : t = 0 ∨ t = 1 := by omega
      rcases this with rfl | rfl
      · exact ⟨2, by show decG [] xTwo.g 4 0 * 2 ^ 0 = _; rw [xTwo_dec0]; norm_num⟩
      · exact ⟨0, by show decG [] xTwo.g 4 1 * 2 ^ 0 = _; rw [xTwo_dec1]; norm_num⟩,
   fun t _ => by simp [decC]⟩

example : ∀ t, t < 2 → Near (decC [] xProd t) ((qNegMul (decP [] 2 xA) (decP [] 2 xTwo)).getD t 0) (wrap xProd)
    (0 * ulp xProd + 2 * (40 * (0 + 0) + (0 + 0) * ((1 + 1) + (0 + 0)))) :=
  mul_ct_tracks (env := env4) (dst := xProd) (a := xA) (b := xTwo) (m := ⟨⟨0, 0⟩, 1⟩) (by decide) rfl xA_masked xTwo_masked
    (fun q hq => by
      have : q = ⟨0, 0, 12⟩ := by
        have h : mulCtParams env4 xProd.ct xA.ct xTwo.ct = .ok ⟨0, 0, 12⟩ := by decide
        rw [h] at hq; injection hq with hq; exact hq.symm
      subst this
      exact ⟨fun t ht => by
        have : t = 0 ∨ t = 1 := by omega
        rcases this with rfl | rfl <;> exact ⟨0, 0, by decide, by simp⟩⟩)
    (by simp [decP, decPG]) (by simp [decP, decPG])
    (fun t ht => by rw [show (decP [] 2 xA).getD t 0 = decC [] xA t from decPG_getD _ _ _ _ _ ht]; exact Near.refl _ _)
    (fun t ht => by rw [show (decP [] 2 xTwo).getD t 0 = decC [] xTwo t from decPG_getD _ _ _ _ _ ht]; exact Near.refl _ _)
    (by
      intro x hx
      simp only [decP, decPG, List.mem_map, List.mem_range] at hx
      obtain ⟨t, ht, rfl⟩ := hx
      have : t = 0 ∨ t = 1 := by omega
      rcases this with rfl | rfl
      · show |decG [] xA.g 8 0| ≤ 40; rw [xA_dec0]; norm_num [abs_le]
      · show |decG [] xA.g 8 1| ≤ 40; rw [xA_dec1]; norm_num [abs_le])
    (by
      intro x hx
      simp only [decP, decPG, List.mem_map, List.mem_range] at hx
      obtain ⟨t, ht, rfl⟩ := hx
      have : t = 0 ∨ t = 1 := by omega
      rcases this with rfl | rfl
      · show |decG [] xTwo.g 4 0| ≤ 1 + 1; rw [xTwo_dec0]; norm_num [abs_le]
      · show |decG [] xTwo.g 4 1| ≤ 1 + 1; rw [xTwo_dec1]; norm_num)
    (by norm_num) (by norm_num) (by norm_num) (by norm_num) (by norm_num) (by norm_num)

/-! ### the data path of the products and composites (`Model/CkksMulData.lean`)

`dMulInto`, `dSquareInto`, `dMulPtInto`, `dAddMany`, `dDotCt`, `dDotPt` are the core call sequences of
`leveled/default/mul.rs` and `leveled/delegates/composite.rs` on the executable core models of C05 / C02 / C08; `pdriver ckks`
runs them (`xstep`) and `./check C16` compares the limbs after every call with the library on the four back ends (the raw
tensor key comes from the harness).  Their outcome and metadata are those of the metadata model by construction: -/

theorem withMeta_ok_inv {r : Res Ct} {k : Meta → Outcome DCt} {c' : DCt} (h : withMeta r k = .ok c') :
    ∃ m, r = .ok m ∧ k m.md = .ok c' := by
  cases r with
  | ok m => exact ⟨m, rfl, h⟩
  | err e c => simp [withMeta] at h
  | panic p => simp [withMeta] at h

/-- the product's data path returns `Ok` only when the metadata model does, with its metadata -/
theorem mul_data_meta {env : Env} {N : Nat} {mk : MulKey} {dst a b c' : DCt} (h : dMulInto env N mk dst a b = .ok c') :
    ∃ m, mulInto env dst.ct a.ct b.ct = .ok m ∧ c'.md = m.md := by
  obtain ⟨m, hm, hk⟩ := withMeta_ok_inv h
  refine ⟨m, hm, ?_⟩
  cases hq : mulCtParams env dst.ct a.ct b.ct with
  | error e => simp [hq] at hk
  | ok q =>
    simp only [hq, ofOpt] at hk
    split at hk
    · injection hk with hk; rw [← hk]
    · cases hk

/-- a tensor key whose limbs are zero (one row, one limb): the gadget product vanishes, the result is the normalised first columns -/
def zk4 : Core.GGLWE := { base2k := 4, n := 2, colsIn := 1, colsOut := 2, dsize := 1, dnum := 1, size := 1, cells := [[[[0, 0]], [[0, 0]]]] }

/-- the executed product of `xA` and `xTwo` into one limb: body `2·phase(xA) mod 2^4`, balanced -/
example : dMulInto env4 2 ⟨false, zk4⟩ xProd xA xTwo
      = .ok ⟨{ base2k := 4, k := 4, n := 2, cols := [[[-6, -4]], [[4, 4]]] }, ⟨0, 0⟩⟩ ∧
    ∃ m, mulInto env4 xProd.ct xA.ct xTwo.ct = .ok m ∧ (⟨0, 0⟩ : Meta) = m.md :=
  ⟨by rfl, mul_data_meta (N := 2) (mk := ⟨false, zk4⟩) (dst := xProd) (a := xA) (b := xTwo)
    (c' := ⟨{ base2k := 4, k := 4, n := 2, cols := [[[-6, -4]], [[4, 4]]] }, ⟨0, 0⟩⟩) (by rfl)⟩

/-! ### rotation and conjugation on the data path — `AutContract` discharged

`dRotateInto`, `dRotateAssign`, `dConjInto`, `dConjAssign` call C03's executable `Ks.automorphism` (key switch with both radix
conversions, then `vec_znx_automorphism_assign(g)`), tied limb for limb with the real automorphism keys.  Their value theorems come
from C03's end-to-end `glwe_automorphism_decrypts` (an identity in `ℤ[X]/(X^N+1)`), read coefficient by coefficient through
`Ks.ι_injective` / `Ks.ι_surjective` (`Lemmas/IotaBij.lean`, `ring_to_coeff`).  What is still assumed is `AutAdm`: the hypotheses C03
asks of the executed call — the automorphism key is a gadget encryption of the secret under `σ_{g⁻¹}(secret)` with error lists `EL`,
`g` admissible with inverse on the secret, digit and accumulator head-room, covered shape.  `autU` is the four-term bound of
`glwe_keyswitch_decrypts` (conversion rounding, gadget noise `Σ‖digit‖₁‖E‖∞`, dropped limbs, final rounding) in units of the last limb;
`autDecC s N g a t` is coefficient `t` of `σ_g` applied to the decoded polynomial of `a`. -/

open KsDec in
/-- **`ckks_rotate_assign`** -/
theorem rotate_assign_data_sem {env : Env} (he : EnvOK env) {N r : Nat} (hN : 0 < N) {c : DCt} (hc : DOK env N r c) {big : Bool} {ks : AutKeys}
    {k : Int} {key : Ks.Key} {m : Ct} (hm : rotateAssign env c.ct k = .ok m) (hk : ks.get k = some key)
    {s : List Poly} {gInv : Int} {EL KL : ℕ → ℕ → Poly} {Hin Hp : Int} (h : AutAdm big N c.g key s gInv EL KL Hin Hp c.g.rank) :
    ∃ c', dRotateAssign env N big ks c k = .ok c' ∧ c'.md = m.md ∧ C02L.GWF N c'.g ∧ c'.g.size = c.g.size ∧
      ∀ t, t < N → Near (decC s c' t) (autDecC s N key.p c t) (wrap c')
        (autU N c.g.base2k c.g.size c.g.rank c.g key s gInv EL * ulp c') :=
  dRotateAssign_sem he hN hc hm hk h

/-- C03's closed instance (`N = 2`, `g = 3`, secret `1 + X`, radix `2^4`) as a CKKS ciphertext -/
def xRot : DCt := ⟨KsDec.exCtN2, ⟨2, 2⟩⟩
def xRot_ok : DOK env4 2 1 xRot := ⟨by decide, rfl, rfl, by decide⟩
def xRot_adm (big : Bool) : AutAdm big 2 xRot.g KsDec.exKeyG3 KsDec.exSk2 3 KsDec.exELG3 (fun _ _ => [0, 0]) 2 2 xRot.g.rank where
  hg := KsDec.exG3_ok
  hsk := by intro p hp; simp [KsDec.exSk2] at hp; subst hp; rfl
  hinv := by intro s hs; simp [KsDec.exSk2] at hs; subst hs; decide
  hrank := by decide
  hrout := rfl
  hc0 := by decide
  hD := by decide
  hM := Ks.entry_length KsDec.exKeyG3.mat 2 rfl (by decide)
  hS := by decide
  hbk1 := by decide
  hbk := by decide
  hIn0 := by norm_num
  hIn := by norm_num
  hInB := by intro c hc l hl x hx; revert x l c; decide
  hHp0 := by norm_num
  hAcc := by cases big <;> (show (2 : ℤ) + (2 + 2 ^ 4) + 8 ≤ _; norm_num [KsDec.bitsOf])
  hprod := KsDec.exG3_prod
  hs := by decide
  hEL := fun i r => Ks.keyErrL_length 2 4 _ KsDec.exKeyG3 _ i r (by decide) (Ks.entry_length KsDec.exKeyG3.mat 2 rfl (by decide)) (fun _ => rfl)
  hKL := fun _ _ => rfl
  hkey := fun i hi r _ => KsDec.exG3_key i hi r
  hcov1 := by decide
  hcov2 := by decide

example (big : Bool) : ∃ c', dRotateAssign ⟨4, [1], 53⟩ 2 big ⟨[(1, KsDec.exKeyG3)], none⟩ xRot 1 = .ok c' ∧
    ∀ t, t < 2 → Near (decC KsDec.exSk2 c' t) (autDecC KsDec.exSk2 2 3 xRot t) (wrap c')
      (autU 2 4 1 1 xRot.g KsDec.exKeyG3 KsDec.exSk2 3 KsDec.exELG3 * ulp c') :=
  let ⟨c', h, _, _, _, hv⟩ := rotate_assign_data_sem (env := env4) env4_ok (by norm_num) xRot_ok (big := big)
    (ks := ⟨[(1, KsDec.exKeyG3)], none⟩) (k := 1) (m := xRot.ct) (by decide) rfl (xRot_adm big)
  ⟨c', h, hv⟩

open KsDec in
/-- **`ckks_conjugate_assign`** -/
theorem conj_assign_data_sem {env : Env} (he : EnvOK env) {N r : Nat} (hN : 0 < N) {c : DCt} (hc : DOK env N r c) {big : Bool} {ks : AutKeys}
    {key : Ks.Key} (hk : ks.conj = some key)
    {s : List Poly} {gInv : Int} {EL KL : ℕ → ℕ → Poly} {Hin Hp : Int} (h : AutAdm big N c.g key s gInv EL KL Hin Hp c.g.rank) :
    ∃ c', dConjAssign env N big ks c = .ok c' ∧ c'.md = c.md ∧ C02L.GWF N c'.g ∧ c'.g.size = c.g.size ∧
      ∀ t, t < N → Near (decC s c' t) (autDecC s N key.p c t) (wrap c')
        (autU N c.g.base2k c.g.size c.g.rank c.g key s gInv EL * ulp c') :=
  dConjAssign_sem he hN hc hk h

example (big : Bool) : ∃ c', dConjAssign env4 2 big ⟨[], some KsDec.exKeyG3⟩ xRot = .ok c' ∧ c'.md = xRot.md :=
  let ⟨c', h, hm, _⟩ := conj_assign_data_sem (env := env4) env4_ok (by norm_num) xRot_ok (big := big)
    (ks := ⟨[], some KsDec.exKeyG3⟩) rfl (xRot_adm big)
  ⟨c', h, hm⟩

open KsDec in
/-- **`ckks_rotate_into`** (aligned copy first when the destination is narrower: `AutAdm` is then asked of the copy) -/
theorem rotate_into_data_sem {env : Env} (he : EnvOK env) {N r : Nat} (hN : 0 < N) {dst a : DCt} (hd : DOK env N r dst) (ha : DOK env N r a)
    {big : Bool} {ks : AutKeys} {k : Int} {key : Ks.Key} {m : Ct} (hm : rotateInto env dst.ct a.ct k = .ok m) (hk : ks.get k = some key)
    {s : List Poly} {gInv : Int} {EL KL : ℕ → ℕ → Poly} {Hin Hp : Int}
    (h0 : offsetUnary env dst.ct a.ct = 0 → AutAdm big N a.g key s gInv EL KL Hin Hp dst.g.rank)
    (h1 : ∀ g1, glweLsh N dst.g a.g (unaryShift env dst.ct a.ct 0) = .ok g1 → AutAdm big N g1 key s gInv EL KL Hin Hp g1.rank) :
    ∃ c' U, dRotateInto env N big ks dst a k = .ok c' ∧ c'.md = m.md ∧ C02L.GWF N c'.g ∧ c'.g.size = dst.g.size ∧
      ∀ t, t < N → Near (decC s c' t) (autDecC s N key.p a t) (wrap c')
        ((U + sn r s * trl env.base2k dst.g.size a.g.size (unaryShift env dst.ct a.ct 0)) * ulp c') :=
  dRotateInto_sem he hN hd ha hm hk h0 h1

open KsDec in
/-- **`ckks_conjugate_into`** -/
theorem conj_into_data_sem {env : Env} (he : EnvOK env) {N r : Nat} (hN : 0 < N) {dst a : DCt} (hd : DOK env N r dst) (ha : DOK env N r a)
    {big : Bool} {ks : AutKeys} {key : Ks.Key} {m : Ct} (hm : mulPow2Into env dst.ct a.ct 0 = .ok m) (hk : ks.conj = some key)
    {s : List Poly} {gInv : Int} {EL KL : ℕ → ℕ → Poly} {Hin Hp : Int}
    (h0 : offsetUnary env dst.ct a.ct = 0 → AutAdm big N a.g key s gInv EL KL Hin Hp dst.g.rank)
    (h1 : ∀ g1, glweLsh N dst.g a.g (unaryShift env dst.ct a.ct 0) = .ok g1 → AutAdm big N g1 key s gInv EL KL Hin Hp g1.rank) :
    ∃ c' U, dConjInto env N big ks dst a = .ok c' ∧ c'.md = m.md ∧ C02L.GWF N c'.g ∧ c'.g.size = dst.g.size ∧
      ∀ t, t < N → Near (decC s c' t) (autDecC s N key.p a t) (wrap c')
        ((U + sn r s * trl env.base2k dst.g.size a.g.size (unaryShift env dst.ct a.ct 0)) * ulp c') :=
  dConjInto_sem he hN hd ha hm hk h0 h1

deriving instance DecidableEq for Core.GLWE
deriving instance DecidableEq for Outcome

/-- the aligned copy of `xRot` into a destination of its own size is `xRot` -/
def xRot_copy : glweLsh 2 xRot.g xRot.g (unaryShift (⟨4, [1], 53⟩ : Env) xRot.ct xRot.ct 0) = .ok xRot.g := by decide +kernel

/-- same-size destination: nothing to pay, the automorphism reads `xRot` directly -/
example (big : Bool) : ∃ c', dRotateInto ⟨4, [1], 53⟩ 2 big ⟨[(1, KsDec.exKeyG3)], none⟩ xRot xRot 1 = .ok c' ∧ c'.md = xRot.md := by
  obtain ⟨c', _, h, hm, _⟩ := rotate_into_data_sem (env := ⟨4, [1], 53⟩) (dst := xRot) (a := xRot) ⟨by decide, by decide⟩ (by norm_num)
    xRot_ok xRot_ok (big := big) (ks := ⟨[(1, KsDec.exKeyG3)], none⟩) (k := 1) (m := xRot.ct) (by decide) rfl
    (fun _ => xRot_adm big) (fun g1 hg1 => by
      have e := xRot_copy
      rw [e] at hg1; injection hg1 with hg1; subst hg1; exact xRot_adm big)
  exact ⟨c', h, hm⟩

end Exact

/-! ## the contracts discharged (round 6)

`ProdContract` for the plaintext product and `AutContract` are now **theorems** about the executed data path:

* piece 1 — `Ks.ι` is a bijection between integer lists of length `N` and `ℤ[X]/(X^N+1)` (`iota_injective`, `iota_surjective`): ring
  identities of C03/C05 (`AdjoinRoot (X^N+1)`) are read coefficient by coefficient (`ring_to_coeff`);
* piece 2/3 — the accumulators of `glwe_mul_plain` (C05 `mul_plain_phase_value`) + C08's total normalisation theorems at **every offset**
  (`NormOff.norm_stage_off`), accumulator head-room as the numeric condition `sb·N·4^b + 8 ≤ 2^(bits−2)`
  (`AccBound.cnvApplyCol_bound`): `mul_pt_contract`;
* piece 4 — the masking relation of `cnv_prepare_*` (`mask_relation`: C05 `mask_keeps_top_bits`);
* same-radix normalisation returns **balanced** digits (`same_radix_balanced`: C08 `normalize_inter_value`), so the results of products
  and automorphisms are `DOK` again and programs go on (`mul_pt_data_sem`, `aut_result_balanced`);
* `ckks_add_many` and `ckks_dot_product_pt_vec_znx`: value theorems, no contract, accumulator bound `n·2^(b−1) ≤ 2^62`
  (`ensure_accumulation_fits`);
* programs: `program_sem_x` (`xrun_sem`) on tracked states `(M, E, B)` with magnitude bounds.

Still assumed: the ct × ct product contract `MulAdm` (tensor + relinearisation), `AutAdm` (C03's hypotheses on the executed key switch:
key relation, noise lists, head-room `Hin`/`Hp`, covered shape), the covered offset regime `cnv_offset_hi ≤ sa + sb − 1`. -/

section Discharged
open Core Core.Ops Ckks.Sem Ckks.CoreSem

/-- **piece 1**: `ι` is injective on lists of length `N` -/
theorem iota_injective {N : Nat} (hN : 0 < N) {a b : Poly} (ha : a.length = N) (hb : b.length = N) (h : Ks.ι N a = Ks.ι N b) : a = b :=
  Ks.ι_injective hN ha hb h

example : ([1, -2] : Poly) = [1, -2] := iota_injective (N := 2) (by norm_num) rfl rfl rfl

/-- … and onto -/
theorem iota_surjective {N : Nat} (hN : 0 < N) (x : Ks.R N) : ∃ p : Poly, p.length = N ∧ Ks.ι N p = x := Ks.ι_surjective hN x

example : ∃ p : Poly, p.length = 2 ∧ Ks.ι 2 p = Ks.ι 2 [3, 4] := iota_surjective (by norm_num) _

/-- **same-radix normalisation returns balanced digits**, every offset, both accumulator widths -/
theorem same_radix_balanced (big : Bool) (N b rs : Nat) (off : Int) (H : Int) (c C : Col)
    (hb1 : 1 ≤ b) (hb : b ≤ 62) (hH0 : 0 ≤ H) (hH : H + 8 ≤ 2 ^ (KsDec.bitsOf big - 2)) (hc : ∀ l ∈ c, ∀ x ∈ l, |x| ≤ H)
    (h : Core.bigNormalizeOff big N b rs off c b = some C) : ∀ l ∈ C, ∀ x ∈ l, |x| ≤ 2 ^ (b - 1) :=
  NormOff.same_radix_balanced big N b rs off H c C hb1 hb hH0 hH hc h

example : ∀ l ∈ ([[-7], [1]] : Col), ∀ x ∈ l, |x| ≤ (2 : Int) ^ (4 - 1) :=
  same_radix_balanced true 1 4 2 (-2) 100 [[100], [3]] [[-7], [1]] (by decide) (by decide) (by decide) (by decide) (by decide) (by decide)

/-- **piece 4: the masking relation of `cnv_prepare_*`** -/
theorem mask_relation {N b r : Nat} {a : DCt} (h : Mask.MaskAdm N b r a.md.effK a.g) (s : List Poly) :
    MaskedOf s N a (Mask.masked N b a.md.effK a.g) (sn r s / 2 ^ a.md.logDelta) :=
  Mask.maskedOf_prep h s

def xA_adm : Mask.MaskAdm 2 4 1 xA.md.effK xA.g :=
  ⟨⟨by decide, rfl, rfl, by decide⟩, by decide, by decide, by decide, by decide⟩

example (s : List Poly) : MaskedOf s 2 xA (Mask.masked 2 4 xA.md.effK xA.g) (sn 1 s / 2 ^ 4) := mask_relation xA_adm s

/-- **`Core.mulPlain` on the CKKS operands satisfies the product contract** (pieces 2 + 3) -/
theorem mul_pt_contract {N b r K : Nat} (hN : 0 < N) (big : Bool) (rs cnv : Nat) {g : GLWE} (ha : Mask.MaskAdm N b r K g)
    (pg : Col) (sb : Nat) (hpg : C02L.ColWF N sb pg) (hsb : 1 ≤ sb) (hpd : ∀ l ∈ pg, ∀ x ∈ l, |x| ≤ 2 ^ b)
    (hhi : (Core.cnvOffsetSplit b cnv).1 ≤ divCeil K b + sb - 1)
    (hroom : (sb : Int) * (N * 2 ^ b * 2 ^ b) + 8 ≤ 2 ^ (KsDec.bitsOf big - 2)) :
    ∃ res, Core.mulPlain big N b rs cnv b (effCols b K g) K pg (b * sb) = some res ∧ res.length = r + 1 ∧
      (∀ c ∈ res, C02L.ColWF N rs c) ∧ (∀ c ∈ res, ∀ l ∈ c, ∀ x ∈ l, |x| ≤ 2 ^ (b - 1)) ∧
      ∀ s : List Poly, ProdContractZ s N (Ks.mkCt b N res) (Mask.masked N b K g) (C02L.valP b N pg) (b * sb) cnv
        (-(Core.cnvOffsetSplit b cnv).2).toNat (sn r s) :=
  mulPt_contract hN big rs cnv ha pg sb hpg hsb hpd hhi hroom

def roomB (big : Bool) : ((2 : Nat) : Int) * (((2 : Nat) : Int) * 2 ^ 4 * 2 ^ 4) + 8 ≤ 2 ^ (KsDec.bitsOf big - 2) := by
  cases big <;> norm_num [KsDec.bitsOf]

example (big : Bool) : ∃ res, Core.mulPlain big 2 4 2 8 4 (effCols 4 12 xA.g) 12 pgOne (4 * 2) = some res ∧ res.length = 1 + 1 :=
  let ⟨res, h, hl, _⟩ := mul_pt_contract (N := 2) (b := 4) (r := 1) (K := 12) (by norm_num) big 2 8 xA_adm pgOne 2 (by decide) (by decide)
    (by decide) (by decide) (roomB big)
  ⟨res, h, hl⟩

/-- **`ckks_mul_pt_vec_znx_into`, no contract**: balanced digits and the product of the masked operand by the plaintext message -/
theorem mul_pt_data_sem {env : Env} {N r : Nat} (hN : 0 < N) {big : Bool} {dst a : DCt} {pt : Pt} {pg : Col} {Hd : Int}
    (hd : GB N env.base2k r Hd dst.g) (ha : Mask.MaskAdm N env.base2k r a.md.effK a.g) (hp : PtOK env N pt pg) {m : Ct}
    (hm : withPt env pt dst.ct (mulPtZnxInto env dst.ct a.ct pt) = .ok m)
    (hhi : ∀ q, mulPtParams env dst.ct a.ct pt.md pt.maxK = .ok q →
      (Core.cnvOffsetSplit env.base2k q.cnv).1 ≤ divCeil a.md.effK env.base2k + pt.size - 1)
    (hroom : (pt.size : Int) * (N * 2 ^ env.base2k * 2 ^ env.base2k) + 8 ≤ 2 ^ (KsDec.bitsOf big - 2)) :
    ∃ c', dMulPtInto env N big dst a pt pg = .ok c' ∧ c'.ct = m ∧ DOK env N r c' ∧
      ∀ s t, t < N → Near (decC s c' t)
        ((qNegMul (decPG s N (Mask.masked N env.base2k a.md.effK a.g) a.md.logBudget) (ptMsg env N pt pg)).getD t 0)
        (wrap c') (sn r s * ulp c') :=
  dMulPtInto_sem hN hd ha hp hm hhi hroom

/-- the plaintext `1` at `log_delta = 4` in two limbs of radix `2^4` -/
def ptOne : Pt := ⟨⟨4, 4⟩, 4⟩

def xA_mulPt_meta : withPt env4 ptOne xD.ct (mulPtZnxInto env4 xD.ct xA.ct ptOne) = .ok ⟨⟨4, 4⟩, 2⟩ := by decide

def xA_mulPt_shape : ∀ q, mulPtParams env4 xD.ct xA.ct ptOne.md ptOne.maxK = .ok q →
    (Core.cnvOffsetSplit env4.base2k q.cnv).1 ≤ divCeil xA.md.effK env4.base2k + ptOne.size - 1 := by
  intro q hq
  have : mulPtParams env4 xD.ct xA.ct ptOne.md ptOne.maxK = .ok ⟨4, 4, 8⟩ := by decide
  rw [this] at hq; injection hq with hq; subst hq; decide

def room4 (big : Bool) : (ptOne.size : Int) * ((2 : Nat) * 2 ^ env4.base2k * 2 ^ env4.base2k) + 8 ≤ 2 ^ (KsDec.bitsOf big - 2) := by
  cases big <;> (show (2 : Int) * (2 * 2 ^ 4 * 2 ^ 4) + 8 ≤ _; norm_num [KsDec.bitsOf])

example (big : Bool) : ∃ c', dMulPtInto env4 2 big xD xA ptOne pgOne = .ok c' ∧ c'.ct = ⟨⟨4, 4⟩, 2⟩ ∧ DOK env4 2 1 c' :=
  let ⟨c', h, hc, hd, _⟩ := mul_pt_data_sem (env := env4) (by norm_num) (big := big) xD_ok xA_adm pgOne_ok xA_mulPt_meta xA_mulPt_shape
    (room4 big)
  ⟨c', h, hc, hd⟩

/-- … composed with the tracking of the operand -/
theorem mul_pt_tracks {env : Env} {N r : Nat} (hN : 0 < N) {big : Bool} {dst a : DCt} {pt : Pt} {pg : Col} {Hd : Int}
    (hd : GB N env.base2k r Hd dst.g) (ha : Mask.MaskAdm N env.base2k r a.md.effK a.g) (hp : PtOK env N pt pg) {m : Ct}
    (hm : withPt env pt dst.ct (mulPtZnxInto env dst.ct a.ct pt) = .ok m)
    (hhi : ∀ q, mulPtParams env dst.ct a.ct pt.md pt.maxK = .ok q →
      (Core.cnvOffsetSplit env.base2k q.cnv).1 ≤ divCeil a.md.effK env.base2k + pt.size - 1)
    (hroom : (pt.size : Int) * (N * 2 ^ env.base2k * 2 ^ env.base2k) + 8 ≤ 2 ^ (KsDec.bitsOf big - 2))
    {s : List Poly} {Ma : List ℚ} {Ea Ba Bp : ℚ} (hMa : Ma.length = N)
    (ta : ∀ t, t < N → Near (decC s a t) (Ma.getD t 0) (wrap a) Ea)
    (sA : SupLe Ma Ba) (sP : SupLe (ptMsg env N pt pg) Bp) (hBa : 0 ≤ Ba) (hBp : 0 ≤ Bp) (hEa : 0 ≤ Ea) :
    ∃ c', dMulPtInto env N big dst a pt pg = .ok c' ∧ c'.ct = m ∧ DOK env N r c' ∧
      ∀ t, t < N → Near (decC s c' t) ((qNegMul Ma (ptMsg env N pt pg)).getD t 0) (wrap c')
        (sn r s * ulp c' + N * ((Ea + sn r s / 2 ^ a.md.logDelta) * Bp)) :=
  dMulPtInto_tracks hN hd ha hp hm hhi hroom hMa ta sA sP hBa hBp hEa

example (big : Bool) (s : List Poly) : ∃ c', dMulPtInto env4 2 big xD xA ptOne pgOne = .ok c' ∧
    ∀ t, t < 2 → Near (decC s c' t) ((qNegMul (decP s 2 xA) (ptMsg env4 2 ptOne pgOne)).getD t 0) (wrap c')
      (sn 1 s * ulp c' + (2 : Nat) * ((0 + sn 1 s / 2 ^ xA.md.logDelta) * supN 2 (fun t => (ptMsg env4 2 ptOne pgOne).getD t 0))) :=
  let ⟨c', h, _, _, hv⟩ := mul_pt_tracks (env := env4) (by norm_num) (big := big) xD_ok xA_adm pgOne_ok xA_mulPt_meta xA_mulPt_shape
    (room4 big) (s := s) (Ma := decP s 2 xA) (Ea := 0) (Ba := supN 2 (fun t => (decP s 2 xA).getD t 0))
    (by simp [decP, decPG]) (fun t ht => by
      have : (decP s 2 xA).getD t 0 = decC s xA t := decPG_getD s 2 xA.g _ t ht
      rw [this]; exact Near.refl _ _)
    (supLe_of_getD (by simp [decP, decPG])) (supLe_of_getD (ptMsg_length env4 2 ptOne pgOne)) (supN_nonneg _ _) (supN_nonneg _ _) (le_refl _)
  ⟨c', h, hv⟩

/-- **results of rotations / conjugations have balanced digits** when the key is in the evaluator's radix -/
theorem aut_result_balanced {big : Bool} {N sout rout : Nat} {a : GLWE} {key : Ks.Key} {sk : List Poly} {gInv : Int}
    {EL KL : ℕ → ℕ → Poly} {Hin Hp : Int} (hN : 0 < N) (ha : C02L.GWF N a) (hbi1 : 1 ≤ a.base2k) (hbi : a.base2k ≤ 62)
    (h : AutAdm big N a key sk gInv EL KL Hin Hp rout) :
    ∀ res, Ks.automorphism big key.base2k sout rout a key = .ok res → ∀ c ∈ res.cols, ∀ l ∈ c, ∀ x ∈ l, |x| ≤ 2 ^ (key.base2k - 1) :=
  automorphism_balanced hN ha hbi1 hbi h

example (big : Bool) : ∀ res, Ks.automorphism big KsDec.exKeyG3.base2k 1 xRot.g.rank xRot.g KsDec.exKeyG3 = .ok res →
    ∀ c ∈ res.cols, ∀ l ∈ c, ∀ x ∈ l, |x| ≤ (2 : Int) ^ (KsDec.exKeyG3.base2k - 1) :=
  aut_result_balanced (N := 2) (by norm_num) xRot_ok.wf (by decide) (by decide) (xRot_adm big)

/-- **`ckks_add_many`, no contract** -/
theorem add_many_sem {env : Env} (he : EnvOK env) {N r : Nat} {dst : DCt} {ins : List DCt} (hd : DOK env N r dst)
    (hins : ∀ c ∈ ins, DOK env N r c) {m : Ct} (hm : addMany env dst.ct (ins.map DCt.ct) = .ok m)
    (β0 : Nat) (hβ0 : ∀ c ∈ ins, c.md.logBudget ≤ β0) :
    ∃ c', dAddMany env N dst ins = .ok c' ∧ c'.ct = m ∧ DOK env N r c' ∧
      ∀ s t, t < N → Near (decC s c' t) ((ins.map (fun c => decC s c t)).sum) (wrap c')
        (ins.length * (sn r s * (2 ^ β0 / 2 ^ (env.base2k * dst.g.size)))) :=
  dAddMany_sem he hd hins hm β0 hβ0

example : ∃ c', dAddMany env4 2 xD [xA, xB, xB] = .ok c' ∧
    ∀ s t, t < 2 → Near (decC s c' t) (([xA, xB, xB].map (fun c => decC s c t)).sum) (wrap c')
      (([xA, xB, xB] : List DCt).length * (sn 1 s * (2 ^ 8 / 2 ^ (env4.base2k * xD.g.size)))) :=
  let ⟨c', h, _, _, hv⟩ := add_many_sem env4_ok xD_ok (ins := [xA, xB, xB]) (by
      intro c hc; simp only [List.mem_cons, List.mem_nil_iff, or_false] at hc
      rcases hc with rfl | rfl | rfl
      · exact xA_ok
      · exact xB_ok
      · exact xB_ok) (m := ⟨⟨4, 4⟩, 2⟩) (by decide) 8 (by
      intro c hc; simp only [List.mem_cons, List.mem_nil_iff, or_false] at hc
      rcases hc with rfl | rfl | rfl <;> decide)
  ⟨c', h, hv⟩

/-- **`ckks_dot_product_pt_vec_znx`, no contract** -/
theorem dot_pt_sem {env : Env} (he : EnvOK env) {N r : Nat} (hN : 0 < N) {big : Bool} {dst : DCt} {aps : List (DCt × Col)} {pt : Pt}
    (hd : DOK env N r dst) (hadm : ∀ ap ∈ aps, Mask.MaskAdm N env.base2k r ap.1.md.effK ap.1.g ∧ PtOK env N pt ap.2)
    {m : Ct} (hm : withPt env pt dst.ct (dotPtZnx env dst.ct (aps.map (fun ap => ap.1.ct)) pt) = .ok m)
    (hhi : ∀ ap ∈ aps, ∀ res : Ct, res.size = dst.g.size → ∀ q, mulPtParams env res ap.1.ct pt.md pt.maxK = .ok q →
      (Core.cnvOffsetSplit env.base2k q.cnv).1 ≤ divCeil ap.1.md.effK env.base2k + pt.size - 1)
    (hroom : (pt.size : Int) * (N * 2 ^ env.base2k * 2 ^ env.base2k) + 8 ≤ 2 ^ (KsDec.bitsOf big - 2))
    (β0 : Nat) (hβ0 : ∀ ap ∈ aps, ap.1.md.logBudget ≤ β0) :
    ∃ c', dDotPt env N big dst (aps.map Prod.fst) pt (aps.map Prod.snd) = .ok c' ∧ c'.ct = m ∧ DOK env N r c' ∧
      ∀ s t, t < N → Near (decC s c' t) ((aps.map (fun ap => dotPtTerm env N pt s ap t)).sum) (wrap c')
        (2 * aps.length * (sn r s * (2 ^ β0 / 2 ^ (env.base2k * dst.g.size)))) :=
  dDotPt_sem he hN hd hadm hm hhi hroom β0 hβ0

example (big : Bool) : ∃ c', dDotPt env4 2 big xD [xA, xA] ptOne [pgOne, pgOne] = .ok c' ∧ DOK env4 2 1 c' :=
  let ⟨c', h, _, hd, _⟩ := dot_pt_sem (env := env4) env4_ok (by norm_num) (big := big) (dst := xD) (aps := [(xA, pgOne), (xA, pgOne)])
    (pt := ptOne) xD_ok (by
      intro ap hap; simp only [List.mem_cons, List.mem_nil_iff, or_false] at hap
      rcases hap with rfl | rfl <;> exact ⟨xA_adm, pgOne_ok⟩) (m := ⟨⟨4, 4⟩, 2⟩) (by decide)
    (by
      intro ap hap res hres q hq
      simp only [List.mem_cons, List.mem_nil_iff, or_false] at hap
      have hap' : ap = (xA, pgOne) := by rcases hap with rfl | rfl <;> rfl
      subst hap'
      have hsz : res.size = 2 := hres
      have : mulPtParams env4 res xA.ct ptOne.md ptOne.maxK = .ok ⟨4, 4, 8⟩ := by
        simp only [mulPtParams, Ct.maxK, hsz]; decide
      rw [this] at hq; injection hq with hq; subst hq; decide)
    (room4 big) 8 (by
      intro ap hap; simp only [List.mem_cons, List.mem_nil_iff, or_false] at hap
      rcases hap with rfl | rfl <;> decide)
  ⟨c', h, hd⟩

/-! ### piece 5: `ckks_mul_into` (rank 1) — the ct × ct product contract discharged

`MulAdm` (what `program_sem_x` asks of a ct × ct product) is a theorem for `ckks_mul_into` at rank 1:
* the three tensor columns of `glwe_tensor_apply` — convolution accumulators **truncated** to `normalize_input_limb_bound_with_offset` limbs
  (`Tensor.cnvTrunc_coeff`: `2·H₁` extra units, `H₁ = 4·L_b·N·2^b`), Karatsuba column `(a₀+a₁)(b₀+b₁) − a₀b₀ − a₁b₁` exact in wrapping
  arithmetic on balanced digits (`Tensor.col1_eq`) — against the exact column products (`Tensor.tensor2_value`);
* tensor phase under `(1, s₁, s₁²)` = product of the phases of the masked operands (`tensor_product_phase`; the ring identity is checked in
  `ℤ[X]/(X^N+1)` and read back through `ι`);
* `glwe_tensor_relinearize` = C03's key switch of the `s₁²` column (`relinearize_rank1`: literally `Ks.keyswitchInternal` of the fake
  ciphertext `(T0, T2)` plus `T1` on column 1), value from `keyswitchInternal_value` + `covered_input_value` + `bigAdd_exact`, noise from
  `normInf_errL_le` / `normInf_dropL_le`, normalisation from C08 (`relin_contract_discharged`), both accumulator widths;
* scale bookkeeping (`compose_rel`, `relin_compose`).
Remaining hypotheses: `RelinAdm` (C03's on the executed gadget product: tensor key in the evaluator's radix encrypting `s₁⋆s₁` under `s`
with noise lists `EL`/`KL`, covered regime `ts ≤ min(key.size, dnum·dsize)`, accumulator head-room `Hp`, bounds `Gmax`/`Dmax` on the
gadget-noise / dropped-limb terms of the executed tensor), covered offset regime, numeric head-room of the convolution accumulators. -/

/-- **the tensor of a rank-1 product decrypts to the product of the masked operands' phases** -/
theorem tensor_product_phase {N b : Nat} (hN : 0 < N) (big : Bool) (hb61 : b ≤ 61) {a bo : DCt}
    (hma : Mask.MaskAdm N b 1 a.md.effK a.g) (hmb : Mask.MaskAdm N b 1 bo.md.effK bo.g) (ts cnv : Nat) (hts : 1 ≤ ts)
    (hhi : (Core.cnvOffsetSplit b cnv).1 ≤ divCeil a.md.effK b + divCeil bo.md.effK b - 1)
    (hroom : 2 ^ b * (4 * (divCeil bo.md.effK b : Int) * N * 2 ^ b) + 8 ≤ 2 ^ (KsDec.bitsOf big - 2))
    (s : List Poly) (hs : s ≠ []) :
    ∃ T0 T1 T2, Core.tensorApply false big N b ts cnv b (effCols b a.md.effK a.g) a.md.effK (effCols b bo.md.effK bo.g) bo.md.effK
        (zeroC N (tensorCols a.g) ts) = some [T0, T1, T2] ∧
      C02L.ColWF N ts T0 ∧ C02L.ColWF N ts T1 ∧ C02L.ColWF N ts T2 ∧
      (∀ l ∈ T0, ∀ v ∈ l, |v| ≤ 2 ^ (b - 1)) ∧ (∀ l ∈ T1, ∀ v ∈ l, |v| ≤ 3 * 2 ^ (b - 1)) ∧ (∀ l ∈ T2, ∀ v ∈ l, |v| ≤ 2 ^ (b - 1)) ∧
      ∀ t, t < N → ∃ q e : Int,
        2 ^ (b * (divCeil a.md.effK b + divCeil bo.md.effK b) + (-(Core.cnvOffsetSplit b cnv).2).toNat) *
            (Tensor.tensorPhase (s.getD 0 []) (C02L.valP b N T0) (C02L.valP b N T1) (C02L.valP b N T2)).getD t 0
          = 2 ^ (cnv + (-(Core.cnvOffsetSplit b cnv).2).toNat) * 2 ^ (b * ts) *
              (Hal.negMul (phaseP s N (Mask.masked N b a.md.effK a.g)) (phaseP s N (Mask.masked N b bo.md.effK bo.g))).getD t 0
            + e + q * 2 ^ (b * ts + (b * (divCeil a.md.effK b + divCeil bo.md.effK b) + (-(Core.cnvOffsetSplit b cnv).2).toNat)) ∧
        |e| ≤ tensorU N b (divCeil bo.md.effK b) (s.getD 0 []) *
          2 ^ (b * (divCeil a.md.effK b + divCeil bo.md.effK b) + (-(Core.cnvOffsetSplit b cnv).2).toNat) :=
  tensor_of_dok hN big hb61 hma hmb ts cnv hts hhi hroom s hs

def xTwo_ok : DOK env4 2 1 xTwo := ⟨by decide, rfl, rfl, by decide⟩
def xTwo_adm : Mask.MaskAdm 2 4 1 xTwo.md.effK xTwo.g :=
  ⟨⟨by decide, rfl, rfl, by decide⟩, by decide, by decide, by decide, by decide⟩

def roomT (big : Bool) : (2 : Int) ^ 4 * (4 * ((divCeil xTwo.md.effK 4 : Nat) : Int) * ((2 : Nat) : Int) * 2 ^ 4) + 8 ≤ 2 ^ (KsDec.bitsOf big - 2) := by
  cases big <;> (show (2 : Int) ^ 4 * (4 * ((1 : Nat) : Int) * ((2 : Nat) : Int) * 2 ^ 4) + 8 ≤ _; norm_num [KsDec.bitsOf])

example (big : Bool) : ∃ T0 T1 T2, Core.tensorApply false big 2 4 3 12 4 (effCols 4 xA.md.effK xA.g) xA.md.effK
    (effCols 4 xTwo.md.effK xTwo.g) xTwo.md.effK (zeroC 2 (tensorCols xA.g) 3) = some [T0, T1, T2] ∧ C02L.ColWF 2 3 T1 :=
  let ⟨T0, T1, T2, h, _, w1, _⟩ := tensor_product_phase (N := 2) (b := 4) (by norm_num) big (by norm_num) xA_adm xTwo_adm 3 12 (by norm_num)
    (by decide) (roomT big) [[1, 1]] (by simp)
  ⟨T0, T1, T2, h, w1⟩

/-- **the relinearisation contract discharged** on the executed tensor (C03 + C08, both accumulator widths) -/
theorem relin_contract_discharged {big : Bool} {N b ts : Nat} (hN : 0 < N) (hb1 : 1 ≤ b) (hb62 : b ≤ 62) {g : Core.GGLWE} {s : List Poly}
    {EL KL : ℕ → ℕ → Poly} {Hp Gmax Dmax : Int} {T0 T1 T2 : Col} (h : RelinAdm big N b ts g s EL KL Hp Gmax Dmax T0 T2) (rs : Nat)
    (w0 : C02L.ColWF N ts T0) (w1 : C02L.ColWF N ts T1) (w2 : C02L.ColWF N ts T2)
    (d0 : ∀ l ∈ T0, ∀ v ∈ l, |v| ≤ 2 ^ (b - 1)) (d1 : ∀ l ∈ T1, ∀ v ∈ l, |v| ≤ 3 * 2 ^ (b - 1)) (d2 : ∀ l ∈ T2, ∀ v ∈ l, |v| ≤ 2 ^ (b - 1)) :
    RelinContractAt N b ts rs ⟨big, g⟩ s (relinU b rs g.size s Gmax Dmax) T0 T1 T2 :=
  relinContract_of_adm hN hb1 hb62 h rs w0 w1 w2 d0 d1 d2

/-- a three-limb tensor key with zero limbs: as a key for the secret `1 + X` its noise lists are `−(1+X)²·β^…` (`Ks.keyErrL`) -/
def zk43 : Core.GGLWE := { base2k := 4, n := 2, colsIn := 1, colsOut := 2, dsize := 1, dnum := 3, size := 3, cells := [[[[0, 0], [0, 0], [0, 0]], [[0, 0], [0, 0], [0, 0]]], [[[0, 0], [0, 0], [0, 0]], [[0, 0], [0, 0], [0, 0]]], [[[0, 0], [0, 0], [0, 0]], [[0, 0], [0, 0], [0, 0]]]] }

def zkEL : ℕ → ℕ → Poly := Ks.keyErrL 2 4 [[1, 1]] zk43.toKey (fun _ => Hal.negMul [1, 1] [1, 1])

/-- C03's hypotheses on the relinearisation of the tensor of `xA · xTwo` with `zk43` -/
def zk43_adm (big : Bool) : RelinAdm big 2 4 3 zk43 [[1, 1]] zkEL (fun _ _ => [0, 0]) 0
    (KsDec.gadgetBound 2 4 (KsDec.aDftOf (relinCt 4 2 [[-6, -4], [0, 0], [0, 0]] [[0, 0], [0, 0], [0, 0]])) zk43.toKey zkEL)
    (KsDec.dropBound 2 4 [[1, 1]] (KsDec.aDftOf (relinCt 4 2 [[-6, -4], [0, 0], [0, 0]] [[0, 0], [0, 0], [0, 0]])) zk43.toKey)
    [[-6, -4], [0, 0], [0, 0]] [[0, 0], [0, 0], [0, 0]] where
  hgb := rfl
  hgn := rfl
  hci := rfl
  hco := rfl
  hD := by decide
  hM := Ks.entry_length zk43.toPMat 2 rfl (by decide)
  hS := by decide
  hcov1 := by decide
  hcov2 := by decide
  hs := by simp
  hs1 := rfl
  hEL := fun i r => Ks.keyErrL_length 2 4 _ zk43.toKey _ i r (by decide) (Ks.entry_length zk43.toPMat 2 rfl (by decide)) (fun _ => rfl)
  hKL := fun _ _ => rfl
  hkey := by
    intro i hi r _
    have hi0 : i = 0 := by omega
    subst hi0
    have hz : Ks.ι 2 [0, 0] = 0 := Ks.ι_zero 2 2
    have h := Ks.keyErrL_spec 2 4 [[1, 1]] zk43.toKey (fun _ => Hal.negMul [1, 1] [1, 1]) 0 r (by decide)
      (Ks.entry_length zk43.toPMat 2 rfl (by decide)) (fun _ => rfl)
    rw [hz, mul_zero, add_zero]
    exact h
  hHp0 := le_refl _
  hAcc := by cases big <;> (show (0 : Int) + 3 * 2 ^ (4 - 1) + 8 ≤ _; norm_num [KsDec.bitsOf])
  hprod := by
    intro i hi
    have : i = 0 ∨ i = 1 := by omega
    rcases this with rfl | rfl
    · decide
    · decide
  hG := le_refl _
  hDr := le_refl _

/-- **the relinearisation contract for a tensor with any digit bound** (`D0` on columns 0 and 2, `D1 ≥ D0` on column 1, head-room
`Hp + D1 + 8 ≤ 2^(bits−2)`): the form the accumulated tensor of the fused `ckks_dot_product_ct` needs (`n` normalised tensors added limb-wise:
`D0 = n·2^(b−1)`, `D1 = n·3·2^(b−1)`); `relin_contract_discharged` is the instance `D0 = 2^(b−1)`, `D1 = 3·2^(b−1)`.  `RelinAdm.of_numericG`
gives `RelinAdm` for such a tensor from the numeric key hypotheses (accumulators within `dnum·N·D0·Kb`, gadget noise within `dnum·N·D0·Emax`). -/
theorem relin_contract_discharged_digits {big : Bool} {N b ts : Nat} (hN : 0 < N) (hb1 : 1 ≤ b) (hb62 : b ≤ 62) {g : Core.GGLWE} {s : List Poly}
    {EL KL : ℕ → ℕ → Poly} {Hp Gmax Dmax : Int} {T0 T1 T2 : Col} (h : RelinAdm big N b ts g s EL KL Hp Gmax Dmax T0 T2) (rs : Nat)
    (w0 : C02L.ColWF N ts T0) (w1 : C02L.ColWF N ts T1) (w2 : C02L.ColWF N ts T2)
    {D0 D1 : Int} (hD0 : 0 ≤ D0) (hD01 : D0 ≤ D1) (hA1 : Hp + D1 + 8 ≤ 2 ^ (KsDec.bitsOf big - 2))
    (d0 : ∀ l ∈ T0, ∀ v ∈ l, |v| ≤ D0) (d1 : ∀ l ∈ T1, ∀ v ∈ l, |v| ≤ D1) (d2 : ∀ l ∈ T2, ∀ v ∈ l, |v| ≤ D0) :
    RelinContractAt N b ts rs ⟨big, g⟩ s (relinU b rs g.size s Gmax Dmax) T0 T1 T2 :=
  relinContract_of_admG hN hb1 hb62 h rs w0 w1 w2 hD0 hD01 hA1 d0 d1 d2

/-- digits up to `2·2^3` / `2·3·2^3` (two accumulated tensors at radix 4) are admitted -/
example (big : Bool) : ∃ U, RelinContractAt 2 4 3 3 ⟨big, zk43⟩ [[1, 1]] U [[-6, -4], [0, 0], [0, 0]] [[12, 12], [0, 0], [0, 0]] [[0, 0], [0, 0], [0, 0]] :=
  ⟨_, relin_contract_discharged_digits (by norm_num) (by norm_num) (by norm_num) (zk43_adm big) 3 (by decide) (by decide) (by decide)
    (D0 := 16) (D1 := 48) (by norm_num) (by norm_num) (by cases big <;> norm_num [KsDec.bitsOf]) (by decide) (by decide) (by decide)⟩

/-- **`ckks_mul_into` (rank 1): the ct × ct product contract discharged end to end** -/
theorem mul_ct_contract_discharged {env : Env} (he : EnvOK env) {N : Nat} (hN : 0 < N) {mk : MulKey} {dst a b : DCt} {Hd : Int}
    (hd : GB N env.base2k 1 Hd dst.g) (ha : DOK env N 1 a) (hb : DOK env N 1 b) {m : Ct}
    (hm : mulInto env dst.ct a.ct b.ct = .ok m) {q : MulP} (hq : mulCtParams env dst.ct a.ct b.ct = .ok q)
    (hhi : (Core.cnvOffsetSplit env.base2k q.cnv).1 ≤ divCeil a.md.effK env.base2k + divCeil b.md.effK env.base2k - 1)
    (hroom : 2 ^ env.base2k * (4 * (divCeil b.md.effK env.base2k : Int) * N * 2 ^ env.base2k) + 8 ≤ 2 ^ (KsDec.bitsOf mk.big - 2))
    {s : List Poly} (hs : s ≠ []) {EL KL : ℕ → ℕ → Poly} {Hp Gmax Dmax : Int}
    (hadm : ∀ T0 T1 T2, Core.tensorApply false mk.big N env.base2k (max a.g.size b.g.size) q.cnv env.base2k
        (effCols env.base2k a.md.effK a.g) a.md.effK (effCols env.base2k b.md.effK b.g) b.md.effK
        (zeroC N (tensorCols a.g) (max a.g.size b.g.size)) = some [T0, T1, T2] →
      TensorCol N (max a.g.size b.g.size) (2 ^ (env.base2k - 1)) T0 → TensorCol N (max a.g.size b.g.size) (2 ^ (env.base2k - 1)) T2 →
      RelinAdm mk.big N env.base2k (max a.g.size b.g.size) mk.tsk s EL KL Hp Gmax Dmax T0 T2) :
    MulAdm env N 1 s (mulCtU N env.base2k (divCeil b.md.effK env.base2k) (max a.g.size b.g.size) dst.g.size (s.getD 0 [])
        (relinU env.base2k dst.g.size mk.tsk.size s Gmax Dmax) : Int)
      dst a b (dMulInto env N mk dst a b) q :=
  mulAdm_discharged he hN hd ha hb hm hq hhi hroom hs hadm

/-- the executed product `xA · xTwo` with the key `zk43` under the secret `1 + X`: `Ok`, balanced digits, and the contract holds -/
example (big : Bool) : ∃ c', dMulInto env4 2 ⟨big, zk43⟩ xProd xA xTwo = .ok c' ∧ DOK env4 2 1 c' := by
  have hq : mulCtParams env4 xProd.ct xA.ct xTwo.ct = .ok ⟨0, 0, 12⟩ := by decide
  have hT : Core.tensorApply false big 2 4 3 12 4 (effCols 4 xA.md.effK xA.g) xA.md.effK (effCols 4 xTwo.md.effK xTwo.g) xTwo.md.effK
      (zeroC 2 (tensorCols xA.g) 3) = some [[[-6, -4], [0, 0], [0, 0]], [[4, 4], [0, 0], [0, 0]], [[0, 0], [0, 0], [0, 0]]] := by
    cases big <;> decide +kernel
  obtain ⟨c', h, _, _, hd, _⟩ := mul_ct_contract_discharged (env := env4) env4_ok (N := 2) (by norm_num) (mk := ⟨big, zk43⟩) (dst := xProd)
    (a := xA) (b := xTwo) (Hd := 908) ⟨by decide, rfl, rfl, by decide⟩ xA_ok xTwo_ok (m := ⟨⟨0, 0⟩, 1⟩) (by decide) hq (by decide) (roomT big)
    (s := [[1, 1]]) (by simp) (EL := zkEL) (KL := fun _ _ => [0, 0]) (Hp := 0)
    (fun T0 T1 T2 ht _ _ => by
      have ht' : Core.tensorApply false big 2 4 3 12 4 (effCols 4 xA.md.effK xA.g) xA.md.effK (effCols 4 xTwo.md.effK xTwo.g)
          xTwo.md.effK (zeroC 2 (tensorCols xA.g) 3) = some [T0, T1, T2] := ht
      rw [hT] at ht'
      injection ht' with ht'
      injection ht' with h0 ht'
      injection ht' with h1 ht'
      injection ht' with h2 _
      subst h0; subst h2
      exact zk43_adm big)
  exact ⟨c', h, hd⟩

/-- **`ckks_mul_into` (rank 1), numeric form for tensor keys with `dsize = 1`**: C03's data-dependent hypotheses (product accumulators,
gadget noise, dropped limbs) are derived from digit bounds (`KsNum.prodOf_bound_d1`, `gadgetBound_d1`, `dropBound_d1`); what is left is the
key relation with `‖EL‖∞ ≤ Emax`, the key's digits within `Kb`, the covered regimes and two numeric head-room inequalities -/
theorem mul_ct_numeric {env : Env} (he : EnvOK env) {N : Nat} (hN : 0 < N) {mk : MulKey} {dst a b : DCt} {Hd : Int}
    (hd : GB N env.base2k 1 Hd dst.g) (ha : DOK env N 1 a) (hb : DOK env N 1 b) {m : Ct}
    (hm : mulInto env dst.ct a.ct b.ct = .ok m) {q : MulP} (hq : mulCtParams env dst.ct a.ct b.ct = .ok q)
    (hhi : (Core.cnvOffsetSplit env.base2k q.cnv).1 ≤ divCeil a.md.effK env.base2k + divCeil b.md.effK env.base2k - 1)
    (hroom : 2 ^ env.base2k * (4 * (divCeil b.md.effK env.base2k : Int) * N * 2 ^ env.base2k) + 8 ≤ 2 ^ (KsDec.bitsOf mk.big - 2))
    {s : List Poly} {EL KL : ℕ → ℕ → Poly} {Kb Emax : Int}
    (hgb : mk.tsk.base2k = env.base2k) (hgn : mk.tsk.n = N) (hci : mk.tsk.colsIn = 1) (hco : mk.tsk.colsOut = 2) (hd1 : mk.tsk.dsize = 1)
    (hM : ∀ j q, (mk.tsk.toPMat.entry j q).length = N) (hS : mk.tsk.dnum ≤ mk.tsk.size)
    (hcov1 : max a.g.size b.g.size ≤ mk.tsk.size) (hcov2 : max a.g.size b.g.size ≤ mk.tsk.dnum)
    (hs : s ≠ []) (hs1 : (s.getD 0 []).length = N) (hEL : ∀ i r, (EL i r).length = N) (hKL : ∀ i r, (KL i r).length = N)
    (hkey : ∀ i, i < 1 → ∀ r, r < mk.tsk.dnum →
      Gadget.val (Ks.radix N env.base2k) mk.tsk.size (Ks.keyPhase N s mk.tsk.toPMat i r) =
        Ks.ι N (([Hal.negMul (s.getD 0 []) (s.getD 0 [])] : List Poly).getD i []) * Ks.radix N env.base2k ^ (mk.tsk.size - (r + 1) * mk.tsk.dsize)
          + Ks.ι N (EL i r) + Ks.radix N env.base2k ^ mk.tsk.size * Ks.ι N (KL i r))
    (hK0 : 0 ≤ Kb) (hK : ∀ j q, ∀ x ∈ mk.tsk.toPMat.entry j q, |x| ≤ Kb) (hE0 : 0 ≤ Emax) (hE : ∀ i r, Hal.normInf (EL i r) ≤ Emax)
    (hroomK : ((1 * mk.tsk.dnum : Nat) : Int) * (N * 2 ^ (env.base2k - 1) * Kb) + 3 * 2 ^ (env.base2k - 1) + 8 ≤ 2 ^ (KsDec.bitsOf mk.big - 2)) :
    MulAdm env N 1 s (mulCtU N env.base2k (divCeil b.md.effK env.base2k) (max a.g.size b.g.size) dst.g.size (s.getD 0 [])
        (relinU env.base2k dst.g.size mk.tsk.size s ((1 : Nat) * ((mk.tsk.dnum : Nat) * (N * 2 ^ (env.base2k - 1) * Emax))) 0) : Int)
      dst a b (dMulInto env N mk dst a b) q :=
  mulAdm_numeric he hN hd ha hb hm hq hhi hroom hgb hgn hci hco hd1 hM hS hcov1 hcov2 hs hs1 hEL hKL hkey hK0 hK hE0 hE hroomK

/-- the noise lists of `zk43` as a key for `1 + X`, cut to the rows the key has -/
def zkEL' : ℕ → ℕ → Poly := fun i r => if i < 1 ∧ r < 3 then zkEL i r else [0, 0]

example (big : Bool) : ∃ c', dMulInto env4 2 ⟨big, zk43⟩ xProd xA xTwo = .ok c' ∧ DOK env4 2 1 c' := by
  have hq : mulCtParams env4 xProd.ct xA.ct xTwo.ct = .ok ⟨0, 0, 12⟩ := by decide
  have hMl := Ks.entry_length zk43.toPMat 2 rfl (by decide)
  obtain ⟨c', h, _, _, hd, _⟩ := mul_ct_numeric (env := env4) env4_ok (N := 2) (by norm_num) (mk := ⟨big, zk43⟩) (dst := xProd)
    (a := xA) (b := xTwo) (Hd := 908) ⟨by decide, rfl, rfl, by decide⟩ xA_ok xTwo_ok (m := ⟨⟨0, 0⟩, 1⟩) (by decide) hq (by decide) (roomT big)
    (s := [[1, 1]]) (EL := zkEL') (KL := fun _ _ => [0, 0]) (Kb := 0) (Emax := 512) rfl rfl rfl rfl rfl hMl (show (3 : Nat) ≤ 3 by decide) (show max xA.g.size xTwo.g.size ≤ 3 by decide)
    (show max xA.g.size xTwo.g.size ≤ 3 by decide) (by simp) rfl
    (by
      intro i r
      unfold zkEL'
      split
      · exact Ks.keyErrL_length 2 4 _ zk43.toKey _ i r (by decide) hMl (fun _ => rfl)
      · rfl)
    (fun _ _ => rfl)
    (by
      intro i hi r hr
      have hi0 : i = 0 := by omega
      subst hi0
      have hr3 : r < 3 := hr
      have : zkEL' 0 r = zkEL 0 r := by unfold zkEL'; rw [if_pos ⟨by omega, hr3⟩]
      rw [this]
      exact (zk43_adm big).hkey 0 (by omega) r hr)
    (le_refl _)
    (by
      intro j q x hx
      have hz : zk43.toPMat.entry j q = [0, 0] ∨ zk43.toPMat.entry j q = Hal.zeroP 2 := by
        unfold Hal.PMat.entry Hal.limbOr0
        rcases KsNum.getD_cases (((zk43.toPMat.data.getD j []).getD (q % zk43.toPMat.colsOut) [])) (q / zk43.toPMat.colsOut) (Hal.zeroP 2) with h | h
        · right; exact h
        · left
          rcases KsNum.getD_cases (zk43.toPMat.data.getD j []) (q % zk43.toPMat.colsOut) [] with h2 | h2
          · rw [h2] at h; cases h
          · rcases KsNum.getD_cases zk43.toPMat.data j [] with h3 | h3
            · rw [h3] at h2; cases h2
            · have : ∀ c ∈ zk43.toPMat.data, ∀ col ∈ c, ∀ l ∈ col, l = [0, 0] := by decide
              exact this _ h3 _ h2 _ h
      rcases hz with h | h <;> rw [h] at hx <;> (simp [Hal.zeroP] at hx; rcases hx with rfl | rfl <;> simp))
    (by norm_num)
    (by
      intro i r
      unfold zkEL'
      split
      · next h =>
        obtain ⟨h1, h2⟩ := h
        have hi0 : i = 0 := by omega
        subst hi0
        interval_cases r <;> decide
      · decide)
    (by cases big <;> (show ((1 * 3 : Nat) : Int) * (((2 : Nat) : Int) * 2 ^ (4 - 1) * 0) + 3 * 2 ^ (4 - 1) + 8 ≤ _; norm_num [KsDec.bitsOf]))
  exact ⟨c', h, hd⟩

/-- **`ckks_square_into` (rank 1): the product contract discharged** (C05 `tensorSquare_eq_tensorApply`: squaring runs the data path of
`ckks_mul_into(dst, a, a)`) -/
theorem square_contract_discharged {env : Env} (he : EnvOK env) {N : Nat} (hN : 0 < N) {mk : MulKey} {dst a : DCt} {Hd : Int}
    (hd : GB N env.base2k 1 Hd dst.g) (ha : DOK env N 1 a) {m : Ct}
    (hm : squareInto env dst.ct a.ct = .ok m) {q : MulP} (hq : mulCtParams env dst.ct a.ct a.ct = .ok q)
    (hhi : (Core.cnvOffsetSplit env.base2k q.cnv).1 ≤ divCeil a.md.effK env.base2k + divCeil a.md.effK env.base2k - 1)
    (hroom : 2 ^ env.base2k * (4 * (divCeil a.md.effK env.base2k : Int) * N * 2 ^ env.base2k) + 8 ≤ 2 ^ (KsDec.bitsOf mk.big - 2))
    {s : List Poly} (hs : s ≠ []) {EL KL : ℕ → ℕ → Poly} {Hp Gmax Dmax : Int}
    (hadm : ∀ T0 T1 T2, Core.tensorApply false mk.big N env.base2k (max a.g.size a.g.size) q.cnv env.base2k
        (effCols env.base2k a.md.effK a.g) a.md.effK (effCols env.base2k a.md.effK a.g) a.md.effK
        (zeroC N (tensorCols a.g) (max a.g.size a.g.size)) = some [T0, T1, T2] →
      TensorCol N (max a.g.size a.g.size) (2 ^ (env.base2k - 1)) T0 → TensorCol N (max a.g.size a.g.size) (2 ^ (env.base2k - 1)) T2 →
      RelinAdm mk.big N env.base2k (max a.g.size a.g.size) mk.tsk s EL KL Hp Gmax Dmax T0 T2) :
    MulAdm env N 1 s (mulCtU N env.base2k (divCeil a.md.effK env.base2k) (max a.g.size a.g.size) dst.g.size (s.getD 0 [])
        (relinU env.base2k dst.g.size mk.tsk.size s Gmax Dmax) : Int)
      dst a a (dSquareInto env N mk dst a) q :=
  squareAdm_discharged he hN hd ha hm hq hhi hroom hs hadm

/-- C03's hypotheses on the relinearisation of the tensor of `xA²` with `zk43` -/
def zk43_admSq (big : Bool) : RelinAdm big 2 4 3 zk43 [[1, 1]] zkEL (fun _ _ => [0, 0]) 0
    (KsDec.gadgetBound 2 4 (KsDec.aDftOf (relinCt 4 2 [[0, -8], [-3, 0], [5, -4]] [[-3, -4], [4, 5], [0, -8]])) zk43.toKey zkEL)
    (KsDec.dropBound 2 4 [[1, 1]] (KsDec.aDftOf (relinCt 4 2 [[0, -8], [-3, 0], [5, -4]] [[-3, -4], [4, 5], [0, -8]])) zk43.toKey)
    [[0, -8], [-3, 0], [5, -4]] [[-3, -4], [4, 5], [0, -8]] where
  hgb := rfl
  hgn := rfl
  hci := rfl
  hco := rfl
  hD := by decide
  hM := Ks.entry_length zk43.toPMat 2 rfl (by decide)
  hS := by decide
  hcov1 := by decide
  hcov2 := by decide
  hs := by simp
  hs1 := rfl
  hEL := fun i r => Ks.keyErrL_length 2 4 _ zk43.toKey _ i r (by decide) (Ks.entry_length zk43.toPMat 2 rfl (by decide)) (fun _ => rfl)
  hKL := fun _ _ => rfl
  hkey := (zk43_adm big).hkey
  hHp0 := le_refl _
  hAcc := (zk43_adm big).hAcc
  hprod := by
    intro i hi
    have : i = 0 ∨ i = 1 := by omega
    rcases this with rfl | rfl
    · decide
    · decide
  hG := le_refl _
  hDr := le_refl _

def roomSq (big : Bool) : (2 : Int) ^ 4 * (4 * ((divCeil xA.md.effK 4 : Nat) : Int) * ((2 : Nat) : Int) * 2 ^ 4) + 8 ≤ 2 ^ (KsDec.bitsOf big - 2) := by
  cases big <;> (show (2 : Int) ^ 4 * (4 * ((3 : Nat) : Int) * ((2 : Nat) : Int) * 2 ^ 4) + 8 ≤ _; norm_num [KsDec.bitsOf])

/-- the executed square of `xA` into `xD` with the key `zk43` -/
example (big : Bool) : ∃ c', dSquareInto env4 2 ⟨big, zk43⟩ xD xA = .ok c' ∧ DOK env4 2 1 c' := by
  have hq : mulCtParams env4 xD.ct xA.ct xA.ct = .ok ⟨4, 4, 12⟩ := by decide
  have hT : Core.tensorApply false big 2 4 3 12 4 (effCols 4 xA.md.effK xA.g) xA.md.effK (effCols 4 xA.md.effK xA.g) xA.md.effK
      (zeroC 2 (tensorCols xA.g) 3) = some [[[0, -8], [-3, 0], [5, -4]], [[10, 9], [6, -6], [-4, 12]], [[-3, -4], [4, 5], [0, -8]]] := by
    cases big <;> decide +kernel
  obtain ⟨c', h, _, _, hd, _⟩ := square_contract_discharged (env := env4) env4_ok (N := 2) (by norm_num) (mk := ⟨big, zk43⟩) (dst := xD)
    (a := xA) xD_ok xA_ok (m := ⟨⟨4, 4⟩, 2⟩) (by decide) hq (by decide) (roomSq big)
    (s := [[1, 1]]) (by simp) (EL := zkEL) (KL := fun _ _ => [0, 0]) (Hp := 0)
    (fun T0 T1 T2 ht _ _ => by
      have ht' : Core.tensorApply false big 2 4 3 12 4 (effCols 4 xA.md.effK xA.g) xA.md.effK (effCols 4 xA.md.effK xA.g)
          xA.md.effK (zeroC 2 (tensorCols xA.g) 3) = some [T0, T1, T2] := ht
      rw [hT] at ht'
      injection ht' with ht'
      injection ht' with h0 ht'
      injection ht' with h1 ht'
      injection ht' with h2 _
      subst h0; subst h2
      exact zk43_admSq big)
  exact ⟨c', h, hd⟩

/-- **in-place rotations / conjugation with `dsize = 1` keys: admissibility from numeric conditions** — C03's data-dependent hypotheses
(accumulator head-room, gadget noise, dropped limbs) and the bound on the error constant follow from `‖EL‖∞ ≤ Emax`, key digits within
`Kb` and the shape -/
theorem aut_assign_adm_numeric {env : Env} (he : EnvOK env) {N r : Nat} {big : Bool} {c : DCt} (hc : DOK env N r c) {key : Ks.Key}
    {s : List Poly} {gInv : Int} {EL KL : ℕ → ℕ → Poly} {Kb Emax : Int}
    (hkb : key.base2k = env.base2k) (hd : key.dsize = 1) (hg : GalOk key.p N) (hsk : Ks.AllLen N s)
    (hinv : ∀ p ∈ s, AutoMul.σ key.p (AutoMul.σ gInv p) = p) (hrank : c.g.rank = key.rankIn) (hrout : c.g.rank = key.rankOut)
    (hc0 : 0 < key.mat.colsOut) (hM : ∀ j q, (key.mat.entry j q).length = N) (hS : key.mat.rows ≤ key.mat.size)
    (hs : key.mat.colsIn ≤ s.length) (hEL : ∀ i r, (EL i r).length = N) (hKL : ∀ i r, (KL i r).length = N)
    (hkey : ∀ i, i < key.mat.colsIn → ∀ r, r < key.mat.rows →
      Gadget.val (Ks.radix N key.base2k) key.mat.size (Ks.keyPhase N (s.map (AutoMul.σ gInv)) key.mat i r) =
        Ks.ι N (s.getD i []) * Ks.radix N key.base2k ^ (key.mat.size - (r + 1) * key.dsize) + Ks.ι N (EL i r)
          + Ks.radix N key.base2k ^ key.mat.size * Ks.ι N (KL i r))
    (hcov1 : c.g.size ≤ key.mat.size) (hcov2 : c.g.size ≤ key.mat.rows)
    (hK0 : 0 ≤ Kb) (hK : ∀ j q, ∀ x ∈ key.mat.entry j q, |x| ≤ Kb) (hE0 : 0 ≤ Emax) (hE : ∀ i r, Hal.normInf (EL i r) ≤ Emax)
    (hroom : ((key.mat.colsIn * key.mat.rows : Nat) : Int) * (N * 2 ^ (env.base2k - 1) * Kb) + (2 ^ (env.base2k - 1) + 2 ^ env.base2k) + 8
      ≤ 2 ^ (KsDec.bitsOf big - 2)) :
    AutAssignAdm env N big s
      (((key.mat.colsIn * (key.mat.rows * (N * 2 ^ (env.base2k - 1) * Emax)) : Int) : ℚ)
        + ((1 + C02L.snorm (min c.g.rank (s.map (AutoMul.σ gInv)).length) (s.map (AutoMul.σ gInv)) : Int) : ℚ)) key c :=
  autAssignAdm_numeric he hc hkb hd hg hsk hinv hrank hrout hc0 hM hS hs hEL hKL hkey hcov1 hcov2 hK0 hK hE0 hE hroom

/-- the noise list of C03's closed key, cut to the rows the key has -/
def exEL' : ℕ → ℕ → Poly := fun i r => if i < 1 ∧ r < 1 then KsDec.exELG3 i r else [0, 0]

example (big : Bool) : AutAssignAdm env4 2 big KsDec.exSk2
    ((((1 : Nat) * ((1 : Nat) * ((2 : Nat) * 2 ^ (4 - 1) * 16)) : Int) : ℚ)
      + ((1 + C02L.snorm (min xRot.g.rank (KsDec.exSk2.map (AutoMul.σ 3)).length) (KsDec.exSk2.map (AutoMul.σ 3)) : Int) : ℚ))
    KsDec.exKeyG3 xRot := by
  have hMl := Ks.entry_length KsDec.exKeyG3.mat 2 rfl (by decide)
  exact aut_assign_adm_numeric (env := env4) env4_ok (N := 2) (r := 1) (big := big) xRot_ok (key := KsDec.exKeyG3) (s := KsDec.exSk2) (gInv := 3)
    (EL := exEL') (KL := fun _ _ => [0, 0]) (Kb := 1) (Emax := 16) rfl rfl KsDec.exG3_ok
    (by intro p hp; simp [KsDec.exSk2] at hp; subst hp; rfl) (by intro s hs; simp [KsDec.exSk2] at hs; subst hs; decide)
    (by decide) (by decide) (by decide) hMl (by decide) (by decide)
    (by
      intro i r
      unfold exEL'
      split
      · exact Ks.keyErrL_length 2 4 _ KsDec.exKeyG3 _ i r (by decide) hMl (fun _ => rfl)
      · rfl)
    (fun _ _ => rfl)
    (by
      intro i hi r hr
      have hi0 : i = 0 := by have : i < 1 := hi; omega
      have hr0 : r = 0 := by have : r < 1 := hr; omega
      subst hi0; subst hr0
      have : exEL' 0 0 = KsDec.exELG3 0 0 := by unfold exEL'; rw [if_pos ⟨by omega, by omega⟩]
      rw [this]
      exact KsDec.exG3_key 0 (by decide) 0)
    (by decide) (by decide) (by norm_num)
    (by
      intro j q x hx
      have hz : ∀ c ∈ KsDec.exKeyG3.mat.data, ∀ col ∈ c, ∀ l ∈ col, ∀ y ∈ l, |y| ≤ (1 : Int) := by decide
      unfold Hal.PMat.entry Hal.limbOr0 at hx
      rcases KsNum.getD_cases (((KsDec.exKeyG3.mat.data.getD j []).getD (q % KsDec.exKeyG3.mat.colsOut) [])) (q / KsDec.exKeyG3.mat.colsOut)
        (Hal.zeroP KsDec.exKeyG3.mat.n) with h | h
      · rw [h] at hx; exact KsNum.zeroP_entries _ 1 (by norm_num) x hx
      · rcases KsNum.getD_cases (KsDec.exKeyG3.mat.data.getD j []) (q % KsDec.exKeyG3.mat.colsOut) [] with h2 | h2
        · rw [h2] at h; cases h
        · rcases KsNum.getD_cases KsDec.exKeyG3.mat.data j [] with h3 | h3
          · rw [h3] at h2; cases h2
          · exact hz _ h3 _ h2 _ h x hx)
    (by norm_num)
    (by
      intro i r
      unfold exEL'
      split
      · next h =>
        obtain ⟨h1, h2⟩ := h
        have hi0 : i = 0 := by omega
        have hr0 : r = 0 := by omega
        subst hi0; subst hr0
        decide
      · decide)
    (by cases big <;> (show ((1 * 1 : Nat) : Int) * (((2 : Nat) : Int) * 2 ^ (4 - 1) * 1) + (2 ^ (4 - 1) + 2 ^ 4) + 8 ≤ _; norm_num [KsDec.bitsOf]))

/-- **one call of a program with products, rotations and sums** on tracked states -/
theorem step_sem_x {env : Env} (he : EnvOK env) {N r : Nat} (hN : 0 < N) {mk : MulKey} {ak : AutKeys} {pool : DPool}
    (hp : AllOK env N r pool) (s : List Poly) {Uc Ua : ℚ} (hUc : 0 ≤ Uc) (hUa : 0 ≤ Ua) (op : XOp)
    (hadm : XAdm env N r mk ak s Uc Ua pool op) {mp : Ckks.Pool} (hm : stepR env (DPool.cts pool) op.toOp = .ok mp) :
    XGoal env N r mk ak s pool op mp (fun τ => xspec env N ak (sn r s) Uc Ua (DPool.cts pool) mp τ op) :=
  xstep_sem he hN hp s hUc hUa op hadm hm

/-- **programs with products, rescales, rotations, plaintext operations and sums.**  Metadata run `Ok` + every call admissible where it
is executed ⟹ data run `Ok` with the same metadata, balanced digits everywhere, and the tracked state `(M, E, B)` follows `xspecRun`. -/
theorem program_sem_x {env : Env} (he : EnvOK env) {N r : Nat} (hN : 0 < N) {mk : MulKey} {ak : AutKeys} (s : List Poly) {Uc Ua : ℚ}
    (hUc : 0 ≤ Uc) (hUa : 0 ≤ Ua) (ops : List XOp) {pool : DPool} (hp : AllOK env N r pool)
    (hadm : RunAdm env N r mk ak s Uc Ua pool ops) {mp : Ckks.Pool} (hm : run env (DPool.cts pool) (ops.map XOp.toOp) = .ok mp) :
    ∃ pool', xrun env N mk ak pool ops = .ok pool' ∧ DPool.cts pool' = mp ∧ AllOK env N r pool' ∧
      ∀ τ, TracksB s N pool τ → TracksB s N pool' (xspecRun env N ak (sn r s) Uc Ua (DPool.cts pool) τ ops) :=
  xrun_sem he hN s hUc hUa ops hp hadm hm

/-- product by a plaintext into slot 2, negate it, rescale it: executed on the data path, tracked -/
def progX : List XOp := [.mulPt 2 0 ptOne pgOne, .lin (.negAssign 2), .lin (.rescaleAssign 2 1)]

example (big : Bool) (s : List Poly) : ∃ pool', xrun env4 2 ⟨big, zk4⟩ ⟨[], none⟩ [xA, xB, xD] progX = .ok pool' ∧ AllOK env4 2 1 pool' ∧
    ∀ τ, TracksB s 2 [xA, xB, xD] τ →
      TracksB s 2 pool' (xspecRun env4 2 ⟨[], none⟩ (sn 1 s) 0 0 (DPool.cts [xA, xB, xD]) τ progX) :=
  let ⟨pool', h, _, hok, ht⟩ := program_sem_x (env := env4) env4_ok (by norm_num) (mk := ⟨big, zk4⟩) (ak := ⟨[], none⟩) s (Uc := 0) (Ua := 0)
    (le_refl _) (le_refl _) progX pool4_ok
    (by
      refine ⟨⟨pgOne_ok, ?_, room4 big⟩, fun _ _ => ⟨trivial, fun _ _ => ⟨trivial, fun _ _ => trivial⟩⟩⟩
      intro cd ca hcd hca
      have h1 : cd = xD := by simpa using hcd.symm
      have h2 : ca = xA := by simpa using hca.symm
      subst h1; subst h2
      exact xA_mulPt_shape)
    (mp := ([⟨⟨4, 8⟩, 3⟩, ⟨⟨4, 4⟩, 2⟩, ⟨⟨4, 3⟩, 2⟩] : Ckks.Pool)) (by decide)
  ⟨pool', h, hok, ht⟩

end Discharged

/-! ## 11. the float → integer conversion of `to_znx` / `to_znx_at_k` (`Model/CkksConv.lean`)

`pdriver ckks toznx` executes `toZnxVec` / `toZnxCst`; `./check C16` compares them with
`CKKSPlaintextVecRnx::<F>::to_znx` and `CKKSPlaintextCstRnx::<F>::to_znx_at_k` for `F = f64, f128` on
exactly given inputs (finite values around every boundary, NaN, infinities). -/

section Conversion

/-- **"never panics" of the conversion, with its exact precondition**: one coefficient panics iff the
element type is `f64` and the value is not finite or its rounded scaled value is outside `[-2^W, 2^W)`
(`W = 63` when `log_delta + log_budget ≤ 63`, else `127`).  It never returns an error value. -/
theorem to_int_panic_iff (ty : FloatTy) (W ld : Nat) (x : FVal) :
    ((∃ p, toIntW ty W ld x = .panic p) ↔ ty = .f64 ∧ ¬ x.convertible W ld) ∧ ∀ e, toIntW ty W ld x ≠ .err e :=
  ⟨toIntW_panic_iff ty W ld x, toIntW_not_err ty W ld x⟩

example : (∃ p, toIntW .f64 63 20 (.fin 1 43) = .panic p) ∧ toIntW .f64 63 20 (.fin (-1) 43) = .ok (-(2 ^ 63)) ∧
    toIntW .f64 63 20 (.fin 3 (-21)) = .ok 2 ∧ toIntW .f64 63 20 (.fin (-3) (-21)) = .ok (-2) :=
  ⟨(to_int_panic_iff .f64 63 20 (.fin 1 43)).1.mpr ⟨rfl, by decide⟩, by decide, by decide, by decide⟩

/-- `f128` (C cast through libgcc): always a value — saturated outside the range, `0` for NaN — so the
call succeeds with digits of a different number -/
theorem to_int_f128_total (W ld : Nat) (x : FVal) : ∃ v, toIntW .f128 W ld x = .ok v ∧ -(2 : Int) ^ W ≤ v ∧ v < 2 ^ W :=
  toIntW_f128_total W ld x

example : toIntW .f128 63 20 (.fin 1 44) = .ok (2 ^ 63 - 1) ∧ toIntW .f128 63 20 .nan = .ok 0 ∧
    toIntW .f128 127 40 (.inf true) = .ok (-(2 ^ 127)) := ⟨by decide, by decide, by decide⟩

/-- **`to_znx` outcome, refused destination**: the three `ensure!`s come before any conversion, so an
unsupported `log_delta`, a length mismatch or a plaintext without limbs is an error value whatever
the coefficients are -/
theorem to_znx_refused (ty : FloatTy) (b : Nat) (md : Meta) (n : Nat) (vals : List FVal)
    (h : ¬ VecHeads ty b md n vals) : toZnxVec ty b md n vals = .err "other" :=
  toZnxVec_err ty b md n vals h

example : toZnxVec .f64 17 ⟨54, 10⟩ 2 [.nan, .inf false] = .err "other" :=
  to_znx_refused .f64 17 ⟨54, 10⟩ 2 _ (by decide)

/-- **`to_znx` outcome, accepted destination, convertible coefficients**: `Ok`, each coefficient holds
the `encode_vec_i64` / `encode_vec_i128` digits of `round(x·2^log_delta)` -/
theorem to_znx_ok (ty : FloatTy) (b : Nat) (md : Meta) (n : Nat) (vals : List FVal)
    (hh : VecHeads ty b md n vals) (ms : List (Int × Int)) (hv : vals = ms.map (fun p => .fin p.1 p.2))
    (hc : ∀ x ∈ vals, x.convertible (intPathW md.logDelta md.logBudget) md.logDelta) :
    toZnxVec ty b md n vals = .ok (ms.map (fun p =>
      encodeW (intPathW md.logDelta md.logBudget) b (divCeil md.effK b * b) (divCeil md.effK b)
        (roundHalfAway p.1 (p.2 + md.logDelta)))) :=
  toZnxVec_ok ty b md n vals hh ms hv hc

example : toZnxVec .f64 17 ⟨20, 10⟩ 2 [.fin 1 0, .fin (-3) (-1)] = .ok [[8, 0], [-12, 0]] := by
  exact (to_znx_ok .f64 17 ⟨20, 10⟩ 2 [.fin 1 0, .fin (-3) (-1)] (by decide) [(1, 0), (-3, -1)] rfl (by decide)).trans (by decide)

/-- **`f64`: the panic** — exactly when one coefficient is not convertible (after the `ensure!`s) -/
theorem to_znx_f64_panic (b : Nat) (md : Meta) (n : Nat) (vals : List FVal) (hh : VecHeads .f64 b md n vals)
    (hc : ∃ x ∈ vals, ¬ x.convertible (intPathW md.logDelta md.logBudget) md.logDelta) :
    ∃ p, toZnxVec .f64 b md n vals = .panic p :=
  toZnxVec_f64_panic b md n vals hh hc

example : ∃ p, toZnxVec .f64 52 ⟨40, 89⟩ 2 [.fin 1 87, .fin 1 0] = .panic p :=
  to_znx_f64_panic 52 ⟨40, 89⟩ 2 _ (by decide) ⟨.fin 1 87, by simp, by decide⟩

/-- **`f128`: no panic for any input** -/
theorem to_znx_f128_no_panic (b : Nat) (md : Meta) (n : Nat) (vals : List FVal) (p : String) :
    toZnxVec .f128 b md n vals ≠ .panic p :=
  toZnxVec_f128_no_panic b md n vals p

example : ∀ p, toZnxVec .f128 52 ⟨40, 89⟩ 2 [.fin 1 87, .nan] ≠ .panic p :=
  to_znx_f128_no_panic 52 ⟨40, 89⟩ 2 _

/-- **the magnitude limit implies the precondition up to 128 declared bits**: a value with
`|round(x·2^log_delta)| < 2^(log_delta+log_budget-1)` is convertible when `log_delta + log_budget ≤ 128` … -/
theorem in_range_convertible (md : Meta) (h : md.effK ≤ 128) (x : FVal) (hx : x.inRange md) :
    x.convertible (intPathW md.logDelta md.logBudget) md.logDelta :=
  inRange_convertible md h x hx

example : (FVal.fin 1 86).convertible (intPathW 40 88) 40 := in_range_convertible ⟨40, 88⟩ (by decide) _ (by decide)

/-- … **and not beyond**: with 129 declared bits `x = 2^87`, `log_delta = 40` is inside the magnitude limit
(`2^88`) and not convertible — `to_znx` has no `log_delta + log_budget ≤ 127` guard
(`decode_from_znx` has it) -/
theorem in_range_not_convertible_129 : ∃ (md : Meta) (x : FVal), md.effK = 129 ∧ x.inRange md ∧
    ¬ x.convertible (intPathW md.logDelta md.logBudget) md.logDelta :=
  inRange_not_convertible_129

example : ∃ (md : Meta) (x : FVal), md.effK = 129 ∧ x.inRange md ∧ (∃ p, toZnxVec .f64 52 md 1 [x] = .panic p) :=
  ⟨⟨40, 89⟩, .fin 1 87, rfl, by decide, to_znx_f64_panic 52 ⟨40, 89⟩ 1 _ (by decide) ⟨.fin 1 87, by simp, by decide⟩⟩

/-- **value of the digits** (C08 round trip): for `log_delta + log_budget ≤ 127` and a value inside the
magnitude limit, decoding the written digits at the same `k` returns the value modulo `2^k`,
the value itself when `4|v| < 2^k` -/
theorem to_znx_digits_value (b : Nat) (md : Meta) (hb2 : 2 ≤ b) (hb : b ≤ 61) (hk1 : 1 ≤ md.effK) (hk : md.effK ≤ 127)
    (v : Int) (hv : v.natAbs < 2 ^ (md.effK - 1)) :
    ∃ q : Int, decodeCoefVec 128 b (divCeil md.effK b * b)
        (encodeW (intPathW md.logDelta md.logBudget) b (divCeil md.effK b * b) (divCeil md.effK b) v)
        = .ok (wrapN 128 (v - q * 2 ^ (divCeil md.effK b * b))) ∧ (4 * |v| < 2 ^ (divCeil md.effK b * b) → q = 0) :=
  encodeW_decode b md hb2 hb hk1 hk v hv

example : decodeCoefVec 128 17 34 (encodeW (intPathW 20 10) 17 34 2 (-(3 * 2 ^ 19))) = .ok (-(3 * 2 ^ 19)) := by
  obtain ⟨q, h, hq⟩ := to_znx_digits_value 17 ⟨20, 10⟩ (by norm_num) (by norm_num) (by decide) (by decide) (-(3 * 2 ^ 19)) (by decide)
  have h0 : q = 0 := hq (by norm_num [divCeil, Meta.effK])
  subst h0
  simpa [divCeil, Meta.effK, wrapN] using h

/-- the saturated value is not the value: digits written by the `f128` path for an input inside the
magnitude limit of 129 declared bits -/
example : toZnxVec .f128 52 ⟨40, 89⟩ 1 [.fin 1 87] = .ok [[-8388608, 0, -1]] := by decide

end Conversion

/-! ## 12. composites on tracked states: `mul_add` / `mul_sub`, the dot products -/

section Composites
open Core Core.Ops Ckks.Sem Ckks.CoreSem

/-- no rotation keys: the environment of the examples of §12–13 -/
def env4z : Env := ⟨4, [], 53⟩
def env4z_ok : EnvOK env4z := ⟨by decide, by decide⟩
/-- a three-limb destination -/
def xZ3 : DCt := ⟨{ base2k := 4, k := 12, n := 2, cols := [[[0, 0], [0, 0], [0, 0]], [[0, 0], [0, 0], [0, 0]]] }, ⟨0, 0⟩⟩
def pool3 : DPool := [xA, xA, xZ3]
def pool3_ok : AllOK env4z 2 1 pool3 := by
  intro c hc
  simp only [pool3, List.mem_cons, List.not_mem_nil, or_false] at hc
  rcases hc with rfl | rfl | rfl <;> exact ⟨by decide, rfl, rfl, by decide⟩
def pool3_S : ∀ c ∈ pool3, c.g.size = 3 := by
  intro c hc
  simp only [pool3, List.mem_cons, List.not_mem_nil, or_false] at hc
  rcases hc with rfl | rfl | rfl <;> rfl

def pool3_inv : Inv env4z (DPool.cts pool3) := by
  intro c hc
  simp only [pool3, DPool.cts, List.map_cons, List.map_nil, List.mem_cons, List.not_mem_nil, or_false] at hc
  rcases hc with rfl | rfl | rfl <;> (show _ ≤ _; decide)

/-- the toy parameter set of the examples (radix 4, `N = 2`, three limbs, keys of three rows) and its side conditions -/
def pset4 (big : Bool) : ParamSet := ⟨4, big, 2, 3, 3⟩
theorem pset4_room (big : Bool) : (pset4 big).Room := by cases big <;> decide

theorem zk43_entry (j q : Nat) : ∀ x ∈ zk43.toPMat.entry j q, x = 0 := by
  intro x hx
  have hz : zk43.toPMat.entry j q = [0, 0] ∨ zk43.toPMat.entry j q = Hal.zeroP 2 := by
    unfold Hal.PMat.entry Hal.limbOr0
    rcases KsNum.getD_cases (((zk43.toPMat.data.getD j []).getD (q % zk43.toPMat.colsOut) [])) (q / zk43.toPMat.colsOut) (Hal.zeroP 2) with h | h
    · right; exact h
    · left
      rcases KsNum.getD_cases (zk43.toPMat.data.getD j []) (q % zk43.toPMat.colsOut) [] with h2 | h2
      · rw [h2] at h; cases h
      · rcases KsNum.getD_cases zk43.toPMat.data j [] with h3 | h3
        · rw [h3] at h2; cases h2
        · have : ∀ c ∈ zk43.toPMat.data, ∀ col ∈ c, ∀ l ∈ col, l = [0, 0] := by decide
          exact this _ h3 _ h2 _ h
  rcases hz with h | h <;> rw [h] at hx <;> (simp [Hal.zeroP] at hx; rcases hx with rfl | rfl <;> rfl)

/-- the zero tensor key `zk43` as a well-formed key for the secret `1 + X` (noise lists `zkEL'`, `‖·‖∞ ≤ 512`) -/
def zk43_wf (big : Bool) : TskWF env4z 2 3 3 ⟨big, zk43⟩ [[1, 1]] 512 where
  hgb := rfl
  hgn := rfl
  hci := rfl
  hco := rfl
  hd1 := rfl
  hM := Ks.entry_length zk43.toPMat 2 rfl (by decide)
  hS := show (3 : Nat) ≤ 3 by decide
  hD := show (3 : Nat) ≤ 3 by decide
  hcov1 := show (3 : Nat) ≤ 3 by decide
  hcov2 := show (3 : Nat) ≤ 3 by decide
  hs := by simp
  hs1 := rfl
  hkey := ⟨zkEL', fun _ _ => [0, 0],
    (by
      intro i r
      unfold zkEL'
      split
      · exact Ks.keyErrL_length 2 4 _ zk43.toKey _ i r (by decide) (Ks.entry_length zk43.toPMat 2 rfl (by decide)) (fun _ => rfl)
      · rfl),
    (fun _ _ => rfl),
    (by
      intro i hi r hr
      have hi0 : i = 0 := by omega
      subst hi0
      have hr3 : r < 3 := hr
      have : zkEL' 0 r = zkEL 0 r := by unfold zkEL'; rw [if_pos ⟨by omega, hr3⟩]
      rw [this]
      exact (zk43_adm big).hkey 0 (by omega) r hr),
    (by
      intro i r
      unfold zkEL'
      split
      · next h =>
        obtain ⟨h1, h2⟩ := h
        have hi0 : i = 0 := by omega
        subst hi0
        interval_cases r <;> decide
      · decide)⟩
  hK := by
    intro j q x hx
    rw [zk43_entry j q x hx]
    norm_num
  hE0 := by norm_num

/-- no automorphism key at all (the metadata model knows no rotation index either) -/
def noKeys_wf : AtkWF env4z 2 3 3 ⟨[], none⟩ [[1, 1]] 512 0 where
  hrot := by intro k hk; simp [env4z] at hk
  hkeys := by
    intro key hkey
    rcases hkey with ⟨k, hk⟩ | hk
    · simp [AutKeys.get] at hk
    · cases hk

def tskNum4 (big : Bool) : TskNum env4z 2 3 ⟨big, zk43⟩ [[1, 1]] (2 ^ (env4z.base2k - 1)) 512 :=
  (zk43_wf big).toNum (p := pset4 big) (pset4_room big) rfl rfl
def atkNum4 (big : Bool) : AtkNum env4z 2 3 big ⟨[], none⟩ [[1, 1]] (2 ^ (env4z.base2k - 1)) 512 0 :=
  noKeys_wf.toNum (p := pset4 big) (pset4_room big) rfl
def roomPt4 (big : Bool) : ((3 : Nat) : Int) * (((2 : Nat) : Int) * 2 ^ env4z.base2k * 2 ^ env4z.base2k) + 8 ≤ 2 ^ (KsDec.bitsOf big - 2) := by
  cases big <;> decide

/-- **`accumulate_unnormalized` + the final normalisation**: the first product `d0`, every further term (a `TermSpec`: what its product
into a scratch ciphertext decodes to, within an absolute error) added un-normalised, one `glwe_normalize_assign` -/
theorem accumulate_sem {env : Env} (he : EnvOK env) {N r : Nat} (β0 : Nat) (Sok : List Poly → Prop)
    (terms : List ((DCt → Outcome DCt) × (Ct → Res Ct) × (List Poly → Nat → ℚ) × (List Poly → ℚ)))
    {sz : Nat} (hts : ∀ x ∈ terms, TermSpec env N r sz β0 Sok x.1 x.2.1 x.2.2.1 x.2.2.2)
    {d0 : DCt} (hd : DOK env N r d0) (hsz0 : d0.g.size = sz) (hβd : d0.md.logBudget ≤ β0)
    (hfit : ((terms.length : Int) + 1) * half env.base2k ≤ 2 ^ 62) {first : Outcome DCt} (hfirst : first = .ok d0) {mfin : Ct}
    (hm : (terms.map (fun x => x.2.1)).foldl (accStep env) (.ok d0.ct) = .ok mfin) :
    ∃ c', dAccumulate env N first (terms.map (fun x => x.1)) = .ok c' ∧ c'.ct = mfin ∧ DOK env N r c' ∧
      c'.g.size = d0.g.size ∧ c'.md.logBudget ≤ d0.md.logBudget ∧
      ∀ s, Sok s → ∀ t, t < N → Near (decC s c' t) (decC s d0 t + (terms.map (fun x => x.2.2.1 s t)).sum) (wrap c')
        ((terms.map (fun x => x.2.2.2 s + sn r s * (2 ^ β0 / 2 ^ (env.base2k * d0.g.size)))).sum) :=
  dAccumulate_sem he β0 Sok terms hts hd hsz0 hβd hfit hfirst hm

example : ∃ c', dAccumulate env4 2 (.ok xA) [] = .ok c' ∧ c'.ct = xA.ct :=
  let ⟨c', h, hc, _⟩ := accumulate_sem (env := env4) env4_ok (N := 2) (r := 1) 8 (fun _ => True) [] (by simp) xA_ok rfl (by decide)
    (by norm_num [Ckks.CoreSem.half, env4]) rfl (mfin := xA.ct) rfl
  ⟨c', h, hc⟩

/-- **every call the metadata model accepts is admissible** (ciphertexts of `S` limbs, numerically well-formed keys) -/
theorem call_admissible_numeric {env : Env} (he : EnvOK env) {N S : Nat} (hN : 0 < N) {mk : MulKey} {ak : AutKeys} {s : List Poly}
    {Kb Emax : Int} {Ua : ℚ} (ht : TskNum env N S mk s Kb Emax) (hk : AtkNum env N S mk.big ak s Kb Emax Ua)
    (hroomPt : (S : Int) * (N * 2 ^ env.base2k * 2 ^ env.base2k) + 8 ≤ 2 ^ (KsDec.bitsOf mk.big - 2))
    {pool : DPool} (hp : AllOK env N 1 pool) (hS : ∀ c ∈ pool, c.g.size = S) (hI : Inv env (DPool.cts pool))
    (op : XOp) (hop : OpOK env N S ak (DPool.cts pool) op)
    {mp : Ckks.Pool} (hm : stepR env (DPool.cts pool) op.toOp = .ok mp) :
    XAdm env N 1 mk ak s (UcOf env N S mk s Emax) Ua pool op :=
  xadm_numeric he hN ht hk hroomPt hp hS hI op hop hm

example (big : Bool) : XAdm env4z 2 1 ⟨big, zk43⟩ ⟨[], none⟩ [[1, 1]] (UcOf env4z 2 3 ⟨big, zk43⟩ [[1, 1]] 512) 0 pool3 (.mul 2 0 1) :=
  call_admissible_numeric env4z_ok (by norm_num) (tskNum4 big) (atkNum4 big) (roomPt4 big) pool3_ok pool3_S pool3_inv (.mul 2 0 1) trivial
    (mp := ([⟨⟨4, 8⟩, 3⟩, ⟨⟨4, 8⟩, 3⟩, ⟨⟨4, 4⟩, 3⟩] : Ckks.Pool)) (by decide)

/-- **`ckks_mul_add_ct_into` / `ckks_mul_sub_ct_into`** on tracked states: the product of `a`, `b` goes to `take_mul_tmp(dst)`, then the
normalising in-place sum; slot `d` holds `M d ± M a ⋆ M b` within the product's budget plus `σ` units for the sum -/
theorem mul_add_ct_tracked {env : Env} (he : EnvOK env) {N r : Nat} {mk : MulKey} {ak : AutKeys} {pool : DPool}
    (hp : AllOK env N r pool) {sub : Bool} {d a b : Nat} {mp : Ckks.Pool} (hm : stepR env (DPool.cts pool) (.mulAddCt d a b) = .ok mp)
    (s : List Poly) {Uc : ℚ} (hUc : 0 ≤ Uc)
    (hadm : ∀ cd ca cb, pool[d]? = some cd → pool[a]? = some ca → pool[b]? = some cb →
      ∀ mt, mulInto env (tmpLike N cd).ct ca.ct cb.ct = .ok mt → ∀ q, mulCtParams env (tmpLike N cd).ct ca.ct cb.ct = .ok q →
        MulAdm env N r s Uc (tmpLike N cd) ca cb (dMulInto env N mk (tmpLike N cd) ca cb) q) :
    XGoal env N r mk ak s pool (.mulAdd sub d a b) mp
      (fun τ => specMulAdd N (sn r s) Uc (ulpAt env mp d) (tmpUlp env (DPool.cts pool) d (prodCt env (DPool.cts pool) a b))
        (mdAt (DPool.cts pool) a).logDelta (mdAt (DPool.cts pool) b).logDelta sub τ d a b) :=
  xstep_mulAdd he hp hm s hUc hadm

example (big sub : Bool) : ∃ pool', xstep env4z 2 ⟨big, zk43⟩ ⟨[], none⟩ pool3 (.mulAdd sub 2 0 1) = .ok pool' ∧ AllOK env4z 2 1 pool' :=
  have hm : stepR env4z (DPool.cts pool3) (.mulAddCt 2 0 1) = .ok ([⟨⟨4, 8⟩, 3⟩, ⟨⟨4, 8⟩, 3⟩, ⟨⟨0, 0⟩, 3⟩] : Ckks.Pool) := by decide
  let ⟨p, h, _, hok, _⟩ := mul_add_ct_tracked (sub := sub) env4z_ok pool3_ok hm [[1, 1]] (UcOf_nonneg (by norm_num))
    (call_admissible_numeric env4z_ok (by norm_num) (tskNum4 big) (atkNum4 big) (roomPt4 big) pool3_ok pool3_S pool3_inv (.mulAdd sub 2 0 1) trivial hm)
  ⟨p, h, hok⟩

/-- **`ckks_mul_add_pt_vec_znx_into` / `ckks_mul_sub_pt_vec_znx_into`** on tracked states — no contract -/
theorem mul_add_pt_tracked {env : Env} (he : EnvOK env) {N r : Nat} (hN : 0 < N) {mk : MulKey} {ak : AutKeys} {pool : DPool}
    (hp : AllOK env N r pool) {sub : Bool} {d a : Nat} {pt : Pt} {pg : Col} (hpt : PtOK env N pt pg) {mp : Ckks.Pool}
    (hm : stepR env (DPool.cts pool) (.mulAddPtZnx d a pt) = .ok mp)
    (hhi : ∀ cd ca, pool[d]? = some cd → pool[a]? = some ca → ∀ q, mulPtParams env (tmpLike N cd).ct ca.ct pt.md pt.maxK = .ok q →
      (Core.cnvOffsetSplit env.base2k q.cnv).1 ≤ divCeil ca.md.effK env.base2k + pt.size - 1)
    (hroom : (pt.size : Int) * (N * 2 ^ env.base2k * 2 ^ env.base2k) + 8 ≤ 2 ^ (KsDec.bitsOf mk.big - 2)) (s : List Poly) :
    XGoal env N r mk ak s pool (.mulAddPt sub d a pt pg) mp
      (fun τ => specMulAddPt env N (sn r s) (ulpAt env mp d) (tmpUlp env (DPool.cts pool) d (prodPt env (DPool.cts pool) a pt))
        (mdAt (DPool.cts pool) a).logDelta sub τ d a pt pg) :=
  xstep_mulAddPt he hN hp hpt hm hhi hroom s

example (big sub : Bool) : ∃ pool', xstep env4z 2 ⟨big, zk43⟩ ⟨[], none⟩ pool3 (.mulAddPt sub 2 0 ptOne pgOne) = .ok pool' ∧ AllOK env4z 2 1 pool' :=
  have hm : stepR env4z (DPool.cts pool3) (.mulAddPtZnx 2 0 ptOne) = .ok ([⟨⟨4, 8⟩, 3⟩, ⟨⟨4, 8⟩, 3⟩, ⟨⟨0, 0⟩, 3⟩] : Ckks.Pool) := by decide
  have hadm := call_admissible_numeric env4z_ok (by norm_num) (tskNum4 big) (atkNum4 big) (roomPt4 big) pool3_ok pool3_S pool3_inv
    (.mulAddPt sub 2 0 ptOne pgOne) ⟨⟨by decide, by decide⟩, by decide⟩ hm
  let ⟨p, h, _, hok, _⟩ := mul_add_pt_tracked (mk := ⟨big, zk43⟩) (ak := ⟨[], none⟩) (sub := sub) env4z_ok (by norm_num) pool3_ok hadm.1 hm hadm.2.1 hadm.2.2 [[1, 1]]
  ⟨p, h, hok⟩

/-- **`ckks_dot_product_pt_vec_znx`** on tracked states — no contract: slot `d` holds `Σᵢ M aᵢ ⋆ ptᵢ` -/
theorem dot_pt_tracked {env : Env} (he : EnvOK env) {N r : Nat} (hN : 0 < N) {mk : MulKey} {ak : AutKeys} {pool : DPool}
    (hp : AllOK env N r pool) {d : Nat} {as : List Nat} {pt : Pt} {pgs : List Col} (hlen : pgs.length = as.length)
    (hpt : ∀ pg ∈ pgs, PtOK env N pt pg) {mp : Ckks.Pool}
    (hm : stepR env (DPool.cts pool) (.dotPtZnx d as pt) = .ok mp)
    (hhi : ∀ cd, pool[d]? = some cd → ∀ a ∈ as, ∀ ca, pool[a]? = some ca → ∀ res : Ct, res.size = cd.g.size →
      ∀ q, mulPtParams env res ca.ct pt.md pt.maxK = .ok q →
        (Core.cnvOffsetSplit env.base2k q.cnv).1 ≤ divCeil ca.md.effK env.base2k + pt.size - 1)
    (hroom : (pt.size : Int) * (N * 2 ^ env.base2k * 2 ^ env.base2k) + 8 ≤ 2 ^ (KsDec.bitsOf mk.big - 2)) (s : List Poly) :
    XGoal env N r mk ak s pool (.dotPt d as pt pgs) mp (fun τ => specDotPt env N (sn r s) (DPool.cts pool) mp τ d as pt pgs) :=
  xstep_dotPt he hN hp hlen hpt hm hhi hroom s

example (big : Bool) : ∃ pool', xstep env4z 2 ⟨big, zk43⟩ ⟨[], none⟩ pool3 (.dotPt 2 [0, 1] ptOne [pgOne, pgOne]) = .ok pool' ∧ AllOK env4z 2 1 pool' :=
  have hm : stepR env4z (DPool.cts pool3) (.dotPtZnx 2 [0, 1] ptOne) = .ok ([⟨⟨4, 8⟩, 3⟩, ⟨⟨4, 8⟩, 3⟩, ⟨⟨4, 4⟩, 3⟩] : Ckks.Pool) := by decide
  have hadm := call_admissible_numeric env4z_ok (by norm_num) (tskNum4 big) (atkNum4 big) (roomPt4 big) pool3_ok pool3_S pool3_inv
    (.dotPt 2 [0, 1] ptOne [pgOne, pgOne]) ⟨rfl, by intro pg hpg; simp at hpg; subst hpg; exact ⟨by decide, by decide⟩, by decide⟩ hm
  let ⟨p, h, _, hok, _⟩ := dot_pt_tracked (mk := ⟨big, zk43⟩) (ak := ⟨[], none⟩) env4z_ok (by norm_num) pool3_ok hadm.1 hadm.2.1 hm hadm.2.2.1 hadm.2.2.2 [[1, 1]]
  ⟨p, h, hok⟩

/-- **`ckks_dot_product_ct`, single pair and un-fused path** on tracked states, under the product contract of every pair -/
theorem dot_ct_unfused_tracked {env : Env} (he : EnvOK env) {N r : Nat} (hN : 0 < N) {mk : MulKey} {ak : AutKeys} {pool : DPool}
    (hp : AllOK env N r pool) {d : Nat} {as bs : List Nat} {mp : Ckks.Pool}
    (hm : stepR env (DPool.cts pool) (.dotCt d as bs) = .ok mp) (s : List Poly) {Uc : ℚ} (hUc : 0 ≤ Uc)
    (hun : ∀ xs ys, dgetAll pool d as = some xs → dgetAll pool d bs = some ys →
      xs.length = 1 ∨ dotUniform (xs.map DCt.ct) (ys.map DCt.ct) = false)
    (hadm : ∀ cd, pool[d]? = some cd → ∀ ab ∈ as.zip bs, ∀ ca cb, pool[ab.1]? = some ca → pool[ab.2]? = some cb →
      DotAdm env N r mk s Uc cd.g.size ca cb) :
    XGoal env N r mk ak s pool (.dotCt d as bs) mp (fun τ => specDotCt env N (sn r s) Uc (DPool.cts pool) mp τ d as bs) :=
  xstep_dotCt he hN hp hm s hUc hun hadm

example (big : Bool) : ∃ pool', xstep env4z 2 ⟨big, zk43⟩ ⟨[], none⟩ pool3 (.dotCt 2 [0] [1]) = .ok pool' ∧ AllOK env4z 2 1 pool' :=
  have hm : stepR env4z (DPool.cts pool3) (.dotCt 2 [0] [1]) = .ok ([⟨⟨4, 8⟩, 3⟩, ⟨⟨4, 8⟩, 3⟩, ⟨⟨4, 4⟩, 3⟩] : Ckks.Pool) := by decide
  have hadm := call_admissible_numeric env4z_ok (by norm_num) (tskNum4 big) (atkNum4 big) (roomPt4 big) pool3_ok pool3_S pool3_inv
    (.dotCt 2 [0] [1]) (fun cs ds h1 _ => Or.inl (by rw [getAll_length h1]; rfl)) hm
  let ⟨p, h, _, hok, _⟩ := dot_ct_unfused_tracked (ak := ⟨[], none⟩) env4z_ok (by norm_num) pool3_ok hm [[1, 1]] (UcOf_nonneg (by norm_num)) hadm.1 hadm.2
  ⟨p, h, hok⟩

/-- **`ckks_mul_many`** on tracked states: the balanced product tree (`mul_many_rec`) into scratch ciphertexts, under the product contract
on the triples it executes; the tracked result is `mmTrack`, computed along the metadata recursion (one product node per `ckks_mul_into`,
an aligned copy for a single input) -/
theorem mul_many_tracked {env : Env} (he : EnvOK env) {N r : Nat} {mk : MulKey} {ak : AutKeys} {pool : DPool}
    (hp : AllOK env N r pool) {d : Nat} {as : List Nat} {mp : Ckks.Pool}
    (hm : stepR env (DPool.cts pool) (.mulMany d as) = .ok mp) (s : List Poly) {Uc : ℚ} {S : Nat}
    (hall : MulAdmAll env N r mk s S (UcScaled env Uc))
    (hdS : ∀ cd, pool[d]? = some cd → cd.g.size ≤ S)
    (hasS : ∀ a ∈ as, ∀ ca, pool[a]? = some ca → ca.g.size ≤ S ∧ ca.md.effK ≤ S * env.base2k) :
    XGoal env N r mk ak s pool (.mulMany d as) mp (fun τ => specMulMany env N (sn r s) Uc (DPool.cts pool) τ d as) :=
  xstep_mulMany he hp hm s hall hdS hasS

example (big : Bool) : ∃ pool', xstep env4z 2 ⟨big, zk43⟩ ⟨[], none⟩ pool3 (.mulMany 2 [0, 1, 0]) = .ok pool' ∧ AllOK env4z 2 1 pool' :=
  have hm : stepR env4z (DPool.cts pool3) (.mulMany 2 [0, 1, 0]) = .ok ([⟨⟨4, 8⟩, 3⟩, ⟨⟨4, 8⟩, 3⟩, ⟨⟨4, 0⟩, 3⟩] : Ckks.Pool) := by decide
  have hadm := call_admissible_numeric env4z_ok (by norm_num) (tskNum4 big) (atkNum4 big) (roomPt4 big) pool3_ok pool3_S pool3_inv
    (.mulMany 2 [0, 1, 0]) trivial hm
  let ⟨S, h1, h2, h3⟩ := hadm
  let ⟨p, h, _, hok, _⟩ := mul_many_tracked (ak := ⟨[], none⟩) env4z_ok pool3_ok hm [[1, 1]] h1 h2 h3
  ⟨p, h, hok⟩

end Composites

/-! ## 13. `ckks_program_correct` -/

section Correct
open Core Core.Ops Ckks.Sem Ckks.CoreSem

/-- **no call of the fragment changes the number of limbs of a ciphertext** -/
theorem limbs_preserved {env : Env} {P P' : Ckks.Pool} (op : XOp) (h : stepR env P op.toOp = .ok P') : sizes P' = sizes P :=
  stepR_sizes op h

example : sizes ([⟨⟨4, 8⟩, 3⟩, ⟨⟨4, 8⟩, 3⟩, ⟨⟨4, 4⟩, 3⟩] : Ckks.Pool) = sizes (DPool.cts pool3) :=
  limbs_preserved (env := env4z) (.mul 2 0 1) (by decide)

/-- **every accepted ct × ct / ct × plaintext product is in the covered offset regime** (`cnv_offset_hi ≤ La + Lb − 1`) -/
theorem mul_offset_regime {env : Env} (hb : 1 ≤ env.base2k) {dst a b : Ct} {q : MulP} (h : mulCtParams env dst a b = .ok q)
    (ha : 1 ≤ a.md.effK) :
    (Core.cnvOffsetSplit env.base2k q.cnv).1 ≤ divCeil a.md.effK env.base2k + divCeil b.md.effK env.base2k - 1 :=
  mulCt_hhi hb h ha

example : (Core.cnvOffsetSplit 4 12).1 ≤ divCeil xA.md.effK 4 + divCeil xA.md.effK 4 - 1 :=
  mul_offset_regime (env := env4z) (by decide) (dst := xZ3.ct) (a := xA.ct) (b := xA.ct) (q := ⟨4, 4, 12⟩) (by decide) (by decide)

theorem mul_pt_offset_regime {env : Env} (hb : 1 ≤ env.base2k) {dst a : Ct} {pt : Pt} (hbk : env.base2k = pt.base2k) {q : MulP}
    (h : mulPtParams env dst a pt.md pt.maxK = .ok q) (ha : 1 ≤ a.md.effK) :
    (Core.cnvOffsetSplit env.base2k q.cnv).1 ≤ divCeil a.md.effK env.base2k + pt.size - 1 :=
  mulPt_hhi hb hbk h ha

example : ∀ q, mulPtParams env4z xZ3.ct xA.ct ptOne.md ptOne.maxK = .ok q →
    (Core.cnvOffsetSplit 4 q.cnv).1 ≤ divCeil xA.md.effK 4 + ptOne.size - 1 :=
  fun _ h => mul_pt_offset_regime (env := env4z) (by decide) rfl h (by decide)

/-- **numeric admissibility of the out-of-place automorphisms** (`dsize = 1`): from `AutKeyNum` and the covered regime of both the
operand and the destination -/
theorem aut_into_adm_numeric {env : Env} (he : EnvOK env) {N r : Nat} {big : Bool} {dst a : DCt} (hd : DOK env N r dst) (ha : DOK env N r a)
    {m : Ct} (hm : shiftInto env dst.ct a.ct 0 = .ok m) {key : Ks.Key} {s : List Poly} {gInv : Int} {EL KL : ℕ → ℕ → Poly} {Kb Emax : Int}
    (hk : AutKeyNum env N r big key s gInv EL KL Kb Emax)
    (hcA1 : a.g.size ≤ key.mat.size) (hcA2 : a.g.size ≤ key.mat.rows) (hcD1 : dst.g.size ≤ key.mat.size) (hcD2 : dst.g.size ≤ key.mat.rows) :
    AutIntoAdm env N big s
      ((((key.mat.colsIn * (key.mat.rows * (N * 2 ^ (env.base2k - 1) * Emax))) * 2 ^ (key.base2k * (dst.g.size - key.mat.size)) : Int) : ℚ)
        + ((1 + C02L.snorm (min r (s.map (AutoMul.σ gInv)).length) (s.map (AutoMul.σ gInv)) : Int) : ℚ)) key dst a :=
  autIntoAdm_numeric he hd ha hm hk hcA1 hcA2 hcD1 hcD2

/-- C03's closed key `exKeyG3` (Galois element 3, one row) as a numerically well-formed automorphism key -/
theorem exKeyG3_num (big : Bool) : AutKeyNum env4 2 1 big KsDec.exKeyG3 KsDec.exSk2 3 exEL' (fun _ _ => [0, 0]) 1 16 where
  hkb := rfl
  hd := rfl
  hg := KsDec.exG3_ok
  hsk := by intro p hp; simp [KsDec.exSk2] at hp; subst hp; rfl
  hinv := by intro s hs; simp [KsDec.exSk2] at hs; subst hs; decide
  hrin := by decide
  hrout := by decide
  hc0 := by decide
  hM := Ks.entry_length KsDec.exKeyG3.mat 2 rfl (by decide)
  hS := by decide
  hs := by decide
  hEL := by
    intro i r
    unfold exEL'
    split
    · exact Ks.keyErrL_length 2 4 _ KsDec.exKeyG3 _ i r (by decide) (Ks.entry_length KsDec.exKeyG3.mat 2 rfl (by decide)) (fun _ => rfl)
    · rfl
  hKL := fun _ _ => rfl
  hkey := by
    intro i hi r hr
    have hi0 : i = 0 := by have : i < 1 := hi; omega
    have hr0 : r = 0 := by have : r < 1 := hr; omega
    subst hi0; subst hr0
    have : exEL' 0 0 = KsDec.exELG3 0 0 := by unfold exEL'; rw [if_pos ⟨by omega, by omega⟩]
    rw [this]
    exact KsDec.exG3_key 0 (by decide) 0
  hK0 := by norm_num
  hK := by
    intro j q x hx
    have hz : ∀ c ∈ KsDec.exKeyG3.mat.data, ∀ col ∈ c, ∀ l ∈ col, ∀ y ∈ l, |y| ≤ (1 : Int) := by decide
    unfold Hal.PMat.entry Hal.limbOr0 at hx
    rcases KsNum.getD_cases (((KsDec.exKeyG3.mat.data.getD j []).getD (q % KsDec.exKeyG3.mat.colsOut) [])) (q / KsDec.exKeyG3.mat.colsOut)
      (Hal.zeroP KsDec.exKeyG3.mat.n) with h | h
    · rw [h] at hx; exact KsNum.zeroP_entries _ 1 (by norm_num) x hx
    · rcases KsNum.getD_cases (KsDec.exKeyG3.mat.data.getD j []) (q % KsDec.exKeyG3.mat.colsOut) [] with h2 | h2
      · rw [h2] at h; cases h
      · rcases KsNum.getD_cases KsDec.exKeyG3.mat.data j [] with h3 | h3
        · rw [h3] at h2; cases h2
        · exact hz _ h3 _ h2 _ h x hx
  hE0 := by norm_num
  hE := by
    intro i r
    unfold exEL'
    split
    · next h =>
      obtain ⟨h1, h2⟩ := h
      have hi0 : i = 0 := by omega
      have hr0 : r = 0 := by omega
      subst hi0; subst hr0
      decide
    · decide
  hroom := by cases big <;> (show ((1 * 1 : Nat) : Int) * (((2 : Nat) : Int) * 2 ^ (4 - 1) * 1) + (2 ^ (4 - 1) + 2 ^ 4) + 8 ≤ _; norm_num [KsDec.bitsOf])

example (big : Bool) : ∃ U, AutIntoAdm env4 2 big KsDec.exSk2 U KsDec.exKeyG3 xRot xRot :=
  ⟨_, aut_into_adm_numeric (env := env4) env4_ok xRot_ok xRot_ok (m := ⟨⟨2, 2⟩, 1⟩) (by decide) (exKeyG3_num big)
    (by decide) (by decide) (by decide) (by decide)⟩

/-- the parameter sets of the crate's CKKS test suite satisfy the numeric side conditions (decided) -/
theorem test_parameter_sets_room : ntt120F64.Room ∧ ntt120F128.Room ∧ fft64R19.Room ∧ fft64R17.Room :=
  ⟨ntt120F64_room, ntt120F128_room, fft64R19_room, fft64R17_room⟩

example : (2 : Int) ^ 52 * (4 * (13 : Int) * 256 * 2 ^ 52) + 8 ≤ 2 ^ (KsDec.bitsOf true - 2) := test_parameter_sets_room.2.1.2.2.2.1

/-- **`ckks_program_correct`.**  For a parameter set whose numeric side conditions hold (decided for `ntt120F64`, `ntt120F128`, `fft64R19`,
`fft64R17`: `test_parameter_sets_room`), ciphertexts of `S` limbs and well-formed evaluation keys, every program the metadata model accepts
runs on the data path to the metadata of the model, keeps every ciphertext well formed with balanced digits, and the decoded coefficients
stay within the explicit budget `xspecRun` (constants `UcOf` for the products, `Ua` for the automorphisms).

Remaining hypotheses: key well-formedness (`TskWF`, `AtkWF`: the C01/C03 statements about generated keys — shape, coverage, balanced
digits, key relation with `‖E‖∞ ≤ Emax`); the plaintext operands are well formed and have at most `S` limbs (`OpsOK`: the output of the
float → integer conversion of §11 and `encode`); the initial ciphertexts have balanced digits (`AllOK`), satisfy the metadata invariant of §1
(`Inv`) and are tracked (`TracksB`: what encryption of an encoded message provides); `ckks_dot_product_ct` is called with one pair or with sides that do not share one `log_delta`
each (its fused path is not covered); a conjugation is called with its key. -/
theorem ckks_program_correct (p : ParamSet) (hr : p.Room) {env : Env} (hb : env.base2k = p.b) {mk : MulKey} (hbig : mk.big = p.big)
    {ak : AutKeys} {s : List Poly} {Emax : Int} {Ua : ℚ} (hUa : 0 ≤ Ua)
    (ht : TskWF env p.N p.S p.D mk s Emax) (hk : AtkWF env p.N p.S p.D ak s Emax Ua)
    (ops : List XOp) {pool : DPool} (hp : AllOK env p.N 1 pool) (hS : ∀ c ∈ pool, c.g.size = p.S) (hI : Inv env (DPool.cts pool))
    (hops : OpsOK env p.N p.S ak (DPool.cts pool) ops) {mp : Ckks.Pool} (hm : run env (DPool.cts pool) (ops.map XOp.toOp) = .ok mp) :
    ∃ pool', xrun env p.N mk ak pool ops = .ok pool' ∧ DPool.cts pool' = mp ∧ AllOK env p.N 1 pool' ∧ (∀ c ∈ pool', c.g.size = p.S) ∧
      ∀ τ, TracksB s p.N pool τ →
        TracksB s p.N pool' (xspecRun env p.N ak (sn 1 s) (UcOf env p.N p.S mk s Emax) Ua (DPool.cts pool) τ ops) :=
  Ckks.ckks_program_correct p hr hb hbig hUa ht hk ops hp hS hI hops hm

/-- a product, a multiply-add, a single-pair dot product, a product tree of three inputs and a negation: accepted by the metadata model,
hence executed and tracked -/
def progC : List XOp := [.mul 2 0 1, .mulAdd false 2 0 1, .dotCt 2 [0] [1], .mulMany 2 [0, 1, 0], .lin (.negAssign 2)]

example (big : Bool) : ∃ pool', xrun env4z 2 ⟨big, zk43⟩ ⟨[], none⟩ pool3 progC = .ok pool' ∧ AllOK env4z 2 1 pool' ∧
    ∀ τ, TracksB [[1, 1]] 2 pool3 τ →
      TracksB [[1, 1]] 2 pool' (xspecRun env4z 2 ⟨[], none⟩ (sn 1 [[1, 1]]) (UcOf env4z 2 3 ⟨big, zk43⟩ [[1, 1]] 512) 0 (DPool.cts pool3) τ progC) :=
  let ⟨pool', h, _, hok, _, ht⟩ := ckks_program_correct (pset4 big) (pset4_room big) (env := env4z) rfl (mk := ⟨big, zk43⟩) rfl (ak := ⟨[], none⟩)
    (s := [[1, 1]]) (Emax := 512) (Ua := 0) (le_refl _) (zk43_wf big) noKeys_wf progC pool3_ok pool3_S pool3_inv
    ⟨trivial, fun _ _ => ⟨trivial, fun _ _ => ⟨fun cs ds h1 _ => Or.inl (by rw [getAll_length h1]; rfl),
      fun _ _ => ⟨trivial, fun _ _ => ⟨trivial, fun _ _ => trivial⟩⟩⟩⟩⟩
    (mp := ([⟨⟨4, 8⟩, 3⟩, ⟨⟨4, 8⟩, 3⟩, ⟨⟨4, 0⟩, 3⟩] : Ckks.Pool)) (by decide)
  ⟨pool', h, hok, ht⟩

end Correct

end C16
