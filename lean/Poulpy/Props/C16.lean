import Poulpy.Model.Ckks
namespace C16
open Ckks
theorem placeholder : (1 : Nat) = 1 := rfl
end C16
