import Poulpy.Model.Layout
import Poulpy.Lemmas.Bytes
import Poulpy.Lemmas.Kernels
/-!
# C17 — safe API calls never access memory outside the buffers they were given  (proof, partial)

What is proved: the *index arithmetic* of the layout types.  Every history built from the validating
constructors (`alloc`, `from_bytes`, scratch `take_*`) and the steps `set_size`, `reallocate_limbs`,
`read_from`, `to_ref`/`to_mut` keeps `Inv`; under `Inv` every `at(i,j)` / `raw()` byte range lies inside
the buffer and no offset computation exceeds `usize`; `MatZnx::at`, `cast`, and the SIMD loop pattern
likewise.  What is **not** proved: the ≈480 `unsafe` blocks / intrinsics are not modelled one by one
(validated by canaries / ASan in the correspondence run, see docs/C17.md).
-/
namespace C17
open Ser Layout

/-! ## constructors establish `Inv` -/

theorem pad64_ge (x : Nat) : x ≤ pad64 x := by unfold pad64; omega

theorem alloc_inv (n cols size w : Nat) : (alloc n cols size w).Inv := ⟨Nat.le_refl _, pad64_ge _⟩
example : (alloc 8 2 3 8).len = 384 ∧ (alloc 3 1 1 8).len = 64 := by decide

theorem fromBytes_inv (n cols size w len : Nat) (l : Lay) (h : fromBytes n cols size w len = .ok l) : l.Inv := by
  unfold fromBytes at h
  split at h
  · rename_i he; cases h; exact ⟨Nat.le_refl _, by simp [he]⟩
  · cases h
example : okVal (fromBytes 4 2 3 8 192) = some ⟨4, 2, 3, 3, 192, 8⟩ := by decide

theorem takeScratch_inv (n cols size w : Nat) : (takeScratch n cols size w).Inv := ⟨Nat.le_refl _, Nat.le_refl _⟩
example : (takeScratch 16 2 3 32).len = 3072 := by decide

/-- `from_data` is *not* validating: safe code can build a view that violates `Inv`
(this is why the admissible histories start from the three constructors above) -/
theorem fromData_not_validating : ¬ (∀ n cols size w len, (fromData n cols size w len).Inv) := by
  intro h; exact absurd (h 4 1 1 8 0) (by decide)

/-! ## every step preserves `Inv` -/

theorem readMeta_inv (l l' : Lay) (bs : Bytes) (hi : l.Inv) (hw : l.w = 8) (h : readMeta VecZnx.readFrom l bs = .ok l') : l'.Inv := by
  unfold readMeta at h
  have g := vec_read_good ⟨l.n, l.cols, l.size, l.maxSize, List.replicate l.len 0⟩ bs
  cases hr : VecZnx.readFrom ⟨l.n, l.cols, l.size, l.maxSize, List.replicate l.len 0⟩ bs with
  | ok a v rest =>
    rw [hr] at h g; simp only [Good] at g
    obtain ⟨⟨h1, h2⟩, _⟩ := vecOk_inv g
    cases h
    exact ⟨h1, by rw [hw]; exact h2⟩
  | err k v =>
    rw [hr] at h g; simp only [Good] at g
    cases h; subst g
    obtain ⟨h1, h2⟩ := hi
    exact ⟨h1, by simpa [hw] using (hw ▸ h2)⟩
  | panic c v => rw [hr] at g; exact g.elim

theorem step_inv (l l' : Lay) (s : Step) (hi : l.Inv) (hw : l.w = 8) (h : step l s = .ok l') : l'.Inv ∧ l'.w = 8 := by
  cases s with
  | setSize k =>
    simp only [step] at h
    split at h
    · rename_i hk; cases h; exact ⟨⟨hk, hi.2⟩, hw⟩
    · cases h
  | reallocateLimbs ns =>
    simp only [step] at h
    split at h
    · cases h; exact ⟨hi, hw⟩
    · cases h; exact ⟨alloc_inv _ _ _ _, hw⟩
  | readFrom bs =>
    simp only [step] at h
    refine ⟨readMeta_inv l l' bs hi hw h, ?_⟩
    unfold readMeta at h
    split at h <;> first | (cases h; exact hw) | cases h
  | view => simp only [step] at h; cases h; exact ⟨hi, hw⟩

/-- **invariant over all histories** (induction on the step list): from any state satisfying `Inv`
— in particular from `alloc`, `from_bytes`, `take_*` — every reachable state satisfies `Inv`;
the only other outcome is the documented `assert!` of `set_size`. -/
theorem history_inv (l : Lay) (steps : List Step) (hi : l.Inv) (hw : l.w = 8) (l' : Lay) (h : run l steps = .ok l') : l'.Inv := by
  induction steps generalizing l with
  | nil => simp only [run] at h; cases h; exact hi
  | cons s rest ih =>
    simp only [run] at h
    cases hs : step l s with
    | ok l1 =>
      rw [hs] at h
      obtain ⟨h1, h2⟩ := step_inv l l1 s hi hw hs
      exact ih l1 h1 h2 h
    | err k => rw [hs] at h; cases h
    | panic c => rw [hs] at h; cases h
example : okVal (run (alloc 4 2 3 8) [.setSize 1, .view, .reallocateLimbs 5, .setSize 4]) = some ⟨4, 2, 4, 5, 320, 8⟩ := by decide

/-- no history panics except through `set_size`'s own assertion: a history without `setSize` steps always
returns a state (`read_from` is total, C18) -/
theorem history_total (l : Lay) (steps : List Step) (hns : ∀ s ∈ steps, ∀ k, s ≠ .setSize k) : ∃ l', run l steps = .ok l' := by
  induction steps generalizing l with
  | nil => exact ⟨l, rfl⟩
  | cons s rest ih =>
    have hrest : ∀ s ∈ rest, ∀ k, s ≠ .setSize k := fun s hs => hns s (List.mem_cons_of_mem _ hs)
    cases s with
    | setSize k => exact absurd rfl (hns (.setSize k) List.mem_cons_self k)
    | reallocateLimbs ns =>
      by_cases he : l.size = ns
      · simp only [run, step, he, ↓reduceIte]; exact ih _ hrest
      · simp only [run, step, he, ↓reduceIte]; exact ih _ hrest
    | readFrom bs =>
      simp only [run, step]
      unfold readMeta
      have g := vec_read_good ⟨l.n, l.cols, l.size, l.maxSize, List.replicate l.len 0⟩ bs
      cases hr : VecZnx.readFrom ⟨l.n, l.cols, l.size, l.maxSize, List.replicate l.len 0⟩ bs with
      | ok a v rest' => exact ih _ hrest
      | err k v => exact ih _ hrest
      | panic c v => rw [hr] at g; exact g.elim
    | view => simp only [run, step]; exact ih _ hrest
example : ∀ s ∈ [Step.view, Step.reallocateLimbs 2], ∀ k, s ≠ Step.setSize k := by
  intro s hs k; simp at hs; rcases hs with rfl | rfl <;> simp

/-! ## `Inv` ⇒ every view is inside the buffer -/

/-- `at(i, j)` / `at_mut(i, j)`: the `n` scalars starting at scalar offset `n·(j·cols+i)` end inside the buffer -/
theorem at_in_bounds (l : Lay) (i j a b : Nat) (hi : l.Inv) (h : atRange l i j = .ok (a, b)) : a ≤ b ∧ b ≤ l.len := by
  unfold atRange at h
  split at h; · cases h
  split at h; · cases h
  split at h; · cases h
  rename_i h1 h2 _
  have hi' : i < l.cols := Decidable.of_not_not h1
  have hj' : j < l.size := Decidable.of_not_not h2
  cases h
  obtain ⟨hs, hb⟩ := hi
  refine ⟨Nat.le_add_right _ _, ?_⟩
  have e : l.n * (j * l.cols + i) * l.w + l.n * l.w = l.n * (j * l.cols + i + 1) * l.w := by
    rw [show l.n * (j * l.cols + i + 1) = l.n * (j * l.cols + i) + l.n from Nat.mul_succ _ _, Nat.add_mul]
  rw [e]
  have k1 : j * l.cols + i + 1 ≤ l.cols * l.maxSize := by
    have : (j + 1) * l.cols ≤ l.maxSize * l.cols := Nat.mul_le_mul_right _ (by omega)
    rw [Nat.add_mul, Nat.one_mul] at this
    rw [Nat.mul_comm l.cols l.maxSize]; omega
  calc l.n * (j * l.cols + i + 1) * l.w ≤ l.n * (l.cols * l.maxSize) * l.w :=
        Nat.mul_le_mul_right _ (Nat.mul_le_mul_left _ k1)
    _ = l.n * l.cols * l.maxSize * l.w := by rw [Nat.mul_assoc l.n l.cols l.maxSize]
    _ ≤ l.len := hb
example : okVal (atRange ⟨4, 2, 3, 3, 192, 8⟩ 1 2) = some (160, 192) := by decide

/-- consequently the `usize` arithmetic of `at_ptr` cannot wrap when the buffer length is a `usize` -/
theorem at_no_overflow (l : Lay) (i j a b : Nat) (hi : l.Inv) (hl : l.len < 2 ^ 64) (h : atRange l i j = .ok (a, b)) : b < 2 ^ 64 :=
  Nat.lt_of_le_of_lt (at_in_bounds l i j a b hi h).2 hl
example : Lay.Inv ⟨4, 2, 3, 3, 192, 8⟩ ∧ (192 : Nat) < 2 ^ 64 := by decide

/-- `raw()` / `raw_mut()` -/
theorem raw_in_bounds (l : Lay) (hi : l.Inv) : (rawRange l).2 ≤ l.len := by
  obtain ⟨hs, hb⟩ := hi
  simp only [rawRange]
  calc l.n * (l.cols * l.size) * l.w ≤ l.n * (l.cols * l.maxSize) * l.w :=
        Nat.mul_le_mul_right _ (Nat.mul_le_mul_left _ (Nat.mul_le_mul_left _ hs))
    _ = l.n * l.cols * l.maxSize * l.w := by rw [Nat.mul_assoc l.n l.cols l.maxSize]
    _ ≤ l.len := hb
example : (rawRange ⟨4, 2, 2, 3, 192, 8⟩).2 = 128 := by decide

/-- `MatZnx::at(row, col)`: under the matrix invariant the `data[start..end]` slice never panics -/
theorem mat_at_in_bounds (m : MatZnx) (row col : Nat) (hi : m.Inv) (hr : row < m.rows) (hc : col < m.colsIn) :
    ∃ a b, matAtRange m row col = .ok (a, b) ∧ b ≤ m.data.length := by
  unfold matAtRange
  simp only [hr, hc, not_true_eq_false, ↓reduceIte]
  have key : m.n * m.colsOut * m.size * 8 * m.colsIn * row + col * (m.n * m.colsOut * m.size * 8) + m.n * m.colsOut * m.size * 8
      ≤ m.data.length := by
    have e : m.n * m.colsOut * m.size * 8 * m.colsIn * row + col * (m.n * m.colsOut * m.size * 8) + m.n * m.colsOut * m.size * 8
        = (m.colsIn * row + col + 1) * (m.n * m.colsOut * m.size * 8) := by
      rw [Nat.add_mul, Nat.add_mul, Nat.one_mul, Nat.mul_assoc (m.n * m.colsOut * m.size * 8) m.colsIn row,
        Nat.mul_comm (m.n * m.colsOut * m.size * 8) (m.colsIn * row)]
    rw [e]
    have k1 : m.colsIn * row + col + 1 ≤ m.rows * m.colsIn := by
      have : (row + 1) * m.colsIn ≤ m.rows * m.colsIn := Nat.mul_le_mul_right _ (by omega)
      rw [Nat.add_mul, Nat.one_mul] at this
      rw [Nat.mul_comm m.colsIn row]; omega
    have e2 : m.rows * m.colsIn * m.n * m.colsOut * m.size * 8 = m.rows * m.colsIn * (m.n * m.colsOut * m.size * 8) := by
      simp only [Nat.mul_assoc]
    unfold MatZnx.Inv at hi
    rw [e2] at hi
    exact Nat.le_trans (Nat.mul_le_mul_right _ k1) hi
  have hn : ¬ (m.n * m.colsOut * m.size * 8 * m.colsIn * row + col * (m.n * m.colsOut * m.size * 8) + m.n * m.colsOut * m.size * 8
      > m.data.length) := by omega
  rw [if_neg hn]
  exact ⟨_, _, rfl, key⟩
example : okVal (matAtRange ⟨2, 1, 2, 2, 1, List.replicate 64 0⟩ 1 1) = some (48, 64) := by decide

/-! ## what the repair of `read_from` (0c7f5af) bought -/

/-- the reader before the repair does **not** preserve `Inv`: a stream announcing `max_size = 1000` is accepted
over a 1-limb (64-byte) buffer … -/
theorem readOld_breaks_inv_counterexample :
    ¬ (∀ (p : Profile) (l l' : Lay) (bs : Bytes), l.Inv → l.w = 8 → okVal (readMeta (VecZnx.readFromOld p) l bs) = some l' → l'.Inv) := by
  intro h
  have := h .release ⟨1, 1, 1, 1, 64, 8⟩ ⟨1, 1, 1, 1000, 64, 8⟩
    (leBytes 8 1 ++ leBytes 8 1 ++ leBytes 8 1 ++ leBytes 8 1000 ++ leBytes 8 8 ++ List.replicate 8 1)
    (by decide) rfl (by decide +kernel)
  revert this
  decide

/-- … after which `set_size(1000)` passes its assertion and `at(0, 999)` ends 7936 bytes past the buffer -/
theorem readOld_out_of_bounds_witness :
    okVal (step ⟨1, 1, 1, 1000, 64, 8⟩ (.setSize 1000)) = some ⟨1, 1, 1000, 1000, 64, 8⟩ ∧
    okVal (atRange ⟨1, 1, 1000, 1000, 64, 8⟩ 0 999) = some (7992, 8000) := by decide

/-- the same stream is refused by the current reader and the dimensions stay as they were -/
theorem readNew_refuses_witness :
    okVal (readMeta VecZnx.readFrom ⟨1, 1, 1, 1, 64, 8⟩
      (leBytes 8 1 ++ leBytes 8 1 ++ leBytes 8 1 ++ leBytes 8 1000 ++ leBytes 8 8 ++ List.replicate 8 1)) = some ⟨1, 1, 1, 1, 64, 8⟩ := by
  decide +kernel

/-! ## `cast` and the SIMD loop pattern -/

/-- `cast::<T,V>`: the `V` slice covers exactly the bytes of the `T` slice, starting at an aligned pointer -/
theorem cast_exact (byteLen sizeV ptr alignV k : Nat) (h : castLen byteLen sizeV ptr alignV = .ok k) :
    k * sizeV = byteLen ∧ ptr % alignV = 0 := by
  unfold castLen at h
  split at h; · cases h
  split at h; · cases h
  split at h; · cases h
  rename_i h1 h2 h3
  cases h
  exact ⟨Nat.div_mul_cancel (Nat.dvd_of_mod_eq_zero (Decidable.of_not_not h2)), Decidable.of_not_not h3⟩
example : okVal (castLen 192 8 4096 8) = some 24 := by decide

/-- the `span = n >> 2` main loop plus scalar tail touches indices `< n` only, for every `n`
(including `n` not a multiple of the SIMD width, `n < 4`, `n = 0`) -/
theorem simd_indices_in_range (n : Nat) : ∀ x ∈ simdIdx n, x < n := by
  intro x hx
  unfold simdIdx at hx
  simp only [Nat.shiftRight_eq_div_pow, Nat.shiftLeft_eq, List.mem_append, List.mem_flatMap, List.mem_range,
    List.mem_range'_1] at hx
  rcases hx with ⟨k, hk, hm⟩ | ⟨h1, h2⟩
  · simp only [List.mem_cons, List.not_mem_nil, or_false] at hm
    omega
  · omega

/-- … and every index `< n` is touched (nothing is skipped) -/
theorem simd_indices_cover (n : Nat) : ∀ x, x < n → x ∈ simdIdx n := by
  intro x hx
  unfold simdIdx
  simp only [Nat.shiftRight_eq_div_pow, Nat.shiftLeft_eq, List.mem_append, List.mem_flatMap, List.mem_range,
    List.mem_range'_1]
  by_cases h : x < n / 2 ^ 2 * 2 ^ 2
  · left
    refine ⟨x / 4, by omega, ?_⟩
    simp only [List.mem_cons, List.not_mem_nil, or_false]
    omega
  · right; omega
example : simdIdx 7 = [0, 1, 2, 3, 4, 5, 6] ∧ simdIdx 3 = [0, 1, 2] := by decide

/-! ## prepared / big layouts -/

/-- VecZnxBig / VecZnxDft / CnvPVecL / CnvPVecR of either back end: allocation establishes `Inv`, hence every
`at(i,j)` and `raw()` view is inside the buffer (`at_in_bounds`, `raw_in_bounds` hold for any scalar width) -/
theorem allocPrep_views_in_bounds (n cols size w i j a b : Nat) (h : atRange (allocPrep n cols size w) i j = .ok (a, b)) :
    b ≤ (allocPrep n cols size w).len ∧ (rawRange (allocPrep n cols size w)).2 ≤ (allocPrep n cols size w).len :=
  ⟨(at_in_bounds _ i j a b (alloc_inv _ _ _ _) h).2, raw_in_bounds _ (alloc_inv _ _ _ _)⟩
example : okVal (atRange (allocPrep 4 2 3 (wPrep .ntt120)) 1 2) = some (640, 768) ∧ (allocPrep 4 2 3 (wPrep .ntt120)).len = 768 := by decide

/-- SvpPPol (`size() = 1`) -/
theorem allocSvp_views_in_bounds (n cols w i a b : Nat) (h : atRange (allocSvp n cols w) i 0 = .ok (a, b)) :
    b ≤ (allocSvp n cols w).len :=
  (at_in_bounds _ i 0 a b (alloc_inv _ _ _ _) h).2
example : okVal (atRange (allocSvp 8 2 (wPrep .fft64)) 1 0) = some (64, 128) := by decide

/-- `into_big` after the compaction: the `VecZnxBig` view over the `VecZnxDft` buffer satisfies `Inv`
whenever `size_of::<ScalarBig>() ≤ size_of::<ScalarPrep>()` (both back ends) -/
theorem intoBig_inv (n cols size : Nat) (be : Be) : (intoBig (allocPrep n cols size (wPrep be)) be).Inv := by
  refine ⟨Nat.le_refl _, ?_⟩
  have h := (alloc_inv n cols size (wPrep be)).2
  have hw : wBig be ≤ wPrep be := by cases be <;> decide
  exact Nat.le_trans (Nat.mul_le_mul_left _ hw) h
example : (intoBig (allocPrep 4 2 3 (wPrep .ntt120)) .ntt120) = ⟨4, 2, 3, 3, 768, 16⟩ := by decide

/-- VmpPMat: every trait `at(i,j)` that returns lies inside the buffer — no hypothesis on the shape: the accessor's
third assertion (`offset + n ≤ n·poly_count()`) bounds the range by `raw()`'s, which the allocation covers -/
theorem vmp_at_in_bounds (n rows colsIn colsOut size w i j a b : Nat)
    (h : vmpAtRange (allocVmp n rows colsIn colsOut size w) i j = .ok (a, b)) : b ≤ (allocVmp n rows colsIn colsOut size w).len := by
  unfold vmpAtRange allocVmp at h
  simp only at h
  split at h; · cases h
  split at h; · cases h
  split at h; · cases h
  rename_i _ _ h3
  have hg : n * (j * colsIn + i) + n ≤ n * (rows * colsIn * size * colsOut) := Decidable.of_not_not h3
  cases h
  simp only [allocVmp]
  refine Nat.le_trans ?_ (pad64_ge _)
  have e : n * (j * colsIn + i) * w + n * w = (n * (j * colsIn + i) + n) * w := by rw [Nat.add_mul]
  rw [e]
  calc (n * (j * colsIn + i) + n) * w ≤ n * (rows * colsIn * size * colsOut) * w := Nat.mul_le_mul_right _ hg
    _ = n * rows * colsIn * colsOut * size * w := by
      simp only [Nat.mul_assoc, Nat.mul_comm size colsOut, Nat.mul_left_comm size colsOut]
example : okVal (vmpAtRange (allocVmp 4 2 2 3 2 32) 1 1) = some (384, 512) ∧ (allocVmp 4 2 2 3 2 32).len = 3072 := by decide

theorem vmp_raw_in_bounds (n rows colsIn colsOut size w : Nat) :
    (vmpRawRange (allocVmp n rows colsIn colsOut size w)).2 ≤ (allocVmp n rows colsIn colsOut size w).len := by
  simp only [vmpRawRange, allocVmp]
  refine Nat.le_trans (Nat.le_of_eq ?_) (pad64_ge _)
  simp only [Nat.mul_assoc, Nat.mul_comm size colsOut, Nat.mul_left_comm size colsOut]
example : (vmpRawRange (allocVmp 4 2 2 3 2 32)).2 = 3072 := by decide

/-- the degenerate shapes are rejected: on a matrix with zero rows or zero output columns (empty buffer) every
`at(i,j)` is the accessor's assertion failure, never a slice (repair 3faf6c4 of the finding recorded in round 2) -/
theorem vmp_at_degenerate_rejected (n rows colsIn colsOut size w i j : Nat) (hn : 0 < n) (hz : rows = 0 ∨ colsOut = 0) :
    okVal (vmpAtRange (allocVmp n rows colsIn colsOut size w) i j) = none := by
  unfold vmpAtRange allocVmp
  simp only
  split; · rfl
  split; · rfl
  split; · rfl
  rename_i _ _ h3
  have hg := Decidable.of_not_not h3
  have hzero : n * (rows * colsIn * size * colsOut) = 0 := by
    rcases hz with rfl | rfl <;> simp
  omega
example : okVal (vmpAtRange (allocVmp 4 0 1 1 1 8) 0 0) = none ∧ okVal (vmpAtRange (allocVmp 4 2 1 0 1 8) 0 0) = none := by decide

/-! ## NTT120 in-place compaction of `vec_znx_idft_apply_consume` -/

theorem mul_succ_le {n k k' : Nat} (h : k < k') : n * k + n ≤ n * k' := by
  have : n * (k + 1) ≤ n * k' := Nat.mul_le_mul_left _ h
  rwa [Nat.mul_succ] at this

/-- **no source word is overwritten before it is read**: the write of step `(k,c)` ends at or before the start of the
read of every later step `(k',c')` (later coefficient of the same block, or any coefficient of a later block) -/
theorem compact_no_clobber (n k c k' c' : Nat) (hc : c < n) (hlt : stepBefore k c k' c') :
    (compactWrite n k c).2 ≤ (compactRead n k' c').1 := by
  simp only [compactWrite, compactRead]
  rcases hlt with h | ⟨rfl, h⟩
  · have h1 := mul_succ_le (n := n) h
    have e1 : 2 * n * k = 2 * (n * k) := Nat.mul_assoc _ _ _
    have e2 : 4 * n * k' = 4 * (n * k') := Nat.mul_assoc _ _ _
    rw [e1, e2]; omega
  · have e1 : 2 * n * k = 2 * (n * k) := Nat.mul_assoc _ _ _
    have e2 : 4 * n * k = 4 * (n * k) := Nat.mul_assoc _ _ _
    rw [e1, e2]; omega
example : stepBefore 0 3 1 0 ∧ (compactWrite 4 0 3).2 = 8 ∧ (compactRead 4 1 0).1 = 16 := by
  refine ⟨Or.inl (by decide), by decide, by decide⟩

/-- the block-level form: the destination of block `k` ends before the source of block `k+1` starts
(`16n(k+1) ≤ 32n(k+1)` in bytes), and for `k ≥ 1` before its own source starts (`16n(k+1) ≤ 32nk`); block 0 is
read-before-write coefficient by coefficient (`compact_no_clobber` with `k' = k`) -/
theorem compact_block_order (n k : Nat) (hk : 1 ≤ k) : 2 * n * k + 2 * n ≤ 4 * n * k ∧ 2 * n * k + 2 * n ≤ (compactBlock n (k + 1)).1 := by
  simp only [compactBlock]
  have h1 : n ≤ n * k := Nat.le_mul_of_pos_right _ hk
  have e1 : 2 * n * k = 2 * (n * k) := Nat.mul_assoc _ _ _
  have e2 : 4 * n * k = 4 * (n * k) := Nat.mul_assoc _ _ _
  have e3 : 4 * n * (k + 1) = 4 * (n * k) + 4 * n := by rw [Nat.mul_succ, Nat.mul_assoc]
  rw [e1, e2, e3]; omega
example : (2 * 4 * 1 + 2 * 4 ≤ 4 * 4 * 1) := by decide

/-- the in-place `intt_ref` of block `k` (words `[4nk, 4nk+4n)`) does not touch any value already written
(destinations of blocks `< k` end at `2nk`) -/
theorem compact_intt_disjoint (n k k0 c : Nat) (hk : k0 < k) (hc : c < n) : (compactWrite n k0 c).2 ≤ (compactBlock n k).1 := by
  simp only [compactWrite, compactBlock]
  have h1 := mul_succ_le (n := n) hk
  have e1 : 2 * n * k0 = 2 * (n * k0) := Nat.mul_assoc _ _ _
  have e2 : 4 * n * k = 4 * (n * k) := Nat.mul_assoc _ _ _
  rw [e1, e2]; omega
example : (compactWrite 4 0 3).2 ≤ (compactBlock 4 1).1 := by decide

/-- every access of the compaction is inside the `VecZnxDft` buffer (`4·n·cols·size` words of 8 bytes) -/
theorem compact_in_bounds (n nBlocks k c : Nat) (hk : k < nBlocks) (hc : c < n) :
    (compactRead n k c).2 ≤ 4 * n * nBlocks ∧ (compactWrite n k c).2 ≤ 4 * n * nBlocks := by
  simp only [compactRead, compactWrite]
  have h1 := mul_succ_le (n := n) hk
  have e1 : 2 * n * k = 2 * (n * k) := Nat.mul_assoc _ _ _
  have e2 : 4 * n * k = 4 * (n * k) := Nat.mul_assoc _ _ _
  have e3 : 4 * n * nBlocks = 4 * (n * nBlocks) := Nat.mul_assoc _ _ _
  rw [e1, e2, e3]; omega
example : traceClobbers (compactTrace 4 3) = false ∧ (compactTrace 4 3).length = 24 := by decide

/-! ## raw-pointer kernels: footprints in bounds

`Kern.*` (Model/Kernels.lean) lists, for given arguments, every element range a kernel reads or writes — transcribed
from the AVX pointer arithmetic.  `InBounds len foot`: every range ends inside its buffer.  The hypotheses are the
kernel's entry assertions plus the layout invariant of the buffers the HAL wrapper passes (buffer lengths as
`n·cols·size`), including the size of the temporary the wrapper takes from scratch. -/

open Kern

/-- buffer lengths of a call: 0 = output, 1 = first input, 2 = second input, 3 = temporary -/
def lens4 (l0 l1 l2 l3 : Nat) : Nat → Nat
  | 0 => l0
  | 1 => l1
  | 2 => l2
  | _ => l3

theorem pmatOff_le (nrows ncols row col : Nat) (hr : row < nrows) (hc : col < ncols) :
    pmatOff nrows ncols row col + 8 ≤ nrows * ncols * 8 := by
  unfold pmatOff
  split
  · rename_i h
    obtain ⟨h1, _⟩ := h
    have e : col + 1 = ncols := by omega
    have k : col * nrows + (row + 1) ≤ ncols * nrows := by
      have := blk_fit (blk := col) (q := ncols) (Q := nrows) (x := row + 1) hc (by omega)
      exact this
    calc col * nrows * 8 + row * 8 + 8 = (col * nrows + (row + 1)) * 8 := by omega
      _ ≤ ncols * nrows * 8 := Nat.mul_le_mul_right _ k
      _ = nrows * ncols * 8 := by rw [Nat.mul_comm ncols nrows]
  · rename_i h
    have h2 : 2 * (col / 2 + 1) ≤ ncols := by
      by_cases hp : col % 2 = 1
      · omega
      · have : ¬ (col = ncols - 1 ∧ ncols % 2 = 1) := h
        by_cases he : col = ncols - 1
        · have : ncols % 2 ≠ 1 := fun hh => this ⟨he, hh⟩
          omega
        · omega
    have k1 : col / 2 * (nrows * 16) + (row * 16 + 16) ≤ (col / 2 + 1) * (nrows * 16) := by
      have := blk_fit (blk := col / 2) (q := col / 2 + 1) (Q := nrows * 16) (x := row * 16 + 16) (by omega) (by omega)
      exact this
    have k2 : (col / 2 + 1) * (nrows * 16) ≤ nrows * ncols * 8 := by
      calc (col / 2 + 1) * (nrows * 16) = (2 * (col / 2 + 1)) * (nrows * 8) := by
            rw [Nat.mul_comm 2 (col / 2 + 1), Nat.mul_assoc, show 2 * (nrows * 8) = nrows * 16 by omega]
        _ ≤ ncols * (nrows * 8) := Nat.mul_le_mul_right _ h2
        _ = nrows * ncols * 8 := by rw [← Nat.mul_assoc, Nat.mul_comm ncols nrows]
    have : col % 2 * 8 + 8 ≤ 16 := by omega
    omega

/-- **`vmp_prepare_core`** (FFT64, ref and AVX): under its entry assertions (`n = 2m ≥ 8` a power of two, i.e. `4 ∣ m`;
`mat.len() = pmat.len() = n·nrows·ncols`; `tmp.len() = n`) every read of `mat`, every access of `tmp` and every
4-lane store into the block-interleaved `pmat` is in bounds — including the odd last column -/
theorem vmp_prepare_in_bounds (m nrows ncols : Nat) (hm : m % 4 = 0) :
    InBounds (lens4 (2 * m * nrows * ncols) (2 * m * nrows * ncols) 0 (2 * m)) (vmpPrepare m nrows ncols) := by
  unfold vmpPrepare
  refine inb_flatMap (fun row hrow => inb_flatMap (fun col hcol => ?_))
  have hr : row < nrows := List.mem_range.mp hrow
  have hc : col < ncols := List.mem_range.mp hcol
  refine inb_append (inb_cons ?_ (inb_cons ?_ (inb_nil _))) (inb_flatMap (fun blk hblk => ?_))
  · simp only [rd, lens4]
    have k : row * ncols + (col + 1) ≤ nrows * ncols := blk_fit hr (by omega)
    calc 2 * m * (row * ncols + col) + 2 * m = 2 * m * (row * ncols + (col + 1)) := by rw [Nat.mul_add (2 * m) _ (col + 1), Nat.mul_add (2*m) _ col, Nat.mul_add (2*m) col 1]; omega
      _ ≤ 2 * m * (nrows * ncols) := Nat.mul_le_mul_left _ k
      _ = 2 * m * nrows * ncols := by rw [Nat.mul_assoc (2 * m) nrows ncols]
  · simp only [wt, lens4]; omega
  · have hb : blk < m / 4 := List.mem_range.mp hblk
    refine extract1blk_inb m 1 blk _ _ ?_ ?_
    · simp only [lens4]; omega
    · simp only [lens4]
      have k := blk_fit (blk := blk) (q := m / 4) (Q := nrows * ncols * 8) (x := pmatOff nrows ncols row col + 8) hb
        (pmatOff_le nrows ncols row col hr hc)
      have e : m / 4 * (nrows * ncols * 8) = 2 * m * nrows * ncols := by
        have hm4 : m = 4 * (m / 4) := by omega
        calc m / 4 * (nrows * ncols * 8) = (m / 4 * 8) * (nrows * ncols) := by
              rw [Nat.mul_comm (nrows * ncols) 8, ← Nat.mul_assoc]
          _ = 2 * m * (nrows * ncols) := by rw [show m / 4 * 8 = 2 * m by omega]
          _ = 2 * m * nrows * ncols := by rw [Nat.mul_assoc (2 * m) nrows ncols]
      omega
example : InBounds (lens4 (16 * 2 * 3) (16 * 2 * 3) 0 16) (vmpPrepare 8 2 3) ∧ (vmpPrepare 8 2 3).length = 60 := by decide

/-- **`vmp_apply_dft_to_dft_core`** (FFT64 ref and AVX; both `limb_offset` parities, odd last column, `res` shorter or
longer than the product, `a` shorter than the matrix).  Caller's contract: entry assertions (`4 ∣ m`, `pmat.len() =
n·nrows·ncols`, `res.len() = n·resSize`, `a.len() = n·aSize`) and the temporary taken by the HAL wrapper:
`tmp.len() ≥ 16 + 8·min(nrows, aSize)` (`vmp_apply_dft_to_dft_tmp_bytes`).  Then every access — the `2·row_max` 4-lane
gathers from `a`, the 16- and 8-wide loads of the interleaved matrix, the 16 doubles `mat2cols` stores, the stores into
`res` at `blk·4 + t·m` — is in bounds. -/
theorem vmp_apply_in_bounds (m resSize aSize nrows ncols lo tmpLen : Nat) (hm : m % 4 = 0)
    (htmp : 16 + 8 * min nrows aSize ≤ tmpLen) :
    InBounds (lens4 (2 * m * resSize) (2 * m * aSize) (2 * m * nrows * ncols) tmpLen) (vmpApply m resSize aSize nrows ncols lo) := by
  unfold vmpApply
  simp only []
  split
  · exact inb_cons (by simp only [wt, lens4]; omega) (inb_nil _)
  rename_i hlo
  have hlo' : lo < min ncols (resSize + lo) := by omega
  have hcm1 : min ncols (resSize + lo) ≤ ncols := Nat.min_le_left _ _
  have hcm2 : min ncols (resSize + lo) ≤ resSize + lo := Nat.min_le_right _ _
  have hrm1 : min nrows aSize ≤ nrows := Nat.min_le_left _ _
  have hrm2 : min nrows aSize ≤ aSize := Nat.min_le_right _ _
  have hres1 : 1 ≤ resSize := by omega
  generalize hC : min ncols (resSize + lo) = colMax at *
  generalize hR : min nrows aSize = rowMax at *
  refine inb_append (inb_flatMap (fun blk hblk => ?_)) (inb_cons ?_ (inb_nil _))
  · have hb : blk < m / 4 := List.mem_range.mp hblk
    have hsave2 : ∀ c, c ∈ pairCols lo colMax ∨ c ∈ pairCols (lo + 1) colMax →
        InBounds (lens4 (2 * m * resSize) (2 * m * aSize) (2 * m * nrows * ncols) tmpLen)
          (mat2cols rowMax (3, 0) (3, 16) (2, blk * (8 * nrows * ncols) + c * (8 * nrows)) ++ save2blk m blk (0, (c - lo) * (2 * m)) (3, 0)) := by
      intro c hc
      have hcc : lo ≤ c ∧ c + 2 ≤ colMax := by
        rcases hc with h | h
        · exact ⟨(mem_pairCols h).1, (mem_pairCols h).2.1⟩
        · exact ⟨by have := (mem_pairCols h).1; omega, (mem_pairCols h).2.1⟩
      refine inb_append (mat2cols_inb _ _ _ _ (by simp only [lens4]; omega) (by simp only [lens4]; omega) ?_)
        (save2blk_inb _ _ _ _ ?_ (by simp only [lens4]; omega))
      · simp only [lens4]
        have k1 := col_ext (c := c) (k := 2) (ncols := ncols) (nrows := nrows) (y := 16 * rowMax) (by omega) (by omega)
        have := pm_fit (m := m) (blk := blk) (nrows := nrows) (ncols := ncols) hm hb k1
        omega
      · simp only [lens4]
        have k1 := limb_fit (j := c - lo) (k := 2) (n := 2 * m) (S := resSize) (by omega)
        omega
    refine inb_append (inb_append ?_ ?_) ?_
    · refine extract1blk_inb' m rowMax blk _ _ ?_ (by simp only [lens4]; omega)
      by_cases h0 : rowMax = 0
      · exact Or.inl h0
      · right
        simp only [lens4]
        have k := rows_fit (rowMax := rowMax) (m := m) (aSize := aSize) (by omega) hrm2
        have e : 4 * (m / 4) = m := by omega
        rw [e]; omega
    · split
      · exact inb_flatMap (fun c hc => hsave2 c (Or.inl hc))
      · rename_i hodd
        refine inb_append (inb_append (mat2cols2nd_inb _ _ _ _ (by simp only [lens4]; omega) (by simp only [lens4]; omega) ?_)
          (save1blk_inb _ _ _ _ ?_ (by simp only [lens4]; omega))) (inb_flatMap (fun c hc => hsave2 c (Or.inr hc)))
        · simp only [lens4]
          have k1 := col_ext (c := lo - 1) (k := 2) (ncols := ncols) (nrows := nrows) (y := 16 * rowMax) (by omega) (by omega)
          have := pm_fit (m := m) (blk := blk) (nrows := nrows) (ncols := ncols) hm hb k1
          omega
        · simp only [lens4]
          have k1 := limb_fit (j := 0) (k := 1) (n := 2 * m) (S := resSize) (by omega)
          omega
    · refine inb_ite (fun hlast => ?_) (fun _ => inb_nil _)
      refine inb_append (inb_ite (fun he => ?_) (fun hne => ?_)) (save1blk_inb _ _ _ _ ?_ (by simp only [lens4]; omega))
      · refine mat1col_inb _ _ _ _ (by simp only [lens4]; omega) (by simp only [lens4]; omega) ?_
        simp only [lens4]
        have k1 := col_ext (c := colMax - 1) (k := 1) (ncols := ncols) (nrows := nrows) (y := 8 * rowMax) (by omega) (by omega)
        have := pm_fit (m := m) (blk := blk) (nrows := nrows) (ncols := ncols) hm hb k1
        omega
      · refine mat2cols_inb _ _ _ _ (by simp only [lens4]; omega) (by simp only [lens4]; omega) ?_
        simp only [lens4]
        have k1 := col_ext (c := colMax - 1) (k := 2) (ncols := ncols) (nrows := nrows) (y := 16 * rowMax) (by omega) (by omega)
        have := pm_fit (m := m) (blk := blk) (nrows := nrows) (ncols := ncols) hm hb k1
        omega
      · simp only [lens4]
        have k1 := limb_fit (j := colMax - 1 - lo) (k := 1) (n := 2 * m) (S := resSize) (by omega)
        omega
  · simp only [wt, lens4]
    have k1 := limb_fit (j := colMax - lo) (k := 0) (n := 2 * m) (S := resSize) (by omega)
    omega
example : InBounds (lens4 (16 * 3) (16 * 4) (16 * 4 * 5) (16 + 8 * 4)) (vmpApply 8 3 4 4 5 1) ∧
    InBounds (lens4 (16 * 3) (16 * 2) (16 * 4 * 5) (16 + 8 * 2)) (vmpApply 8 3 2 4 5 2) := by decide

/-- the temporary's size is necessary: with one `f64` less than `16 + 8·row_max` the AVX gather writes past it -/
theorem vmp_apply_tmp_too_small_counterexample :
    ¬ InBounds (lens4 (16 * 3) (16 * 4) (16 * 4 * 5) (16 + 8 * 4 - 1)) (vmpApply 8 3 4 4 5 0) := by decide

/-! ### FFT64 convolution -/

/-- **`convolution_prepare` / `convolution_prepare_self`**, one column `i < cols` of the prepared operand, stated for
an arbitrary number `copyRows` of limbs gathered out of the temporary.  Obligations of the HAL wrapper: the temporary is
a one-column `VecZnxDft` of `tmpSize` limbs (`take_vec_znx_dft(module, 1, tmpSize)`), and
**`copyRows ≤ tmpSize`** ("temporary size ≥ read set"), `copyRows ≤ resSize`, `min(resSize, aSize) ≤ tmpSize`.
The shipped code has `copyRows = tmpSize = min(res.size(), a.size())` (`cnv_prepare_in_bounds`). -/
theorem cnv_prepare_col_in_bounds (m cols resSize aSize tmpSize i copyRows : Nat) (hm : m % 4 = 0) (hi : i < cols)
    (hcopy : copyRows ≤ tmpSize) (hcr : copyRows ≤ resSize) (hmin : min resSize aSize ≤ tmpSize) :
    InBounds (lens4 (2 * m * cols * resSize) 0 0 (2 * m * tmpSize)) (cnvPrepareCol m resSize aSize tmpSize 1 i copyRows) := by
  unfold cnvPrepareCol
  simp only []
  have hmr : min resSize aSize ≤ resSize := Nat.min_le_left _ _
  generalize hM : min resSize aSize = minSize at *
  refine inb_append (inb_append (inb_map (fun j hj => ?_)) (inb_ite (fun h => inb_cons ?_ (inb_nil _)) (fun _ => inb_nil _)))
    (inb_flatMap (fun blk hblk => ?_))
  · have hj' : j < tmpSize := List.mem_range.mp hj
    simp only [wt, lens4, Nat.mul_one]
    have := at_fit (n := 2 * m) (j := j) (C := 1) (c := 0) (S := tmpSize) hj' (by omega)
    simp only [Nat.mul_one, Nat.add_zero] at this; exact this
  · simp only [wt, lens4, Nat.mul_one]
    have := at_fit (n := 2 * m) (j := minSize - 1) (C := 1) (c := 0) (S := tmpSize) (by omega) (by omega)
    simp only [Nat.mul_one, Nat.add_zero] at this; exact this
  · have hb : blk < m / 4 := List.mem_range.mp hblk
    have e8 : blk * resSize * 8 = blk * (resSize * 8) := Nat.mul_assoc _ _ _
    refine inb_append (extract1blk_inb' m copyRows blk _ _ ?_ ?_) (inb_cons ?_ (inb_nil _))
    · by_cases h0 : copyRows = 0
      · exact Or.inl h0
      · right
        simp only [lens4]
        have k := rows_fit (rowMax := copyRows) (m := m) (aSize := tmpSize) (by omega) hcopy
        have e : 4 * (m / 4) = m := by omega
        rw [e]; omega
    · simp only [lens4]
      have k := cnv_blk_fit (m := m) (col := i) (C := cols) (S := resSize) (blk := blk) (x := 8 * copyRows) hm hi hb (by omega)
      omega
    · simp only [wt, lens4]
      have k := cnv_blk_fit (m := m) (col := i) (C := cols) (S := resSize) (blk := blk) (x := resSize * 8) hm hi hb (Nat.le_refl _)
      have e9 : (blk + 1) * resSize * 8 = blk * (resSize * 8) + resSize * 8 := by
        rw [Nat.mul_assoc, Nat.add_mul, Nat.one_mul]
      omega
example : InBounds (lens4 (16 * 2 * 3) 0 0 (16 * 2)) (cnvPrepareCol 8 3 2 2 1 1 2) := by decide

/-- the shipped wrapper + kernel pair: `tmp` has `min(res.size(), a.size())` limbs and exactly that many are gathered -/
theorem cnv_prepare_in_bounds (m cols resSize aSize i : Nat) (hm : m % 4 = 0) (hi : i < cols) :
    InBounds (lens4 (2 * m * cols * resSize) 0 0 (2 * m * min resSize aSize))
      (cnvPrepareCol m resSize aSize (min resSize aSize) 1 i (min resSize aSize)) :=
  cnv_prepare_col_in_bounds m cols resSize aSize _ i _ hm hi (Nat.le_refl _) (Nat.min_le_left _ _) (Nat.le_refl _)
example : (0 : Nat) < 2 ∧ (8 : Nat) % 4 = 0 := by decide

/-- without "temporary size ≥ read set": gathering `res.size()` limbs out of a temporary of `min(res.size(), a.size())`
limbs (the seeded change) reads past the temporary — the obligation `copyRows ≤ tmpSize` is exactly what fails -/
theorem cnv_prepare_copy_res_size_counterexample :
    ¬ InBounds (lens4 (16 * 1 * 3) 0 0 (16 * min 3 1)) (cnvPrepareCol 8 3 1 (min 3 1) 1 0 3) := by decide

/-- **`convolution_apply_dft`** (and the `col_i = col_j` path of `convolution_pairwise_apply_dft`).  Contract: `4 ∣ m`;
`a_size, b_size ≥ 1` (asserted by `reim4_convolution`); `res_col < res.cols()` (asserted by `at_mut`);
`tmp.len() ≥ 8·min_size` (`convolution_apply_dft_tmp_bytes`); and `a_col < a.cols()`, `b_col < b.cols()` — asserted at entry since repair docs/fixes/24 (`cnvApplyChecked`;
before it `&a_raw[a_col·n·a_size..]` only panicked for `a_col > a.cols()`). -/
theorem cnv_apply_in_bounds (m resSize resCols resCol aSize aCols aCol bSize bCols bCol cnvOffset tmpLen : Nat) (hm : m % 4 = 0)
    (ha1 : 1 ≤ aSize) (hb1 : 1 ≤ bSize) (hrc : resCol < resCols) (hac : aCol < aCols) (hbc : bCol < bCols)
    (htmp : 8 * min resSize (aSize + bSize - 1) ≤ tmpLen) :
    InBounds (lens4 (2 * m * resCols * resSize) (2 * m * aCols * aSize) (2 * m * bCols * bSize) tmpLen)
      (cnvApply m resSize resCols resCol aSize aCol bSize bCol cnvOffset) := by
  unfold cnvApply
  simp only []
  have hmr : min resSize (aSize + bSize - 1) ≤ resSize := Nat.min_le_left _ _
  generalize hM : min resSize (aSize + bSize - 1) = minSize at *
  refine inb_append (inb_flatMap (fun blk hblk => ?_)) (inb_map (fun j hj => ?_))
  · have hb : blk < m / 4 := List.mem_range.mp hblk
    refine inb_append (conv_inb _ _ _ _ _ _ _ ha1 (by simp only [lens4]; omega) ?_ ?_) (inb_flatMap (fun k hk => ?_))
    · simp only [lens4]
      have := cnv_blk_fit (m := m) (col := aCol) (C := aCols) (S := aSize) (blk := blk) (x := 8 * aSize) hm hac hb (by omega)
      omega
    · simp only [lens4]
      have := cnv_blk_fit (m := m) (col := bCol) (C := bCols) (S := bSize) (blk := blk) (x := 8 * bSize) hm hbc hb (by omega)
      omega
    · have hk' : k < minSize := List.mem_range.mp hk
      refine save1blk_inb _ _ _ _ ?_ (by simp only [lens4]; omega)
      simp only [lens4]
      have := at_fit (n := 2 * m) (j := k) (C := resCols) (c := resCol) (S := resSize) (by omega) hrc
      omega
  · have hj' := List.mem_range'_1.mp hj
    simp only [wt, lens4]
    exact at_fit (by omega) hrc
example : InBounds (lens4 (16 * 2 * 3) (16 * 2 * 2) (16 * 1 * 3) (8 * 3)) (cnvApply 8 3 2 1 2 1 3 0 1) := by decide

/-- what repair docs/fixes/24 bought (`cnvApply` = the entry point without its new column assertions): `a_col = a.cols()` (one past the last column) passes every check of the
reference wrapper (`&a_raw[len..]` is an empty slice) and the AVX kernel then loads `8·a_size` doubles past the operand -/
theorem cnvApplyOld_a_col_out_of_bounds :
    ¬ InBounds (lens4 (16 * 1 * 1) (16 * 1 * 1) (16 * 1 * 1) 8) (cnvApply 8 1 1 0 1 1 1 0 0) := by decide

/-- **`convolution_by_const_apply`** with the AVX `i64_extract_1blk_contiguous_avx`, `i64_convolution_by_const_{1,2}coeff_avx`,
`i64_save_1blk_contiguous_avx`.  Contract: `8 ∣ n`, `a_size ≥ 1` (asserted), `tmp.len() ≥ 8·(min_size + a_size)`
(`convolution_by_const_apply_tmp_bytes`); and `a_col < a.cols()`, `res_col < res.cols()` — asserted at entry since repair docs/fixes/24 (`cnvByConstChecked`). -/
theorem cnv_by_const_in_bounds (n resSize resCols resCol aSize aCols aCol bSize cnvOffset tmpLen : Nat) (hn : n % 8 = 0)
    (ha1 : 1 ≤ aSize) (hrc : resCol < resCols) (hac : aCol < aCols)
    (htmp : 8 * (min resSize (aSize + bSize - 1) + aSize) ≤ tmpLen) :
    InBounds (lens4 (n * resCols * resSize) (n * aCols * aSize) bSize tmpLen)
      (cnvByConst n resSize resCols resCol aSize aCols aCol bSize cnvOffset) := by
  unfold cnvByConst
  simp only []
  have hmr : min resSize (aSize + bSize - 1) ≤ resSize := Nat.min_le_left _ _
  generalize hM : min resSize (aSize + bSize - 1) = minSize at *
  have hn4 : n % 4 = 0 := by omega
  refine inb_append (inb_flatMap (fun blk hblk => ?_)) (inb_map (fun j hj => ?_))
  · have hb : blk < n / 8 := List.mem_range.mp hblk
    refine inb_append (inb_append (i64extract_inb _ _ _ _ _ _ ?_ (by simp only [lens4]; omega))
      (convConst_inb _ _ _ _ _ _ _ ha1 (by simp only [lens4]; omega) (by simp only [lens4]; omega) (by simp only [lens4]; omega)))
      (i64save_inb _ _ _ _ _ _ ?_ (by simp only [lens4]; omega))
    · right
      simp only [lens4, stride4 hn4]
      have k := at_fit (n := n) (j := aSize - 1) (C := aCols) (c := aCol) (S := aSize) (by omega) hac
      have e : (aSize - 1) * (n * aCols) = n * ((aSize - 1) * aCols) := by
        rw [Nat.mul_comm (aSize - 1) (n * aCols), Nat.mul_assoc, Nat.mul_comm aCols]
      rw [Nat.mul_add] at k
      omega
    · by_cases h0 : minSize = 0
      · exact Or.inl h0
      · right
        simp only [lens4, stride4 hn4]
        have k := at_fit (n := n) (j := minSize - 1) (C := resCols) (c := resCol) (S := resSize) (by omega) hrc
        have e : (minSize - 1) * (n * resCols) = n * ((minSize - 1) * resCols) := by
          rw [Nat.mul_comm (minSize - 1) (n * resCols), Nat.mul_assoc, Nat.mul_comm resCols]
        rw [Nat.mul_add] at k
        omega
  · have hj' := List.mem_range'_1.mp hj
    simp only [wt, lens4]
    exact at_fit (by omega) hrc
example : InBounds (lens4 (8 * 2 * 2) (8 * 2 * 2) 3 (8 * (2 + 2))) (cnvByConst 8 2 2 1 2 2 0 3 1) := by decide

/-- before repair docs/fixes/24 (`cnvByConst` = the entry point without its new column assertions): `res_col = res.cols()` with `min_size = res_size` (no `zero_at` assertion is reached): the AVX save stores 8 `i64`
past the end of `res` — an out-of-bounds **write** -/
theorem cnvByConstOld_res_col_out_of_bounds :
    ¬ InBounds (lens4 (8 * 1 * 1) (8 * 1 * 1) 1 (8 * (1 + 1))) (cnvByConst 8 1 1 1 1 1 0 1 0) := by decide

/-- the shipped entry points (with the column assertions of repair docs/fixes/24): no column hypothesis is needed: whenever the
checked operations return a footprint, it is in bounds -/
theorem cnv_checked_in_bounds (m n resSize resCols resCol aSize aCols aCol bSize bCols bCol cnvOffset tmpLen tmpLen2 : Nat)
    (hm : m % 4 = 0) (hn : n % 8 = 0)
    (htmp : 8 * min resSize (aSize + bSize - 1) ≤ tmpLen) (htmp2 : 8 * (min resSize (aSize + bSize - 1) + aSize) ≤ tmpLen2) :
    (∀ foot, cnvApplyChecked m resSize resCols resCol aSize aCols aCol bSize bCols bCol cnvOffset = .ok foot →
      InBounds (lens4 (2 * m * resCols * resSize) (2 * m * aCols * aSize) (2 * m * bCols * bSize) tmpLen) foot) ∧
    (∀ foot, cnvByConstChecked n resSize resCols resCol aSize aCols aCol bSize cnvOffset = .ok foot →
      InBounds (lens4 (n * resCols * resSize) (n * aCols * aSize) bSize tmpLen2) foot) := by
  constructor
  · intro foot h
    unfold cnvApplyChecked at h
    split at h; · cases h
    split at h; · cases h
    rename_i h1 h2
    have h1' := Decidable.of_not_not h1
    have h2' := Decidable.of_not_not h2
    cases h
    exact cnv_apply_in_bounds m resSize resCols resCol aSize aCols aCol bSize bCols bCol cnvOffset tmpLen hm h2'.1 h2'.2 h1'.1 h1'.2.1 h1'.2.2 htmp
  · intro foot h
    unfold cnvByConstChecked at h
    split at h; · cases h
    split at h; · cases h
    rename_i h1 h2
    have h1' := Decidable.of_not_not h1
    have h2' := Decidable.of_not_not h2
    cases h
    exact cnv_by_const_in_bounds n resSize resCols resCol aSize aCols aCol bSize cnvOffset tmpLen2 hn h2' h1'.1 h1'.2 htmp2
example : okVal (cnvByConstChecked 8 1 1 1 1 1 0 1 0) = none ∧ (okVal (cnvByConstChecked 8 2 2 1 2 2 0 3 1)).isSome = true := by decide

/-- **`convolution_pairwise_apply_dft`** (`col_i ≠ col_j`): `tmp.len() = 8·(a_size + b_size + min_size)` is asserted at entry -/
theorem cnv_pairwise_in_bounds (m resSize resCols resCol aSize aCols bSize bCols colI colJ cnvOffset : Nat) (hm : m % 4 = 0)
    (ha1 : 1 ≤ aSize) (hrc : resCol < resCols) (hia : colI < aCols) (hja : colJ < aCols) (hib : colI < bCols) (hjb : colJ < bCols) :
    InBounds (lens4 (2 * m * resCols * resSize) (2 * m * aCols * aSize) (2 * m * bCols * bSize)
        (aSize * 8 + bSize * 8 + 8 * min resSize (aSize + bSize - 1)))
      (cnvPairwise m resSize resCols resCol aSize bSize colI colJ cnvOffset) := by
  unfold cnvPairwise
  simp only []
  have hmr : min resSize (aSize + bSize - 1) ≤ resSize := Nat.min_le_left _ _
  generalize hM : min resSize (aSize + bSize - 1) = minSize at *
  refine inb_append (inb_flatMap (fun blk hblk => ?_)) (inb_map (fun j hj => ?_))
  · have hb : blk < m / 4 := List.mem_range.mp hblk
    have fa := fun c (hc : c < aCols) => cnv_blk_fit (m := m) (col := c) (C := aCols) (S := aSize) (blk := blk) (x := aSize * 8) hm hc hb (Nat.le_refl _)
    have fb := fun c (hc : c < bCols) => cnv_blk_fit (m := m) (col := c) (C := bCols) (S := bSize) (blk := blk) (x := bSize * 8) hm hc hb (Nat.le_refl _)
    refine inb_append (inb_append ?_ (conv_inb _ _ _ _ _ _ _ ha1 (by simp only [lens4]; omega) (by simp only [lens4]; omega) (by simp only [lens4]; omega)))
      (inb_flatMap (fun k hk => ?_))
    · refine inb_cons ?_ (inb_cons ?_ (inb_cons ?_ (inb_cons ?_ (inb_cons ?_ (inb_cons ?_ (inb_nil _))))))
      · simp only [rd, lens4]; exact fa colI hia
      · simp only [rd, lens4]; exact fa colJ hja
      · simp only [wt, lens4]; omega
      · simp only [rd, lens4]; exact fb colI hib
      · simp only [rd, lens4]; exact fb colJ hjb
      · simp only [wt, lens4]; omega
    · have hk' : k < minSize := List.mem_range.mp hk
      refine save1blk_inb _ _ _ _ ?_ (by simp only [lens4]; omega)
      simp only [lens4]
      have := at_fit (n := 2 * m) (j := k) (C := resCols) (c := resCol) (S := resSize) (by omega) hrc
      omega
  · have hj' := List.mem_range'_1.mp hj
    simp only [wt, lens4]
    exact at_fit (by omega) hrc
example : InBounds (lens4 (16 * 1 * 3) (16 * 2 * 2) (16 * 2 * 2) (16 + 16 + 8 * 3)) (cnvPairwise 8 3 1 0 2 2 0 1 1) := by decide

/-- **element-wise limb loops** over `at(col, j)` slices (`vec_znx_dft_add_into`/`sub`/`copy`, `svp_apply_dft_to_dft`, …):
in bounds when the loop bound is at most both sizes, the columns are in range (asserted by `at`) **and the ring degrees
agree** — the AVX kernels walk `res_slice.len()` elements of every operand and check equal lengths only under
`#[cfg(debug_assertions)]` -/
theorem limb_loop_in_bounds (nR resCols resSize resCol aCols aSize aCol lo hi : Nat) (hrc : resCol < resCols) (hac : aCol < aCols)
    (hhr : hi ≤ resSize) (hha : hi ≤ aSize) :
    InBounds (lens4 (nR * resCols * resSize) (nR * aCols * aSize) 0 0) (limbLoop nR resCols resCol nR aCols aCol lo hi) := by
  unfold limbLoop
  refine inb_flatMap (fun j hj => ?_)
  have hj' := List.mem_range'_1.mp hj
  refine inb_cons ?_ (inb_cons ?_ (inb_nil _))
  · simp only [wt, lens4]; exact at_fit (by omega) hrc
  · simp only [rd, lens4]; exact at_fit (by omega) hac
example : InBounds (lens4 (8 * 2 * 3) (8 * 1 * 2) 0 0) (limbLoop 8 2 1 8 1 0 0 2) := by decide

/-- without equal ring degrees (an operand allocated for `n = 8` handed to an `n = 16` result; only a debug assertion
objects) the kernel reads 16 elements from an 8-element limb, past the operand's buffer on its last limb.
Not reachable in a build with debug assertions (the harness profile); reachable through the safe API without them. -/
theorem limb_loop_ring_degree_counterexample :
    ¬ InBounds (lens4 (16 * 1 * 1) (8 * 1 * 1) 0 0) (limbLoop 16 1 0 8 1 0 0 1) := by decide

/-! ### the `span = n >> 2` + tail loops of znx_avx and fft64/reim (add, sub, negate, mul, normalization steps, conversions) -/

theorem simdOperand_in_bounds (b : Nat) (wr : Bool) (n : Nat) (len : Nat → Nat) (h : n ≤ len b) : InBounds len (simdOperand b wr n) := by
  unfold simdOperand
  refine inb_append (inb_map (fun i hi => ?_)) (inb_ite (fun _ => inb_cons ?_ (inb_nil _)) (fun _ => inb_nil _))
  · have hi' : i < n >>> 2 := List.mem_range.mp hi
    rw [Nat.shiftRight_eq_div_pow] at hi'
    simp only []
    omega
  · simp only []; exact h

/-- **every element-wise AVX kernel, every `n`** (including `n < 4`, `n = 0`, `n` not a multiple of 4): the main loop and
the tail touch elements `< n` only, so every operand of at least `n` elements — which the (now unconditional) equal-length
assertions of the kernels guarantee — is accessed in bounds -/
theorem avx_elementwise_in_bounds (name : String) (ops : List (Nat × Bool)) (hk : (name, ops) ∈ avxElementwiseKernels) (n : Nat)
    (len : Nat → Nat) (hlen : ∀ b, b ≤ 2 → n ≤ len b) : InBounds len (simdKernel ops n) := by
  unfold simdKernel
  refine inb_flatMap (fun o ho => simdOperand_in_bounds o.1 o.2 n len (hlen o.1 ?_))
  have hall : ∀ k ∈ avxElementwiseKernels, ∀ o ∈ k.2, o.1 ≤ 2 := by decide
  exact hall (name, ops) hk o ho
example : ("znx_normalize_middle_step_avx", [(0, true), (0, false), (1, false), (2, true), (2, false)]) ∈ avxElementwiseKernels ∧
    avxElementwiseKernels.length = 34 ∧ simdOperand 0 true 3 = [⟨0, 0, 3, true⟩] ∧ simdOperand 1 false 6 = [⟨1, 0, 4, false⟩, ⟨1, 4, 6, false⟩] := by decide

/-- the main loop + tail also covers every element `< n` of every operand exactly where the reference kernel does -/
theorem simdOperand_covers (b : Nat) (wr : Bool) (n x : Nat) (hx : x < n) : ∃ a ∈ simdOperand b wr n, a.lo ≤ x ∧ x < a.hi := by
  unfold simdOperand
  by_cases h : x < (n >>> 2) <<< 2
  · refine ⟨⟨b, 4 * (x / 4), 4 * (x / 4) + 4, wr⟩, List.mem_append_left _ (List.mem_map.mpr ⟨x / 4, ?_, rfl⟩), by simp only []; omega, by simp only []; omega⟩
    rw [Nat.shiftRight_eq_div_pow, Nat.shiftLeft_eq] at h
    rw [List.mem_range, Nat.shiftRight_eq_div_pow]; omega
  · rw [Nat.shiftRight_eq_div_pow, Nat.shiftLeft_eq] at h
    have hn : n % 4 ≠ 0 := by omega
    refine ⟨⟨b, (n >>> 2) <<< 2, n, wr⟩, List.mem_append_right _ ?_, ?_, hx⟩
    · simp [hn]
    · simp only [Nat.shiftRight_eq_div_pow, Nat.shiftLeft_eq]; omega
example : (5 : Nat) < 7 := by decide

/-- `znx_automorphism_avx`: every gathered index is `< n` and every store is inside `res` (for any `inv`, any `n`
divisible by 4 — the kernel requires a power of two `≥ 4` and falls back to the reference below 4) -/
theorem automorphism_in_bounds (n inv : Nat) (hn : n % 4 = 0) (len : Nat → Nat) (h0 : n ≤ len 0) (h1 : n ≤ len 1) :
    InBounds len (automorphismFoot n inv) := by
  unfold automorphismFoot
  refine inb_flatMap (fun i hi => ?_)
  have hi' : i < n >>> 2 := List.mem_range.mp hi
  rw [Nat.shiftRight_eq_div_pow] at hi'
  refine inb_append (inb_map (fun l _ => ?_)) (inb_cons ?_ (inb_nil _))
  · simp only [rd]
    have hpos : 0 < n := by omega
    have := Nat.mod_lt ((4 * i + l) * inv % (2 * n)) hpos
    omega
  · simp only [wt]; omega
example : InBounds (fun _ => 8) (automorphismFoot 8 13) := by decide

/-- `znx_switch_ring_avx`, both directions: strided gathers / scatters stay inside the longer operand -/
theorem switch_ring_in_bounds (nIn nOut : Nat) (len : Nat → Nat) (h0 : nOut ≤ len 0) (h1 : nIn ≤ len 1) :
    (nOut % 4 = 0 → nOut ∣ nIn → 0 < nOut → nOut ≤ nIn → InBounds len (switchRingDown nIn nOut)) ∧
    (nIn % 4 = 0 → nIn ∣ nOut → 0 < nIn → nIn ≤ nOut → InBounds len (switchRingUp nIn nOut)) := by
  constructor
  · intro h4 hd hpos hle
    obtain ⟨g, rfl⟩ := hd
    unfold switchRingDown
    refine inb_flatMap (fun i hi => ?_)
    have hi' : i < nOut >>> 2 := List.mem_range.mp hi
    rw [Nat.shiftRight_eq_div_pow] at hi'
    refine inb_append (inb_map (fun l hl => ?_)) (inb_cons (by simp only [wt]; omega) (inb_nil _))
    have hl' : l < 4 := List.mem_range.mp hl
    simp only [rd]
    rw [Nat.mul_div_cancel_left _ hpos]
    have k : (4 * i + l) * g + g ≤ nOut * g := by
      have := Nat.mul_le_mul_right g (show 4 * i + l + 1 ≤ nOut by omega)
      rwa [Nat.add_mul, Nat.one_mul] at this
    by_cases hg : g = 0
    · subst hg; simp at hle; omega
    · have : 1 ≤ g := by omega
      omega
  · intro h4 hd hpos hle
    obtain ⟨g, rfl⟩ := hd
    unfold switchRingUp
    refine inb_flatMap (fun i hi => ?_)
    have hi' : i < nIn >>> 2 := List.mem_range.mp hi
    rw [Nat.shiftRight_eq_div_pow] at hi'
    refine inb_cons (by simp only [rd]; omega) (inb_map (fun l hl => ?_))
    have hl' : l < 4 := List.mem_range.mp hl
    simp only [wt]
    rw [Nat.mul_div_cancel_left _ hpos]
    have k : (4 * i + l) * g + g ≤ nIn * g := by
      have := Nat.mul_le_mul_right g (show 4 * i + l + 1 ≤ nIn by omega)
      rwa [Nat.add_mul, Nat.one_mul] at this
    by_cases hg : g = 0
    · subst hg; simp at hle; omega
    · have : 1 ≤ g := by omega
      omega
example : InBounds (fun b => if b = 0 then 4 else 16) (switchRingDown 16 4) ∧ InBounds (fun b => if b = 0 then 16 else 4) (switchRingUp 4 16) := by decide

/-! ### NTT120 vmp -/

theorem nttPmatOff_le (nrows ncols row col : Nat) (hr : row < nrows) (hc : col < ncols) :
    nttPmatOff nrows ncols row col + 16 ≤ nrows * ncols * 16 := by
  unfold nttPmatOff
  split
  · rename_i h
    have k : col * nrows + (row + 1) ≤ ncols * nrows := blk_fit hc (by omega)
    calc col * nrows * 16 + row * 16 + 16 = (col * nrows + (row + 1)) * 16 := by omega
      _ ≤ ncols * nrows * 16 := Nat.mul_le_mul_right _ k
      _ = nrows * ncols * 16 := by rw [Nat.mul_comm ncols nrows]
  · rename_i h
    have h2 : 2 * (col / 2 + 1) ≤ ncols := by
      by_cases hp : col % 2 = 1
      · omega
      · by_cases he : col = ncols - 1
        · have : ncols % 2 ≠ 1 := fun hh => h ⟨he, hh⟩
          omega
        · omega
    have k1 : col / 2 * (nrows * 32) + (row * 32 + 32) ≤ (col / 2 + 1) * (nrows * 32) :=
      blk_fit (blk := col / 2) (q := col / 2 + 1) (Q := nrows * 32) (x := row * 32 + 32) (by omega) (by omega)
    have k2 : (col / 2 + 1) * (nrows * 32) ≤ nrows * ncols * 16 := by
      calc (col / 2 + 1) * (nrows * 32) = (2 * (col / 2 + 1)) * (nrows * 16) := by
            rw [Nat.mul_comm 2 (col / 2 + 1), Nat.mul_assoc, show 2 * (nrows * 16) = nrows * 32 by omega]
        _ ≤ ncols * (nrows * 16) := Nat.mul_le_mul_right _ h2
        _ = nrows * ncols * 16 := by rw [← Nat.mul_assoc, Nat.mul_comm ncols nrows]
    have : col % 2 * 16 + 16 ≤ 32 := by omega
    omega

example : nttPmatOff 3 5 2 4 + 16 = 3 * 5 * 16 ∧ nttPmatOff 3 5 2 3 + 16 = 4 * 3 * 16 := by decide

/-- **`ntt120_vmp_prepare`** (`pmat` in u32: `8·n·nrows·ncols`; `mat` in i64: `n·nrows·ncols`) -/
theorem ntt_vmp_prepare_in_bounds (n nrows ncols : Nat) (hn : n % 2 = 0) :
    InBounds (lens4 (8 * n * nrows * ncols) (n * nrows * ncols) 0 0) (nttVmpPrepare n nrows ncols) := by
  unfold nttVmpPrepare
  refine inb_flatMap (fun row hrow => inb_flatMap (fun col hcol => ?_))
  have hr : row < nrows := List.mem_range.mp hrow
  have hc : col < ncols := List.mem_range.mp hcol
  refine inb_cons ?_ (inb_map (fun blk hblk => ?_))
  · simp only [rd, lens4]
    have k : row * ncols + (col + 1) ≤ nrows * ncols := blk_fit hr (by omega)
    calc n * (row * ncols + col) + n = n * (row * ncols + (col + 1)) := by rw [Nat.mul_add n _ (col + 1), Nat.mul_add n _ col, Nat.mul_add n col 1]; omega
      _ ≤ n * (nrows * ncols) := Nat.mul_le_mul_left _ k
      _ = n * nrows * ncols := by rw [Nat.mul_assoc n nrows ncols]
  · have hb : blk < n / 2 := List.mem_range.mp hblk
    simp only [wt, lens4]
    have := ntt_pm_fit (n := n) (blk := blk) (nrows := nrows) (ncols := ncols) hn hb (nttPmatOff_le nrows ncols row col hr hc)
    omega
example : InBounds (lens4 (8 * 4 * 2 * 3) (4 * 2 * 3) 0 0) (nttVmpPrepare 4 2 3) := by decide

/-- **NTT120 `vmp_apply_dft_to_dft_core`** (ref and AVX x2 kernels; both `limb_offset` parities, odd last column).
Contract: `2 ∣ n`, `res.len() = 4n·resSize`, `a.len() = 4n·aSize` (u64), `pmat.len() = 8n·nrows·ncols` (u32),
`tmp.len() ≥ 16 + 8·min(nrows, aSize)` u64 (`ntt120_vmp_apply_dft_to_dft_tmp_bytes`) -/
theorem ntt_vmp_apply_in_bounds (n resSize aSize nrows ncols lo tmpLen : Nat) (hn : n % 2 = 0)
    (htmp : 16 + 8 * min nrows aSize ≤ tmpLen) :
    InBounds (lens4 (4 * n * resSize) (4 * n * aSize) (8 * n * nrows * ncols) tmpLen) (nttVmpApply n resSize aSize nrows ncols lo) := by
  unfold nttVmpApply
  simp only []
  split
  · exact inb_cons (by simp only [wt, lens4]; omega) (inb_nil _)
  rename_i hlo
  have hcm1 : min ncols (resSize + lo) ≤ ncols := Nat.min_le_left _ _
  have hcm2 : min ncols (resSize + lo) ≤ resSize + lo := Nat.min_le_right _ _
  have hrm1 : min nrows aSize ≤ nrows := Nat.min_le_left _ _
  have hrm2 : min nrows aSize ≤ aSize := Nat.min_le_right _ _
  generalize hC : min ncols (resSize + lo) = colMax at *
  generalize hR : min nrows aSize = rowMax at *
  have hsave : ∀ blk, blk < n / 2 → ∀ j o, j < resSize → o + 8 ≤ 16 →
      InBounds (lens4 (4 * n * resSize) (4 * n * aSize) (8 * n * nrows * ncols) tmpLen) (nttSave blk (j * (4 * n)) o) := by
    intro blk hb j o hj ho
    unfold nttSave
    refine inb_cons (by simp only [rd, lens4]; omega) (inb_cons ?_ (inb_nil _))
    simp only [wt, lens4]
    have k := limb_fit (j := j) (k := 1) (n := 4 * n) (S := resSize) (by omega)
    omega
  have hm2 : ∀ blk, blk < n / 2 → ∀ c, c + 2 ≤ ncols →
      InBounds (lens4 (4 * n * resSize) (4 * n * aSize) (8 * n * nrows * ncols) tmpLen) (nttMat2cols rowMax (blk * (nrows * ncols * 16) + c * (nrows * 16))) := by
    intro blk hb c hc
    unfold nttMat2cols
    refine inb_append (inb_flatMap (fun i hi => ?_)) (inb_cons (by simp only [wt, lens4]; omega) (inb_nil _))
    have hi' : i < rowMax := List.mem_range.mp hi
    refine inb_cons (by simp only [rd, lens4]; omega) (inb_cons ?_ (inb_nil _))
    simp only [rd, lens4]
    have k1 := ntt_col_ext (c := c) (k := 2) (ncols := ncols) (nrows := nrows) (y := 32 * i + 32) hc (by omega)
    have := ntt_pm_fit (n := n) (blk := blk) (nrows := nrows) (ncols := ncols) hn hb k1
    omega
  refine inb_append (inb_flatMap (fun blk hblk => ?_)) (inb_map (fun col hcol => ?_))
  · have hb : blk < n / 2 := List.mem_range.mp hblk
    have hpair : ∀ c, c ∈ pairCols lo colMax ∨ c ∈ pairCols (lo + 1) colMax →
        InBounds (lens4 (4 * n * resSize) (4 * n * aSize) (8 * n * nrows * ncols) tmpLen)
          (nttMat2cols rowMax (blk * (nrows * ncols * 16) + c * (nrows * 16)) ++ nttSave blk ((c - lo) * (4 * n)) 0 ++ nttSave blk ((c - lo + 1) * (4 * n)) 8) := by
      intro c hc
      have hcc : lo ≤ c ∧ c + 2 ≤ colMax := by
        rcases hc with h | h
        · exact ⟨(mem_pairCols h).1, (mem_pairCols h).2.1⟩
        · exact ⟨by have := (mem_pairCols h).1; omega, (mem_pairCols h).2.1⟩
      exact inb_append (inb_append (hm2 blk hb c (by omega)) (hsave blk hb (c - lo) 0 (by omega) (by omega)))
        (hsave blk hb (c - lo + 1) 8 (by omega) (by omega))
    refine inb_append (inb_append ?_ ?_) ?_
    · unfold nttExtract
      refine inb_flatMap (fun r hr => ?_)
      have hr' : r < rowMax := List.mem_range.mp hr
      refine inb_cons ?_ (inb_cons (by simp only [wt, lens4]; omega) (inb_nil _))
      simp only [rd, lens4]
      have k := limb_fit (j := r) (k := 1) (n := 4 * n) (S := aSize) (by omega)
      have e : 4 * n * r = r * (4 * n) := Nat.mul_comm _ _
      omega
    · split
      · exact inb_flatMap (fun c hc => hpair c (Or.inl hc))
      · rename_i hodd
        refine inb_append (inb_append (hm2 blk hb (lo - 1) (by omega)) ?_) (inb_flatMap (fun c hc => hpair c (Or.inr hc)))
        have := hsave blk hb 0 8 (by omega) (by omega)
        simpa using this
    · refine inb_ite (fun hlast => ?_) (fun _ => inb_nil _)
      refine inb_append (inb_ite (fun he => ?_) (fun hne => hm2 blk hb (colMax - 1) (by omega))) (hsave blk hb (colMax - 1 - lo) 0 (by omega) (by omega))
      unfold nttMat1col
      refine inb_append (inb_flatMap (fun i hi => ?_)) (inb_cons (by simp only [wt, lens4]; omega) (inb_nil _))
      have hi' : i < rowMax := List.mem_range.mp hi
      refine inb_cons (by simp only [rd, lens4]; omega) (inb_cons ?_ (inb_nil _))
      simp only [rd, lens4]
      have k1 := ntt_col_ext (c := colMax - 1) (k := 1) (ncols := ncols) (nrows := nrows) (y := 16 * i + 16) (by omega) (by omega)
      have := ntt_pm_fit (n := n) (blk := blk) (nrows := nrows) (ncols := ncols) hn hb k1
      omega
  · have hc' := List.mem_range'_1.mp hcol
    simp only [wt, lens4]
    have k := limb_fit (j := col) (k := 1) (n := 4 * n) (S := resSize) (by omega)
    omega
example : InBounds (lens4 (16 * 3) (16 * 4) (32 * 4 * 5) (16 + 8 * 4)) (nttVmpApply 4 3 4 4 5 1) ∧
    InBounds (lens4 (16 * 3) (16 * 2) (32 * 4 * 5) (16 + 8 * 2)) (nttVmpApply 4 3 2 4 5 2) := by decide

/-! ### NTT120 `vec_znx_dft_apply`, `idft_apply`, `idft_apply_tmpa` -/

/-- **`ntt120_vec_znx_dft_apply`**: every limb written / read lies inside `res` / `a` PROVIDED the operand's ring degree
does not exceed the result's and the module's NTT table is not larger than a result limb (`tn ≤ nR`) — the second
condition is what `NttDFTExecute for NTT120Avx` did not check (docs/fixes/26) -/
theorem ntt_dft_apply_in_bounds (nR nA tn step offset resCols resCol resSize aCols aCol aSize : Nat)
    (hA : nA ≤ nR) (ht : tn ≤ nR) (hrc : resCol < resCols) (hac : aCol < aCols) :
    InBounds (lens4 (4 * nR * resCols * resSize) (nA * aCols * aSize) 0 0)
      (nttDftApply nR nA tn step offset resCols resCol resSize aCols aCol aSize) := by
  unfold nttDftApply
  simp only []
  have hm : min resSize ((aSize + step - 1) / step) ≤ resSize := Nat.min_le_left _ _
  generalize min resSize ((aSize + step - 1) / step) = ms at *
  refine inb_append (inb_flatMap (fun j hj => ?_)) (inb_map (fun j hj => ?_))
  · have hj' : j < ms := List.mem_range.mp hj
    have kr := atw_fit (w := 4 * nR) (j := j) (C := resCols) (c := resCol) (S := resSize) (x := 4 * nR) (by omega) hrc (Nat.le_refl _)
    split
    · rename_i hl
      have ka := at_fit (n := nA) (j := offset + j * step) (C := aCols) (c := aCol) (S := aSize) hl hac
      refine inb_cons ?_ (inb_cons ?_ (inb_cons ?_ (inb_nil _))) <;> simp only [rd, wt, lens4] <;> omega
    · exact inb_cons (by simp only [wt, lens4]; omega) (inb_nil _)
  · have hj' := List.mem_range'_1.mp hj
    have kr := atw_fit (w := 4 * nR) (j := j) (C := resCols) (c := resCol) (S := resSize) (x := 4 * nR) (by omega) hrc (Nat.le_refl _)
    simp only [wt, lens4]; omega
example : InBounds (lens4 (4 * 8 * 2 * 3) (8 * 2 * 5) 0 0) (nttDftApply 8 8 8 2 1 2 1 3 2 0 5) ∧
    (nttDftApply 8 8 8 2 1 2 1 3 2 0 5).length = 7 := by decide

/-- the call that docs/fixes/26 repairs: module of ring degree 16 (`tn = 16`), result and operand of ring degree 8 —
the forward NTT writes 64 u64 into a 32-u64 result (replay `mism be=ntt120avx op=dft nm=16 nr=8 na=8 cols=1 size=1`) -/
theorem ntt_dft_apply_table_larger_counterexample :
    ¬ InBounds (lens4 (4 * 8 * 1 * 1) (8 * 1 * 1) 0 0) (nttDftApply 8 8 16 1 0 1 0 1 1 0 1) := by decide

/-- **`ntt120_vec_znx_idft_apply`** with the temporary of `ntt120_vec_znx_idft_apply_tmp_bytes(n)` bytes taken from scratch
(`4n` u64), and **`…_tmpa`** (in place on `a`) -/
theorem ntt_idft_apply_in_bounds (n tn resCols resCol resSize aCols aCol aSize : Nat) (ht : tn ≤ n)
    (hrc : resCol < resCols) (hac : aCol < aCols) :
    InBounds (lens4 (n * resCols * resSize) (4 * n * aCols * aSize) 0 (nttIdftTmpBytes n / 8))
      (nttIdftApply n tn resCols resCol resSize aCols aCol aSize) ∧
    InBounds (lens4 (n * resCols * resSize) (4 * n * aCols * aSize) 0 0)
      (nttIdftApplyTmpA n tn resCols resCol resSize aCols aCol aSize) := by
  have htb : nttIdftTmpBytes n / 8 = 4 * n := by unfold nttIdftTmpBytes; omega
  have h1 : min resSize aSize ≤ resSize := Nat.min_le_left _ _
  have h2 : min resSize aSize ≤ aSize := Nat.min_le_right _ _
  rw [htb]
  unfold nttIdftApply nttIdftApplyTmpA
  generalize min resSize aSize = ms at *
  refine ⟨inb_append (inb_flatMap (fun j hj => ?_)) (inb_map (fun j hj => ?_)),
          inb_append (inb_flatMap (fun j hj => ?_)) (inb_map (fun j hj => ?_))⟩
  · have hj' : j < ms := List.mem_range.mp hj
    have kr := at_fit (n := n) (j := j) (C := resCols) (c := resCol) (S := resSize) (by omega) hrc
    have ka := atw_fit (w := 4 * n) (j := j) (C := aCols) (c := aCol) (S := aSize) (x := 4 * n) (by omega) hac (Nat.le_refl _)
    refine inb_cons ?_ (inb_cons ?_ (inb_cons ?_ (inb_cons ?_ (inb_cons ?_ (inb_nil _))))) <;> simp only [rd, wt, lens4] <;> omega
  · have hj' := List.mem_range'_1.mp hj
    have kr := at_fit (n := n) (j := j) (C := resCols) (c := resCol) (S := resSize) (by omega) hrc
    simp only [wt, lens4]; omega
  · have hj' : j < ms := List.mem_range.mp hj
    have kr := at_fit (n := n) (j := j) (C := resCols) (c := resCol) (S := resSize) (by omega) hrc
    have ka := atw_fit (w := 4 * n) (j := j) (C := aCols) (c := aCol) (S := aSize) (x := 4 * n) (by omega) hac (Nat.le_refl _)
    refine inb_cons ?_ (inb_cons ?_ (inb_cons ?_ (inb_nil _))) <;> simp only [rd, wt, lens4] <;> omega
  · have hj' := List.mem_range'_1.mp hj
    have kr := at_fit (n := n) (j := j) (C := resCols) (c := resCol) (S := resSize) (by omega) hrc
    simp only [wt, lens4]; omega
example : InBounds (lens4 (8 * 2 * 3) (32 * 2 * 2) 0 (nttIdftTmpBytes 8 / 8)) (nttIdftApply 8 8 2 1 3 2 0 2) ∧
    (nttIdftApply 8 8 2 1 3 2 0 2).length = 11 ∧ nttIdftTmpBytes 8 / 8 = 32 := by decide

/-! ### NTT120 convolution with the x2 packs -/

/-- **`ntt120_cnv_apply_dft`** (`ca = [a_col]`, `cb = [b_col]`) and **`ntt120_cnv_pairwise_apply_dft`**
(`ca = cb = [col_i, col_j]`): `pack_left` / `pack_right` / the pairwise packs read whole 8-u64 (16-u32) blocks inside the
operands for every row incl. the reversed walk of `pack_right`, fill exactly `a_tmp` / `b_tmp`, and every window the bbc
kernel is handed (`ell` rows from `a_start` / `b_start`) lies inside them — given `2 ∣ n`, valid columns and the temporary
of `ntt120_cnv_apply_dft_tmp_bytes` = `16·(a_size + b_size)` u32 -/
theorem ntt_cnv_apply_in_bounds (n resSize resCols resCol aSize aCols bSize bCols cnvOffset tmpLen : Nat) (ca cb : List Nat)
    (hn : n % 2 = 0) (hrc : resCol < resCols) (hca : ∀ c ∈ ca, c < aCols) (hcb : ∀ c ∈ cb, c < bCols)
    (htmp : 16 * (aSize + bSize) ≤ tmpLen) :
    InBounds (lens4 (4 * n * resCols * resSize) (4 * n * aCols * aSize) (8 * n * bCols * bSize) tmpLen)
      (nttCnvApply n resSize resCols resCol aSize aCols bSize bCols cnvOffset ca cb) := by
  unfold nttCnvApply
  split
  · refine inb_map (fun j hj => ?_)
    have hj' : j < resSize := List.mem_range.mp hj
    have kr := atw_fit (w := 4 * n) (j := j) (C := resCols) (c := resCol) (S := resSize) (x := 4 * n) hj' hrc (Nat.le_refl _)
    simp only [wt, lens4]; omega
  rename_i hz
  simp only []
  refine inb_append (inb_flatMap (fun blk hblk => ?_)) (inb_map (fun j hj => ?_))
  · have hb : blk < n / 2 := List.mem_range.mp hblk
    refine inb_append (inb_append (inb_flatMap (fun c hc => ?_)) (inb_flatMap (fun c hc => ?_))) (inb_flatMap (fun k hk => ?_))
    · unfold nttPackLeft
      refine inb_flatMap (fun row hrow => ?_)
      have hr : row < aSize := List.mem_range.mp hrow
      have := rowcol_fit (w := 4 * n) (c := c) (C := aCols) (row := row) (S := aSize) (x := 8 * blk + 8) (hca c hc) hr (by omega)
      exact inb_cons (by simp only [rd, lens4]; omega) (inb_cons (by simp only [wt, lens4]; omega) (inb_nil _))
    · unfold nttPackRight
      refine inb_flatMap (fun row hrow => ?_)
      have hr : row < bSize := List.mem_range.mp hrow
      have := rowcol_fit (w := 8 * n) (c := c) (C := bCols) (row := bSize - 1 - row) (S := bSize) (x := 16 * blk + 16) (hcb c hc) (by omega) (by omega)
      exact inb_cons (by simp only [rd, lens4]; omega) (inb_cons (by simp only [wt, lens4]; omega) (inb_nil _))
    · have hk' := List.mem_range.mp hk
      have kr := atw_fit (w := 4 * n) (j := k) (C := resCols) (c := resCol) (S := resSize) (x := 8 * blk + 8) (by omega) hrc (by omega)
      unfold nttBbcWin
      refine inb_append (inb_flatMap (fun i hi => ?_)) (inb_cons (by simp only [wt, lens4]; omega) (inb_nil _))
      have hi' := List.mem_range.mp hi
      exact inb_cons (by simp only [rd, lens4]; omega) (inb_cons (by simp only [rd, lens4]; omega) (inb_nil _))
  · have hj' := List.mem_range'_1.mp hj
    have kr := atw_fit (w := 4 * n) (j := j) (C := resCols) (c := resCol) (S := resSize) (x := 4 * n) (by omega) hrc (Nat.le_refl _)
    simp only [wt, lens4]; omega
example : InBounds (lens4 (16 * 2 * 4) (16 * 2 * 3) (32 * 2 * 2) (16 * 5)) (nttCnvApply 4 4 2 1 3 2 2 2 1 [0] [1]) ∧
    InBounds (lens4 (16 * 2 * 4) (16 * 2 * 3) (32 * 2 * 2) (16 * 5)) (nttCnvApply 4 4 2 1 3 2 2 2 0 [0, 1] [0, 1]) ∧
    (nttCnvApply 4 4 2 1 3 2 2 2 0 [0, 1] [0, 1]).length = 72 := by decide

/-! ### the bbc product kernels, the i128 kernels, the 256-bit vectors -/

/-- **bbc product kernels on their own slices**: in bounds iff the caller's slices hold `ell` rows and the output —
the `# Safety` contract of `vec_mat1col_product_bbc_avx2`, `…_x2_bbc_avx2`, `vec_mat2cols_product_x2_bbc_avx2`, which the
safe trait methods `ntt_mul_bbc`, `ntt_mul_bbc_1col_x2`, `ntt_mul_bbc_2cols_x2` of NTT120Avx did not check (docs/fixes/31) -/
theorem bbc_kernel_in_bounds (wx wy wr ell : Nat) (len : Nat → Nat) (hx : wx * ell ≤ len 1) (hy : wy * ell ≤ len 2) (hr : wr ≤ len 0) :
    InBounds len (bbcKernel wx wy wr ell) := by
  unfold bbcKernel
  refine inb_append (inb_flatMap (fun i hi => ?_)) (inb_cons (by simp only [wt]; omega) (inb_nil _))
  have hi' : i < ell := List.mem_range.mp hi
  have kx : wx * i + wx ≤ wx * ell := by
    have := Nat.mul_le_mul_left wx (show i + 1 ≤ ell by omega); rwa [Nat.mul_add, Nat.mul_one] at this
  have ky : wy * i + wy ≤ wy * ell := by
    have := Nat.mul_le_mul_left wy (show i + 1 ≤ ell by omega); rwa [Nat.mul_add, Nat.mul_one] at this
  exact inb_cons (by simp only [rd]; omega) (inb_cons (by simp only [rd]; omega) (inb_nil _))
example : InBounds (fun b => if b = 0 then 16 else if b = 1 then 48 else 96) (bbcKernel 16 32 16 3) := by decide

/-- a 4-u64 result handed to the x2 kernel (8 u64 stored), or `ell` larger than the rows supplied: out of bounds
(replays `prim op=bbc1x2 ell=1 res=4 x=16 y=16` → `res=broken:0`, `prim op=bbc1x2 ell=4 res=8 x=16 y=16` → ASan READ) -/
theorem bbc_kernel_unchecked_counterexample :
    ¬ InBounds (fun b => if b = 0 then 4 else 16) (bbcKernel 16 16 8 1) ∧
    ¬ InBounds (fun b => if b = 0 then 8 else 16) (bbcKernel 16 16 8 4) := by decide

/-- **every NTT120 `VecZnxBig` i128 AVX kernel, every `n`**: the `chunks = n / 4` loop and the checked tail touch elements
`< n` of every operand (i128 or i64) -/
theorem ntt_i128_elementwise_in_bounds (name : String) (ops : List (Nat × Bool)) (hk : (name, ops) ∈ avxI128Kernels) (n : Nat)
    (len : Nat → Nat) (hlen : ∀ b, b ≤ 2 → n ≤ len b) : InBounds len (simdKernel ops n) := by
  unfold simdKernel
  refine inb_flatMap (fun o ho => simdOperand_in_bounds o.1 o.2 n len (hlen o.1 ?_))
  have hall : ∀ k ∈ avxI128Kernels, ∀ o ∈ k.2, o.1 ≤ 2 := by decide
  exact hall (name, ops) hk o ho
example : ("nfc_middle_step_into_avx2", [(0, true), (0, false), (1, false), (2, true), (2, false)]) ∈ avxI128Kernels ∧
    avxI128Kernels.length = 20 := by decide

/-- **no 256-bit lane beyond the logical end**: the vectors of main-loop iteration `i < n / 4` on an operand of 8- or
16-byte elements cover, in bytes, exactly the elements `4i … 4i+3` of that operand — whole elements of this iteration,
below `n` (the q120b / q120c kernels handle one coefficient = one whole vector per load) -/
theorem vec256_within_chunk (es n i : Nat) (hes : es = 8 ∨ es = 16) (hi : i < n / 4) :
    (∀ r ∈ vec256 es i, es * (4 * i) ≤ r.1 ∧ r.2 ≤ es * (4 * i + 4) ∧ r.2 ≤ es * n) ∧
    (∀ x, es * (4 * i) ≤ x → x < es * (4 * i + 4) → ∃ r ∈ vec256 es i, r.1 ≤ x ∧ x < r.2) := by
  constructor
  · intro r hr
    unfold vec256 at hr
    obtain ⟨t, ht, rfl⟩ := List.mem_map.mp hr
    have ht' := List.mem_range.mp ht
    rcases hes with rfl | rfl <;> simp only [] <;> omega
  · intro x h1 h2
    rcases hes with rfl | rfl
    · exact ⟨(32 * (8 / 8 * i + 0), 32 * (8 / 8 * i + 0) + 32), List.mem_map.mpr ⟨0, by simp, rfl⟩, by simp only []; omega, by simp only []; omega⟩
    · by_cases hx : x < 16 * (4 * i) + 32
      · exact ⟨(32 * (16 / 8 * i + 0), 32 * (16 / 8 * i + 0) + 32), List.mem_map.mpr ⟨0, by simp, rfl⟩, by simp only []; omega, by simp only []; omega⟩
      · exact ⟨(32 * (16 / 8 * i + 1), 32 * (16 / 8 * i + 1) + 32), List.mem_map.mpr ⟨1, by simp, rfl⟩, by simp only []; omega, by simp only []; omega⟩
example : vec256 16 3 = [(192, 224), (224, 256)] ∧ vec256 8 3 = [(96, 128)] := by decide

end C17
