import Poulpy.Lemmas.ScratchCore4
import Poulpy.Lemmas.ScratchProg
/-
C12 — "Declared scratch size always suffices and scratch contents never matter."

All statements are about `Scratch.take` / `Scratch.run` / the `tree…` and `tb…` definitions of
Model/Scratch.lean and Model/ScratchOps.lean, which are the definitions the driver executes.

Shape of the per-operation theorems:  `Admissible shape → tb_op shape ≤ a.available → run (tree_op shape) a` succeeds,
for every window `a` (any address, any length).  `Admissible` is `n % 8 = 0` (every power-of-two ring
degree ≥ 8) unless stated.  Where the real `*_tmp_bytes` is too small the full statement is kept in
a comment, the proved theorem is `…_partial` and the witness is `…_counterexample`.
The "contents never matter" half is not expressible on a scratch-free model; it is checked on the
implementation by ./check (two fills), see docs/C12.md.
-/

namespace C12
open Scratch

/-! ## the arena -/

/-- `take_slice_aligned` succeeds iff the aligned remainder is at least the requested length. -/
theorem arena_take_ok (a : Arena) (b : Nat) : (take a b).isSome = true ↔ b ≤ a.available := by
  rw [take_eq]; split <;> simp_all

example : (take ⟨4104, 200⟩ 128).isSome = true ∧ (take ⟨4104, 183⟩ 128).isSome = false := by decide

/-- Layout of a successful non-empty take: the slice is 64-aligned, lies inside the window, the
remainder starts right after it, lies inside the window and ends where the window ends; slice and
remainder are disjoint. -/
theorem arena_take_layout (a : Arena) (b : Nat) (p : Nat) (r : Arena) (hb : 0 < b) (h : take a b = some (p, r)) :
    p % 64 = 0 ∧ a.addr ≤ p ∧ p + b ≤ a.addr + a.len ∧ r.addr = p + b ∧ r.addr + r.len = a.addr + a.len := by
  rw [take_eq] at h
  split at h
  · rename_i hle
    simp only [Option.some.injEq, Prod.mk.injEq] at h
    obtain ⟨rfl, rfl⟩ := h
    have := alignOff_aligned a.addr
    simp only [Arena.available] at hle
    refine ⟨this, ?_, ?_, ?_, ?_⟩ <;> (try simp only [Arena.available]) <;> omega
  · cases h

example : take ⟨4104, 200⟩ 128 = some (4160, ⟨4288, 16⟩) := by decide

/- FULL STATEMENT (not proved): the same layout without `0 < b`.
   False: a zero-length take on a window shorter than its alignment offset hands out an address
   beyond the window (`ptr.add(aligned_offset)` with `aligned_offset > len`). -/
theorem arena_take_layout_counterexample :
    ¬ (∀ (a : Arena) (b p : Nat) (r : Arena), take a b = some (p, r) → p + b ≤ a.addr + a.len) := by
  intro h
  have := h ⟨4097, 3⟩ 0 4160 ⟨4160, 0⟩ (by decide)
  exact absurd this (by decide)

/-- windows handed out by the `split_mut` loop: all aligned, of the requested length, in increasing
order without overlap, inside the original window, and the remainder comes after the last one. -/
theorem split_mut_windows (len : Nat) (hl : 0 < len) :
    ∀ (n : Nat) (a : Arena) (evs : List Ev) (ws : List Arena) (r : Arena),
      splitLoop n len a = some (evs, ws, r) →
      ws.length = n ∧ (∀ w ∈ ws, w.addr % 64 = 0 ∧ w.len = len ∧ a.addr ≤ w.addr ∧ w.addr + w.len ≤ r.addr) ∧
      ws.Pairwise (fun w1 w2 => w1.addr + w1.len ≤ w2.addr) ∧ a.addr ≤ r.addr ∧
      (n = 0 ∨ r.addr + r.len = a.addr + a.len) := by
  intro n
  induction n with
  | zero =>
    intro a evs ws r h
    simp only [splitLoop, Option.some.injEq, Prod.mk.injEq] at h
    obtain ⟨_, rfl, rfl⟩ := h
    simp
  | succ n ih =>
    intro a evs ws r h
    simp only [splitLoop] at h
    cases ht : take a len with
    | none => simp [ht] at h
    | some v =>
      obtain ⟨p, r1⟩ := v
      simp only [ht] at h
      cases hs : splitLoop n len r1 with
      | none => simp [hs] at h
      | some v2 =>
        obtain ⟨evs2, ws2, r2⟩ := v2
        simp only [hs, Option.some.injEq, Prod.mk.injEq] at h
        obtain ⟨_, rfl, rfl⟩ := h
        obtain ⟨hp, hap, hin, hr1, hend⟩ := arena_take_layout a len p r1 hl ht
        obtain ⟨hlen, hw, hpw, har, hre⟩ := ih r1 evs2 ws2 r2 hs
        refine ⟨by simp [hlen], ?_, ?_, by omega, ?_⟩
        · intro w hwm
          simp only [List.mem_cons] at hwm
          rcases hwm with rfl | hwm
          · exact ⟨hp, rfl, hap, by simp only; omega⟩
          · obtain ⟨h1, h2, h3, h4⟩ := hw w hwm
            exact ⟨h1, h2, by omega, h4⟩
        · rw [List.pairwise_cons]
          refine ⟨?_, hpw⟩
          intro w hwm
          obtain ⟨_, _, h3, _⟩ := hw w hwm
          simp only; omega
        · right
          rcases hre with rfl | hre
          · simp only [splitLoop, Option.some.injEq, Prod.mk.injEq] at hs
            obtain ⟨_, _, rfl⟩ := hs
            omega
          · omega

example : (splitLoop 3 128 ⟨4104, 56 + 3 * 128⟩).map (fun x => x.2.1) =
    some [⟨4160, 128⟩, ⟨4288, 128⟩, ⟨4416, 128⟩] := by decide

/-- `split_mut(n, len)` succeeds whenever its own size check
`available() ≥ (n-1)·len.next_multiple_of(64) + len` holds — for every `len`, aligned or not. -/
theorem split_mut_ok (n len : Nat) (a : Arena) (h : parNeed n len ≤ a.available) :
    (run (.par n len .done .done) a).isOk = true := by
  apply run_ok _ (by simp [fits, req]) a
  have := parNeed_eq_parReq len n
  simp only [req]
  omega

example : (run (.par 2 320144 .done .done) ⟨4104, 56 + parNeed 2 320144⟩).isOk = true := by decide
example : parNeed 2 320144 = 2 * 320144 + 48 := by decide

/-- with a per-window length that is a multiple of 64, `n · len` bytes are enough (what the
`threads × per_thread` callers allocate) -/
theorem split_mut_ok_aligned (n len : Nat) (hl : len % 64 = 0) (a : Arena) (h : n * len ≤ a.available) :
    (run (.par n len .done .done) a).isOk = true :=
  split_mut_ok n len a (by rw [parNeed_of_aligned hl]; exact h)

example : (run (.par 4 320 .done .done) ⟨4104, 56 + 4 * 320⟩).isOk = true := by decide

/-- why the size check has to count the padding: `n · len` available bytes are not enough when `len` is
not a multiple of 64 (this was the check before the repair; 2 × 16 bytes in 32) -/
theorem split_mut_product_insufficient :
    ¬ (∀ (n len : Nat) (a : Arena), n * len ≤ a.available → (splitLoop n len a).isSome = true) := by
  intro h
  have := h 2 16 ⟨4096, 32⟩ (by decide)
  revert this; decide

/-! ## allocation trees in general -/

/-- **Exact requirement.** `run` succeeds iff `available() ≥ req`. -/
theorem exact_requirement (t : AllocTree) (hf : fits t = true) (a : Arena) :
    (run t a).isOk = true ↔ req t ≤ a.available := run_ok_iff t hf a

example : (run (.take 32 (.take 384 .done)) ⟨4096, 416⟩).isOk = false ∧
          (run (.take 32 (.take 384 .done)) ⟨4096, 448⟩).isOk = true := by decide

/-- If every take that is followed by further scratch use is a multiple of 64 bytes, the plain
`lvl_0 + lvl_1 + …` / `max` arithmetic of the `*_tmp_bytes` functions is enough. -/
theorem aligned_sum_suffices (t : AllocTree) (hf : fits t = true) (hal : aligned t = true) (a : Arena)
    (h : reqA t ≤ a.available) : (run t a).isOk = true := run_ok_of_aligned t hf hal a h

example : aligned (.take 64 (.take 384 .done)) = true ∧ reqA (.take 64 (.take 384 .done)) = 448 := by decide

/-- The padded requirement never exceeds the unpadded one by more than the padding, and is never below it. -/
theorem req_ge_unpadded (t : AllocTree) : reqA t ≤ req t := reqA_le_req t

example : reqA (.take 32 (.take 384 .done)) = 416 ∧ req (.take 32 (.take 384 .done)) = 448 := by decide

/-- Success is monotone in the window length. -/
theorem window_monotone (t : AllocTree) (hf : fits t = true) (a : Arena) (len' : Nat) (hl : a.len ≤ len')
    (h : (run t a).isOk = true) : (run t ⟨a.addr, len'⟩).isOk = true := run_mono t hf a len' hl h

example : (run (.take 64 (.take 384 .done)) ⟨4100, 60 + 448⟩).isOk = true := by decide

/-- "The maximum over a set of operations serves all of them": a window whose `available()` is at
least the maximum of the requirements runs each operation of the set. -/
theorem max_serves_all (ts : List AllocTree) (hf : ∀ t ∈ ts, fits t = true) (a : Arena)
    (h : (ts.map req).foldr max 0 ≤ a.available) : ∀ t ∈ ts, (run t a).isOk = true := by
  induction ts with
  | nil => intro t ht; cases ht
  | cons u us ih =>
    intro t ht
    simp only [List.map_cons, List.foldr_cons] at h
    simp only [List.mem_cons] at ht
    rcases ht with rfl | ht
    · exact run_ok _ (hf _ (List.mem_cons_self)) a (by omega)
    · exact ih (fun x hx => hf x (List.mem_cons_of_mem _ hx)) (by omega) t ht

example : ∀ t ∈ [leaf 192, .take 64 (leaf 128)], (run t ⟨4096, 192⟩).isOk = true := by decide

/-- A requirement computed for a larger shape serves the smaller one (trees compared through `req`). -/
theorem larger_query_serves (t t' : AllocTree) (hf : fits t = true) (hle : req t ≤ req t') (a : Arena)
    (h : req t' ≤ a.available) : (run t a).isOk = true := run_ok t hf a (Nat.le_trans hle h)

example : req (treeVmp 2 4 1) ≤ req (treeVmp 3 4 1) := by decide

/-! ## HAL operations -/

/-- Every HAL default that takes exactly its own `tmp_bytes` once (normalize, lsh, rsh,
rotate/automorphism/mul_xp_minus_one `_assign`, split_ring, merge_rings, big_normalize,
big_automorphism_assign, idft_apply, vmp_prepare, vmp_apply_dft_to_dft, the convolution family)
succeeds in a window of exactly that many bytes, at any misalignment, for every `n`. -/
theorem hal_leaf_ok (bytes : Nat) (a : Arena) (h : bytes ≤ a.available) : (run (leaf bytes) a).isOk = true := by
  apply run_ok _ (by simp) a
  simpa [leaf, req] using h

example : (run (treeNormalize 4) ⟨4100, 60 + normTmp 4⟩).isOk = true := by decide
example : (run (treeVmp 3 2 2) ⟨4096, vmpTmp 3 2 2⟩).isOk = true := by decide

/-- `vmp_apply_dft_to_dft` is called with the *current* size of its input; a query made with a larger
size covers it (used by the `dsize > 1` loops). -/
theorem vmp_query_monotone {s s' : Nat} (rows cols : Nat) (h : s ≤ s') (a : Arena)
    (ha : vmpTmp s' rows cols ≤ a.available) : (run (treeVmp s rows cols) a).isOk = true :=
  hal_leaf_ok _ a (Nat.le_trans (vmpTmp_mono rows cols h) ha)

example : (run (treeVmp 1 4 2) ⟨4096, vmpTmp 3 4 2⟩).isOk = true := by decide

/-- `vmp_apply_dft` (take a `VecZnxDft`, then `vmp_apply_dft_to_dft`) -/
theorem vmp_apply_dft_ok (be : BE) (n aSize rows colsIn : Nat) (hn : n % 8 = 0) (a : Arena)
    (h : vmpApplyDftTmp be n aSize rows colsIn ≤ a.available) :
    (run (treeVmpApplyDft be n aSize rows colsIn) a).isOk = true := by
  have hD := dft_mod64 be hn colsIn (min aSize rows)
  apply run_ok_of_aligned
  · simp [treeVmpApplyDft, treeVmp, fits]
  · simp [treeVmpApplyDft, treeVmp, aligned, hD]
  · refine Nat.le_trans ?_ h
    simp [treeVmpApplyDft, treeVmp, vmpApplyDftTmp, reqA]

example : (run (treeVmpApplyDft .ntt120 8 3 2 2) ⟨4120, 40 + vmpApplyDftTmp .ntt120 8 3 2 2⟩).isOk = true := by decide

/- FULL STATEMENT (not proved): the same for every `n`.  False for `n = 1` on NTT120 (a 32-byte
   `VecZnxDft` followed by an aligned take). -/
theorem vmp_apply_dft_counterexample :
    ¬ (∀ (be : BE) (n aSize rows colsIn : Nat) (a : Arena), vmpApplyDftTmp be n aSize rows colsIn ≤ a.available →
        (run (treeVmpApplyDft be n aSize rows colsIn) a).isOk = true) := by
  intro h
  have := h .ntt120 1 1 1 1 ⟨4096, vmpApplyDftTmp .ntt120 1 1 1 1⟩ (by decide)
  revert this; decide

/-! ## core operations -/

section core
variable (be : BE) (n : Nat)

/-- `lwe_encrypt_sk`: every ring degree and every size (the plaintext term of the formula is rounded up
to the alignment, so the `8·size`-byte take may be followed by the aligned normalisation buffer) -/
theorem lwe_encrypt_sk_ok (size : Nat) (a : Arena) (h : tbLwe n size ≤ a.available) :
    (run (treeLweEncryptSk n size) a).isOk = true := by
  apply run_ok _ (by simp [treeLweEncryptSk, treeNormalize, fits]) a
  refine Nat.le_trans ?_ h
  have h0 : req (treeNormalize n) = normTmp n := by simp [treeNormalize, leaf, req]
  simp only [treeLweEncryptSk, req, h0, tbLwe, roundUp]
  split <;> omega

example : (run (treeLweEncryptSk 16 4) ⟨4104, 56 + tbLwe 16 4⟩).isOk = true := by decide
example : tbLwe 16 4 = 448 := by decide

/-- `lwe_decrypt` -/
theorem lwe_decrypt_ok (size : Nat) (a : Arena) (h : tbLwe n size ≤ a.available) :
    (run (treeLweDecrypt n size) a).isOk = true := lwe_encrypt_sk_ok n size a h

example : (run (treeLweDecrypt 8 6) ⟨4096, tbLwe 8 6⟩).isOk = true := by decide

/-- what the repair bought: with the former formula `8·size + 24·n` (no rounding) the exact window fails
for every `n ≥ 8` and every size that is not a multiple of 8 -/
theorem lwe_unrounded_formula_insufficient (size : Nat) (hn : n % 8 = 0) (hn0 : 0 < n) (hs : size % 8 ≠ 0) (a : Arena)
    (h : a.available = vecBytes 1 1 size + normTmp n) :
    (run (.take (vecBytes 1 1 size) (treeNormalize n)) a).isOk = false := by
  apply run_fails _ (by simp [treeNormalize, fits])
  rw [h]
  simp only [treeNormalize, leaf, req, normTmp, vecBytes, pad, alignOff]
  repeat' split
  all_goals omega

example : (run (.take (vecBytes 1 1 4) (treeNormalize 16)) ⟨4096, 416⟩).isOk = false := by decide

/-- `glwe_encrypt_sk`, all ranks and sizes, both families -/
theorem glwe_encrypt_sk_ok (g : G) (hn : n % 8 = 0) (a : Arena)
    (h : tbGlweEncryptSk be n g.size ≤ a.available) : (run (treeGlweEncryptSk be n g) a).isOk = true := by
  have hV := vec_mod64 hn 1 g.size
  have hD := dft_mod64 be hn 1 g.size
  have hN := norm_mod64 hn
  have hB := bignorm_mod64 be hn
  apply run_ok_of_aligned
  · simp only [treeGlweEncryptSk, treeEncSkInternal, treeNormalize, treeBigNormalize, leaf, loop, fits]
    split <;> simp [fits]
  · simp only [treeGlweEncryptSk, treeEncSkInternal, treeNormalize, treeBigNormalize, leaf, loop]
    split <;> simp [aligned, reqA, hV, hD, hN, hB]
  · refine Nat.le_trans ?_ h
    simp only [treeGlweEncryptSk, treeEncSkInternal, treeNormalize, treeBigNormalize, leaf, loop, tbGlweEncryptSk]
    generalize vecBytes n 1 g.size = V
    generalize dftBytes be n 1 g.size = D
    generalize normTmp n = N
    generalize bigNormTmp be n = B
    split <;> simp only [reqA, Bool.false_eq_true, if_false] <;> omega

example : (run (treeGlweEncryptSk .ntt120 16 ⟨2, 3, 17⟩) ⟨4104, 56 + tbGlweEncryptSk .ntt120 16 3⟩).isOk = true := by decide

/- FULL STATEMENT (not proved): the same without `n % 8 = 0`.  False for N < 8 (16-byte limbs). -/
theorem glwe_encrypt_sk_counterexample :
    ¬ (∀ (be : BE) (n : Nat) (g : G) (a : Arena), tbGlweEncryptSk be n g.size ≤ a.available →
        (run (treeGlweEncryptSk be n g) a).isOk = true) := by
  intro h
  have := h .fft64 2 ⟨1, 1, 17⟩ ⟨4096, tbGlweEncryptSk .fft64 2 1⟩ (by decide)
  revert this; decide

/-- `glwe_decrypt`: both families, every rank and size -/
theorem glwe_decrypt_ok (g : G) (hn : n % 8 = 0) (a : Arena)
    (h : tbGlweDecrypt be n g.size ≤ a.available) : (run (treeGlweDecrypt be n g) a).isOk = true := by
  have hV := big_mod64 be hn 1 g.size
  apply run_ok_of_aligned
  · simp only [treeGlweDecrypt, treeBigNormalize, leaf, loop, fits]
    split <;> simp [fits]
  · simp only [treeGlweDecrypt, treeBigNormalize, leaf, loop]
    split <;> simp [aligned, reqA, hV]
  · refine Nat.le_trans ?_ h
    simp only [treeGlweDecrypt, treeBigNormalize, leaf, loop, tbGlweDecrypt]
    generalize bigBytes be n 1 g.size = V at *
    generalize dftBytes be n 1 g.size = D at *
    generalize bigNormTmp be n = B at *
    split <;> simp only [reqA] <;> omega

example : (run (treeGlweDecrypt .ntt120 8 ⟨1, 1, 17⟩) ⟨4096, tbGlweDecrypt .ntt120 8 1⟩).isOk = true := by decide

/-- `glwe_encrypt_pk` / `glwe_encrypt_zero_pk`: both families, every rank and size -/
theorem glwe_encrypt_pk_ok (g : G) (hn : n % 8 = 0) (a : Arena)
    (h : tbGlweEncryptPk be n g.size ≤ a.available) : (run (treeGlweEncryptPk be n g g.size) a).isOk = true := by
  have hS := svp_mod64 be hn 1
  have hD := dft_mod64 be hn 1 g.size
  apply run_ok_of_aligned
  · simp only [treeGlweEncryptPk, treeBigNormalize, leaf, loop, fits]
    simp [fits]
  · simp only [treeGlweEncryptPk, treeBigNormalize, leaf, loop]
    simp [aligned, reqA, hS, hD]
  · refine Nat.le_trans ?_ h
    simp only [treeGlweEncryptPk, treeBigNormalize, leaf, loop, tbGlweEncryptPk]
    generalize svpBytes be n 1 = S at *
    generalize bigBytes be n 1 g.size = V at *
    generalize dftBytes be n 1 g.size = D at *
    generalize scalarBytes n 1 = C at *
    generalize bigNormTmp be n = B at *
    simp only [reqA, Nat.add_one_ne_zero, if_false]
    omega

example : (run (treeGlweEncryptPk .ntt120 64 ⟨2, 1, 7⟩ 1) ⟨4096, tbGlweEncryptPk .ntt120 64 1⟩).isOk = true := by decide

/-- `glwe_normalize`, `glwe_normalize_assign`: every `n`, no alignment hypothesis needed (single take) -/
theorem glwe_normalize_ok (a : Arena) (h : tbGlweNormalize n ≤ a.available) : (run (treeGlweNormalize n) a).isOk = true := by
  apply run_ok _ (by simp [treeGlweNormalize, treeNormalize, fits]) a
  simpa [treeGlweNormalize, treeNormalize, leaf, req, tbGlweNormalize] using h

example : (run (treeGlweNormalize 4) ⟨4099, 61 + tbGlweNormalize 4⟩).isOk = true := by decide

/-- `glwe_rsh`, `glwe_lsh`, `glwe_lsh_assign`, `glwe_lsh_add`, `glwe_lsh_sub` -/
theorem glwe_shift_ok (a : Arena) (h : tbGlweShift n ≤ a.available) :
    (run (treeGlweRsh n) a).isOk = true ∧ (run (treeGlweLsh n) a).isOk = true := by
  constructor
  · apply run_ok _ (by simp [treeGlweRsh, treeRsh, fits]) a
    simp only [treeGlweRsh, treeRsh, leaf, req, tbGlweShift, rshTmp, lshTmp] at *
    simp only [Nat.add_zero, if_true]; omega
  · apply run_ok _ (by simp [treeGlweLsh, treeLsh, fits]) a
    simp only [treeGlweLsh, treeLsh, leaf, req, tbGlweShift, rshTmp, lshTmp] at *
    simp only [Nat.add_zero, if_true]; omega

example : (run (treeGlweRsh 2) ⟨4096, tbGlweShift 2⟩).isOk = true := by decide

/-- `glwe_rotate_assign`, `glwe_mul_xp_minus_one_assign` -/
theorem glwe_rotate_assign_ok (a : Arena) (h : tbGlweRotate n ≤ a.available) : (run (treeGlweRotateAssign n) a).isOk = true := by
  apply run_ok _ (by simp [treeGlweRotateAssign, treeOneLimb, fits]) a
  simpa [treeGlweRotateAssign, treeOneLimb, leaf, req, tbGlweRotate] using h

example : (run (treeGlweRotateAssign 32) ⟨4096, tbGlweRotate 32⟩).isOk = true := by decide

/-- `gglwe_product_dft` (the `dsize = 1` and the `dsize > 1` bivariate paths) -/
theorem gglwe_product_ok (aSize : Nat) (k : K) (hn : n % 8 = 0) (a : Arena)
    (h : tbGglweProduct be n aSize k ≤ a.available) :
    (run (treeGglweProduct be n k.rankIn aSize (k.rankOut + 1) k) a).isOk = true :=
  ok_of_facts (gglweProduct_facts be n _ aSize _ k hn rfl rfl) a h

example : (run (treeGglweProduct .fft64 8 2 7 3 ⟨2, 2, 5, 17, 2, 3⟩) ⟨4096, tbGglweProduct .fft64 8 7 ⟨2, 2, 5, 17, 2, 3⟩⟩).isOk = true := by
  decide

/-- `glwe_keyswitch` / `glwe_keyswitch_assign`: all ranks, sizes, `dsize`, same- and cross-radix, both families.
Admissibility = the operation's own entry assertions (`a.rank = key.rank_in`, `res.rank = key.rank_out`). -/
theorem glwe_keyswitch_ok (res a : G) (k : K) (hn : n % 8 = 0) (ha : a.rank = k.rankIn) (hres : res.rank = k.rankOut)
    (w : Arena) (h : tbGlweKeyswitch be n res a k ≤ w.available) : (run (treeGlweKeyswitch be n res a k) w).isOk = true :=
  ok_of_facts (keyswitch_facts be n res a k hn ha hres) w h

example : (run (treeGlweKeyswitch .ntt120 8 ⟨1, 3, 19⟩ ⟨2, 4, 13⟩ ⟨2, 1, 5, 17, 2, 2⟩)
    ⟨4104, 56 + tbGlweKeyswitch .ntt120 8 ⟨1, 3, 19⟩ ⟨2, 4, 13⟩ ⟨2, 1, 5, 17, 2, 2⟩⟩).isOk = true := by decide

/-- `glwe_external_product` / `_assign` -/
theorem glwe_external_product_ok (res a : G) (k : K) (hn : n % 8 = 0) (hres : res.rank = k.rankOut)
    (hb0 : 0 < k.b2k) (hd : 1 ≤ k.dsize) (w : Arena) (h : tbGlweExternalProduct be n res a k ≤ w.available) :
    (run (treeGlweExternalProduct be n res a k) w).isOk = true :=
  ok_of_facts (externalProduct_facts be n res a k hn hres hb0 hd) w h

example : (run (treeGlweExternalProduct .fft64 16 ⟨1, 3, 19⟩ ⟨1, 4, 13⟩ ⟨1, 1, 6, 17, 2, 3⟩)
    ⟨4096, tbGlweExternalProduct .fft64 16 ⟨1, 3, 19⟩ ⟨1, 4, 13⟩ ⟨1, 1, 6, 17, 2, 3⟩⟩).isOk = true := by decide

/-- `glwe_automorphism` / `_assign` -/
theorem glwe_automorphism_ok (res a : G) (k : K) (hn : n % 8 = 0) (ha : a.rank = k.rankIn) (hres : res.rank = k.rankOut)
    (w : Arena) (h : tbGlweAutomorphism be n res a k ≤ w.available) : (run (treeGlweAutomorphism be n res a k) w).isOk = true :=
  ok_of_facts (automorphism_facts be n res a k hn ha hres) w h

example : (run (treeGlweAutomorphism .ntt120 8 ⟨1, 3, 17⟩ ⟨1, 3, 17⟩ ⟨1, 1, 4, 17, 3, 1⟩)
    ⟨4096, tbGlweAutomorphism .ntt120 8 ⟨1, 3, 17⟩ ⟨1, 3, 17⟩ ⟨1, 1, 4, 17, 3, 1⟩⟩).isOk = true := by decide

/-- the six fused variants `glwe_automorphism_{add,sub,sub_negate}{,_assign}`: both families, same- and
cross-radix (the cross-radix arm of `glwe_keyswitch_tmp_bytes` reserves the big-normalisation buffer
next to `a_conv`) -/
theorem glwe_automorphism_add_ok (res a : G) (k : K) (hn : n % 8 = 0) (ha : a.rank = k.rankIn) (hres : res.rank = k.rankOut)
    (w : Arena) (h : tbGlweAutomorphism be n res a k ≤ w.available) :
    (run (treeGlweAutomorphismAdd be n res a k) w).isOk = true :=
  ok_of_facts (automorphismAdd_facts be n res a k hn ha hres) w h

example : (run (treeGlweAutomorphismAdd .ntt120 16 ⟨1, 4, 7⟩ ⟨1, 1, 7⟩ ⟨1, 1, 6, 13, 1, 1⟩)
    ⟨4096, tbGlweAutomorphism .ntt120 16 ⟨1, 4, 7⟩ ⟨1, 1, 7⟩ ⟨1, 1, 6, 13, 1, 1⟩⟩).isOk = true := by decide

/-- `glwe_trace_assign`: same- and cross-radix, both families; the in-place formula
(`glwe_trace_assign_tmp_bytes`, asserted at entry) suffices -/
theorem glwe_trace_assign_ok (iters : Nat) (res : G) (k : K) (hn : n % 8 = 0) (hin : res.rank = k.rankIn)
    (hout : res.rank = k.rankOut) (w : Arena) (h : tbGlweTraceAssign be n res res k ≤ w.available) :
    (run (treeGlweTraceAssign be n iters res k) w).isOk = true :=
  ok_of_facts (traceAssign_facts be n iters res k hn hin hout) w h

example : (run (treeGlweTraceAssign .ntt120 16 3 ⟨1, 2, 19⟩ ⟨1, 1, 3, 17, 2, 1⟩)
    ⟨4096, tbGlweTraceAssign .ntt120 16 ⟨1, 2, 19⟩ ⟨1, 2, 19⟩ ⟨1, 1, 3, 17, 2, 1⟩⟩).isOk = true := by decide

/-- the public query `glwe_trace_tmp_bytes(res, res, key)` also serves `glwe_trace_assign` -/
theorem glwe_trace_query_serves_assign (iters : Nat) (res : G) (k : K) (hn : n % 8 = 0) (hin : res.rank = k.rankIn)
    (hout : res.rank = k.rankOut) (w : Arena) (h : tbGlweTrace be n res res k ≤ w.available) :
    (run (treeGlweTraceAssign be n iters res k) w).isOk = true := by
  apply glwe_trace_assign_ok be n iters res k hn hin hout w
  refine Nat.le_trans ?_ h
  unfold tbGlweTrace
  simp only
  omega

example : tbGlweTraceAssign .fft64 16 ⟨1, 2, 17⟩ ⟨1, 2, 17⟩ ⟨1, 1, 3, 17, 2, 1⟩ ≤
    tbGlweTrace .fft64 16 ⟨1, 2, 17⟩ ⟨1, 2, 17⟩ ⟨1, 1, 3, 17, 2, 1⟩ := by decide

/-- `glwe_trace(res, skip, a, keys)`: temporary in the key's radix + in-place trace on it -/
theorem glwe_trace_ok (iters : Nat) (res a : G) (k : K) (hn : n % 8 = 0) (hin : res.rank = k.rankIn)
    (hout : res.rank = k.rankOut) (w : Arena) (h : tbGlweTrace be n res a k ≤ w.available) :
    (run (treeGlweTrace be n iters res a k) w).isOk = true :=
  ok_of_facts (trace_facts be n iters res a k hn hin hout) w h

example : (run (treeGlweTrace .fft64 16 4 ⟨1, 2, 17⟩ ⟨1, 2, 13⟩ ⟨1, 1, 3, 17, 2, 1⟩)
    ⟨4096, tbGlweTrace .fft64 16 ⟨1, 2, 17⟩ ⟨1, 2, 13⟩ ⟨1, 1, 3, 17, 2, 1⟩⟩).isOk = true := by decide

/-- `gglwe_encrypt_sk` (hence switching/automorphism/tensor key encryption rows) -/
theorem gglwe_encrypt_sk_ok (k : K) (hn : n % 8 = 0) (w : Arena) (h : tbGgxEncryptSk be n k.size ≤ w.available) :
    (run (treeGglweEncryptSk be n k) w).isOk = true := ok_of_facts (gglweEncryptSk_facts be n k hn) w h

example : (run (treeGglweEncryptSk .fft64 8 ⟨2, 1, 5, 17, 2, 2⟩) ⟨4096, tbGgxEncryptSk .fft64 8 5⟩).isOk = true := by decide

/-- `ggsw_encrypt_sk` -/
theorem ggsw_encrypt_sk_ok (k : K) (hn : n % 8 = 0) (w : Arena) (h : tbGgxEncryptSk be n k.size ≤ w.available) :
    (run (treeGgswEncryptSk be n k) w).isOk = true := ok_of_facts (ggswEncryptSk_facts be n k hn) w h

example : (run (treeGgswEncryptSk .ntt120 8 ⟨2, 2, 5, 17, 2, 2⟩) ⟨4136, 24 + tbGgxEncryptSk .ntt120 8 5⟩).isOk = true := by decide

/- FULL STATEMENT (not proved): the theorems of this section without `n % 8 = 0`.  False for N ∈ {2, 4}
   (the library accepts them): limbs of 16/32 bytes are followed by aligned takes. -/
theorem small_ring_counterexample :
    ¬ (∀ (be : BE) (n : Nat) (k : K) (w : Arena), tbGgxEncryptSk be n k.size ≤ w.available →
        (run (treeGgswEncryptSk be n k) w).isOk = true) := by
  intro h
  have := h .fft64 4 ⟨1, 1, 3, 17, 1, 1⟩ ⟨4096, tbGgxEncryptSk .fft64 4 3⟩ (by decide)
  revert this; decide

/-! ## poulpy-bin-fhe and poulpy-ckks -/

/-- `cmux` (same tree for `cmux_assign`): admissibility = the assertions of the inner external product
(`res.base2k == ggsw.base2k`) and `dsize ≥ 1` -/
theorem cmux_ok (res : G) (k : K) (hn : n % 8 = 0) (hres : res.rank = k.rankOut) (hb : res.b2k = k.b2k)
    (hb0 : 0 < k.b2k) (hd : 1 ≤ k.dsize) (w : Arena) (h : tbCmux be n res k ≤ w.available) :
    (run (treeCmux be n res k) w).isOk = true :=
  ok_of_facts (cmux_facts be n res k hn hres hb hb0 hd) w h

example : (run (treeCmux .fft64 16 ⟨1, 3, 17⟩ ⟨1, 1, 3, 17, 3, 1⟩) ⟨4096, tbCmux .fft64 16 ⟨1, 3, 17⟩ ⟨1, 1, 3, 17, 3, 1⟩⟩).isOk = true := by
  decide

/-- `execute_bdd_circuit_multi_thread`: a window of `threads × execute_bdd_circuit_tmp_bytes` serves every
thread count: the per-thread size is a multiple of 64 (so `split_mut` loses nothing to re-alignment) and
each window holds `2·state` GLWEs plus a `cmux`. -/
theorem execute_bdd_ok (threads state : Nat) (res : G) (k : K) (hn : n % 8 = 0) (hres : res.rank = k.rankOut)
    (hb : res.b2k = k.b2k) (hb0 : 0 < k.b2k) (hd : 1 ≤ k.dsize) (w : Arena)
    (h : threads * tbExecBdd be n state res k ≤ w.available) :
    (run (treeExecBdd be n threads state res k) w).isOk = true :=
  execBdd_ok be n threads state res k hn hres hb hb0 hd w h

example : (run (treeExecBdd .ntt120 32 3 3 ⟨1, 2, 13⟩ ⟨1, 1, 3, 13, 2, 1⟩)
    ⟨4104, 56 + 3 * tbExecBdd .ntt120 32 3 ⟨1, 2, 13⟩ ⟨1, 1, 3, 13, 2, 1⟩⟩).isOk = true := by decide

/-- CKKS `add` / `sub` / `add_pt_const` / `sub_pt_const`: any sequence of shifts and normalisations; every `n` -/
theorem ckks_shift_norm_ok (w : Arena) (h : tbCkksShiftNorm n ≤ w.available) : (run (treeCkksShiftNorm n) w).isOk = true := by
  apply run_ok _ (by simp [treeCkksShiftNorm, altList, treeGlweRsh, treeGlweLsh, treeGlweNormalize, treeRsh, treeLsh, treeNormalize, fits]) w
  simp only [treeCkksShiftNorm, altList, treeGlweRsh, treeGlweLsh, treeGlweNormalize, treeRsh, treeLsh, treeNormalize, leaf, req,
    tbCkksShiftNorm, tbGlweShift, tbGlweNormalize, rshTmp, lshTmp, normTmp] at *
  simp only [Nat.add_zero, if_true]; omega

example : (run (treeCkksShiftNorm 4) ⟨4100, 60 + tbCkksShiftNorm 4⟩).isOk = true := by decide

/-- CKKS `neg` / `mul_pow2` / `div_pow2` / `rescale` / `align`: a left shift; every `n` -/
theorem ckks_shift_ok (w : Arena) (h : tbCkksShift n ≤ w.available) : (run (treeCkksShift n) w).isOk = true :=
  (glwe_shift_ok n w h).2

example : (run (treeCkksShift 16) ⟨4096, tbCkksShift 16⟩).isOk = true := by decide

end core

/-! ## second batch: key-encryption wrappers, compressed encryptions, conversions, matrix forms,
`glwe_mul_const`, noise helpers, packing (Model/ScratchOps2.lean) -/

section batch2
variable (be : BE) (n : Nat)

/-- `glwe_secret_tensor_prepare` -/
theorem glwe_secret_tensor_prepare_ok (rank : Nat) (hn : n % 8 = 0) (w : Arena)
    (h : tbSecretTensorPrepare be n rank ≤ w.available) : (run (treeSecretTensorPrepare be n rank) w).isOk = true :=
  ok_of_facts (secretTensorPrepare_facts be n rank hn) w h

example : (run (treeSecretTensorPrepare .ntt120 8 2) ⟨4096, tbSecretTensorPrepare .ntt120 8 2⟩).isOk = true := by decide

/-- `glwe_switching_key_encrypt_sk` -/
theorem glwe_switching_key_encrypt_sk_ok (k : K) (hn : n % 8 = 0) (w : Arena)
    (h : tbSwitchingKeyEncryptSk be n k ≤ w.available) : (run (treeSwitchingKeyEncryptSk be n k) w).isOk = true :=
  ok_of_facts (switchingKeyEncryptSk_facts be n k hn) w h

example : (run (treeSwitchingKeyEncryptSk .fft64 8 ⟨2, 1, 4, 17, 2, 2⟩) ⟨4096, tbSwitchingKeyEncryptSk .fft64 8 ⟨2, 1, 4, 17, 2, 2⟩⟩).isOk = true := by
  decide

/-- `glwe_automorphism_key_encrypt_sk` -/
theorem glwe_automorphism_key_encrypt_sk_ok (k : K) (hn : n % 8 = 0) (w : Arena)
    (h : tbAutomorphismKeyEncryptSk be n k ≤ w.available) : (run (treeAutomorphismKeyEncryptSk be n k) w).isOk = true :=
  ok_of_facts (automorphismKeyEncryptSk_facts be n k hn) w h

example : (run (treeAutomorphismKeyEncryptSk .ntt120 8 ⟨1, 1, 3, 13, 3, 1⟩) ⟨4096, tbAutomorphismKeyEncryptSk .ntt120 8 ⟨1, 1, 3, 13, 3, 1⟩⟩).isOk = true := by
  decide

/-- `glwe_tensor_key_encrypt_sk` (the formula reserves `pairs(pairs(rank))` columns for the tensor secret,
which covers the `pairs(rank)` taken) -/
theorem glwe_tensor_key_encrypt_sk_ok (k : K) (hn : n % 8 = 0) (w : Arena)
    (h : tbTensorKeyEncryptSk be n k ≤ w.available) : (run (treeTensorKeyEncryptSk be n k) w).isOk = true :=
  ok_of_facts (tensorKeyEncryptSk_facts be n k hn) w h

example : (run (treeTensorKeyEncryptSk .fft64 8 ⟨2, 2, 3, 17, 1, 2⟩) ⟨4096, tbTensorKeyEncryptSk .fft64 8 ⟨2, 2, 3, 17, 1, 2⟩⟩).isOk = true := by
  decide

/-- `gglwe_to_ggsw_key_encrypt_sk` -/
theorem gglwe_to_ggsw_key_encrypt_sk_ok (k : K) (hn : n % 8 = 0) (w : Arena)
    (h : tbGglweToGgswKeyEncryptSk be n k ≤ w.available) : (run (treeGglweToGgswKeyEncryptSk be n k) w).isOk = true :=
  ok_of_facts (gglweToGgswKeyEncryptSk_facts be n k hn) w h

example : (run (treeGglweToGgswKeyEncryptSk .fft64 8 ⟨2, 2, 3, 17, 1, 2⟩) ⟨4096, tbGglweToGgswKeyEncryptSk .fft64 8 ⟨2, 2, 3, 17, 1, 2⟩⟩).isOk = true := by
  decide

/-- `lwe_switching_key_encrypt_sk`, `lwe_to_glwe_key_encrypt_sk`, `glwe_to_lwe_key_encrypt_sk` -/
theorem lwe_key_encrypt_sk_ok (k : K) (hn : n % 8 = 0) (hr : 1 ≤ k.rankIn) (w : Arena) :
    (tbLweSwitchingKeyEncryptSk be n k ≤ w.available → (run (treeLweSwitchingKeyEncryptSk be n k) w).isOk = true) ∧
    (tbLweToGlweKeyEncryptSk be n k ≤ w.available → (run (treeLweToGlweKeyEncryptSk be n k) w).isOk = true) ∧
    (tbGlweToLweKeyEncryptSk be n k ≤ w.available → (run (treeGlweToLweKeyEncryptSk be n k) w).isOk = true) :=
  ⟨ok_of_facts (lweSwitchingKeyEncryptSk_facts be n k hn) w, ok_of_facts (lweToGlweKeyEncryptSk_facts be n k hn hr) w,
   ok_of_facts (glweToLweKeyEncryptSk_facts be n k hn hr) w⟩

example : (run (treeLweSwitchingKeyEncryptSk .fft64 8 ⟨1, 1, 3, 17, 2, 1⟩) ⟨4096, tbLweSwitchingKeyEncryptSk .fft64 8 ⟨1, 1, 3, 17, 2, 1⟩⟩).isOk = true ∧
    (run (treeGlweToLweKeyEncryptSk .ntt120 8 ⟨2, 1, 3, 17, 2, 1⟩) ⟨4096, tbGlweToLweKeyEncryptSk .ntt120 8 ⟨2, 1, 3, 17, 2, 1⟩⟩).isOk = true := by
  decide

/-- the compressed encryptions (`glwe_compressed_encrypt_sk` and `ggsw_compressed_encrypt_sk` have the trees of
their uncompressed forms; `gglwe_compressed_encrypt_sk` calls the internal encryption directly) -/
theorem gglwe_compressed_encrypt_sk_ok (k : K) (hn : n % 8 = 0) (w : Arena)
    (h : tbGgxEncryptSk be n k.size ≤ w.available) : (run (treeGglweCompressedEncryptSk be n k) w).isOk = true :=
  ok_of_facts (gglweCompressedEncryptSk_facts be n k hn) w h

example : (run (treeGglweCompressedEncryptSk .fft64 8 ⟨2, 1, 5, 17, 2, 2⟩) ⟨4096, tbGgxEncryptSk .fft64 8 5⟩).isOk = true := by decide

/-- `glwe_from_lwe` (same- and cross-radix LWE; the key-switch term of the formula is evaluated on the embedded LWE) -/
theorem glwe_from_lwe_ok (res : G) (lwe : L) (k : K) (hn : n % 8 = 0) (hin : k.rankIn = 1) (hres : res.rank = k.rankOut)
    (w : Arena) (h : tbGlweFromLwe be n res lwe k ≤ w.available) : (run (treeGlweFromLwe be n res lwe k) w).isOk = true :=
  ok_of_facts (glweFromLwe_facts be n res lwe k hn hin hres) w h

example : (run (treeGlweFromLwe .ntt120 32 ⟨1, 1, 7⟩ ⟨5, 7⟩ ⟨1, 1, 5, 7, 2, 1⟩) ⟨4096, tbGlweFromLwe .ntt120 32 ⟨1, 1, 7⟩ ⟨5, 7⟩ ⟨1, 1, 5, 7, 2, 1⟩⟩).isOk = true := by
  decide

/-- `lwe_from_glwe` -/
theorem lwe_from_glwe_ok (lwe : L) (a : G) (k : K) (idx : Nat) (hn : n % 8 = 0) (ha : a.rank = k.rankIn) (hout : k.rankOut = 1)
    (w : Arena) (h : tbLweFromGlwe be n lwe a k ≤ w.available) : (run (treeLweFromGlwe be n lwe a k idx) w).isOk = true :=
  ok_of_facts (lweFromGlwe_facts be n lwe a k idx hn ha hout) w h

example : (run (treeLweFromGlwe .fft64 8 ⟨3, 13⟩ ⟨2, 4, 17⟩ ⟨2, 1, 5, 17, 2, 1⟩ 3) ⟨4096, tbLweFromGlwe .fft64 8 ⟨3, 13⟩ ⟨2, 4, 17⟩ ⟨2, 1, 5, 17, 2, 1⟩⟩).isOk = true := by
  decide

/-- `lwe_keyswitch`: the formula is evaluated at `max(a.max_k, res.max_k)`; the key-switch query is monotone in
the input size (`tbGlweKeyswitch_mono`), so it covers the actual operands -/
theorem lwe_keyswitch_ok (res a : L) (k : K) (hn : n % 8 = 0) (hin : k.rankIn = 1) (hout : k.rankOut = 1)
    (hra : 0 < a.b2k) (hrr : 0 < res.b2k) (w : Arena) (h : tbLweKeyswitch be n res a k ≤ w.available) :
    (run (treeLweKeyswitch be n res a k) w).isOk = true :=
  ok_of_facts (lweKeyswitch_facts be n res a k hn hin hout hra hrr) w h

example : (run (treeLweKeyswitch .fft64 8 ⟨2, 19⟩ ⟨5, 7⟩ ⟨1, 1, 4, 13, 3, 1⟩) ⟨4096, tbLweKeyswitch .fft64 8 ⟨2, 19⟩ ⟨5, 7⟩ ⟨1, 1, 4, 13, 3, 1⟩⟩).isOk = true := by
  decide

/-- monotonicity used above: `glwe_keyswitch_tmp_bytes` ignores the size of `res` and grows with the size of `a` -/
theorem glwe_keyswitch_query_monotone (k : K) (rr rs rs' rb rb' ar ab : Nat) {s s' : Nat} (h : s ≤ s') :
    tbGlweKeyswitch be n ⟨rr, rs, rb⟩ ⟨ar, s, ab⟩ k ≤ tbGlweKeyswitch be n ⟨rr, rs', rb'⟩ ⟨ar, s', ab⟩ k :=
  tbGlweKeyswitch_mono be n k rr rs rs' rb rb' ar ab h

example : tbGlweKeyswitch .fft64 8 ⟨1, 2, 17⟩ ⟨1, 2, 13⟩ ⟨1, 1, 4, 17, 2, 2⟩ ≤ tbGlweKeyswitch .fft64 8 ⟨1, 9, 7⟩ ⟨1, 5, 13⟩ ⟨1, 1, 4, 17, 2, 2⟩ := by
  decide

/-- `gglwe_keyswitch(_assign)`, `gglwe_external_product(_assign)`, `ggsw_external_product(_assign)`,
`ggsw_rotate_assign`: the GLWE query serves every row/column call -/
theorem matrix_rows_ok {t : AllocTree} {tb : Nat} (cnt : Nat) (ht : fits t = true ∧ aligned t = true ∧ reqA t ≤ tb) (w : Arena)
    (h : tb ≤ w.available) : (run (treeRows tb cnt t) w).isOk = true :=
  ok_of_facts (rows_facts cnt ht) w h

example : (run (treeRows (tbGlweKeyswitch .fft64 8 ⟨1, 3, 17⟩ ⟨1, 3, 17⟩ ⟨1, 1, 4, 17, 2, 1⟩) 4
    (treeGlweKeyswitch .fft64 8 ⟨1, 3, 17⟩ ⟨1, 3, 17⟩ ⟨1, 1, 4, 17, 2, 1⟩)) ⟨4096, tbGlweKeyswitch .fft64 8 ⟨1, 3, 17⟩ ⟨1, 3, 17⟩ ⟨1, 1, 4, 17, 2, 1⟩⟩).isOk = true := by
  decide

/-- `gglwe_keyswitch`, as an instance of `matrix_rows_ok` -/
theorem gglwe_keyswitch_ok (cnt : Nat) (res a : G) (k : K) (hn : n % 8 = 0) (ha : a.rank = k.rankIn) (hres : res.rank = k.rankOut)
    (w : Arena) (h : tbGlweKeyswitch be n res a k ≤ w.available) :
    (run (treeRows (tbGlweKeyswitch be n res a k) cnt (treeGlweKeyswitch be n res a k)) w).isOk = true :=
  matrix_rows_ok cnt (keyswitch_facts be n res a k hn ha hres) w h

example : fits (treeGlweKeyswitch .fft64 8 ⟨1, 3, 17⟩ ⟨1, 3, 17⟩ ⟨1, 1, 4, 17, 2, 1⟩) = true := by decide

/-- `gglwe_external_product` / `ggsw_external_product` -/
theorem matrix_external_product_ok (cnt : Nat) (res a : G) (k : K) (hn : n % 8 = 0) (hres : res.rank = k.rankOut)
    (hb0 : 0 < k.b2k) (hd : 1 ≤ k.dsize) (w : Arena) (h : tbGlweExternalProduct be n res a k ≤ w.available) :
    (run (treeRows (tbGlweExternalProduct be n res a k) cnt (treeGlweExternalProduct be n res a k)) w).isOk = true :=
  matrix_rows_ok cnt (externalProduct_facts be n res a k hn hres hb0 hd) w h

example : (run (treeRows (tbGlweExternalProduct .ntt120 8 ⟨1, 3, 17⟩ ⟨1, 3, 17⟩ ⟨1, 1, 4, 13, 2, 2⟩) 2
    (treeGlweExternalProduct .ntt120 8 ⟨1, 3, 17⟩ ⟨1, 3, 17⟩ ⟨1, 1, 4, 13, 2, 2⟩)) ⟨4096, tbGlweExternalProduct .ntt120 8 ⟨1, 3, 17⟩ ⟨1, 3, 17⟩ ⟨1, 1, 4, 13, 2, 2⟩⟩).isOk = true := by
  decide

/-- `ggsw_expand_row` / `ggsw_from_gglwe` (row expansion with a GGLWE-to-GGSW key of any size and `dsize`) -/
theorem ggsw_expand_rows_ok (dnum : Nat) (res : G) (t : K) (hn : n % 8 = 0) (hin : t.rankIn = res.rank) (hout : t.rankOut = res.rank)
    (w : Arena) (h : tbGgswExpandRows be n res t ≤ w.available) : (run (treeGgswExpandRows be n dnum res t) w).isOk = true :=
  ok_of_facts (expandRows_facts be n dnum res t hn hin hout) w h

example : (run (treeGgswExpandRows .fft64 16 1 ⟨1, 2, 7⟩ ⟨1, 1, 7, 19, 2, 3⟩) ⟨4096, tbGgswExpandRows .fft64 16 ⟨1, 2, 7⟩ ⟨1, 1, 7, 19, 2, 3⟩⟩).isOk = true := by
  decide

/-- `ggsw_keyswitch(_assign)` and `ggsw_automorphism(_assign)` -/
theorem ggsw_keyswitch_ok (dnum : Nat) (res a : G) (k t : K) (hn : n % 8 = 0) (ha : a.rank = k.rankIn) (hres : res.rank = k.rankOut)
    (hin : t.rankIn = res.rank) (hout : t.rankOut = res.rank) (w : Arena) :
    (tbGgswKeyswitch be n res a k t ≤ w.available → (run (treeGgswKeyswitch be n dnum res a k t) w).isOk = true) ∧
    (tbGgswAutomorphism be n res a k t ≤ w.available → (run (treeGgswAutomorphism be n dnum res a k t) w).isOk = true) :=
  ⟨ok_of_facts (ggswKeyswitch_facts be n dnum res a k t hn ha hres hin hout) w,
   ok_of_facts (ggswAutomorphism_facts be n dnum res a k t hn ha hres hin hout) w⟩

example : (run (treeGgswKeyswitch .fft64 16 1 ⟨1, 2, 7⟩ ⟨1, 2, 7⟩ ⟨1, 1, 5, 13, 1, 3⟩ ⟨1, 1, 7, 19, 2, 3⟩)
    ⟨4096, tbGgswKeyswitch .fft64 16 ⟨1, 2, 7⟩ ⟨1, 2, 7⟩ ⟨1, 1, 5, 13, 1, 3⟩ ⟨1, 1, 7, 19, 2, 3⟩⟩).isOk = true := by decide

/-- `glwe_automorphism_key_automorphism(_assign)` -/
theorem atk_automorphism_ok (cnt : Nat) (res a : G) (k : K) (same : Bool) (hn : n % 8 = 0) (ha : a.rank = k.rankIn)
    (hres : res.rank = k.rankOut) (hsame : same = true → a = res) (w : Arena) :
    (tbAtkAutomorphism be n res a k same ≤ w.available → (run (treeAtkAutomorphism be n cnt res a k same) w).isOk = true) ∧
    (a = res → tbAtkAutomorphism be n res res k true ≤ w.available → (run (treeAtkAutomorphismAssign be n cnt res k) w).isOk = true) :=
  ⟨ok_of_facts (atkAutomorphism_facts be n cnt res a k same hn ha hres hsame) w,
   fun he => ok_of_facts (atkAutomorphismAssign_facts be n cnt res k hn (he ▸ ha) hres) w⟩

example : (run (treeAtkAutomorphism .fft64 8 2 ⟨1, 3, 17⟩ ⟨1, 4, 17⟩ ⟨1, 1, 4, 17, 2, 1⟩ false)
    ⟨4096, tbAtkAutomorphism .fft64 8 ⟨1, 3, 17⟩ ⟨1, 4, 17⟩ ⟨1, 1, 4, 17, 2, 1⟩ false⟩).isOk = true := by decide

/-- `glwe_mul_const(_assign)` -/
theorem glwe_mul_const_ok (off : Nat) (res a : G) (bSize : Nat) (hn : n % 8 = 0) (w : Arena) :
    (tbGlweMulConst be n res a bSize ≤ w.available → (run (treeGlweMulConst be n off res a bSize) w).isOk = true) ∧
    (tbGlweMulConst be n res res bSize ≤ w.available → (run (treeGlweMulConstAssign be n res bSize) w).isOk = true) :=
  ⟨ok_of_facts (mulConst_facts be n off res a bSize hn) w, ok_of_facts (mulConstAssign_facts be n res bSize hn) w⟩

example : (run (treeGlweMulConst .fft64 16 0 ⟨0, 1, 19⟩ ⟨0, 1, 19⟩ 1) ⟨4096, tbGlweMulConst .fft64 16 ⟨0, 1, 19⟩ ⟨0, 1, 19⟩ 1⟩).isOk = true := by decide

/-- `glwe_noise`, `gglwe_noise`, `ggsw_noise`, `glwe_tensor_decrypt` -/
theorem noise_helpers_ok (g : G) (col : Nat) (hn : n % 8 = 0) (w : Arena) :
    (tbGlweNoise be n g.size ≤ w.available → (run (treeGlweNoise be n g) w).isOk = true) ∧
    (tbGglweNoise be n g.size ≤ w.available → (run (treeGglweNoise be n g) w).isOk = true) ∧
    (tbGgswNoise be n g.size ≤ w.available → (run (treeGgswNoise be n g col) w).isOk = true) ∧
    (tbGlweTensorDecrypt be n g ≤ w.available → (run (treeGlweTensorDecrypt be n g) w).isOk = true) :=
  ⟨ok_of_facts (glweNoise_facts be n g hn) w, ok_of_facts (gglweNoise_facts be n g hn) w,
   ok_of_facts (ggswNoise_facts be n g col hn) w, ok_of_facts (glweTensorDecrypt_facts be n g hn) w⟩

example : (run (treeGgswNoise .ntt120 8 ⟨2, 3, 17⟩ 1) ⟨4096, tbGgswNoise .ntt120 8 3⟩).isOk = true ∧
    (run (treeGlweTensorDecrypt .ntt120 8 ⟨2, 1, 17⟩) ⟨4096, tbGlweTensorDecrypt .ntt120 8 ⟨2, 1, 17⟩⟩).isOk = true := by decide

/-- `glwe_pack` and `glwe_packer_add` -/
theorem glwe_pack_ok (rounds iters : Nat) (res : G) (k : K) (hn : n % 8 = 0) (hin : res.rank = k.rankIn) (hout : res.rank = k.rankOut)
    (w : Arena) :
    (tbGlwePack be n res k ≤ w.available → (run (treeGlwePack be n rounds iters res res k) w).isOk = true) ∧
    (tbGlwePacker be n res k ≤ w.available → (run (treeGlwePackerAdd be n res k) w).isOk = true) :=
  ⟨ok_of_facts (glwePack_facts be n rounds iters res k hn hin hout) w, ok_of_facts (glwePackerAdd_facts be n res k hn hin hout) w⟩

example : (run (treeGlwePack .fft64 8 2 1 ⟨1, 2, 17⟩ ⟨1, 2, 17⟩ ⟨1, 1, 3, 17, 2, 1⟩) ⟨4096, tbGlwePack .fft64 8 ⟨1, 2, 17⟩ ⟨1, 1, 3, 17, 2, 1⟩⟩).isOk = true := by
  decide

/-- `glwe_tensor_relinearize(res, a, tsk, tsk_size)` for any `tsk_size ≤ tsk.size()` -/
theorem glwe_tensor_relinearize_ok (tskSize : Nat) (a : G) (t : K) (hn : n % 8 = 0) (hs : tskSize ≤ t.size) (w : Arena)
    (h : tbGlweTensorRelinearize be n a t ≤ w.available) : (run (treeGlweTensorRelinearize be n tskSize a t) w).isOk = true :=
  ok_of_facts (relinearize_facts be n tskSize a t hn hs) w h

example : (run (treeGlweTensorRelinearize .fft64 8 4 ⟨1, 3, 13⟩ ⟨1, 1, 4, 17, 2, 2⟩) ⟨4096, tbGlweTensorRelinearize .fft64 8 ⟨1, 3, 13⟩ ⟨1, 1, 4, 17, 2, 2⟩⟩).isOk = true := by
  decide

/-- `cswap` with both operands in the selector's radix (the cross-radix branch of the pinned code panics in
`glwe_sub` before any scratch question arises, see docs/C12.md §4) -/
theorem cswap_ok (ra rb : G) (k : K) (hn : n % 8 = 0) (hrad : ra.b2k = k.b2k) (hb0 : 0 < k.b2k) (hd : 1 ≤ k.dsize) (w : Arena)
    (h : tbCswap be n ra rb k ≤ w.available) : (run (treeCswap be n ra rb k) w).isOk = true :=
  ok_of_facts (cswap_facts be n ra rb k hn hrad hb0 hd) w h

example : (run (treeCswap .ntt120 8 ⟨1, 6, 7⟩ ⟨1, 1, 7⟩ ⟨1, 1, 3, 7, 3, 1⟩) ⟨4096, tbCswap .ntt120 8 ⟨1, 6, 7⟩ ⟨1, 1, 7⟩ ⟨1, 1, 3, 7, 3, 1⟩⟩).isOk = true := by
  decide

/-- CKKS operations built from modelled core operations: `ckks_rotate` / `ckks_conjugate`, the plaintext
add/sub forms, `ckks_encrypt_sk`, `ckks_decrypt` -/
theorem ckks_core_built_ok (ct : G) (k : K) (hn : n % 8 = 0) (hin : ct.rank = k.rankIn) (hout : ct.rank = k.rankOut) (w : Arena) :
    (tbCkksRotate be n ct k ≤ w.available → (run (treeCkksRotate be n ct k) w).isOk = true) ∧
    (tbCkksPtVecZnx n ≤ w.available → (run (treeCkksPtVecZnx n) w).isOk = true) ∧
    (tbCkksEncryptSk be n ct.size ≤ w.available → (run (treeCkksEncryptSk be n ct) w).isOk = true) ∧
    (tbCkksDecrypt be n ct.size ≤ w.available → (run (treeCkksDecrypt be n ct) w).isOk = true) :=
  ⟨ok_of_facts (ckksRotate_facts be n ct k hn hin hout) w, ok_of_facts (ckksPtVecZnx_facts n) w,
   ok_of_facts (ckksEncryptSk_facts be n ct hn) w, ok_of_facts (ckksDecrypt_facts be n ct hn) w⟩

example : (run (treeCkksRotate .fft64 8 ⟨1, 3, 17⟩ ⟨1, 1, 4, 17, 3, 1⟩) ⟨4096, tbCkksRotate .fft64 8 ⟨1, 3, 17⟩ ⟨1, 1, 4, 17, 3, 1⟩⟩).isOk = true ∧
    (run (treeCkksDecrypt .ntt120 8 ⟨1, 1, 17⟩) ⟨4096, tbCkksDecrypt .ntt120 8 1⟩).isOk = true := by decide

/-- the monotonicity clause on a CKKS operation set (what `ckks_all_ops_with_atk_tmp_bytes` does for the whole
evaluator): a scratch of the **maximum** of the queries of encrypt, decrypt, add/sub (ct and plaintext forms),
neg/pow2/rescale/align, rotate and conjugate runs every one of them -/
theorem ckks_max_serves_modelled_ops (ct : G) (k : K) (hn : n % 8 = 0) (hin : ct.rank = k.rankIn) (hout : ct.rank = k.rankOut) (w : Arena)
    (h : max (tbCkksEncryptSk be n ct.size) (max (tbCkksDecrypt be n ct.size) (max (tbCkksShiftNorm n)
          (max (tbCkksPtVecZnx n) (max (tbCkksShift n) (tbCkksRotate be n ct k))))) ≤ w.available) :
    ∀ t ∈ [treeCkksEncryptSk be n ct, treeCkksDecrypt be n ct, treeCkksShiftNorm n, treeCkksPtVecZnx n, treeCkksShift n,
            treeCkksRotate be n ct k], (run t w).isOk = true := by
  obtain ⟨r1, r2, r3, r4⟩ := ckks_core_built_ok be n ct k hn hin hout w
  intro t ht
  simp only [List.mem_cons, List.mem_nil_iff, or_false] at ht
  rcases ht with rfl | rfl | rfl | rfl | rfl | rfl
  · exact r3 (by omega)
  · exact r4 (by omega)
  · exact ckks_shift_norm_ok n w (by omega)
  · exact r2 (by omega)
  · exact ckks_shift_ok n w (by omega)
  · exact r1 (by omega)

example : ∀ t ∈ [treeCkksEncryptSk .fft64 8 ⟨1, 2, 17⟩, treeCkksShift 8], (run t ⟨4096, tbCkksEncryptSk .fft64 8 2⟩).isOk = true := by
  decide

end batch2

/-! ## third batch: the remaining queries (Model/ScratchOps3.lean)

Prepare wrappers, compressed key wrappers, the convolution products, the blind rotation and the circuit
bootstrapping with their keys, the BDD helpers, `fhe_uint_prepare`, the CKKS products and composites.
Formulas that were insufficient are stated in their repaired form (docs/fixes/12–18); the `_old_formula_counterexample`s
keep the witnesses. -/

section batch3
variable (be : BE) (n : Nat)

/-- every prepare wrapper (`gglwe_prepare`, `ggsw_prepare`, the seven key wrappers: `depth` nested assertions),
keys made of several matrices, the circuit-bootstrapping key and the BDD key: `vmp_prepare_tmp_bytes` suffices -/
theorem prepare_wrappers_ok (depth cnt nLwe rank nAtk : Nat) (outer ksGlwe : Bool) (w : Arena) (h : tbPrepare be n ≤ w.available) :
    (run (treePrepare be n depth) w).isOk = true ∧ (run (treePrepareMany be n cnt outer) w).isOk = true ∧
    (run (treeCbtKeyPrepare be n nLwe rank nAtk) w).isOk = true ∧ (run (treeBddKeyPrepare be n nLwe rank nAtk ksGlwe) w).isOk = true :=
  ⟨(prepare_facts be n depth).ok w h, (prepareMany_facts be n cnt outer).ok w h, (cbtKeyPrepare_facts be n nLwe rank nAtk).ok w h,
   (bddKeyPrepare_facts be n nLwe rank nAtk ksGlwe).ok w h⟩

example : (run (treePrepare .ntt120 8 3) ⟨4100, 60 + tbPrepare .ntt120 8⟩).isOk = true ∧
    (run (treeBddKeyPrepare .fft64 8 3 2 2 true) ⟨4096, tbPrepare .fft64 8⟩).isOk = true ∧
    (run (treePrepare .fft64 8 3) ⟨4096, tbPrepare .fft64 8 - 8⟩).isOk = false := by decide

/-- the four compressed key wrappers -/
theorem compressed_key_wrappers_ok (k : K) (hn : n % 8 = 0) (w : Arena) :
    (tbSwitchingKeyEncryptSk be n k ≤ w.available → (run (treeSwitchingKeyCompressedEncryptSk be n k) w).isOk = true) ∧
    (tbAutomorphismKeyEncryptSk be n k ≤ w.available → (run (treeAutomorphismKeyCompressedEncryptSk be n k) w).isOk = true) ∧
    (tbTensorKeyEncryptSk be n k ≤ w.available → (run (treeTensorKeyCompressedEncryptSk be n k) w).isOk = true) ∧
    (tbGglweToGgswKeyEncryptSk be n k ≤ w.available → (run (treeGglweToGgswKeyCompressedEncryptSk be n k) w).isOk = true) :=
  ⟨(switchingKeyCompressed_facts be n k hn).ok w, (automorphismKeyCompressed_facts be n k hn).ok w,
   (tensorKeyCompressed_facts be n k hn).ok w, (gglweToGgswKeyCompressed_facts be n k hn).ok w⟩

example : (run (treeSwitchingKeyCompressedEncryptSk .fft64 8 ⟨2, 1, 4, 17, 2, 2⟩) ⟨4096, tbSwitchingKeyEncryptSk .fft64 8 ⟨2, 1, 4, 17, 2, 2⟩⟩).isOk = true ∧
    (run (treeGglweToGgswKeyCompressedEncryptSk .ntt120 8 ⟨2, 2, 3, 17, 1, 2⟩) ⟨4096, tbGglweToGgswKeyEncryptSk .ntt120 8 ⟨2, 2, 3, 17, 1, 2⟩⟩).isOk = true := by
  decide

/-- `glwe_mul_plain` (repaired formula, docs/fixes/12) for every offset and every effective precision of the operands -/
theorem glwe_mul_plain_ok (off : Nat) (res a : G) (bSize ea eb : Nat) (hn : n % 8 = 0) (hea : ea ≤ a.size) (heb : eb ≤ bSize)
    (hoff : cnvHi off a.b2k ≤ ea + eb) (w : Arena) (h : tbGlweMulPlain be n res a bSize ≤ w.available) :
    (run (treeGlweMulPlain be n off res a bSize ea eb) w).isOk = true :=
  (mulPlain_facts be n off res a bSize ea eb hn hea heb hoff).ok w h

example : (run (treeGlweMulPlain .fft64 8 0 ⟨1, 1, 17⟩ ⟨1, 3, 17⟩ 3 3 3) ⟨4096, tbGlweMulPlain .fft64 8 ⟨1, 1, 17⟩ ⟨1, 3, 17⟩ 3⟩).isOk = true := by decide

/-- `glwe_mul_plain_assign` -/
theorem glwe_mul_plain_assign_ok (off : Nat) (res : G) (aSize er ea : Nat) (hn : n % 8 = 0) (her : er ≤ res.size) (hea : ea ≤ aSize)
    (hoff : cnvHi off res.b2k ≤ ea + er) (w : Arena) (h : tbGlweMulPlain be n res res aSize ≤ w.available) :
    (run (treeGlweMulPlainAssign be n off res aSize er ea) w).isOk = true :=
  (mulPlainAssign_facts be n off res aSize er ea hn her hea hoff).ok w h

example : (run (treeGlweMulPlainAssign .ntt120 8 17 ⟨1, 3, 17⟩ 2 3 2) ⟨4096, tbGlweMulPlain .ntt120 8 ⟨1, 3, 17⟩ ⟨1, 3, 17⟩ 2⟩).isOk = true := by decide

/- FULL STATEMENT (false for the formula before docs/fixes/12): the accumulator was bounded by what `res` can hold
   although the body takes `a + b − cnv_offset_hi` limbs; also at realistic ring degrees. -/
theorem glwe_mul_plain_old_formula_counterexample :
    (run (treeGlweMulPlain .fft64 8 0 ⟨1, 1, 17⟩ ⟨1, 3, 17⟩ 3 3 3) ⟨4096, tbGlweMulPlainOld .fft64 8 ⟨1, 1, 17⟩ ⟨1, 3, 17⟩ 3⟩).isOk = false ∧
    tbGlweMulPlainOld .ntt120 1024 ⟨1, 1, 17⟩ ⟨1, 3, 17⟩ 3 < req (treeGlweMulPlain .ntt120 1024 0 ⟨1, 1, 17⟩ ⟨1, 3, 17⟩ 3 3 3) := by
  decide

/-- the pairwise query as the hal delegate answers it (result size = the caller's `cnv_offset`, `cnvPairwiseQuery`) covers what
`cnv_pairwise_apply_dft` takes on NTT120 always, on FFT64 from `N ≥ 8·(a + b)` on (there the 24·N normalisation scratch dominates) -/
theorem pairwise_query_covered (rs D q a b : Nat) :
    PairwiseCovered .ntt120 n rs D q a b ∧ (8 * (a + b) ≤ n → PairwiseCovered .fft64 n rs D q a b) :=
  ⟨pairwiseCovered_ntt120 n rs D q a b, pairwiseCovered_fft64 n rs D q a b⟩

example : PairwiseCovered .fft64 64 5 5 3 3 4 ∧ ¬ PairwiseCovered .fft64 8 5 5 3 3 4 := by
  unfold PairwiseCovered; decide

/-- the pairwise query called as its signature documents, `(cnv_offset, res_size, a_size, b_size)`: what the delegate answers
(for a result of `cnv_offset` limbs) covers the single take of `cnv_pairwise_apply_dft` on a destination of `res_size` limbs
when `res_size ≤ cnv_offset` -/
theorem cnv_pairwise_direct_query_ok (off size a b : Nat) (h : size ≤ off) (w : Arena)
    (hw : cnvPairwiseQuery be off size a b ≤ w.available) :
    (run (leaf (cnvPairwiseTmp be size a b)) w).isOk = true := by
  have hle : cnvPairwiseTmp be size a b ≤ cnvPairwiseQuery be off size a b := by
    unfold cnvPairwiseQuery
    cases be
    · simp only [cnvPairwiseTmp, cnvApplyTmp]; omega
    · simp only [cnvPairwiseTmp, cnvApplyTmp]
      split <;> split <;> omega
  exact hal_leaf_ok _ w (Nat.le_trans hle hw)

example : (run (leaf (cnvPairwiseTmp .fft64 3 4 2)) ⟨4096 + 8, cnvPairwiseQuery .fft64 5 3 4 2 + 56⟩).isOk = true := by decide

/- FULL STATEMENT (false: the delegate's swapped arguments, `known_findings.json`): for `cnv_offset < res_size` the answer is that of
   a narrower result — 448 < 576 bytes on FFT64 for (1, 3, 4, 2); 0 bytes on NTT120 for `cnv_offset = 0`. -/
theorem cnv_pairwise_direct_query_counterexample :
    (run (leaf (cnvPairwiseTmp .fft64 3 4 2)) ⟨4096, cnvPairwiseQuery .fft64 1 3 4 2⟩).isOk = false ∧
    (run (leaf (cnvPairwiseTmp .ntt120 3 4 2)) ⟨4096, cnvPairwiseQuery .ntt120 0 3 4 2⟩).isOk = false := by
  decide

example : cnvPairwiseQuery .fft64 1 3 4 2 = 448 ∧ cnvPairwiseTmp .fft64 3 4 2 = 576 := by decide

/-- `glwe_tensor_apply` / `glwe_tensor_apply_add_assign`, where the pairwise query is covered (`pairwise_query_covered`) -/
theorem glwe_tensor_apply_ok (off : Nat) (res a : G) (bSize ea eb : Nat) (hn : n % 8 = 0) (hea : ea ≤ a.size) (heb : eb ≤ bSize)
    (hb : 0 < a.b2k) (hoff : cnvHi off a.b2k ≤ ea + eb)
    (hpw : PairwiseCovered be n res.size (limbBoundWorst (a.size + bSize) res.size res.b2k a.b2k) (min a.size bSize) a.size bSize)
    (w : Arena) (h : tbGlweTensorApply be n res a bSize ≤ w.available) :
    (run (treeGlweTensorApply be n off res a bSize ea eb) w).isOk = true :=
  (tensorApply_facts be n off res a bSize ea eb hn hea heb hb hoff hpw).ok w h

example : (run (treeGlweTensorApply .fft64 64 19 ⟨1, 5, 19⟩ ⟨1, 3, 19⟩ 4 3 4) ⟨4096, tbGlweTensorApply .fft64 64 ⟨1, 5, 19⟩ ⟨1, 3, 19⟩ 4⟩).isOk = true ∧
    (run (treeGlweTensorApply .ntt120 8 19 ⟨1, 5, 19⟩ ⟨1, 3, 19⟩ 4 3 4) ⟨4096, tbGlweTensorApply .ntt120 8 ⟨1, 5, 19⟩ ⟨1, 3, 19⟩ 4⟩).isOk = true := by decide

/-- the hypothesis `cnv_offset_hi ≤ ea + eb` is a real (unchecked) precondition of the Rust body: beyond it
`a_size + b_size − cnv_offset_hi` wraps and the accumulator is sized by the result alone -/
example : (run (treeGlweTensorApply .ntt120 16 57 ⟨1, 6, 17⟩ ⟨1, 1, 13⟩ 1 1 1) ⟨4096, tbGlweTensorApply .ntt120 16 ⟨1, 6, 17⟩ ⟨1, 1, 13⟩ 1⟩).isOk = false := by
  decide

/- FULL STATEMENT (`glwe_tensor_apply_ok` without `hpw`): false.  `Module::cnv_pairwise_apply_dft_tmp_bytes` forwards its first two
   arguments swapped, so the formula reserves the pairwise buffer for `min(a, b)` result limbs instead of the accumulator's; for
   FFT64 and N ∈ {8, 16} nothing else in the maximum covers it.  Known finding
   `poulpy-hal/src/delegates/convolution.rs:cnv_pairwise_apply_dft_tmp_bytes:first-two-arguments-forwarded-swapped`
   (not repairable without editing the pinned suite, whose own call compensates for the swap); witness reproduced on the real code. -/
theorem glwe_tensor_apply_pairwise_delegate_counterexample :
    (run (treeGlweTensorApply .fft64 8 19 ⟨1, 5, 19⟩ ⟨1, 3, 19⟩ 4 3 4) ⟨4096, tbGlweTensorApply .fft64 8 ⟨1, 5, 19⟩ ⟨1, 3, 19⟩ 4⟩).isOk = false ∧
    (run (treeGlweTensorSquare .fft64 8 0 ⟨1, 6, 19⟩ ⟨1, 3, 19⟩ 3) ⟨4096, tbGlweTensorSquare .fft64 8 ⟨1, 6, 19⟩ ⟨1, 3, 19⟩⟩).isOk = false := by
  decide

/-- docs/fixes/13 (`cnv_apply_dft_tmp_bytes` called in declared order) does not change the value of the tensor formula while the
pairwise delegate swaps: the pairwise term, answered for `min(a, b)` result limbs, already dominates the diagonal query for any
result size (FFT64: `64·(min(a,b) + a + b) ≥ 64·(a + b − 1)`; NTT120: no dependence on the result size) -/
theorem glwe_tensor_apply_formula_value_unchanged (res a : G) (bSize : Nat) :
    tbGlweTensorApply be n res a bSize = tbGlweTensorApplyOld be n res a bSize := by
  unfold tbGlweTensorApply tbGlweTensorApplyOld cnvPairwiseQuery
  cases be
  · simp only [cnvApplyTmp, cnvPairwiseTmp]; omega
  · simp only [cnvApplyTmp, cnvPairwiseTmp]

example : tbGlweTensorApply .fft64 8 ⟨1, 5, 19⟩ ⟨1, 3, 19⟩ 4 = 1920 ∧ tbGlweTensorApplyOld .fft64 8 ⟨1, 5, 19⟩ ⟨1, 3, 19⟩ 4 = 1920 := by decide

/-- `glwe_tensor_square_apply`, where the pairwise query is covered -/
theorem glwe_tensor_square_apply_ok (off : Nat) (res a : G) (ea : Nat) (hn : n % 8 = 0) (hea : ea ≤ a.size) (hb : 0 < a.b2k)
    (hoff : cnvHi off a.b2k ≤ 2 * ea)
    (hpw : PairwiseCovered be n 0 (limbBoundWorst (2 * a.size) res.size res.b2k a.b2k) a.size a.size a.size)
    (w : Arena) (h : tbGlweTensorSquare be n res a ≤ w.available) :
    (run (treeGlweTensorSquare be n off res a ea) w).isOk = true :=
  (tensorSquare_facts be n off res a ea hn hea hb hoff hpw).ok w h

example : (run (treeGlweTensorSquare .ntt120 8 40 ⟨2, 3, 17⟩ ⟨2, 3, 17⟩ 3) ⟨4096, tbGlweTensorSquare .ntt120 8 ⟨2, 3, 17⟩ ⟨2, 3, 17⟩⟩).isOk = true := by decide

/-- `blind_rotation_execute` (CGGI): standard, block-binary and extended block-binary dispatch -/
theorem blind_rotation_execute_ok (nLwe block ext : Nat) (res : G) (brk : K) (hn : n % 8 = 0) (hr : res.rank = brk.rankOut)
    (hb0 : 0 < brk.b2k) (hd : 1 ≤ brk.dsize) (hext : 1 < ext → 1 < block) (hext0 : 1 ≤ ext) (w : Arena)
    (h : tbBlindRotation be n block ext res brk ≤ w.available) : (run (treeBlindRotation be n nLwe block ext res brk) w).isOk = true :=
  (blindRotation_facts be n nLwe block ext res brk hn hr hb0 hd hext hext0).ok w h

example : (run (treeBlindRotation .fft64 8 4 2 1 ⟨2, 2, 12⟩ (brkK 2 2 12 2)) ⟨4096, tbBlindRotation .fft64 8 2 1 ⟨2, 2, 12⟩ (brkK 2 2 12 2)⟩).isOk = true ∧
    (run (treeBlindRotation .ntt120 8 3 1 1 ⟨1, 2, 12⟩ (brkK 1 2 12 2)) ⟨4096, tbBlindRotation .ntt120 8 1 1 ⟨1, 2, 12⟩ (brkK 1 2 12 2)⟩).isOk = true ∧
    (run (treeBlindRotation .fft64 8 4 2 2 ⟨1, 2, 12⟩ (brkK 1 2 12 2)) ⟨4096, tbBlindRotation .fft64 8 2 2 ⟨1, 2, 12⟩ (brkK 1 2 12 2)⟩).isOk = true := by
  decide

/- FULL STATEMENT (false before docs/fixes/15 for rank ≥ 2: the `vmp` query was made for 2 columns) -/
theorem blind_rotation_block_old_formula_counterexample :
    (run (treeBlindRotation .fft64 8 4 2 1 ⟨2, 2, 12⟩ (brkK 2 2 12 2)) ⟨4096, tbBlindRotationBlockOld .fft64 8 (brkK 2 2 12 2)⟩).isOk = false ∧
    (run (treeBlindRotation .fft64 16 4 2 1 ⟨3, 3, 12⟩ (brkK 3 3 12 3)) ⟨4096, tbBlindRotationBlockOld .fft64 16 (brkK 3 3 12 3)⟩).isOk = false := by
  decide

/-- the blind-rotation keys: `n_lwe` GGSW encryptions (plain or compressed) -/
theorem blind_rotation_key_encrypt_sk_ok (nLwe : Nat) (brk : K) (hn : n % 8 = 0) (w : Arena) (h : tbGgxEncryptSk be n brk.size ≤ w.available) :
    (run (treeBrkEncryptSk be n nLwe brk) w).isOk = true ∧ (run (treeBrkCompressedEncryptSk be n nLwe brk) w).isOk = true :=
  ⟨(brkEncryptSk_facts be n nLwe brk hn).ok w h, (brkCompressedEncryptSk_facts be n nLwe brk hn).ok w h⟩

example : (run (treeBrkEncryptSk .fft64 8 3 (brkK 1 2 12 2)) ⟨4096, tbGgxEncryptSk .fft64 8 2⟩).isOk = true := by decide

/-- `circuit_bootstrapping_execute_to_constant` (repaired formula, docs/fixes/17) -/
theorem circuit_bootstrapping_execute_ok (nLwe block ext iters : Nat) (res : W) (brk atk tsk : K) (hn : n % 8 = 0)
    (hb0 : 0 < brk.b2k) (hd : 1 ≤ brk.dsize) (hext : 1 < ext → 1 < block) (hext0 : 1 ≤ ext)
    (hai : res.g.rank = atk.rankIn) (hao : res.g.rank = atk.rankOut) (hti : tsk.rankIn = res.g.rank) (hto : tsk.rankOut = res.g.rank)
    (w : Arena) (h : tbCbt be n block ext res brk atk tsk ≤ w.available) :
    (run (treeCbtConstant be n nLwe block ext iters res brk atk tsk) w).isOk = true :=
  (cbtConstant_facts be n nLwe block ext iters res brk atk tsk hn hb0 hd hext hext0 hai hao hti hto).ok w h

example : (run (treeCbtConstant .ntt120 64 2 1 1 5 ⟨⟨1, 3, 17⟩, 1⟩ (brkK 1 3 19 1) ⟨1, 1, 5, 13, 2, 1⟩ ⟨1, 1, 4, 7, 4, 1⟩)
    ⟨4096, tbCbt .ntt120 64 1 1 ⟨⟨1, 3, 17⟩, 1⟩ (brkK 1 3 19 1) ⟨1, 1, 5, 13, 2, 1⟩ ⟨1, 1, 4, 7, 4, 1⟩⟩).isOk = true := by decide

/- FULL STATEMENT (false before docs/fixes/17): every phase was queried with the result's layout; with a blind-rotation
   key more precise than the result the inner assertion of `glwe_trace` fails. -/
theorem circuit_bootstrapping_old_formula_counterexample :
    (run (treeCbtConstant .ntt120 64 2 1 1 5 ⟨⟨1, 3, 17⟩, 1⟩ (brkK 1 3 19 1) ⟨1, 1, 5, 13, 2, 1⟩ ⟨1, 1, 4, 7, 4, 1⟩)
      ⟨4096, tbCbtOld .ntt120 64 1 1 ⟨⟨1, 3, 17⟩, 1⟩ (brkK 1 3 19 1) ⟨1, 1, 5, 13, 2, 1⟩ ⟨1, 1, 4, 7, 4, 1⟩⟩).isOk = false := by
  decide

/-- the circuit-bootstrapping key and the BDD key (docs/fixes/16: with the term of the optional GLWE→GLWE key) -/
theorem cbt_and_bdd_key_encrypt_sk_ok (nLwe nAtk : Nat) (brk atk tsk ksLwe : K) (ksGlwe : Option K) (hn : n % 8 = 0)
    (hr : 1 ≤ ksLwe.rankIn) (w : Arena) :
    (tbCbtKeyEncryptSk be n brk atk tsk ≤ w.available → (run (treeCbtKeyEncryptSk be n nLwe nAtk brk atk tsk) w).isOk = true) ∧
    (tbBddKeyEncryptSk be n brk atk tsk ksLwe ksGlwe ≤ w.available →
      (run (treeBddKeyEncryptSk be n nLwe nAtk brk atk tsk ksLwe ksGlwe) w).isOk = true) :=
  ⟨(cbtKeyEncryptSk_facts be n nLwe nAtk brk atk tsk hn).ok w, (bddKeyEncryptSk_facts be n nLwe nAtk brk atk tsk ksLwe ksGlwe hn hr).ok w⟩

example : (run (treeBddKeyEncryptSk .fft64 8 2 2 (brkK 1 2 12 1) ⟨1, 1, 2, 11, 1, 1⟩ ⟨1, 1, 2, 10, 1, 1⟩ ⟨1, 1, 2, 4, 1, 1⟩ (some ⟨1, 1, 6, 4, 2, 1⟩))
    ⟨4096, tbBddKeyEncryptSk .fft64 8 (brkK 1 2 12 1) ⟨1, 1, 2, 11, 1, 1⟩ ⟨1, 1, 2, 10, 1, 1⟩ ⟨1, 1, 2, 4, 1, 1⟩ (some ⟨1, 1, 6, 4, 2, 1⟩)⟩).isOk = true := by
  decide

/- FULL STATEMENT (false before docs/fixes/16): a GLWE→GLWE key larger than the other keys has no term -/
theorem bdd_key_old_formula_counterexample :
    (run (treeBddKeyEncryptSk .fft64 8 2 2 (brkK 1 2 12 1) ⟨1, 1, 2, 11, 1, 1⟩ ⟨1, 1, 2, 10, 1, 1⟩ ⟨1, 1, 2, 4, 1, 1⟩ (some ⟨1, 1, 6, 4, 2, 1⟩))
      ⟨4096, tbBddKeyEncryptSk .fft64 8 (brkK 1 2 12 1) ⟨1, 1, 2, 11, 1, 1⟩ ⟨1, 1, 2, 10, 1, 1⟩ ⟨1, 1, 2, 4, 1, 1⟩ none⟩).isOk = false := by
  decide

/-- `fhe_uint_prepare_custom_multi_thread` (docs/fixes/18): `threads` regions of the per-thread size, in each the GGSW,
the (unaligned) LWE, then bit extraction, circuit bootstrapping and `ggsw_prepare` -/
theorem fhe_uint_prepare_ok (threads nLwe block iters bitsPer idx : Nat) (res : W) (bits : G) (brk atk tsk ksLwe : K) (ksGlwe : Option K)
    (hn : n % 8 = 0) (hb0 : 0 < brk.b2k) (hd : 1 ≤ brk.dsize)
    (hai : res.g.rank = atk.rankIn) (hao : res.g.rank = atk.rankOut) (hti : tsk.rankIn = res.g.rank) (hto : tsk.rankOut = res.g.rank)
    (hout : ksLwe.rankOut = 1) (hnone : ksGlwe = none → bits.rank = ksLwe.rankIn)
    (hsome : ∀ kg, ksGlwe = some kg → bits.rank = kg.rankIn ∧ kg.rankOut = 1 ∧ ksLwe.rankIn = 1)
    (w : Arena) (h : threads * tbFheUintPrepare be n block res bits brk atk tsk ksLwe ksGlwe ≤ w.available) :
    (run (treeFheUintPrepare be n threads nLwe block iters bitsPer idx res bits brk atk tsk ksLwe ksGlwe) w).isOk = true := by
  obtain ⟨f1, f2⟩ := fheUintPrepareWorker_req be n nLwe block iters bitsPer idx res bits brk atk tsk ksLwe ksGlwe hn hb0 hd hai hao hti hto
    hout hnone hsome
  have hlen : tbFheUintPrepare be n block res bits brk atk tsk ksLwe ksGlwe % 64 = 0 := by
    unfold tbFheUintPrepare; exact roundUp_mod64 _
  unfold treeFheUintPrepare
  apply run_ok
  · simp only [fits, Bool.and_eq_true, Bool.or_eq_true, decide_eq_true_eq]
    exact ⟨⟨Or.inr f2, f1⟩, trivial⟩
  · simp only [req, parNeed_of_aligned hlen, ← parNeed_eq_parReq]
    omega

example : (run (treeFheUintPrepare .fft64 8 2 2 1 3 2 1 ⟨⟨1, 2, 13⟩, 1⟩ ⟨1, 2, 13⟩ (brkK 1 2 12 1) ⟨1, 1, 2, 11, 1, 1⟩ ⟨1, 1, 2, 10, 1, 1⟩ ⟨1, 1, 2, 4, 1, 1⟩ none)
    ⟨4104, 56 + 2 * tbFheUintPrepare .fft64 8 1 ⟨⟨1, 2, 13⟩, 1⟩ ⟨1, 2, 13⟩ (brkK 1 2 12 1) ⟨1, 1, 2, 11, 1, 1⟩ ⟨1, 1, 2, 10, 1, 1⟩ ⟨1, 1, 2, 4, 1, 1⟩ none⟩).isOk = true := by
  decide

/- FULL STATEMENT (false before docs/fixes/18): the per-thread size counted the circuit bootstrapping only; with a small
   bootstrapping layout the bit extraction (`lwe_from_glwe`) needs more.  Witness reproduced on the real code (docs/C12.md §9). -/
theorem fhe_uint_prepare_old_formula_counterexample :
    (run (.par 1 (tbFheUintPrepareOld .fft64 32 2 ⟨⟨1, 2, 13⟩, 1⟩ ⟨1, 2, 13⟩ (brkK 1 2 12 1) ⟨1, 1, 2, 11, 1, 1⟩ ⟨1, 1, 2, 10, 1, 1⟩)
        (treeFheUintPrepareWorker .fft64 32 2 2 5 2 1 ⟨⟨1, 2, 13⟩, 1⟩ ⟨1, 2, 13⟩ (brkK 1 2 12 1) ⟨1, 1, 2, 11, 1, 1⟩ ⟨1, 1, 2, 10, 1, 1⟩ ⟨1, 1, 2, 4, 2, 1⟩ none) .done)
      ⟨4096, tbFheUintPrepareOld .fft64 32 2 ⟨⟨1, 2, 13⟩, 1⟩ ⟨1, 2, 13⟩ (brkK 1 2 12 1) ⟨1, 1, 2, 11, 1, 1⟩ ⟨1, 1, 2, 10, 1, 1⟩⟩).isOk = false ∧
    tbFheUintPrepareOld .fft64 32 2 ⟨⟨1, 2, 13⟩, 1⟩ ⟨1, 2, 13⟩ (brkK 1 2 12 1) ⟨1, 1, 2, 11, 1, 1⟩ ⟨1, 1, 2, 10, 1, 1⟩ = 10496 := by
  decide

/-- the BDD blind rotations, the blind selection, the stateful blind retrieval and `GLWEBlindRetriever::retrieve`
(docs/fixes/14: with the difference buffer of `cmux_assign_neg`) -/
theorem bdd_blind_ops_ok (cells bitMask steps : Nat) (res : G) (k : K) (hn : n % 8 = 0)
    (hres : res.rank = k.rankOut) (hb : res.b2k = k.b2k) (hb0 : 0 < k.b2k) (hd : 1 ≤ k.dsize) (w : Arena) :
    (tbGlweBlindRotation be n res k ≤ w.available → (run (treeGlweBlindRotation be n bitMask res k) w).isOk = true) ∧
    (tbGlweBlindRotation be n res k ≤ w.available → (run (treeGgswBlindRotation be n cells bitMask res k) w).isOk = true) ∧
    (tbScalarToGgswBlindRotation be n res k ≤ w.available → (run (treeScalarToGgswBlindRotation be n cells bitMask res k) w).isOk = true) ∧
    (tbGlweBlindRotation be n res k ≤ w.available → (run (treeGlweBlindSelection be n steps res k) w).isOk = true) ∧
    (tbCswap be n res res k ≤ w.available → (run (treeGlweBlindRetrieval be n steps res k) w).isOk = true) ∧
    (tbRetrieve be n res k ≤ w.available → (run (treeRetrieve be n steps res k) w).isOk = true) :=
  ⟨(glweBlindRotation_facts be n bitMask res k hn hres hb hb0 hd).ok w, (ggswBlindRotation_facts be n cells bitMask res k hn hres hb hb0 hd).ok w,
   (scalarToGgswBlindRotation_facts be n cells bitMask res k hn hres hb hb0 hd).ok w, (glweBlindSelection_facts be n steps res k hn hres hb hb0 hd).ok w,
   (glweBlindRetrieval_facts be n steps res k hn hb hb0 hd).ok w, (retrieve_facts be n steps res k hn hres hb hb0 hd).ok w⟩

example : (run (treeScalarToGgswBlindRotation .fft64 16 4 3 ⟨1, 3, 17⟩ ⟨1, 1, 3, 17, 3, 1⟩) ⟨4096, tbScalarToGgswBlindRotation .fft64 16 ⟨1, 3, 17⟩ ⟨1, 1, 3, 17, 3, 1⟩⟩).isOk = true ∧
    (run (treeRetrieve .fft64 16 2 ⟨1, 3, 17⟩ ⟨1, 1, 3, 17, 3, 1⟩) ⟨4096, tbRetrieve .fft64 16 ⟨1, 3, 17⟩ ⟨1, 1, 3, 17, 3, 1⟩⟩).isOk = true := by decide

/- FULL STATEMENT (false before docs/fixes/14): `retrieve_tmp_bytes` was `cmux_tmp_bytes`, `cmux_assign_neg` takes a GLWE more -/
theorem retrieve_old_formula_counterexample :
    (run (treeRetrieve .fft64 16 2 ⟨1, 3, 17⟩ ⟨1, 1, 3, 17, 3, 1⟩) ⟨4096, tbCmux .fft64 16 ⟨1, 3, 17⟩ ⟨1, 1, 3, 17, 3, 1⟩⟩).isOk = false := by
  decide

/-- the two-word circuits (`execute_bdd_circuit_2w_to_1w(_multi_thread)`) and `FheUint::encrypt_sk` / `decrypt` -/
theorem bdd_2w_to_1w_and_fhe_uint_ok (threads bits state rounds iters : Nat) (res : G) (k atk : K) (hn : n % 8 = 0)
    (hres : res.rank = k.rankOut) (hb : res.b2k = k.b2k) (hb0 : 0 < k.b2k) (hd : 1 ≤ k.dsize)
    (hai : res.rank = atk.rankIn) (hao : res.rank = atk.rankOut) (w : Arena) :
    (tbBdd2w1w be n threads bits state res k atk ≤ w.available → (run (treeBdd2w1w be n threads bits state rounds iters res k atk) w).isOk = true) ∧
    (tbFheUintEncryptSk be n res ≤ w.available → (run (treeFheUintEncryptSk be n res) w).isOk = true) ∧
    (tbFheUintDecrypt be n res ≤ w.available → (run (treeFheUintDecrypt be n res) w).isOk = true) :=
  ⟨(bdd2w1w_facts be n threads bits state rounds iters res k atk hn hres hb hb0 hd hai hao).ok w,
   (fheUintEncryptSk_facts be n res hn).ok w, (fheUintDecrypt_facts be n res hn).ok w⟩

example : (run (treeBdd2w1w .fft64 8 2 4 3 2 2 ⟨1, 2, 17⟩ ⟨1, 1, 3, 17, 2, 1⟩ ⟨1, 1, 3, 17, 2, 1⟩)
    ⟨4096, tbBdd2w1w .fft64 8 2 4 3 ⟨1, 2, 17⟩ ⟨1, 1, 3, 17, 2, 1⟩ ⟨1, 1, 3, 17, 2, 1⟩⟩).isOk = true := by decide

/-- the CKKS products: `ckks_mul`, `ckks_square`, `ckks_mul_pt_vec_rnx` (`_znx` is `glwe_mul_plain`), `ckks_mul_pt_const` -/
theorem ckks_products_ok (off ea eb : Nat) (ct a : G) (t : K) (ptSize : Nat) (hn : n % 8 = 0)
    (hea : ea ≤ ct.size) (heb : eb ≤ ct.size) (hb : 0 < ct.b2k) (hea' : ea ≤ a.size)
    (hoff : cnvHi off ct.b2k ≤ ea + eb) (hoff2 : cnvHi off ct.b2k ≤ 2 * ea) (hoff3 : cnvHi off a.b2k ≤ ea + ptSize)
    (hpw : PairwiseCovered be n ct.size (limbBoundWorst (ct.size + ct.size) ct.size ct.b2k ct.b2k) (min ct.size ct.size) ct.size ct.size)
    (hpws : PairwiseCovered be n 0 (limbBoundWorst (2 * ct.size) ct.size ct.b2k ct.b2k) ct.size ct.size ct.size) (w : Arena) :
    (tbCkksMul be n ct t ≤ w.available → (run (treeCkksMul be n off ea eb ct t) w).isOk = true) ∧
    (tbCkksSquare be n ct t ≤ w.available → (run (treeCkksSquare be n off ea ct t) w).isOk = true) ∧
    (tbCkksMulPtVecRnx be n ct a ptSize ≤ w.available → (run (treeCkksMulPtVecRnx be n off ct a ptSize ea) w).isOk = true) ∧
    (tbCkksMulPtConst be n ct a ptSize ≤ w.available → (run (treeCkksMulPtConst be n off ct a ptSize) w).isOk = true) :=
  ⟨(ckksMul_facts be n off ea eb ct t hn hea heb hb hoff hpw).ok w, (ckksSquare_facts be n off ea ct t hn hea hb hoff2 hpws).ok w,
   (ckksMulPtVecRnx_facts be n off ct a ptSize ea hn hea' hoff3).ok w, (ckksMulPtConst_facts be n off ct a ptSize hn).ok w⟩

example : (run (treeCkksMul .fft64 8 57 3 3 ⟨1, 3, 19⟩ ⟨1, 1, 3, 19, 3, 1⟩) ⟨4096, tbCkksMul .fft64 8 ⟨1, 3, 19⟩ ⟨1, 1, 3, 19, 3, 1⟩⟩).isOk = true := by decide

/-- every composite of the form `GLWE::bytes_of(res) + X.max(ckks_add_tmp_bytes)` — `ckks_mul_add_*`, `ckks_mul_sub_*`,
`ckks_dot_product_pt_*` — runs whenever its product `X` does -/
theorem ckks_composite_ok (res : G) (tx : AllocTree) (x : Nat) (hn : n % 8 = 0) (hx : Facts tx x) (w : Arena)
    (h : tbCkksComposite n res x ≤ w.available) : (run (treeCkksComposite n res tx) w).isOk = true :=
  (ckksComposite_facts res hn hx).ok w h

example : (run (treeCkksComposite 8 ⟨1, 3, 19⟩ (treeCkksMul .fft64 8 57 3 3 ⟨1, 3, 19⟩ ⟨1, 1, 3, 19, 3, 1⟩))
    ⟨4096, tbCkksComposite 8 ⟨1, 3, 19⟩ (tbCkksMul .fft64 8 ⟨1, 3, 19⟩ ⟨1, 1, 3, 19, 3, 1⟩)⟩).isOk = true := by decide

/-- `ckks_mul_many` (`levels ≤ ceil_log2(cnt)` levels of halving) and `ckks_dot_product_ct` (fast path) -/
theorem ckks_many_ok (off ea eb cnt levels : Nat) (ct : G) (t : K) (hn : n % 8 = 0)
    (hea : ea ≤ ct.size) (heb : eb ≤ ct.size) (hb : 0 < ct.b2k) (hoff : cnvHi off ct.b2k ≤ ea + eb)
    (hpw : PairwiseCovered be n ct.size (limbBoundWorst (ct.size + ct.size) ct.size ct.b2k ct.b2k) (min ct.size ct.size) ct.size ct.size)
    (hl : 2 < cnt ∧ levels ≤ ceilLog2 cnt ∨ levels = 0) (w : Arena) :
    (tbCkksMulMany be n cnt ct t ≤ w.available → (run (treeCkksMulMany be n off ea eb ct t levels) w).isOk = true) ∧
    (tbCkksDotProductCt be n cnt ct t ≤ w.available → (run (treeCkksDotProductCt be n off ea eb cnt ct t) w).isOk = true) := by
  refine ⟨fun h => ?_, (ckksDotProductCt_facts be n off ea eb cnt ct t hn hea heb hb hoff hpw).ok w⟩
  refine ((ckksMulMany_facts be n off ea eb ct t hn hea heb hb hoff hpw levels).mono ?_).ok w h
  unfold tbCkksMulMany
  rcases hl with ⟨h2, hlv⟩ | rfl
  · rw [if_neg (by omega)]
    have : 2 * levels * ct.bytes n ≤ 2 * ceilLog2 cnt * ct.bytes n := Nat.mul_le_mul_right _ (Nat.mul_le_mul_left 2 hlv)
    omega
  · split <;> omega

example : (run (treeCkksMulMany .fft64 8 57 3 3 ⟨1, 3, 19⟩ ⟨1, 1, 3, 19, 3, 1⟩ 2) ⟨4096, tbCkksMulMany .fft64 8 4 ⟨1, 3, 19⟩ ⟨1, 1, 3, 19, 3, 1⟩⟩).isOk = true ∧
    (run (treeCkksDotProductCt .fft64 8 57 3 3 3 ⟨1, 3, 19⟩ ⟨1, 1, 3, 19, 3, 1⟩) ⟨4096, tbCkksDotProductCt .fft64 8 3 ⟨1, 3, 19⟩ ⟨1, 1, 3, 19, 3, 1⟩⟩).isOk = true := by
  decide

/-- `ckks_all_ops_tmp_bytes` / `ckks_all_ops_with_atk_tmp_bytes` dominate every query they are the maximum of: a scratch of
that size serves each listed operation (with the sufficiency theorem of that operation) -/
theorem ckks_all_ops_dominates (ct : G) (t atk : K) (ptSize : Nat) :
    (∀ x ∈ [tbCkksEncryptSk be n ct.size, tbCkksDecrypt be n ct.size, tbCkksShiftNorm n, tbCkksPtVecZnx n, tbCkksPtVecRnx n ptSize,
        tbCkksShift n, tbCkksMul be n ct t, tbCkksSquare be n ct t, tbCkksMulPtVecZnx be n ct ct ptSize, tbCkksMulPtVecRnx be n ct ct ptSize,
        tbCkksMulPtConst be n ct ct ptSize, tbPrepare be n, tbTensorKeyEncryptSk be n t], x ≤ tbCkksAllOps be n ct t ptSize) ∧
    (∀ x ∈ [tbCkksAllOps be n ct t ptSize, tbCkksRotate be n ct atk, tbAutomorphismKeyEncryptSk be n atk, tbPrepare be n],
        x ≤ tbCkksAllOpsAtk be n ct t atk ptSize) :=
  ⟨(le_foldl_max _ 0).2, (le_foldl_max _ 0).2⟩

example : tbCkksMul .fft64 8 ⟨1, 3, 19⟩ ⟨1, 1, 3, 19, 3, 1⟩ ≤ tbCkksAllOps .fft64 8 ⟨1, 3, 19⟩ ⟨1, 1, 3, 19, 3, 1⟩ 2 ∧
    0 < tbCkksAllOps .fft64 8 ⟨1, 3, 19⟩ ⟨1, 1, 3, 19, 3, 1⟩ 2 := by decide

end batch3

/-! ## "scratch contents never matter", as far as a model can carry it

The numeric models of the operations are pure functions with no scratch argument.  The refinement that
justifies this: an operation's use of its scratch is a `ScratchProg.Prog` (reads and writes of the cells of
its window, a take returning whatever was there); if every read of a cell is preceded by a write of it
(`WBR []`), the result does not depend on the initial contents.  Proved once, instantiated for the
operations whose footprint is structurally evident; the two-fill runs of ./check remain the tie to the
implementation (they found the one real violation of this half, the un-zeroed `res_dft`, repaired in d3c2e96). -/

section contents
open ScratchProg

/-- **Write before read ⇒ the result is independent of the initial scratch contents.** -/
theorem write_before_read_independent {Val α : Type} (p : Prog Val α) (h : WBR [] p) (m m' : Nat → Val) :
    (run p m).1 = (run p m').1 :=
  ScratchProg.write_before_read_independent p h m m'

example : (run (Prog.write 3 (5 : Int) (Prog.read 3 (fun v => Prog.ret (v + 1)))) (fun _ => 0)).1 = 6 ∧
          (run (Prog.write 3 (5 : Int) (Prog.read 3 (fun v => Prog.ret (v + 1)))) (fun _ => 99)).1 = 6 := by decide

/-- the hypothesis is needed: a program that reads a cell it has not written returns what the scratch held
(this is the shape of the repaired `res_dft` defect: accumulate into a limb never written) -/
theorem read_before_write_dependent :
    ¬ (∀ (p : Prog Int Int) (m m' : Nat → Int), (run p m).1 = (run p m').1) := by
  intro h
  have := h (Prog.read 0 (fun v => Prog.write 0 (v + 1) (Prog.ret v))) (fun _ => 0) (fun _ => 1)
  revert this; decide

/-- sequencing and loops preserve write-before-read (how the instances below are built) -/
theorem wbr_compositional {Val α β : Type} (p : Prog Val α) (f : α → Prog Val β) (W : List Nat)
    (hp : WBR W p) (hf : ∀ a W', (∀ c, c ∈ W → c ∈ W') → WBR W' (f a)) : WBR W (p.bind f) :=
  WBR_bind p f W hp hf

example : WBR [] ((Prog.write 0 (1 : Int) (Prog.ret ())).bind (fun _ => Prog.read 0 (fun v => Prog.ret v))) := by
  simp [Prog.bind, WBR]

/-- a whole-buffer kernel `dst := f(src)` with initialised sources initialises its destination
(`vec_znx_dft_apply`, `zero`, `copy`, `normalize` into a temporary taken from scratch) -/
theorem kernel_initialises_destination {Val α : Type} (src dst : List Nat) (f : List Val → List Val) (k : Prog Val α) (W : List Nat)
    (hs : ∀ c, c ∈ src → c ∈ W) (hf : ∀ vs, (f vs).length = dst.length) (hk : WBR (dst.reverse ++ W) k) :
    WBR W (kernel src dst f k) :=
  WBR_kernel src dst f k W hs hf hk

example : WBR [] (kernel [] [0, 1] (fun _ => [(4 : Int), 5]) (kernel [0, 1] [2] (fun vs => [vs.sum]) (Prog.read 2 (fun v => Prog.ret v)))) := by
  refine WBR_kernel _ _ _ _ _ (by simp) (by simp) (WBR_kernel _ _ _ _ _ (by simp) (by simp) ?_)
  simp [WBR]

/-- `vec_znx_rotate_assign`, `vec_znx_automorphism_assign`, `vec_znx_mul_xp_minus_one_assign`,
`vec_znx_big_automorphism_assign`: the one-limb temporary is a copy of the limb before it is read -/
theorem assign_via_tmp_scratch_independent {Val : Type} (size : Nat) (limb : Nat → Val) (g : Val → Val) (m m' : Nat → Val) :
    (run (progAssignViaTmp size limb g) m).1 = (run (progAssignViaTmp size limb g) m').1 :=
  write_before_read_independent _ (wbr_assignViaTmp size limb g) m m'

example : (run (progAssignViaTmp 3 (fun i => (10 * i : Int)) (· + 1)) (fun _ => 777)).1 = [1, 11, 21] := by decide

/-- `vec_znx_normalize_assign` (and every normalisation whose first step writes the carry buffer) -/
theorem normalize_assign_scratch_independent {Val : Type} (limbs : List Val) (first : Val → Val × Val) (step : Val → Val → Val × Val)
    (m m' : Nat → Val) :
    (run (progNormalizeAssign limbs first step) m).1 = (run (progNormalizeAssign limbs first step) m').1 :=
  write_before_read_independent _ (wbr_normalizeAssign limbs first step) m m'

example : (run (progNormalizeAssign [(7 : Int), 9, 12] (fun l => (l % 8, l / 8)) (fun l c => ((l + c) % 8, (l + c) / 8))) (fun _ => 123)).1 = [0, 2, 4] := by
  decide

/-- `glwe_decrypt`: `c0_big` is filled with zero, `ci_dft` is written by `vec_znx_dft_apply`, the carry buffer by
the first normalisation step — for every rank and whatever the kernels compute -/
theorem glwe_decrypt_scratch_independent {Val : Type} (rank : Nat) (zero : Val) (dftCol : Nat → Val) (svp : Nat → Val → Val)
    (acc : Val → Val → Val) (addSmall : Val → Val) (normFirst : Val → Val × Val) (normRest : Val → Val → Val) (m m' : Nat → Val) :
    (run (progGlweDecrypt rank zero dftCol svp acc addSmall normFirst normRest) m).1 =
    (run (progGlweDecrypt rank zero dftCol svp acc addSmall normFirst normRest) m').1 :=
  write_before_read_independent _ (wbr_glweDecrypt rank zero dftCol svp acc addSmall normFirst normRest) m m'

example : (run (progGlweDecrypt 2 (0 : Int) (fun i => i + 1) (fun i d => (i + 2) * d) (· + ·) (· + 100) (fun c => (c % 10, c / 10)) (· + ·))
    (fun _ => 55)).1 = 18 := by decide

/-- `glwe_encrypt_sk` / `glwe_encrypt_zero_sk` / the rows of `gglwe_encrypt_sk`, `ggsw_encrypt_sk` -/
theorem glwe_encrypt_sk_scratch_independent {Val : Type} (cols : Nat) (zero : Val) (dftCol : Nat → Val) (svp : Nat → Val → Val)
    (bigNorm : Val → Val × Val) (fin : Val → Val → Val) (sub : Val → Val → Val) (addNoise : Val → Val)
    (normFirst : Val → Val × Val) (normRest : Val → Val → Val) (m m' : Nat → Val) :
    (run (progEncSkInternal cols zero dftCol svp bigNorm fin sub addNoise normFirst normRest) m).1 =
    (run (progEncSkInternal cols zero dftCol svp bigNorm fin sub addNoise normFirst normRest) m').1 :=
  write_before_read_independent _ (wbr_encSkInternal cols zero dftCol svp bigNorm fin sub addNoise normFirst normRest) m m'

example : (run (progEncSkInternal 3 (0 : Int) (fun i => i + 1) (fun _ d => 2 * d) (fun d => (d, 1)) (· + ·) (· - ·) (· + 7)
    (fun c => (c, 0)) (· + ·)) (fun _ => -5)).1 = -1 := by decide

/-- `glwe_keyswitch` (same radix, `dsize = 1`): `res_dft.zero()`, `a_dft` from `vec_znx_dft_apply`, the vmp buffer and
the carry buffer written before use -/
theorem glwe_keyswitch_scratch_independent {Val : Type} (cols : Nat) (zero aDft : Val) (vmpTmp : Val → Val) (vmp : Val → Val → Val)
    (addSmall : Val → Val) (normFirst : Nat → Val → Val × Val) (normRest : Val → Val → Val) (m m' : Nat → Val) :
    (run (progKeyswitch cols zero aDft vmpTmp vmp addSmall normFirst normRest) m).1 =
    (run (progKeyswitch cols zero aDft vmpTmp vmp addSmall normFirst normRest) m').1 :=
  write_before_read_independent _ (wbr_keyswitch cols zero aDft vmpTmp vmp addSmall normFirst normRest) m m'

example : (run (progKeyswitch 2 (0 : Int) 3 (· * 2) (· + ·) (· + 1) (fun j r => (r + j, j)) (· * ·)) (fun _ => 42)).1 = [0, 11] := by decide

/-- `glwe_mul_plain` / `glwe_tensor_apply`: the prepared operands, the preparation temporary, the accumulator, the
convolution buffer and the carry are all written before they are read -/
theorem cnv_product_scratch_independent {Val : Type} (cols : Nat) (tmpA tmpB : Val) (prepL prepR : Val → Val) (cnvTmp : Val → Val → Val)
    (cnv : Nat → Val → Val → Val → Val) (normFirst : Val → Val × Val) (normRest : Val → Val → Val) (m m' : Nat → Val) :
    (run (progCnvProduct cols tmpA tmpB prepL prepR cnvTmp cnv normFirst normRest) m).1 =
    (run (progCnvProduct cols tmpA tmpB prepL prepR cnvTmp cnv normFirst normRest) m').1 :=
  write_before_read_independent _ (wbr_cnvProduct cols tmpA tmpB prepL prepR cnvTmp cnv normFirst normRest) m m'

example : (run (progCnvProduct 2 (2 : Int) 3 (· + 1) (· * 2) (· + ·) (fun j a b t => a * b + t + j) (fun r => (r, 1)) (· + ·)) (fun _ => 99)).1 = [28, 29] := by
  decide

/-- block-binary blind rotation, one block (`acc_dft` from the DFT of the accumulator, `acc_add_dft` zeroed, the product,
`svp` and inverse-DFT buffers written by their kernels) -/
theorem blind_rotation_block_scratch_independent {Val : Type} (block : Nat) (accDft zero : Val) (vmpTmp : Nat → Val → Val)
    (vmp : Nat → Val → Val → Val) (svp : Nat → Val → Val) (upd : Val → Val → Val → Val) (idft : Val → Val) (addSmall : Val → Val)
    (normFirst : Val → Val × Val) (normRest : Val → Val → Val) (m m' : Nat → Val) :
    (run (progBlindRotationBlock block accDft zero vmpTmp vmp svp upd idft addSmall normFirst normRest) m).1 =
    (run (progBlindRotationBlock block accDft zero vmpTmp vmp svp upd idft addSmall normFirst normRest) m').1 :=
  write_before_read_independent _ (wbr_blindRotationBlock block accDft zero vmpTmp vmp svp upd idft addSmall normFirst normRest) m m'

example : (run (progBlindRotationBlock 2 (5 : Int) 0 (fun i a => a + i) (fun _ a t => a * t) (fun i r => r - i) (fun s x r => s + x - r)
    (· * 2) (· + 1) (fun b => (b, 7)) (· + ·)) (fun _ => 1234)).1 = 6 := by decide

/-! ### the poulpy-ckks product path: `take_mul_tmp`, the tensor, the rescaled copies

The evaluator's products take buffers from the scratch, fill them with one operation that runs on the rest, and consume them
with another that runs on the same rest (`Model/ScratchProg.lean`, `progViaTmp`, `fillBufs`); the sub-operations are the
programs above placed on the rest (`Prog.shift`). -/

/-- kernels used by the non-vacuity examples below (integers instead of limbs) -/
def exProduct (x y : Int) : ProductKernels Int :=
  ⟨2, x, y, (· + 1), (· * 2), (· + ·), fun j a b t => a * b + t + j, fun r => (r, 1), (· + ·), List.sum⟩
def exRelin : RelinKernels Int := ⟨2, 0, (· + 3), (· * 2), (· + ·), (· + 1), fun j r => (r + j, j), (· * ·)⟩
def exShift : ShiftKernels Int := ⟨1, 2, 0, fun x j => x + j, fun x j c => x + c + j, fun x j c => (x + c, c + j)⟩

/-- `ckks_mul_into / _assign`, `ckks_square_into / _assign`: the tensor taken from the scratch is written by the tensor product
before the relinearisation reads it, and neither of them reads a cell of the rest that it has not written -/
theorem ckks_mul_scratch_independent {Val : Type} (P : ProductKernels Val) (R : RelinKernels Val) (m m' : Nat → Val) :
    (run (progCkksMul P R) m).1 = (run (progCkksMul P R) m').1 :=
  write_before_read_independent _ (wbr_ckksMul P R) m m'

example : (run (progCkksMul (exProduct 2 3) exRelin) (fun _ => 99)).1 = [0, 182] := by decide

/-- the composites `ckks_mul_add_ct_into` / `ckks_mul_sub_ct_into` and `ckks_mul_add_pt_*` / `ckks_mul_sub_pt_*` / a term of
`ckks_dot_product_pt_*`: `take_mul_tmp(dst)` is written by the product before `ckks_add_assign` / `ckks_sub_assign` reads it -/
theorem ckks_composite_scratch_independent {Val : Type} (P : ProductKernels Val) (R : RelinKernels Val) (packCt : List Val → Val)
    (S : ShiftKernels Val) (m m' : Nat → Val) :
    (run (progCkksMulAddCt P R packCt S) m).1 = (run (progCkksMulAddCt P R packCt S) m').1 ∧
    (run (progCkksMulAddPt P S) m).1 = (run (progCkksMulAddPt P S) m').1 :=
  ⟨write_before_read_independent _ (wbr_ckksMulAddCt P R packCt S) m m', write_before_read_independent _ (wbr_ckksMulAddPt P S) m m'⟩

example : (run (progCkksMulAddCt (exProduct 2 3) exRelin List.sum exShift) (fun _ => 99)).1 = [365, 364] ∧
    (run (progCkksMulAddPt (exProduct 2 3) exShift) (fun _ => 7)).1 = [115, 114] := by decide

/-- `ckks_dot_product_ct`, fast path: every rescaled copy is written by its `ckks_rescale_into` before a tensor product reads
it, the tensor accumulator by the first `glwe_tensor_apply` before `glwe_tensor_apply_add_assign` reads it -/
theorem ckks_dot_product_ct_scratch_independent {Val : Type} (cnt : Nat) (hcnt : 0 < cnt) (S : ShiftKernels Val) (input : Nat → Val)
    (packCt : List Val → Val) (first : Val → Val → ProductKernels Val) (accum : Nat → Val → Val → Val → ProductKernels Val)
    (R : RelinKernels Val) (m m' : Nat → Val) :
    (run (progCkksDotProduct cnt S input packCt first accum R) m).1 = (run (progCkksDotProduct cnt S input packCt first accum R) m').1 :=
  write_before_read_independent _ (wbr_ckksDotProduct cnt hcnt S input packCt first accum R) m m'

example : (run (progCkksDotProduct 2 exShift (fun i => i) List.sum exProduct (fun _ a b t => exProduct (a + t) b) exRelin) (fun _ => 5)).1 =
    (run (progCkksDotProduct 2 exShift (fun i => i) List.sum exProduct (fun _ a b t => exProduct (a + t) b) exRelin) (fun c => c + 1)).1 ∧
    (run (progCkksDotProduct 2 exShift (fun i => i) List.sum exProduct (fun _ a b t => exProduct (a + t) b) exRelin) (fun _ => 5)).1.length = 2 := by
  decide

/-- `ckks_mul_many` (one level of `mul_many_rec`): the two halves' buffers are written by their products before the final
product reads them -/
theorem ckks_mul_many_scratch_independent {Val : Type} (PL PR : ProductKernels Val) (RL RR : RelinKernels Val) (packCt : List Val → Val)
    (P : Val → Val → ProductKernels Val) (R : RelinKernels Val) (m m' : Nat → Val) :
    (run (progCkksMulMany4 PL PR RL RR packCt P R) m).1 = (run (progCkksMulMany4 PL PR RL RR packCt P R) m').1 :=
  write_before_read_independent _ (wbr_ckksMulMany4 PL PR RL RR packCt P R) m m'

example : (run (progCkksMulMany4 (exProduct 1 2) (exProduct 3 4) exRelin exRelin List.sum exProduct exRelin) (fun _ => 11)).1 =
    (run (progCkksMulMany4 (exProduct 1 2) (exProduct 3 4) exRelin exRelin List.sum exProduct exRelin) (fun c => c)).1 ∧
    (run (progCkksMulMany4 (exProduct 1 2) (exProduct 3 4) exRelin exRelin List.sum exProduct exRelin) (fun _ => 11)).1.length = 2 := by
  decide

/-- what makes the pattern sound is the producer: a consumer placed on a buffer nobody wrote reads the scratch's previous
contents (the program that only reads `take_mul_tmp` is not write-before-read, and its result is the old content) -/
theorem ckks_tmp_unwritten_scratch_dependent :
    ¬ WBR [] (Prog.read 0 (fun t => (exShift.prog t).shift 1) : Prog Int (List Int)) ∧
    (run (Prog.read 0 (fun t => (exShift.prog t).shift 1)) (fun _ => (1 : Int))).1 ≠
      (run (Prog.read 0 (fun t => (exShift.prog t).shift 1)) (fun _ => (2 : Int))).1 := by
  refine ⟨fun h => by simpa [WBR] using h.1, by decide⟩

example : (run (Prog.read 0 (fun t => (exShift.prog t).shift 1)) (fun _ => (1 : Int))).1 = [3, 2] := by decide

/-! ### the shift / normalise family: which zero fill is needed on which path

Cell 0 = the carry buffer, cell 1 = the spare limb.  Footprint per path (read off poulpy-cpu-ref/src/reference/vec_znx/shift.rs,
normalize.rs and reference/ntt120/vec_znx_big.rs):
* at least one limb of the operand discarded (`nOut > 0`): `first_step_carry_only` **writes** the carry, the further
  `middle_step_carry_only` read then write it — no zero fill needed;
* no limb discarded (`nOut = 0`: the operand is not longer than the destination, **or it is longer but fits again after the
  limb shift**, `res.size < a.size ≤ res.size + k / base2k`): nothing has written the carry, the first `middle_step` reads
  it — `znx_zero(carry)` is what makes the program write-before-read;
* operand entirely below the destination (`gap > 0`, right shifts and normalisations only): the gap steps read the spare limb —
  `znx_zero(zero)` is needed, and only there. -/

/-- the left shifts (`vec_znx_lsh`, `_add_into`, `_sub`, `glwe_lsh`, `glwe_lsh_add`, `glwe_lsh_sub`) and the right shifts /
equal-radix normalisations (`vec_znx_rsh`, `_add_into`, `_sub`, `_assign`, `vec_znx_normalize`, `vec_znx_big_normalize*`), as in
the library (both zero fills present): the result does not depend on what the scratch held -/
theorem shift_family_scratch_independent {Val : Type} (nOut gap work : Nat) (zero : Val) (firstCO : Nat → Val) (midCO : Nat → Val → Val)
    (gapStep : Val → Val → Val) (step : Nat → Val → Val × Val) (m m' : Nat → Val) :
    (run (progLsh true nOut work zero firstCO midCO step) m).1 = (run (progLsh true nOut work zero firstCO midCO step) m').1 ∧
    (run (progRsh true true nOut gap work zero firstCO midCO gapStep step) m).1 =
      (run (progRsh true true nOut gap work zero firstCO midCO gapStep step) m').1 :=
  ⟨write_before_read_independent _ (wbr_lsh nOut work zero firstCO midCO step true (fun _ => rfl)) m m',
   write_before_read_independent _ (wbr_rsh nOut gap work zero firstCO midCO gapStep step true true (fun _ => rfl) (fun _ => rfl)) m m'⟩

example : (run (progLsh true 0 2 (0 : Int) (fun j => j) (fun _ c => c + 1) (fun j c => (c + j, c + 10))) (fun _ => 777)).1 = [10, 1] ∧
    (run (progRsh true true 0 2 1 (0 : Int) (fun j => j) (fun _ c => c + 1) (fun z c => z + c + 5) (fun _ c => (c, c))) (fun _ => 777)).1 = [10] := by
  decide

/-- the zero fill of the carry is needed **exactly** on the path without discarded limbs: with it the program is write-before-read
on every path; without it, it still is when a limb is discarded, and it is not when none is and a limb goes through the carry -/
theorem lsh_carry_zero_fill_needed_exactly {Val : Type} (nOut minSize : Nat) (zero : Val) (firstCO : Nat → Val) (midCO : Nat → Val → Val)
    (step : Nat → Val → Val × Val) :
    WBR [] (progLsh true nOut minSize zero firstCO midCO step) ∧
    (0 < nOut → WBR [] (progLsh false nOut minSize zero firstCO midCO step)) ∧
    ¬ WBR [] (progLsh false 0 (minSize + 1) zero firstCO midCO step) :=
  ⟨wbr_lsh nOut minSize zero firstCO midCO step true (fun _ => rfl),
   fun h => wbr_lsh nOut minSize zero firstCO midCO step false (fun h0 => absurd h0 (by omega)),
   not_wbr_lsh_without_zero_fill minSize zero firstCO midCO step⟩

example : WBR [] (progLsh false 2 1 (0 : Int) (fun j => j) (fun _ c => c) (fun _ c => (c, c))) := by
  simp [progLsh, carryPhase, carrySteps, loopN, Prog.bind, WBR]

/-- the seeded change to `vec_znx_lsh_sub` (`if a_size > res_size { carry-only loop } else { zero(carry) }`) is the program with
`zeroCarry := !(a_size > res_size)`; when the operand is longer but fits again after the limb shift (`nOut = 0`) the result depends on
the previous contents of the scratch -/
theorem lsh_sub_seeded_change_scratch_dependent :
    let aGtRes := true
    let p := progLsh (!aGtRes) 0 1 (0 : Int) (fun j => j) (fun _ c => c) (fun _ c => (1000 - c, c))
    (run p (fun _ => 0)).1 ≠ (run p (fun _ => 7)).1 := by
  decide

/-- right shifts and normalisations: both zero fills are needed on their paths (the carry as for the left shifts; the spare limb when the
operand lies entirely below the destination) -/
theorem rsh_normalize_zero_fills_needed {Val : Type} (nOut gap work : Nat) (zero : Val) (firstCO : Nat → Val) (midCO : Nat → Val → Val)
    (gapStep : Val → Val → Val) (step : Nat → Val → Val × Val) :
    (∀ zc zs : Bool, (nOut = 0 → zc = true) → (gap ≠ 0 → zs = true) →
      WBR [] (progRsh zc zs nOut gap work zero firstCO midCO gapStep step)) ∧
    ¬ WBR [] (progRsh true false (nOut + 1) (gap + 1) work zero firstCO midCO gapStep step) :=
  ⟨fun zc zs hz hs => wbr_rsh nOut gap work zero firstCO midCO gapStep step zc zs hz hs,
   not_wbr_rsh_without_spare_zero_fill nOut gap work zero firstCO midCO gapStep step⟩

example : (run (progRsh true false 1 1 1 (0 : Int) (fun j => j) (fun _ c => c) (fun z c => z + c) (fun _ c => (c, c))) (fun _ => 0)).1 ≠
    (run (progRsh true false 1 1 1 (0 : Int) (fun j => j) (fun _ c => c) (fun z c => z + c) (fun _ c => (c, c))) (fun _ => 9)).1 := by
  decide

end contents

end C12
