import Poulpy.Lemmas.ScratchOps
/-
C12 — "Declared scratch size always suffices and scratch contents never matter."

All statements are about `Scratch.take` / `Scratch.run` / the `tree…` and `tb…` definitions of
Model/Scratch.lean and Model/ScratchOps.lean, which are the definitions the driver executes.

Shape of the per-operation theorems:  `Admissible shape → tb_op shape ≤ a.available → run (tree_op shape) a` succeeds,
for every window `a` (any address, any length).  `Admissible` is `n % 8 = 0` (every power-of-two ring
degree ≥ 8) unless stated.  Where the real `*_tmp_bytes` is too small the full statement is kept in
a comment, the proved theorem is `…_partial` and the witness is `…_counterexample`.
The "contents never matter" half is not expressible on a scratch-free model; it is checked on the
implementation by ./check (two fills), see docs/C12.md.
-/

namespace C12
open Scratch

/-! ## the arena -/

/-- `take_slice_aligned` succeeds iff the aligned remainder is at least the requested length. -/
theorem arena_take_ok (a : Arena) (b : Nat) : (take a b).isSome = true ↔ b ≤ a.available := by
  rw [take_eq]; split <;> simp_all

example : (take ⟨4104, 200⟩ 128).isSome = true ∧ (take ⟨4104, 183⟩ 128).isSome = false := by decide

/-- Layout of a successful non-empty take: the slice is 64-aligned, lies inside the window, the
remainder starts right after it, lies inside the window and ends where the window ends; slice and
remainder are disjoint. -/
theorem arena_take_layout (a : Arena) (b : Nat) (p : Nat) (r : Arena) (hb : 0 < b) (h : take a b = some (p, r)) :
    p % 64 = 0 ∧ a.addr ≤ p ∧ p + b ≤ a.addr + a.len ∧ r.addr = p + b ∧ r.addr + r.len = a.addr + a.len := by
  rw [take_eq] at h
  split at h
  · rename_i hle
    simp only [Option.some.injEq, Prod.mk.injEq] at h
    obtain ⟨rfl, rfl⟩ := h
    have := alignOff_aligned a.addr
    simp only [Arena.available] at hle
    refine ⟨this, ?_, ?_, ?_, ?_⟩ <;> (try simp only [Arena.available]) <;> omega
  · cases h

example : take ⟨4104, 200⟩ 128 = some (4160, ⟨4288, 16⟩) := by decide

/- FULL STATEMENT (not proved): the same layout without `0 < b`.
   False: a zero-length take on a window shorter than its alignment offset hands out an address
   beyond the window (`ptr.add(aligned_offset)` with `aligned_offset > len`). -/
theorem arena_take_layout_counterexample :
    ¬ (∀ (a : Arena) (b p : Nat) (r : Arena), take a b = some (p, r) → p + b ≤ a.addr + a.len) := by
  intro h
  have := h ⟨4097, 3⟩ 0 4160 ⟨4160, 0⟩ (by decide)
  exact absurd this (by decide)

/-- windows handed out by the `split_mut` loop: all aligned, of the requested length, in increasing
order without overlap, inside the original window, and the remainder comes after the last one. -/
theorem split_mut_windows (len : Nat) (hl : 0 < len) :
    ∀ (n : Nat) (a : Arena) (evs : List Ev) (ws : List Arena) (r : Arena),
      splitLoop n len a = some (evs, ws, r) →
      ws.length = n ∧ (∀ w ∈ ws, w.addr % 64 = 0 ∧ w.len = len ∧ a.addr ≤ w.addr ∧ w.addr + w.len ≤ r.addr) ∧
      ws.Pairwise (fun w1 w2 => w1.addr + w1.len ≤ w2.addr) ∧ a.addr ≤ r.addr ∧
      (n = 0 ∨ r.addr + r.len = a.addr + a.len) := by
  intro n
  induction n with
  | zero =>
    intro a evs ws r h
    simp only [splitLoop, Option.some.injEq, Prod.mk.injEq] at h
    obtain ⟨_, rfl, rfl⟩ := h
    simp
  | succ n ih =>
    intro a evs ws r h
    simp only [splitLoop] at h
    cases ht : take a len with
    | none => simp [ht] at h
    | some v =>
      obtain ⟨p, r1⟩ := v
      simp only [ht] at h
      cases hs : splitLoop n len r1 with
      | none => simp [hs] at h
      | some v2 =>
        obtain ⟨evs2, ws2, r2⟩ := v2
        simp only [hs, Option.some.injEq, Prod.mk.injEq] at h
        obtain ⟨_, rfl, rfl⟩ := h
        obtain ⟨hp, hap, hin, hr1, hend⟩ := arena_take_layout a len p r1 hl ht
        obtain ⟨hlen, hw, hpw, har, hre⟩ := ih r1 evs2 ws2 r2 hs
        refine ⟨by simp [hlen], ?_, ?_, by omega, ?_⟩
        · intro w hwm
          simp only [List.mem_cons] at hwm
          rcases hwm with rfl | hwm
          · exact ⟨hp, rfl, hap, by simp only; omega⟩
          · obtain ⟨h1, h2, h3, h4⟩ := hw w hwm
            exact ⟨h1, h2, by omega, h4⟩
        · rw [List.pairwise_cons]
          refine ⟨?_, hpw⟩
          intro w hwm
          obtain ⟨_, _, h3, _⟩ := hw w hwm
          simp only; omega
        · right
          rcases hre with rfl | hre
          · simp only [splitLoop, Option.some.injEq, Prod.mk.injEq] at hs
            obtain ⟨_, _, rfl⟩ := hs
            omega
          · omega

example : (splitLoop 3 128 ⟨4104, 56 + 3 * 128⟩).map (fun x => x.2.1) =
    some [⟨4160, 128⟩, ⟨4288, 128⟩, ⟨4416, 128⟩] := by decide

/- FULL STATEMENT (not proved): `split_mut(n, len)` succeeds whenever its own assertion
   `available() ≥ n·len` holds.  False when `len` is not a multiple of 64: every window after the
   first is re-aligned. -/
/-- `split_mut` with per-window length a multiple of 64 succeeds under its own assertion. -/
theorem split_mut_ok_partial (n len : Nat) (hl : len % 64 = 0) (a : Arena) (h : n * len ≤ a.available) :
    (run (.par n len .done .done) a).isOk = true := by
  apply run_ok_of_aligned
  · simp [fits, req]
  · simp [aligned, hl]
  · simpa [reqA] using h

example : (run (.par 4 320 .done .done) ⟨4104, 56 + 4 * 320⟩).isOk = true := by decide

/-- witness: 2 windows of 16 bytes in 32 available bytes — the assertion passes, the second take panics -/
theorem split_mut_counterexample :
    ¬ (∀ (n len : Nat) (a : Arena), n * len ≤ a.available → (run (.par n len .done .done) a).isOk = true) := by
  intro h
  have := h 2 16 ⟨4096, 32⟩ (by decide)
  revert this; decide

/-! ## allocation trees in general -/

/-- **Exact requirement.** `run` succeeds iff `available() ≥ req`. -/
theorem exact_requirement (t : AllocTree) (hf : fits t = true) (a : Arena) :
    (run t a).isOk = true ↔ req t ≤ a.available := run_ok_iff t hf a

example : (run (.take 32 (.take 384 .done)) ⟨4096, 416⟩).isOk = false ∧
          (run (.take 32 (.take 384 .done)) ⟨4096, 448⟩).isOk = true := by decide

/-- If every take that is followed by further scratch use is a multiple of 64 bytes, the plain
`lvl_0 + lvl_1 + …` / `max` arithmetic of the `*_tmp_bytes` functions is enough. -/
theorem aligned_sum_suffices (t : AllocTree) (hf : fits t = true) (hal : aligned t = true) (a : Arena)
    (h : reqA t ≤ a.available) : (run t a).isOk = true := run_ok_of_aligned t hf hal a h

example : aligned (.take 64 (.take 384 .done)) = true ∧ reqA (.take 64 (.take 384 .done)) = 448 := by decide

/-- The padded requirement never exceeds the unpadded one by more than the padding, and is never below it. -/
theorem req_ge_unpadded (t : AllocTree) : reqA t ≤ req t := reqA_le_req t

example : reqA (.take 32 (.take 384 .done)) = 416 ∧ req (.take 32 (.take 384 .done)) = 448 := by decide

/-- Success is monotone in the window length. -/
theorem window_monotone (t : AllocTree) (hf : fits t = true) (a : Arena) (len' : Nat) (hl : a.len ≤ len')
    (h : (run t a).isOk = true) : (run t ⟨a.addr, len'⟩).isOk = true := run_mono t hf a len' hl h

example : (run (.take 64 (.take 384 .done)) ⟨4100, 60 + 448⟩).isOk = true := by decide

/-- "The maximum over a set of operations serves all of them": a window whose `available()` is at
least the maximum of the requirements runs each operation of the set. -/
theorem max_serves_all (ts : List AllocTree) (hf : ∀ t ∈ ts, fits t = true) (a : Arena)
    (h : (ts.map req).foldr max 0 ≤ a.available) : ∀ t ∈ ts, (run t a).isOk = true := by
  induction ts with
  | nil => intro t ht; cases ht
  | cons u us ih =>
    intro t ht
    simp only [List.map_cons, List.foldr_cons] at h
    simp only [List.mem_cons] at ht
    rcases ht with rfl | ht
    · exact run_ok _ (hf _ (List.mem_cons_self)) a (by omega)
    · exact ih (fun x hx => hf x (List.mem_cons_of_mem _ hx)) (by omega) t ht

example : ∀ t ∈ [leaf 192, .take 64 (leaf 128)], (run t ⟨4096, 192⟩).isOk = true := by decide

/-- A requirement computed for a larger shape serves the smaller one (trees compared through `req`). -/
theorem larger_query_serves (t t' : AllocTree) (hf : fits t = true) (hle : req t ≤ req t') (a : Arena)
    (h : req t' ≤ a.available) : (run t a).isOk = true := run_ok t hf a (Nat.le_trans hle h)

example : req (treeVmp 2 4 1) ≤ req (treeVmp 3 4 1) := by decide

/-! ## HAL operations -/

/-- Every HAL default that takes exactly its own `tmp_bytes` once (normalize, lsh, rsh,
rotate/automorphism/mul_xp_minus_one `_assign`, split_ring, merge_rings, big_normalize,
big_automorphism_assign, idft_apply, vmp_prepare, vmp_apply_dft_to_dft, the convolution family)
succeeds in a window of exactly that many bytes, at any misalignment, for every `n`. -/
theorem hal_leaf_ok (bytes : Nat) (a : Arena) (h : bytes ≤ a.available) : (run (leaf bytes) a).isOk = true := by
  apply run_ok _ (by simp) a
  simpa [leaf, req] using h

example : (run (treeNormalize 4) ⟨4100, 60 + normTmp 4⟩).isOk = true := by decide
example : (run (treeVmp 3 2 2) ⟨4096, vmpTmp 3 2 2⟩).isOk = true := by decide

/-- `vmp_apply_dft_to_dft` is called with the *current* size of its input; a query made with a larger
size covers it (used by the `dsize > 1` loops). -/
theorem vmp_query_monotone {s s' : Nat} (rows cols : Nat) (h : s ≤ s') (a : Arena)
    (ha : vmpTmp s' rows cols ≤ a.available) : (run (treeVmp s rows cols) a).isOk = true :=
  hal_leaf_ok _ a (Nat.le_trans (vmpTmp_mono rows cols h) ha)

example : (run (treeVmp 1 4 2) ⟨4096, vmpTmp 3 4 2⟩).isOk = true := by decide

/-- `vmp_apply_dft` (take a `VecZnxDft`, then `vmp_apply_dft_to_dft`) -/
theorem vmp_apply_dft_ok (be : BE) (n aSize rows colsIn : Nat) (hn : n % 8 = 0) (a : Arena)
    (h : vmpApplyDftTmp be n aSize rows colsIn ≤ a.available) :
    (run (treeVmpApplyDft be n aSize rows colsIn) a).isOk = true := by
  have hD := dft_mod64 be hn colsIn (min aSize rows)
  apply run_ok_of_aligned
  · simp [treeVmpApplyDft, treeVmp, fits]
  · simp [treeVmpApplyDft, treeVmp, aligned, hD]
  · refine Nat.le_trans ?_ h
    simp [treeVmpApplyDft, treeVmp, vmpApplyDftTmp, reqA]

example : (run (treeVmpApplyDft .ntt120 8 3 2 2) ⟨4120, 40 + vmpApplyDftTmp .ntt120 8 3 2 2⟩).isOk = true := by decide

/- FULL STATEMENT (not proved): the same for every `n`.  False for `n = 1` on NTT120 (a 32-byte
   `VecZnxDft` followed by an aligned take). -/
theorem vmp_apply_dft_counterexample :
    ¬ (∀ (be : BE) (n aSize rows colsIn : Nat) (a : Arena), vmpApplyDftTmp be n aSize rows colsIn ≤ a.available →
        (run (treeVmpApplyDft be n aSize rows colsIn) a).isOk = true) := by
  intro h
  have := h .ntt120 1 1 1 1 ⟨4096, vmpApplyDftTmp .ntt120 1 1 1 1⟩ (by decide)
  revert this; decide

end C12
