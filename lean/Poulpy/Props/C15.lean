import Poulpy.Lemmas.FheUint
import Poulpy.Lemmas.BlindSel
import Poulpy.Lemmas.Retriever
import Poulpy.Lemmas.Cbt
import Poulpy.Lemmas.CbtExp
import Poulpy.Props.C20
import Poulpy.Props.C14
import Mathlib.Tactic.Positivity
/-
C15 — encrypted integers: bit layout and bit surgery (index algebra), over the plaintext-level model
`Poulpy/Model/FheUint.lean` (the definitions the driver executes).  No `bv_decide`.
-/

namespace C15
open FheUint

/-- **bit_index is a bijection of `[0, BITS)` onto `[0, BITS)`** with the stated inverse, and equals
`(i mod 8)·(BITS/8) + i div 8`, for u8, u16 and u32. -/
theorem bitIndex_bijection :
    (∀ i, i < 8 → bitIndex u8 i < 8 ∧ bitIndexInv u8 (bitIndex u8 i) = i ∧ bitIndex u8 (bitIndexInv u8 i) = i ∧
        bitIndex u8 i = i) ∧
    (∀ i, i < 16 → bitIndex u16 i < 16 ∧ bitIndexInv u16 (bitIndex u16 i) = i ∧ bitIndex u16 (bitIndexInv u16 i) = i ∧
        bitIndex u16 i = (i % 8) * 2 + i / 8) ∧
    (∀ i, i < 32 → bitIndex u32 i < 32 ∧ bitIndexInv u32 (bitIndex u32 i) = i ∧ bitIndex u32 (bitIndexInv u32 i) = i ∧
        bitIndex u32 i = (i % 8) * 4 + i / 8) := by decide

example : (List.range 16).map (bitIndex u16) = [0, 2, 4, 6, 8, 10, 12, 14, 1, 3, 5, 7, 9, 11, 13, 15] := by decide

/-- the coefficient of bit `i` is `bit_index(i) << log_gap`, injective in `i` (u32, any `log N ≥ 5`) -/
theorem coeffIndex_injective (logN : Nat) (h : 5 ≤ logN) (i j : Nat) (hi : i < 32) (hj : j < 32)
    (e : coeffIndex u32 logN i = coeffIndex u32 logN j) : i = j := by
  unfold coeffIndex at e
  have e' : bitIndex u32 i = bitIndex u32 j := by
    have h1 := Nat.shiftLeft_eq (bitIndex u32 i) (logN - u32.logBits)
    have h2 := Nat.shiftLeft_eq (bitIndex u32 j) (logN - u32.logBits)
    rw [h1, h2] at e
    exact Nat.eq_of_mul_eq_mul_right (by positivity) e
  have := (bitIndex_bijection.2.2 i hi).2.1
  have := (bitIndex_bijection.2.2 j hj).2.1
  rw [← ‹bitIndexInv u32 (bitIndex u32 i) = i›, e']; assumption

example : coeffIndex u32 8 9 = 40 ∧ coeffIndex u32 8 31 = 248 := by decide

/-- **pack ∘ get_bit addresses bit `i`**: after `pack`, `get_bit_glwe(i)` leaves exactly the `i`-th
packed value in the constant coefficient and zero everywhere else. -/
theorem pack_get_bit (bits : List Int) (i s : Nat) (hi : i < 32) (hs : s < 32) :
    getBit u32 i (pack u32 bits) s = if s = 0 then bits.getD i 0 else 0 := by
  rw [getBit_slots _ i s hi hs]
  have hb := bitIndex_bijection.2.2 i hi
  simp only [pack, show u32.bits = 32 from rfl, hb.1, if_true, hb.2.1]

example : getBit u32 9 (pack u32 ((List.range 32).map fun k => ((k : Nat) : Int) + 100)) 0 = 109 := by decide

/-- `encrypt_sk` then `decrypt` layout: bit `i` of the word is read back from its slot -/
theorem encode_decode_bit (w : BitVec 32) (i : Nat) (hi : i < 32) :
    decodeBit u32 (encode u32 w.toNat) i = w.getLsbD i := by
  have hb := bitIndex_bijection.2.2 i hi
  unfold decodeBit encode
  simp only [show u32.bits = 32 from rfl, hb.1, if_true, hb.2.1]
  exact enc_bit w.toNat i

example : decode u32 (encode u32 0x12345678) = 0x12345678 := by decide

/-- doc comment of `splice_u8` -/
def spliceU8Spec (a b : BitVec 32) (dst src : Nat) : BitVec 32 :=
  (((a.rotateRight (dst <<< 3)) &&& 0xFFFFFF00#32) ||| ((b.rotateRight (src <<< 3)) &&& 0x000000FF#32)).rotateLeft (dst <<< 3)

/-- doc comment of `splice_u16` -/
def spliceU16Spec (a b : BitVec 32) (dst src : Nat) : BitVec 32 :=
  (((a.rotateRight (dst <<< 4)) &&& 0xFFFF0000#32) ||| ((b.rotateRight (src <<< 4)) &&& 0x0000FFFF#32)).rotateLeft (dst <<< 4)

set_option maxHeartbeats 400000 in
/-- **splice_u8** returns, bit for bit, `((a.rotr(8·dst) & 0xFFFFFF00) | (b.rotr(8·src) & 0xFF)).rotl(8·dst)` for
all words `a`, `b` and all byte positions. -/
theorem splice_u8_bits (a b : BitVec 32) (dst src i : Nat) (hd : dst < 4) (hs : src < 4) (hi : i < 32) :
    decodeBit u32 (spliceU8 u32 dst src (encode u32 a.toNat) (encode u32 b.toNat)) i = (spliceU8Spec a b dst src).getLsbD i := by
  unfold decodeBit
  rw [spliceU8_slots _ _ dst src _ hd hs (by revert i; decide)]
  interval_cases dst <;> interval_cases src <;> interval_cases i <;>
    simp [spliceU8Spec, bitIndex, bitIndexInv, encode, u32, BitVec.getLsbD_rotateLeft, BitVec.getLsbD_rotateRight] <;>
    first | exact fin_bit _ _ (by decide) | exact fin_bit0 _

example : decode u32 (spliceU8 u32 2 1 (encode u32 0xFFFFFFFF) (encode u32 0xAABBCCDD)) = 0xFFCCFFFF := by decide

set_option maxHeartbeats 400000 in
/-- **splice_u16** = `((a.rotr(16·dst) & 0xFFFF0000) | (b.rotr(16·src) & 0xFFFF)).rotl(16·dst)` -/
theorem splice_u16_bits (a b : BitVec 32) (dst src i : Nat) (hd : dst < 2) (hs : src < 2) (hi : i < 32) :
    decodeBit u32 (spliceU16 u32 dst src (encode u32 a.toNat) (encode u32 b.toNat)) i = (spliceU16Spec a b dst src).getLsbD i := by
  unfold decodeBit
  rw [spliceU16_slots _ _ dst src _ hd hs (by revert i; decide)]
  interval_cases dst <;> interval_cases src <;> interval_cases i <;>
    simp [spliceU16Spec, bitIndex, bitIndexInv, encode, u32, BitVec.getLsbD_rotateLeft, BitVec.getLsbD_rotateRight] <;>
    first | exact fin_bit _ _ (by decide) | exact fin_bit0 _

example : decode u32 (spliceU16 u32 1 0 (encode u32 0xFFFFFFFF) (encode u32 0xAABBCCDD)) = 0xCCDDFFFF := by decide

/-- **sext(byte)**: bits up to the sign bit `8·byte+7` are kept, every higher bit becomes the sign bit
(`= (a truncated to 8(byte+1) bits).signExtend 32`, the test suite's `sext(a, 8(byte+1)-1)`). -/
theorem sext_bits (a : BitVec 32) (byte i : Nat) (hb : byte < 4) (hi : i < 32) :
    decodeBit u32 (sext u32 byte (encode u32 a.toNat)) i =
      (if i ≤ 8 * byte + 7 then a.getLsbD i else a.getLsbD (8 * byte + 7)) := by
  unfold decodeBit
  have hbi := bitIndex_bijection.2.2 i hi
  rw [sext_slots _ byte _ hb hbi.1]
  have hmod : bitIndex u32 i % 4 = i / 8 := by rw [hbi.2.2.2]; omega
  rw [hmod]
  have hsign : bitIndex u32 (8 * byte + 7) = 28 + byte := by interval_cases byte <;> decide
  by_cases h : i / 8 > byte
  · rw [if_pos h, if_neg (by omega), ← hsign]
    exact encode_decode_bit a (8 * byte + 7) (by omega)
  · rw [if_neg h, if_pos (by omega)]
    exact encode_decode_bit a i hi

example : decode u32 (sext u32 1 (encode u32 0x84838281)) = 0xFFFF8281 ∧ decode u32 (sext u32 0 (encode u32 0x44434241)) = 0x41 := by
  decide

/-- **get_bit_glwe(i)** of an encrypted word decrypts to the word `bit_i(a)` (0 or 1) -/
theorem get_bit_bits (a : BitVec 32) (i j : Nat) (hi : i < 32) (hj : j < 32) :
    decodeBit u32 (getBit u32 i (encode u32 a.toNat)) j = (decide (j = 0) && a.getLsbD i) := by
  unfold decodeBit
  have hbj := bitIndex_bijection.2.2 j hj
  rw [getBit_slots _ i _ hi hbj.1]
  by_cases h : j = 0
  · subst h
    have : bitIndex u32 0 = 0 := by decide
    simp only [this, if_true, decide_true, Bool.true_and]
    exact encode_decode_bit a i hi
  · have : bitIndex u32 j ≠ 0 := by
      intro h0
      have := hbj.2.1
      rw [h0] at this
      have e : bitIndexInv u32 0 = 0 := by decide
      omega
    simp [this, h]

example : decode u32 (getBit u32 7 (encode u32 0x84838281)) = 1 ∧ decode u32 (getBit u32 8 (encode u32 0x84838281)) = 0 := by decide

/-- **get_byte(byte)**: the byte lands in byte 0, everything else is zero (slot level) -/
theorem get_byte_slots (p : Slots) (byte s : Nat) (hb : byte < 4) (hs : s < 32) :
    getByte u32 byte p s = if s % 4 = 0 then p (s + byte) else 0 := getByte_slots p byte s hb hs

example : decode u32 (getByte u32 2 (encode u32 0x84838281)) = 0x83 := by decide

/-- **decrypted word and per-bit view agree**: `decode` (what the driver prints, `T::from_bits`) has bit `i`
equal to `decodeBit … i`, and no bit above 31. -/
theorem decode_testBit (p : Slots) : ∀ k, k ≤ 32 →
    (List.range k).foldl (fun acc i => if decodeBit u32 p i then acc + 2 ^ i else acc) 0 < 2 ^ k ∧
    ∀ i, i < k → ((List.range k).foldl (fun acc i => if decodeBit u32 p i then acc + 2 ^ i else acc) 0).testBit i = decodeBit u32 p i := by
  intro k
  induction k with
  | zero => intro _; simp
  | succ k ih =>
    intro hk
    obtain ⟨h1, h2⟩ := ih (by omega)
    rw [List.range_succ, List.foldl_append]
    simp only [List.foldl_cons, List.foldl_nil]
    generalize (List.range k).foldl (fun acc i => if decodeBit u32 p i then acc + 2 ^ i else acc) 0 = S at h1 h2
    have hp : 2 ^ (k + 1) = 2 * 2 ^ k := by rw [Nat.pow_succ, Nat.mul_comm]
    by_cases hd : decodeBit u32 p k
    · simp only [hd, if_true]
      refine ⟨by omega, fun i hi => ?_⟩
      rcases Nat.lt_succ_iff_lt_or_eq.1 hi with h | h
      · rw [Nat.add_comm, Nat.testBit_two_pow_add_gt h]; exact h2 i h
      · subst h
        rw [Nat.add_comm, Nat.testBit_two_pow_add_eq, Nat.testBit_lt_two_pow h1, hd]; rfl
    · simp only [hd, Bool.false_eq_true, if_false]
      refine ⟨by omega, fun i hi => ?_⟩
      rcases Nat.lt_succ_iff_lt_or_eq.1 hi with h | h
      · exact h2 i h
      · subst h
        rw [Nat.testBit_lt_two_pow h1]; simp [hd]

/-- the word the driver prints: its bits are the per-bit views, and it is a `u32` -/
theorem decode_bits (p : Slots) : decode u32 p < 2 ^ 32 ∧ ∀ i, i < 32 → (decode u32 p).testBit i = decodeBit u32 p i :=
  decode_testBit p 32 (Nat.le_refl _)

example : decode u32 (fun s => if s = 5 then 1 else 0) = 2 ^ 9 := by decide

/-- **Composition of a word operation (layer B).**  `execute_bdd_circuit_2w_to_1w` evaluates the 32 compiled
circuits with `Cmux` and packs the results.  Under C13's circuit theorems (`hcirc`: output bit `i` of the
compiled circuit on the bits of `a, b` is bit `i` of `op a b`) and the Cmux/external-product contract of
C04 (`hcmux`: the evaluated bit ciphertext carries that Boolean in its constant coefficient), the packed
result decrypts to `op a b`, bit for bit. -/
theorem word_op_composes (op : BitVec 32 → BitVec 32 → BitVec 32) (a b : BitVec 32)
    (circ : Nat → Bool) (hcirc : ∀ i, i < 32 → circ i = (op a b).getLsbD i)
    (outBits : List Int) (hlen : outBits.length = 32)
    (hcmux : ∀ i, i < 32 → outBits.getD i 0 = if circ i then 1 else 0) (i : Nat) (hi : i < 32) :
    decodeBit u32 (pack u32 outBits) i = (op a b).getLsbD i := by
  have _ := hlen
  have hb := bitIndex_bijection.2.2 i hi
  unfold decodeBit pack
  simp only [show u32.bits = 32 from rfl, hb.1, if_true, hb.2.1, hcmux i hi, ← hcirc i hi]
  cases circ i <;> simp

example : decode u32 (pack u32 ((List.range 32).map fun i => if (0x12345678 >>> i) % 2 = 1 then (1 : Int) else 0)) = 0x12345678 := by decide

/-! ### Blind retrieval and blind selection (`Poulpy/Model/BlindSel.lean`) -/

open BlindSel in
/-- **glwe_blind_retrieval_statefull returns table[idx].**  For every table (any length ≥ 1: powers of two,
non-powers, shorter than half the index range, longer than it), every field position `bit_rsh`, every field width
`bit_mask` and every index word whose field value `v = (idx >> bit_rsh) mod 2^bit_mask` is in range (`v < len`):
after the forward pass element 0 is `table[v]`; the pass preserves the length.  Over any `Cswap` satisfying its
contract. -/
theorem retrieval_returns {V : Type} (cs : Bool → V → V → V × V) (hcs : CswapContract cs) (idx rsh mask : Nat) (a : List V)
    (hv : (idx >>> rsh) % 2 ^ mask < a.length) :
    (retrievalStatefull cs idx rsh mask a)[0]? = a[(idx >>> rsh) % 2 ^ mask]? ∧
    (retrievalStatefull cs idx rsh mask a).length = a.length := by
  unfold retrievalStatefull
  refine ⟨?_, fwd_length cs _ a⟩
  have hval := val_bitsMSB idx rsh mask
  rw [fwd_get0 cs hcs _ a (by rw [hval]; exact hv), hval]

/-- a 3-entry table with a 3-bit field (shorter than half the range), index 2, field at bit 1 -/
example : BlindSel.retrievalStatefull (fun b (x y : Nat) => if b then (y, x) else (x, y)) (2 <<< 1) 1 3 [10, 11, 12] = [12, 11, 10] := by decide
example : BlindSel.retrievalStatefull (fun b (x y : Nat) => if b then (y, x) else (x, y)) 15 0 5
    [1, 2, 3, 4, 5, 6, 7, 8, 9, 10, 11, 12, 13, 14, 15, 16] = [16, 15, 13, 14, 9, 10, 11, 12, 1, 2, 3, 4, 5, 6, 7, 8] := by decide

open BlindSel in
/-- **glwe_blind_retrieval_statefull_rev restores the table** after the forward pass, for every index word (in
range or not), every length, every field. -/
theorem retrieval_rev_restores {V : Type} (cs : Bool → V → V → V × V) (hcs : CswapContract cs) (idx rsh mask : Nat) (a : List V) :
    retrievalStatefullRev cs idx rsh mask (retrievalStatefull cs idx rsh mask a) = a :=
  rev_fwd cs hcs _ a

example : BlindSel.retrievalStatefullRev (fun b (x y : Nat) => if b then (y, x) else (x, y)) 6 0 3
    (BlindSel.retrievalStatefull (fun b (x y : Nat) => if b then (y, x) else (x, y)) 6 0 3 [10, 11, 12, 13, 14]) = [10, 11, 12, 13, 14] := by
  decide

open BlindSel in
/-- **glwe_blind_selection returns the selected entry** of the sparse table, zero when it is absent, for every
field position / width and every set of present keys.  Over any `cmux_assign` satisfying its contract. -/
theorem selection_returns {V : Type} (cm : Bool → V → V → V) (hcm : CmuxContract cm) (zero : V) (idx rsh mask : Nat)
    (tbl : Nat → Option V) :
    blindSelection cm zero idx rsh mask tbl = (tbl ((idx >>> rsh) % 2 ^ mask)).getD zero := by
  unfold blindSelection
  rw [select_spec cm hcm zero, val_bitsMSB]

example : BlindSel.blindSelection (fun b (t f : Nat) => if b then t else f) 0 (5 <<< 1) 1 3
    (fun j => if j = 0 then some 100 else if j = 2 then some 102 else if j = 5 then some 105 else none) = 105 := by decide

/-- **GLWEBlindRetriever (one-shot), instances.**  On the identity table `[0, …, size-1]` the binary-counter
retrieval returns `idx` for every size 1..17 and every index in range, with the index field at offset 0 and 2
(the model is polymorphic in the element type, so the routing does not depend on the table's contents).
`size = 1` (one accumulator since repair 23) returns the element. -/
theorem retrieve_instances :
    ((List.range' 1 17).all fun size => (List.range size).all fun idx => [0, 2].all fun off =>
      match BlindSel.retrieve (fun b (res a : Nat) => if b then a else res) 0 0 size (idx <<< off) off (List.range size) with
      | .ok w => w == idx
      | _ => false) = true ∧
    (match BlindSel.retrieve (fun b (res a : Nat) => if b then a else res) 0 0 1 0 0 [7] with
     | .ok w => w == 7
     | _ => false) = true := by decide

/- The general statement (every size, every data, every history) is `retriever_history` below. -/

/-! ### The retriever object over its whole life (streaming `add`… `flush`, one-shot `retrieve`, reuse) -/

open BlindSel in
/-- **GLWEBlindRetriever, every history.**  The state machine of the object (`Retr`: accumulators with their `num`
flags and stored values, element counter; `add` = assert + `add_core` + counter; `flush` = loop, `res ← last`,
`reset`; `retrieve` = `reset` + stream).  For ANY sequence of streams run on one retriever that starts clean
(`counter = 0`, all `num = 0`; stored values arbitrary — `alloc` and every `reset` give that), streamed or one-shot in
any order, each stream at most the capacity `2^bit_size`: no call fails, an empty stream returns `zero`, and the value
returned for stream `n` is its element at the position spelled by the selector bits (`idx < len`, any `idx`).  The
invariant behind it (`Lemmas/Retriever.lean`): `flush` leaves the object `Clean` again, and from a clean state the
binary counter works whatever the stale stored values are (`stream_good`: accumulator `i` with `num = 1` holds the
answer for a pending complete block of `2^i` elements; the flush loop pushes partial blocks up; the top accumulator
ends with the answer for the whole stream).  This supersedes `retrieve_instances` (general size and data). -/
theorem retriever_history {V : Type} (cmn : Bool → V → V → V) (hcmn : ∀ b res a, cmn b res a = if b then a else res)
    (bit : Nat → Bool) (zero : V) (r : Retr V) (hc : Clean r) (hne : r.accs ≠ [])
    (h : List (Bool × List V)) (hcap : ∀ s ∈ h, s.2.length ≤ 2 ^ r.accs.length) :
    ∃ vs, Retr.history cmn bit zero r h = .ok vs ∧ vs.length = h.length ∧
      ∀ n (hn : n < h.length) (hv : n < vs.length),
        (h[n].2 = [] → vs[n] = zero) ∧
        ∀ idx (hi : idx < h[n].2.length), (∀ k < r.accs.length, bit k = idx.testBit k) → vs[n] = h[n].2[idx] := by
  obtain ⟨vs, he, hall⟩ := history_good hcmn zero h r hc hne hcap
  refine ⟨vs, he, hall.length_eq.symm, fun n hn hv => ?_⟩
  have := List.Forall₂.get hall hn hv
  simp only [List.get_eq_getElem] at this
  exact ⟨this.1, fun idx hi hb => this.2 idx hi hb⟩

open BlindSel in
/-- … in the form "the element returned for index `idx` of the LAST stream of any history on `alloc(size)` is its
`idx`-th element". -/
theorem retriever_last_stream {V : Type} (cmn : Bool → V → V → V) (hcmn : ∀ b res a, cmn b res a = if b then a else res)
    (bit : Nat → Bool) (zero init : V) (size : Nat)
    (h : List (Bool × List V)) (oneShot : Bool) (d : List V)
    (hcap : ∀ s ∈ h ++ [(oneShot, d)], s.2.length ≤ 2 ^ (Retr.alloc init size).accs.length)
    (idx : Nat) (hi : idx < d.length) (hb : ∀ k < (Retr.alloc init size).accs.length, bit k = idx.testBit k) :
    ∃ vs, Retr.history cmn bit zero (Retr.alloc init size) (h ++ [(oneShot, d)]) = .ok vs ∧ vs.getLast? = some d[idx] := by
  obtain ⟨vs, he, hlen, hall⟩ := retriever_history cmn hcmn bit zero _ (alloc_clean init size) (alloc_ne init size) _ hcap
  refine ⟨vs, he, ?_⟩
  have hl : vs.length = h.length + 1 := by simpa using hlen
  have hn : h.length < (h ++ [(oneShot, d)]).length := by simp
  have := (hall h.length hn (by omega)).2 idx (by simpa using hi) hb
  rw [List.getLast?_eq_getElem?, hl, Nat.add_sub_cancel, List.getElem?_eq_getElem (by omega), this]
  simp

open BlindSel in
/-- **one-shot `GLWEBlindRetriever`, general** (corollary of the object theorem): `alloc(size)` + `retrieve` of any table of at most
`2^bit_size` elements (in particular `≤ size`, `alloc_capacity`) returns `data[v]` for the index field `v < data.length` at bit
offset `offset` of the selector word — every size (1 included), every length, every element type. -/
theorem retrieve_general {V : Type} (cmn : Bool → V → V → V) (hcmn : ∀ b res a, cmn b res a = if b then a else res)
    (zero init : V) (size idx offset : Nat) (data : List V)
    (hlen : data.length ≤ 2 ^ (Retr.alloc init size).accs.length)
    (v : Nat) (hv : v < data.length)
    (hbits : ∀ k < (Retr.alloc init size).accs.length, idx.testBit (k + offset) = v.testBit k) :
    BlindSel.retrieve cmn zero init size idx offset data = .ok data[v] := by
  have hr := reset_clean (Retr.alloc init size)
  have hne : (Retr.alloc init size).reset.accs ≠ [] := by
    intro h0
    have h1 := hr.2
    rw [h0] at h1
    exact alloc_ne init size (List.eq_nil_of_length_eq_zero h1.symm)
  obtain ⟨w, r', he, _, _, _, hrep⟩ := stream_good (bit := fun k => idx.testBit (k + offset)) hcmn zero
    (Retr.alloc init size).reset hr.1 hne data (by rw [hr.2]; exact hlen)
  unfold BlindSel.retrieve Retr.retrieve
  rw [he]
  simp only
  rw [hrep v hv (fun k hk => hbits k (by rw [← hr.2]; exact hk))]

/-- non-vacuity: three streams of lengths 2, 4, 1 on `alloc(4)` (streamed, streamed, one-shot), index 1 / 1 / 0 -/
example : BlindSel.Retr.history (fun b (res a : Nat) => if b then a else res) (fun k => Nat.testBit 1 k) 0
    (BlindSel.Retr.alloc 0 4) [(false, [10, 11]), (false, [20, 21, 22, 23]), (true, [31, 30])] = .ok [11, 21, 30] := by rfl

/-- the hypothesis `Clean` is what `flush`'s `reset` provides and it is needed: with a `num` flag left set (a `flush`
that only zeroes the counter) the next stream is answered from the stale value. -/
theorem retriever_clean_needed_counterexample :
    BlindSel.Retr.stream (fun b (res a : Nat) => if b then a else res) (fun _ => false) 0
      { accs := [{ data := 99, num := 1 }, { data := 0, num := 0 }], counter := 0 } [5] =
      .ok (99, { accs := [{ data := 99, num := 0 }, { data := 99, num := 0 }], counter := 0 }) := by rfl

/-! ### `glwe_blind_rotation(_assign)`: the ping-pong between `res` and the scratch buffer -/

open BlindSel in
/-- **glwe_blind_rotation_assign / glwe_blind_rotation / the GGSW and scalar variants (same loop).**  `rot` = the
rotation (`rot p (rot q x) = rot (q+p) x`, `rot 0 x = x`: C07), `cm` = `cmux_assign`.  For EVERY field width `mask`
(odd and even, `1` included), every `bit_rsh`, `bit_lsh`, sign, and whatever the scratch buffer holds: after `k`
iterations the current value sits in `res` iff `k` is even, and what the function leaves in `res` — after the final
copy when the loop ended in the scratch buffer — is `X^{±(v·2^bit_lsh)}·input`, `v` = the `mask`-bit field of the
selector at `bit_rsh` (`= (idx >>> bit_rsh) mod 2^mask` for selector bits `idx.testBit`).  The out-of-place form
copies `a` first and is the same function of `a`. -/
theorem blind_rotation_rotates {P : Type} (rot : Int → P → P) (cm : Bool → P → P → P)
    (hadd : ∀ p q x, rot p (rot q x) = rot (q + p) x) (hzero : ∀ x, rot 0 x = x)
    (hcm : ∀ b x y, cm b x y = if b then x else y)
    (sign : Bool) (bit : Nat → Bool) (rsh mask lsh : Nat) (input tmp0 : P) :
    (let st := (List.range mask).foldl (brStep rot cm sign bit rsh lsh) { res := input, tmp := tmp0, aIsRes := true }
     st.aIsRes = decide (mask % 2 = 0)) ∧
    blindRotationAssign rot cm sign bit rsh mask lsh input tmp0 = rot (signedAmt sign (fieldVal bit rsh mask) lsh) input ∧
    blindRotation rot cm sign bit rsh mask lsh input tmp0 = rot (signedAmt sign (fieldVal bit rsh mask) lsh) input ∧
    ∀ idx, fieldVal (fun k => Nat.testBit idx k) rsh mask = (idx >>> rsh) % 2 ^ mask := by
  have h := brFold_inv rot cm hadd hzero hcm sign bit rsh lsh input tmp0 mask
  have hA : blindRotationAssign rot cm sign bit rsh mask lsh input tmp0 = rot (signedAmt sign (fieldVal bit rsh mask) lsh) input := by
    unfold blindRotationAssign
    simp only at h ⊢
    rw [← h.2]
    cases (List.foldl (brStep rot cm sign bit rsh lsh) { res := input, tmp := tmp0, aIsRes := true } (List.range mask)).aIsRes <;> rfl
  exact ⟨h.1, hA, hA, fun idx => fieldVal_testBit idx rsh mask⟩

/-- non-vacuity (`P = ℤ`, `rot p x = x + p`): width 3 at `bit_rsh = 1` of `0b1010`, `bit_lsh = 2`, negative sign:
field value 5, rotation by `-20`; the scratch content `77` does not matter -/
example : BlindSel.blindRotationAssign (fun p (x : Int) => x + p) (fun b x y => if b then x else y) false
    (fun k => Nat.testBit 10 k) 1 3 2 1000 77 = 980 := by decide

/-- the final copy is needed exactly for odd widths: without it (`res` as the loop leaves it) width 1 returns the
input unrotated. -/
theorem blind_rotation_no_final_copy_counterexample :
    ((List.range 1).foldl (BlindSel.brStep (fun p (x : Int) => x + p) (fun b x y => if b then x else y) true (fun _ => true) 0 0)
      { res := 1000, tmp := 77, aIsRes := true }).res = 1000 ∧
    BlindSel.blindRotationAssign (fun p (x : Int) => x + p) (fun b x y => if b then x else y) true (fun _ => true) 0 1 0 1000 77 = 1001 := by
  decide

/-! ### Circuit bootstrapping (constant mode) and integer preparation as compositions -/

set_option maxHeartbeats 400000 in
open Lut Cbt in
/-- **LWE bit → GGLWE rows of the bit.**  `circuit_bootstrap_core` in constant mode (`log_domain = 1`, one table
polynomial): the table `f[j·α + i] = j·2^{res_base2k·(dnum−1−i)}`, the blind rotation (standard or block-binary, binary
block key, external-product contract) and the row loop `row_i ← trace(res); res ← X^{−gap}·res`.  If the rotation index
lands in the cell of the bit — `(drift − (b₀ + Σ a_i s_i)) mod 2N = bit·α·step + e`, `0 ≤ e < step`, which is what an LWE
phase `bit/4 + noise`, `|noise·2N| < step/2`, gives (see `C14.index_error` for the mod-switch part of the noise) — then
for every row `i < dnum` the constant coefficient kept by the trace is the limb vector of `bit·2^{res_base2k·(dnum−1−i)}`
scaled to the top limbs: the `dnum` rows of a GGLWE of `bit` in every cell. -/
theorem cbt_rows_bit (n b resB dnum step block q : Nat) (hn : 0 < n) (hn2 : 2 * (n : Int) < 2 ^ 62) (hb : 1 ≤ b) (hb2 : b ≤ 63)
    (hdnum : 1 ≤ dnum) (hdiv : n = 2 * nextPow2 dnum * step) (hstep2 : step % 2 = 0)
    (hbits : maxBitSize (cbtTable 1 dnum resB) + (resB * dnum) % b < 64) (hl1 : 1 ≤ (resB * dnum + b - 1) / b)
    (hsym : SymP b (tableF b ((resB * dnum + b - 1) / b) ((resB * dnum + b - 1) / b) step
      (if (resB * dnum) % b ≠ 0 then 2 ^ (b - (resB * dnum) % b) else 1) (cbtTable 1 dnum resB)))
    (hblock : 0 < block) (b0 : Int) (a sk : List Int) (hq : (List.zip a sk).length = block * q)
    (hkey : ∀ blk ∈ chunksExact block (List.zip a sk).length (List.zip a sk), BinBlock blk)
    (bit e : Nat) (hbit : bit < 2) (he : e < step)
    (hcell : (((step / 2 : Nat) : Int) - (b0 + blkPhase (List.zip a sk))) % (2 * (n : Int)) =
      ((bit * nextPow2 dnum * step + e : Nat) : Int)) :
    ∃ T p0, lutSet n 1 b (resB * dnum) (cbtTable 1 dnum resB) (resB * dnum) = .ok T ∧ T.data = [p0] ∧
      cbtRows dnum (cbtGap T.drift 1) (blindPlain b block p0 (b0 :: a) sk) =
        (List.range dnum).map fun i =>
          enc b ((resB * dnum + b - 1) / b) ((resB * dnum + b - 1) / b)
            (w64 (((bit : Nat) : Int) * 2 ^ (resB * (dnum - 1 - i)) *
              (if (resB * dnum) % b ≠ 0 then 2 ^ (b - (resB * dnum) % b) else 1))) := by
  obtain ⟨hage, hapos⟩ := nextPow2_ge dnum
  have hflen := cbtTable_length dnum resB
  have hstep : 0 < step := by
    rcases Nat.eq_zero_or_pos step with h | h
    · subst h; omega
    · exact h
  have hdiv' : n = (cbtTable 1 dnum resB).length * step := by rw [hflen]; exact hdiv
  have hset := lutSet_ext1 n b (resB * dnum) (resB * dnum) step (cbtTable 1 dnum resB) hn hn2 hb (by rw [hflen]; omega) hdiv' hbits hl1
    (Nat.le_refl _)
  generalize hsz : (resB * dnum + b - 1) / b = size at *
  generalize hsc : (if (resB * dnum) % b ≠ 0 then (2:Int) ^ (b - (resB * dnum) % b) else 1) = scale at *
  set F' := tableF b size size step scale (cbtTable 1 dnum resB) with hF'
  have hF'len : F'.length = n := by rw [tableF_length, ← hdiv']
  have hF'r : InRange F' := symP_inRange b hb2 F' hsym
  have hF'sh : Shaped n size F' := ⟨hF'len, tableF_vec_length _ _ _ _ _ _⟩
  refine ⟨_, rotate (-((step / 2 : Nat) : Int)) F', hset, rfl, ?_⟩
  rw [blindPlain_rotates b block q hb hb2 hblock _ (rotate_shaped _ _ hF'sh) (rotate_sym b hb2 _ _ hsym) b0 a sk hq hkey]
  generalize hK : b0 + blkPhase (List.zip a sk) = K at *
  have hgap : cbtGap (step / 2) 1 = step := by unfold cbtGap; omega
  simp only [hgap]
  unfold cbtRows
  apply List.map_congr_left
  intro i hi
  have hid : i < dnum := List.mem_range.1 hi
  have hPr : InRange (rotate K (rotate (-((step / 2 : Nat) : Int)) F')) :=
    rotate_inRange _ _ (rotate_inRange _ _ hF'r)
  rw [iterRotateBy _ _ hPr i, rotate_rotate _ _ _ (rotate_inRange _ _ hF'r),
    coeff0_rotate_rotate F' hF'r n hF'len hn]
  simp only [Option.getD_some]
  have hsx := sext_tableF b size size step scale (cbtTable 1 dnum resB) hstep (by rw [hflen]; omega)
    (((step / 2 : Nat) : Int) - ((i : Int) * -(step : Int) + K))
  simp only [← hdiv'] at hsx
  -- the cell of the rotated position
  have hm : (((step / 2 : Nat) : Int) - ((i : Int) * -(step : Int) + K)) % (2 * (n : Int)) =
      (((bit * nextPow2 dnum + i) * step + e : Nat) : Int) := by
    have e1 : ((step / 2 : Nat) : Int) - ((i : Int) * -(step : Int) + K) = (((step / 2 : Nat) : Int) - K) + (i : Int) * (step : Int) := by ring
    rw [e1, Int.add_emod, hcell]
    have hlt : (bit * nextPow2 dnum + i) * step + e < n := by
      have h1 : bit * nextPow2 dnum + i + 1 ≤ 2 * nextPow2 dnum := by
        have : bit * nextPow2 dnum ≤ 1 * nextPow2 dnum := Nat.mul_le_mul_right _ (by omega)
        omega
      have h2 : (bit * nextPow2 dnum + i + 1) * step ≤ 2 * nextPow2 dnum * step := Nat.mul_le_mul_right _ h1
      rw [Nat.succ_mul] at h2; omega
    have hi2 : (i : Int) * (step : Int) % (2 * (n : Int)) = (i : Int) * (step : Int) := by
      apply Int.emod_eq_of_lt (by positivity)
      have : i * step < n := by
        have h1 : (i + 1) * step ≤ 2 * nextPow2 dnum * step := Nat.mul_le_mul_right _ (by omega)
        rw [Nat.succ_mul] at h1; omega
      have : ((i * step : Nat) : Int) < (n : Int) := by exact_mod_cast this
      push_cast at this; omega
    rw [hi2]
    have hsum : ((bit * nextPow2 dnum * step + e : Nat) : Int) + (i : Int) * (step : Int) =
        (((bit * nextPow2 dnum + i) * step + e : Nat) : Int) := by push_cast; ring
    rw [hsum]
    apply Int.emod_eq_of_lt (by positivity)
    have : (((bit * nextPow2 dnum + i) * step + e : Nat) : Int) < (n : Int) := by exact_mod_cast hlt
    omega
  rw [hm] at hsx
  simp only [Int.toNat_natCast] at hsx
  have hlt : (bit * nextPow2 dnum + i) * step + e < n := by
    have h1 : bit * nextPow2 dnum + i + 1 ≤ 2 * nextPow2 dnum := by
      have : bit * nextPow2 dnum ≤ 1 * nextPow2 dnum := Nat.mul_le_mul_right _ (by omega)
      omega
    have h2 : (bit * nextPow2 dnum + i + 1) * step ≤ 2 * nextPow2 dnum * step := Nat.mul_le_mul_right _ h1
    rw [Nat.succ_mul] at h2; omega
  have hidx : ((bit * nextPow2 dnum + i) * step + e) % n / step = bit * nextPow2 dnum + i := by
    rw [Nat.mod_eq_of_lt hlt, Nat.mul_comm, Nat.mul_add_div hstep, Nat.div_eq_of_lt he]; rfl
  rw [hidx, cbtTable_get dnum resB bit i hbit hid] at hsx
  simp only [Option.map_some, hlt, if_true, Option.some.injEq] at hsx
  rw [hsx]


open Lut Cbt in
/-- non-vacuity: N = 16, dnum = 2 (α = 2, table `[0,0,2^4,1]·…`), res_base2k = 4, radix 5, step 4; phase cell of bit 1 -/
example : cbtRows 2 4 (blindPlain 5 1 (rotate (-2) (tableF 5 2 2 4 4 (cbtTable 1 2 4))) [-7, 3] [0]) =
    [enc 5 2 2 (w64 (1 * 2 ^ 4 * 4)), enc 5 2 2 (w64 (1 * 2 ^ 0 * 4))] := by decide

/-- C03 / C04 as hypothesis structures: a GGLWE of `m` has row `i` with constant plaintext `m·2^{resB(dnum−1−i)}·scale`
(limb vector `enc`); `ggsw_expand_row` turns a GGLWE of `m` into a GGSW of `m` (C04 row-expansion statement). -/
def IsGGLWEOf (b size resB dnum : Nat) (scale : Int) (m : Int) (rows : List Lut.Vec) : Prop :=
  rows = (List.range dnum).map fun i => Lut.enc b size size (w64 (m * 2 ^ (resB * (dnum - 1 - i)) * scale))

structure ExpandRowContract (G : Type) (b size resB dnum : Nat) (scale : Int) where
  expand : List Lut.Vec → G
  isGGSWOf : Int → G → Prop
  sound : ∀ m rows, IsGGLWEOf b size resB dnum scale m rows → isGGSWOf m (expand rows)

/-- **LWE bit → GGSW of the bit** (composition): rows from `cbt_rows_bit`, then the row-expansion contract. -/
theorem cbt_gives_ggsw {G : Type} (b size resB dnum : Nat) (scale : Int) (C : ExpandRowContract G b size resB dnum scale)
    (bit : Nat) (rows : List Lut.Vec)
    (hrows : rows = (List.range dnum).map fun i =>
      Lut.enc b size size (w64 (((bit : Nat) : Int) * 2 ^ (resB * (dnum - 1 - i)) * scale))) :
    C.isGGSWOf (bit : Int) (C.expand rows) := C.sound _ rows hrows

/-! ### Circuit bootstrapping, exponent mode -/

set_option maxHeartbeats 400000 in
open Lut Cbt in
/-- **LWE message → rows of a GGSW of `X^{μ·2^log_gap_out}`.**  `circuit_bootstrap_core(to_exponent = true)` at plaintext level
(`Model/Cbt.lean`, one table polynomial, `N = 2^logn`): the table `f[i] = 2^{res_base2k·(dnum−1−i)}` (`i < dnum`, zero
elsewhere, length `2^log_domain·α`), `lookup_table_set`, the RIGHT blind rotation (standard or block-binary, binary block
key, external-product contract: `X^{+(b₀ + Σ a_i s_i)}`), and the row loop `row_i ← post_process(res); res ← X^{−gap}·res`
with `post_process` = partial trace, the `2^log_domain` copies rotated by multiples of `2^log_gap_in`, `glwe_pack` at
`log_gap_out` (or the partial trace alone when the gaps are equal).  If the rotation index lands in the cell of the message
`μ < 2^log_domain` — `(drift − K + μ·α·step) mod 2N = e`, `0 ≤ e < step`, `K = b₀ + Σ a_i s_i` (what an LWE phase
`μ/2^{log_domain+1} + noise`, `|noise·2N| < step/2`, gives; `C14.index_error` for the mod-switch part) — then for EVERY output
gap `log_gap_out ≤ log_gap_in` (the equal-gap path included, after repair 25) and every row `i < dnum`:

    row_i = enc(2^{res_base2k·(dnum−1−i)}) · X^{μ·2^log_gap_out},

a single monomial, every other coefficient exactly zero: the `dnum` rows of a GGLWE of `X^{μ·2^log_gap_out}`. -/
theorem cbt_exponent_rows (logn b resB dnum step block q ld lgi lgo : Nat)
    (hn2 : 2 * ((2 ^ logn : Nat) : Int) < 2 ^ 62) (hb : 1 ≤ b) (hb2 : b ≤ 63)
    (_hdnum : 1 ≤ dnum) (hdiv : 2 ^ logn = 2 ^ ld * nextPow2 dnum * step) (hstep2 : step % 2 = 0) (hstep : 0 < step)
    (hgi : nextPow2 dnum * step = 2 ^ lgi) (hlg : lgo ≤ lgi)
    (hbits : maxBitSize (expTable ld dnum resB) + (resB * dnum) % b < 64) (hl1 : 1 ≤ (resB * dnum + b - 1) / b)
    (hsym : SymP b (tableF b ((resB * dnum + b - 1) / b) ((resB * dnum + b - 1) / b) step
      (if (resB * dnum) % b ≠ 0 then 2 ^ (b - (resB * dnum) % b) else 1) (expTable ld dnum resB)))
    (hblock : 0 < block) (b0 : Int) (a sk : List Int) (hq : (List.zip a sk).length = block * q)
    (hkey : ∀ blk ∈ chunksExact block (List.zip a sk).length (List.zip a sk), BinBlock blk)
    (μ e : Nat) (hμ : μ < 2 ^ ld) (he : e < step)
    (hcell : (((step / 2 : Nat) : Int) - (b0 + blkPhase (List.zip a sk)) + ((μ * (nextPow2 dnum * step) : Nat) : Int)) %
      (2 * ((2 ^ logn : Nat) : Int)) = (e : Int)) :
    ∃ T p0, lutSet (2 ^ logn) 1 b (resB * dnum) (expTable ld dnum resB) (resB * dnum) = .ok T ∧ T.data = [p0] ∧
      expRows false (2 ^ logn) logn ((resB * dnum + b - 1) / b) dnum (cbtGap T.drift 1) lgo ld (blindPlain b block p0 (b0 :: a) sk) =
        (List.range dnum).map fun i =>
          mono (2 ^ logn) ((resB * dnum + b - 1) / b) (μ * 2 ^ lgo)
            (enc b ((resB * dnum + b - 1) / b) ((resB * dnum + b - 1) / b)
              (w64 (2 ^ (resB * (dnum - 1 - i)) * (if (resB * dnum) % b ≠ 0 then 2 ^ (b - (resB * dnum) % b) else 1)))) := by
  obtain ⟨hage, hapos⟩ := nextPow2_ge dnum
  have hflen := expTable_length ld dnum resB
  have hnpos : 0 < 2 ^ logn := by positivity
  have hdiv' : 2 ^ logn = (expTable ld dnum resB).length * step := by rw [hflen]; exact hdiv
  have hset := lutSet_ext1 (2 ^ logn) b (resB * dnum) (resB * dnum) step (expTable ld dnum resB) hnpos hn2 hb
    (by rw [hflen]; exact Nat.mul_pos (by positivity) hapos) hdiv' hbits hl1 (Nat.le_refl _)
  generalize hsz : (resB * dnum + b - 1) / b = size at *
  generalize hsc : (if (resB * dnum) % b ≠ 0 then (2:Int) ^ (b - (resB * dnum) % b) else 1) = scale at *
  set F' := tableF b size size step scale (expTable ld dnum resB) with hF'
  have hF'len : F'.length = 2 ^ logn := by rw [tableF_length, ← hdiv']
  have hF'r : InRange F' := symP_inRange b hb2 F' hsym
  have hF'sh : Shaped (2 ^ logn) size F' := ⟨hF'len, tableF_vec_length _ _ _ _ _ _⟩
  refine ⟨_, rotate (-((step / 2 : Nat) : Int)) F', hset, rfl, ?_⟩
  rw [blindPlain_rotates b block q hb hb2 hblock _ (rotate_shaped _ _ hF'sh) (rotate_sym b hb2 _ _ hsym) b0 a sk hq hkey]
  generalize hK : b0 + blkPhase (List.zip a sk) = K at *
  have hgap : cbtGap (step / 2) 1 = step := by unfold cbtGap; omega
  simp only [hgap]
  -- the input gap
  have hlgi1 : 1 ≤ lgi := by
    rcases Nat.eq_zero_or_pos lgi with h | h
    · subst h
      have : 2 ≤ nextPow2 dnum * step := by
        have : 2 ≤ step := by omega
        calc 2 ≤ step := this
          _ ≤ nextPow2 dnum * step := Nat.le_mul_of_pos_left step hapos
      omega
    · exact h
  have hlgin : logGapIn step (nextPow2 dnum) = lgi := by
    unfold logGapIn
    rw [Nat.mul_comm, hgi]
    exact bitLen_pow_sub_one lgi hlgi1
  have hsum : ld + lgi = logn := by
    have : 2 ^ logn = 2 ^ (ld + lgi) := by rw [pow_add, ← hgi, ← Nat.mul_assoc]; exact hdiv
    exact (Nat.pow_right_injective (Nat.le_refl 2) this).symm
  unfold expRows
  apply List.map_congr_left
  intro i hi
  have hid : i < dnum := List.mem_range.1 hi
  rw [hlgin]
  have hPr : InRange (rotate K (rotate (-((step / 2 : Nat) : Int)) F')) := rotate_inRange _ _ (rotate_inRange _ _ hF'r)
  rw [iterRotateBy _ _ hPr i, rotate_rotate _ _ _ hF'r, rotate_rotate _ _ _ hF'r]
  apply postProcess_mono logn size lgi lgo ld μ _ _ (rotate_shaped _ _ hF'sh) (rotate_inRange _ _ hF'r) hlg hsum hμ
  intro i' hi'
  have hpos : i' * 2 ^ lgi < (rotate ((i : Int) * -(step : Int) + (K + -((step / 2 : Nat) : Int))) F').length := by
    rw [rotate_length, hF'len, ← hsum, pow_add]
    exact Nat.mul_lt_mul_of_pos_right hi' (by positivity)
  rw [getElem?_eq_sext _ _ hpos, sext_rotate _ _ (by rw [hF'len]; exact hnpos) (fun v hv => negV_negV v (hF'r v hv))]
  congr 1
  rw [← hgi]
  exact exp_cell_core b size size step ld dnum resB (2 ^ logn) (nextPow2 dnum) (nextPow2 dnum * step) scale hb hb2 hstep hage hapos rfl
    (by rw [hdiv, Nat.mul_assoc]) (expTable ld dnum resB) hflen (expTable_get ld dnum resB) K μ e hμ he hcell i hid i' hi'

/-- non-vacuity (`N = 16`, `log_domain = 2`, one row, `μ = 1`): `log_gap_out = log_gap_in = 2` gives `X^4`, `log_gap_out = 1` gives `X^2` -/
example : ∃ T, Lut.lutSet 16 1 8 3 (Cbt.expTable 2 1 3) 3 = .ok T ∧
    Cbt.expRows false 16 4 1 1 (Cbt.cbtGap T.drift 1) 2 2 (Lut.rotate 4 (T.data.getD 0 [])) = [Cbt.mono 16 1 4 [32]] ∧
    Cbt.expRows false 16 4 1 1 (Cbt.cbtGap T.drift 1) 1 2 (Lut.rotate 4 (T.data.getD 0 [])) = [Cbt.mono 16 1 2 [32]] :=
  ⟨_, rfl, by decide, by decide⟩

/-- what repair 25 bought: the code before it (`postProcess true`: partial trace with `skip = log_n − log_gap_in + 1`) leaves,
on the equal-gap path, a second monomial half a gap below the right one — here `32·X^2 + 32·X^4` instead of `32·X^4`. -/
theorem cbt_exponent_old_equal_gap_counterexample : ∃ T, Lut.lutSet 16 1 8 3 (Cbt.expTable 2 1 3) 3 = .ok T ∧
    Cbt.expRows true 16 4 1 1 (Cbt.cbtGap T.drift 1) 2 2 (Lut.rotate 4 (T.data.getD 0 [])) =
      [[[0], [0], [32], [0], [32], [0], [0], [0], [0], [0], [0], [0], [0], [0], [0], [0]]] :=
  ⟨_, rfl, by decide⟩

open Lut in
/-- **`prepare` on small-radix words: the multi-limb branch of `mod_switch_2n` in the proved chain.**  `fhe_uint_prepare` bootstraps bit `j` from an
LWE in the radix of the INPUT word; when `1 ≤ base2k ≤ log2(2N) = m` the modulus switch collects `size = ⌈m/b⌉` limbs (`C14.index_error_low`).  With
`H_c` the Horner values of the limbs read (sign applied: `Left`), `Φ_H = H_0 + Σ H_i s_i` the phase of those limbs under the binary LWE key:
* `b ∤ m` (`d = b − m mod b`): if `Φ_H = −(i·step)·2^d + ε` and `(1 + hw(s))·2^{d−1} + |ε| < (step/2)·2^d`, the switched index `idx` satisfies
  `(drift − idx) mod 2N = i·step + e`, `0 < e < step`;
* `b ∣ m`: the switched values ARE the Horner values; if `Φ_H = −(i·step) + ε`, `|ε| < step/2`, the same conclusion.
This is the hypothesis `hcell` of `cbt_rows_bit` (constant mode, `i = bit·α`), so `prepare_bits` / `cbt_gives_ggsw` cover words of every radix. -/
theorem prepare_index_low (m b : Nat) (limbs : List (List Int)) (nl : Nat) (sk : List Int)
    (hm : 1 ≤ m) (hb1 : 1 ≤ b) (hbm : b ≤ m) (hrows : ∀ row ∈ limbs, row.length = nl + 1)
    (hsz : (m + b - 1) / b ≤ limbs.length)
    (hx : ∀ row ∈ limbs, ∀ x ∈ row, -(2:Int) ^ (b - 1) ≤ x ∧ x ≤ 2 ^ (b - 1))
    (hov : b * ((m + b - 1) / b) ≤ 62) (hbin : ∀ s ∈ sk, s = 0 ∨ s = 1)
    (step N i : Nat) (hstep : step % 2 = 0) (hfit : i * step + step ≤ 2 * N) (ε : Int) :
    let H : Nat → Int := fun c => hv b (fun l => (-1) * (limbs.getD l []).getD c 0) ((m + b - 1) / b - 1)
    let Φ := H 0 + blkPhase (List.zip ((List.range nl).map fun c => H (c + 1)) sk)
    let d := b - m % b
    ∃ ys, modSwitch2n (2 ^ m) b limbs true = .ok ys ∧
      (m % b ≠ 0 → Φ = -((i * step : Nat) : Int) * 2 ^ d + ε →
        (((1 + sk.sum.natAbs) * 2 ^ (d - 1) : Nat) : Int) + |ε| < ((step / 2 : Nat) : Int) * 2 ^ d →
        ∃ e : Nat, 0 < e ∧ e < step ∧
          (((step / 2 : Nat) : Int) - (ys.getD 0 0 + blkPhase (List.zip ys.tail sk))) % (2 * (N : Int)) = ((i * step + e : Nat) : Int)) ∧
      (m % b = 0 → Φ = -((i * step : Nat) : Int) + ε → |ε| < ((step / 2 : Nat) : Int) →
        ∃ e : Nat, 0 < e ∧ e < step ∧
          (((step / 2 : Nat) : Int) - (ys.getD 0 0 + blkPhase (List.zip ys.tail sk))) % (2 * (N : Int)) = ((i * step + e : Nat) : Int)) := by
  intro H Φ d
  obtain ⟨ys, hys, hlen, hdiv, hnd⟩ := C14.index_error_low m b limbs true nl sk hm hb1 hbm hrows hsz hx hov hbin
  simp only [if_true] at hdiv hnd
  refine ⟨ys, hys, ?_, ?_⟩
  · intro hmb hΦ hsmall
    obtain ⟨_, hid, hbd⟩ := hnd hmb
    apply Noise.index_lands d step N i _ _ _ ε hstep hid hΦ _ hfit
    have : |(2:ℤ) ^ (d - 1) - msRem d (H 0) + blkPhase (List.zip (((List.range nl).map fun c => H (c + 1)).map fun x => 2 ^ (d - 1) - msRem d x) sk)| ≤
        (((1 + sk.sum.natAbs) * 2 ^ (d - 1) : ℕ) : ℤ) := by
      rw [Int.abs_eq_natAbs]; exact_mod_cast hbd
    linarith
  · intro hmb hΦ hsmall
    have hy := hdiv hmb
    have h0 : ys.getD 0 0 = H 0 := by
      rw [hy, List.getD_eq_getElem?_getD, List.getElem?_map, List.getElem?_range (Nat.succ_pos nl)]
      rfl
    have ht : ys.tail = (List.range nl).map fun c => H (c + 1) := by
      rw [hy, List.range_succ_eq_map, List.map_cons, List.tail_cons, List.map_map]
      rfl
    rw [h0, ht]
    apply Noise.index_lands 0 step N i _ Φ 0 ε hstep (by rw [pow_zero, mul_one, add_zero]) (by simpa using hΦ) (by simpa using hsmall) hfit

/-- non-vacuity: `N = 16` (`m = 5`), radix `2^2`, three limbs (`d = 1`): the limbs `(1 | 1 | 0)` of a key-less sample (`H = 20`) switch to `−10`,
inside the cell of `i = 1` for `step = 8` (`e = 6`) -/
example : Lut.modSwitch2n 32 2 [[1], [1], [0]] true = .ok [-10] ∧ (((8 / 2 : Nat) : Int) - (-10)) % (2 * 16) = ((1 * 8 + 6 : Nat) : Int) :=
  ⟨by rfl, by decide⟩

/-- what a prepared bit holds, given what item `i` of the loop produces -/
def preparedBit (bitOf : Nat → Bool) : Threads.Act → Bool
  | .item _ _ i => bitOf i
  | .zero => false
  | .untouched => false

/-- **`fhe_uint_prepare_custom(_multi_thread)` prepares exactly the bits of the range.**  For every word, every
`(start, count)` with `start + count ≤ 32`, every thread count ≥ 1 and sufficient scratch: the call succeeds and
prepared bit `j` is the GGSW of `w_j` for `start ≤ j < start + count` (item `j` = `get_bit_lwe(j)` — coefficient
`bit_index(j) << log_gap`, `encode_decode_bit` — followed by circuit bootstrapping, `cbt_gives_ggsw`) and the zero
GGSW elsewhere; no bit is left untouched.  (Partition / zeroing: C20's `execPrepare_table`.) -/
theorem prepare_bits (w : BitVec 32) (threads start count avail per : Nat) (ht : 1 ≤ threads) (hr : start + count ≤ 32)
    (hs : threads * per ≤ avail) (hs2 : Threads.splitNeeded threads per ≤ avail) :
    ∃ acts, Threads.execPrepare threads 32 start count avail per = .ok acts ∧ acts.length = 32 ∧
      ∀ j (h : j < acts.length),
        preparedBit w.getLsbD acts[j] = (decide (start ≤ j ∧ j < start + count) && w.getLsbD j) := by
  obtain ⟨acts, h1, h2, h3⟩ := C20.execPrepare_table threads 32 start count avail per ht hr hs hs2
  refine ⟨acts, h1, h2, fun j hj => ?_⟩
  have := h3 j hj
  by_cases hin : start ≤ j ∧ j < start + count
  · rw [if_pos hin] at this
    obtain ⟨t, _, hact⟩ := this
    rw [hact]; simp [preparedBit, hin]
  · rw [if_neg hin] at this
    rw [this]; simp [preparedBit, hin]

example : ∃ acts, Threads.execPrepare 3 32 5 9 4096 1024 = .ok acts ∧ preparedBit (0xFFFFFFFF#32).getLsbD (acts.getD 7 .untouched) = true ∧
    preparedBit (0xFFFFFFFF#32).getLsbD (acts.getD 14 .untouched) = false := by
  refine ⟨_, rfl, ?_, ?_⟩ <;> decide

/-- the word the driver prints for a partially prepared integer has exactly those bits -/
theorem prepareCustomWord_bits (w start count : Nat) : ∀ k, k ≤ 32 →
    (List.range k).foldl (fun acc i => if start ≤ i ∧ i < start + count ∧ (w >>> i) % 2 = 1 then acc + 2 ^ i else acc) 0 < 2 ^ k ∧
    ∀ i, i < k → ((List.range k).foldl (fun acc i => if start ≤ i ∧ i < start + count ∧ (w >>> i) % 2 = 1 then acc + 2 ^ i else acc) 0).testBit i
      = decide (start ≤ i ∧ i < start + count ∧ (w >>> i) % 2 = 1) := by
  intro k
  induction k with
  | zero => intro _; simp
  | succ k ih =>
    intro hk
    obtain ⟨h1, h2⟩ := ih (by omega)
    rw [List.range_succ, List.foldl_append]
    simp only [List.foldl_cons, List.foldl_nil]
    generalize (List.range k).foldl (fun acc i => if start ≤ i ∧ i < start + count ∧ (w >>> i) % 2 = 1 then acc + 2 ^ i else acc) 0 = S at h1 h2
    have hp : 2 ^ (k + 1) = 2 * 2 ^ k := by rw [Nat.pow_succ, Nat.mul_comm]
    by_cases hd : start ≤ k ∧ k < start + count ∧ (w >>> k) % 2 = 1
    · simp only [hd, and_self, if_true]
      refine ⟨by omega, fun i hi => ?_⟩
      rcases Nat.lt_succ_iff_lt_or_eq.1 hi with h | h
      · rw [Nat.add_comm, Nat.testBit_two_pow_add_gt h]; exact h2 i h
      · subst h
        rw [Nat.add_comm, Nat.testBit_two_pow_add_eq, Nat.testBit_lt_two_pow h1]; simp [hd]
    · simp only [hd, if_false]
      refine ⟨by omega, fun i hi => ?_⟩
      rcases Nat.lt_succ_iff_lt_or_eq.1 hi with h | h
      · exact h2 i h
      · subst h
        rw [Nat.testBit_lt_two_pow h1]; simp [hd]

/-- **`from_fhe_uint_prepared`** (`cmux(one, zero, bit_i)` per bit, then `pack`): the packed integer decrypts to the
word whose bits are the prepared bits — `word_op_composes` at the identity. -/
theorem from_prepared_word (w : BitVec 32) (outBits : List Int) (hlen : outBits.length = 32)
    (hcmux : ∀ i, i < 32 → outBits.getD i 0 = if w.getLsbD i then 1 else 0) (i : Nat) (hi : i < 32) :
    FheUint.decodeBit FheUint.u32 (FheUint.pack FheUint.u32 outBits) i = w.getLsbD i :=
  word_op_composes (fun a _ => a) w w w.getLsbD (fun _ _ => rfl) outBits hlen hcmux i hi

/-- **`get_bit_lwe(i)` / `lwe_from_glwe` index.**  The LWE of bit `i` is extracted at coefficient
`bit_index(i) << log_gap` (`coeffIndex`, injective in `i`: `coeffIndex_injective`); in the slot model that is slot
`bit_index(i)`, whose plaintext value is exactly `w_i ∈ {0,1}` (at torus precision 2, i.e. phase `w_i/4`). -/
theorem get_bit_lwe_value (w : BitVec 32) (i : Nat) (hi : i < 32) :
    FheUint.encode FheUint.u32 w.toNat (FheUint.bitIndex FheUint.u32 i) = if w.getLsbD i then 1 else 0 := by
  have hb := bitIndex_bijection.2.2 i hi
  unfold FheUint.encode
  simp only [show FheUint.u32.bits = 32 from rfl, hb.1, if_true, hb.2.1]
  have h2 := Nat.mod_two_eq_zero_or_one (w.toNat >>> i)
  have ht : w.getLsbD i = (w.toNat).testBit i := rfl
  rw [ht, Nat.testBit_eq_decide_div_mod_eq, ← Nat.shiftRight_eq_div_pow]
  rcases h2 with h | h <;> simp [h]

example : FheUint.encode FheUint.u32 0x84838281 (FheUint.bitIndex FheUint.u32 7) = 1 := by decide

end C15
