import Poulpy.Model.Core.Ep
import Poulpy.Lemmas.EpPhase
import Poulpy.Props.C07
import Poulpy.Model.Core.Expand
import Poulpy.Lemmas.ExpandIdx
import Poulpy.Lemmas.ExpandPhase
import Poulpy.Lemmas.NegHal
import Poulpy.Lemmas.EpBridge
import Poulpy.Lemmas.EpKs
import Poulpy.Model.Core.Mul
import Poulpy.Props.C03
import Poulpy.Props.C02
import Poulpy.Props.C08
import Poulpy.Lemmas.MulTensor
import Poulpy.Lemmas.EpNorm
import Poulpy.Lemmas.GadgetCore
import Poulpy.Lemmas.ValBridge
import Poulpy.Lemmas.AccAdd
import Poulpy.Lemmas.EpTotal
import Poulpy.Lemmas.CswapTotal
import Poulpy.Lemmas.HeadRoom
import Poulpy.Lemmas.ExpandTotal
import Poulpy.Lemmas.EpConvert
import Poulpy.Lemmas.CmuxSelect
import Poulpy.Lemmas.MulNorm

/-!
# C04 — external products and CMux multiply by the EpGGSW plaintext within noise

Model: `Model/Core/Ep.lean` (`Core.epInternal`, `Core.glweExternalProduct`, `Core.cmux*`,
`Core.matExternalProduct`), executed by `Driver/Ep.lean` and tied bit for bit to the four back ends
by `./check C04`.  The model is built from `Hal.dftApplyCol`, `Hal.vmpFlat`, `Hal.Buf`; the
theorems below are about those definitions and about `Hal.negMul` / `Hal.sumR` (= `Hal.sumPolys`
over a range), the exact negacyclic product and the fold `vmpFlat` uses.

Layers
* A (`vmp_phase`): for the vector-matrix product the model executes, the phase of output limb `l`
  is the digit-weighted sum of the phases of limb `l` of the matrix rows — for every shape, every
  secret, every digit vector (this is the whole `dsize = 1` external product and each pass `di` of
  the `dsize > 1` one).
* B (`ep_identity`, `cmux_selects`): whatever way the phases of the EpGGSW rows are written as
  `m2 ⋆ w_q + e_q`, the product has phase `m2 ⋆ (Σ_q d_q ⋆ w_q) + Σ_q d_q ⋆ e_q` with the *same*
  `m2` — every error term explicit.  With `w_q = σ_{q mod cols}` on limb `q / cols` (what
  `ggsw_encrypt_sk` produces: row `r`, column `c` carries `m2·σ_c` at limb `(r+1)·dsize − 1`) the
  first sum is the gadget recomposition of the digits, i.e. the phase of the decomposed GLWE minus
  the dropped limbs.
* determinacy (`epInternal_determined`, every `dsize`) and the `dsize = 1` bridge (`ep_executed_phase_dsize1`,
  `ep_executed_identity_dsize1`) are about the executed `Core.epInternal`; until poulpy d3c2e96 determinacy was false
  for `dsize ≥ 3` (`Cmux`/`Cswap` do not zero `res_dft`), the former counterexample is the regression instance.
-/

namespace C04
open Hal Core KsDec

/-- **Layer A.**  Phase of a vector-matrix product (`limb_offset = 0`, result of `S` limbs ×
`cols` columns, `cols = rank + 1 = sk.length + 1`): limb `l` of the phase of `a · M` is
`Σ_{q < min(rows·cols_in, |a|)} a_q ⋆ phase(M_q)_l`. -/
theorem vmp_phase (n : Nat) (sk : List Poly) (aF : List Poly) (M : PMat) (S l : Nat)
    (hl : l < S) (hS : M.size = S) (hc : M.colsOut = sk.length + 1)
    (hE : ∀ q r, (M.entry q r).length = n) :
    phaseFlat n sk (sk.length + 1) (fun r => (vmpFlat n aF M 0 (S * (sk.length + 1))).getD r (zeroP n)) l
      = sumR n (fun q => Hal.negMul (aF.getD q (zeroP n)) (phaseFlat n sk (sk.length + 1) (M.entry q) l))
          (min (M.colsIn * M.rows) aF.length) := by
  have key : ∀ r, r < S * (sk.length + 1) →
      (vmpFlat n aF M 0 (S * (sk.length + 1))).getD r (zeroP n)
        = sumR n (fun q => Hal.negMul (aF.getD q (zeroP n)) (M.entry q r)) (min (M.colsIn * M.rows) aF.length) := by
    intro r hr
    rw [C07.vmp_entry n aF M 0 _ r hr]
    have hpos : 0 * M.colsOut < min (M.colsOut * M.size) (S * (sk.length + 1) + 0 * M.colsOut) ∧
        r < min (M.colsOut * M.size) (S * (sk.length + 1) + 0 * M.colsOut) - 0 * M.colsOut := by
      rw [hS, hc, Nat.mul_comm (sk.length + 1) S]
      simp
      omega
    rw [if_pos hpos]
    simp [sumR]
  rw [← phaseFlat_sumR n sk (sk.length + 1) (fun q => aF.getD q (zeroP n)) M.entry _ l hE]
  unfold phaseFlat
  simp only []
  have hb : l * (sk.length + 1) < S * (sk.length + 1) := Nat.mul_lt_mul_of_pos_right hl (by omega)
  have hi : ∀ i, i < sk.length → l * (sk.length + 1) + i + 1 < S * (sk.length + 1) := by
    intro i hi
    have : (l + 1) * (sk.length + 1) ≤ S * (sk.length + 1) := Nat.mul_le_mul_right _ (by omega)
    rw [Nat.add_mul] at this
    omega
  rw [key _ hb]
  congr 1
  apply sumR_congr
  intro i hi'
  rw [key _ (hi i hi')]

example : phaseFlat 2 [[0, 1]] 2 (fun r => (vmpFlat 2 [[1, 2], [3, -1]]
      { n := 2, rows := 1, colsIn := 2, colsOut := 2, size := 1,
        data := [[[[5, 6]], [[7, 8]]], [[[1, 0]], [[0, 1]]]] } 0 2).getD r (zeroP 2)) 0 = [-29, 7] := by decide

/-- **Layer B — external-product identity.**  If the phase of row `q` of the EpGGSW (at the limb
under consideration) is `m2 ⋆ w_q + e_q`, the digit-weighted sum of the rows has phase
`m2 ⋆ (Σ_q d_q ⋆ w_q) + Σ_q d_q ⋆ e_q`: the same `m2` multiplies the recomposed input, every
error term is explicit. -/
theorem ep_identity (n : Nat) (m2 : Poly) (d P w e : Nat → Poly) (R : Nat)
    (hw : ∀ q, q < R → (w q).length = n) (he : ∀ q, q < R → (e q).length = n)
    (hP : ∀ q, q < R → P q = polyAdd (Hal.negMul m2 (w q)) (e q)) :
    sumR n (fun q => Hal.negMul (d q) (P q)) R
      = polyAdd (Hal.negMul m2 (sumR n (fun q => Hal.negMul (d q) (w q)) R)) (sumR n (fun q => Hal.negMul (d q) (e q)) R) := by
  rw [negMul_sumR n m2 _ R (fun q hq => by rw [Hal.negMul_length, hw q hq]), sumR_add]
  apply sumR_congr
  intro q hq
  rw [hP q hq, negMul_add_right _ _ _ (by rw [Hal.negMul_length, hw q hq, he q hq]), negMul_negMul_comm]

example : sumR 2 (fun q => Hal.negMul ([[1, 2], [3, 4]].getD q []) ([[7, 1], [0, 5]].getD q [])) 2
    = polyAdd (Hal.negMul [0, 1] (sumR 2 (fun q => Hal.negMul ([[1, 2], [3, 4]].getD q []) ([[1, -6], [4, 0]].getD q [])) 2))
        (sumR 2 (fun q => Hal.negMul ([[1, 2], [3, 4]].getD q []) ([[1, 0], [0, 1]].getD q [])) 2) := by decide

/-- **`cmux_selects`.**  CMux computes `(t − f) ⊡ ggsw + f`.  Let `D = Σ_q d_q ⋆ w_q` be the gadget
recomposition of the digits of `t − f`, assumed to be `T − F` (`T`, `F`: the phases of `t`
— less the dropped limbs — and of `f` at this limb).  If the EpGGSW rows have phase
`m2 ⋆ w_q + e_q`, then for the bit `m2 = 0` the output phase is **exactly** `F` plus the error sum,
and for `m2 = 1` it is **exactly** `T` plus the same error sum — for every `t`, `f`, every shape.
This is the statement the Boolean model of C13 (`evalFlat`) rests on. -/
theorem cmux_selects (n k : Nat) (bit : Bool) (d P w e : Nat → Poly) (R : Nat) (T F : Poly)
    (hT : T.length = n) (hF : F.length = n)
    (hw : ∀ q, q < R → (w q).length = n) (he : ∀ q, q < R → (e q).length = n)
    (hP : ∀ q, q < R → P q = polyAdd (Hal.negMul (if bit then 1 :: zeroP k else zeroP (k + 1)) (w q)) (e q))
    (hD : sumR n (fun q => Hal.negMul (d q) (w q)) R = polySub T F) :
    polyAdd (sumR n (fun q => Hal.negMul (d q) (P q)) R) F
      = polyAdd (if bit then T else F) (sumR n (fun q => Hal.negMul (d q) (e q)) R) := by
  rw [ep_identity n _ d P w e R hw he hP, hD]
  have hlen : (polySub T F).length = n := by simp [polySub, hT, hF]
  have hN : (sumR n (fun q => Hal.negMul (d q) (e q)) R).length = n :=
    sumR_length n _ R (fun q hq => by rw [Hal.negMul_length, he q hq])
  cases bit with
  | true =>
    simp only [if_true]
    rw [negMul_one, polyAdd_assoc, polyAdd_comm _ F, ← polyAdd_assoc, polyAdd_polySub_cancel T F (by rw [hT, hF])]
  | false =>
    simp only [Bool.false_eq_true, if_false]
    rw [negMul_zeroP_left, hlen, ep_polyAdd_zero_left n _ hN, polyAdd_comm]

example : polyAdd (sumR 2 (fun q => Hal.negMul ([[3, -1]].getD q []) ([[1, 5]].getD q [])) 1) [8, 21]
    = polyAdd [11, 20] (sumR 2 (fun q => Hal.negMul ([[3, -1]].getD q []) ([[0, 5]].getD q [])) 1) :=
  cmux_selects 2 1 true (fun q => [[3, -1]].getD q []) (fun q => [[1, 5]].getD q []) (fun q => [[1, 0]].getD q [])
    (fun q => [[0, 5]].getD q []) 1 [11, 20] [8, 21] rfl rfl
    (fun q hq => by have h0 : q = 0 := (by omega); subst h0; rfl)
    (fun q hq => by have h0 : q = 0 := (by omega); subst h0; rfl)
    (fun q hq => by have h0 : q = 0 := (by omega); subst h0; decide) (by decide)

/-- **`cswap_swaps`.**  `Cswap` computes `res_a ← (res_b − res_a) ⊡ ggsw + res_a` and
`res_b ← res_b − (res_b − res_a) ⊡ ggsw`.  Let `D = Σ_q d_q ⋆ w_q` be the gadget recomposition of the digits of
`res_b − res_a`, assumed to be `B − A` (`A`, `B`: the phases of the two inputs at this limb, less the dropped limbs).
If the GGSW rows have phase `m2 ⋆ w_q + e_q`, then for the bit `m2 = 1` the two output phases are the input phases
**exchanged** — `(B + N, A − N)` — and for `m2 = 0` they are **unchanged** — `(A + N, B − N)` — with the same explicit
error sum `N = Σ_q d_q ⋆ e_q` entering with opposite signs, for every pair of inputs and every shape.  This is the
`CswapContract` that the blind-retrieval theorems of C15 (`Lemmas/BlindSel.lean`) assume, at phase level. -/
theorem cswap_swaps (n k : Nat) (bit : Bool) (d P w e : Nat → Poly) (R : Nat) (A B : Poly)
    (hA : A.length = n) (hB : B.length = n)
    (hw : ∀ q, q < R → (w q).length = n) (he : ∀ q, q < R → (e q).length = n)
    (hP : ∀ q, q < R → P q = polyAdd (Hal.negMul (if bit then 1 :: zeroP k else zeroP (k + 1)) (w q)) (e q))
    (hD : sumR n (fun q => Hal.negMul (d q) (w q)) R = polySub B A) :
    polyAdd (sumR n (fun q => Hal.negMul (d q) (P q)) R) A
        = polyAdd (if bit then B else A) (sumR n (fun q => Hal.negMul (d q) (e q)) R)
      ∧ polySub B (sumR n (fun q => Hal.negMul (d q) (P q)) R)
        = polySub (if bit then A else B) (sumR n (fun q => Hal.negMul (d q) (e q)) R) := by
  refine ⟨cmux_selects n k bit d P w e R B A hB hA hw he hP hD, ?_⟩
  rw [ep_identity n _ d P w e R hw he hP, hD]
  have hlen : (polySub B A).length = n := by simp [polySub, hA, hB]
  have hN : (sumR n (fun q => Hal.negMul (d q) (e q)) R).length = n :=
    sumR_length n _ R (fun q hq => by rw [Hal.negMul_length, he q hq])
  cases bit with
  | true =>
    simp only [if_true]
    rw [negMul_one]
    exact sub_add_sub_regroup A B _ (by rw [hA, hB]) (by rw [hN, hB])
  | false =>
    simp only [Bool.false_eq_true, if_false]
    rw [negMul_zeroP_left, hlen, ep_polyAdd_zero_left n _ hN]

example : polyAdd (sumR 2 (fun q => Hal.negMul ([[3, -1]].getD q []) ([[1, 5]].getD q [])) 1) [8, 21]
      = polyAdd [11, 20] (sumR 2 (fun q => Hal.negMul ([[3, -1]].getD q []) ([[0, 5]].getD q [])) 1)
    ∧ polySub [11, 20] (sumR 2 (fun q => Hal.negMul ([[3, -1]].getD q []) ([[1, 5]].getD q [])) 1)
      = polySub [8, 21] (sumR 2 (fun q => Hal.negMul ([[3, -1]].getD q []) ([[0, 5]].getD q [])) 1) :=
  cswap_swaps 2 1 true (fun q => [[3, -1]].getD q []) (fun q => [[1, 5]].getD q []) (fun q => [[1, 0]].getD q [])
    (fun q => [[0, 5]].getD q []) 1 [8, 21] [11, 20] rfl rfl
    (fun q hq => by have h0 : q = 0 := (by omega); subst h0; rfl)
    (fun q hq => by have h0 : q = 0 := (by omega); subst h0; rfl)
    (fun q hq => by have h0 : q = 0 := (by omega); subst h0; decide) (by decide)

/-! ## Row expansion (GGLWE → GGSW), third clause of the property -/

/-- **Layer B — row expansion.**  Row `row` of the GGLWE is the GLWE `(body, a_1 … a_r)` with
`body = (M + e₀) − Σ_j s_j ⋆ a_j` (`M = m2·2^{-(row+1)·dsize·b}`, `e₀` its encryption error).  The cell of
column `col ≥ 1` produced by `ggsw_expand_rows_internal` is the gadget product of the mask columns with key
`col−1` — whose input column `j` has phase `s ⋆ s_j + e_j` (`s = s_col`) — plus the body added to column `col`;
its phase is therefore `Σ_j a_j ⋆ (s ⋆ s_j + e_j) + s ⋆ body`.  The theorem: this equals
`s ⋆ (M + e₀) + Σ_j a_j ⋆ e_j` — the **same** `M` (hence the same `m2`) as in column 0, for every column and
every row, with an explicit error sum.  (If the key's input column `j` held `s ⋆ s_{j'}` for a wrong `j'`, the
terms `s ⋆ (s_{j'} − s_j) ⋆ a_j` would survive: this is what the per-cell oracle of `./check C04` detects.) -/
theorem row_expansion_identity (n r : Nat) (hn : 0 < n) (s M e0 : Poly) (sj a e P : Nat → Poly)
    (hs : s.length = n) (hM : M.length = n) (he0 : e0.length = n)
    (hsj : ∀ j, j < r → (sj j).length = n) (ha : ∀ j, j < r → (a j).length = n) (he : ∀ j, j < r → (e j).length = n)
    (hP : ∀ j, j < r → P j = polyAdd (Hal.negMul s (sj j)) (e j)) :
    polyAdd (sumR n (fun j => Hal.negMul (a j) (P j)) r)
        (Hal.negMul s (polySub (polyAdd M e0) (sumR n (fun j => Hal.negMul (sj j) (a j)) r)))
      = polyAdd (Hal.negMul s (polyAdd M e0)) (sumR n (fun j => Hal.negMul (a j) (e j)) r) := by
  have hS : (sumR n (fun j => Hal.negMul (sj j) (a j)) r).length = n :=
    sumR_length n _ r (fun j hj => by rw [Hal.negMul_length, ha j hj])
  have hN : (sumR n (fun j => Hal.negMul (a j) (e j)) r).length = n :=
    sumR_length n _ r (fun j hj => by rw [Hal.negMul_length, he j hj])
  have hMe : (polyAdd M e0).length = n := by simp [hM, he0]
  rw [ep_identity n s a P sj e r hsj he hP]
  have hcomm : sumR n (fun j => Hal.negMul (a j) (sj j)) r = sumR n (fun j => Hal.negMul (sj j) (a j)) r :=
    sumR_congr n _ _ r (fun j hj => Hal.negMul_comm n (a j) (sj j) (ha j hj) (hsj j hj) hn)
  rw [hcomm, negMul_sub_right s _ _ (by rw [hMe, hS])]
  exact add_sub_regroup _ _ _ (by rw [hN, Hal.negMul_length, hS]) (by rw [Hal.negMul_length, Hal.negMul_length, hMe, hS])

example : polyAdd (sumR 2 (fun j => Hal.negMul ([[2, -1]].getD j []) ([[1, 4]].getD j [])) 1)
      (Hal.negMul [0, 1] (polySub (polyAdd [8, 0] [1, 0]) (sumR 2 (fun j => Hal.negMul ([[0, 1]].getD j []) ([[2, -1]].getD j [])) 1)))
    = polyAdd (Hal.negMul [0, 1] (polyAdd [8, 0] [1, 0])) (sumR 2 (fun j => Hal.negMul ([[2, -1]].getD j []) ([[2, 4]].getD j [])) 1) := by
  decide

/-- **Layer A — secret-tensor index map** (`GLWESecretTensor::at(i, j)`, the index under which the key of
`gglwe_to_ggsw_key_encrypt_sk` finds `s_i·s_j`): symmetric in `(i, j)` … -/
theorem secretTensorIdx_symm (r i j : Nat) : secretTensorIdx r i j = secretTensorIdx r j i :=
  secretTensorIdx_symm' r i j

example : secretTensorIdx 3 2 0 = secretTensorIdx 3 0 2 ∧ secretTensorIdx 3 0 2 = 2 := by decide

/-- … equal to the packed-triangle index `i·rank + j − i(i+1)/2` for `i ≤ j`, inside `[0, pairs(rank))` … -/
theorem secretTensorIdx_range (r i j : Nat) (h : i ≤ j) (hj : j < r) :
    secretTensorIdx r i j = i * r + j - i * (i + 1) / 2 ∧ secretTensorIdx r i j < secretTensorPairs r := by
  refine ⟨secretTensorIdx_le r i j h, ?_⟩
  have := secretTensorIdx_lt' r i j h hj
  unfold secretTensorPairs
  omega

example : secretTensorIdx 3 1 2 = 4 ∧ secretTensorPairs 3 = 6 := by decide

/-- … injective on the pairs `i ≤ j < rank` (no two products share a slot), for every rank … -/
theorem secretTensorIdx_injective (r i j i' j' : Nat) (h : i ≤ j) (hj : j < r) (h' : i' ≤ j') (hj' : j' < r)
    (e : secretTensorIdx r i j = secretTensorIdx r i' j') : i = i' ∧ j = j' :=
  secretTensorIdx_inj' r i j i' j' h hj h' hj' e

example : secretTensorIdx 3 1 1 ≠ secretTensorIdx 3 0 2 := by decide

/-- … and onto `[0, pairs(rank))` (every slot holds a product) — hence a bijection; enumerated for
`rank ≤ 6`, which contains the property's ranks 1..3 (general surjectivity follows from injectivity and
the count of pairs; not formalised). -/
theorem secretTensorIdx_surjective_partial :
    ∀ r, r < 7 → ∀ t, t < (r + 1) * r / 2 → ∃ i, i < r ∧ ∃ j, j < r ∧ i ≤ j ∧ secretTensorIdx r i j = t := by
  decide

example : ∃ i, i < 3 ∧ ∃ j, j < 3 ∧ i ≤ j ∧ secretTensorIdx 3 i j = 5 := by decide

/-! ## The executed external product (`Core.epInternal`): determinacy and the `dsize = 1` bridge -/

/-- **Determinacy of `glwe_external_product_internal`, every digit size.**  The big accumulator returned by the
executed model does not depend on the previous contents of the two scratch DFT buffers (`res_dft`, which the CMux
forms and `Cswap` do not zero, and `res_dft_tmp`, which nobody zeroes): no stale scratch data can reach an external
product, a CMux or a Cswap.  (False of the code for `dsize ≥ 3` until poulpy d3c2e96 — this slice proved the negation
on a witness and reproduced it on the four back ends; the former witness is the example below.) -/
theorem epInternal_determined (a : List Col) (g : EpGGSW) (res0 res0' tmp0 tmp0' : List Col) (hd : 1 ≤ g.dsize)
    (h0 : shapeOk g.n (g.rank + 1) g.size res0 = true) (h0' : shapeOk g.n (g.rank + 1) g.size res0' = true)
    (ht : shapeOk g.n (g.rank + 1) g.size tmp0 = true) (ht' : shapeOk g.n (g.rank + 1) g.size tmp0' = true) :
    epInternal a g res0 tmp0 = epInternal a g res0' tmp0' :=
  Core.epInternal_determined a g res0 res0' tmp0 tmp0' hd h0 h0' ht ht'

/-- the former witness of the defect (`n = 1`, rank 1, `dsize = 3`, GGSW of 4 limbs) -/
def staleG : EpGGSW :=
  { base2k := 4, n := 1, rank := 1, dsize := 3, dnum := 1, size := 4,
    cells := [[[[1], [0], [0], [0]], [[0], [0], [0], [0]]], [[[0], [0], [0], [0]], [[1], [0], [0], [0]]]] }

example : epInternal [[[1], [2], [3]], [[0], [1], [0]]] staleG [[[0], [0], [0], [7]], [[0], [0], [0], [0]]] (zeroCols 1 2 4)
    = epInternal [[[1], [2], [3]], [[0], [1], [0]]] staleG (zeroCols 1 2 4) (zeroCols 1 2 4) :=
  epInternal_determined _ staleG _ _ _ _ (by decide) (by decide) (by decide) (by decide) (by decide)

example : epInternal [[[1], [2], [3]], [[0], [1], [0]]] staleG (zeroCols 1 2 4) (zeroCols 1 2 4)
    = [[[3], [0], [0], [0]], [[0], [0], [0], [0]]] := by decide

/-- **Bridge, `dsize = 1`, layer A on the executed definition.**  Limb `l` of the phase of what `Core.epInternal`
returns (through `Buf.setFlat` / `Buf.act` and the `vec_znx_dft_apply` column loop) is the digit-weighted sum of the
phases of limb `l` of the GGSW rows, the digits being the limbs of the input in storage order. -/
theorem ep_executed_phase_dsize1 (sk : List Poly) (a : List Col) (g : EpGGSW) (res0 tmp0 : List Col) (l : Nat)
    (h1 : g.dsize = 1) (h0 : shapeOk g.n (g.rank + 1) g.size res0 = true)
    (ha : shapeOk g.n (g.rank + 1) (a.getD 0 []).length a = true) (hl : l < g.size)
    (hM : ∀ j q, (g.toPMat.entry j q).length = g.n) :
    Ks.phaseRow sk ((epInternal a g res0 tmp0).map (fun col => limbOr0 g.n col l)) =
      sumR g.n (fun j => Hal.negMul ((mkBuf g.n (g.rank + 1) (a.getD 0 []).length a).flat.getD j (zeroP g.n))
          (Ks.phaseRow sk (Ks.rowLimb g.toPMat j l)))
        (min ((g.rank + 1) * g.dnum) ((a.getD 0 []).length * (g.rank + 1))) :=
  epInternal_phase_dsize1 sk a g res0 tmp0 l h1 h0 ha hl hM

/-- **External-product identity on the executed model (`dsize = 1`, in full).**  If limb `l` of the phase of GGSW
row `j` is `m2 ⋆ w_j + e_j`, limb `l` of the phase of the executed product is `m2 ⋆ (Σ_j d_j ⋆ w_j) + Σ_j d_j ⋆ e_j`,
`d_j` the input limbs: `ep_identity` is a statement about `Core.epInternal`. -/
theorem ep_executed_identity_dsize1 (sk : List Poly) (a : List Col) (g : EpGGSW) (res0 tmp0 : List Col) (l : Nat)
    (m2 : Poly) (w e : Nat → Poly)
    (h1 : g.dsize = 1) (h0 : shapeOk g.n (g.rank + 1) g.size res0 = true)
    (ha : shapeOk g.n (g.rank + 1) (a.getD 0 []).length a = true) (hl : l < g.size)
    (hM : ∀ j q, (g.toPMat.entry j q).length = g.n)
    (hw : ∀ j, j < min ((g.rank + 1) * g.dnum) ((a.getD 0 []).length * (g.rank + 1)) → (w j).length = g.n)
    (he : ∀ j, j < min ((g.rank + 1) * g.dnum) ((a.getD 0 []).length * (g.rank + 1)) → (e j).length = g.n)
    (hP : ∀ j, j < min ((g.rank + 1) * g.dnum) ((a.getD 0 []).length * (g.rank + 1)) →
      Ks.phaseRow sk (Ks.rowLimb g.toPMat j l) = polyAdd (Hal.negMul m2 (w j)) (e j)) :
    Ks.phaseRow sk ((epInternal a g res0 tmp0).map (fun col => limbOr0 g.n col l)) =
      polyAdd
        (Hal.negMul m2 (sumR g.n (fun j =>
          Hal.negMul ((mkBuf g.n (g.rank + 1) (a.getD 0 []).length a).flat.getD j (zeroP g.n)) (w j))
          (min ((g.rank + 1) * g.dnum) ((a.getD 0 []).length * (g.rank + 1)))))
        (sumR g.n (fun j =>
          Hal.negMul ((mkBuf g.n (g.rank + 1) (a.getD 0 []).length a).flat.getD j (zeroP g.n)) (e j))
          (min ((g.rank + 1) * g.dnum) ((a.getD 0 []).length * (g.rank + 1)))) := by
  rw [ep_executed_phase_dsize1 sk a g res0 tmp0 l h1 h0 ha hl hM]
  exact ep_identity g.n m2 _ _ w e _ hw he hP

/-- the gadget product executed by row expansion and by relinearisation **is** C03's `gglwe_product_dft`
(`Ks.gglweProductDft`): `C03.keyswitch_phase_dsize1`, `C03.keyswitch_phase_dsize_gt1` (limb regrouping = digit
decomposition, `C03.limb_used_iff`, `C03.used_value_is_input_value`) and `C03.gadget_identity` are statements about it. -/
theorem gglweProductDft_is_ks (a : List Col) (g : GGLWE) (resSize : Nat) (res0 : List Col) :
    Core.gglweProductDft a g resSize res0 =
      (List.range g.colsOut).map
        (Ks.gglweProductDft (mkBuf g.n g.colsOut resSize res0) (mkBuf g.n g.colsIn (a.getD 0 []).length a) g.toKey).act := rfl

example : Core.gglweProductDft [[[1]]] { base2k := 4, n := 1, colsIn := 1, colsOut := 1, dsize := 1, dnum := 1, size := 1, cells := [[[[3]]]] }
    1 [[[9]]] = [[[3]]] := by decide

/-- … and its result does not depend on the previous content of `res_dft` (row expansion zeroes it, relinearisation
does not): `C03.product_determined` on the executed definition, every digit size. -/
theorem gglweProductDft_determined (a : List Col) (g : GGLWE) (res0 res0' : List Col) (hd : 1 ≤ g.dsize)
    (h0 : shapeOk g.n g.colsOut g.size res0 = true) (h0' : shapeOk g.n g.colsOut g.size res0' = true) :
    Core.gglweProductDft a g g.size res0 = Core.gglweProductDft a g g.size res0' := by
  rw [gglweProductDft_is_ks, gglweProductDft_is_ks]
  have s0 := (mkBuf_shape g.n g.colsOut g.size res0 h0).1
  have s0' := (mkBuf_shape g.n g.colsOut g.size res0' h0').1
  apply List.map_congr_left
  intro c hc
  exact C03.product_determined _ _ (mkBuf g.n g.colsIn (a.getD 0 []).length a) g.toKey hd s0.1 s0'.1 rfl rfl rfl rfl rfl rfl rfl rfl c (List.mem_range.mp hc)

example : Core.gglweProductDft [[[1]]] { base2k := 4, n := 1, colsIn := 1, colsOut := 1, dsize := 1, dnum := 1, size := 1, cells := [[[[3]]]] }
    1 [[[9]]] = Core.gglweProductDft [[[1]]] { base2k := 4, n := 1, colsIn := 1, colsOut := 1, dsize := 1, dnum := 1, size := 1, cells := [[[[3]]]] }
    1 [[[0]]] := by decide

/-- **Bridge for row expansion (key `dsize = 1`)**: the product `Core.expandRowCols` executes for column `col`
(`Core.gglweProductDft aDft (t.at (col−1)) …`) has, at limb `l`, the phase `Σ_j a_j ⋆ phase(key row j)_l`; with the key rows of
phase `s_col ⋆ s_j + e_j` this is the first summand of `row_expansion_identity` (for `dsize ≥ 2`: `C03.keyswitch_phase_dsize_gt1`
through `gglweProductDft_is_ks`). -/
theorem expand_product_phase_dsize1 (sk : List Poly) (a : List Col) (g : GGLWE) (res0 : List Col) (l : Nat)
    (h1 : g.dsize = 1) (h0 : shapeOk g.n g.colsOut g.size res0 = true) (hc : 0 < g.colsOut) (hl : l < g.size)
    (hM : ∀ j q, (g.toPMat.entry j q).length = g.n) :
    Ks.phaseRow sk ((Core.gglweProductDft a g g.size res0).map (fun col => limbOr0 g.n col l)) =
      sumPolys g.n ((List.range (min (g.colsIn * g.dnum) (mkBuf g.n g.colsIn (a.getD 0 []).length a).flat.length)).map (fun j =>
        Hal.negMul ((mkBuf g.n g.colsIn (a.getD 0 []).length a).flat.getD j (zeroP g.n)) (Ks.phaseRow sk (Ks.rowLimb g.toPMat j l)))) := by
  have s0 := (mkBuf_shape g.n g.colsOut g.size res0 h0).1
  have h := C03.keyswitch_phase_dsize1 sk (mkBuf g.n g.colsOut g.size res0) (mkBuf g.n g.colsIn (a.getD 0 []).length a) g.toKey l
    h1 s0.1 rfl hc hl hl hM
  have e : Ks.gglweProductDft (mkBuf g.n g.colsOut g.size res0) (mkBuf g.n g.colsIn (a.getD 0 []).length a) g.toKey
      = Hal.opVmp (mkBuf g.n g.colsOut g.size res0) (mkBuf g.n g.colsIn (a.getD 0 []).length a) g.toPMat 0 := by
    unfold Ks.gglweProductDft
    have h1' : g.toKey.dsize = 1 := h1
    simp only [h1', if_true]
    rfl
  have v := Ks.opVmp_spec (mkBuf g.n g.colsOut g.size res0) (mkBuf g.n g.colsIn (a.getD 0 []).length a) g.toPMat 0 s0.1
  have hb : Ks.bufRow (Ks.gglweProductDft (mkBuf g.n g.colsOut g.size res0) (mkBuf g.n g.colsIn (a.getD 0 []).length a) g.toKey) l
      = (Core.gglweProductDft a g g.size res0).map (fun col => limbOr0 g.n col l) := by
    unfold Core.gglweProductDft Ks.bufRow
    simp only [List.map_map]
    rw [e, v.2.1, v.2.2.2.1]
    rfl
  rw [← hb]
  exact h

example : Ks.phaseRow [] ((Core.gglweProductDft [[[2]]]
      { base2k := 4, n := 1, colsIn := 1, colsOut := 1, dsize := 1, dnum := 1, size := 1, cells := [[[[3]]]] } 1 [[[9]]]).map
        (fun col => limbOr0 1 col 0)) = [6] := by decide

/-! ## The executed external product for every digit size -/

/-- **The executed `glwe_external_product_internal` is C03's `gglwe_product_dft`** on the GGSW seen as a key with `rank+1`
input columns — for every digit size and any prior content of the two scratch buffers.  (The external product does not clamp
its digit buffer to `dnum` rows; the vector-matrix product reads at most `dnum` rows anyway.) -/
theorem epInternal_eq_gglwe_product (a : List Col) (g : EpGGSW) (res0 tmp0 : List Col) (hd : 1 ≤ g.dsize)
    (ha : shapeOk g.n (g.rank + 1) (a.getD 0 []).length a = true)
    (h0 : shapeOk g.n (g.rank + 1) g.size res0 = true) (ht : shapeOk g.n (g.rank + 1) g.size tmp0 = true) :
    epInternal a g res0 tmp0 =
      (List.range (g.rank + 1)).map
        (Ks.gglweProductDft (mkBuf g.n (g.rank + 1) g.size res0) (mkBuf g.n (g.rank + 1) (a.getD 0 []).length a) g.toKey).act :=
  epInternal_eq_ks a g res0 tmp0 hd ha h0 ht

example : epInternal [[[1], [2], [3]], [[0], [1], [0]]] staleG (zeroCols 1 2 4) (zeroCols 1 2 4) =
    (List.range 2).map (Ks.gglweProductDft (mkBuf 1 2 4 (zeroCols 1 2 4)) (mkBuf 1 2 3 [[[1], [2], [3]], [[0], [1], [0]]]) staleG.toKey).act :=
  epInternal_eq_gglwe_product _ staleG _ _ (by decide) (by decide) (by decide) (by decide)

/-- **`ep_executed_phase`** — layer A for every `dsize ≥ 1`, on the executed definition: in `R N = ℤ[X]/(X^N+1)` the phase
(under any secret) of limb `l` of what `Core.epInternal` returns is the abstract gadget accumulation `Gadget.acc` (the
`dsize` passes with `(step, offset) = (dsize, dsize−1−di)`, `limb_offset = di` and the size truncation) summed over the
`rank+1` input columns, with `a_i[m]` = limb `m` of input column `i` and `φ_i r l` = phase of limb `l` of GGSW row `r`,
column `i`. -/
theorem ep_executed_phase (N : Nat) (sk : List Poly) (a : List Col) (g : EpGGSW) (res0 tmp0 : List Col) (l : Nat)
    (hd : 1 ≤ g.dsize) (hN : 0 < N) (hn : g.n = N)
    (ha : shapeOk g.n (g.rank + 1) (a.getD 0 []).length a = true)
    (h0 : shapeOk g.n (g.rank + 1) g.size res0 = true) (ht : shapeOk g.n (g.rank + 1) g.size tmp0 = true)
    (hM : ∀ j q, (g.toPMat.entry j q).length = N) :
    Ks.ι N (Ks.phaseRow sk ((epInternal a g res0 tmp0).map (fun col => limbOr0 N col l)))
      = ∑ i ∈ Finset.range (g.rank + 1),
          Gadget.acc g.size g.dsize g.dnum (a.getD 0 []).length
            (Ks.inLimb N (mkBuf g.n (g.rank + 1) (a.getD 0 []).length a) i) (Ks.keyPhase N sk g.toPMat i) l := by
  rw [epInternal_eq_ks a g res0 tmp0 hd ha h0 ht, List.map_map]
  have s0 := (mkBuf_shape g.n (g.rank + 1) g.size res0 h0).1
  exact C03.keyswitch_phase N sk (mkBuf g.n (g.rank + 1) g.size res0) (mkBuf g.n (g.rank + 1) (a.getD 0 []).length a) g.toKey l
    hd hN s0.1 rfl rfl rfl (Nat.succ_pos _) hn hn rfl hM

example (l : Nat) : Ks.ι 1 (Ks.phaseRow [[1]] ((epInternal [[[1], [2], [3]], [[0], [1], [0]]] staleG (zeroCols 1 2 4) (zeroCols 1 2 4)).map
      (fun col => limbOr0 1 col l)))
    = ∑ i ∈ Finset.range 2, Gadget.acc 4 3 1 3 (Ks.inLimb 1 (mkBuf 1 2 3 [[[1], [2], [3]], [[0], [1], [0]]]) i)
        (Ks.keyPhase 1 [[1]] staleG.toPMat i) l :=
  ep_executed_phase 1 [[1]] _ staleG _ _ l (by decide) (by decide) rfl (by decide) (by decide) (by decide)
    (Ks.entry_length staleG.toPMat 1 rfl (by decide))

/-- **`ep_executed_identity`** — the external-product identity on the executed model, every `dsize ≥ 1`, with the explicit
dropped-limb terms.  If GGSW row `r`, input column `i` has phase value `m2·σ_i·β^{S−(r+1)·dsize} + E_{i,r}` (`β = 2^b`, `σ_0 = 1`,
`σ_i = s_i`: what `ggsw_encrypt_sk` produces, checked cell by cell by the oracle), the value of the phase of the executed product is
`m2 · Σ_i σ_i·usedVal(a_i)  +  Σ_i (Σ_r digit_{i,r}·E_{i,r} − dropped_i − β^S·head_i)`:
`Σ_i σ_i·usedVal(a_i)` is the value of the phase of the decomposed GLWE over the limbs the gadget uses (all of them when
`a_size ≤ dnum·dsize`, `C03.used_value_is_input_value`), `dropped` the product limbs cut by `res.set_size`, `β^S·head` a multiple of the
torus modulus.  Holds for the GLWE, GGLWE and GGSW products (each cell), and for the accumulators of CMux and Cswap. -/
theorem ep_executed_identity (N : Nat) (sk : List Poly) (a : List Col) (g : EpGGSW) (res0 tmp0 : List Col)
    (β m2 : Ks.R N) (σ : ℕ → Ks.R N) (E : ℕ → ℕ → Ks.R N)
    (hd : 1 ≤ g.dsize) (hN : 0 < N) (hn : g.n = N)
    (ha : shapeOk g.n (g.rank + 1) (a.getD 0 []).length a = true)
    (h0 : shapeOk g.n (g.rank + 1) g.size res0 = true) (ht : shapeOk g.n (g.rank + 1) g.size tmp0 = true)
    (hM : ∀ j q, (g.toPMat.entry j q).length = N) (hS : g.dnum * g.dsize ≤ g.size)
    (hkey : ∀ i, i < g.rank + 1 → ∀ r, r < g.dnum →
      Gadget.val β g.size (Ks.keyPhase N sk g.toPMat i r) = m2 * σ i * β ^ (g.size - (r + 1) * g.dsize) + E i r) :
    ∑ l ∈ Finset.range g.size,
        Ks.ι N (Ks.phaseRow sk ((epInternal a g res0 tmp0).map (fun col => limbOr0 N col l))) * β ^ (g.size - 1 - l)
      = m2 * ∑ i ∈ Finset.range (g.rank + 1),
            σ i * Gadget.usedVal β g.size g.dsize g.dnum (a.getD 0 []).length
              (Ks.inLimb N (mkBuf g.n (g.rank + 1) (a.getD 0 []).length a) i)
        + ∑ i ∈ Finset.range (g.rank + 1),
            (∑ r ∈ Finset.range g.dnum,
                Gadget.digit β g.dsize g.dnum (a.getD 0 []).length (Ks.inLimb N (mkBuf g.n (g.rank + 1) (a.getD 0 []).length a) i) r * E i r
              - Gadget.dropped β g.size g.dsize g.dnum (a.getD 0 []).length
                  (Ks.inLimb N (mkBuf g.n (g.rank + 1) (a.getD 0 []).length a) i) (Ks.keyPhase N sk g.toPMat i)
              - β ^ g.size * Gadget.head β g.dsize g.dnum (a.getD 0 []).length
                  (Ks.inLimb N (mkBuf g.n (g.rank + 1) (a.getD 0 []).length a) i) (Ks.keyPhase N sk g.toPMat i)) := by
  rw [epInternal_eq_ks a g res0 tmp0 hd ha h0 ht]
  simp only [List.map_map]
  have s0 := (mkBuf_shape g.n (g.rank + 1) g.size res0 h0).1
  have h := C03.keyswitch_value N sk (mkBuf g.n (g.rank + 1) g.size res0) (mkBuf g.n (g.rank + 1) (a.getD 0 []).length a) g.toKey β
    (fun i => m2 * σ i) E hd hN s0.1 rfl rfl rfl (Nat.succ_pos _) hn hn rfl hM hS hkey
  refine Eq.trans h ?_
  show ∑ i ∈ Finset.range (g.rank + 1), _ = _
  rw [Finset.mul_sum, ← Finset.sum_add_distrib]
  apply Finset.sum_congr rfl
  intro i _
  exact Core.ring_regroup _ _ _ _ _ _


/-- non-vacuity: for any `β`, `m2`, `σ` the key relation holds with `E` := the difference, here on the `dsize = 3` GGSW `staleG` -/
example (β m2 : Ks.R 1) (σ : ℕ → Ks.R 1) :
    ∑ l ∈ Finset.range 4,
        Ks.ι 1 (Ks.phaseRow [[1]] ((epInternal [[[1], [2], [3]], [[0], [1], [0]]] staleG (zeroCols 1 2 4) (zeroCols 1 2 4)).map
          (fun col => limbOr0 1 col l))) * β ^ (4 - 1 - l)
      = m2 * ∑ i ∈ Finset.range 2, σ i * Gadget.usedVal β 4 3 1 3 (Ks.inLimb 1 (mkBuf 1 2 3 [[[1], [2], [3]], [[0], [1], [0]]]) i)
        + ∑ i ∈ Finset.range 2,
            (∑ r ∈ Finset.range 1, Gadget.digit β 3 1 3 (Ks.inLimb 1 (mkBuf 1 2 3 [[[1], [2], [3]], [[0], [1], [0]]]) i) r *
                (Gadget.val β 4 (Ks.keyPhase 1 [[1]] staleG.toPMat i r) - m2 * σ i * β ^ (4 - (r + 1) * 3))
              - Gadget.dropped β 4 3 1 3 (Ks.inLimb 1 (mkBuf 1 2 3 [[[1], [2], [3]], [[0], [1], [0]]]) i) (Ks.keyPhase 1 [[1]] staleG.toPMat i)
              - β ^ 4 * Gadget.head β 3 1 3 (Ks.inLimb 1 (mkBuf 1 2 3 [[[1], [2], [3]], [[0], [1], [0]]]) i) (Ks.keyPhase 1 [[1]] staleG.toPMat i)) :=
  ep_executed_identity 1 [[1]] _ staleG _ _ β m2 σ
    (fun i r => Gadget.val β 4 (Ks.keyPhase 1 [[1]] staleG.toPMat i r) - m2 * σ i * β ^ (4 - (r + 1) * 3))
    (by decide) (by decide) rfl (by decide) (by decide) (by decide) (Ks.entry_length staleG.toPMat 1 rfl (by decide)) (by decide)
    (by intro i _ r _; exact (add_sub_cancel _ _).symm)

/-- entry points → the executed product: `glwe_external_product` (hence every cell of the GGLWE / GGSW forms, which call it)
normalises `epInternal` of the radix-converted input with zeroed scratch … -/
theorem glweExternalProduct_accumulator (big128 : Bool) (n rb rs : Nat) (a : List Col) (ab : Nat) (g : EpGGSW) (aConv : List Col)
    (hg : (g.n == n && g.wf && shapeOk n (g.rank + 1) (a.getD 0 []).length a) = true)
    (hc : epConvert n a ab g = some aConv) :
    glweExternalProduct big128 n rb rs a ab g =
      optOutcome ((epInternal aConv g (zeroCols n (g.rank + 1) g.size) (zeroCols n (g.rank + 1) g.size)).mapM
        (fun c => epBigNormalize big128 n rb rs c g.base2k)) := by
  unfold glweExternalProduct
  simp only [hg, Bool.not_true, Bool.false_eq_true, if_false, hc]

example : glweExternalProduct false 1 4 4 [[[1], [2], [3]], [[0], [1], [0]]] 4 staleG =
    optOutcome ((epInternal [[[1], [2], [3]], [[0], [1], [0]]] staleG (zeroCols 1 2 4) (zeroCols 1 2 4)).mapM
      (fun c => epBigNormalize false 1 4 4 c 4)) :=
  glweExternalProduct_accumulator false 1 4 4 _ 4 staleG _ (by decide) (by decide)

/-- … and `Cmux::cmux` / `Cswap::cswap` add `f` (resp. add / subtract from `res_a` / `res_b`) to `epInternal` of the difference:
`ep_executed_identity` applied to `a := t − f` (resp. `res_b − res_a`) is the executed form of `cmux_selects` / `cswap_swaps`. -/
theorem cmux_accumulator (big128 : Bool) (n rb rs : Nat) (t f : List Col) (g : EpGGSW) (res0 tmp0 : List Col)
    (hg : (g.n == n && g.wf && rb == g.base2k && shapeOk n (g.rank + 1) (t.getD 0 []).length t
       && shapeOk n (g.rank + 1) (f.getD 0 []).length f) = true) :
    cmux big128 n rb rs t f g res0 tmp0 =
      optOutcome ((List.range (g.rank + 1)).mapM (fun j =>
        epBigNormalize big128 n rb rs
          (bigAddSmallAssign big128 ((epInternal (glweSubSameRank n rs t f) g res0 tmp0).getD j []) (f.getD j [])) g.base2k)) := by
  unfold cmux cmuxTail
  simp only [hg, Bool.not_true, Bool.false_eq_true, if_false]

example : cmux false 1 4 3 [[[1], [2], [3]], [[0], [1], [0]]] [[[0], [0], [1]], [[0], [0], [0]]] staleG (zeroCols 1 2 4) (zeroCols 1 2 4) =
    optOutcome ((List.range 2).mapM (fun j => epBigNormalize false 1 4 3
      (bigAddSmallAssign false ((epInternal (glweSubSameRank 1 3 [[[1], [2], [3]], [[0], [1], [0]]] [[[0], [0], [1]], [[0], [0], [0]]])
        staleG (zeroCols 1 2 4) (zeroCols 1 2 4)).getD j []) ([[[0], [0], [1]], [[0], [0], [0]]].getD j [])) 4)) :=
  cmux_accumulator false 1 4 3 _ _ staleG _ _ (by decide)

/-- `Cswap::cswap` → the executed product: both outputs are normalisations of `res_a + P` and `res_b − P` with
`P = epInternal (res_b − res_a)`; `ep_executed_identity` applied to `a := res_b − res_a` is the executed form of `cswap_swaps`. -/
theorem cswap_accumulator (big128 : Bool) (n rb : Nat) (ra rbb : List Col) (g : EpGGSW) (res0 tmp0 : List Col)
    (hg : (g.n == n && g.wf && shapeOk n (g.rank + 1) (ra.getD 0 []).length ra && shapeOk n (g.rank + 1) (rbb.getD 0 []).length rbb) = true)
    (hb : rb = g.base2k) :
    cswap big128 n rb ra rbb g res0 tmp0 =
      (match (List.range (g.rank + 1)).mapM (fun j => epBigNormalize big128 n rb (ra.getD 0 []).length
          (bigAddSmallInto big128 n g.size
            ((epInternal (glweSubSameRank n (max (ra.getD 0 []).length (rbb.getD 0 []).length) rbb ra) g res0 tmp0).getD j []) (ra.getD j [])) g.base2k),
        (List.range (g.rank + 1)).mapM (fun j => epBigNormalize big128 n rb (rbb.getD 0 []).length
          (bigSubSmallA big128 n g.size (rbb.getD j [])
            ((epInternal (glweSubSameRank n (max (ra.getD 0 []).length (rbb.getD 0 []).length) rbb ra) g res0 tmp0).getD j [])) g.base2k) with
      | some x, some y => .ok (x, y)
      | _, _ => .err "fuel") := by
  subst hb
  unfold cswap
  simp only [hg, Bool.not_true, Bool.false_eq_true, if_false, ne_eq, not_true_eq_false]
  split <;> split <;> simp_all

example : cswap false 1 4 [[[1], [2], [3]], [[0], [1], [0]]] [[[0], [0], [1]], [[0], [0], [0]]] staleG (zeroCols 1 2 4) (zeroCols 1 2 4) =
    (match (List.range 2).mapM (fun j => epBigNormalize false 1 4 3 (bigAddSmallInto false 1 4
          ((epInternal (glweSubSameRank 1 (max 3 3) [[[0], [0], [1]], [[0], [0], [0]]] [[[1], [2], [3]], [[0], [1], [0]]]) staleG
            (zeroCols 1 2 4) (zeroCols 1 2 4)).getD j []) ([[[1], [2], [3]], [[0], [1], [0]]].getD j [])) 4),
      (List.range 2).mapM (fun j => epBigNormalize false 1 4 3 (bigSubSmallA false 1 4 ([[[0], [0], [1]], [[0], [0], [0]]].getD j [])
          ((epInternal (glweSubSameRank 1 (max 3 3) [[[0], [0], [1]], [[0], [0], [0]]] [[[1], [2], [3]], [[0], [1], [0]]]) staleG
            (zeroCols 1 2 4) (zeroCols 1 2 4)).getD j [])) 4) with
    | some x, some y => .ok (x, y)
    | _, _ => .err "fuel") :=
  cswap_accumulator false 1 4 _ _ staleG _ _ (by decide) rfl

/-! ## Row expansion on the executed model, every key digit size and every rank -/

/-- **`expand_product_phase`** — the gadget product `Core.expandRowCols` executes for output column `c+1`
(`gglwe_product_dft(res_dft, a_dft, tsk.at(c))`, on the `rank` mask columns `aDft` of the row): the phase of limb `l` is C03's gadget
accumulation over the `rank` input columns, for every key digit size `dsize ≥ 1`, every rank, any prior content of `res_dft`. -/
theorem expand_product_phase (N : Nat) (sk : List Poly) (aDft : List Col) (t : ToGGSWKey) (c : Nat) (res0 : List Col) (l : Nat)
    (hd : 1 ≤ t.dsize) (hN : 0 < N) (hn : t.n = N)
    (h0 : shapeOk t.n (t.rank + 1) t.size res0 = true) (hM : ∀ j q, ((t.at c).toPMat.entry j q).length = N) :
    Ks.ι N (Ks.phaseRow sk ((Core.gglweProductDft aDft (t.at c) t.size res0).map (fun col => limbOr0 N col l)))
      = ∑ i ∈ Finset.range t.rank,
          Gadget.acc t.size t.dsize t.dnum (aDft.getD 0 []).length
            (Ks.inLimb N (mkBuf t.n t.rank (aDft.getD 0 []).length aDft) i) (Ks.keyPhase N sk (t.at c).toPMat i) l :=
  gglweProductDft_phase N sk aDft (t.at c) res0 l hd hN hn (Nat.succ_pos _) h0 hM

/-- a rank-1 key with `dsize = 2` (one row, three limbs) -/
def exT : ToGGSWKey :=
  { base2k := 4, n := 1, rank := 1, dsize := 2, dnum := 1, size := 3, keys := [[[[[1], [0], [0]], [[0], [1], [0]]]]] }

example (l : Nat) : Ks.ι 1 (Ks.phaseRow [[1]] ((Core.gglweProductDft [[[2], [1]]] (exT.at 0) 3 (zeroCols 1 2 3)).map (fun col => limbOr0 1 col l)))
    = ∑ i ∈ Finset.range 1, Gadget.acc 3 2 1 2 (Ks.inLimb 1 (mkBuf 1 1 2 [[[2], [1]]]) i) (Ks.keyPhase 1 [[1]] (exT.at 0).toPMat i) l :=
  expand_product_phase 1 [[1]] [[[2], [1]]] exT 0 (zeroCols 1 2 3) l (by decide) (by decide) rfl (by decide)
    (Ks.entry_length (exT.at 0).toPMat 1 rfl (by decide))

/-- **`expand_executed_identity`** — `row_expansion_identity` on the executed model, every key digit size, every rank.  Output column
`c+1` of a row is the executed product above plus the (radix-converted) body added to column `c+1`, so the value of its phase is
`Σ_l phase(prod)_l·β^{S−1−l} + s_c·body`.  If the key's input column `i`, row `r` has phase value `s_c·s_i·β^{S−(r+1)·dsize} + E_{i,r}`
(the oracle checks every key cell against `s_c·s_i`: this is where a wrong secret-tensor index shows) and the row's phase is
`body + Σ_i s_i·usedVal(a_i) = Me` (`= m2·β^{S−(row+1)·dsize_a·…} + e₀` when no limb is dropped), the cell has phase value
`s_c·Me + Σ_i (Σ_r digit·E − dropped − β^S·head)`: the same `m2` as column 0 in every column of every row. -/
theorem expand_executed_identity (N : Nat) (sk : List Poly) (aDft : List Col) (t : ToGGSWKey) (c : Nat) (res0 : List Col)
    (β sc body Me : Ks.R N) (σ : ℕ → Ks.R N) (E : ℕ → ℕ → Ks.R N)
    (hd : 1 ≤ t.dsize) (hN : 0 < N) (hn : t.n = N)
    (h0 : shapeOk t.n (t.rank + 1) t.size res0 = true) (hM : ∀ j q, ((t.at c).toPMat.entry j q).length = N)
    (hS : t.dnum * t.dsize ≤ t.size)
    (hkey : ∀ i, i < t.rank → ∀ r, r < t.dnum →
      Gadget.val β t.size (Ks.keyPhase N sk (t.at c).toPMat i r) = sc * σ i * β ^ (t.size - (r + 1) * t.dsize) + E i r)
    (hrow : body + ∑ i ∈ Finset.range t.rank,
        σ i * Gadget.usedVal β t.size t.dsize t.dnum (aDft.getD 0 []).length (Ks.inLimb N (mkBuf t.n t.rank (aDft.getD 0 []).length aDft) i) = Me) :
    ∑ l ∈ Finset.range t.size,
        Ks.ι N (Ks.phaseRow sk ((Core.gglweProductDft aDft (t.at c) t.size res0).map (fun col => limbOr0 N col l))) * β ^ (t.size - 1 - l)
      + sc * body
      = sc * Me + ∑ i ∈ Finset.range t.rank,
            (∑ r ∈ Finset.range t.dnum,
                Gadget.digit β t.dsize t.dnum (aDft.getD 0 []).length (Ks.inLimb N (mkBuf t.n t.rank (aDft.getD 0 []).length aDft) i) r * E i r
              - Gadget.dropped β t.size t.dsize t.dnum (aDft.getD 0 []).length
                  (Ks.inLimb N (mkBuf t.n t.rank (aDft.getD 0 []).length aDft) i) (Ks.keyPhase N sk (t.at c).toPMat i)
              - β ^ t.size * Gadget.head β t.dsize t.dnum (aDft.getD 0 []).length
                  (Ks.inLimb N (mkBuf t.n t.rank (aDft.getD 0 []).length aDft) i) (Ks.keyPhase N sk (t.at c).toPMat i)) := by
  have h := gglweProductDft_value N sk aDft (t.at c) res0 β sc σ E hd hN hn (Nat.succ_pos _) h0 hM hS hkey
  rw [show (∑ l ∈ Finset.range t.size,
        Ks.ι N (Ks.phaseRow sk ((Core.gglweProductDft aDft (t.at c) t.size res0).map (fun col => limbOr0 N col l))) * β ^ (t.size - 1 - l)) = _ from h,
    ← hrow]
  exact Core.expand_regroup _ _ _ _

/-- non-vacuity: the `dsize = 2` key `exT`, `E` := the difference, `Me` := the row phase -/
example (β sc body : Ks.R 1) (σ : ℕ → Ks.R 1) :
    ∑ l ∈ Finset.range 3,
        Ks.ι 1 (Ks.phaseRow [[1]] ((Core.gglweProductDft [[[2], [1]]] (exT.at 0) 3 (zeroCols 1 2 3)).map (fun col => limbOr0 1 col l))) * β ^ (3 - 1 - l)
      + sc * body
      = sc * (body + ∑ i ∈ Finset.range 1, σ i * Gadget.usedVal β 3 2 1 2 (Ks.inLimb 1 (mkBuf 1 1 2 [[[2], [1]]]) i))
        + ∑ i ∈ Finset.range 1,
            (∑ r ∈ Finset.range 1, Gadget.digit β 2 1 2 (Ks.inLimb 1 (mkBuf 1 1 2 [[[2], [1]]]) i) r *
                (Gadget.val β 3 (Ks.keyPhase 1 [[1]] (exT.at 0).toPMat i r) - sc * σ i * β ^ (3 - (r + 1) * 2))
              - Gadget.dropped β 3 2 1 2 (Ks.inLimb 1 (mkBuf 1 1 2 [[[2], [1]]]) i) (Ks.keyPhase 1 [[1]] (exT.at 0).toPMat i)
              - β ^ 3 * Gadget.head β 2 1 2 (Ks.inLimb 1 (mkBuf 1 1 2 [[[2], [1]]]) i) (Ks.keyPhase 1 [[1]] (exT.at 0).toPMat i)) :=
  expand_executed_identity 1 [[1]] [[[2], [1]]] exT 0 (zeroCols 1 2 3) β sc body _ σ
    (fun i r => Gadget.val β 3 (Ks.keyPhase 1 [[1]] (exT.at 0).toPMat i r) - sc * σ i * β ^ (3 - (r + 1) * 2))
    (by decide) (by decide) rfl (by decide) (Ks.entry_length (exT.at 0).toPMat 1 rfl (by decide)) (by decide)
    (by intro i _ r _; exact (add_sub_cancel _ _).symm) rfl

/-! ## The final `vec_znx_big_normalize` (torus-wrap step) -/

/-- **the torus-wrap step, equal radices, outright** (FFT64 accumulator; the NTT120 one is `C08.big_normalize128_inter_value` in the same
way): every coefficient of every column of the result is `C08`'s same-radix normalisation of the accumulator's coefficient — balanced
digits, equal on the torus up to one unit of the result's last limb, and exactly equal when the result has enough limbs. -/
theorem ep_result_coeff_same_radix {b n rs : Nat} {H : Int} (hr : NormL.HeadRoom 64 b 0 H) (x C : Col)
    (hx : ∀ l ∈ x, ∀ v ∈ l, |v| ≤ H) (h : epBigNormalize false n b rs x b = some C) (t : Nat) (ht : t < n) :
    coefAt C t = normalizeInterCoef 64 b rs 0 (coefAt x t) ∧
    (∀ d ∈ coefAt C t, NormL.Balanced b d) ∧
    NormL.TorusNear (valI b (coefAt C t)) (b * rs) (valI b (coefAt x t)) (b * x.length) ∧
    (b * x.length ≤ b * rs → NormL.TorusEq (valI b (coefAt C t)) (b * rs) (valI b (coefAt x t)) (b * x.length)) := by
  have hm : (List.range n).mapM (fun i => normalizeCoef b rs 0 b (coefAt x i))
      = some ((List.range n).map (fun i => normalizeInterCoef 64 b rs 0 (coefAt x i))) :=
    mapM_some_of_forall _ _ _ (fun i _ => by unfold normalizeCoef; simp)
  have hC : C = ofCoefs rs ((List.range n).map (fun i => normalizeInterCoef 64 b rs 0 (coefAt x i))) := by
    unfold epBigNormalize bigNormalizeCol64? normalizeCol? mapCoefs? at h
    simp only [Bool.false_eq_true, if_false, hm, Option.map_some, Option.some.injEq] at h
    exact h.symm
  have ha : ∀ v ∈ coefAt x t, |v| ≤ H := by
    intro v hv
    unfold coefAt at hv
    simp only [List.mem_map] at hv
    obtain ⟨l, hl, rfl⟩ := hv
    by_cases hlt : t < l.length
    · have : l.getD t 0 ∈ l := by rw [List.getD_eq_getElem?_getD, List.getElem?_eq_getElem hlt]; exact List.getElem_mem _
      exact hx l hl _ this
    · have : l.getD t 0 = 0 := by rw [List.getD_eq_getElem?_getD, List.getElem?_eq_none (by omega)]; rfl
      rw [this]; simp
      exact hr.hH0
  have hv := C08.normalize_inter_value hr rs 0 (coefAt x t) ha
  simp only [Int.toNat_zero, pow_zero, mul_one, neg_zero, Nat.add_zero] at hv
  have hct : coefAt C t = normalizeInterCoef 64 b rs 0 (coefAt x t) := by
    rw [hC, coefAt_ofCoefs rs _ t (by simpa using ht) (by simp [List.getD_eq_getElem?_getD, ht, hv.1])]
    simp [List.getD_eq_getElem?_getD, ht]
  have hlen : (coefAt x t).length = x.length := by simp [coefAt]
  rw [hct]
  refine ⟨rfl, hv.2.1, ?_, ?_⟩
  · have := hv.2.2.1; rw [hlen] at this; exact this
  · intro hle
    have hcast : ((b * x.length : Nat) : Int) ≤ ((b * rs : Nat) : Int) := by exact_mod_cast hle
    have := hv.2.2.2 (by rw [hlen]; linarith)
    rw [hlen] at this; exact this

example : (coefAt [[3], [0], [0], [0]] 0 = normalizeInterCoef 64 4 4 0 (coefAt [[3], [0], [0], [0]] 0)) ∧
    NormL.TorusNear (valI 4 (coefAt [[3], [0], [0], [0]] 0)) (4 * 4) (valI 4 (coefAt [[3], [0], [0], [0]] 0)) (4 * 4) :=
  let h := ep_result_coeff_same_radix (b := 4) (n := 1) (rs := 4) (H := 100)
    ⟨by norm_num, by norm_num, by norm_num, by norm_num, by norm_num⟩ [[3], [0], [0], [0]] [[3], [0], [0], [0]]
    (by intro l hl v hv; simp at hl; rcases hl with rfl | rfl <;> simp at hv <;> subst hv <;> norm_num) (by decide) 0 (by norm_num)
  ⟨h.1, h.2.2.1⟩

/-- the NTT120 (`i128` accumulator) twin of `ep_result_coeff_same_radix` (`C08.big_normalize128_inter_value`, radix `b ≤ 63`) -/
theorem ep_result_coeff_same_radix128 {b n rs : Nat} {H : Int} (hr : NormL.HeadRoom 128 b 0 H) (hb : b ≤ 63) (x C : Col)
    (hx : ∀ l ∈ x, ∀ v ∈ l, |v| ≤ H) (h : epBigNormalize true n b rs x b = some C) (t : Nat) (ht : t < n) :
    coefAt C t = normalizeInterCoef 128 b rs 0 (coefAt x t) ∧
    (∀ d ∈ coefAt C t, NormL.Balanced b d) ∧
    NormL.TorusNear (valI b (coefAt C t)) (b * rs) (valI b (coefAt x t)) (b * x.length) ∧
    (b * x.length ≤ b * rs → NormL.TorusEq (valI b (coefAt C t)) (b * rs) (valI b (coefAt x t)) (b * x.length)) := by
  have ha : ∀ i, ∀ v ∈ coefAt x i, |v| ≤ H := by
    intro i v hv
    unfold coefAt at hv
    simp only [List.mem_map] at hv
    obtain ⟨l, hl, rfl⟩ := hv
    by_cases hlt : i < l.length
    · have : l.getD i 0 ∈ l := by rw [List.getD_eq_getElem?_getD, List.getElem?_eq_getElem hlt]; exact List.getElem_mem _
      exact hx l hl _ this
    · have : l.getD i 0 = 0 := by rw [List.getD_eq_getElem?_getD, List.getElem?_eq_none (by omega)]; rfl
      rw [this]; simp
      exact hr.hH0
  have hm : (List.range n).mapM (fun i => bigNormalizeCoef128 b rs 0 b (coefAt x i))
      = some ((List.range n).map (fun i => normalizeInterCoef 128 b rs 0 (coefAt x i))) :=
    mapM_some_of_forall _ _ _ (fun i _ => (C08.big_normalize128_inter_value hr hb rs 0 (coefAt x i) (ha i)).1)
  have hC : C = ofCoefs rs ((List.range n).map (fun i => normalizeInterCoef 128 b rs 0 (coefAt x i))) := by
    unfold epBigNormalize bigNormalizeCol128? mapCoefs? at h
    simp only [if_true, hm, Option.map_some, Option.some.injEq] at h
    exact h.symm
  have hv := C08.normalize_inter_value hr rs 0 (coefAt x t) (ha t)
  simp only [Int.toNat_zero, pow_zero, mul_one, neg_zero, Nat.add_zero] at hv
  have hct : coefAt C t = normalizeInterCoef 128 b rs 0 (coefAt x t) := by
    rw [hC, coefAt_ofCoefs rs _ t (by simpa using ht) (by simp [List.getD_eq_getElem?_getD, ht, hv.1])]
    simp [List.getD_eq_getElem?_getD, ht]
  have hlen : (coefAt x t).length = x.length := by simp [coefAt]
  rw [hct]
  refine ⟨rfl, hv.2.1, ?_, ?_⟩
  · have := hv.2.2.1; rw [hlen] at this; exact this
  · intro hle
    have hcast : ((b * x.length : Nat) : Int) ≤ ((b * rs : Nat) : Int) := by exact_mod_cast hle
    have := hv.2.2.2 (by rw [hlen]; linarith)
    rw [hlen] at this; exact this

example : (coefAt [[3], [0], [0], [0]] 0 = normalizeInterCoef 128 4 4 0 (coefAt [[3], [0], [0], [0]] 0)) ∧
    NormL.TorusNear (valI 4 (coefAt [[3], [0], [0], [0]] 0)) (4 * 4) (valI 4 (coefAt [[3], [0], [0], [0]] 0)) (4 * 4) :=
  let h := ep_result_coeff_same_radix128 (b := 4) (n := 1) (rs := 4) (H := 100)
    ⟨by norm_num, by norm_num, by norm_num, by norm_num, by norm_num⟩ (by norm_num) [[3], [0], [0], [0]] [[3], [0], [0], [0]]
    (by intro l hl v hv; simp at hl; rcases hl with rfl | rfl <;> simp at hv <;> subst hv <;> norm_num) (by decide) 0 (by norm_num)
  ⟨h.1, h.2.2.1⟩

/-- **`ep_result_phase_modulo_norm`** — the torus-wrap step of `glwe_external_product` (hence of every cell of the GGLWE / GGSW forms),
same or different radices, modulo the value specification of the normalisation kernel: if for every column the C08 kernel relation
`A·val(normalised column) = B·val(accumulator column) + E_i` holds (`C08.normalize_inter_value` / `big_normalize128_inter_value` for equal
radices, `C08.normalize_value_offset0` / `big_normalize128_value_offset0` across radices — `A`, `B` the two scales, `E_i` the rounding of the
dropped limbs plus the multiple of the torus modulus), then the phase of the **result ciphertext** relates to the exact phase of the big
accumulator (`ep_executed_identity`) in the same way, with the explicit error `E₀ + Σ s_i ⋆ E_{i+1}` (bounded by `(1 + Σ‖s_i‖₁)·max|E|`,
`C02.phase_error_bound`). -/
theorem ep_result_phase_modulo_norm {N : Nat} (big128 : Bool) (rb rs ab : Nat) (a aConv res : List Col) (g : EpGGSW)
    (hg : (g.n == N && g.wf && shapeOk N (g.rank + 1) (a.getD 0 []).length a) = true)
    (hc : epConvert N a ab g = some aConv)
    (hok : glweExternalProduct big128 N rb rs a ab g = .ok res)
    (A B : Int) (E : Nat → Poly) (hE : ∀ i, (E i).length = N)
    (hbig : C02L.GWF N (Ks.mkCt g.base2k N (epInternal aConv g (zeroCols N (g.rank + 1) g.size) (zeroCols N (g.rank + 1) g.size))))
    (hres : C02L.GWF N (Ks.mkCt rb N res))
    (hK : ∀ i, i ≤ g.rank → ∀ C,
      epBigNormalize big128 N rb rs ((epInternal aConv g (zeroCols N (g.rank + 1) g.size) (zeroCols N (g.rank + 1) g.size)).getD i []) g.base2k
        = some C →
      polyScale A (C02L.valP rb N C) = polyAdd (polyScale B (C02L.valP g.base2k N
        ((epInternal aConv g (zeroCols N (g.rank + 1) g.size) (zeroCols N (g.rank + 1) g.size)).getD i []))) (E i))
    (s : List Poly) :
    polyScale A (C02L.valP rb N (Core.Ops.phase s (Ks.mkCt rb N res)))
      = polyAdd (polyScale B (C02L.valP g.base2k N (Core.Ops.phase s (Ks.mkCt g.base2k N (epInternal aConv g (zeroCols N (g.rank + 1) g.size) (zeroCols N (g.rank + 1) g.size))))))
        (C02L.errTo (min g.rank s.length) s E) := by
  rw [glweExternalProduct_accumulator big128 N rb rs a ab g aConv hg hc] at hok
  have hm := optOutcome_ok _ _ hok
  have hlen : res.length = g.rank + 1 := by
    rw [mapM_some_length _ _ _ hm, epInternal_length]
  have hrank : (Ks.mkCt g.base2k N (epInternal aConv g (zeroCols N (g.rank + 1) g.size) (zeroCols N (g.rank + 1) g.size))).rank
      = (Ks.mkCt rb N res).rank := by
    simp [GLWE.rank, Ks.mkCt, hlen, epInternal_length]
  have hr' : (Ks.mkCt rb N res).rank = g.rank := by simp [GLWE.rank, Ks.mkCt, hlen]
  have h := C02.phase_value_modulo_norm (N := N) hres hbig hrank A B E hE (by
    intro i hi
    rw [hr'] at hi
    have hi' : i < (epInternal aConv g (zeroCols N (g.rank + 1) g.size) (zeroCols N (g.rank + 1) g.size)).length := by
      rw [epInternal_length]; omega
    have hn := mapM_some_getD (fun c => epBigNormalize big128 N rb rs c g.base2k) [] [] _ _ hm i hi'
    exact hK i hi _ hn) s
  rw [hr'] at h
  exact h

example (s : List Poly) :
    polyScale 1 (C02L.valP 4 1 (Core.Ops.phase s (Ks.mkCt 4 1 [[[3], [0], [0], [0]], [[0], [0], [0], [0]]])))
      = polyAdd (polyScale 1 (C02L.valP 4 1 (Core.Ops.phase s (Ks.mkCt 4 1
          (epInternal [[[1], [2], [3]], [[0], [1], [0]]] staleG (zeroCols 1 2 4) (zeroCols 1 2 4))))))
        (C02L.errTo (min 1 s.length) s (fun _ => [0])) :=
  ep_result_phase_modulo_norm (N := 1) false 4 4 4 [[[1], [2], [3]], [[0], [1], [0]]] [[[1], [2], [3]], [[0], [1], [0]]]
    [[[3], [0], [0], [0]], [[0], [0], [0], [0]]] staleG (by decide) (by decide) (by decide) 1 1 (fun _ => [0]) (fun _ => rfl)
    (by decide) (by decide)
    (by
      intro i hi C hC
      have hi' : i = 0 ∨ i = 1 := by have : i ≤ 1 := hi; omega
      rcases hi' with rfl | rfl
      · have e : epBigNormalize false 1 4 4 ((epInternal [[[1], [2], [3]], [[0], [1], [0]]] staleG (zeroCols 1 2 4) (zeroCols 1 2 4)).getD 0 []) 4
            = some [[3], [0], [0], [0]] := by decide
        have hC' := e.symm.trans hC; injection hC' with hC'; subst hC'; decide
      · have e : epBigNormalize false 1 4 4 ((epInternal [[[1], [2], [3]], [[0], [1], [0]]] staleG (zeroCols 1 2 4) (zeroCols 1 2 4)).getD 1 []) 4
            = some [[0], [0], [0], [0]] := by decide
        have hC' := e.symm.trans hC; injection hC' with hC'; subst hC'; decide) s

/-! ## Composed statement: the result ciphertext decrypts to `m2 · phase(a)` plus explicit terms, one value domain -/

/-- **`ep_decrypts_modulo_norm`** — `glwe_external_product` (every `dsize ≥ 1`, every rank, same or different radices), `ep_executed_identity` and
`ep_result_phase_modulo_norm` composed in `R N = ℤ[X]/(X^N+1)` with `β = 2^{base2k(ggsw)}` (`Lemmas/ValBridge.lean`): `A · phase(result)` equals
`B · (m2·Σ_i σ_i·usedVal(a_i) + Σ_i(Σ_r digit·E − dropped − β^S·head))` plus the normalisation error `E₀ + Σ s_i E_{i+1}`, where `(A, B, En)` is the
C08 kernel's value relation on each accumulator column (`hK`; `ep_result_coeff_same_radix` gives it outright per coefficient for equal radices).
Each cell of GGSW × GGLWE / GGSW × GGSW is this statement. -/
theorem ep_decrypts_modulo_norm {N : Nat} (big128 : Bool) (rb rs ab : Nat) (a aConv res : List Col) (g : EpGGSW) (sk : List Poly)
    (hg : (g.n == N && g.wf && shapeOk N (g.rank + 1) (a.getD 0 []).length a) = true)
    (hc : epConvert N a ab g = some aConv)
    (hok : glweExternalProduct big128 N rb rs a ab g = .ok res)
    (A B : Int) (En : Nat → Poly) (hEn : ∀ i, (En i).length = N)
    (hwf : ∀ c ∈ epInternal aConv g (zeroCols N (g.rank + 1) g.size) (zeroCols N (g.rank + 1) g.size), C02L.ColWF N g.size c)
    (hres : C02L.GWF N (Ks.mkCt rb N res))
    (hK : ∀ i, i ≤ g.rank → ∀ C,
      epBigNormalize big128 N rb rs ((epInternal aConv g (zeroCols N (g.rank + 1) g.size) (zeroCols N (g.rank + 1) g.size)).getD i []) g.base2k
        = some C →
      polyScale A (C02L.valP rb N C) = polyAdd (polyScale B (C02L.valP g.base2k N
        ((epInternal aConv g (zeroCols N (g.rank + 1) g.size) (zeroCols N (g.rank + 1) g.size)).getD i []))) (En i))
    (m2 : Ks.R N) (σ : ℕ → Ks.R N) (E : ℕ → ℕ → Ks.R N)
    (hd : 1 ≤ g.dsize) (hN : 0 < N) (hn : g.n = N)
    (haC : shapeOk g.n (g.rank + 1) (aConv.getD 0 []).length aConv = true)
    (hM : ∀ j q, (g.toPMat.entry j q).length = N) (hS : g.dnum * g.dsize ≤ g.size)
    (hkey : ∀ i, i < g.rank + 1 → ∀ r, r < g.dnum →
      Gadget.val ((2 : Ks.R N) ^ g.base2k) g.size (Ks.keyPhase N sk g.toPMat i r)
        = m2 * σ i * ((2 : Ks.R N) ^ g.base2k) ^ (g.size - (r + 1) * g.dsize) + E i r) :
    (A : Ks.R N) * Ks.ι N (C02L.valP rb N (Core.Ops.phase sk (Ks.mkCt rb N res)))
      = (B : Ks.R N) * (m2 * ∑ i ∈ Finset.range (g.rank + 1),
            σ i * Gadget.usedVal ((2 : Ks.R N) ^ g.base2k) g.size g.dsize g.dnum (aConv.getD 0 []).length
              (Ks.inLimb N (mkBuf g.n (g.rank + 1) (aConv.getD 0 []).length aConv) i)
        + ∑ i ∈ Finset.range (g.rank + 1),
            (∑ r ∈ Finset.range g.dnum,
                Gadget.digit ((2 : Ks.R N) ^ g.base2k) g.dsize g.dnum (aConv.getD 0 []).length
                  (Ks.inLimb N (mkBuf g.n (g.rank + 1) (aConv.getD 0 []).length aConv) i) r * E i r
              - Gadget.dropped ((2 : Ks.R N) ^ g.base2k) g.size g.dsize g.dnum (aConv.getD 0 []).length
                  (Ks.inLimb N (mkBuf g.n (g.rank + 1) (aConv.getD 0 []).length aConv) i) (Ks.keyPhase N sk g.toPMat i)
              - ((2 : Ks.R N) ^ g.base2k) ^ g.size * Gadget.head ((2 : Ks.R N) ^ g.base2k) g.dsize g.dnum (aConv.getD 0 []).length
                  (Ks.inLimb N (mkBuf g.n (g.rank + 1) (aConv.getD 0 []).length aConv) i) (Ks.keyPhase N sk g.toPMat i)))
        + Ks.ι N (C02L.errTo (min g.rank sk.length) sk En) := by
  have hlen := epInternal_length aConv g (zeroCols N (g.rank + 1) g.size) (zeroCols N (g.rank + 1) g.size)
  have hne : epInternal aConv g (zeroCols N (g.rank + 1) g.size) (zeroCols N (g.rank + 1) g.size) ≠ [] := by
    intro h
    rw [h] at hlen
    simp at hlen
  have hbig : C02L.GWF N (Ks.mkCt g.base2k N (epInternal aConv g (zeroCols N (g.rank + 1) g.size) (zeroCols N (g.rank + 1) g.size))) := by
    refine ⟨rfl, hne, ?_⟩
    intro c hcm
    have e : (Ks.mkCt g.base2k N (epInternal aConv g (zeroCols N (g.rank + 1) g.size) (zeroCols N (g.rank + 1) g.size))).size = g.size := by
      show ((epInternal aConv g (zeroCols N (g.rank + 1) g.size) (zeroCols N (g.rank + 1) g.size)).getD 0 []).length = g.size
      have h0 : 0 < (epInternal aConv g (zeroCols N (g.rank + 1) g.size) (zeroCols N (g.rank + 1) g.size)).length := by rw [hlen]; omega
      rw [List.getD_eq_getElem?_getD, List.getElem?_eq_getElem h0]
      exact (hwf _ (List.getElem_mem h0)).1
    rw [e]
    exact hwf c hcm
  have h1 := ep_result_phase_modulo_norm big128 rb rs ab a aConv res g hg hc hok A B En hEn hbig hres hK sk
  have h2 := phase_norm_compose N hN rb g.base2k g.size sk res _ hne hwf A B _ (C02L.errTo_length _ sk En hEn) h1
  have hz : shapeOk g.n (g.rank + 1) g.size (zeroCols N (g.rank + 1) g.size) = true := by
    rw [hn]; unfold shapeOk zeroCols; simp [Hal.zeroP]
  have h3 := ep_executed_identity N sk aConv g (zeroCols N (g.rank + 1) g.size) (zeroCols N (g.rank + 1) g.size) ((2 : Ks.R N) ^ g.base2k) m2 σ E
    hd hN hn haC hz hz hM hS hkey
  rw [h2, h3]

example (m2 : Ks.R 1) (σ : ℕ → Ks.R 1) :
    ((1 : Int) : Ks.R 1) * Ks.ι 1 (C02L.valP 4 1 (Core.Ops.phase [[1]] (Ks.mkCt 4 1 [[[3], [0], [0], [0]], [[0], [0], [0], [0]]])))
      = ((1 : Int) : Ks.R 1) * (m2 * ∑ i ∈ Finset.range (staleG.rank + 1),
            σ i * Gadget.usedVal ((2 : Ks.R 1) ^ staleG.base2k) staleG.size staleG.dsize staleG.dnum (([[[1], [2], [3]], [[0], [1], [0]]] : List Col).getD 0 []).length
              (Ks.inLimb 1 (mkBuf staleG.n (staleG.rank + 1) (([[[1], [2], [3]], [[0], [1], [0]]] : List Col).getD 0 []).length [[[1], [2], [3]], [[0], [1], [0]]]) i)
        + ∑ i ∈ Finset.range (staleG.rank + 1),
            (∑ r ∈ Finset.range staleG.dnum,
                Gadget.digit ((2 : Ks.R 1) ^ staleG.base2k) staleG.dsize staleG.dnum (([[[1], [2], [3]], [[0], [1], [0]]] : List Col).getD 0 []).length
                  (Ks.inLimb 1 (mkBuf staleG.n (staleG.rank + 1) (([[[1], [2], [3]], [[0], [1], [0]]] : List Col).getD 0 []).length [[[1], [2], [3]], [[0], [1], [0]]]) i) r *
                  (Gadget.val ((2 : Ks.R 1) ^ staleG.base2k) staleG.size (Ks.keyPhase 1 [[1]] staleG.toPMat i r)
                    - m2 * σ i * ((2 : Ks.R 1) ^ staleG.base2k) ^ (staleG.size - (r + 1) * staleG.dsize))
              - Gadget.dropped ((2 : Ks.R 1) ^ staleG.base2k) staleG.size staleG.dsize staleG.dnum (([[[1], [2], [3]], [[0], [1], [0]]] : List Col).getD 0 []).length
                  (Ks.inLimb 1 (mkBuf staleG.n (staleG.rank + 1) (([[[1], [2], [3]], [[0], [1], [0]]] : List Col).getD 0 []).length [[[1], [2], [3]], [[0], [1], [0]]]) i) (Ks.keyPhase 1 [[1]] staleG.toPMat i)
              - ((2 : Ks.R 1) ^ staleG.base2k) ^ staleG.size * Gadget.head ((2 : Ks.R 1) ^ staleG.base2k) staleG.dsize staleG.dnum (([[[1], [2], [3]], [[0], [1], [0]]] : List Col).getD 0 []).length
                  (Ks.inLimb 1 (mkBuf staleG.n (staleG.rank + 1) (([[[1], [2], [3]], [[0], [1], [0]]] : List Col).getD 0 []).length [[[1], [2], [3]], [[0], [1], [0]]]) i) (Ks.keyPhase 1 [[1]] staleG.toPMat i)))
        + Ks.ι 1 (C02L.errTo (min staleG.rank ([[1]] : List Poly).length) [[1]] (fun _ => [0])) :=
  ep_decrypts_modulo_norm (N := 1) false 4 4 4 [[[1], [2], [3]], [[0], [1], [0]]] [[[1], [2], [3]], [[0], [1], [0]]]
    [[[3], [0], [0], [0]], [[0], [0], [0], [0]]] staleG [[1]] (by decide) (by decide) (by decide) 1 1 (fun _ => [0]) (fun _ => rfl)
    (by decide) (by decide)
    (by
      intro i hi C hC
      have hi' : i = 0 ∨ i = 1 := by have : i ≤ 1 := hi; omega
      rcases hi' with rfl | rfl
      · have e : epBigNormalize false 1 4 4 ((epInternal [[[1], [2], [3]], [[0], [1], [0]]] staleG (zeroCols 1 2 4) (zeroCols 1 2 4)).getD 0 []) 4
            = some [[3], [0], [0], [0]] := by decide
        have hC' := e.symm.trans hC; injection hC' with hC'; subst hC'; decide
      · have e : epBigNormalize false 1 4 4 ((epInternal [[[1], [2], [3]], [[0], [1], [0]]] staleG (zeroCols 1 2 4) (zeroCols 1 2 4)).getD 1 []) 4
            = some [[0], [0], [0], [0]] := by decide
        have hC' := e.symm.trans hC; injection hC' with hC'; subst hC'; decide)
    m2 σ (fun i r => Gadget.val ((2 : Ks.R 1) ^ staleG.base2k) staleG.size (Ks.keyPhase 1 [[1]] staleG.toPMat i r)
                    - m2 * σ i * ((2 : Ks.R 1) ^ staleG.base2k) ^ (staleG.size - (r + 1) * staleG.dsize))
    (by decide) (by decide) rfl (by decide) (Ks.entry_length staleG.toPMat 1 rfl (by decide)) (by decide)
    (by intro i _ r _; exact (add_sub_cancel _ _).symm)
instance (c : Col) : Decidable (C02L.ColSmall c) := by unfold C02L.ColSmall C02L.PolySmall; infer_instance
instance (N : Nat) (c : Col) : Decidable (C02L.LimbsN N c) := by unfold C02L.LimbsN; infer_instance

/-- **`cmux_decrypts_modulo_norm`** — `Cmux::cmux` on the i64 accumulator (FFT64 back ends), every `dsize ≥ 1`, every rank: one composed statement.  With
the no-overflow lemma `Core.bigAddSmallAssign_exact` (2^62 head-room on the product and on `f`, `Lemmas/AccAdd.lean`) the accumulator is the exact
limb-wise sum `P + fit(f)`, the phase value is additive (`ι_valP_phase_add`), `P = epInternal (t − f)` has the value of `ep_executed_identity`, and the
final normalisation contributes the kernel relation `(A, B, En)`:
`A·phase(res) = B·(m2·Σ_i σ_i·usedVal((t−f)_i) + Σ_i(Σ_r digit·E − dropped − β^S·head) + phase(f at S limbs)) + (E₀ + Σ s_i E_{i+1})` —
`m2 = 0` gives `f`, `m2 = 1` gives `t` up to the gadget's dropped limbs (`cmux_selects` is the algebraic form). -/
theorem cmux_decrypts_modulo_norm {N : Nat} (rb rs : Nat) (t f res : List Col) (g : EpGGSW) (res0 tmp0 : List Col) (sk : List Poly)
    (hg : (g.n == N && g.wf && rb == g.base2k && shapeOk N (g.rank + 1) (t.getD 0 []).length t
       && shapeOk N (g.rank + 1) (f.getD 0 []).length f) = true)
    (hok : cmux false N rb rs t f g res0 tmp0 = .ok res)
    (A B : Int) (En : Nat → Poly) (hEn : ∀ i, (En i).length = N)
    (hPwf : ∀ c ∈ epInternal (glweSubSameRank N rs t f) g res0 tmp0, C02L.ColWF N g.size c)
    (hPs : ∀ c ∈ epInternal (glweSubSameRank N rs t f) g res0 tmp0, C02L.ColSmall c)
    (hfwf : ∀ j, j < g.rank + 1 → C02L.LimbsN N (f.getD j [])) (hfs : ∀ j, j < g.rank + 1 → C02L.ColSmall (f.getD j []))
    (hres : C02L.GWF N (Ks.mkCt rb N res))
    (hK : ∀ i, i < g.rank + 1 → ∀ C,
      epBigNormalize false N rb rs (bigAddSmallAssign false ((epInternal (glweSubSameRank N rs t f) g res0 tmp0).getD i []) (f.getD i [])) g.base2k
        = some C →
      polyScale A (C02L.valP rb N C) = polyAdd (polyScale B (C02L.valP g.base2k N
        (bigAddSmallAssign false ((epInternal (glweSubSameRank N rs t f) g res0 tmp0).getD i []) (f.getD i [])))) (En i))
    (m2 : Ks.R N) (σ : ℕ → Ks.R N) (E : ℕ → ℕ → Ks.R N)
    (hd : 1 ≤ g.dsize) (hN : 0 < N) (hn : g.n = N)
    (haD : shapeOk g.n (g.rank + 1) ((glweSubSameRank N rs t f).getD 0 []).length (glweSubSameRank N rs t f) = true)
    (h0 : shapeOk g.n (g.rank + 1) g.size res0 = true) (ht : shapeOk g.n (g.rank + 1) g.size tmp0 = true)
    (hM : ∀ j q, (g.toPMat.entry j q).length = N) (hS : g.dnum * g.dsize ≤ g.size)
    (hkey : ∀ i, i < g.rank + 1 → ∀ r, r < g.dnum →
      Gadget.val ((2 : Ks.R N) ^ g.base2k) g.size (Ks.keyPhase N sk g.toPMat i r)
        = m2 * σ i * ((2 : Ks.R N) ^ g.base2k) ^ (g.size - (r + 1) * g.dsize) + E i r) :
    (A : Ks.R N) * Ks.ι N (C02L.valP rb N (Core.Ops.phase sk (Ks.mkCt rb N res)))
      = (B : Ks.R N) * ((m2 * ∑ i ∈ Finset.range (g.rank + 1),
            σ i * Gadget.usedVal ((2 : Ks.R N) ^ g.base2k) g.size g.dsize g.dnum ((glweSubSameRank N rs t f).getD 0 []).length
              (Ks.inLimb N (mkBuf g.n (g.rank + 1) ((glweSubSameRank N rs t f).getD 0 []).length (glweSubSameRank N rs t f)) i)
        + ∑ i ∈ Finset.range (g.rank + 1),
            (∑ r ∈ Finset.range g.dnum,
                Gadget.digit ((2 : Ks.R N) ^ g.base2k) g.dsize g.dnum ((glweSubSameRank N rs t f).getD 0 []).length
                  (Ks.inLimb N (mkBuf g.n (g.rank + 1) ((glweSubSameRank N rs t f).getD 0 []).length (glweSubSameRank N rs t f)) i) r * E i r
              - Gadget.dropped ((2 : Ks.R N) ^ g.base2k) g.size g.dsize g.dnum ((glweSubSameRank N rs t f).getD 0 []).length
                  (Ks.inLimb N (mkBuf g.n (g.rank + 1) ((glweSubSameRank N rs t f).getD 0 []).length (glweSubSameRank N rs t f)) i) (Ks.keyPhase N sk g.toPMat i)
              - ((2 : Ks.R N) ^ g.base2k) ^ g.size * Gadget.head ((2 : Ks.R N) ^ g.base2k) g.dsize g.dnum ((glweSubSameRank N rs t f).getD 0 []).length
                  (Ks.inLimb N (mkBuf g.n (g.rank + 1) ((glweSubSameRank N rs t f).getD 0 []).length (glweSubSameRank N rs t f)) i) (Ks.keyPhase N sk g.toPMat i)))
          + Ks.ι N (C02L.valP g.base2k N (Core.Ops.phase sk (Ks.mkCt g.base2k N
              ((List.range (g.rank + 1)).map (fun j => C02L.fit N g.size (f.getD j [])))))))
        + Ks.ι N (C02L.errTo (min g.rank sk.length) sk En) := by
  have hlen := epInternal_length (glweSubSameRank N rs t f) g res0 tmp0
  have hPget : ∀ j, j < g.rank + 1 → C02L.ColWF N g.size ((epInternal (glweSubSameRank N rs t f) g res0 tmp0).getD j []) ∧
      C02L.ColSmall ((epInternal (glweSubSameRank N rs t f) g res0 tmp0).getD j []) := by
    intro j hj
    have hj' : j < (epInternal (glweSubSameRank N rs t f) g res0 tmp0).length := by rw [hlen]; exact hj
    rw [List.getD_eq_getElem?_getD, List.getElem?_eq_getElem hj']
    exact ⟨hPwf _ (List.getElem_mem hj'), hPs _ (List.getElem_mem hj')⟩
  rw [cmux_accumulator false N rb rs t f g res0 tmp0 hg] at hok
  have hm := optOutcome_ok _ _ hok
  rw [mapM_comp (fun j => bigAddSmallAssign false ((epInternal (glweSubSameRank N rs t f) g res0 tmp0).getD j []) (f.getD j []))
    (fun c => epBigNormalize false N rb rs c g.base2k)] at hm
  have hacc_eq : (List.range (g.rank + 1)).map (fun j => bigAddSmallAssign false ((epInternal (glweSubSameRank N rs t f) g res0 tmp0).getD j []) (f.getD j []))
      = (List.range (g.rank + 1)).map (fun j => C02L.colAdd ((epInternal (glweSubSameRank N rs t f) g res0 tmp0).getD j []) (C02L.fit N g.size (f.getD j []))) := by
    apply List.map_congr_left
    intro j hj
    have hj' := List.mem_range.mp hj
    rw [bigAddSmallAssign_exact (N := N) _ _ (hPget j hj').1.2 (hPget j hj').2 (hfs j hj'), (hPget j hj').1.1]
  have hqwf : ∀ j, j < g.rank + 1 → C02L.ColWF N g.size (C02L.fit N g.size (f.getD j [])) := fun j hj => C02L.fit_wf (hfwf j hj) g.size
  have hadd := ι_valP_phase_add N hN g.base2k g.size sk g.rank (fun j => (epInternal (glweSubSameRank N rs t f) g res0 tmp0).getD j [])
    (fun j => C02L.fit N g.size (f.getD j [])) (fun j hj => (hPget j hj).1) hqwf
  have hPmap : (List.range (g.rank + 1)).map (fun j => (epInternal (glweSubSameRank N rs t f) g res0 tmp0).getD j [])
      = epInternal (glweSubSameRank N rs t f) g res0 tmp0 := by
    apply List.ext_getElem
    · simp [hlen]
    · intro i h1 h2
      simp [List.getD_eq_getElem?_getD, List.getElem?_eq_getElem h2]
  rw [hPmap] at hadd
  have hne : epInternal (glweSubSameRank N rs t f) g res0 tmp0 ≠ [] := by
    intro h; rw [h] at hlen; simp at hlen
  have hsumwf : ∀ c ∈ (List.range (g.rank + 1)).map (fun j => C02L.colAdd ((epInternal (glweSubSameRank N rs t f) g res0 tmp0).getD j []) (C02L.fit N g.size (f.getD j []))),
      C02L.ColWF N g.size c := by
    intro c hc
    obtain ⟨j, hj, rfl⟩ := List.mem_map.mp hc
    have hj' := List.mem_range.mp hj
    exact C02L.colAdd_wf (hPget j hj').1 (hqwf j hj')
  have hnes : (List.range (g.rank + 1)).map (fun j => C02L.colAdd ((epInternal (glweSubSameRank N rs t f) g res0 tmp0).getD j []) (C02L.fit N g.size (f.getD j []))) ≠ [] := by
    intro h; have := congrArg List.length h; simp at this
  have hacc : C02L.GWF N (Ks.mkCt g.base2k N ((List.range (g.rank + 1)).map (fun j => C02L.colAdd ((epInternal (glweSubSameRank N rs t f) g res0 tmp0).getD j []) (C02L.fit N g.size (f.getD j []))))) := by
    refine ⟨rfl, hnes, ?_⟩
    intro c hc
    have e : (Ks.mkCt g.base2k N ((List.range (g.rank + 1)).map (fun j => C02L.colAdd ((epInternal (glweSubSameRank N rs t f) g res0 tmp0).getD j []) (C02L.fit N g.size (f.getD j []))))).size = g.size := by
      show (((List.range (g.rank + 1)).map (fun j => C02L.colAdd ((epInternal (glweSubSameRank N rs t f) g res0 tmp0).getD j []) (C02L.fit N g.size (f.getD j [])))).getD 0 []).length = g.size
      have h0' : 0 < ((List.range (g.rank + 1)).map (fun j => C02L.colAdd ((epInternal (glweSubSameRank N rs t f) g res0 tmp0).getD j []) (C02L.fit N g.size (f.getD j [])))).length := by simp
      rw [List.getD_eq_getElem?_getD, List.getElem?_eq_getElem h0']
      exact (hsumwf _ (List.getElem_mem h0')).1
    rw [e]
    exact hsumwf c hc
  rw [hacc_eq] at hm
  have h1 := mapM_kernel_phase_modulo_norm (fun c => epBigNormalize false N rb rs c g.base2k) rb g.base2k _ res hm hres hacc A B En hEn (by
    intro i hi C hC
    have hi' : i < g.rank + 1 := by simpa using hi
    have e : ((List.range (g.rank + 1)).map (fun j => C02L.colAdd ((epInternal (glweSubSameRank N rs t f) g res0 tmp0).getD j []) (C02L.fit N g.size (f.getD j [])))).getD i []
        = ((List.range (g.rank + 1)).map (fun j => bigAddSmallAssign false ((epInternal (glweSubSameRank N rs t f) g res0 tmp0).getD j []) (f.getD j []))).getD i [] := by
      rw [hacc_eq]
    rw [e] at hC ⊢
    have e2 : ((List.range (g.rank + 1)).map (fun j => bigAddSmallAssign false ((epInternal (glweSubSameRank N rs t f) g res0 tmp0).getD j []) (f.getD j []))).getD i []
        = bigAddSmallAssign false ((epInternal (glweSubSameRank N rs t f) g res0 tmp0).getD i []) (f.getD i []) := by
      simp [List.getD_eq_getElem?_getD, List.getElem?_map, List.getElem?_range hi']
    rw [e2] at hC ⊢
    exact hK i hi' C hC) sk
  have e1 : ((List.range (g.rank + 1)).map (fun j => C02L.colAdd ((epInternal (glweSubSameRank N rs t f) g res0 tmp0).getD j []) (C02L.fit N g.size (f.getD j [])))).length - 1 = g.rank := by simp
  rw [e1] at h1
  have h2 := phase_norm_ι N rb g.base2k sk res _ A B _ (C02L.errTo_length _ sk En hEn) h1
  have h3 := ep_executed_identity N sk (glweSubSameRank N rs t f) g res0 tmp0 ((2 : Ks.R N) ^ g.base2k) m2 σ E hd hN hn haD h0 ht hM hS hkey
  rw [h2, hadd, ι_valP_phase_rows' N hN g.base2k g.size sk _ hne hPwf, h3]

example (m2 : Ks.R 1) (σ : ℕ → Ks.R 1) :
    ((16 : Int) : Ks.R 1) * Ks.ι 1 (C02L.valP 4 1 (Core.Ops.phase [[1]] (Ks.mkCt 4 1 [[[2], [0], [1]], [[0], [0], [0]]])))
      = ((1 : Int) : Ks.R 1) * ((m2 * ∑ i ∈ Finset.range (staleG.rank + 1),
            σ i * Gadget.usedVal ((2 : Ks.R 1) ^ staleG.base2k) staleG.size staleG.dsize staleG.dnum ((glweSubSameRank 1 3 ([[[1], [2], [3]], [[0], [1], [0]]] : List Col) ([[[0], [0], [1]], [[0], [0], [0]]] : List Col)).getD 0 []).length
              (Ks.inLimb 1 (mkBuf staleG.n (staleG.rank + 1) ((glweSubSameRank 1 3 ([[[1], [2], [3]], [[0], [1], [0]]] : List Col) ([[[0], [0], [1]], [[0], [0], [0]]] : List Col)).getD 0 []).length (glweSubSameRank 1 3 ([[[1], [2], [3]], [[0], [1], [0]]] : List Col) ([[[0], [0], [1]], [[0], [0], [0]]] : List Col))) i)
        + ∑ i ∈ Finset.range (staleG.rank + 1),
            (∑ r ∈ Finset.range staleG.dnum,
                Gadget.digit ((2 : Ks.R 1) ^ staleG.base2k) staleG.dsize staleG.dnum ((glweSubSameRank 1 3 ([[[1], [2], [3]], [[0], [1], [0]]] : List Col) ([[[0], [0], [1]], [[0], [0], [0]]] : List Col)).getD 0 []).length
                  (Ks.inLimb 1 (mkBuf staleG.n (staleG.rank + 1) ((glweSubSameRank 1 3 ([[[1], [2], [3]], [[0], [1], [0]]] : List Col) ([[[0], [0], [1]], [[0], [0], [0]]] : List Col)).getD 0 []).length (glweSubSameRank 1 3 ([[[1], [2], [3]], [[0], [1], [0]]] : List Col) ([[[0], [0], [1]], [[0], [0], [0]]] : List Col))) i) r *
                  (Gadget.val ((2 : Ks.R 1) ^ staleG.base2k) staleG.size (Ks.keyPhase 1 [[1]] staleG.toPMat i r)
                    - m2 * σ i * ((2 : Ks.R 1) ^ staleG.base2k) ^ (staleG.size - (r + 1) * staleG.dsize))
              - Gadget.dropped ((2 : Ks.R 1) ^ staleG.base2k) staleG.size staleG.dsize staleG.dnum ((glweSubSameRank 1 3 ([[[1], [2], [3]], [[0], [1], [0]]] : List Col) ([[[0], [0], [1]], [[0], [0], [0]]] : List Col)).getD 0 []).length
                  (Ks.inLimb 1 (mkBuf staleG.n (staleG.rank + 1) ((glweSubSameRank 1 3 ([[[1], [2], [3]], [[0], [1], [0]]] : List Col) ([[[0], [0], [1]], [[0], [0], [0]]] : List Col)).getD 0 []).length (glweSubSameRank 1 3 ([[[1], [2], [3]], [[0], [1], [0]]] : List Col) ([[[0], [0], [1]], [[0], [0], [0]]] : List Col))) i) (Ks.keyPhase 1 [[1]] staleG.toPMat i)
              - ((2 : Ks.R 1) ^ staleG.base2k) ^ staleG.size * Gadget.head ((2 : Ks.R 1) ^ staleG.base2k) staleG.dsize staleG.dnum ((glweSubSameRank 1 3 ([[[1], [2], [3]], [[0], [1], [0]]] : List Col) ([[[0], [0], [1]], [[0], [0], [0]]] : List Col)).getD 0 []).length
                  (Ks.inLimb 1 (mkBuf staleG.n (staleG.rank + 1) ((glweSubSameRank 1 3 ([[[1], [2], [3]], [[0], [1], [0]]] : List Col) ([[[0], [0], [1]], [[0], [0], [0]]] : List Col)).getD 0 []).length (glweSubSameRank 1 3 ([[[1], [2], [3]], [[0], [1], [0]]] : List Col) ([[[0], [0], [1]], [[0], [0], [0]]] : List Col))) i) (Ks.keyPhase 1 [[1]] staleG.toPMat i)))
          + Ks.ι 1 (C02L.valP staleG.base2k 1 (Core.Ops.phase [[1]] (Ks.mkCt staleG.base2k 1
              ((List.range (staleG.rank + 1)).map (fun j => C02L.fit 1 staleG.size (([[[0], [0], [1]], [[0], [0], [0]]] : List Col).getD j [])))))))
        + Ks.ι 1 (C02L.errTo (min staleG.rank ([[1]] : List Poly).length) [[1]] (fun _ => [0])) :=
  cmux_decrypts_modulo_norm (N := 1) 4 3 ([[[1], [2], [3]], [[0], [1], [0]]] : List Col) ([[[0], [0], [1]], [[0], [0], [0]]] : List Col) [[[2], [0], [1]], [[0], [0], [0]]] staleG (zeroCols 1 2 4) (zeroCols 1 2 4) [[1]]
    (by decide) (by decide) 16 1 (fun _ => [0]) (fun _ => rfl)
    (by decide) (by decide) (by decide) (by decide) (by decide)
    (by
      intro i hi C hC
      have hi' : i = 0 ∨ i = 1 := by have : i < 2 := hi; omega
      rcases hi' with rfl | rfl
      · have e : epBigNormalize false 1 4 3 (bigAddSmallAssign false ((epInternal (glweSubSameRank 1 3 ([[[1], [2], [3]], [[0], [1], [0]]] : List Col) ([[[0], [0], [1]], [[0], [0], [0]]] : List Col)) staleG (zeroCols 1 2 4) (zeroCols 1 2 4)).getD 0 []) (([[[0], [0], [1]], [[0], [0], [0]]] : List Col).getD 0 [])) staleG.base2k
            = some [[2], [0], [1]] := by decide
        have hC' := e.symm.trans hC; injection hC' with hC'; subst hC'; decide
      · have e : epBigNormalize false 1 4 3 (bigAddSmallAssign false ((epInternal (glweSubSameRank 1 3 ([[[1], [2], [3]], [[0], [1], [0]]] : List Col) ([[[0], [0], [1]], [[0], [0], [0]]] : List Col)) staleG (zeroCols 1 2 4) (zeroCols 1 2 4)).getD 1 []) (([[[0], [0], [1]], [[0], [0], [0]]] : List Col).getD 1 [])) staleG.base2k
            = some [[0], [0], [0]] := by decide
        have hC' := e.symm.trans hC; injection hC' with hC'; subst hC'; decide)
    m2 σ (fun i r => Gadget.val ((2 : Ks.R 1) ^ staleG.base2k) staleG.size (Ks.keyPhase 1 [[1]] staleG.toPMat i r)
                    - m2 * σ i * ((2 : Ks.R 1) ^ staleG.base2k) ^ (staleG.size - (r + 1) * staleG.dsize))
    (by decide) (by decide) rfl (by decide) (by decide) (by decide) (Ks.entry_length staleG.toPMat 1 rfl (by decide)) (by decide)
    (by intro i _ r _; exact (add_sub_cancel _ _).symm)
/-! ## Unconditional composed statements: every kernel hypothesis discharged by C08's total value theorems -/

/-- **`ep_decrypts`** — `glwe_external_product`, END TO END on the executed model, every `dsize ≥ 1`, every rank, ANY pair of radices `1..62`,
`i64` (FFT64) and `i128` (NTT120) accumulators.  The only analytic hypothesis is the accumulator head-room `|acc| ≤ H`, `H + 8 ≤ 2^62` resp. `2^126`
(derived from digit bounds by `ep_headroom`).  The call returns a well-formed ciphertext with digits `≤ 2^rb − 1`, and in `ℤ[X]/(X^N+1)`
`2^(bg·S)·phase(res) = 2^(rb·rs)·(m2·Σ_i σ_i·usedVal(a_i) + Σ_i(Σ_r digit·E − dropped − β^S·head)) + En + 2^(rb·rs+bg·S)·Q` with
`‖En‖_∞ ≤ (1 + Σ‖s_i‖₁)·normTol`: at most one unit of the result's last limb per column, `0` (exact) when `bg·S ≤ rb·rs`
(`C08.normalize_value_offset0`, `C08.big_normalize128_value_offset0` through `Core.norm_total_rows`). -/
theorem ep_decrypts {N : Nat} (big128 : Bool) (rb rs ab : Nat) (a aConv : List Col) (g : EpGGSW) (sk : List Poly) (H : Int)
    (hg : (g.n == N && g.wf && shapeOk N (g.rank + 1) (a.getD 0 []).length a) = true)
    (hc : epConvert N a ab g = some aConv)
    (hrb1 : 1 ≤ rb) (hrb : rb ≤ 62) (hgb1 : 1 ≤ g.base2k) (hgb : g.base2k ≤ 62)
    (hH0 : 0 ≤ H) (hH : H + 8 ≤ 2 ^ (bitsOf big128 - 2))
    (hacc : ∀ c ∈ epInternal aConv g (zeroCols N (g.rank + 1) g.size) (zeroCols N (g.rank + 1) g.size), ∀ l ∈ c, ∀ x ∈ l, |x| ≤ H)
    (m2 : Ks.R N) (σ : ℕ → Ks.R N) (E : ℕ → ℕ → Ks.R N)
    (hd : 1 ≤ g.dsize) (hN : 0 < N) (hn : g.n = N)
    (haC : shapeOk g.n (g.rank + 1) (aConv.getD 0 []).length aConv = true)
    (hM : ∀ j q, (g.toPMat.entry j q).length = N) (hS : g.dnum * g.dsize ≤ g.size)
    (hkey : ∀ i, i < g.rank + 1 → ∀ r, r < g.dnum →
      Gadget.val ((2 : Ks.R N) ^ g.base2k) g.size (Ks.keyPhase N sk g.toPMat i r)
        = m2 * σ i * ((2 : Ks.R N) ^ g.base2k) ^ (g.size - (r + 1) * g.dsize) + E i r) :
    ∃ res, glweExternalProduct big128 N rb rs a ab g = .ok res ∧ C02L.GWF N (Ks.mkCt rb N res) ∧
      (∀ c ∈ res, ∀ l ∈ c, ∀ x ∈ l, |x| ≤ 2 ^ rb - 1) ∧
      ∃ En Q : Poly, En.length = N ∧ Q.length = N ∧
        normInf En ≤ (1 + C02L.snorm (min g.rank sk.length) sk) * C02.normTol (rb * rs) (g.base2k * g.size) ∧
        (2 : Ks.R N) ^ (g.base2k * g.size) * Ks.ι N (C02L.valP rb N (Core.Ops.phase sk (Ks.mkCt rb N res)))
          = (2 : Ks.R N) ^ (rb * rs) * (m2 * ∑ i ∈ Finset.range (g.rank + 1),
              σ i * Gadget.usedVal ((2 : Ks.R N) ^ g.base2k) g.size g.dsize g.dnum (aConv.getD 0 []).length
                (Ks.inLimb N (mkBuf g.n (g.rank + 1) (aConv.getD 0 []).length aConv) i)
            + ∑ i ∈ Finset.range (g.rank + 1),
              (∑ r ∈ Finset.range g.dnum,
                  Gadget.digit ((2 : Ks.R N) ^ g.base2k) g.dsize g.dnum (aConv.getD 0 []).length
                    (Ks.inLimb N (mkBuf g.n (g.rank + 1) (aConv.getD 0 []).length aConv) i) r * E i r
                - Gadget.dropped ((2 : Ks.R N) ^ g.base2k) g.size g.dsize g.dnum (aConv.getD 0 []).length
                    (Ks.inLimb N (mkBuf g.n (g.rank + 1) (aConv.getD 0 []).length aConv) i) (Ks.keyPhase N sk g.toPMat i)
                - ((2 : Ks.R N) ^ g.base2k) ^ g.size * Gadget.head ((2 : Ks.R N) ^ g.base2k) g.dsize g.dnum (aConv.getD 0 []).length
                    (Ks.inLimb N (mkBuf g.n (g.rank + 1) (aConv.getD 0 []).length aConv) i) (Ks.keyPhase N sk g.toPMat i)))
            + Ks.ι N En + (2 : Ks.R N) ^ (rb * rs + g.base2k * g.size) * Ks.ι N Q := by
  have hz : shapeOk g.n (g.rank + 1) g.size (zeroCols N (g.rank + 1) g.size) = true := by rw [hn]; exact zeroCols_shape _ _ _
  have hwf := epInternal_wf N aConv g _ _ hd hn haC hz hz hM
  have hlen := epInternal_length aConv g (zeroCols N (g.rank + 1) g.size) (zeroCols N (g.rank + 1) g.size)
  have hne : epInternal aConv g (zeroCols N (g.rank + 1) g.size) (zeroCols N (g.rank + 1) g.size) ≠ [] := by
    intro h; rw [h] at hlen; simp at hlen
  obtain ⟨cs, h1, h2, h3, h4, h5⟩ := norm_total_rows big128 N rb rs g.base2k g.size 0 H _ hN hrb1 hrb hgb1 hgb hH0 hH hne hwf hacc
  have hcsne : cs ≠ [] := by
    intro h; rw [h, hlen] at h2; simp at h2
  refine ⟨cs, ?_, (gwf_mk (N := N) rb rs cs hcsne h3).1, h4, ?_⟩
  · rw [glweExternalProduct_accumulator big128 N rb rs a ab g aConv hg hc]
    show optOutcome ((epInternal aConv g _ _).mapM (fun c => bigNormalizeOff big128 N rb rs 0 c g.base2k)) = _
    rw [h1]; rfl
  · obtain ⟨En, Q, hE, hQ, hnm, he⟩ := h5 sk
    rw [hlen, normTolOff_zero] at hnm
    refine ⟨En, Q, hE, hQ, by simpa using hnm, ?_⟩
    have h3' := ep_executed_identity N sk aConv g _ _ ((2 : Ks.R N) ^ g.base2k) m2 σ E hd hN hn haC hz hz hM hS hkey
    rw [h3'] at he
    simpa using he

example (m2 : Ks.R 1) (σ : ℕ → Ks.R 1) :
    ∃ res, glweExternalProduct false 1 4 4 [[[1], [2], [3]], [[0], [1], [0]]] 4 staleG = .ok res ∧ C02L.GWF 1 (Ks.mkCt 4 1 res) := by
  obtain ⟨res, h1, h2, _⟩ := ep_decrypts (N := 1) false 4 4 4 [[[1], [2], [3]], [[0], [1], [0]]] [[[1], [2], [3]], [[0], [1], [0]]] staleG [[1]]
    (2 ^ 61) (by decide) (by decide) (by decide) (by decide) (by decide) (by decide) (by decide) (by decide) (by decide)
    m2 σ (fun i r => Gadget.val ((2 : Ks.R 1) ^ staleG.base2k) staleG.size (Ks.keyPhase 1 [[1]] staleG.toPMat i r)
                    - m2 * σ i * ((2 : Ks.R 1) ^ staleG.base2k) ^ (staleG.size - (r + 1) * staleG.dsize))
    (by decide) (by decide) rfl (by decide) (Ks.entry_length staleG.toPMat 1 rfl (by decide)) (by decide)
    (by intro i _ r _; exact (add_sub_cancel _ _).symm)
  exact ⟨res, h1, h2⟩

/-- **`cmux_decrypts`** — `Cmux::cmux`, END TO END, both accumulator widths, every `dsize ≥ 1`, every rank: the call returns and satisfies
`Core.CmuxSpec` with `d = t − f` (`glwe_sub`) and the added operand `f`:
`2^(bg·S)·phase(res) = 2^(rb·rs)·(m2·Σσ_i·usedVal(d_i) + Σ(Σ_r digit·E − dropped − β^S·head) + phase(f)) + En + 2^(…)·Q`,
`‖En‖_∞ ≤ (1 + Σ‖s_i‖₁)·normTol`.  Hypotheses: entry guard, head-room `|product| ≤ X`, `|f| ≤ Y`, `X + Y + 8 ≤ 2^62 / 2^126`, key relation. -/
theorem cmux_decrypts {N : Nat} (big128 : Bool) (rb rs : Nat) (t f : List Col) (g : EpGGSW) (res0 tmp0 : List Col) (sk : List Poly)
    (X Y : Int)
    (hg : (g.n == N && g.wf && rb == g.base2k && shapeOk N (g.rank + 1) (t.getD 0 []).length t
       && shapeOk N (g.rank + 1) (f.getD 0 []).length f) = true)
    (hgb1 : 1 ≤ g.base2k) (hgb : g.base2k ≤ 62)
    (hX0 : 0 ≤ X) (hY0 : 0 ≤ Y) (hH : X + Y + 8 ≤ 2 ^ (bitsOf big128 - 2))
    (hPb : ∀ c ∈ epInternal (glweSubSameRank N rs t f) g res0 tmp0, ∀ l ∈ c, ∀ x ∈ l, |x| ≤ X)
    (hfb : ∀ c ∈ f, ∀ l ∈ c, ∀ x ∈ l, |x| ≤ Y)
    (m2 : Ks.R N) (σ : ℕ → Ks.R N) (E : ℕ → ℕ → Ks.R N)
    (hd : 1 ≤ g.dsize) (hN : 0 < N) (hn : g.n = N)
    (haD : shapeOk g.n (g.rank + 1) ((glweSubSameRank N rs t f).getD 0 []).length (glweSubSameRank N rs t f) = true)
    (h0 : shapeOk g.n (g.rank + 1) g.size res0 = true) (ht : shapeOk g.n (g.rank + 1) g.size tmp0 = true)
    (hM : ∀ j q, (g.toPMat.entry j q).length = N) (hS : g.dnum * g.dsize ≤ g.size)
    (hkey : ∀ i, i < g.rank + 1 → ∀ r, r < g.dnum →
      Gadget.val ((2 : Ks.R N) ^ g.base2k) g.size (Ks.keyPhase N sk g.toPMat i r)
        = m2 * σ i * ((2 : Ks.R N) ^ g.base2k) ^ (g.size - (r + 1) * g.dsize) + E i r) :
    ∃ res, cmux big128 N rb rs t f g res0 tmp0 = .ok res ∧ CmuxSpec N rb rs g sk m2 σ E (glweSubSameRank N rs t f) f res := by
  have hg' := hg
  simp only [Bool.and_eq_true, beq_iff_eq] at hg'
  obtain ⟨⟨⟨⟨_, _⟩, hrb⟩, _⟩, hfs⟩ := hg'
  obtain ⟨res, h1, h2⟩ := cmuxTail_total big128 rb rs (glweSubSameRank N rs t f) f g res0 tmp0 sk X Y hrb hgb1 hgb hX0 hY0 hH hPb
    (shapeOk_limbs N _ _ f hfs) hfb m2 σ E hd hN hn haD h0 ht hM hS hkey
  refine ⟨res, ?_, h2⟩
  unfold cmux
  simp only [hg, Bool.not_true, Bool.false_eq_true, if_false]
  exact h1

example (m2 : Ks.R 1) (σ : ℕ → Ks.R 1) : ∃ res, cmux true 1 4 3 ([[[1], [2], [3]], [[0], [1], [0]]] : List Col) ([[[0], [0], [1]], [[0], [0], [0]]] : List Col) staleG (zeroCols 1 2 4) (zeroCols 1 2 4) = .ok res ∧ C02L.GWF 1 (Ks.mkCt 4 1 res) := by
  obtain ⟨res, h1, h2, _⟩ := cmux_decrypts (N := 1) true 4 3 ([[[1], [2], [3]], [[0], [1], [0]]] : List Col) ([[[0], [0], [1]], [[0], [0], [0]]] : List Col) staleG (zeroCols 1 2 4) (zeroCols 1 2 4) [[1]] (2 ^ 60) (2 ^ 60)
    (by decide) (by decide) (by decide) (by decide) (by decide) (by decide) (by decide) (by decide)
    m2 σ (fun i r => Gadget.val ((2 : Ks.R 1) ^ staleG.base2k) staleG.size (Ks.keyPhase 1 [[1]] staleG.toPMat i r)
                    - m2 * σ i * ((2 : Ks.R 1) ^ staleG.base2k) ^ (staleG.size - (r + 1) * staleG.dsize))
    (by decide) (by decide) rfl (by decide) (by decide) (by decide) (Ks.entry_length staleG.toPMat 1 rfl (by decide)) (by decide)
    (by intro i _ r _; exact (add_sub_cancel _ _).symm)
  exact ⟨res, h1, h2⟩

/-- **`cmux_assign_decrypts`** — `Cmux::cmux_assign(res, a, s)`: `d = res − a` (`glwe_sub_assign`, common limbs), added operand `a`. -/
theorem cmux_assign_decrypts {N : Nat} (big128 : Bool) (rb : Nat) (r a : List Col) (g : EpGGSW) (res0 tmp0 : List Col) (sk : List Poly)
    (X Y : Int)
    (hg : (g.n == N && g.wf && rb == g.base2k && shapeOk N (g.rank + 1) (r.getD 0 []).length r
       && shapeOk N (g.rank + 1) (a.getD 0 []).length a) = true)
    (hgb1 : 1 ≤ g.base2k) (hgb : g.base2k ≤ 62)
    (hX0 : 0 ≤ X) (hY0 : 0 ≤ Y) (hH : X + Y + 8 ≤ 2 ^ (bitsOf big128 - 2))
    (hPb : ∀ c ∈ epInternal ((List.range (g.rank + 1)).map (fun i => vecSubAssignW w64 (r.getD i []) (a.getD i []))) g res0 tmp0,
      ∀ l ∈ c, ∀ x ∈ l, |x| ≤ X)
    (hab : ∀ c ∈ a, ∀ l ∈ c, ∀ x ∈ l, |x| ≤ Y)
    (m2 : Ks.R N) (σ : ℕ → Ks.R N) (E : ℕ → ℕ → Ks.R N)
    (hd : 1 ≤ g.dsize) (hN : 0 < N) (hn : g.n = N)
    (haD : shapeOk g.n (g.rank + 1) (((List.range (g.rank + 1)).map (fun i => vecSubAssignW w64 (r.getD i []) (a.getD i []))).getD 0 []).length
      ((List.range (g.rank + 1)).map (fun i => vecSubAssignW w64 (r.getD i []) (a.getD i []))) = true)
    (h0 : shapeOk g.n (g.rank + 1) g.size res0 = true) (ht : shapeOk g.n (g.rank + 1) g.size tmp0 = true)
    (hM : ∀ j q, (g.toPMat.entry j q).length = N) (hS : g.dnum * g.dsize ≤ g.size)
    (hkey : ∀ i, i < g.rank + 1 → ∀ r, r < g.dnum →
      Gadget.val ((2 : Ks.R N) ^ g.base2k) g.size (Ks.keyPhase N sk g.toPMat i r)
        = m2 * σ i * ((2 : Ks.R N) ^ g.base2k) ^ (g.size - (r + 1) * g.dsize) + E i r) :
    ∃ res, cmuxAssign big128 N rb r a g res0 tmp0 = .ok res ∧
      CmuxSpec N rb (r.getD 0 []).length g sk m2 σ E ((List.range (g.rank + 1)).map (fun i => vecSubAssignW w64 (r.getD i []) (a.getD i []))) a res := by
  have hg' := hg
  simp only [Bool.and_eq_true, beq_iff_eq] at hg'
  obtain ⟨⟨⟨⟨_, _⟩, hrb⟩, _⟩, has⟩ := hg'
  obtain ⟨res, h1, h2⟩ := cmuxTail_total big128 rb (r.getD 0 []).length _ a g res0 tmp0 sk X Y hrb hgb1 hgb hX0 hY0 hH hPb
    (shapeOk_limbs N _ _ a has) hab m2 σ E hd hN hn haD h0 ht hM hS hkey
  refine ⟨res, ?_, h2⟩
  unfold cmuxAssign
  simp only [hg, Bool.not_true, Bool.false_eq_true, if_false]
  exact h1

example (m2 : Ks.R 1) (σ : ℕ → Ks.R 1) : ∃ res, cmuxAssign false 1 4 ([[[1], [2], [3]], [[0], [1], [0]]] : List Col) ([[[0], [0], [1]], [[0], [0], [0]]] : List Col) staleG (zeroCols 1 2 4) (zeroCols 1 2 4) = .ok res ∧ C02L.GWF 1 (Ks.mkCt 4 1 res) := by
  obtain ⟨res, h1, h2, _⟩ := cmux_assign_decrypts (N := 1) false 4 ([[[1], [2], [3]], [[0], [1], [0]]] : List Col) ([[[0], [0], [1]], [[0], [0], [0]]] : List Col) staleG (zeroCols 1 2 4) (zeroCols 1 2 4) [[1]] (2 ^ 60) (2 ^ 60)
    (by decide) (by decide) (by decide) (by decide) (by decide) (by decide) (by decide) (by decide)
    m2 σ (fun i r => Gadget.val ((2 : Ks.R 1) ^ staleG.base2k) staleG.size (Ks.keyPhase 1 [[1]] staleG.toPMat i r)
                    - m2 * σ i * ((2 : Ks.R 1) ^ staleG.base2k) ^ (staleG.size - (r + 1) * staleG.dsize))
    (by decide) (by decide) rfl (by decide) (by decide) (by decide) (Ks.entry_length staleG.toPMat 1 rfl (by decide)) (by decide)
    (by intro i _ r _; exact (add_sub_cancel _ _).symm)
  exact ⟨res, h1, h2⟩

/-- **`cmux_assign_neg_decrypts`** — `Cmux::cmux_assign_neg(res, a, s)`: `d = a − res` in a temporary of `max(res.size, a.size)` limbs, added
operand `res`. -/
theorem cmux_assign_neg_decrypts {N : Nat} (big128 : Bool) (rb : Nat) (r a : List Col) (g : EpGGSW) (res0 tmp0 : List Col) (sk : List Poly)
    (X Y : Int)
    (hg : (g.n == N && g.wf && rb == g.base2k && shapeOk N (g.rank + 1) (r.getD 0 []).length r
       && shapeOk N (g.rank + 1) (a.getD 0 []).length a) = true)
    (hgb1 : 1 ≤ g.base2k) (hgb : g.base2k ≤ 62)
    (hX0 : 0 ≤ X) (hY0 : 0 ≤ Y) (hH : X + Y + 8 ≤ 2 ^ (bitsOf big128 - 2))
    (hPb : ∀ c ∈ epInternal (glweSubSameRank N (max (r.getD 0 []).length (a.getD 0 []).length) a r) g res0 tmp0, ∀ l ∈ c, ∀ x ∈ l, |x| ≤ X)
    (hrb' : ∀ c ∈ r, ∀ l ∈ c, ∀ x ∈ l, |x| ≤ Y)
    (m2 : Ks.R N) (σ : ℕ → Ks.R N) (E : ℕ → ℕ → Ks.R N)
    (hd : 1 ≤ g.dsize) (hN : 0 < N) (hn : g.n = N)
    (haD : shapeOk g.n (g.rank + 1) ((glweSubSameRank N (max (r.getD 0 []).length (a.getD 0 []).length) a r).getD 0 []).length
      (glweSubSameRank N (max (r.getD 0 []).length (a.getD 0 []).length) a r) = true)
    (h0 : shapeOk g.n (g.rank + 1) g.size res0 = true) (ht : shapeOk g.n (g.rank + 1) g.size tmp0 = true)
    (hM : ∀ j q, (g.toPMat.entry j q).length = N) (hS : g.dnum * g.dsize ≤ g.size)
    (hkey : ∀ i, i < g.rank + 1 → ∀ r, r < g.dnum →
      Gadget.val ((2 : Ks.R N) ^ g.base2k) g.size (Ks.keyPhase N sk g.toPMat i r)
        = m2 * σ i * ((2 : Ks.R N) ^ g.base2k) ^ (g.size - (r + 1) * g.dsize) + E i r) :
    ∃ res, cmuxAssignNeg big128 N rb r a g res0 tmp0 = .ok res ∧
      CmuxSpec N rb (r.getD 0 []).length g sk m2 σ E (glweSubSameRank N (max (r.getD 0 []).length (a.getD 0 []).length) a r) r res := by
  have hg' := hg
  simp only [Bool.and_eq_true, beq_iff_eq] at hg'
  obtain ⟨⟨⟨⟨_, _⟩, hrb⟩, hrs⟩, _⟩ := hg'
  obtain ⟨res, h1, h2⟩ := cmuxTail_total big128 rb (r.getD 0 []).length _ r g res0 tmp0 sk X Y hrb hgb1 hgb hX0 hY0 hH hPb
    (shapeOk_limbs N _ _ r hrs) hrb' m2 σ E hd hN hn haD h0 ht hM hS hkey
  refine ⟨res, ?_, h2⟩
  unfold cmuxAssignNeg
  simp only [hg, Bool.not_true, Bool.false_eq_true, if_false]
  exact h1

example (m2 : Ks.R 1) (σ : ℕ → Ks.R 1) : ∃ res, cmuxAssignNeg true 1 4 ([[[1], [2], [3]], [[0], [1], [0]]] : List Col) ([[[0], [0], [1]], [[0], [0], [0]]] : List Col) staleG (zeroCols 1 2 4) (zeroCols 1 2 4) = .ok res ∧ C02L.GWF 1 (Ks.mkCt 4 1 res) := by
  obtain ⟨res, h1, h2, _⟩ := cmux_assign_neg_decrypts (N := 1) true 4 ([[[1], [2], [3]], [[0], [1], [0]]] : List Col) ([[[0], [0], [1]], [[0], [0], [0]]] : List Col) staleG (zeroCols 1 2 4) (zeroCols 1 2 4) [[1]] (2 ^ 60) (2 ^ 60)
    (by decide) (by decide) (by decide) (by decide) (by decide) (by decide) (by decide) (by decide)
    m2 σ (fun i r => Gadget.val ((2 : Ks.R 1) ^ staleG.base2k) staleG.size (Ks.keyPhase 1 [[1]] staleG.toPMat i r)
                    - m2 * σ i * ((2 : Ks.R 1) ^ staleG.base2k) ^ (staleG.size - (r + 1) * staleG.dsize))
    (by decide) (by decide) rfl (by decide) (by decide) (by decide) (Ks.entry_length staleG.toPMat 1 rfl (by decide)) (by decide)
    (by intro i _ r _; exact (add_sub_cancel _ _).symm)
  exact ⟨res, h1, h2⟩

/-- **`cswap_decrypts`** — `Cswap::cswap`, BOTH outputs, END TO END, both accumulator widths, every `dsize ≥ 1`, every rank
(`Core.CswapSpec`, `d = res_b − res_a`): `2^(bg·S)·phase(res_a') = 2^(rb·sa)·(epValue(d) + phase(res_a)) + En + 2^(…)Q` and
`2^(bg·S)·phase(res_b') = 2^(rb·sb)·(phase(res_b) − epValue(d)) + En' + 2^(…)Q'`, `‖En‖_∞, ‖En'‖_∞ ≤ (1 + Σ‖s_i‖₁)·normTol`; with
`epValue(d) = m2·Σσ_i·usedVal(d_i) + gadget error` this is `cswap_swaps` on the executed model (`vec_znx_big_add_small_into` /
`vec_znx_big_sub_small_a` exact under head-room: `Core.bigAddSmallInto_exact_w`, `Core.bigSubSmallA_exact_w`, i64 and i128). -/
theorem cswap_decrypts {N : Nat} (big128 : Bool) (rb : Nat) (ra rbb : List Col) (g : EpGGSW) (res0 tmp0 : List Col) (sk : List Poly) (X Y : Int)
    (hg : (g.n == N && g.wf && shapeOk N (g.rank + 1) (ra.getD 0 []).length ra && shapeOk N (g.rank + 1) (rbb.getD 0 []).length rbb) = true)
    (hrb : rb = g.base2k) (hgb1 : 1 ≤ g.base2k) (hgb : g.base2k ≤ 62)
    (hX0 : 0 ≤ X) (hY0 : 0 ≤ Y) (hH : X + Y + 8 ≤ 2 ^ (bitsOf big128 - 2))
    (hPb : ∀ c ∈ epInternal (glweSubSameRank N (max (ra.getD 0 []).length (rbb.getD 0 []).length) rbb ra) g res0 tmp0, ∀ l ∈ c, ∀ x ∈ l, |x| ≤ X)
    (hrab : ∀ c ∈ ra, ∀ l ∈ c, ∀ x ∈ l, |x| ≤ Y) (hrbb : ∀ c ∈ rbb, ∀ l ∈ c, ∀ x ∈ l, |x| ≤ Y)
    (m2 : Ks.R N) (σ : ℕ → Ks.R N) (E : ℕ → ℕ → Ks.R N)
    (hd : 1 ≤ g.dsize) (hN : 0 < N) (hn : g.n = N)
    (haD : shapeOk g.n (g.rank + 1) ((glweSubSameRank N (max (ra.getD 0 []).length (rbb.getD 0 []).length) rbb ra).getD 0 []).length
      (glweSubSameRank N (max (ra.getD 0 []).length (rbb.getD 0 []).length) rbb ra) = true)
    (h0 : shapeOk g.n (g.rank + 1) g.size res0 = true) (ht : shapeOk g.n (g.rank + 1) g.size tmp0 = true)
    (hM : ∀ j q, (g.toPMat.entry j q).length = N) (hS : g.dnum * g.dsize ≤ g.size)
    (hkey : ∀ i, i < g.rank + 1 → ∀ r, r < g.dnum →
      Gadget.val ((2 : Ks.R N) ^ g.base2k) g.size (Ks.keyPhase N sk g.toPMat i r)
        = m2 * σ i * ((2 : Ks.R N) ^ g.base2k) ^ (g.size - (r + 1) * g.dsize) + E i r) :
    ∃ xa xb, cswap big128 N rb ra rbb g res0 tmp0 = .ok (xa, xb) ∧
      CswapSpec N rb g sk m2 σ E ra rbb (glweSubSameRank N (max (ra.getD 0 []).length (rbb.getD 0 []).length) rbb ra) xa xb :=
  cswap_total big128 rb ra rbb g res0 tmp0 sk X Y hg hrb hgb1 hgb hX0 hY0 hH hPb hrab hrbb m2 σ E hd hN hn haD h0 ht hM hS hkey

example (m2 : Ks.R 1) (σ : ℕ → Ks.R 1) : ∃ xa xb, cswap true 1 4 ([[[1], [2], [3]], [[0], [1], [0]]] : List Col) ([[[0], [0], [1]], [[0], [0], [0]]] : List Col) staleG (zeroCols 1 2 4) (zeroCols 1 2 4) = .ok (xa, xb) ∧
    C02L.GWF 1 (Ks.mkCt 4 1 xa) ∧ C02L.GWF 1 (Ks.mkCt 4 1 xb) := by
  obtain ⟨xa, xb, h1, h2, h3, _⟩ := cswap_decrypts (N := 1) true 4 ([[[1], [2], [3]], [[0], [1], [0]]] : List Col) ([[[0], [0], [1]], [[0], [0], [0]]] : List Col) staleG (zeroCols 1 2 4) (zeroCols 1 2 4) [[1]] (2 ^ 60) (2 ^ 60)
    (by decide) rfl (by decide) (by decide) (by decide) (by decide) (by decide) (by decide) (by decide) (by decide)
    m2 σ (fun i r => Gadget.val ((2 : Ks.R 1) ^ staleG.base2k) staleG.size (Ks.keyPhase 1 [[1]] staleG.toPMat i r)
                    - m2 * σ i * ((2 : Ks.R 1) ^ staleG.base2k) ^ (staleG.size - (r + 1) * staleG.dsize))
    (by decide) (by decide) rfl (by decide) (by decide) (by decide) (Ks.entry_length staleG.toPMat 1 rfl (by decide)) (by decide)
    (by intro i _ r _; exact (add_sub_cancel _ _).symm)
  exact ⟨xa, xb, h1, h2, h3⟩

/-! ## Head-room derived from digit bounds; admissible shapes -/

/-- **`ep_headroom`** — the accumulator head-room of the external product DERIVED from digit bounds: input digits `|a| ≤ Da`, GGSW digits
`|g| ≤ Dm` ⇒ every coefficient of the executed `glwe_external_product_internal` is bounded by `dsize·((rank+1)·dnum)·N·Da·Dm`
(`Core.prodBound`; each of the `dsize` passes adds one vector-matrix product of `(rank+1)·dnum` negacyclic products). -/
theorem ep_headroom (N : Nat) (a : List Col) (g : EpGGSW) (res0 tmp0 : List Col) (Da Dm : Int) (hDa : 0 ≤ Da) (hDm : 0 ≤ Dm)
    (hd : 1 ≤ g.dsize) (hn : g.n = N)
    (ha : shapeOk g.n (g.rank + 1) (a.getD 0 []).length a = true)
    (h0 : shapeOk g.n (g.rank + 1) g.size res0 = true) (ht : shapeOk g.n (g.rank + 1) g.size tmp0 = true)
    (hab : ∀ c ∈ a, ∀ l ∈ c, ∀ x ∈ l, |x| ≤ Da)
    (hgb : ∀ row ∈ g.cells, ∀ c ∈ row, ∀ l ∈ c, ∀ x ∈ l, |x| ≤ Dm) :
    ∀ c ∈ epInternal a g res0 tmp0, ∀ l ∈ c, ∀ x ∈ l, |x| ≤ prodBound g.dsize (g.rank + 1) g.dnum N Da Dm :=
  epInternal_bound N a g res0 tmp0 Da Dm hDa hDm hd hn ha h0 ht hab hgb

example : ∀ c ∈ epInternal [[[1], [2], [3]], [[0], [1], [0]]] staleG (zeroCols 1 2 4) (zeroCols 1 2 4), ∀ l ∈ c, ∀ x ∈ l,
    |x| ≤ prodBound 3 2 1 1 3 1 :=
  ep_headroom 1 _ staleG _ _ 3 1 (by decide) (by decide) (by decide) rfl (by decide) (by decide) (by decide) (by decide) (by decide)

/-- the crate's parameter sets are admissible (balanced digits `2^(b−1)`, added operand `< 2^b`): bench core (`N = 4096`, `b = 18`, rank 1,
`dnum = 3`), circuit bootstrapping / BDD (`N = 1024`, `b = 13`, rank 2, `dnum ≤ 4`) on the i64 accumulator; CKKS (`N = 4096`, `b = 52`, rank 1,
`dnum ≤ 16`) on the i128 accumulator — and not on i64 -/
example : prodAdmissible 64 1 2 3 4096 (2 ^ 17) (2 ^ 17) (2 ^ 18) ∧ prodAdmissible 64 1 3 4 1024 (2 ^ 12) (2 ^ 12) (2 ^ 13) ∧
    prodAdmissible 128 1 2 16 4096 (2 ^ 51) (2 ^ 51) (2 ^ 52) ∧ ¬ prodAdmissible 64 1 2 16 4096 (2 ^ 51) (2 ^ 51) (2 ^ 52) := by decide

/-- **`ep_decrypts_of_digits`** — `ep_decrypts` with the head-room derived: digit bounds and ONE explicit admissible-shape inequality
(`Core.prodAdmissible`) replace the accumulator hypothesis. -/
theorem ep_decrypts_of_digits {N : Nat} (big128 : Bool) (rb rs ab : Nat) (a aConv : List Col) (g : EpGGSW) (sk : List Poly) (Da Dm : Int)
    (hg : (g.n == N && g.wf && shapeOk N (g.rank + 1) (a.getD 0 []).length a) = true)
    (hc : epConvert N a ab g = some aConv)
    (hrb1 : 1 ≤ rb) (hrb : rb ≤ 62) (hgb1 : 1 ≤ g.base2k) (hgb : g.base2k ≤ 62)
    (hDa : 0 ≤ Da) (hDm : 0 ≤ Dm)
    (hadm : prodAdmissible (bitsOf big128) g.dsize (g.rank + 1) g.dnum N Da Dm 0)
    (hab : ∀ c ∈ aConv, ∀ l ∈ c, ∀ x ∈ l, |x| ≤ Da)
    (hgd : ∀ row ∈ g.cells, ∀ c ∈ row, ∀ l ∈ c, ∀ x ∈ l, |x| ≤ Dm)
    (m2 : Ks.R N) (σ : ℕ → Ks.R N) (E : ℕ → ℕ → Ks.R N)
    (hd : 1 ≤ g.dsize) (hN : 0 < N) (hn : g.n = N)
    (haC : shapeOk g.n (g.rank + 1) (aConv.getD 0 []).length aConv = true)
    (hM : ∀ j q, (g.toPMat.entry j q).length = N) (hS : g.dnum * g.dsize ≤ g.size)
    (hkey : ∀ i, i < g.rank + 1 → ∀ r, r < g.dnum →
      Gadget.val ((2 : Ks.R N) ^ g.base2k) g.size (Ks.keyPhase N sk g.toPMat i r)
        = m2 * σ i * ((2 : Ks.R N) ^ g.base2k) ^ (g.size - (r + 1) * g.dsize) + E i r) :
    ∃ res, glweExternalProduct big128 N rb rs a ab g = .ok res ∧ C02L.GWF N (Ks.mkCt rb N res) ∧
      (∀ c ∈ res, ∀ l ∈ c, ∀ x ∈ l, |x| ≤ 2 ^ rb - 1) ∧
      ∃ En Q : Poly, En.length = N ∧ Q.length = N ∧
        normInf En ≤ (1 + C02L.snorm (min g.rank sk.length) sk) * C02.normTol (rb * rs) (g.base2k * g.size) ∧
        (2 : Ks.R N) ^ (g.base2k * g.size) * Ks.ι N (C02L.valP rb N (Core.Ops.phase sk (Ks.mkCt rb N res)))
          = (2 : Ks.R N) ^ (rb * rs) * epValue N sk aConv g ((2 : Ks.R N) ^ g.base2k) m2 σ E
            + Ks.ι N En + (2 : Ks.R N) ^ (rb * rs + g.base2k * g.size) * Ks.ι N Q := by
  have hz : shapeOk g.n (g.rank + 1) g.size (zeroCols N (g.rank + 1) g.size) = true := by rw [hn]; exact zeroCols_shape _ _ _
  have hacc := ep_headroom N aConv g _ _ Da Dm hDa hDm hd hn haC hz hz hab hgd
  unfold prodAdmissible at hadm
  exact ep_decrypts big128 rb rs ab a aConv g sk _ hg hc hrb1 hrb hgb1 hgb (prodBound_nonneg _ _ _ _ _ _ hDa hDm) (by linarith) hacc
    m2 σ E hd hN hn haC hM hS hkey

example (m2 : Ks.R 1) (σ : ℕ → Ks.R 1) :
    ∃ res, glweExternalProduct true 1 4 4 [[[1], [2], [3]], [[0], [1], [0]]] 4 staleG = .ok res ∧ C02L.GWF 1 (Ks.mkCt 4 1 res) := by
  obtain ⟨res, h1, h2, _⟩ := ep_decrypts_of_digits (N := 1) true 4 4 4 [[[1], [2], [3]], [[0], [1], [0]]] [[[1], [2], [3]], [[0], [1], [0]]] staleG [[1]]
    3 1 (by decide) (by decide) (by decide) (by decide) (by decide) (by decide) (by decide) (by decide) (by decide) (by decide) (by decide)
    m2 σ (fun i r => Gadget.val ((2 : Ks.R 1) ^ staleG.base2k) staleG.size (Ks.keyPhase 1 [[1]] staleG.toPMat i r)
                    - m2 * σ i * ((2 : Ks.R 1) ^ staleG.base2k) ^ (staleG.size - (r + 1) * staleG.dsize))
    (by decide) (by decide) rfl (by decide) (Ks.entry_length staleG.toPMat 1 rfl (by decide)) (by decide)
    (by intro i _ r _; exact (add_sub_cancel _ _).symm)
  exact ⟨res, h1, h2⟩

/-- **`expand_cell_decrypts`** — the add step of the row expansion composed end to end (`ggsw_expand_rows_internal`, hence `ggsw_from_gglwe`,
`ggsw_keyswitch`, `ggsw_automorphism`): every cell `c` (output column `c+1`) that `Core.expandRowCols` returns is well formed and
`2^(bt·S)·phase(cell) = 2^(rb·rs)·(s_c·Me + Σ_i(Σ_r digit·E − dropped − β^S·head)) + En + 2^(…)·Q`, `‖En‖_∞ ≤ (1+Σ‖s_i‖₁)·normTol`, where
`Me = body + Σ_i σ_i·usedVal(a_i)` is the row's phase: the same message in every column.  Both accumulator widths, any result radix; the
body is added exactly under the head-room `X + Y + 8 ≤ 2^62 / 2^126` (`X` from `relin_headroom`-type digit bounds). -/
theorem expand_cell_decrypts (N : Nat) (big128 : Bool) (rb rs : Nat) (sk : List Poly) (a0 : Col) (aDft : List Col) (t : ToGGSWKey)
    (cells : List (List Col)) (c : Nat) (cell : List Col)
    (hcells : expandRowCols big128 N rb rs a0 aDft t = some cells) (hcell : cells[c]? = some cell)
    (X Y : Int) (sc Me : Ks.R N) (σ : ℕ → Ks.R N) (E : ℕ → ℕ → Ks.R N)
    (hrb1 : 1 ≤ rb) (hrb : rb ≤ 62) (ht1 : 1 ≤ t.base2k) (ht62 : t.base2k ≤ 62)
    (hX0 : 0 ≤ X) (hY0 : 0 ≤ Y) (hH : X + Y + 8 ≤ 2 ^ (bitsOf big128 - 2))
    (hPb : ∀ col ∈ expandProd N aDft t c, ∀ l ∈ col, ∀ x ∈ l, |x| ≤ X) (ha0 : C02L.LimbsN N a0) (ha0b : ∀ l ∈ a0, ∀ x ∈ l, |x| ≤ Y)
    (hd : 1 ≤ t.dsize) (hN : 0 < N) (hn : t.n = N) (hM : ∀ j q, ((t.at c).toPMat.entry j q).length = N)
    (hS : t.dnum * t.dsize ≤ t.size) (hsk : c < sk.length) (hsc : sc = Ks.ι N (sk.getD c []))
    (hkey : ∀ i, i < t.rank → ∀ r, r < t.dnum →
      Gadget.val ((2 : Ks.R N) ^ t.base2k) t.size (Ks.keyPhase N sk (t.at c).toPMat i r)
        = sc * σ i * ((2 : Ks.R N) ^ t.base2k) ^ (t.size - (r + 1) * t.dsize) + E i r)
    (hrow : colValS N ((2 : Ks.R N) ^ t.base2k) t.size a0 + expandUsed N aDft t ((2 : Ks.R N) ^ t.base2k) σ = Me) :
    C02L.GWF N (Ks.mkCt rb N cell) ∧ (∀ col ∈ cell, ∀ l ∈ col, ∀ x ∈ l, |x| ≤ 2 ^ rb - 1) ∧
      ∃ En Q : Poly, En.length = N ∧ Q.length = N ∧
        normInf En ≤ (1 + C02L.snorm (min t.rank sk.length) sk) * C02.normTol (rb * rs) (t.base2k * t.size) ∧
        (2 : Ks.R N) ^ (t.base2k * t.size) * Ks.ι N (C02L.valP rb N (Core.Ops.phase sk (Ks.mkCt rb N cell)))
          = (2 : Ks.R N) ^ (rb * rs) * (sc * Me + expandErr N sk aDft t c ((2 : Ks.R N) ^ t.base2k) E)
            + Ks.ι N En + (2 : Ks.R N) ^ (rb * rs + t.base2k * t.size) * Ks.ι N Q := by
  obtain ⟨_, hacc⟩ := expandRowCols_accumulator big128 N rb rs a0 aDft t cells hcells
  obtain ⟨hc, hm⟩ := hacc c cell hcell
  obtain ⟨cell', h1, h2, h3, h4⟩ := expand_cell_total N big128 rb rs sk a0 aDft t c X Y sc Me σ E hrb1 hrb ht1 ht62 hX0 hY0 hH hPb ha0 ha0b
    hd hN hn hM hS hc hsk hsc hkey hrow
  rw [hm] at h1
  injection h1 with h1
  subst h1
  exact ⟨h2, h3, h4⟩

example (σ : ℕ → Ks.R 1) : C02L.GWF 1 (Ks.mkCt 4 1 [[[1], [0], [0]], [[3], [1], [0]]]) := by
  have h := expand_cell_decrypts 1 false 4 3 [[1]] [[1], [0]] [[[2], [1]]] exT [[[[1], [0], [0]], [[3], [1], [0]]]] 0 [[[1], [0], [0]], [[3], [1], [0]]]
    (by decide +kernel) rfl (2 ^ 60) (2 ^ 60) (Ks.ι 1 [1])
    (colValS 1 ((2 : Ks.R 1) ^ exT.base2k) exT.size [[1], [0]] + expandUsed 1 [[[2], [1]]] exT ((2 : Ks.R 1) ^ exT.base2k) σ) σ
    (fun i r => Gadget.val ((2 : Ks.R 1) ^ exT.base2k) exT.size (Ks.keyPhase 1 [[1]] (exT.at 0).toPMat i r)
      - Ks.ι 1 [1] * σ i * ((2 : Ks.R 1) ^ exT.base2k) ^ (exT.size - (r + 1) * exT.dsize))
    (by decide) (by decide) (by decide) (by decide) (by decide) (by decide) (by decide) (by decide +kernel) (by decide) (by decide)
    (by decide) (by decide) rfl (Ks.entry_length (exT.at 0).toPMat 1 rfl (by decide)) (by decide) (by decide) rfl
    (by intro i _ r _; exact (add_sub_cancel _ _).symm) rfl
  exact h.1

/-! ## Any input radix: the conversion discharged, covered regime -/

/-- the executable shape check gives the well-formedness predicate -/
theorem wf_of_shapeOk (n cols size : Nat) (x : List Col) (h : shapeOk n cols size x = true) : x.length = cols ∧ ∀ c ∈ x, C02L.ColWF n size c := by
  unfold shapeOk at h
  simp only [Bool.and_eq_true, beq_iff_eq, List.all_eq_true] at h
  exact ⟨h.1, fun c hc => ⟨(h.2 c hc).1, fun l hl => (h.2 c hc).2 l hl⟩⟩

/-- the gadget terms of an external product: `Σ_i (Σ_r digit·E − dropped − β^S·head)` -/
noncomputable def epErr (N : Nat) (sk : List Poly) (a : List Col) (g : EpGGSW) (β : Ks.R N) (E : ℕ → ℕ → Ks.R N) : Ks.R N :=
  ∑ i ∈ Finset.range (g.rank + 1),
    (∑ r ∈ Finset.range g.dnum,
        Gadget.digit β g.dsize g.dnum (a.getD 0 []).length (Ks.inLimb N (mkBuf g.n (g.rank + 1) (a.getD 0 []).length a) i) r * E i r
      - Gadget.dropped β g.size g.dsize g.dnum (a.getD 0 []).length
          (Ks.inLimb N (mkBuf g.n (g.rank + 1) (a.getD 0 []).length a) i) (Ks.keyPhase N sk g.toPMat i)
      - β ^ g.size * Gadget.head β g.dsize g.dnum (a.getD 0 []).length
          (Ks.inLimb N (mkBuf g.n (g.rank + 1) (a.getD 0 []).length a) i) (Ks.keyPhase N sk g.toPMat i))

example : ([[[1], [0]], [[2], [3]]] : List Col).length = 2 ∧ ∀ c ∈ ([[[1], [0]], [[2], [3]]] : List Col), C02L.ColWF 1 2 c :=
  wf_of_shapeOk 1 2 2 _ (by decide)

/-- **`ep_decrypts_any_radix`** — `glwe_external_product` END TO END with NO conversion hypothesis: input in ANY radix `1..62` (converted by
`glwe_normalize` into the GGSW radix — `Core.epConvert_total`: it returns and is exact on the torus), result in any radix, every `dsize ≥ 1`, every
rank, both accumulator widths, covered regime (`⌈sa·ab/bg⌉ ≤ min(size, dnum·dsize)`), head-room derived from digit bounds (`Core.prodAdmissible`).
With `σ_0 = 1`, `σ_{i+1} = s_i`:
`2^(ab·sa + bg·S)·phase(res) = 2^(rb·rs)·(2^(bg·S)·m2·phase(a) + 2^(ab·sa)·epErr) + 2^(ab·sa)·En + 2^(ab·sa+rb·rs+bg·S)·Q` — the result decrypts to
`m2 · phase(a)` plus the gadget error (`epErr = Σ_i(Σ_r digit·E − dropped − β^S·head)` on the converted input) and the final rounding
`‖En‖_∞ ≤ (1+Σ‖s_i‖₁)·normTol` (`0` when `bg·S ≤ rb·rs`). -/
theorem ep_decrypts_any_radix {N : Nat} (big128 : Bool) (rb rs ab : Nat) (a : List Col) (g : EpGGSW) (sk : List Poly) (Hin Da Dm : Int)
    (hg : (g.n == N && g.wf && shapeOk N (g.rank + 1) (a.getD 0 []).length a) = true)
    (hrb1 : 1 ≤ rb) (hrb : rb ≤ 62) (hab1 : 1 ≤ ab) (hab : ab ≤ 62) (hgb1 : 1 ≤ g.base2k) (hgb : g.base2k ≤ 62)
    (hH0 : 0 ≤ Hin) (hH : Hin + 8 ≤ 2 ^ 62) (hb : ∀ c ∈ a, ∀ l ∈ c, ∀ x ∈ l, |x| ≤ Hin)
    (hDa : if ab = g.base2k then Hin ≤ Da else 2 ^ g.base2k - 1 ≤ Da) (hDm : 0 ≤ Dm)
    (hadm : prodAdmissible (bitsOf big128) g.dsize (g.rank + 1) g.dnum N Da Dm 0)
    (hgd : ∀ row ∈ g.cells, ∀ c ∈ row, ∀ l ∈ c, ∀ x ∈ l, |x| ≤ Dm)
    (m2 : Ks.R N) (σ : ℕ → Ks.R N) (E : ℕ → ℕ → Ks.R N)
    (hd : 1 ≤ g.dsize) (hN : 0 < N) (hn : g.n = N)
    (hM : ∀ j q, (g.toPMat.entry j q).length = N) (hS : g.dnum * g.dsize ≤ g.size)
    (hkey : ∀ i, i < g.rank + 1 → ∀ r, r < g.dnum →
      Gadget.val ((2 : Ks.R N) ^ g.base2k) g.size (Ks.keyPhase N sk g.toPMat i r)
        = m2 * σ i * ((2 : Ks.R N) ^ g.base2k) ^ (g.size - (r + 1) * g.dsize) + E i r)
    (hcov1 : epConvSize (a.getD 0 []).length ab g.base2k ≤ g.size)
    (hcov2 : epConvSize (a.getD 0 []).length ab g.base2k ≤ g.dnum * g.dsize)
    (hsk : g.rank ≤ sk.length) (hσ0 : σ 0 = 1) (hσ : ∀ i, i < g.rank → σ (i + 1) = Ks.ι N (sk.getD i [])) :
    ∃ res aConv, glweExternalProduct big128 N rb rs a ab g = .ok res ∧ epConvert N a ab g = some aConv ∧
      C02L.GWF N (Ks.mkCt rb N res) ∧ (∀ c ∈ res, ∀ l ∈ c, ∀ x ∈ l, |x| ≤ 2 ^ rb - 1) ∧
      ∃ (En : Poly) (Qr : Ks.R N), En.length = N ∧
        normInf En ≤ (1 + C02L.snorm (min g.rank sk.length) sk) * C02.normTol (rb * rs) (g.base2k * g.size) ∧
        (2 : Ks.R N) ^ (ab * (a.getD 0 []).length + g.base2k * g.size) * Ks.ι N (C02L.valP rb N (Core.Ops.phase sk (Ks.mkCt rb N res)))
          = (2 : Ks.R N) ^ (rb * rs) *
              ((2 : Ks.R N) ^ (g.base2k * g.size) * m2 * Ks.ι N (C02L.valP ab N (Core.Ops.phase sk (Ks.mkCt ab N a)))
                + (2 : Ks.R N) ^ (ab * (a.getD 0 []).length) * epErr N sk aConv g ((2 : Ks.R N) ^ g.base2k) E)
            + (2 : Ks.R N) ^ (ab * (a.getD 0 []).length) * Ks.ι N En
            + (2 : Ks.R N) ^ (ab * (a.getD 0 []).length + rb * rs + g.base2k * g.size) * Qr := by
  have hg' := hg
  simp only [Bool.and_eq_true, beq_iff_eq] at hg'
  obtain ⟨⟨_, _⟩, hsh⟩ := hg'
  obtain ⟨hal, hawf⟩ := wf_of_shapeOk N _ _ a hsh
  have hane : a ≠ [] := by intro h; rw [h] at hal; simp at hal
  set sa := (a.getD 0 []).length with hsa
  obtain ⟨aConv, hc, hcl, hcwf, hcdig, hcph⟩ := epConvert_total N hN a ab g sa Hin hane hawf hab1 hab hgb1 hgb hH0 hH hb
  set cs := epConvSize sa ab g.base2k with hcs
  have hDa0 : 0 ≤ Da := by
    split at hDa
    · linarith
    · have : (1 : Int) ≤ 2 ^ g.base2k := one_le_pow₀ (by norm_num)
      linarith
  have hcb : ∀ c ∈ aConv, ∀ l ∈ c, ∀ x ∈ l, |x| ≤ Da := by
    intro c hc' l hl x hx
    have := hcdig c hc' l hl x hx
    split at this <;> split at hDa <;> first | linarith | contradiction
  have hcl' : aConv.length = g.rank + 1 := by rw [hcl, hal]
  have h0c : 0 < aConv.length := by rw [hcl']; omega
  have hcs0 : (aConv.getD 0 []).length = cs := by
    rw [List.getD_eq_getElem?_getD, List.getElem?_eq_getElem h0c]; exact (hcwf _ (List.getElem_mem h0c)).1
  have haC : shapeOk g.n (g.rank + 1) (aConv.getD 0 []).length aConv = true := by
    rw [hn, hcs0]
    unfold shapeOk
    simp only [Bool.and_eq_true, beq_iff_eq, List.all_eq_true]
    exact ⟨hcl', fun c hc' => ⟨(hcwf c hc').1, fun l hl => (hcwf c hc').2 l hl⟩⟩
  obtain ⟨res, hres, hgwf, hdig, En, Q, hE, hQ, hnm, heq⟩ := ep_decrypts_of_digits big128 rb rs ab a aConv g sk Da Dm hg hc hrb1 hrb hgb1 hgb
    hDa0 hDm hadm hcb hgd m2 σ E hd hN hn haC hM hS hkey
  obtain ⟨Q1, hQ1, hconv⟩ := hcph sk
  have hcov := ep_covered_value N hN aConv g sk σ cs hcl' hcwf hd hcov1 hcov2 hsk hσ0 hσ
  refine ⟨res, aConv, hres, hc, hgwf, hdig, En, Ks.ι N Q + m2 * Ks.ι N Q1, hE, hnm, ?_⟩
  unfold epValue at heq
  unfold epErr
  rw [hcov] at heq
  have hpow : ((2 : Ks.R N) ^ g.base2k) ^ (g.size - cs) * (2 : Ks.R N) ^ (g.base2k * cs) = (2 : Ks.R N) ^ (g.base2k * g.size) := by
    rw [← pow_mul, ← pow_add]
    congr 1
    have : g.base2k * (g.size - cs) + g.base2k * cs = g.base2k * g.size := by
      rw [← Nat.mul_add]; congr 1; omega
    exact this
  have e1 : (2 : Ks.R N) ^ (ab * sa + g.base2k * g.size) = (2 : Ks.R N) ^ (ab * sa) * (2 : Ks.R N) ^ (g.base2k * g.size) := pow_add _ _ _
  have e2 : (2 : Ks.R N) ^ (ab * sa + rb * rs + g.base2k * g.size)
      = (2 : Ks.R N) ^ (ab * sa) * (2 : Ks.R N) ^ (rb * rs) * (2 : Ks.R N) ^ (g.base2k * g.size) := by rw [pow_add, pow_add]
  have e3 : (2 : Ks.R N) ^ (rb * rs + g.base2k * g.size) = (2 : Ks.R N) ^ (rb * rs) * (2 : Ks.R N) ^ (g.base2k * g.size) := pow_add _ _ _
  have e4 : (2 : Ks.R N) ^ (g.base2k * cs + ab * sa) = (2 : Ks.R N) ^ (g.base2k * cs) * (2 : Ks.R N) ^ (ab * sa) := pow_add _ _ _
  rw [e3] at heq
  rw [e4] at hconv
  rw [e1, e2]
  linear_combination ((2 : Ks.R N) ^ (ab * sa)) * heq
    + ((2 : Ks.R N) ^ (rb * rs) * m2 * ((2 : Ks.R N) ^ g.base2k) ^ (g.size - cs)) * hconv
    + ((2 : Ks.R N) ^ (rb * rs) * m2 * Ks.ι N (C02L.valP ab N (Core.Ops.phase sk (Ks.mkCt ab N a)))
        + (2 : Ks.R N) ^ (ab * sa) * (2 : Ks.R N) ^ (rb * rs) * m2 * Ks.ι N Q1) * hpow

/-- cross radix (`2^2 → 2^4`), `dsize = 3` GGSW `staleG`, NTT120 accumulator, every hypothesis discharged -/
example (m2 : Ks.R 1) : ∃ res aConv, glweExternalProduct true 1 4 4 [[[1], [0]], [[0], [1]]] 2 staleG = .ok res ∧
    epConvert 1 [[[1], [0]], [[0], [1]]] 2 staleG = some aConv ∧ C02L.GWF 1 (Ks.mkCt 4 1 res) := by
  obtain ⟨res, aConv, h1, h2, h3, _⟩ := ep_decrypts_any_radix (N := 1) true 4 4 2 [[[1], [0]], [[0], [1]]] staleG [[1]] 1 15 1
    (by decide) (by decide) (by decide) (by decide) (by decide) (by decide) (by decide) (by decide) (by decide) (by decide)
    (by decide) (by decide) (by decide) (by decide)
    m2 (fun i => if i = 0 then 1 else Ks.ι 1 [1])
    (fun i r => Gadget.val ((2 : Ks.R 1) ^ staleG.base2k) staleG.size (Ks.keyPhase 1 [[1]] staleG.toPMat i r)
      - m2 * (if i = 0 then 1 else Ks.ι 1 [1]) * ((2 : Ks.R 1) ^ staleG.base2k) ^ (staleG.size - (r + 1) * staleG.dsize))
    (by decide) (by decide) rfl (Ks.entry_length staleG.toPMat 1 rfl (by decide)) (by decide)
    (by intro i _ r _; exact (add_sub_cancel _ _).symm)
    (by decide) (by decide) (by decide) rfl
    (by intro i hi; have : i = 0 := by
          have : i < 1 := hi
          omega
        subst this; rfl)
  exact ⟨res, aConv, h1, h2, h3⟩

/-! ## GGSW × GGLWE / GGSW × GGSW as whole matrices -/

/-- what `ep_decrypts_any_radix` guarantees about one cell -/
def EpCellSpec (N rb rs ab : Nat) (a : List Col) (g : EpGGSW) (sk : List Poly) (m2 : Ks.R N) (E : ℕ → ℕ → Ks.R N) (res : List Col) : Prop :=
  ∃ aConv, epConvert N a ab g = some aConv ∧
    C02L.GWF N (Ks.mkCt rb N res) ∧ (∀ c ∈ res, ∀ l ∈ c, ∀ x ∈ l, |x| ≤ 2 ^ rb - 1) ∧
    ∃ (En : Poly) (Qr : Ks.R N), En.length = N ∧
      normInf En ≤ (1 + C02L.snorm (min g.rank sk.length) sk) * C02.normTol (rb * rs) (g.base2k * g.size) ∧
      (2 : Ks.R N) ^ (ab * (a.getD 0 []).length + g.base2k * g.size) * Ks.ι N (C02L.valP rb N (Core.Ops.phase sk (Ks.mkCt rb N res)))
        = (2 : Ks.R N) ^ (rb * rs) *
            ((2 : Ks.R N) ^ (g.base2k * g.size) * m2 * Ks.ι N (C02L.valP ab N (Core.Ops.phase sk (Ks.mkCt ab N a)))
              + (2 : Ks.R N) ^ (ab * (a.getD 0 []).length) * epErr N sk aConv g ((2 : Ks.R N) ^ g.base2k) E)
          + (2 : Ks.R N) ^ (ab * (a.getD 0 []).length) * Ks.ι N En
          + (2 : Ks.R N) ^ (ab * (a.getD 0 []).length + rb * rs + g.base2k * g.size) * Qr

/-- the cell loop of the matrix forms returns the list of its cells when every cell does -/
theorem matFold_ok (big128 : Bool) (n rb rs rowsRes rowsA colsIn : Nat) (a : List (List Col)) (ab : Nat) (g : EpGGSW)
    (c : Nat → List Col) (m : Nat)
    (h : ∀ q, q < m → (if q / colsIn < min rowsRes rowsA then glweExternalProduct big128 n rb rs (a.getD q []) ab g
          else .ok (zeroCols n (g.rank + 1) rs)) = .ok (c q)) :
    (List.range m).foldl (fun (acc : Outcome (List (List Col))) q =>
      match acc with
      | .ok cells =>
        if q / colsIn < min rowsRes rowsA then
          match glweExternalProduct big128 n rb rs (a.getD q []) ab g with
          | .ok c => .ok (cells ++ [c])
          | .err e => .err e
          | .panic p => .panic p
        else .ok (cells ++ [zeroCols n (g.rank + 1) rs])
      | o => o) (.ok []) = .ok ((List.range m).map c) := by
  induction m with
  | zero => rfl
  | succ k ih =>
    rw [List.range_succ, List.foldl_append, ih (fun q hq => h q (by omega))]
    simp only [List.foldl_cons, List.foldl_nil, List.map_append, List.map_cons, List.map_nil]
    have hk := h k (by omega)
    by_cases hc : k / colsIn < min rowsRes rowsA
    · rw [if_pos hc] at hk ⊢
      rw [hk]
    · rw [if_neg hc] at hk ⊢
      injection hk with hk
      rw [hk]

example : (List.range 1).foldl (fun (acc : Outcome (List (List Col))) q =>
      match acc with
      | .ok cells =>
        if q / 2 < min 1 0 then
          match glweExternalProduct false 1 4 4 (([] : List (List Col)).getD q []) 4 staleG with
          | .ok c => .ok (cells ++ [c])
          | .err e => .err e
          | .panic p => .panic p
        else .ok (cells ++ [zeroCols 1 (staleG.rank + 1) 4])
      | o => o) (.ok []) = .ok ((List.range 1).map (fun _ => zeroCols 1 2 4)) :=
  matFold_ok false 1 4 4 1 0 2 [] 4 staleG (fun _ => zeroCols 1 2 4) 1 (by
    intro q hq
    have h0 : q = 0 := by omega
    subst h0
    rfl)

/-- **`mat_external_product_decrypts`** — `ggsw_external_product` / `gglwe_external_product` as WHOLE matrices (∀-cell corollary of
`ep_decrypts_any_radix`): the call returns `rowsRes·colsIn` cells; every cell of the common rows is `glwe_external_product` of the
operand's cell and satisfies `EpCellSpec` (decrypts to `m2·phase(cell)` + gadget error + rounding, the SAME `m2` in every cell); every cell of
the rows beyond the operand's (`res.dnum > a.dnum`, GGSW form only — the GGLWE form panics there) is ZERO in every column, including the last.
(A seeded change that dropped the zero fill of the last column is caught by `./check C04`: the model's zero cells disagree with all four
back ends and the oracle reports "row beyond the operand's rows is not zero".) -/
theorem mat_external_product_decrypts {N : Nat} (big128 gglwe : Bool) (rb rs rowsRes rowsA colsIn ab : Nat) (a : List (List Col)) (g : EpGGSW)
    (sk : List Poly) (sa : Nat) (Hin Da Dm : Int)
    (hrbab : rb = ab) (hrows : ¬ (gglwe = true ∧ rowsRes > rowsA))
    (hcell : ∀ q, q < rowsRes * colsIn → q / colsIn < min rowsRes rowsA →
      (g.n == N && g.wf && shapeOk N (g.rank + 1) sa (a.getD q [])) = true ∧ ∀ c ∈ a.getD q [], ∀ l ∈ c, ∀ x ∈ l, |x| ≤ Hin)
    (hrb1 : 1 ≤ rb) (hrb : rb ≤ 62) (hgb1 : 1 ≤ g.base2k) (hgb : g.base2k ≤ 62)
    (hH0 : 0 ≤ Hin) (hH : Hin + 8 ≤ 2 ^ 62)
    (hDa : if ab = g.base2k then Hin ≤ Da else 2 ^ g.base2k - 1 ≤ Da) (hDm : 0 ≤ Dm)
    (hadm : prodAdmissible (bitsOf big128) g.dsize (g.rank + 1) g.dnum N Da Dm 0)
    (hgd : ∀ row ∈ g.cells, ∀ c ∈ row, ∀ l ∈ c, ∀ x ∈ l, |x| ≤ Dm)
    (m2 : Ks.R N) (σ : ℕ → Ks.R N) (E : ℕ → ℕ → Ks.R N)
    (hd : 1 ≤ g.dsize) (hN : 0 < N) (hn : g.n = N)
    (hM : ∀ j q, (g.toPMat.entry j q).length = N) (hS : g.dnum * g.dsize ≤ g.size)
    (hkey : ∀ i, i < g.rank + 1 → ∀ r, r < g.dnum →
      Gadget.val ((2 : Ks.R N) ^ g.base2k) g.size (Ks.keyPhase N sk g.toPMat i r)
        = m2 * σ i * ((2 : Ks.R N) ^ g.base2k) ^ (g.size - (r + 1) * g.dsize) + E i r)
    (hcov1 : epConvSize sa ab g.base2k ≤ g.size) (hcov2 : epConvSize sa ab g.base2k ≤ g.dnum * g.dsize)
    (hsk : g.rank ≤ sk.length) (hσ0 : σ 0 = 1) (hσ : ∀ i, i < g.rank → σ (i + 1) = Ks.ι N (sk.getD i [])) :
    ∃ cells, matExternalProduct big128 N rb rs rowsRes rowsA colsIn a ab g gglwe = .ok cells ∧ cells.length = rowsRes * colsIn ∧
      ∀ q, q < rowsRes * colsIn →
        (q / colsIn < min rowsRes rowsA →
          glweExternalProduct big128 N rb rs (a.getD q []) ab g = .ok (cells.getD q []) ∧
          EpCellSpec N rb rs ab (a.getD q []) g sk m2 E (cells.getD q [])) ∧
        (min rowsRes rowsA ≤ q / colsIn → cells.getD q [] = zeroCols N (g.rank + 1) rs) := by
  have hab1 : 1 ≤ ab := by rw [← hrbab]; exact hrb1
  have hab : ab ≤ 62 := by rw [← hrbab]; exact hrb
  -- every computed cell
  have hq : ∀ q, ∃ res, q < rowsRes * colsIn → q / colsIn < min rowsRes rowsA →
      glweExternalProduct big128 N rb rs (a.getD q []) ab g = .ok res ∧ EpCellSpec N rb rs ab (a.getD q []) g sk m2 E res := by
    intro q
    by_cases hc : q < rowsRes * colsIn ∧ q / colsIn < min rowsRes rowsA
    · obtain ⟨hg, hb⟩ := hcell q hc.1 hc.2
      have hsa : ((a.getD q []).getD 0 []).length = sa := by
        have hg' := hg
        simp only [Bool.and_eq_true, beq_iff_eq] at hg'
        obtain ⟨hl, hwf⟩ := wf_of_shapeOk N _ _ _ hg'.2
        have h0 : 0 < (a.getD q []).length := by rw [hl]; omega
        rw [List.getD_eq_getElem?_getD, List.getElem?_eq_getElem h0]; exact (hwf _ (List.getElem_mem h0)).1
      obtain ⟨res, aConv, h1, h2, h3, h4, h5⟩ := ep_decrypts_any_radix big128 rb rs ab (a.getD q []) g sk Hin Da Dm (by rw [hsa]; exact hg)
        hrb1 hrb hab1 hab hgb1 hgb hH0 hH hb hDa hDm hadm hgd m2 σ E hd hN hn hM hS hkey (by rw [hsa]; exact hcov1) (by rw [hsa]; exact hcov2)
        hsk hσ0 hσ
      exact ⟨res, fun _ _ => ⟨h1, aConv, h2, h3, h4, h5⟩⟩
    · exact ⟨[], fun h1 h2 => absurd ⟨h1, h2⟩ hc⟩
  choose cellOf hcellOf using hq
  let c : Nat → List Col := fun q => if q / colsIn < min rowsRes rowsA then cellOf q else zeroCols N (g.rank + 1) rs
  have hfold := matFold_ok big128 N rb rs rowsRes rowsA colsIn a ab g c (rowsRes * colsIn) (by
    intro q hqlt
    by_cases hc : q / colsIn < min rowsRes rowsA
    · simp only [c, hc, if_true]; exact (hcellOf q hqlt hc).1
    · simp only [c, hc, if_false])
  refine ⟨(List.range (rowsRes * colsIn)).map c, ?_, by simp, ?_⟩
  · unfold matExternalProduct
    rw [if_neg (by rw [hrbab]; simp)]
    have hr' : ¬ (gglwe && decide (rowsRes > rowsA)) = true := by
      intro h
      simp only [Bool.and_eq_true, decide_eq_true_eq] at h
      exact hrows h
    rw [if_neg hr']
    exact hfold
  · intro q hqlt
    have hget : ((List.range (rowsRes * colsIn)).map c).getD q [] = c q := getD_range_map _ q c hqlt
    rw [hget]
    constructor
    · intro hc
      simp only [c, hc, if_true]
      exact hcellOf q hqlt hc
    · intro hc
      have : ¬ q / colsIn < min rowsRes rowsA := by omega
      simp only [c, this, if_false]

/-- GGSW × GGSW with a result of MORE rows than the operand (`rowsRes = 2 > rowsA = 1`): the extra row is zero in every column -/
example (m2 : Ks.R 1) : ∃ cells, matExternalProduct true 1 4 4 2 1 2 [[[[1], [2], [3]], [[0], [1], [0]]], [[[1], [2], [3]], [[0], [1], [0]]]] 4 staleG false = .ok cells ∧ cells.length = 4 ∧
    cells.getD 2 [] = zeroCols 1 2 4 ∧ cells.getD 3 [] = zeroCols 1 2 4 := by
  obtain ⟨cells, h1, h2, h3⟩ := mat_external_product_decrypts (N := 1) true false 4 4 2 1 2 4 [[[[1], [2], [3]], [[0], [1], [0]]], [[[1], [2], [3]], [[0], [1], [0]]]] staleG [[1]] 3 3 3 1
    rfl (by decide)
    (by
      intro q hq hrow
      have hq2 : q < 2 := by
        have : q / 2 < 1 := by simpa using hrow
        omega
      have : q = 0 ∨ q = 1 := by omega
      rcases this with rfl | rfl <;> exact ⟨by decide, by decide⟩)
    (by decide) (by decide) (by decide) (by decide) (by decide) (by decide) (by decide) (by decide) (by decide) (by decide)
    m2 (fun i => if i = 0 then 1 else Ks.ι 1 [1])
    (fun i r => Gadget.val ((2 : Ks.R 1) ^ staleG.base2k) staleG.size (Ks.keyPhase 1 [[1]] staleG.toPMat i r)
      - m2 * (if i = 0 then 1 else Ks.ι 1 [1]) * ((2 : Ks.R 1) ^ staleG.base2k) ^ (staleG.size - (r + 1) * staleG.dsize))
    (by decide) (by decide) rfl (Ks.entry_length staleG.toPMat 1 rfl (by decide)) (by decide)
    (by intro i _ r _; exact (add_sub_cancel _ _).symm)
    (by decide) (by decide) (by decide) rfl
    (by intro i hi; have : i = 0 := by
          have : i < 1 := hi
          omega
        subst this; rfl)
  exact ⟨cells, h1, h2, (h3 2 (by decide)).2 (by decide), (h3 3 (by decide)).2 (by decide)⟩

/-! ## CMux on its inputs: the result decrypts to `t` or `f` by the GGSW bit, plus explicit noise -/

/-- **`cmux_selects_with_noise`** — `Cmux::cmux(res, t, f, s)` stated on the INPUTS `(t, f, bit)` only, every shape (`dsize ≥ 1`, rank, limb
counts with `rs ≤ min(size, dnum·dsize)`), both accumulator widths.  If the GGSW encrypts the bit (`hkey` with `m2 = bit`, explicit key error `E`),
the call returns a well-formed ciphertext and
`2^(b·S)·phase(res) = 2^(b·S)·phase(if bit then t else f) + 2^(b·rs)·epErr + En + 2^(b·rs+b·S)·Q`:
the selected input, plus the gadget error of the difference (`epErr = Σ_i(Σ_r digit·E − dropped − β^S·head)` on `d = t − f`), plus the final
rounding `‖En‖_∞ ≤ (1+Σ‖s_i‖₁)·normTol`.  The difference is the executed `glwe_sub`, exact under head-room (`Core.glweSub_exact`, the column form of
`C02.sub_phase`: `phase(d) = phase(t) − phase(f)`); the accumulator head-room is derived from the digit bound `Hin` (`ep_headroom`, one decidable
`Core.prodAdmissible`).  This is the statement `bin-fhe`'s CMux trees cite. -/
theorem cmux_selects_with_noise {N : Nat} (big128 : Bool) (rs : Nat) (t f : List Col) (g : EpGGSW) (res0 tmp0 : List Col) (sk : List Poly)
    (bit : Bool) (Hin Dm : Int)
    (hgn : g.n = N) (hgw : g.wf = true) (hts : shapeOk N (g.rank + 1) rs t = true) (hfs : shapeOk N (g.rank + 1) rs f = true)
    (hgb1 : 1 ≤ g.base2k) (hgb : g.base2k ≤ 62)
    (hH0 : 0 ≤ Hin) (hH : 2 * Hin < 2 ^ 62) (hDm : 0 ≤ Dm)
    (htb : ∀ c ∈ t, ∀ l ∈ c, ∀ x ∈ l, |x| ≤ Hin) (hfb : ∀ c ∈ f, ∀ l ∈ c, ∀ x ∈ l, |x| ≤ Hin)
    (hadm : prodAdmissible (bitsOf big128) g.dsize (g.rank + 1) g.dnum N (Hin + Hin) Dm Hin)
    (hgd : ∀ row ∈ g.cells, ∀ c ∈ row, ∀ l ∈ c, ∀ x ∈ l, |x| ≤ Dm)
    (σ : ℕ → Ks.R N) (E : ℕ → ℕ → Ks.R N)
    (hd : 1 ≤ g.dsize) (hN : 0 < N) (h1rs : 1 ≤ rs)
    (h0 : shapeOk g.n (g.rank + 1) g.size res0 = true) (ht : shapeOk g.n (g.rank + 1) g.size tmp0 = true)
    (hM : ∀ j q, (g.toPMat.entry j q).length = N) (hS : g.dnum * g.dsize ≤ g.size)
    (hkey : ∀ i, i < g.rank + 1 → ∀ r, r < g.dnum →
      Gadget.val ((2 : Ks.R N) ^ g.base2k) g.size (Ks.keyPhase N sk g.toPMat i r)
        = (if bit then 1 else 0) * σ i * ((2 : Ks.R N) ^ g.base2k) ^ (g.size - (r + 1) * g.dsize) + E i r)
    (hcov1 : rs ≤ g.size) (hcov2 : rs ≤ g.dnum * g.dsize)
    (hsk : g.rank ≤ sk.length) (hσ0 : σ 0 = 1) (hσ : ∀ i, i < g.rank → σ (i + 1) = Ks.ι N (sk.getD i [])) :
    ∃ res, cmux big128 N g.base2k rs t f g res0 tmp0 = .ok res ∧ C02L.GWF N (Ks.mkCt g.base2k N res) ∧
      (∀ c ∈ res, ∀ l ∈ c, ∀ x ∈ l, |x| ≤ 2 ^ g.base2k - 1) ∧
      ∃ En Q : Poly, En.length = N ∧ Q.length = N ∧
        normInf En ≤ (1 + C02L.snorm (min g.rank sk.length) sk) * C02.normTol (g.base2k * rs) (g.base2k * g.size) ∧
        (2 : Ks.R N) ^ (g.base2k * g.size) * Ks.ι N (C02L.valP g.base2k N (Core.Ops.phase sk (Ks.mkCt g.base2k N res)))
          = (2 : Ks.R N) ^ (g.base2k * g.size) * Ks.ι N (C02L.valP g.base2k N (Core.Ops.phase sk (Ks.mkCt g.base2k N (if bit then t else f))))
            + (2 : Ks.R N) ^ (g.base2k * rs) * epErr N sk (glweSubSameRank N rs t f) g ((2 : Ks.R N) ^ g.base2k) E
            + Ks.ι N En + (2 : Ks.R N) ^ (g.base2k * rs + g.base2k * g.size) * Ks.ι N Q := by
  obtain ⟨htl, htw⟩ := wf_of_shapeOk N _ _ t hts
  obtain ⟨hfl, hfw⟩ := wf_of_shapeOk N _ _ f hfs
  have hH62 : Hin < 2 ^ 62 := by linarith
  have h0t : 0 < t.length := by omega
  have h0f : 0 < f.length := by omega
  have ht0 : (t.getD 0 []).length = rs := by
    rw [List.getD_eq_getElem?_getD, List.getElem?_eq_getElem h0t]; exact (htw _ (List.getElem_mem h0t)).1
  have hf0 : (f.getD 0 []).length = rs := by
    rw [List.getD_eq_getElem?_getD, List.getElem?_eq_getElem h0f]; exact (hfw _ (List.getElem_mem h0f)).1
  have hg : (g.n == N && g.wf && g.base2k == g.base2k && shapeOk N (g.rank + 1) (t.getD 0 []).length t
       && shapeOk N (g.rank + 1) (f.getD 0 []).length f) = true := by
    rw [ht0, hf0]; simp [hgn, hgw, hts, hfs]
  -- the difference
  have hdeq := glweSub_exact N rs t f Hin hH62 (by rw [htl, hfl]) htw hfw htb hfb
  rw [htl] at hdeq
  have hdget : ∀ i, i < g.rank + 1 → C02L.ColWF N rs (C02L.colAdd (t.getD i []) ((f.getD i []).map polyNeg)) ∧
      ∀ l ∈ C02L.colAdd (t.getD i []) ((f.getD i []).map polyNeg), ∀ x ∈ l, |x| ≤ Hin + Hin := by
    intro i hi
    have hit : i < t.length := by omega
    have hif : i < f.length := by omega
    have e1 : t.getD i [] = t[i] := by simp [List.getD_eq_getElem?_getD, List.getElem?_eq_getElem hit]
    have e2 : f.getD i [] = f[i] := by simp [List.getD_eq_getElem?_getD, List.getElem?_eq_getElem hif]
    rw [e1, e2]
    exact ⟨C02L.colAdd_wf (htw _ (List.getElem_mem hit)) (neg_col_wf (hfw _ (List.getElem_mem hif))),
      colAdd_bound _ _ Hin Hin (htb _ (List.getElem_mem hit)) (neg_col_bound _ Hin (hfb _ (List.getElem_mem hif)))⟩
  have hdw : ∀ c ∈ glweSubSameRank N rs t f, C02L.ColWF N rs c := by
    rw [hdeq]; intro c hc
    obtain ⟨i, hi, rfl⟩ := List.mem_map.mp hc
    exact (hdget i (List.mem_range.mp hi)).1
  have hdb : ∀ c ∈ glweSubSameRank N rs t f, ∀ l ∈ c, ∀ x ∈ l, |x| ≤ Hin + Hin := by
    rw [hdeq]; intro c hc
    obtain ⟨i, hi, rfl⟩ := List.mem_map.mp hc
    exact (hdget i (List.mem_range.mp hi)).2
  have hdl : (glweSubSameRank N rs t f).length = g.rank + 1 := by rw [hdeq]; simp
  have hd0 : ((glweSubSameRank N rs t f).getD 0 []).length = rs := by
    have h0' : 0 < (glweSubSameRank N rs t f).length := by rw [hdl]; omega
    rw [List.getD_eq_getElem?_getD, List.getElem?_eq_getElem h0']; exact (hdw _ (List.getElem_mem h0')).1
  have haD : shapeOk g.n (g.rank + 1) ((glweSubSameRank N rs t f).getD 0 []).length (glweSubSameRank N rs t f) = true := by
    rw [hgn, hd0]
    unfold shapeOk
    simp only [Bool.and_eq_true, beq_iff_eq, List.all_eq_true]
    exact ⟨hdl, fun c hc => ⟨(hdw c hc).1, fun l hl => (hdw c hc).2 l hl⟩⟩
  have hPb := ep_headroom N (glweSubSameRank N rs t f) g res0 tmp0 (Hin + Hin) Dm (by linarith) hDm hd hgn haD h0 ht hdb hgd
  unfold prodAdmissible at hadm
  obtain ⟨res, hres, hgwf, hdig, En, Q, hE, hQ, hnm, heq⟩ := cmux_decrypts big128 g.base2k rs t f g res0 tmp0 sk
    (prodBound g.dsize (g.rank + 1) g.dnum N (Hin + Hin) Dm) Hin hg hgb1 hgb (prodBound_nonneg _ _ _ _ _ _ (by linarith) hDm) hH0 hadm hPb hfb
    (if bit then 1 else 0) σ E hd hN hgn haD h0 ht hM hS hkey
  refine ⟨res, hres, hgwf, hdig, En, Q, hE, hQ, hnm, ?_⟩
  -- values
  have hcov := ep_covered_value N hN (glweSubSameRank N rs t f) g sk σ rs hdl hdw hd hcov1 hcov2 hsk hσ0 hσ
  have hsub := ι_valP_phase_sub N hN g.base2k rs sk g.rank t f htl hfl htw hfw
  rw [← hdeq] at hsub
  have hfne : f ≠ [] := by intro h; rw [h] at hfl; simp at hfl
  have hfit := ι_valP_phase_fit N hN g.base2k rs g.size sk f hfne hfw hcov1
  rw [hfl] at hfit
  unfold epValue at heq
  unfold epErr
  rw [hcov, hsub, hfit] at heq
  have hpow : (2 : Ks.R N) ^ (g.base2k * rs) * ((2 : Ks.R N) ^ g.base2k) ^ (g.size - rs) = (2 : Ks.R N) ^ (g.base2k * g.size) := by
    rw [← pow_mul, ← pow_add]
    congr 1
    rw [← Nat.mul_add]; congr 1; omega
  cases bit with
  | true =>
    simp only [if_true, one_mul] at heq ⊢
    linear_combination heq + (Ks.ι N (C02L.valP g.base2k N (Core.Ops.phase sk (Ks.mkCt g.base2k N t)))) * hpow
  | false =>
    simp only [Bool.false_eq_true, if_false, zero_mul, zero_add] at heq ⊢
    linear_combination heq + (Ks.ι N (C02L.valP g.base2k N (Core.Ops.phase sk (Ks.mkCt g.base2k N f)))) * hpow

/-- `bit = 1` on the `dsize = 3` GGSW `staleG`, NTT120 accumulator, every hypothesis discharged -/
example : ∃ res, cmux true 1 staleG.base2k 3 ([[[1], [2], [3]], [[0], [1], [0]]] : List Col) ([[[0], [0], [1]], [[0], [0], [0]]] : List Col) staleG (zeroCols 1 2 4) (zeroCols 1 2 4) = .ok res ∧
    C02L.GWF 1 (Ks.mkCt staleG.base2k 1 res) := by
  obtain ⟨res, h1, h2, _⟩ := cmux_selects_with_noise (N := 1) true 3 ([[[1], [2], [3]], [[0], [1], [0]]] : List Col) ([[[0], [0], [1]], [[0], [0], [0]]] : List Col) staleG (zeroCols 1 2 4) (zeroCols 1 2 4) [[1]] true 3 1
    rfl (by decide) (by decide) (by decide) (by decide) (by decide) (by decide) (by decide) (by decide) (by decide) (by decide)
    (by decide) (by decide)
    (fun i => if i = 0 then 1 else Ks.ι 1 [1])
    (fun i r => Gadget.val ((2 : Ks.R 1) ^ staleG.base2k) staleG.size (Ks.keyPhase 1 [[1]] staleG.toPMat i r)
      - (if true then 1 else 0) * (if i = 0 then 1 else Ks.ι 1 [1]) * ((2 : Ks.R 1) ^ staleG.base2k) ^ (staleG.size - (r + 1) * staleG.dsize))
    (by decide) (by decide) (by decide) (by decide) (by decide) (Ks.entry_length staleG.toPMat 1 rfl (by decide)) (by decide)
    (by intro i _ r _; exact (add_sub_cancel _ _).symm)
    (by decide) (by decide) (by decide) rfl
    (by intro i hi; have h0 : i = 0 := by
          have : i < 1 := hi
          omega
        subst h0; rfl)
  exact ⟨res, h1, h2⟩

/-- **`cswap_swaps_with_noise`** — `Cswap::cswap(res_a, res_b, s)` stated on the INPUTS `(res_a, res_b, bit)`: both accumulator widths, every
`dsize`, rank and limb count `rs ≤ min(size, dnum·dsize)`.  If the GGSW encrypts the bit, `res_a'` decrypts to `if bit then res_b else res_a` and
`res_b'` to `if bit then res_a else res_b`, each plus `±2^{b·rs}·epErr` (the gadget error of `d = res_b − res_a`, opposite signs) and its own
rounding `‖En‖_∞ ≤ (1+Σ‖s_i‖₁)·normTol`. -/
theorem cswap_swaps_with_noise {N : Nat} (big128 : Bool) (rs : Nat) (ra rbb : List Col) (g : EpGGSW) (res0 tmp0 : List Col) (sk : List Poly)
    (bit : Bool) (Hin Dm : Int)
    (hgn : g.n = N) (hgw : g.wf = true) (has : shapeOk N (g.rank + 1) rs ra = true) (hbs : shapeOk N (g.rank + 1) rs rbb = true)
    (hgb1 : 1 ≤ g.base2k) (hgb : g.base2k ≤ 62)
    (hH0 : 0 ≤ Hin) (hH : 2 * Hin < 2 ^ 62) (hDm : 0 ≤ Dm)
    (hab : ∀ c ∈ ra, ∀ l ∈ c, ∀ x ∈ l, |x| ≤ Hin) (hbb : ∀ c ∈ rbb, ∀ l ∈ c, ∀ x ∈ l, |x| ≤ Hin)
    (hadm : prodAdmissible (bitsOf big128) g.dsize (g.rank + 1) g.dnum N (Hin + Hin) Dm Hin)
    (hgd : ∀ row ∈ g.cells, ∀ c ∈ row, ∀ l ∈ c, ∀ x ∈ l, |x| ≤ Dm)
    (σ : ℕ → Ks.R N) (E : ℕ → ℕ → Ks.R N)
    (hd : 1 ≤ g.dsize) (hN : 0 < N) (h1rs : 1 ≤ rs)
    (h0 : shapeOk g.n (g.rank + 1) g.size res0 = true) (ht : shapeOk g.n (g.rank + 1) g.size tmp0 = true)
    (hM : ∀ j q, (g.toPMat.entry j q).length = N) (hS : g.dnum * g.dsize ≤ g.size)
    (hkey : ∀ i, i < g.rank + 1 → ∀ r, r < g.dnum →
      Gadget.val ((2 : Ks.R N) ^ g.base2k) g.size (Ks.keyPhase N sk g.toPMat i r)
        = (if bit then 1 else 0) * σ i * ((2 : Ks.R N) ^ g.base2k) ^ (g.size - (r + 1) * g.dsize) + E i r)
    (hcov1 : rs ≤ g.size) (hcov2 : rs ≤ g.dnum * g.dsize)
    (hsk : g.rank ≤ sk.length) (hσ0 : σ 0 = 1) (hσ : ∀ i, i < g.rank → σ (i + 1) = Ks.ι N (sk.getD i [])) :
    ∃ xa xb, cswap big128 N g.base2k ra rbb g res0 tmp0 = .ok (xa, xb) ∧
      C02L.GWF N (Ks.mkCt g.base2k N xa) ∧ C02L.GWF N (Ks.mkCt g.base2k N xb) ∧
      (∃ En Q : Poly, En.length = N ∧ Q.length = N ∧
        normInf En ≤ (1 + C02L.snorm (min g.rank sk.length) sk) * C02.normTol (g.base2k * rs) (g.base2k * g.size) ∧
        (2 : Ks.R N) ^ (g.base2k * g.size) * Ks.ι N (C02L.valP g.base2k N (Core.Ops.phase sk (Ks.mkCt g.base2k N xa)))
          = (2 : Ks.R N) ^ (g.base2k * g.size) * Ks.ι N (C02L.valP g.base2k N (Core.Ops.phase sk (Ks.mkCt g.base2k N (if bit then rbb else ra))))
            + (2 : Ks.R N) ^ (g.base2k * rs) * epErr N sk (glweSubSameRank N rs rbb ra) g ((2 : Ks.R N) ^ g.base2k) E
            + Ks.ι N En + (2 : Ks.R N) ^ (g.base2k * rs + g.base2k * g.size) * Ks.ι N Q) ∧
      (∃ En Q : Poly, En.length = N ∧ Q.length = N ∧
        normInf En ≤ (1 + C02L.snorm (min g.rank sk.length) sk) * C02.normTol (g.base2k * rs) (g.base2k * g.size) ∧
        (2 : Ks.R N) ^ (g.base2k * g.size) * Ks.ι N (C02L.valP g.base2k N (Core.Ops.phase sk (Ks.mkCt g.base2k N xb)))
          = (2 : Ks.R N) ^ (g.base2k * g.size) * Ks.ι N (C02L.valP g.base2k N (Core.Ops.phase sk (Ks.mkCt g.base2k N (if bit then ra else rbb))))
            - (2 : Ks.R N) ^ (g.base2k * rs) * epErr N sk (glweSubSameRank N rs rbb ra) g ((2 : Ks.R N) ^ g.base2k) E
            + Ks.ι N En + (2 : Ks.R N) ^ (g.base2k * rs + g.base2k * g.size) * Ks.ι N Q) := by
  obtain ⟨hal, haw⟩ := wf_of_shapeOk N _ _ ra has
  obtain ⟨hbl, hbw⟩ := wf_of_shapeOk N _ _ rbb hbs
  have hH62 : Hin < 2 ^ 62 := by linarith
  have h0a : 0 < ra.length := by omega
  have h0b : 0 < rbb.length := by omega
  have ha0 : (ra.getD 0 []).length = rs := by
    rw [List.getD_eq_getElem?_getD, List.getElem?_eq_getElem h0a]; exact (haw _ (List.getElem_mem h0a)).1
  have hb0 : (rbb.getD 0 []).length = rs := by
    rw [List.getD_eq_getElem?_getD, List.getElem?_eq_getElem h0b]; exact (hbw _ (List.getElem_mem h0b)).1
  have hmax : max (ra.getD 0 []).length (rbb.getD 0 []).length = rs := by rw [ha0, hb0]; exact Nat.max_self _
  have hg : (g.n == N && g.wf && shapeOk N (g.rank + 1) (ra.getD 0 []).length ra && shapeOk N (g.rank + 1) (rbb.getD 0 []).length rbb) = true := by
    rw [ha0, hb0]; simp [hgn, hgw, has, hbs]
  -- the difference d = rbb − ra
  have hdeq := glweSub_exact N rs rbb ra Hin hH62 (by rw [hal, hbl]) hbw haw hbb hab
  rw [hbl] at hdeq
  have hdget : ∀ i, i < g.rank + 1 → C02L.ColWF N rs (C02L.colAdd (rbb.getD i []) ((ra.getD i []).map polyNeg)) ∧
      ∀ l ∈ C02L.colAdd (rbb.getD i []) ((ra.getD i []).map polyNeg), ∀ x ∈ l, |x| ≤ Hin + Hin := by
    intro i hi
    have hia : i < ra.length := by omega
    have hib : i < rbb.length := by omega
    have e1 : rbb.getD i [] = rbb[i] := by simp [List.getD_eq_getElem?_getD, List.getElem?_eq_getElem hib]
    have e2 : ra.getD i [] = ra[i] := by simp [List.getD_eq_getElem?_getD, List.getElem?_eq_getElem hia]
    rw [e1, e2]
    exact ⟨C02L.colAdd_wf (hbw _ (List.getElem_mem hib)) (neg_col_wf (haw _ (List.getElem_mem hia))),
      colAdd_bound _ _ Hin Hin (hbb _ (List.getElem_mem hib)) (neg_col_bound _ Hin (hab _ (List.getElem_mem hia)))⟩
  have hdw : ∀ c ∈ glweSubSameRank N rs rbb ra, C02L.ColWF N rs c := by
    rw [hdeq]; intro c hc
    obtain ⟨i, hi, rfl⟩ := List.mem_map.mp hc
    exact (hdget i (List.mem_range.mp hi)).1
  have hdb : ∀ c ∈ glweSubSameRank N rs rbb ra, ∀ l ∈ c, ∀ x ∈ l, |x| ≤ Hin + Hin := by
    rw [hdeq]; intro c hc
    obtain ⟨i, hi, rfl⟩ := List.mem_map.mp hc
    exact (hdget i (List.mem_range.mp hi)).2
  have hdl : (glweSubSameRank N rs rbb ra).length = g.rank + 1 := by rw [hdeq]; simp
  have hd0 : ((glweSubSameRank N rs rbb ra).getD 0 []).length = rs := by
    have h0' : 0 < (glweSubSameRank N rs rbb ra).length := by rw [hdl]; omega
    rw [List.getD_eq_getElem?_getD, List.getElem?_eq_getElem h0']; exact (hdw _ (List.getElem_mem h0')).1
  have haD : shapeOk g.n (g.rank + 1) ((glweSubSameRank N rs rbb ra).getD 0 []).length (glweSubSameRank N rs rbb ra) = true := by
    rw [hgn, hd0]
    unfold shapeOk
    simp only [Bool.and_eq_true, beq_iff_eq, List.all_eq_true]
    exact ⟨hdl, fun c hc => ⟨(hdw c hc).1, fun l hl => (hdw c hc).2 l hl⟩⟩
  have hPb := ep_headroom N (glweSubSameRank N rs rbb ra) g res0 tmp0 (Hin + Hin) Dm (by linarith) hDm hd hgn haD h0 ht hdb hgd
  unfold prodAdmissible at hadm
  obtain ⟨xa, xb, hcall, hwa, hwb, ⟨EnA, QA, hEA, hQA, hnA, heA⟩, ⟨EnB, QB, hEB, hQB, hnB, heB⟩⟩ := cswap_decrypts big128 g.base2k ra rbb g res0 tmp0 sk
    (prodBound g.dsize (g.rank + 1) g.dnum N (Hin + Hin) Dm) Hin hg rfl hgb1 hgb (prodBound_nonneg _ _ _ _ _ _ (by linarith) hDm) hH0 hadm
    (by rw [hmax]; exact hPb) hab hbb (if bit then 1 else 0) σ E hd hN hgn (by rw [hmax]; exact haD) h0 ht hM hS hkey
  rw [hmax] at heA heB
  rw [ha0] at heA hnA
  rw [hb0] at heB hnB
  have hcov := ep_covered_value N hN (glweSubSameRank N rs rbb ra) g sk σ rs hdl hdw hd hcov1 hcov2 hsk hσ0 hσ
  have hsub := ι_valP_phase_sub N hN g.base2k rs sk g.rank rbb ra hbl hal hbw haw
  rw [← hdeq] at hsub
  have hane : ra ≠ [] := by intro h; rw [h] at hal; simp at hal
  have hbne : rbb ≠ [] := by intro h; rw [h] at hbl; simp at hbl
  have hfita := ι_valP_phase_fit N hN g.base2k rs g.size sk ra hane haw hcov1
  have hfitb := ι_valP_phase_fit N hN g.base2k rs g.size sk rbb hbne hbw hcov1
  rw [hal] at hfita
  rw [hbl] at hfitb
  unfold epValue at heA heB
  rw [hcov, hsub, hfita] at heA
  rw [hcov, hsub, hfitb] at heB
  have hpow : (2 : Ks.R N) ^ (g.base2k * rs) * ((2 : Ks.R N) ^ g.base2k) ^ (g.size - rs) = (2 : Ks.R N) ^ (g.base2k * g.size) := by
    rw [← pow_mul, ← pow_add]
    congr 1
    rw [← Nat.mul_add]; congr 1; omega
  refine ⟨xa, xb, hcall, hwa, hwb, ⟨EnA, QA, hEA, hQA, hnA, ?_⟩, ⟨EnB, QB, hEB, hQB, hnB, ?_⟩⟩
  · unfold epErr
    cases bit with
    | true =>
      simp only [if_true, one_mul] at heA ⊢
      linear_combination heA + (Ks.ι N (C02L.valP g.base2k N (Core.Ops.phase sk (Ks.mkCt g.base2k N rbb)))) * hpow
    | false =>
      simp only [Bool.false_eq_true, if_false, zero_mul, zero_add] at heA ⊢
      linear_combination heA + (Ks.ι N (C02L.valP g.base2k N (Core.Ops.phase sk (Ks.mkCt g.base2k N ra)))) * hpow
  · unfold epErr
    cases bit with
    | true =>
      simp only [if_true, one_mul] at heB ⊢
      linear_combination heB + (Ks.ι N (C02L.valP g.base2k N (Core.Ops.phase sk (Ks.mkCt g.base2k N ra)))) * hpow
    | false =>
      simp only [Bool.false_eq_true, if_false, zero_mul, zero_add] at heB ⊢
      linear_combination heB + (Ks.ι N (C02L.valP g.base2k N (Core.Ops.phase sk (Ks.mkCt g.base2k N rbb)))) * hpow

example : ∃ xa xb, cswap true 1 staleG.base2k ([[[1], [2], [3]], [[0], [1], [0]]] : List Col) ([[[0], [0], [1]], [[0], [0], [0]]] : List Col) staleG (zeroCols 1 2 4) (zeroCols 1 2 4) = .ok (xa, xb) ∧
    C02L.GWF 1 (Ks.mkCt staleG.base2k 1 xa) ∧ C02L.GWF 1 (Ks.mkCt staleG.base2k 1 xb) := by
  obtain ⟨xa, xb, h1, h2, h3, _⟩ := cswap_swaps_with_noise (N := 1) true 3 ([[[1], [2], [3]], [[0], [1], [0]]] : List Col) ([[[0], [0], [1]], [[0], [0], [0]]] : List Col) staleG (zeroCols 1 2 4) (zeroCols 1 2 4) [[1]] false 3 1
    rfl (by decide) (by decide) (by decide) (by decide) (by decide) (by decide) (by decide) (by decide) (by decide) (by decide)
    (by decide) (by decide)
    (fun i => if i = 0 then 1 else Ks.ι 1 [1])
    (fun i r => Gadget.val ((2 : Ks.R 1) ^ staleG.base2k) staleG.size (Ks.keyPhase 1 [[1]] staleG.toPMat i r)
      - (if false then 1 else 0) * (if i = 0 then 1 else Ks.ι 1 [1]) * ((2 : Ks.R 1) ^ staleG.base2k) ^ (staleG.size - (r + 1) * staleG.dsize))
    (by decide) (by decide) (by decide) (by decide) (by decide) (Ks.entry_length staleG.toPMat 1 rfl (by decide)) (by decide)
    (by intro i _ r _; exact (add_sub_cancel _ _).symm)
    (by decide) (by decide) (by decide) rfl
    (by intro i hi; have h0 : i = 0 := by
          have : i < 1 := hi
          omega
        subst h0; rfl)
  exact ⟨xa, xb, h1, h2, h3⟩

end C04
