import Poulpy.Lemmas.NoiseAlg
import Poulpy.Model.NoiseBounds
import Poulpy.Props.C13Kernel
import Poulpy.Lemmas.CmuxMachine
import Poulpy.Lemmas.WordExec
/-
C15 (with C13) — NOISE through the BDD evaluation, the word operations and re-preparation.

`Lemmas/NoiseAlg.lean` proves, over abstract ciphertext machines whose primitive operations carry the contracts of C03 / C04:
`bdd_eval_noise` (a chain of CMux: error `≤ L·Bc`), `word_op_correct` (packed result decrypts to the circuit's bits when
`2·(L·Bc + Bp) < Δ`), `reprepare_noise_fixpoint` (the re-prepared result is prepared again: no growth across rounds), `cbt_cell_error`.
Here they are combined with C13's KERNEL-ONLY per-bit theorems (`C13Kernel.*_correct`: no `bv_decide` axiom enters) for the eleven
word operations, with the depths read off the regenerated tables, and the numeric conditions are evaluated (`decide`) on
`Model/NoiseBounds.lean` for the crate's parameter set.

Contracts that remain hypotheses (fields of the machines): **CmuxCoeffContract** (`BddMachine.cmux_spec`: the `∞`-norm of the error
term of `C04.cmux_decrypts`' identity — C04 exposes the identity with the symbolic error `epValue`, not yet its coefficient bound),
**PackCoeffContract** (`WordMachine.pack_spec`: `C03.pack_executed_value` + the noisy trace contract of `C03.glwe_trace_decrypts`),
**CbtContract** (`PrepMachine.reprep_spec`: composition of `C03.glwe_to_lwe_decrypts`, `C14.index_error` + `Noise.index_lands`,
`C14.blind_rotation_noise`, `C03.glwe_trace_decrypts`, `C04.expand_cell_decrypts`; the first is unconditional with `ksBound`, the
others need the same coefficient reading).
-/

namespace C15Noise
open Noise U32

variable {R : Type} [CommRing R] {S : Size R} {C G : Type}

/-- **`bdd_eval_noise`** (restated): any table, any depth. -/
theorem bdd_eval_noise (m : BddMachine R S C G) (nIn w : Nat) (nodes : List Node) (inpB : Nat → Bool) (inpG : Nat → G)
    (hin : ∀ b, b < nIn → m.good (inpG b) ∧ m.bit (inpG b) = inpB b) (v : Bool) (h : evalFlat nIn w nodes inpB = some v) :
    ∃ c, m.evalFlatC nIn w nodes inpG = some c ∧ S.ν (m.ph c - m.enc v) ≤ (chunks w nodes).length * m.Bc :=
  m.bdd_eval_noise nIn w nodes inpB inpG hin v h

/-! ### depths of the compiled circuits (levels of the deepest per-bit circuit), from the regenerated tables -/

theorem depth_add : ∀ i, i < 32 → (chunks (Add.width i) (Add.flat i)).length ≤ 64 := by decide +kernel
theorem depth_sub : ∀ i, i < 32 → (chunks (Sub.width i) (Sub.flat i)).length ≤ 64 := by decide +kernel
theorem depth_sll : ∀ i, i < 32 → (chunks (Sll.width i) (Sll.flat i)).length ≤ 6 := by decide +kernel
theorem depth_srl : ∀ i, i < 32 → (chunks (Srl.width i) (Srl.flat i)).length ≤ 6 := by decide +kernel
theorem depth_sra : ∀ i, i < 32 → (chunks (Sra.width i) (Sra.flat i)).length ≤ 6 := by decide +kernel
theorem depth_slt : ∀ i, i < 32 → (chunks (Slt.width i) (Slt.flat i)).length ≤ 64 := by decide +kernel
theorem depth_sltu : ∀ i, i < 32 → (chunks (Sltu.width i) (Sltu.flat i)).length ≤ 64 := by decide +kernel
theorem depth_and : ∀ i, i < 32 → (chunks (And.width i) (And.flat i)).length ≤ 2 := by decide +kernel
theorem depth_or : ∀ i, i < 32 → (chunks (Or.width i) (Or.flat i)).length ≤ 2 := by decide +kernel
theorem depth_xor : ∀ i, i < 32 → (chunks (Xor.width i) (Xor.flat i)).length ≤ 2 := by decide +kernel
theorem depth_identity : ∀ i, i < 32 → (chunks (Identity.width i) (Identity.flat i)).length ≤ 1 := by decide +kernel

/-- the bits of a 0/1 word (`slt`, `sltu`: one circuit, the evaluator zero-fills bits 1..31) -/
def flagBit (f : Bool) (i : Nat) : Bool := decide (i = 0) && f

theorem flag_circ (nIn : Nat) (width : Nat → Nat) (flat : Nat → List Node) (inp : Nat → Bool) (f : Bool)
    (h0 : evalFlat nIn (width 0) (flat 0) inp = some f) (hw : ∀ i, 0 < i → width i = 0) (i : Nat) :
    evalFlat nIn (width i) (flat i) inp = some (flagBit f i) := by
  cases i with
  | zero => simpa [flagBit] using h0
  | succ k => simp [evalFlat, hw (k + 1) (by omega), flagBit]

/-- **`word_op_correct`** for the eleven word operations: prepared GGSWs of the bits of `a`, `b` (two-word numbering `inp2`), depth from the
tables, C13's kernel-only per-bit theorems; under `2·(L_op·Bc + Bp) < Δ` every decrypted bit is the bit of the `u32` operation, and
the slot error is `≤ L_op·Bc + Bp`. -/
theorem word_op_correct (m : WordMachine R S C G) (a b : BitVec 32) (g : Nat → G)
    (hin : ∀ k, k < 64 → m.good (g k) ∧ m.bit (g k) = inp2 a b k) (i : Nat) (hi : i < 32) :
    (2 * (64 * m.Bc + m.Bp) < m.Δ →
      m.decBit (m.slot (m.pack (m.outs 64 Add.width Add.flat g)) i) = (a + b).getLsbD i ∧
      m.decBit (m.slot (m.pack (m.outs 64 Sub.width Sub.flat g)) i) = (a - b).getLsbD i ∧
      m.decBit (m.slot (m.pack (m.outs 64 Slt.width Slt.flat g)) i) = flagBit (BitVec.slt a b) i ∧
      m.decBit (m.slot (m.pack (m.outs 64 Sltu.width Sltu.flat g)) i) = flagBit (BitVec.ult a b) i) ∧
    (2 * (6 * m.Bc + m.Bp) < m.Δ →
      m.decBit (m.slot (m.pack (m.outs 37 Sll.width Sll.flat g)) i) = (a <<< (b &&& 31#32)).getLsbD i ∧
      m.decBit (m.slot (m.pack (m.outs 37 Srl.width Srl.flat g)) i) = (a >>> (b &&& 31#32)).getLsbD i ∧
      m.decBit (m.slot (m.pack (m.outs 37 Sra.width Sra.flat g)) i) = (BitVec.sshiftRight' a (b &&& 31#32)).getLsbD i) ∧
    (2 * (2 * m.Bc + m.Bp) < m.Δ →
      m.decBit (m.slot (m.pack (m.outs 64 And.width And.flat g)) i) = (a &&& b).getLsbD i ∧
      m.decBit (m.slot (m.pack (m.outs 64 Or.width Or.flat g)) i) = (a ||| b).getLsbD i ∧
      m.decBit (m.slot (m.pack (m.outs 64 Xor.width Xor.flat g)) i) = (a ^^^ b).getLsbD i) := by
  refine ⟨fun h => ⟨?_, ?_, ?_, ?_⟩, fun h => ⟨?_, ?_, ?_⟩, fun h => ⟨?_, ?_, ?_⟩⟩
  · exact (m.word_op_correct 64 _ _ (inp2 a b) g hin _ (fun j hj => C13Kernel.add_correct j hj a b) 64 depth_add (by exact_mod_cast h) i hi).2
  · exact (m.word_op_correct 64 _ _ (inp2 a b) g hin _ (fun j hj => C13Kernel.sub_correct j hj a b) 64 depth_sub (by exact_mod_cast h) i hi).2
  · exact (m.word_op_correct 64 _ _ (inp2 a b) g hin _
      (fun j _ => flag_circ 64 Slt.width Slt.flat _ _ (C13Kernel.slt_correct a b) (fun k hk => by cases k with | zero => omega | succ _ => rfl) j)
      64 depth_slt (by exact_mod_cast h) i hi).2
  · exact (m.word_op_correct 64 _ _ (inp2 a b) g hin _
      (fun j _ => flag_circ 64 Sltu.width Sltu.flat _ _ (C13Kernel.sltu_correct a b) (fun k hk => by cases k with | zero => omega | succ _ => rfl) j)
      64 depth_sltu (by exact_mod_cast h) i hi).2
  · exact (m.word_op_correct 37 _ _ (inp2 a b) g (fun k hk => hin k (by omega)) _ (fun j hj => C13Kernel.sll_correct j hj a b) 6 depth_sll (by exact_mod_cast h) i hi).2
  · exact (m.word_op_correct 37 _ _ (inp2 a b) g (fun k hk => hin k (by omega)) _ (fun j hj => C13Kernel.srl_correct j hj a b) 6 depth_srl (by exact_mod_cast h) i hi).2
  · exact (m.word_op_correct 37 _ _ (inp2 a b) g (fun k hk => hin k (by omega)) _ (fun j hj => C13Kernel.sra_correct j hj a b) 6 depth_sra (by exact_mod_cast h) i hi).2
  · exact (m.word_op_correct 64 _ _ (inp2 a b) g hin _ (fun j hj => C13Kernel.and_correct j hj a b) 2 depth_and (by exact_mod_cast h) i hi).2
  · exact (m.word_op_correct 64 _ _ (inp2 a b) g hin _ (fun j hj => C13Kernel.or_correct j hj a b) 2 depth_or (by exact_mod_cast h) i hi).2
  · exact (m.word_op_correct 64 _ _ (inp2 a b) g hin _ (fun j hj => C13Kernel.xor_correct j hj a b) 2 depth_xor (by exact_mod_cast h) i hi).2

/-- `identity` (one-word evaluator, numbering `inp1`) -/
theorem identity_word_correct (m : WordMachine R S C G) (a : BitVec 32) (g : Nat → G)
    (hin : ∀ k, k < 32 → m.good (g k) ∧ m.bit (g k) = inp1 a k) (h : 2 * (1 * m.Bc + m.Bp) < m.Δ) (i : Nat) (hi : i < 32) :
    m.decBit (m.slot (m.pack (m.outs 32 Identity.width Identity.flat g)) i) = a.getLsbD i :=
  (m.word_op_correct 32 _ _ (inp1 a) g hin _ (fun j hj => C13Kernel.identity_correct j hj a) 1 depth_identity (by exact_mod_cast h) i hi).2

/-- **`reprepare_noise_fixpoint`** for the deepest operation (`add`; the other ten are the same statement with their tables and depths):
two prepared words; `64·Bc + Bp ≤ Bin` and `2·(64·Bc + Bp) < Δ`: the sum decrypts to `a + b` and its re-preparation is PREPARED
again on the same machine (same bounds) — the hypothesis of the theorem holds for the next round. -/
theorem add_reprepare_fixpoint (m : PrepMachine R S C G) (a b : BitVec 32) (ga gb : Nat → G)
    (ha : m.Prepared (fun k => a.getLsbD k) ga) (hb : m.Prepared (fun k => b.getLsbD k) gb)
    (hfix : 64 * m.Bc + m.Bp ≤ m.Bin) (hnum : 2 * (64 * m.Bc + m.Bp) < m.Δ) :
    let r := m.pack (m.toWordMachine.outs 64 Add.width Add.flat (PrepMachine.inp2G ga gb))
    (∀ i, i < 32 → m.toWordMachine.decBit (m.slot r i) = (a + b).getLsbD i) ∧
    m.Prepared (fun k => (a + b).getLsbD k) (m.reprep r) := by
  have hcirc : ∀ i, i < 32 → evalFlat 64 (Add.width i) (Add.flat i)
      (fun k => if k < 32 then (fun k => a.getLsbD k) k else (fun k => b.getLsbD k) (k - 32)) = some ((a + b).getLsbD i) :=
    fun i hi => C13Kernel.add_correct i hi a b
  exact m.reprepare_noise_fixpoint 64 (Nat.le_refl _) Add.width Add.flat _ _ ga gb ha hb (fun i => (a + b).getLsbD i) hcirc 64 depth_add
    (by exact_mod_cast hfix) (by exact_mod_cast hnum)

/-- `x ← x + b`, `rounds` times -/
def iterAdd : Nat → BitVec 32 → BitVec 32 → BitVec 32
  | 0, x, _ => x
  | n + 1, x, b => iterAdd n (x + b) b

/-- any number of rounds `x ← add(prepare(x), prepare(b))` (the harness' `reprep` pipeline): every round leaves a prepared word of the
`u32` sum — by induction with `add_reprepare_fixpoint`; the bounds of the machine never change. -/
theorem add_pipeline_invariant (m : PrepMachine R S C G) (b : BitVec 32) (gb : Nat → G) (hb : m.Prepared (fun k => b.getLsbD k) gb)
    (hfix : 64 * m.Bc + m.Bp ≤ m.Bin) (hnum : 2 * (64 * m.Bc + m.Bp) < m.Δ) :
    ∀ (rounds : Nat) (x : BitVec 32) (gx : Nat → G), m.Prepared (fun k => x.getLsbD k) gx →
      ∃ gy, m.Prepared (fun k => (iterAdd rounds x b).getLsbD k) gy := by
  intro rounds
  induction rounds with
  | zero => intro x gx hx; exact ⟨gx, hx⟩
  | succ n ih =>
    intro x gx hx
    obtain ⟨_, h2⟩ := add_reprepare_fixpoint m x b gx gb hx hb hfix hnum
    exact ih (x + b) _ h2

/-! ### the CMux / external-product contracts as THEOREMS, and the BDD evaluation on the executed CMux

`Lemmas/EpCoeff.lean`: `epErr_list` reads the symbolic error of C04 (`epErr = Σ_i(Σ_r digit·E − dropped − β^S·head)`) through `EpGGSW.toKey` as the
class of C03's explicit list `Ks.errL` (`‖errL‖_∞ ≤ Σ‖digit‖₁·‖EL‖_∞`, `Hal.normInf_errL_le_of_bounds`) minus a multiple of `β^S` (for `dsize ≤ 2`
nothing is dropped; key errors `E i r = ι(EL i r) + β^S·K i r`, the form `C01.key_hypothesis_ep` produces); `cmux_coeff` / `ep_coeff` read
`C04.cmux_selects_with_noise` / `C04.ep_decrypts_any_radix` at every coefficient (`KsDec.ring_to_coeff`) with the explicit bounds
`cmuxErrBound` / `epErrBound`.  `Lemmas/CmuxMachine.lean` instantiates `Noise.BddMachine` on the executed `Core.cmux`
(`machine`: phases = coefficient vectors of values, error measure = largest centred residue modulo `2^(b·rs+b·S)`, `Lemmas/ModSize.lean`),
so `bdd_eval_noise` holds with NO contract hypothesis. -/

/-- **CmuxCoeffContract is a theorem** (`EpCoeff.cmux_coeff`, restated on the machine): the executed CMux on a good prepared bit and two
well-formed ciphertexts returns a well-formed ciphertext within `Par.errBound` of the selected operand —
`errBound = 2^(b·rs)·(rank+1)·dnum·(Σ_{di<dsize} 2^(b·di))·N·2·(2^b−1)·BE + (1+Σ‖s_i‖₁)·normTol(b·rs, b·S)`, an explicit function of
`(N, base2k, dnum, dsize, rank, limb counts, secret weight, key error BE)`. -/
theorem cmux_contract (p : CmuxMachine.Par) (hp : p.ok) (x : CmuxMachine.GBit p.N) (t f : List Col)
    (hx : CmuxMachine.Good p x) (ht : CmuxMachine.WfC p t) (hf : CmuxMachine.WfC p f) :
    CmuxMachine.WfC p (CmuxMachine.cmuxC p x t f) ∧
    (modSize p.modulus p.N).ν (CmuxMachine.ph p (CmuxMachine.cmuxC p x t f) -
      (bitR x.bit * (CmuxMachine.ph p t - CmuxMachine.ph p f) + CmuxMachine.ph p f)) ≤ p.errBound :=
  CmuxMachine.cmuxC_spec p hp x t f hx ht hf

/-- **`bdd_eval_noise`, executed, no contract**: any table, any depth; inputs good prepared bits (key well-formedness only — from
`C01.ggsw_encrypt_sk_wellformed` / `blind_rotation_key_encrypt_sk_wellformed` by `CmuxMachine.good_of_wellformed`). -/
theorem bdd_eval_noise_executed (p : CmuxMachine.Par) (hp : p.ok) (one zero : List Col)
    (h1 : CmuxMachine.WfC p one) (h0 : CmuxMachine.WfC p zero)
    (nIn w : Nat) (nodes : List Node) (inpB : Nat → Bool) (inpG : Nat → CmuxMachine.GBit p.N)
    (hin : ∀ b, b < nIn → CmuxMachine.Good p (inpG b) ∧ (inpG b).bit = inpB b) (v : Bool) (h : evalFlat nIn w nodes inpB = some v) :
    ∃ c, (CmuxMachine.machine p hp one zero h1 h0).evalFlatC nIn w nodes inpG = some c ∧
      ∀ k, k < p.N → ∃ e q : ℤ,
        2 ^ (p.b * p.S) * Core.valCoeff p.b (Core.Ops.phase p.sk (Ks.mkCt p.b p.N c)) k
          = 2 ^ (p.b * p.S) * Core.valCoeff p.b (Core.Ops.phase p.sk (Ks.mkCt p.b p.N (if v then one else zero))) k
            + e + 2 ^ (p.b * p.rs + p.b * p.S) * q ∧
        |e| ≤ (chunks w nodes).length * p.errBound :=
  CmuxMachine.bdd_eval_noise_executed p hp one zero h1 h0 nIn w nodes inpB inpG hin v h

/-- **the bit ciphertexts of the word operations, executed, no contract** (the part of `word_op_correct` before packing): for `add` (depth 64; the
other ten operations: the same statement with their table, `C13Kernel.*_correct` and `depth_*`), bit `i` of the result is a ciphertext whose value at
every coefficient is that of the trivial encryption of `(a + b)_i` up to `64·errBound`. -/
theorem add_bits_noise_executed (p : CmuxMachine.Par) (hp : p.ok) (one zero : List Col)
    (h1 : CmuxMachine.WfC p one) (h0 : CmuxMachine.WfC p zero) (a b : BitVec 32) (g : Nat → CmuxMachine.GBit p.N)
    (hin : ∀ k, k < 64 → CmuxMachine.Good p (g k) ∧ (g k).bit = inp2 a b k) (i : Nat) (hi : i < 32) :
    ∃ c, (CmuxMachine.machine p hp one zero h1 h0).evalFlatC 64 (Add.width i) (Add.flat i) g = some c ∧
      ∀ k, k < p.N → ∃ e q : ℤ,
        2 ^ (p.b * p.S) * Core.valCoeff p.b (Core.Ops.phase p.sk (Ks.mkCt p.b p.N c)) k
          = 2 ^ (p.b * p.S) * Core.valCoeff p.b (Core.Ops.phase p.sk (Ks.mkCt p.b p.N (if (a + b).getLsbD i then one else zero))) k
            + e + 2 ^ (p.b * p.rs + p.b * p.S) * q ∧
        |e| ≤ 64 * p.errBound := by
  obtain ⟨c, hc, hb⟩ := CmuxMachine.bdd_eval_noise_executed p hp one zero h1 h0 64 (Add.width i) (Add.flat i) (inp2 a b) g hin _
    (C13Kernel.add_correct i hi a b)
  refine ⟨c, hc, fun k hk => ?_⟩
  obtain ⟨e, q, he, hbd⟩ := hb k hk
  refine ⟨e, q, he, le_trans hbd ?_⟩
  exact mul_le_mul_of_nonneg_right (by exact_mod_cast depth_add i hi) (p.errBound_nonneg hp.2.2.2.2.2.2.2.2.2.2.2.1)

/-- **EpCoeffContract is a theorem** (`EpCoeff.ep_coeff`): `glwe_external_product` — the product `execute_standard` of the blind rotation performs per
key bit — at every coefficient, with the explicit bound `EpCoeff.epErrBound`; the block-binary loops use the internal product, whose error is read the
same way (`EpCoeff.epErr_list` on `C04.ep_executed_identity`). -/
theorem ep_contract {N : Nat} (big128 : Bool) (rb rs ab : Nat) (a : List Col) (g : Core.EpGGSW) (sk : List Poly) (bit : Bool)
    (Hin Da Dm BE : Int)
    (hg : (g.n == N && g.wf && Core.shapeOk N (g.rank + 1) (a.getD 0 []).length a) = true)
    (hrb1 : 1 ≤ rb) (hrb : rb ≤ 62) (hab1 : 1 ≤ ab) (hab : ab ≤ 62) (hgb1 : 1 ≤ g.base2k) (hgb : g.base2k ≤ 62)
    (hH0 : 0 ≤ Hin) (hH : Hin + 8 ≤ 2 ^ 62) (hb : ∀ c ∈ a, ∀ l ∈ c, ∀ x ∈ l, |x| ≤ Hin)
    (hDa : if ab = g.base2k then Hin ≤ Da else 2 ^ g.base2k - 1 ≤ Da) (hDm : 0 ≤ Dm)
    (hadm : Core.prodAdmissible (KsDec.bitsOf big128) g.dsize (g.rank + 1) g.dnum N Da Dm 0)
    (hgd : ∀ row ∈ g.cells, ∀ c ∈ row, ∀ l ∈ c, ∀ x ∈ l, |x| ≤ Dm)
    (σ : ℕ → Ks.R N) (EL : ℕ → ℕ → Poly) (K : ℕ → ℕ → Ks.R N) (hEL : ∀ i r, (EL i r).length = N)
    (hBE : ∀ i r, Hal.normInf (EL i r) ≤ BE)
    (hd : 1 ≤ g.dsize) (hd2 : g.dsize ≤ 2) (hN : 0 < N) (hn : g.n = N)
    (hM : ∀ j q, (g.toPMat.entry j q).length = N) (hS : g.dnum * g.dsize ≤ g.size)
    (hkey : ∀ i, i < g.rank + 1 → ∀ r, r < g.dnum →
      Gadget.val ((2 : Ks.R N) ^ g.base2k) g.size (Ks.keyPhase N sk g.toPMat i r)
        = (((if bit then 1 else 0 : Int) : Int) : Ks.R N) * σ i * ((2 : Ks.R N) ^ g.base2k) ^ (g.size - (r + 1) * g.dsize)
          + (Ks.ι N (EL i r) + ((2 : Ks.R N) ^ g.base2k) ^ g.size * K i r))
    (hcov1 : Core.epConvSize (a.getD 0 []).length ab g.base2k ≤ g.size)
    (hcov2 : Core.epConvSize (a.getD 0 []).length ab g.base2k ≤ g.dnum * g.dsize)
    (hsk : g.rank ≤ sk.length) (hσ0 : σ 0 = 1) (hσ : ∀ i, i < g.rank → σ (i + 1) = Ks.ι N (sk.getD i [])) :
    ∃ res, Core.glweExternalProduct big128 N rb rs a ab g = .ok res ∧
      ∀ k, k < N → ∃ e q : Int,
        2 ^ (ab * (a.getD 0 []).length + g.base2k * g.size) * Core.valCoeff rb (Core.Ops.phase sk (Ks.mkCt rb N res)) k
          = 2 ^ (rb * rs + g.base2k * g.size) * (if bit then 1 else 0) * Core.valCoeff ab (Core.Ops.phase sk (Ks.mkCt ab N a)) k
            + e + 2 ^ (ab * (a.getD 0 []).length + rb * rs + g.base2k * g.size) * q ∧
        |e| ≤ EpCoeff.epErrBound N rb rs ab (a.getD 0 []).length g sk Da BE := by
  obtain ⟨res, h1, _, _, h4⟩ := EpCoeff.ep_coeff big128 rb rs ab a g sk bit Hin Da Dm BE hg hrb1 hrb hab1 hab hgb1 hgb hH0 hH hb hDa hDm hadm hgd
    σ EL K hEL hBE hd hd2 hN hn hM hS hkey hcov1 hcov2 hsk hσ0 hσ
  exact ⟨res, h1, h4⟩

/-! ### the packed word, executed: PackCoeffContract discharged by C03

`Lemmas/WordExec.lean`: `word_slot_executed` composes the coefficient reading of the bit ciphertext (the executed CMux chain) with
`C03.glwe_pack_decrypts_noise` (the executed `glwe_pack`; `C03.glwe_pack_slot_contract` is the same statement in the form of the abstract
`pack_spec`), through `slot_glue` and `KsDec.cmod_add_mul`.  Setting of C03's theorem: ciphertexts and automorphism keys in the SAME radix, keys with
`dsize = 1` (`C03.merge_key_ok_of_d1` gives `PackKeys` from the keys' own error bound).  -/

/-- **`word_op_correct` without the CMux and pack contracts** (slot form, `add`; the other operations: their table and depth): bit `i` of `a + b` is
evaluated by the executed chain of CMux (`CmuxMachine.machine`), the 32 results are packed by the executed `Ks.pack`; the decryptor's reading of the slot
of bit `i` (`KsDec.slotRead`) is the constant coefficient `m` of the trivial encryption of `(a+b)_i` up to `64·errBound/2^(b·S) + Bp`.  Hypotheses: good
prepared bits (C01), the keys of the packing (`PackKeys`: C03 `merge_key_ok_of_d1`), head-room, and the no-wrap inequality. -/
theorem add_word_slot_executed (p : CmuxMachine.Par) (hp : p.ok) (K : ℕ) (hNK : p.N = 2 ^ K) (hK : K + 1 ≤ 64)
    (one zero : List Col) (h1 : CmuxMachine.WfC p one) (h0 : CmuxMachine.WfC p zero) (a b : BitVec 32) (g : Nat → CmuxMachine.GBit p.N)
    (hin : ∀ k, k < 64 → CmuxMachine.Good p (g k) ∧ (g k).bit = inp2 a b k) (i : Nat) (hi : i < 32)
    (c : List Col) (hc : (CmuxMachine.machine p hp one zero h1 h0).evalFlatC 64 (Add.width i) (Add.flat i) g = some c)
    (big128 : Bool) (keys : List Ks.Key) (Sk : ℕ) (H : ℤ) (hH : 2 ^ p.b - 1 ≤ H) (hh2 : NormL.HeadRoom 64 p.b 0 (H + H))
    (BA : ℕ → ℤ) (hBA : ∀ j, 0 ≤ BA j) (hsk : Ks.AllLen (2 ^ K) p.sk)
    (hkeys : KsDec.PackKeys big128 K p.b p.rs Sk p.rank p.sk keys BA)
    (sm : Ks.SlotMap) (logGapOut : ℕ) (res : Ks.Ct) (hsm : ∀ j, KsDec.OptInv (2 ^ K) p.b p.rs p.rank H (sm.get j))
    (hpack : Ks.pack big128 (2 ^ K) p.b keys p.b p.rs sm logGapOut = .ok res) (Bp : ℤ)
    (hBp : ∑ l ∈ Finset.range (K - logGapOut), 2 ^ (K - logGapOut - 1 - l) * KsDec.mergeBeta p.b p.rs Sk p.rank p.sk (BA l)
          + 2 * ∑ t ∈ Finset.range (K - (K - logGapOut)),
              (KsDec.cc p.b p.rs Sk * (2 * (1 + C02L.snorm (min p.rank p.sk.length) p.sk)) + BA (K - logGapOut + t)) ≤ (2 * KsDec.cc p.b p.rs Sk) * Bp)
    (J : ℕ) (hJ : J < 2 ^ K) (hgap : J % 2 ^ (K - (K - logGapOut)) = 0) (hslot : sm.get J = some (Ks.mkCt p.b (2 ^ K) c))
    (hfit : 2 * (2 ^ (p.b * p.S) * (|Core.valCoeff p.b (Core.Ops.phase p.sk (Ks.mkCt p.b (2 ^ K) (if (a + b).getLsbD i then one else zero))) 0| + Bp)
      + 64 * p.errBound) < 2 ^ (p.b * p.S) * 2 ^ (p.b * p.rs)) :
    2 ^ (p.b * p.S) * |KsDec.slotRead p.b p.rs (2 ^ K) p.sk res J
        - Core.valCoeff p.b (Core.Ops.phase p.sk (Ks.mkCt p.b (2 ^ K) (if (a + b).getLsbD i then one else zero))) 0|
      ≤ 64 * p.errBound + 2 ^ (p.b * p.S) * Bp := by
  obtain ⟨c', hc', hb⟩ := add_bits_noise_executed p hp one zero h1 h0 a b g hin i hi
  have hcc : c' = c := by rw [hc] at hc'; injection hc' with h; exact h.symm
  subst hcc
  have hNpos : 0 < p.N := hp.1
  obtain ⟨e1, q1, he1, hb1⟩ := hb 0 hNpos
  rw [hNK] at he1
  have hv : ∀ col : Col, (C02L.valP p.b (2 ^ K) col).getD 0 0 = Core.valCoeff p.b col 0 := by
    intro col
    have : 0 < 2 ^ K := by positivity
    simp [C02L.valP, List.getD_eq_getElem?_getD, List.getElem?_map, List.getElem?_range this]
  apply WordExec.word_slot_executed big128 K hK keys p.sk p.b p.rs Sk p.rank p.S (by have := hp.2.2.1; omega) H hH hh2 BA hBA hsk hkeys sm logGapOut res
    hsm hpack Bp hBp J hJ hgap _ hslot _ (64 * p.errBound)
  · refine ⟨e1, q1, ?_, hb1⟩
    rw [hv]
    have e : (2 : ℤ) ^ (p.b * p.rs + p.b * p.S) = 2 ^ (p.b * p.S) * 2 ^ (p.b * p.rs) := by rw [pow_add]; ring
    rw [he1, e]
  · exact hfit

/-! ### the numeric conditions with the PROVED bound (`NoiseB.cmuxProved`), on the crate's test parameters

`TestContext`: `N = 256`, rank 2, GGSW of 2 rows, radix `2^13`, 39 bits (`S = 3` limbs), GLWEs of 26 bits (`rs = 2`), `dsize = 1`, ternary secret
(`‖s_i‖₁ ≤ 256`).  Units `2^-65`; `Δ = 2^-2`; the key error `BE` in units of `2^-39`: the measured key error of the circuit-bootstrapped GGSWs is
`≤ 2^-28.2`, i.e. `BE ≤ 1800`. -/

/-- **`word_ops_depth64_worst_case_exceeds`**: with the proved worst-case bound the condition `2·L·Bc < Δ` of `word_op_correct` does NOT hold for the
depth-64 operations (`add`, `sub`, `slt`, `sltu`) at the measured key error (`BE = 1800` units of `2^-39`, i.e. `2^-28.2`), nor at `2^-33`
(`BE = 64`); it holds from `BE ≤ 32`, i.e. a key error `≤ 2^-34`. -/
theorem word_ops_depth64_worst_case_exceeds :
    NoiseB.wordOkProved 256 2 2 1 13 2 3 256 1800 64 = false ∧ NoiseB.wordOkProved 256 2 2 1 13 2 3 256 64 64 = false ∧
    NoiseB.wordOkProved 256 2 2 1 13 2 3 256 32 64 = true := by decide

/-- … next to the ones that hold or fail at smaller depth: depth 1 (`identity`) holds at the measured key error; depth 2 (`and`, `or`, `xor`)
needs `BE ≤ 1024` (`2^-29`: fails at the measured `1800`, by less than one bit); depth 6 (shifters) needs `BE ≤ 256` (`2^-31`). -/
theorem word_ops_worst_case_by_depth :
    NoiseB.wordOkProved 256 2 2 1 13 2 3 256 1800 1 = true ∧
    NoiseB.wordOkProved 256 2 2 1 13 2 3 256 1800 2 = false ∧ NoiseB.wordOkProved 256 2 2 1 13 2 3 256 1024 2 = true ∧
    NoiseB.wordOkProved 256 2 2 1 13 2 3 256 1800 6 = false ∧ NoiseB.wordOkProved 256 2 2 1 13 2 3 256 256 6 = true := by decide

/-! ### circuit bootstrapping with noise -/

/-- **`cbt_gives_ggsw` with noise** (composition at phase level).  Row `i` of the bootstrapped GGSW is the trace (`T`: a projection that does not
increase the error — C03's `traceAbs`, noisy contract `glwe_trace_decrypts` with bound `Bt`) of the blind-rotation output (`BrMachine.exec_spec`),
and the cells of the columns `≥ 1` are `s_c·row + η` (`C04.expand_cell_decrypts`, `ν η ≤ Bx`; `ν(s_c·x) ≤ S1·ν x`, `S1 = ‖s_c‖₁`).  With
`msg = T(X^K·phase(acc₀))` (what `C15.cbt_rows_bit` / `cbt_exponent_rows` compute at plaintext level): the row is `msg` up to
`Ebr + Bt`, `Ebr = 2·n_lwe·B + q·U`, and every cell is `s_c·msg` up to `S1·(Ebr + Bt) + Bx` (`NoiseB.cbtErr`).  The bound depends on the errors of
the KEYS only (`B` from the bootstrapping key, `Bt` from the automorphism keys, `Bx` from the tensor key) — not on the input ciphertext. -/
theorem cbt_gives_ggsw_noise {M : Mono R S} {Cb Gb : Type} (m : BrMachine R S M Cb Gb) (hB : 0 ≤ m.B)
    (blocks : List (List (ℤ × Gb))) (acc : Cb) (hkey : ∀ blk ∈ blocks, OneHot (blk.map fun p => m.bit p.2))
    (T : R → R) (hTadd : ∀ x y, T (x + y) = T x + T y) (hTle : ∀ x, S.ν (T x) ≤ S.ν x)
    (row cell s : R) (Bt Bx S1 : ℤ) (hS1 : 0 ≤ S1) (hs : ∀ x, S.ν (s * x) ≤ S1 * S.ν x)
    (hrow : S.ν (row - T (m.ph (m.exec acc blocks))) ≤ Bt) (hcell : S.ν (cell - s * row) ≤ Bx) :
    let Ebr := 2 * (BrMachine.nBits blocks * m.B) + blocks.length * m.U
    let msg := T (M.X (m.totalRot blocks) * m.ph acc)
    S.ν (row - msg) ≤ Ebr + Bt ∧ S.ν (cell - s * msg) ≤ S1 * (Ebr + Bt) + Bx := by
  intro Ebr msg
  have h := m.exec_spec hB blocks acc hkey
  have hrowm : S.ν (row - msg) ≤ Ebr + Bt := by
    have e : row - msg = (row - T (m.ph (m.exec acc blocks))) + T (m.ph (m.exec acc blocks) - M.X (m.totalRot blocks) * m.ph acc) := by
      have : T (m.ph (m.exec acc blocks)) = T (M.X (m.totalRot blocks) * m.ph acc) + T (m.ph (m.exec acc blocks) - M.X (m.totalRot blocks) * m.ph acc) := by
        rw [← hTadd]; congr 1; ring
      rw [this]; ring
    rw [e]
    have h1 := S.add_le (row - T (m.ph (m.exec acc blocks))) (T (m.ph (m.exec acc blocks) - M.X (m.totalRot blocks) * m.ph acc))
    have h2 := hTle (m.ph (m.exec acc blocks) - M.X (m.totalRot blocks) * m.ph acc)
    linarith
  exact ⟨hrowm, cbt_cell_error row cell msg s Ebr Bt Bx S1 hS1 hs hrowm hcell⟩

/-! ### the numeric conditions on the crate's parameter set (worst-case bounds of `Model/NoiseBounds.lean`, units of `2^-64`) -/

/-- the GGSW the BDD layer evaluates on: `N = 256`, rank 2, 2 rows of radix `2^13`, on GLWEs of 26 bits (`TestContext`) -/
def testGgsw : NoiseB.Par := { n := 256, rank := 2, dnum := 2, b := 13, k := 26, hw := 256 }

/-- the same conditions through the closed formulas the driver evaluates (`NoiseB.cmuxBound`, units of `2^-64`; digit bounds as proved): at the measured
key error (`≤ 6·10^10` units `≈ 2^-28.2`) depth 1 passes, depth 2 and depth 64 do not; depth 64 passes from a key error of `2^30` units (`2^-34`) with a
pack error up to `2^57`. -/
theorem word_conditions_test_params :
    NoiseB.wordOk testGgsw 1 (6 * 10 ^ 10) 0 = true ∧ NoiseB.wordOk testGgsw 2 (6 * 10 ^ 10) 0 = false ∧
    NoiseB.wordOk testGgsw 64 (6 * 10 ^ 10) 0 = false ∧ NoiseB.wordOk testGgsw 64 (2 ^ 30) (2 ^ 57) = true := by decide

/-- the bootstrapping key of `TestContext` (4 rows of radix `2^12`, 52 bits) and its tensor key (radix `2^10`) -/
def testBrk : NoiseB.Par := { n := 256, rank := 2, dnum := 4, b := 12, k := 52, hw := 256 }
def testTsk : NoiseB.Par := { n := 256, rank := 2, dnum := 4, b := 10, k := 52, hw := 256 }

/-- The closed loop under WORST-CASE bounds on the crate's test parameters: the key error of a circuit-bootstrapped GGSW is bounded by
`NoiseB.cbtErr = hw·(blind + trace) + expand ≈ 2^55.2` units (`2^-8.8`; fresh key errors `20·2^-52`, `n_lwe = 77` in 11 blocks, 8 trace levels) —
the factor `hw = ‖s‖₁ ≤ 256` of the row expansion times the `2·n_lwe·‖digit‖₁` of the blind rotation — while the measured key error is `2^-28.6`
and stays there across rounds (evidence `noise_rounds`).  With that worst-case `E_cbt` the condition of `reprepare_noise_fixpoint` fails already at
depth 1; it needs `E_cbt ≤ 2^30` units for depth 64 (`word_conditions_test_params`).  So on these parameters the fixed point is PROVED as an
implication (`add_reprepare_fixpoint`) and its numeric premise is OBSERVED, not derived: the test parameters rely on the average case. -/
theorem fixpoint_condition_test_params :
    NoiseB.cbtErr testBrk 77 11 (20 * 2 ^ 12) (8 * (NoiseB.cmuxBound { testBrk with b := 11 } (20 * 2 ^ 12))) testTsk (20 * 2 ^ 12) < 2 ^ 56 ∧
    2 ^ 55 < NoiseB.cbtErr testBrk 77 11 (20 * 2 ^ 12) (8 * (NoiseB.cmuxBound { testBrk with b := 11 } (20 * 2 ^ 12))) testTsk (20 * 2 ^ 12) ∧
    NoiseB.wordOk testGgsw 1 (2 ^ 55) 0 = false := by decide

/-! ### non-vacuity -/

/-- non-vacuity: a toy instance of all three machines with a non-zero CMux error (phases in `ℤ`, a bit encoded as `0 / 16`, every CMux adds the
GGSW's own error `|η| ≤ 1`, re-preparation decodes the slot and returns a GGSW with a fresh error) -/
def toySize : Size ℤ := { ν := fun x => |x|, nonneg := abs_nonneg, zero := abs_zero, add_le := abs_add_le, neg := abs_neg }

def toyPrep : PrepMachine ℤ toySize (Nat → ℤ) (Bool × ℤ) where
  ph := fun c => c 0
  cmux := fun g t f => fun i => if i = 0 then bitR g.1 * (t 0 - f 0) + f 0 + g.2 else 0
  bit := fun g => g.1
  good := fun g => |g.2| ≤ 1
  Bc := 1
  hBc := by decide
  wfC := fun _ => True
  one_wf := trivial
  zero_wf := trivial
  cmux_spec := by
    intro g t f hg _ _
    refine ⟨trivial, ?_⟩
    show |(if (0:Nat) = 0 then bitR g.1 * (t 0 - f 0) + f 0 + g.2 else 0) - (bitR g.1 * (t 0 - f 0) + f 0)| ≤ 1
    simpa using hg
  enc := fun b => if b then 16 else 0
  one := fun i => if i = 0 then 16 else 0
  zero := fun _ => 0
  one_spec := by simp
  zero_spec := by simp
  K0 := { c0 := id, add := fun _ _ => rfl, le := fun _ => le_refl _ }
  Δ := 16
  hΔ := by decide
  enc_true := by simp
  enc_false := by simp
  pack := fun cs => fun i => cs i 0
  slot := fun c i => c i
  Bp := 0
  pack_spec := by intro cs i _; simp
  reprep := fun c k => (decide ((c k + 8) / 16 ≠ 0), 1)
  Bin := 7
  reprep_spec := by
    intro c w h k hk
    refine ⟨by show |(1:ℤ)| ≤ 1; decide, ?_⟩
    have := h k hk
    show decide ((c k + 8) / 16 ≠ 0) = w k
    have hb := abs_le.1 this
    cases hw : w k
    · simp only [hw, Bool.false_eq_true, if_false, zero_mul, sub_zero] at hb
      have : (c k + 8) / 16 = 0 := by omega
      simp [this]
    · simp only [hw, if_true, one_mul] at hb
      have : (c k + 8) / 16 = 1 := by omega
      simp [this]

/-- … on which the numeric conditions of the shallow operations hold (`2·(2·1 + 0) < 16`, `2·1 + 0 ≤ 7`), those of depth 64 do not -/
example : 2 * (2 * toyPrep.Bc + toyPrep.Bp) < toyPrep.Δ ∧ 2 * toyPrep.Bc + toyPrep.Bp ≤ toyPrep.Bin ∧
    ¬ (2 * (64 * toyPrep.Bc + toyPrep.Bp) < toyPrep.Δ) := by decide

end C15Noise
