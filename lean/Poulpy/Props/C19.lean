/-
C19 — seed-compressed objects expand to exactly what full encryption would produce.

Model: `Model/Core/Enc.lean` (one cell: `encryptSkStream`, `drawMasks`, `decompressGlwe`) and
`Model/Core/EncMat.lean` (matrices of cells: loop order, `branch()`, storage index).  A `Source` is
the list of raw words it delivers; `expand seed` is the stream of `Source::new(seed)` (ChaCha8 is a
parameter).  Every theorem holds for every `expand`, every plaintext column, rank, size, radix,
secret, stream and error — no head-room is needed: the statements are equalities of the two
computations, not of their values.

/- FULL STATEMENT (not proved as stated): "for every compressed layout, decompress ∘ encrypt_compressed
   = cell-wise standard encryption with the stored seeds".  Proved for the cell (`compressed_cell_eq`,
   any plaintext column — the GGSW case), for GLWE (`glwe_decompress_eq`) and for every matrix routine
   built on the shared loop (`compressed_cells_eq`: GGLWE, GGSW, and through them switching /
   automorphism / tensor keys, which call `gglwe_compressed_encrypt_sk` on the caller's object).
   The GGLWE→GGSW key (two levels of `branch()`) is reduced to the same loop by `g2g_subkeys_eq`
   (after the repairs of the two findings: seeds stored in the object, decompression implemented). -/
-/
import Poulpy.Lemmas.CoreCmp

namespace C19
open CoreEnc

/-! ### one cell -/

/-- **the masks drawn inside the encryption loop are exactly what `decompress_glwe` regenerates** from
the same stream: same column order, same limb order, same number of words consumed (any rank,
plaintext column, secret, accumulator) -/
theorem loop_masks_eq_drawMasks (bits b n size : Nat) (pt : Option (Col × Nat))
    (rank : Nat) (sk : List Poly) (i : Nat) (xa : List Nat) (c0 c' : Col) (ms : List Col) (xa' : List Nat)
    (h : Core.encSkLoopS bits b n size pt i sk rank xa c0 = some (c', ms, xa')) :
    Core.drawMasks b n size rank xa = some (ms, xa') :=
  CoreEnc.loop_masks_eq_drawMasks bits b n size pt rank sk i xa c0 c' ms xa' h

example : (Core.encSkLoopS 64 3 2 1 none 1 [[1, -1]] 1 [5, 6, 7] (Core.zeroCol 2 1)).map (·.2) = Core.drawMasks 3 2 1 1 [5, 6, 7]
    ∧ (Core.drawMasks 3 2 1 1 [5, 6, 7]).isSome := by decide

/-- **one cell, any plaintext column** (GLWE: column 0; GGLWE rows: column 0; GGSW rows: any column):
decompressing the stored `(body, seed)` gives, column for column, the standard encryption of the same
plaintext with the mask source `Source::new(seed)` and the same error. -/
theorem compressed_cell_eq (bits b n size kxe rank : Nat) (pt : Option (Col × Nat)) (sk : List Poly)
    (expand : List Nat → List Nat) (seed : List Nat) (e : Poly) (body : Col) (ms : List Col) (xa' : List Nat)
    (h : Core.encryptSkStream bits b n size kxe rank pt sk (expand seed) e = some (body, ms, xa')) :
    Core.decompressCell b n rank expand { body := body, seed := seed } =
      Core.standardCell bits b n size kxe rank pt sk (expand seed) e := by
  have hlen := stream_body_length h
  have hm : Core.drawMasks b n size rank (expand seed) = some (ms, xa') := by
    unfold Core.encryptSkStream at h
    cases hl : Core.encSkLoopS bits b n size pt 1 sk rank (expand seed) (Core.zeroCol n size) with
    | none => simp [hl] at h
    | some q =>
      obtain ⟨c0, ms0, xa0⟩ := q
      simp only [hl] at h
      cases hf : Core.encSkFinish b n size kxe pt e c0 with
      | none => simp [hf] at h
      | some bd =>
        simp only [hf, Option.some.injEq, Prod.mk.injEq] at h
        obtain ⟨_, rfl, rfl⟩ := h
        exact CoreEnc.loop_masks_eq_drawMasks bits b n size pt rank sk 1 (expand seed) _ c0 ms0 xa0 hl
  simp [Core.decompressCell, Core.standardCell, h, hlen, hm]

/-- non-vacuity: rank 2, N = 2, two limbs, radix 2^3, plaintext in column 1 (a GGSW cell) -/
example : Core.decompressCell 3 2 2 (fun s => s ++ [5, 6, 7, 0, 1, 2, 3, 4, 9, 8, 7, 6])
      { body := ((Core.encryptSkStream 64 3 2 2 5 2 (some ([[1, 0], [0, 0]], 1)) [[1, -1], [0, 1]]
        ([1, 2, 3, 4] ++ [5, 6, 7, 0, 1, 2, 3, 4, 9, 8, 7, 6]) [1, -1]).map (·.1)).getD [], seed := [1, 2, 3, 4] }
    = Core.standardCell 64 3 2 2 5 2 (some ([[1, 0], [0, 0]], 1)) [[1, -1], [0, 1]] ([1, 2, 3, 4] ++ [5, 6, 7, 0, 1, 2, 3, 4, 9, 8, 7, 6]) [1, -1]
    ∧ (Core.standardCell 64 3 2 2 5 2 (some ([[1, 0], [0, 0]], 1)) [[1, -1], [0, 1]] ([1, 2, 3, 4] ++ [5, 6, 7, 0, 1, 2, 3, 4, 9, 8, 7, 6]) [1, -1]).isSome := by
  decide

/-! ### GLWE -/

/-- **`decompress_glwe ∘ glwe_compressed_encrypt_sk = glwe_encrypt_sk`** with `source_xa = Source::new(seed)` -/
theorem glwe_decompress_eq (bits b k n size kxe rank : Nat) (pt : Option Col) (ptB : Nat) (sk : List Poly) (seedStream : List Nat) (e : Poly)
    (cc : Core.GLWECompressed) (h : Core.glweEncryptCompressed bits b k n size kxe rank pt ptB sk seedStream e = some cc) :
    (Core.decompressGlwe cc).map (·.cols) = (Core.glweEncryptSkS bits b k n size kxe rank pt ptB sk seedStream e).map (·.1.cols) := by
  unfold Core.glweEncryptCompressed at h
  unfold Core.glweEncryptSkS
  split at h
  · simp at h
  · rename_i hr
    rw [if_neg hr]
    split at h
    · simp at h
    rename_i hok
    rw [if_neg hok]
    cases hs : Core.encryptSkStream bits b n size kxe rank (pt.map (fun p => (p, 0))) sk seedStream e with
    | none => simp [hs] at h
    | some q =>
      obtain ⟨body, ms, xa'⟩ := q
      simp only [hs, Option.map_some, Option.some.injEq] at h
      subst h
      have hc := compressed_cell_eq bits b n size kxe rank (pt.map (fun p => (p, 0))) sk (fun _ => seedStream) [] e body ms xa' hs
      simp only [Core.decompressCell, Core.standardCell, hs, Option.map_some] at hc
      simp only [Core.decompressGlwe, Option.map_map]
      cases hd : Core.drawMasks b n body.length rank seedStream with
      | none => simp [hd] at hc
      | some r => simp [hd] at hc ⊢; exact hc

example : (Core.glweEncryptCompressed 64 3 6 2 2 5 1 (some [[1, 2]]) 3 [[1, -1]] [9, 1, 7, 3, 5] [1, -1]).isSome := by decide

/-! ### matrices of cells -/

/-- **every routine built on the shared loop** (`gglwe_compressed_encrypt_sk`, `ggsw_compressed_encrypt_sk`,
and the switching / automorphism / tensor keys that call the former): the `k`-th cell of the loop
keeps its storage index, stores the `k`-th seed `branch()` draws from the top source (words
`4k … 4k+3`), and decompresses to the standard encryption of its plaintext with `Source::new` of
that seed and the `k`-th error. -/
theorem compressed_cells_eq (bits b n size kxe rank : Nat) (sk : List Poly) (expand : List Nat → List Nat) :
    ∀ (descs : List (Nat × Option (Col × Nat))) (top : List Nat) (es : List Poly) (out : List (Nat × Core.CellC)),
      Core.compressedCells bits b n size kxe rank sk expand descs top es = some out →
      out.length = descs.length ∧
      ∀ (k : Nat) (d : Nat × Option (Col × Nat)), descs[k]? = some d →
        ∃ c e, out[k]? = some (d.1, c) ∧ es[k]? = some e ∧ c.seed = (top.drop (4 * k)).take 4 ∧
          Core.decompressCell b n rank expand c = Core.standardCell bits b n size kxe rank d.2 sk (expand c.seed) e := by
  intro descs
  induction descs with
  | nil => intro top es out h; simp [Core.compressedCells] at h; subst h; simp
  | cons d0 rest ih =>
    intro top es out h
    obtain ⟨idx, pt⟩ := d0
    cases es with
    | nil => simp [Core.compressedCells] at h
    | cons e es' =>
      unfold Core.compressedCells at h
      cases hn : Sampling.newSeed top with
      | none => simp [hn] at h
      | some p =>
        obtain ⟨seed, top'⟩ := p
        simp only [hn] at h
        cases hs : Core.encryptSkStream bits b n size kxe rank pt sk (expand seed) e with
        | none => simp [hs] at h
        | some q =>
          obtain ⟨body, ms, xa'⟩ := q
          simp only [hs] at h
          cases hr : Core.compressedCells bits b n size kxe rank sk expand rest top' es' with
          | none => simp [hr] at h
          | some out' =>
            simp only [hr, Option.some.injEq] at h
            subst h
            obtain ⟨il, ic⟩ := ih top' es' out' hr
            have hseed : seed = top.take 4 ∧ top' = top.drop 4 := by
              match top, hn with
              | a :: b' :: c :: d :: r, hn => simp [Sampling.newSeed] at hn; simp [hn.1.symm, hn.2.symm]
            refine ⟨by simp [il], ?_⟩
            intro k d hd
            cases k with
            | zero =>
              simp only [List.getElem?_cons_zero, Option.some.injEq] at hd
              subst hd
              exact ⟨_, e, by simp, by simp, by simp [hseed.1], compressed_cell_eq bits b n size kxe rank pt sk expand seed e body ms xa' hs⟩
            | succ j =>
              simp only [List.getElem?_cons_succ] at hd
              obtain ⟨c, e', h1, h2, h3, h4⟩ := ic j d hd
              refine ⟨c, e', by simpa using h1, by simpa using h2, ?_, h4⟩
              rw [h3, hseed.2, List.drop_drop]
              congr 2; omega

/-- storage index of `gglwe_compressed_encrypt_sk`: the loop (column outer, row inner) visits every
slot `row·rank_in + col` (`row < dnum`, `col < rank_in`) and only those -/
theorem gglwe_seed_index (b n size dsize rankIn dnum : Nat) (pt : List Poly) (i : Nat) :
    i ∈ (Core.gglweDescs b n size dsize rankIn dnum pt).map (·.1) ↔ ∃ col, col < rankIn ∧ ∃ row, row < dnum ∧ i = row * rankIn + col := by
  simp only [Core.gglweDescs, List.map_flatMap, List.map_map, List.mem_flatMap, List.mem_map, List.mem_range, Function.comp]
  constructor
  · rintro ⟨col, hc, row, hr, rfl⟩; exact ⟨col, hc, row, hr, rfl⟩
  · rintro ⟨col, hc, row, hr, rfl⟩; exact ⟨col, hc, row, hr, rfl⟩

/-- the slots are pairwise distinct: no seed is overwritten -/
theorem seed_index_injective (rankIn : Nat) {row col row' col' : Nat} (hc : col < rankIn) (hc' : col' < rankIn)
    (h : row * rankIn + col = row' * rankIn + col') : row = row' ∧ col = col' := by
  have h1 : (row * rankIn + col) / rankIn = row := by
    rw [Nat.mul_comm, Nat.mul_add_div (by omega), Nat.div_eq_of_lt hc]; rfl
  have h2 : (row' * rankIn + col') / rankIn = row' := by
    rw [Nat.mul_comm, Nat.mul_add_div (by omega), Nat.div_eq_of_lt hc']; rfl
  have hr : row = row' := by rw [← h1, ← h2, h]
  subst hr
  exact ⟨rfl, by omega⟩

/-- storage index of `ggsw_compressed_encrypt_sk`: slots `row·(rank+1) + col`, row outer, column inner -/
theorem ggsw_seed_index (b n size dsize rank dnum : Nat) (pt : Poly) (i : Nat) :
    i ∈ (Core.ggswDescs b n size dsize rank dnum pt).map (·.1) ↔ ∃ row, row < dnum ∧ ∃ col, col < rank + 1 ∧ i = row * (rank + 1) + col := by
  simp only [Core.ggswDescs, List.map_flatMap, List.map_map, List.mem_flatMap, List.mem_map, List.mem_range, Function.comp]
  constructor
  · rintro ⟨row, hr, col, hc, rfl⟩; exact ⟨row, hr, col, hc, rfl⟩
  · rintro ⟨row, hr, col, hc, rfl⟩; exact ⟨row, hr, col, hc, rfl⟩

example : (Core.gglweDescs 3 2 2 1 2 2 [[1, 0], [0, 1]]).map (·.1) = [0, 2, 1, 3] := by decide

/-! ### the GGLWE→GGSW key: two levels of branching -/

/-- **`GGLWEToGGSWKeyCompressed`** (after the repair that stores the seeds in the object): sub-key `i`
is the compressed GGLWE of its plaintext columns under the seed that is the `i`-th branch of
`Source::new(seed_xa)` (words `4i … 4i+3`), with the error stream continuing where sub-key `i−1`
stopped — so every cell of every sub-key falls under `compressed_cells_eq`. -/
theorem g2g_subkeys_eq (bits b n size kxe rank dnum dsize : Nat) (sk : List Poly) (expand : List Nat → List Nat) :
    ∀ (pts : List (List Poly)) (top : List Nat) (es : List Poly) (out : List (List (Nat × Core.CellC))),
      Core.g2gLoop bits b n size kxe rank dnum dsize sk expand pts top es = some out →
      out.length = pts.length ∧
      ∀ (i : Nat) (pti : List Poly), pts[i]? = some pti →
        ∃ cells, out[i]? = some cells ∧
          Core.gglweEncryptCompressed bits b n size kxe rank rank dnum dsize pti sk expand ((top.drop (4 * i)).take 4)
            (es.drop ((out.take i).map List.length).sum) = some cells := by
  intro pts
  induction pts with
  | nil => intro top es out h; simp [Core.g2gLoop] at h; subst h; simp
  | cons p0 rest ih =>
    intro top es out h
    unfold Core.g2gLoop at h
    cases hn : Sampling.newSeed top with
    | none => simp [hn] at h
    | some q =>
      obtain ⟨seed, top'⟩ := q
      simp only [hn] at h
      cases hc : Core.gglweEncryptCompressed bits b n size kxe rank rank dnum dsize p0 sk expand seed es with
      | none => simp [hc] at h
      | some cells =>
        simp only [hc] at h
        cases hr : Core.g2gLoop bits b n size kxe rank dnum dsize sk expand rest top' (es.drop cells.length) with
        | none => simp [hr] at h
        | some out' =>
          simp only [hr, Option.some.injEq] at h
          subst h
          obtain ⟨il, ic⟩ := ih top' (es.drop cells.length) out' hr
          have hseed : seed = top.take 4 ∧ top' = top.drop 4 := by
            match top, hn with
            | a :: b' :: c :: d :: r, hn => simp [Sampling.newSeed] at hn; simp [hn.1.symm, hn.2.symm]
          refine ⟨by simp [il], ?_⟩
          intro i pti hp
          cases i with
          | zero =>
            simp only [List.getElem?_cons_zero, Option.some.injEq] at hp
            subst hp
            exact ⟨cells, by simp, by simpa [hseed.1] using hc⟩
          | succ j =>
            simp only [List.getElem?_cons_succ] at hp
            obtain ⟨cs, h1, h2⟩ := ic j pti hp
            refine ⟨cs, by simpa using h1, ?_⟩
            rw [hseed.2, List.drop_drop, List.drop_drop] at h2
            have e1 : 4 + 4 * j = 4 * (j + 1) := by omega
            have e2 : cells.length + ((out'.take j).map List.length).sum = (((cells :: out').take (j + 1)).map List.length).sum := by
              simp
            rw [e1, e2] at h2
            exact h2

/-- non-vacuity: two sub-keys, one cell each (N = 1, toy `expand`) -/
example : (Core.g2gEncryptCompressed 64 3 1 1 3 1 1 1 [[[1]], [[0]]] [[1]] (fun s => s.map (· + 1) ++ [7, 7, 7, 7, 7])
    [0, 0, 0, 0, 1, 1, 1, 1, 2] [[0], [1]]).map (fun o => o.map (fun c => c.map (fun x => x.2.seed)))
    = some [[[2, 2, 2, 2]], [[3, 3, 3, 3]]] := by decide

end C19
